import Carquet.Spec.Order
import Carquet.Impl.Stats
import Carquet.Gen.StatsConstants
import Carquet.Proofs.StatsOrder
import Carquet.Proofs.StatsCmp
import Carquet.Proofs.StatsBuilder
import Carquet.Proofs.StatsPage
import Carquet.Proofs.StatsPrune
/-
C16 — statistics are true bounds; pruning has no false negatives.
Property statements only (about the Impl models of the code after fixes F18a–e, F19a–c);
helper lemmas live in Carquet/Proofs/Stats*.lean.  `C16_regression_*` are the kernel-checked
counterexamples for the code before each fix.
-/
namespace Carquet.Properties.C16
open Carquet Carquet.Spec.Order Carquet.Impl.Stats
open Carquet.Proofs.StatsOrder Carquet.Proofs.StatsCmp Carquet.Proofs.StatsBuilder Carquet.Proofs.StatsPage
open Carquet.Proofs.StatsPrune

/-- a reader over one leaf column of type `t` whose row groups carry the given chunk statistics -/
def readerOf (t : PType) (groups : List (Int × Option PStats)) : Reader :=
  { rowGroups := groups.map (fun g => { columns := [{ metaData := some { numValues := g.1, statistics := g.2 } }] }),
    leaves := [some t] }

/-- Constants of the source (re-extracted on every run) the models rely on. -/
theorem C16_constants :
    Gen.builderValueCap = Impl.Stats.cap ∧
    Gen.compareOps.map (·.2) = [0, 1, 2, 3, 4, 5] ∧
    8 ≤ Gen.pageWriterValueCap := by decide

/-! ## Statistics builder -/

/-- For every physical type, type length and history of builder calls (null counts not negative):
what `carquet_statistics_build` emits is true of the rows the accepted calls described —
emitted min ≤ every non-null value ≤ emitted max in the type's statistics order, emitted
null_count = number of nulls — and an emitted bound is one of the values (the `exact` flags). -/
theorem C16_builder_bounds (t : PType) (tl : Int) (ops : List BOp) (hw : ∀ o ∈ ops, WfOp o) :
    TrueBounds t (toStats (build (runOps (create t tl) ops))) (rowsOf (create t tl) ops) ∧
    (∀ lo, (build (runOps (create t tl) ops)).minValue = some lo → some lo ∈ rowsOf (create t tl) ops) ∧
    (∀ hi, (build (runOps (create t tl) ops)).maxValue = some hi → some hi ∈ rowsOf (create t tl) ops) := by
  have h := binv_runOps t tl ops (create t tl) [] hw (binv_create t tl)
  simpa using binv_build t tl _ _ h

-- non-vacuity: FLOAT {NaN, 5, -3} plus two nulls: min -3, max NaN, null_count 2
example :
    toStats (build (runOps (create .float 0)
      [.values [0,0,0xc0,0x7f, 0,0,0xa0,0x40, 0,0,0x40,0xc0] 3, .nulls 2])) =
      { min := some [0,0,0x40,0xc0], max := some [0,0,0xc0,0x7f], nullCount := some 2 } := by decide +kernel
example : ∀ o ∈ [BOp.values [0,0,0xc0,0x7f, 0,0,0xa0,0x40, 0,0,0x40,0xc0] 3, BOp.nulls 2], WfOp o := by
  intro o ho; simp at ho; rcases ho with rfl | rfl <;> simp [WfOp]

/-! ## Page writer -/

/-- For every type, max definition level and history of batches (one definition level per row
when levels are given): the statistics the page writer hands out, which are the ones it writes
into the data page header, are true of the rows written. -/
theorem C16_page_stats_bounds (t : PType) (md : Int) (bs : List Batch) (hw : ∀ b ∈ bs, WfBatch b) :
    TrueBounds t (pwStats (pwRun { type := t, maxDef := md } bs)) (pwRows { type := t, maxDef := md } bs) ∧
    (∀ p, pwHeaderStats (pwRun { type := t, maxDef := md } bs) = some p →
      toStats p = pwStats (pwRun { type := t, maxDef := md } bs)) := by
  have h0 : PInv t md ({ type := t, maxDef := md } : PageW) [] :=
    ⟨rfl, rfl, rfl, fun _ => MM.inv_empty t [] [], fun _ => rfl⟩
  have h := pinv_run t md bs _ [] hw h0
  refine ⟨by simpa using pinv_stats t md _ _ h, ?_⟩
  intro p hp
  unfold pwHeaderStats at hp
  split at hp
  · rename_i hc
    cases hp
    simp [toStats, pwStats, pwGetStatistics, hc.2]
  · cases hp

-- non-vacuity: the F18 witness {NaN, 5, -3} now gives min -3, max NaN; one null counted
example :
    pwStats (pwRun { type := .float, maxDef := 1 }
      [{ data := [0,0,0xc0,0x7f, 0,0,0xa0,0x40, 0,0,0x40,0xc0], numValues := 4, defs := some [1, 1, 0, 1] }]) =
      { min := some [0,0,0x40,0xc0], max := some [0,0,0xc0,0x7f], nullCount := some 1 } := by decide +kernel

/-! ## Row-group pruning -/

/-- No false negative: if the statistics the reader finds for the chunk (new fields, else the
deprecated pair) are true bounds of the rows of that row group, and some row satisfies
`row op probe`, then `carquet_reader_row_group_matches` sets might_match — for all six
operators, every physical type, any probe bytes, any indices (on an error it is set too). -/
theorem C16_prune_sound (r : Reader) (rg col : Int) (op : Op) (probe : List UInt8) (rows : List Row)
    (hb : ∀ st, columnStatistics r rg col = (.ok, st) → st.hasMinMax = true →
      TrueBounds (leafType r col) { min := some st.minValue, max := some st.maxValue } rows)
    (hm : ∃ v, some v ∈ rows ∧ sat (leafType r col) op v probe = true) :
    (rowGroupMatches r rg col op probe).2 = true := by
  obtain ⟨v, hv, hs⟩ := hm
  unfold rowGroupMatches
  rcases hcs : columnStatistics r rg col with ⟨s, st⟩
  cases s
  case ok =>
    by_cases hh : st.hasMinMax = false
    · simp [hh]
    · have hh' : st.hasMinMax = true := by cases h : st.hasMinMax <;> simp_all
      simp only [hh]
      have tb := hb st hcs hh'
      exact decideMatch_sound _ op probe st v (tb.1 _ rfl v hv) (tb.2.1 _ rfl v hv) hs
  all_goals rfl

-- non-vacuity: a FLOAT group {1.0, NaN} with the builder's statistics [1.0, NaN]; `x > 0.0`
example :
    (rowGroupMatches
      (readerOf .float [(2, some { minValue := some [0,0,0x80,0x3f], maxValue := some [0,0,0xc0,0x7f] })])
      0 0 .gt [0,0,0,0]).2 = true := by decide +kernel
example : TrueBounds .float { min := some [0,0,0x80,0x3f], max := some [0,0,0xc0,0x7f] }
    [some [0,0,0x80,0x3f], some [0,0,0xc0,0x7f]] := by
  refine ⟨?_, ?_, by simp⟩ <;> intro b hb x hx <;> cases hb <;> simp at hx <;> rcases hx with rfl | rfl <;> decide +kernel

/-- Absent statistics (no chunk metadata, no Statistics struct, neither the new nor the
deprecated pair complete) and every error always mean "might match". -/
theorem C16_absent_stats_match (r : Reader) (rg col : Int) (op : Op) (probe : List UInt8)
    (h : (columnStatistics r rg col).1 ≠ .ok ∨ (columnStatistics r rg col).2.hasMinMax = false) :
    rowGroupMatches r rg col op probe = ((columnStatistics r rg col).1, true) := by
  unfold rowGroupMatches
  rcases hcs : columnStatistics r rg col with ⟨s, st⟩
  rw [hcs] at h
  cases s <;> simp_all

example : (columnStatistics (readerOf .int32 [(2, some { minValue := some [1,0,0,0] })]) 0 0).2.hasMinMax = false := by
  decide +kernel

/-- `groupPred` is "matches or undecidable". -/
theorem C16_groupPred_iff (r : Reader) (col : Int) (op : Op) (value : List UInt8) (i : Nat) :
    groupPred r col op value i = true ↔
      ((rowGroupMatches r (i : Int) col op value).1 ≠ .ok ∨ (rowGroupMatches r (i : Int) col op value).2 = true) := by
  unfold groupPred
  rcases rowGroupMatches r (i : Int) col op value with ⟨s, b⟩
  cases s <;> simp

/-- `carquet_reader_filter_row_groups` returns −1 and writes nothing when `max_indices ≤ 0`;
otherwise it writes exactly the first `max_indices` of the ascending list of row groups that
match or are undecidable, and returns how many it wrote. -/
theorem C16_filter_exact (r : Reader) (col : Int) (op : Op) (value : List UInt8) (maxIdx : Int) :
    filterRowGroups r col op value maxIdx =
      if maxIdx ≤ 0 then ((-1 : Int), [])
      else
        ((((((List.range r.rowGroups.length).filter (groupPred r col op value)).take maxIdx.toNat).length : Nat) : Int),
         ((List.range r.rowGroups.length).filter (groupPred r col op value)).take maxIdx.toNat) := by
  unfold filterRowGroups
  by_cases h : maxIdx ≤ 0
  · simp [h]
  · simp only [h, if_false]
    rw [filterLoop_spec _ _ _ [] (by simp)]
    simp

/-- the list written is strictly ascending -/
theorem C16_filter_ascending (r : Reader) (col : Int) (op : Op) (value : List UInt8) (maxIdx : Int) :
    List.Pairwise (· < ·) (filterRowGroups r col op value maxIdx).2 := by
  rw [C16_filter_exact]
  split
  · exact List.Pairwise.nil
  · exact (List.Pairwise.filter _ List.pairwise_lt_range).take

example : filterRowGroups
    (readerOf .int32 [(1, some { minValue := some [1,0,0,0], maxValue := some [5,0,0,0] }),
                      (1, some { minValue := some [7,0,0,0], maxValue := some [9,0,0,0] }),
                      (1, none),
                      (1, some { minValue := some [2,0,0,0], maxValue := some [3,0,0,0] })])
    0 .le [4,0,0,0] 2 = (2, [0, 2]) := by decide +kernel

/-! ## Helpers -/

/-- `carquet_statistics_compare`, `carquet_statistics_range_overlaps` and
`carquet_column_index_page_might_match` have no false negatives: with true bounds, a row equal
to the value gives "in range" (0); a row inside the query range gives "overlaps" /
"might match".  (BOOLEAN is compared bytewise by `range_overlaps`, so there the query values
and bounds must be one byte long, i.e. `Valid`.) -/
theorem C16_helpers_sound :
    (∀ (s : PStats) (t : PType) (value : List UInt8) (rows : List Row),
      TrueBounds t { min := present s.minValue, max := present s.maxValue } rows →
      (∃ v, some v ∈ rows ∧ sat t .eq v value = true) → (statsCompare s t value).2 = 0) ∧
    (∀ (s : PStats) (t : PType) (qmin qmax : Option (List UInt8)) (rows : List Row),
      (∀ q, qmin = some q → Valid t q) → (∀ q, qmax = some q → Valid t q) →
      (∀ b, present s.minValue = some b → Valid t b) → (∀ b, present s.maxValue = some b → Valid t b) →
      TrueBounds t { min := present s.minValue, max := present s.maxValue } rows →
      (∃ v, some v ∈ rows ∧ inRange t qmin qmax v = true) → (rangeOverlaps s t qmin qmax).2 = true) ∧
    (∀ (ci : ColumnIndex) (idx : Nat) (p : PageEntry) (qmin qmax : Option (List UInt8)) (rows : List Row),
      ci.pages[idx]? = some p →
      (p.nullPage = true → ∀ x, some x ∉ rows) →
      TrueBounds ci.type { min := p.minV, max := p.maxV } rows →
      (∃ v, some v ∈ rows ∧ inRange ci.type qmin qmax v = true) →
      pageMightMatch ci (idx : Int) qmin qmax = (.ok, true)) := by
  refine ⟨statsCompare_sound, ?_, ?_⟩
  · intro s t qmin qmax rows v1 v2 v3 v4 hb hm
    exact rangeOverlapsWith_sound cmpRange s t qmin qmax rows
      (fun q lo hq hl => cmpRange_eq t q lo (v2 q hq) (v3 lo hl))
      (fun q hi hq hh => cmpRange_eq t q hi (v1 q hq) (v4 hi hh)) hb hm
  · intro ci idx p qmin qmax rows hp hnull hb hm
    have hlt : idx < ci.pages.length := by
      rcases Nat.lt_or_ge idx ci.pages.length with h | h
      · exact h
      · rw [List.getElem?_eq_none h] at hp; cases hp
    unfold pageMightMatch
    have h1 : ¬ ((idx : Int) < 0 ∨ (idx : Int) ≥ (ci.pages.length : Int)) := by omega
    simp only [h1, if_false, Int.toNat_natCast, hp]
    rw [pageDecide_sound ci.type p qmin qmax rows hnull hb hm]

-- non-vacuity: the F18 witness, page [1, 1000] of INT32 against x ≤ 256, now might match
example : pageMightMatch { type := .int32, typeLength := 0, pages :=
      [{ nullCount := 0, minV := some [1,0,0,0], maxV := some [0xe8,3,0,0], nullPage := false }] }
    0 none (some [0,1,0,0]) = (.ok, true) := by decide +kernel

/-! ## Counterexamples for the code before the fixes (kept as regressions) -/

/-- F18a: before the fix a leading NaN froze the page writer's FLOAT statistics:
{NaN, 5, −3} gave min = max = NaN, which does not bound 5 (NaN is above 5, so min ≤ 5 fails). -/
theorem C16_regression_F18a :
    pwStats (pwRunPreFix { type := .float, maxDef := 0 }
      [{ data := [0,0,0xc0,0x7f, 0,0,0xa0,0x40, 0,0,0x40,0xc0], numValues := 3, defs := none }]) =
      { min := some [0,0,0xc0,0x7f], max := some [0,0,0xc0,0x7f], nullCount := some 0 } ∧
    ¬ tle .float [0,0,0xc0,0x7f] [0,0,0xa0,0x40] := by
  constructor <;> decide +kernel

/-- F18b: before the fix a byte array longer than 256 bytes was skipped silently: "b" and
300 × "a" gave min "b" flagged exact, although 300 × "a" < "b". -/
theorem C16_regression_F18b :
    (buildPreFix (addByteArraysPreFix (create .byteArray 0) [[0x62], List.replicate 300 0x61]).2).minValue = some [0x62] ∧
    (buildPreFix (addByteArraysPreFix (create .byteArray 0) [[0x62], List.replicate 300 0x61]).2).isMinValueExact = some true ∧
    ¬ tle .byteArray [0x62] (List.replicate 300 0x61) ∧
    (build (addByteArrays (create .byteArray 0) [[0x62], List.replicate 300 0x61]).2).minValue = none := by
  refine ⟨?_, ?_, ?_, ?_⟩ <;> decide +kernel

/-- F18c: before the fix a FIXED_LEN_BYTE_ARRAY wider than 256 bytes was copied into the
256-byte `min_value` field; now the call is refused. -/
theorem C16_regression_F18c (data : List UInt8) :
    addValuesPreFix (create .flba 300) data 1 = .error .bufferOverflow ∧
    (addValues (create .flba 300) data 1).1 = .invalidArgument := by
  constructor <;> rfl

/-- F18d: before the fix the page filter compared typed values with memcmp: the INT32 page
[1, 1000] (little-endian) against `x ≤ 256` gave "no match" although the row 1 is in range. -/
theorem C16_regression_F18d :
    pageDecidePreFix { nullCount := 0, minV := some [1,0,0,0], maxV := some [0xe8,3,0,0], nullPage := false }
      none (some [0,1,0,0]) = false ∧
    inRange .int32 none (some [0,1,0,0]) [1,0,0,0] = true := by
  constructor <;> decide +kernel

/-- F18e: before the fix `range_overlaps` compared INT96 bytewise: bounds [5, 5] against
`x ≤ 2^32` gave "no overlap" although 5 ≤ 2^32. -/
theorem C16_regression_F18e :
    (rangeOverlapsPreFix { minValue := some [5,0,0,0, 0,0,0,0, 0,0,0,0], maxValue := some [5,0,0,0, 0,0,0,0, 0,0,0,0] }
      .int96 none (some [0,0,0,0, 1,0,0,0, 0,0,0,0])).2 = false ∧
    inRange .int96 none (some [0,0,0,0, 1,0,0,0, 0,0,0,0]) [5,0,0,0, 0,0,0,0, 0,0,0,0] = true ∧
    (rangeOverlaps { minValue := some [5,0,0,0, 0,0,0,0, 0,0,0,0], maxValue := some [5,0,0,0, 0,0,0,0, 0,0,0,0] }
      .int96 none (some [0,0,0,0, 1,0,0,0, 0,0,0,0])).2 = true := by
  refine ⟨?_, ?_, ?_⟩ <;> decide +kernel

def f19Reader : Reader :=
  readerOf .float [(2, some { minValue := some [0,0,0x80,0x3f], maxValue := some [0,0,0xc0,0x7f] })]

/-- F19a: before the fix a NaN compared equal to everything: the group {1.0, NaN} with
statistics [1.0, NaN] was pruned for `x > 0.0` although 1.0 matches, and for `x != NaN`, which
every row satisfies. -/
theorem C16_regression_F19a :
    rowGroupMatchesPreFix f19Reader 0 0 .gt [0,0,0,0] = .ok (.ok, false) ∧
    rowGroupMatchesPreFix f19Reader 0 0 .ne [0,0,0xc0,0x7f] = .ok (.ok, false) ∧
    sat .float .gt [0,0,0x80,0x3f] [0,0,0,0] = true ∧ sat .float .ne [0,0,0x80,0x3f] [0,0,0xc0,0x7f] = true ∧
    (rowGroupMatches f19Reader 0 0 .gt [0,0,0,0]).2 = true := by
  refine ⟨by rfl, by rfl, by decide +kernel, by decide +kernel, by decide +kernel⟩

/-- F19b: before the fix BOOLEAN went through the INT32 comparator: a one-byte probe and
one-byte bounds were read as four bytes. -/
theorem C16_regression_F19b :
    rowGroupMatchesPreFix (readerOf .boolean [(2, some { minValue := some [0], maxValue := some [1] })])
      0 0 .eq [1] = .error .overread := by rfl

/-- F19c: before the fix INT96 bounds were compared bytewise: bounds [1, 2^32] pruned
`x = 2` although 1 ≤ 2 ≤ 2^32 in the order the statistics builder uses. -/
theorem C16_regression_F19c :
    rowGroupMatchesPreFix
      (readerOf .int96 [(3, some { minValue := some [1,0,0,0, 0,0,0,0, 0,0,0,0], maxValue := some [0,0,0,0, 1,0,0,0, 0,0,0,0] })])
      0 0 .eq [2,0,0,0, 0,0,0,0, 0,0,0,0] = .ok (.ok, false) ∧
    tle .int96 [1,0,0,0, 0,0,0,0, 0,0,0,0] [2,0,0,0, 0,0,0,0, 0,0,0,0] ∧
    tle .int96 [2,0,0,0, 0,0,0,0, 0,0,0,0] [0,0,0,0, 1,0,0,0, 0,0,0,0] := by
  refine ⟨by rfl, by decide +kernel, by decide +kernel⟩

end Carquet.Properties.C16
