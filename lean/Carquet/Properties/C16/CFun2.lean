import Carquet.Proofs.CFun2.Stats
/-
C16 — stage-2 link theorems: the typed comparators of src/metadata/statistics.c and src/reader/statistics.c
(`*(const int32_t*)a`, the `const uint32_t*` view of an INT96) as translated from the CURRENT C source, against
Impl.Stats.cmpBool / cmpI32 / cmpI64 / cmpI96.  compare_float / compare_double are not translated (floating point is outside
the subset).  The loads through pointer casts are little-endian loads of `sizeof(T)` bytes at the operand's address; their
`_defined` conjuncts say that these bytes exist (and that the offset is a multiple of the size, which is all the translator
can say about alignment: the operand itself must be suitably aligned).
-/
namespace Carquet.Properties.C16
open Carquet Carquet.Impl Carquet.Proofs.CFun2

theorem C16_cfun_compare_boolean (a b : List UInt8) : (Gen.CFun.stats_compare_boolean a b).toInt = Stats.cmpBool a b :=
  compare_boolean_eq a b
theorem C16_cfun_compare_int32 (a b : List UInt8) : (Gen.CFun.stats_compare_int32 a b).toInt = Stats.cmpI32 a b :=
  compare_int32_eq a b
theorem C16_cfun_compare_int64 (a b : List UInt8) (ha : 8 ≤ a.length) (hb : 8 ≤ b.length) :
    (Gen.CFun.stats_compare_int64 a b).toInt = Stats.cmpI64 a b := compare_int64_eq a b ha hb
theorem C16_cfun_compare_int96 (a b : List UInt8) : (Gen.CFun.stats_compare_int96 a b).toInt = Stats.cmpI96 a b :=
  compare_int96_eq a b

/-- each comparator reads exactly its width from both operands: 1, 4, 8 bytes … -/
theorem C16_cfun_compare_defined (a b : List UInt8) :
    Gen.CFun.stats_compare_boolean_defined a b = decide (1 ≤ a.length ∧ 1 ≤ b.length) ∧
    Gen.CFun.stats_compare_int32_defined a b = decide (4 ≤ a.length ∧ 4 ≤ b.length) ∧
    Gen.CFun.stats_compare_int64_defined a b = decide (8 ≤ a.length ∧ 8 ≤ b.length) :=
  ⟨compare_boolean_defined a b, compare_int32_defined a b, compare_int64_defined a b⟩

/-- … and 12 bytes for INT96 (three words, from the highest down; fuel 4 suffices) -/
theorem C16_cfun_compare_int96_defined (a b : List UInt8) (ha : 12 ≤ a.length) (hb : 12 ≤ b.length) :
    Gen.CFun.stats_compare_int96_defined a b = true := compare_int96_defined a b ha hb

example : (Gen.CFun.stats_compare_int32 [0xFF, 0xFF, 0xFF, 0xFF] [1, 0, 0, 0]).toInt = -1 ∧
    Gen.CFun.stats_compare_int32_defined [1, 2, 3] [1, 2, 3, 4] = false ∧
    (Gen.CFun.stats_compare_int96 [0, 0, 0, 0, 0, 0, 0, 0, 1, 0, 0, 0] [9, 9, 9, 9, 9, 9, 9, 9, 0, 0, 0, 0]).toInt = 1 ∧
    Gen.CFun.stats_compare_int96_defined [0, 0, 0, 0, 0, 0, 0, 0, 1, 0, 0] [9, 9, 9, 9, 9, 9, 9, 9, 0, 0, 0, 0] = false := by
  decide

/-- the comparators of src/reader/statistics.c are, definition for definition, those of src/metadata/statistics.c -/
theorem C16_cfun_reader_comparators :
    Gen.CFun.rstats_compare_boolean = Gen.CFun.stats_compare_boolean ∧
    Gen.CFun.rstats_compare_int32 = Gen.CFun.stats_compare_int32 ∧
    Gen.CFun.rstats_compare_int64 = Gen.CFun.stats_compare_int64 ∧
    (∀ a b, Gen.CFun.rstats_compare_int96 a b = Gen.CFun.stats_compare_int96 a b) ∧
    Gen.CFun.rstats_compare_boolean_defined = Gen.CFun.stats_compare_boolean_defined ∧
    Gen.CFun.rstats_compare_int32_defined = Gen.CFun.stats_compare_int32_defined ∧
    Gen.CFun.rstats_compare_int64_defined = Gen.CFun.stats_compare_int64_defined ∧
    (∀ a b, Gen.CFun.rstats_compare_int96_defined a b = Gen.CFun.stats_compare_int96_defined a b) := by
  refine ⟨rfl, rfl, rfl, ?_, rfl, rfl, rfl, ?_⟩
  · intro a b
    simp only [Gen.CFun.rstats_compare_int96, Gen.CFun.rstats_compare_int96_loop1, Gen.CFun.stats_compare_int96,
      Gen.CFun.stats_compare_int96_loop1]
  · intro a b
    simp only [Gen.CFun.rstats_compare_int96_defined, Gen.CFun.rstats_compare_int96_loop1_defined,
      Gen.CFun.stats_compare_int96_defined, Gen.CFun.stats_compare_int96_loop1_defined]

end Carquet.Properties.C16
