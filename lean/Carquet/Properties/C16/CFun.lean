import Carquet.Impl.CSem
import Carquet.Impl.Stats
import Carquet.Gen.Constants
import Carquet.Gen.CFun
import Carquet.Proofs.CFun.Basic
/-
C16 — link theorems between the per-type width helpers of src/metadata/statistics.c (`get_value_size`),
src/reader/statistics.c (`get_compare_width`) and src/metadata/page_index.c (`fixed_width`) as translated from the
CURRENT source (`Carquet.Gen.CFun`, regenerated on every run) and the models the C16 theorems are about
(`Impl.Stats.valueSize`, `Impl.Stats.cmpWidth`, `Impl.Stats.fixedWidth`).
-/
namespace Carquet.Properties.C16
open Carquet Carquet.Impl
open Carquet.Spec.Order (PType)

/-- the `carquet_physical_type_t` enumerator of a physical type, as the 32-bit value the C functions switch on -/
def ptypeCode : PType → BitVec 32
  | .boolean => 0#32 | .int32 => 1#32 | .int64 => 2#32 | .int96 => 3#32
  | .float => 4#32 | .double => 5#32 | .byteArray => 6#32 | .flba => 7#32

/-- `ptypeCode` is the enumeration the current `include/carquet/types.h` declares (re-extracted on every run) -/
theorem C16_cfun_ptype_codes :
    Gen.physicalTypes =
      [("CARQUET_PHYSICAL_BOOLEAN", ((ptypeCode .boolean).toNat : Int)), ("CARQUET_PHYSICAL_INT32", ((ptypeCode .int32).toNat : Int)),
       ("CARQUET_PHYSICAL_INT64", ((ptypeCode .int64).toNat : Int)), ("CARQUET_PHYSICAL_INT96", ((ptypeCode .int96).toNat : Int)),
       ("CARQUET_PHYSICAL_FLOAT", ((ptypeCode .float).toNat : Int)), ("CARQUET_PHYSICAL_DOUBLE", ((ptypeCode .double).toNat : Int)),
       ("CARQUET_PHYSICAL_BYTE_ARRAY", ((ptypeCode .byteArray).toNat : Int)),
       ("CARQUET_PHYSICAL_FIXED_LEN_BYTE_ARRAY", ((ptypeCode .flba).toNat : Int))] := by
  decide

/-- statistics.c `get_value_size(type, type_length)` is the model's `valueSize` for every physical type and every
`int32_t type_length` (negative lengths included: both give the huge `size_t` the conversion produces). -/
theorem C16_cfun_get_value_size (t : PType) (tl : BitVec 32) :
    (Gen.CFun.statistics_get_value_size (ptypeCode t) tl).toNat = Impl.Stats.valueSize t tl.toInt := by
  cases t <;> simp [Gen.CFun.statistics_get_value_size, ptypeCode, Impl.Stats.valueSize]
  -- FIXED_LEN_BYTE_ARRAY: `(size_t)type_length`
  exact Proofs.CFun.toNat_signExtend_32_64 tl

/-- a type code outside the enumeration has value size 0 -/
theorem C16_cfun_get_value_size_unknown (c tl : BitVec 32) (h : 7 < c.toNat) :
    Gen.CFun.statistics_get_value_size c tl = 0#64 := by
  have h' : ∀ k : Nat, k ≤ 7 → c ≠ BitVec.ofNat 32 k := by
    intro k hk he; subst he; simp at h; omega
  simp [Gen.CFun.statistics_get_value_size, h' 0, h' 1, h' 2, h' 3, h' 4, h' 5, h' 7]

theorem C16_cfun_get_value_size_defined (c tl : BitVec 32) :
    Gen.CFun.statistics_get_value_size_defined c tl = true := by
  simp [Gen.CFun.statistics_get_value_size_defined]

example : (Gen.CFun.statistics_get_value_size (ptypeCode .flba) 12#32).toNat = 12 ∧
    Impl.Stats.valueSize .flba 12 = 12 ∧
    (Gen.CFun.statistics_get_value_size (ptypeCode .flba) (BitVec.ofInt 32 (-1))).toNat = 2 ^ 64 - 1 := by decide

/-- reader/statistics.c `get_compare_width(type)` is the width the model's typed comparison reads (0 = none) -/
theorem C16_cfun_get_compare_width (t : PType) :
    (Gen.CFun.get_compare_width (ptypeCode t)).toNat = (Impl.Stats.cmpWidth t).getD 0 := by
  cases t <;> decide

theorem C16_cfun_get_compare_width_unknown (c : BitVec 32) (h : 5 < c.toNat) :
    Gen.CFun.get_compare_width c = 0#32 := by
  have h' : ∀ k : Nat, k ≤ 5 → c ≠ BitVec.ofNat 32 k := by
    intro k hk he; subst he; simp at h; omega
  simp [Gen.CFun.get_compare_width, h' 0, h' 1, h' 2, h' 3, h' 4, h' 5]

theorem C16_cfun_get_compare_width_defined (c : BitVec 32) : Gen.CFun.get_compare_width_defined c = true := by
  simp [Gen.CFun.get_compare_width_defined]

example : (Gen.CFun.get_compare_width (ptypeCode .int96)).toNat = 12 ∧ Impl.Stats.cmpWidth .int96 = some 12 := by
  decide

/-- page_index.c `fixed_width(type)` is the model's `fixedWidth` -/
theorem C16_cfun_fixed_width (t : PType) :
    (Gen.CFun.fixed_width (ptypeCode t)).toNat = Impl.Stats.fixedWidth t := by
  cases t <;> decide

theorem C16_cfun_fixed_width_unknown (c : BitVec 32) (h : 5 < c.toNat) : Gen.CFun.fixed_width c = 0#32 := by
  have h' : ∀ k : Nat, k ≤ 5 → c ≠ BitVec.ofNat 32 k := by
    intro k hk he; subst he; simp at h; omega
  simp [Gen.CFun.fixed_width, h' 0, h' 1, h' 2, h' 3, h' 4, h' 5]

theorem C16_cfun_fixed_width_defined (c : BitVec 32) : Gen.CFun.fixed_width_defined c = true := by
  simp [Gen.CFun.fixed_width_defined]

example : (Gen.CFun.fixed_width (ptypeCode .double)).toNat = 8 ∧ Impl.Stats.fixedWidth .double = 8 := by decide

end Carquet.Properties.C16
