import Carquet.Spec.File
import Carquet.Proofs.SpecFileStats
/-
C16 (independent-reader part) — what it means that `Spec.File.read` accepted the statistics of a
page header: they are TRUE of that page.  (The check itself is evaluated on every page of every
file the real writer produces: harness component `filespec`, driver op `wrspec`.)
-/
namespace Carquet.Properties.C16
open Carquet.Spec Carquet.Spec.File Carquet.Spec.Order Carquet.Proofs.SpecFile

theorem checkBound_min_sound {leaf : LeafInfo} {vals : List Bytes} {b : Bytes}
    (h : checkBound leaf true vals (some b) = .ok ()) : ∀ v ∈ vals, tle leaf.ptype b v := by
  simp only [checkBound] at h
  by_cases hv : validStat leaf b = true
  · simp only [hv, Bool.not_true, Bool.false_eq_true, if_false, if_true] at h
    by_cases hall : (vals.all fun v => decide (tle leaf.ptype b v)) = true
    · intro v hm; simpa using List.all_eq_true.mp hall v hm
    · simp [hall] at h
  · simp [hv] at h

theorem checkBound_max_sound {leaf : LeafInfo} {vals : List Bytes} {b : Bytes}
    (h : checkBound leaf false vals (some b) = .ok ()) : ∀ v ∈ vals, tle leaf.ptype v b := by
  simp only [checkBound] at h
  by_cases hv : validStat leaf b = true
  · simp only [hv, Bool.not_true, Bool.false_eq_true, if_false] at h
    by_cases hall : (vals.all fun v => decide (tle leaf.ptype v b)) = true
    · intro v hm; simpa using List.all_eq_true.mp hall v hm
    · simp [hall] at h
  · simp [hv] at h

/-- **Statistics accepted by the independent reader are true of the page**: `null_count` is the number
of entries of the page below the maximum definition level, and every present bound (new and
deprecated fields alike) bounds every value of the page in the type's statistics order. -/
theorem C16_accepted_page_statistics_true (leaf : LeafInfo) (dls : List Nat) (vals : List Bytes) (s : StatsMeta)
    (h : checkStats leaf dls vals (some s) = .ok ()) :
    (∀ n, s.nullCount = some n → n = ((dls.filter (· < leaf.maxDef)).length : Int)) ∧
    (∀ b, s.minValue = some b → ∀ v ∈ vals, tle leaf.ptype b v) ∧
    (∀ b, s.min = some b → ∀ v ∈ vals, tle leaf.ptype b v) ∧
    (∀ b, s.maxValue = some b → ∀ v ∈ vals, tle leaf.ptype v b) ∧
    (∀ b, s.max = some b → ∀ v ∈ vals, tle leaf.ptype v b) := by
  have andThen_ok : ∀ {a b : Except Reason Unit}, andThen a b = .ok () → a = .ok () ∧ b = .ok () := by
    intro a b hab
    cases a with
    | error e => cases hab
    | ok u => exact ⟨rfl, hab⟩
  unfold checkStats at h
  obtain ⟨hn, h⟩ := andThen_ok h
  obtain ⟨h1, h⟩ := andThen_ok h
  obtain ⟨h2, h⟩ := andThen_ok h
  obtain ⟨h3, h4⟩ := andThen_ok h
  have hrest : (∀ n, s.nullCount = some n → n = ((dls.filter (· < leaf.maxDef)).length : Int)) ∧
      checkBound leaf true vals s.min = .ok () ∧ checkBound leaf true vals s.minValue = .ok () ∧
      checkBound leaf false vals s.max = .ok () ∧ checkBound leaf false vals s.maxValue = .ok () := by
    refine ⟨?_, h1, h2, h3, h4⟩
    intro n hnn
    rw [hnn] at hn
    simp only [checkNullCount] at hn
    by_cases heq : n = ((dls.filter (· < leaf.maxDef)).length : Int)
    · exact heq
    · simp [heq] at hn
  obtain ⟨h0, h1, h2, h3, h4⟩ := hrest
  refine ⟨h0, ?_, ?_, ?_, ?_⟩
  · intro b hb; rw [hb] at h2; exact checkBound_min_sound h2
  · intro b hb; rw [hb] at h1; exact checkBound_min_sound h1
  · intro b hb; rw [hb] at h4; exact checkBound_max_sound h4
  · intro b hb; rw [hb] at h3; exact checkBound_max_sound h3

/-- the statistics the reference writer computes are accepted (so the hypothesis above is satisfiable
for every page and every selection of statistics fields) -/
theorem C16_reference_statistics_accepted (leaf : LeafInfo) (sel : StatsSel) (dls : List Nat) (vals : List Bytes)
    (hv : ∀ v ∈ vals, validValue leaf v = true) :
    checkStats leaf dls vals (statsFor leaf sel dls vals) = .ok () :=
  checkStats_statsFor leaf sel dls vals hv

-- a page whose header understates its nulls is rejected with its own reason
example : checkStats ⟨1, 0, .int32, 0, ["a"]⟩ [1, 0, 0, 1] [[1, 0, 0, 0], [2, 0, 0, 0]] (some ⟨none, none, some 1, none, none⟩)
    = .error .statsNullCountWrong := by decide +kernel
example : checkStats ⟨1, 0, .int32, 0, ["a"]⟩ [1, 0, 0, 1] [[1, 0, 0, 0], [2, 0, 0, 0]]
    (some ⟨none, none, some 2, some [2, 0, 0, 0], some [1, 0, 0, 0]⟩) = .ok () := by decide +kernel
-- -1 < 1 in INT32 order: a min of 1 is a lie when -1 is on the page
example : checkStats ⟨0, 0, .int32, 0, ["a"]⟩ [0, 0] [[0xff, 0xff, 0xff, 0xff], [1, 0, 0, 0]]
    (some ⟨none, none, none, none, some [1, 0, 0, 0]⟩) = .error .statsMinWrong := by decide +kernel

end Carquet.Properties.C16
