import Carquet.Impl.Reader
/-
C04, BYTE_ARRAY dictionary pages.  F95: the pinned `carquet_read_dictionary_page` computed `size_t entry_size = 4 + len`
with `len` a `uint32_t`: the sum is evaluated in 32 bits and wraps for `len >= 0xFFFFFFFC`, so an entry announcing 2^32 - k
bytes (k = 1..4) passed the bound `dict_remaining < entry_size`, and every row that used it came back as a byte array of
length `(int32_t)len` = -k.  The repaired code computes the size in `size_t`; `Impl.Reader.dictScan` (unbounded `Nat`) is
the repaired scan.
-/
namespace Carquet.Properties.C04
open Carquet Carquet.Impl.Reader

/-- the scan of the pinned code: `entry_size = (uint32_t)(4 + len)` -/
def dictScanPreFixF95 (data : Bytes) : Nat → Nat → Option (List Nat)
  | 0, _ => some []
  | n + 1, pos =>
    if data.length - pos < 4 then none
    else if data.length - pos < (4 + le32 (data.drop pos)) % 2 ^ 32 then none
    else (dictScanPreFixF95 data n (pos + (4 + le32 (data.drop pos)) % 2 ^ 32)).map (pos :: ·)

/-- Every entry the repaired scan accepts lies inside the page: offset + 4 + announced length <= page size. -/
theorem C04_dict_scan_entries_in_page (data : Bytes) :
    ∀ (n pos : Nat) (offs : List Nat), dictScan data n pos = some offs →
      ∀ o ∈ offs, o + 4 + le32 (data.drop o) ≤ data.length
  | 0, pos, offs, h => by simp [dictScan] at h; subst h; simp
  | n + 1, pos, offs, h => by
    simp only [dictScan] at h
    split at h
    · cases h
    · split at h
      · cases h
      · rename_i h1 h2
        cases hr : dictScan data n (pos + 4 + le32 (data.drop pos)) with
        | none => simp [hr] at h
        | some rest =>
          simp only [hr, Option.map_some, Option.some.injEq] at h
          subst h
          intro o ho
          simp only [List.mem_cons] at ho
          cases ho with
          | inl he => subst he; omega
          | inr hm => exact C04_dict_scan_entries_in_page data n _ rest hr o hm

/-- the dictionary page of the witness file: "a", then an entry announcing 2^32 - 1 bytes with none behind it -/
def exDictF95 : Bytes := [1, 0, 0, 0, 0x61, 0xFF, 0xFF, 0xFF, 0xFF]

/-- **F95.**  The pinned scan accepts the witness (second entry at offset 5, announced length 4294967295 - far beyond the
9-byte page), the repaired scan refuses it. -/
theorem C04_regression_F95 :
    dictScanPreFixF95 exDictF95 2 0 = some [0, 5] ∧ 5 + 4 + le32 (exDictF95.drop 5) > exDictF95.length ∧
    dictScan exDictF95 2 0 = none := by decide

-- non-vacuity of `C04_dict_scan_entries_in_page`: a dictionary the scan accepts
example : dictScan [1, 0, 0, 0, 0x61, 0, 0, 0, 0, 2, 0, 0, 0, 0x62, 0x63] 3 0 = some [0, 5, 9] := by decide

end Carquet.Properties.C04
