import Carquet.Impl.CSem
import Carquet.Impl.Reader
import Carquet.Gen.CFun
import Carquet.Proofs.CFun.Basic
/-
C04 — link theorems between the page-bounds guards of src/reader/page_reader.c (`page_header_sizes_valid`,
`mmap_header_window`, `mmap_body_in_file`) as translated from the CURRENT source (`Carquet.Gen.CFun`, regenerated on
every run) and the guards of the reader model the C04 theorems are about (`Impl.Reader.sizesValid`, the mapped
branches of `Impl.Reader.loadHeader` and `Impl.Reader.bodyBytes`).  Dropping or weakening one of these checks in the C
code changes the generated definition and the theorem here stops checking.
-/
namespace Carquet.Properties.C04
open Carquet Carquet.Impl
open Carquet.Impl.Reader (Bytes Mode Load slice access loadHeader bodyBytes parseWindow sizesValid)
open Carquet.Impl.ThriftParquetReq (PageHdr)

/-- `page_header_sizes_valid(h)` is the model's `sizesValid`, for every pair of `int32_t` sizes -/
theorem C04_cfun_page_header_sizes_valid (h : PageHdr) (c u : BitVec 32)
    (hc : c.toInt = h.compressed) (hu : u.toInt = h.uncompressed) :
    Gen.CFun.page_header_sizes_valid c u = sizesValid h := by
  simp only [Gen.CFun.page_header_sizes_valid, sizesValid, ← hc, ← hu, BitVec.sle_eq_decide]
  rfl

theorem C04_cfun_page_header_sizes_valid_defined (c u : BitVec 32) :
    Gen.CFun.page_header_sizes_valid_defined c u = true := by
  simp [Gen.CFun.page_header_sizes_valid_defined]

example : Gen.CFun.page_header_sizes_valid 10#32 (BitVec.ofInt 32 (-1)) = false ∧
    sizesValid { type := 0, uncompressed := -1, compressed := 10, crc := none, word0 := 0, word4 := 0 } = false ∧
    Gen.CFun.page_header_sizes_valid 10#32 20#32 = true := by decide

/-- bytes available to the page-header parser at offset `off` of a mapped file of `len` bytes (0: outside) -/
def headerWindow (len : Nat) (off : Int) : Nat := if off < 0 ∨ off ≥ len then 0 else len - off.toNat

/-- `mmap_header_window(file_reader, offset)` is `headerWindow file_size offset`, for every `size_t` file size and
every `int64_t` offset -/
theorem C04_cfun_mmap_header_window (fileSize offset : BitVec 64) :
    (Gen.CFun.mmap_header_window fileSize offset).toNat = headerWindow fileSize.toNat offset.toInt := by
  unfold Gen.CFun.mmap_header_window headerWindow
  by_cases hneg : offset.toInt < 0
  · have : offset.slt 0#64 = true := by rw [BitVec.slt_iff_toInt_lt]; simpa using hneg
    simp [this, hneg]
  · have h0 : offset.slt 0#64 = false := by
      rw [Bool.eq_false_iff, ne_eq, BitVec.slt_iff_toInt_lt]; simpa using hneg
    have hn : offset.toNat = offset.toInt.toNat := Proofs.CFun.toNat_of_toInt_nonneg offset (by omega)
    by_cases hge : fileSize ≤ offset
    · have : offset.toInt ≥ (fileSize.toNat : Int) := by rw [BitVec.le_def] at hge; omega
      simp [h0, hge, hneg, this]
    · have hlt : ¬ (offset.toInt ≥ (fileSize.toNat : Int)) := by rw [BitVec.le_def] at hge; omega
      have hsub : (fileSize - offset).toNat = fileSize.toNat - offset.toNat := by
        rw [BitVec.le_def] at hge; bv_omega
      simp only [h0, hge, hneg, hlt, Bool.false_or, decide_false, or_self, if_false, Bool.false_eq_true, hsub, hn]

theorem C04_cfun_mmap_header_window_defined (fileSize offset : BitVec 64) :
    Gen.CFun.mmap_header_window_defined fileSize offset = true := by
  simp [Gen.CFun.mmap_header_window_defined]

example : (Gen.CFun.mmap_header_window 100#64 40#64).toNat = 60 ∧ headerWindow 100 40 = 60 ∧
    (Gen.CFun.mmap_header_window 100#64 100#64).toNat = 0 ∧
    (Gen.CFun.mmap_header_window 100#64 (BitVec.ofInt 64 (-1))).toNat = 0 := by decide

/-- The mapped branch of the model's `loadHeader` is the C call sequence `header_avail = mmap_header_window(…);
if (header_avail < 8) INVALID_PAGE; parse(header_ptr, header_avail)` with `headerWindow` for the C function. -/
theorem C04_cfun_loadHeader_window (mode : Mode) (hm : mode.mapped = true) (b : Bytes) (off : Int) :
    loadHeader mode b off =
      if headerWindow b.length off < 8 then Load.pure (.error .invalidPage)
      else ⟨parseWindow (slice b off.toNat (headerWindow b.length off)), [(off.toNat, headerWindow b.length off)], []⟩ := by
  unfold loadHeader headerWindow
  simp only [hm, if_true]
  by_cases h : off < 0 ∨ off ≥ (b.length : Int)
  · simp [h]
  · simp only [h, if_false]

/-- … and therefore with the translated C function itself, for every file below 2^64 bytes and every `int64_t`
offset: the model's header load is decided by the value the current C `mmap_header_window` returns. -/
theorem C04_cfun_loadHeader_uses_mmap_header_window (mode : Mode) (hm : mode.mapped = true) (b : Bytes)
    (offset : BitVec 64) (hb : b.length < 2 ^ 64) :
    loadHeader mode b offset.toInt =
      if (Gen.CFun.mmap_header_window (BitVec.ofNat 64 b.length) offset).toNat < 8 then Load.pure (.error .invalidPage)
      else ⟨parseWindow (slice b offset.toInt.toNat (Gen.CFun.mmap_header_window (BitVec.ofNat 64 b.length) offset).toNat),
            [(offset.toInt.toNat, (Gen.CFun.mmap_header_window (BitVec.ofNat 64 b.length) offset).toNat)], []⟩ := by
  rw [C04_cfun_mmap_header_window, C04_cfun_loadHeader_window mode hm]
  simp [Nat.mod_eq_of_lt hb]

example : (Mode.mmap).mapped = true ∧ ([1, 2, 3] : Bytes).length < 2 ^ 64 := by decide

/-- does the page body `[off + hsize, off + hsize + comp)` lie inside a mapped file of `len` bytes (`off ≤ len`) -/
def bodyInFile (len off hsize : Nat) (comp : Int) : Bool :=
  decide (0 ≤ comp) && decide (hsize ≤ len - off) && decide (comp.toNat ≤ len - off - hsize)

/-- `mmap_body_in_file(file_reader, offset, header_size, compressed_size)` is `bodyInFile`, for every file size,
header size and `int32_t` compressed size, under the function's documented precondition "offset checked by
mmap_header_window", i.e. `0 ≤ offset ≤ file_size`.  (Without it the C subtraction `file_size - offset` wraps and the
function accepts ranges outside the file — see the example below; every call site checks the offset first.) -/
theorem C04_cfun_mmap_body_in_file (fileSize offset hsize : BitVec 64) (comp : BitVec 32)
    (hoff : 0 ≤ offset.toInt ∧ offset.toInt ≤ fileSize.toNat) :
    Gen.CFun.mmap_body_in_file fileSize offset hsize comp =
      bodyInFile fileSize.toNat offset.toInt.toNat hsize.toNat comp.toInt := by
  unfold Gen.CFun.mmap_body_in_file bodyInFile
  have hn : offset.toNat = offset.toInt.toNat := Proofs.CFun.toNat_of_toInt_nonneg offset hoff.1
  have hav : (fileSize - offset).toNat = fileSize.toNat - offset.toInt.toNat := by
    have : offset.toNat ≤ fileSize.toNat := by omega
    rw [← hn]; bv_omega
  by_cases hneg : comp.toInt < 0
  · have : comp.slt 0#32 = true := by rw [BitVec.slt_iff_toInt_lt]; simpa using hneg
    have h2 : ¬ (0 ≤ comp.toInt) := by omega
    simp [this, h2]
  · have h0 : comp.slt 0#32 = false := by
      rw [Bool.eq_false_iff, ne_eq, BitVec.slt_iff_toInt_lt]; simpa using hneg
    have h2 : 0 ≤ comp.toInt := by omega
    have hc : (BitVec.signExtend 64 comp).toNat = comp.toInt.toNat :=
      Proofs.CFun.toNat_signExtend_32_64_of_nonneg comp h2
    simp only [h0, Bool.false_eq_true, if_false, h2, decide_true, Bool.true_and, BitVec.le_def, hav, hc]
    by_cases h3 : hsize.toNat ≤ fileSize.toNat - offset.toInt.toNat
    · have hs : (fileSize - offset - hsize).toNat = fileSize.toNat - offset.toInt.toNat - hsize.toNat := by
        have := hav; bv_omega
      simp [h3, hs]
    · simp [h3]

theorem C04_cfun_mmap_body_in_file_defined (fileSize offset hsize : BitVec 64) (comp : BitVec 32) :
    Gen.CFun.mmap_body_in_file_defined fileSize offset hsize comp = true := by
  simp [Gen.CFun.mmap_body_in_file_defined]

example : (0 : Int) ≤ (40#64).toInt ∧ (40#64).toInt ≤ (100#64).toNat ∧
    Gen.CFun.mmap_body_in_file 100#64 40#64 20#64 40#32 = true ∧
    Gen.CFun.mmap_body_in_file 100#64 40#64 20#64 41#32 = false ∧
    Gen.CFun.mmap_body_in_file 100#64 40#64 61#64 0#32 = false := by decide

/-- outside the precondition the C function is NOT a bounds check: with `offset > file_size` the available size wraps
around and a body far outside the file is accepted (the model's `Nat` subtraction would reject it) -/
example : Gen.CFun.mmap_body_in_file 100#64 101#64 20#64 40#32 = true ∧ bodyInFile 100 101 20 40 = false := by decide

/-- The mapped branch of the model's `bodyBytes` is `if (!mmap_body_in_file(…)) INVALID_PAGE` with `bodyInFile`
for the C function (`comp` is the non-negative compressed size `page_header_sizes_valid` let through). -/
theorem C04_cfun_bodyBytes_guard (mode : Mode) (hm : mode.mapped = true) (b : Bytes) (off hsize comp : Nat) :
    bodyBytes mode b off hsize comp =
      if bodyInFile b.length off hsize comp then (.ok (slice b (off + hsize) comp), access (off + hsize) comp)
      else (.error .invalidPage, []) := by
  unfold bodyBytes bodyInFile
  simp only [hm, if_true]
  by_cases h1 : hsize ≤ b.length - off <;> by_cases h2 : comp ≤ b.length - off - hsize <;> simp [h1, h2]

example : bodyInFile 100 40 20 40 = true ∧ bodyInFile 100 40 20 41 = false := by decide

set_option linter.unusedSimpArgs false in
/-- `carquet_page_is_zero_copy_eligible(codec, encoding, type)` (src/reader/mmap_reader.c, little-endian branch) is the
model's `zeroCopyEligible`, for every value of the three enums -/
theorem C04_cfun_zero_copy_eligible (codec encoding type : BitVec 32) :
    Gen.CFun.carquet_page_is_zero_copy_eligible codec encoding type =
      Impl.Reader.zeroCopyEligible codec.toNat encoding.toNat type.toNat := by
  have lit : ∀ (x : BitVec 32) (k : Nat), k < 2 ^ 32 → ((x == BitVec.ofNat 32 k) = decide ((x.toNat : Int) = (k : Int))) :=
    fun x k hk => Proofs.CFun.beq_lit32 x k hk
  have nlit : ∀ (x : BitVec 32) (k : Nat), k < 2 ^ 32 → ((x != BitVec.ofNat 32 k) = !decide ((x.toNat : Int) = (k : Int))) := by
    intro x k hk; rw [bne, lit x k hk]
  simp only [Gen.CFun.carquet_page_is_zero_copy_eligible, Impl.Reader.zeroCopyEligible, Impl.Reader.fixedWidth,
    nlit codec 0 (by decide), nlit encoding 0 (by decide), lit type 1 (by decide), lit type 2 (by decide),
    lit type 3 (by decide), lit type 4 (by decide), lit type 5 (by decide), lit type 7 (by decide)]
  by_cases hc : codec.toNat = 0 <;> by_cases he : encoding.toNat = 0 <;>
    simp [hc, he, Bool.or_assoc, Bool.and_assoc]

theorem C04_cfun_zero_copy_eligible_defined (codec encoding type : BitVec 32) :
    Gen.CFun.carquet_page_is_zero_copy_eligible_defined codec encoding type = true := by
  simp [Gen.CFun.carquet_page_is_zero_copy_eligible_defined]

example : Gen.CFun.carquet_page_is_zero_copy_eligible 0#32 0#32 7#32 = true ∧
    Impl.Reader.zeroCopyEligible 0 0 7 = true ∧
    Gen.CFun.carquet_page_is_zero_copy_eligible 0#32 0#32 6#32 = false ∧
    Gen.CFun.carquet_page_is_zero_copy_eligible 1#32 0#32 1#32 = false := by decide

end Carquet.Properties.C04
