import Carquet.Proofs.ReaderBounds
import Carquet.Proofs.ReaderSteps
import Carquet.Proofs.ReaderOpen
import Carquet.Proofs.ReaderExamples
/-
C04 (reader part) — no input file makes the reader read outside the file, and page iteration
makes progress.  Statements only; lemmas in Proofs/Reader*.lean.

The theorems are about `Impl.Reader` = the combined repair series (fixes/SERIES_combined.txt),
in particular F51 (zero-copy view bounded by the page body) and F12 (dictionary page must hold its
entries) — `Fixes.all`; without these two (`Fixes.head`) the property is refuted by the two
kernel-checked witnesses at the end, which the harness replays
on the real code (corpus/C04/F51-F12-F26-F52-page-extents-and-counts.ops: heap-buffer-overflow under ASan).
Heap discipline (leaks, double free) and the decoders' accesses inside a page buffer are not the
subject here (C19, C08).
-/
namespace Carquet.Properties.C04
open Carquet.Impl Carquet.Impl.Reader
open Carquet.Proofs.ReaderBounds Carquet.Proofs.ReaderSteps Carquet.Proofs.ReaderOpen Carquet.Proofs.ReaderExamples

/-- **Every read lies inside the file.**  For every byte string, every way of opening it, every
GZIP/ZSTD library behaviour, verification on or off, and every sequence of
`carquet_reader_get_column` calls and page loads on the column readers obtained: each read of the
file the reader makes (offset, length) ends at or before the end of the file, and each read of a
heap copy of a page stays inside that copy. -/
theorem C04_accesses_in_bounds (L : Libs) (verify : Bool) (mode : Mode) (b : Reader.Bytes) (calls : List Call) :
    (∀ a ∈ (apiRun Fixes.all L verify mode b calls).accesses, a.1 + a.2 ≤ b.length) ∧
    (∀ r ∈ (apiRun Fixes.all L verify mode b calls).heapReads, r.2 ≤ r.1) :=
  apiRun_inb Fixes.all rfl rfl L verify mode b calls

/-- the same for a single page load in an ARBITRARY column reader state (offsets, sizes and
counts are whatever the metadata and earlier pages made them) -/
theorem C04_load_in_bounds (L : Libs) (verify : Bool) (mode : Mode) (b : Reader.Bytes) (c : Col) (st : PState) :
    ∀ a ∈ (loadPage Fixes.all L verify mode b c st).accesses, a.1 + a.2 ≤ b.length :=
  loadPage_inb Fixes.all rfl rfl L verify mode b c st

-- non-vacuity: a page load on a two-page file does read the file (header window, then the body)
example : (loadPage Fixes.all noLibs true .fread twoPage twoPageCol (PState.init twoPageCol)).accesses = [(4, 175), (42, 8)] := by
  decide +kernel
-- … and in mapped mode the zero-copy view is the third access
example : (loadPage Fixes.all noLibs true .mmap twoPage twoPageCol (PState.init twoPageCol)).accesses =
    [(4, 175), (42, 8), (42, 8)] := by decide +kernel

/-- **Bad indices are rejected.**  `carquet_reader_get_column` returns a column reader only for a
row-group index and a column index inside the file's metadata (and a chunk the row group has);
everything else is ROW_GROUP_NOT_FOUND / COLUMN_NOT_FOUND — no access is made either way. -/
theorem C04_bad_indices_rejected (o : Opened) (rg col : Int) :
    ((rg < 0 ∨ rg ≥ o.numRowGroups) → getColumn o rg col = .error .rowGroupNotFound) ∧
    ((0 ≤ rg ∧ rg < o.numRowGroups) → (col < 0 ∨ col ≥ o.numColumns) → getColumn o rg col = .error .columnNotFound) ∧
    (∀ c, getColumn o rg col = .ok c →
      0 ≤ rg ∧ rg < o.numRowGroups ∧ 0 ≤ col ∧ col < o.numColumns ∧
      ∀ g, o.md.rowGroups[rg.toNat]? = some g → col < g.columns.length) := by
  refine ⟨?_, ?_, ?_⟩
  · intro h
    unfold getColumn Opened.numRowGroups at *
    rw [if_pos h]
  · intro h1 h2
    unfold getColumn Opened.numRowGroups Opened.numColumns at *
    rw [if_neg (by omega), if_pos h2]
  · intro c hc
    have := getColumn_ok o rg col c hc
    exact ⟨this.1, this.2.1, this.2.2.1, this.2.2.2.1, this.2.2.2.2.1⟩

example : getColumn ⟨{ rowGroups := [{}] }, [⟨0, 0, 0⟩]⟩ 1 0 = .error .rowGroupNotFound ∧
    getColumn ⟨{ rowGroups := [{}] }, [⟨0, 0, 0⟩]⟩ 0 (-1) = .error .columnNotFound ∧
    getColumn ⟨{ rowGroups := [{}] }, [⟨0, 0, 0⟩]⟩ 0 0 = .error .columnNotFound := by decide

/-- **Page iteration makes progress.**  Take any column reader state (with a `current_page` that
is not negative — it starts at 0 and only grows) and any number `n` of
consecutive page-load attempts on it (each one the "load a new page" branch of
`carquet_read_next_page`: step over the loaded page, load the next).  The file offsets of the loads
that SUCCEED increase strictly, each lies inside the file with at least 8 bytes behind it — so at
most `|file| − 7` loads can ever succeed on one column reader, however many are attempted, whatever
the file says about sizes and counts; a failed attempt costs one bounded load (a header read of
at most 17 windows, at most two dictionary pages, one body) and never moves `current_page`. -/
theorem C04_steps_linear (fx : Fixes) (L : Libs) (verify : Bool) (mode : Mode) (b : Reader.Bytes) (c : Col)
    (n : Nat) (k : Cursor) (hk : 0 ≤ k.pre.currentPage) :
    (okOffsets fx L verify mode b c n k).Pairwise (· < ·) ∧
    (∀ o ∈ okOffsets fx L verify mode b c n k, 0 ≤ o ∧ o.toNat + 8 ≤ b.length) ∧
    (okOffsets fx L verify mode b c n k).length ≤ b.length - 7 := by
  have h := okOffsets_increasing fx L verify mode b c n k hk
  refine ⟨h.2, h.1, ?_⟩
  have := increasing_length _ 0 ((b.length : Int) - 7) h.2 (by
    intro o ho
    have := h.1 o ho
    omega)
  omega

-- non-vacuity: five attempts on the two-page file load the pages at offsets 4 and 50, then fail
example : 0 ≤ (Cursor.init twoPageCol).pre.currentPage := by decide
example : okOffsets Fixes.all noLibs true .mmap twoPage twoPageCol 5 (Cursor.init twoPageCol) = [4, 50] := by
  decide +kernel

/-- a page header that parses occupies at least one byte (what makes the offsets increase) -/
theorem C04_header_size_positive (w : List UInt8) (r : ThriftParquetReq.PageHdr × Nat)
    (h : ThriftParquetReq.parsePageHeaderC w = .ok r) : 1 ≤ r.2 :=
  parsePageHeaderC_size w r h

/-! ### the code at /repo HEAD does not have the property (before F51 / F12) -/

/-- F51: with a page header that claims 100000 INT32 values over a 4-byte body, the zero-copy
branch of `load_next_page_mmap` hands out a 400000-byte view of a 104-byte file; the repaired code
sends the page through the standard path, which reports DECODE. -/
theorem C04_regression_F51 :
    (23, 400000) ∈ (loadPage Fixes.head noLibs true .buffer f51 col51 (PState.init col51)).accesses ∧
    ¬ (23 + 400000 ≤ f51.length) ∧
    (loadPage Fixes.all noLibs true .buffer f51 col51 (PState.init col51)).result = .error .decode := by
  decide +kernel

/-- F12: a dictionary page whose header claims 1000 INT32 entries over a 4-byte body makes
`carquet_read_dictionary_page` copy 4000 bytes out of a 4-byte page buffer (fread mode: heap
buffer; mapped mode: 4000 bytes at offset 19 of a 115-byte file); the repaired code reports DECODE. -/
theorem C04_regression_F12 :
    (4, 4000) ∈ (loadPage Fixes.head noLibs true .fread f12 col12 (PState.init col12)).heapReads ∧
    (19, 4000) ∈ (loadPage Fixes.head noLibs true .buffer f12 col12 (PState.init col12)).accesses ∧
    ¬ (19 + 4000 ≤ f12.length) ∧
    (loadPage Fixes.all noLibs true .fread f12 col12 (PState.init col12)).result = .error .decode := by
  decide +kernel

end Carquet.Properties.C04
