import Carquet.Proofs.ErrorApi
/-
C04 (error-reporting half) — "reports an error … with a non-OK code and a NUL-terminated message
when an error struct is supplied": the functions of src/core/error.c every error path goes through.
Statements only; lemmas in Proofs/ErrorApi.lean.  `Engine` is the C library's `vsnprintf`; the
theorems that speak of memory safety hold for every engine that keeps the ISO C contract
(`Engine.Contract`), the exact ones for the standard's rule `Engine.std`.
-/
namespace Carquet.Properties.C04
open Carquet Carquet.Impl.ErrorApi Carquet.Proofs.ErrorApi

/-- error structs a caller can hold: any struct (whatever bytes its message array held, e.g. an
uninitialised local) after `carquet_error_init` / `carquet_error_clear` or after ANY
`carquet_error_set` (any code, any format result of any length, or a NULL format), then any
number of further `set`, `init`, `set_context` and `copy` calls -/
inductive Reach (E : Engine) : ErrorT → Prop where
  | init (e : ErrorT) (h : e.message.length = cap) : Reach E (errorInit e)
  | set (e : ErrorT) (h : e.message.length = cap) (code : Int) (file : Option Nat) (line : Int) (fn : Option Nat)
      (text : Option Bytes) : Reach E (errorSet E e code file line fn text)
  | context (e : ErrorT) (h : Reach E e) (o r c : Int) : Reach E (errorSetContext e o r c)
  | copy (dest src : ErrorT) (h : Reach E src) : Reach E (errorCopy dest src)

/-- **The message is always a C string.**  Whatever the formatting produces — a text longer than
the array (truncation), an empty one, a NULL format — and whatever the array held before, after
`carquet_error_set` the message array still has its 256 bytes (nothing was stored outside it) and
one of them is a NUL; the same after `init`; `set_context` and `copy` keep it.  With the standard's
`vsnprintf` the string is exactly the text cut to 255 bytes. -/
theorem C04_error_message_terminated (E : Engine) (hE : E.Contract) :
    (∀ e : ErrorT, Reach E e → e.message.length = cap ∧ (0 : UInt8) ∈ e.message) ∧
    (∀ (old text : Bytes), (0 : UInt8) ∉ text →
      cstr (setMessage Engine.std old (some text)) = text.take (cap - 1)) := by
  refine ⟨?_, fun old text h => cstr_setMessage_std old text h⟩
  intro e h
  induction h with
  | init e h =>
    refine ⟨?_, mem_store _ _ _ _ (by simp)⟩
    simp only [errorInit]
    rw [store_length _ _ _ (by have := cap_pos; simp; omega)]; exact h
  | set e h code file line fn text => exact setMessage_ok E hE e.message h text
  | context e _ o r c ih => exact ih
  | copy dest src _ ih => exact ih

-- non-vacuity: a 300-byte text into an array full of 0xAA: 255 bytes of it, then the NUL, nothing else touched
example : (errorSet Engine.std ⟨7, List.replicate 256 0xAA, none, 0, none, 5, 6, 7⟩ 21 (some 1) 99 (some 2)
      (some (List.replicate 300 65))).message = List.replicate 255 65 ++ [0] ∧
    (errorSet Engine.std ⟨7, List.replicate 256 0xAA, none, 0, none, 5, 6, 7⟩ 21 (some 1) 99 (some 2) (some [72, 105])).message
      = [72, 105, 0] ++ List.replicate 253 0xAA ∧
    (errorSet Engine.std ⟨7, List.replicate 256 0xAA, none, 0, none, 5, 6, 7⟩ 21 (some 1) 99 (some 2) none).offset = 5 := by
  decide +kernel

/-- **`carquet_error_format` stays inside the caller's buffer.**  For a buffer of ANY size
(0, 1, smaller than the text, larger), any error struct and any conforming `snprintf`: every
store lies inside `[0, buffer_size)`, the buffer keeps its size, with `buffer_size > 0` and a
non-NULL error it ends up holding a NUL, the value returned is −1 (only if the engine reports a
conversion error on the first call) or in `[0, buffer_size)`; with `buffer_size = 0` nothing is
stored and 0 is returned.  For the error structs of `C04_error_message_terminated` the call never
reads past the message array (no `unterminated` outcome). -/
theorem C04_error_format_in_bounds (E : Engine) (hE : E.Contract) (e : Option ErrorT) (b : Bytes) (size : Nat)
    (hb : b.length = size) :
    (∀ out, errorFormat E e (some b) size = .ok out →
      out.buf.length = size ∧ (∀ w ∈ out.writes, w.1 + w.2 ≤ size) ∧ -1 ≤ out.ret ∧
      (0 < size → out.ret < size) ∧ (size = 0 → out = ⟨b, 0, []⟩) ∧
      (0 < size → e.isSome → (0 : UInt8) ∈ out.buf)) ∧
    (∀ e', e = some e' → (0 : UInt8) ∈ e'.message → ∃ out, errorFormat E e (some b) size = .ok out) := by
  constructor
  · intro out h
    cases e with
    | none =>
      simp only [errorFormat] at h
      cases h
      exact ⟨hb, by simp, by simp, by intro h; simpa using h, fun _ => rfl, by simp⟩
    | some e =>
      simp only [errorFormat] at h
      by_cases hs : size = 0
      · rw [if_pos hs] at h
        cases h
        exact ⟨hb, by simp, by simp, by omega, fun _ => rfl, by omega⟩
      · rw [if_neg hs] at h
        have hpos : 0 < size := by omega
        obtain ⟨hl, hw, hn⟩ := headOut_facts E hE b size hb hpos e
        split at h
        · cases h
        · split at h
          · cases h
            exact ⟨hl, hw, by simp, by simp; omega, by omega, fun _ _ => hn⟩
          · split at h
            · cases h
              exact ⟨hl, hw, by simp; omega, by intro _; simp only; omega, by omega, fun _ _ => hn⟩
            · cases h
              rename_i h1 h2
              have hg : Good size (headOut E b size e) := ⟨hl, by omega, by omega, hw, hn⟩
              have := tailPieces_good E hE size e _ hg
              exact ⟨this.len, this.writes, by have := this.lo; omega, fun _ => this.hi, by omega, fun _ _ => this.nul⟩
  · intro e' he hm
    subst he
    simp only [errorFormat]
    by_cases hs : size = 0
    · exact ⟨_, by rw [if_pos hs]⟩
    · rw [if_neg hs, if_neg (by simpa using hm)]
      split
      · exact ⟨_, rfl⟩
      · split <;> exact ⟨_, rfl⟩

/-- **The length rule (standard `snprintf`).**  `fullText e` is "[status] message" followed by the
context pieces that are set and the hint.  (a) If it fits (`|fullText| < buffer_size`) the buffer
holds exactly that text and its NUL, the bytes behind are untouched, and the length is returned.
(b) If already "[status] message" does not fit, the buffer holds its first `buffer_size − 1`
bytes and a NUL, and `buffer_size − 1` is returned.  (When a later piece does not fit, the value
returned counts the pieces that fitted — `C04_error_format_in_bounds` still bounds it.) -/
theorem C04_error_format_length_rule (e : ErrorT) (b : Bytes) (size : Nat) (hm : (0 : UInt8) ∈ e.message) :
    ((fullText e).length < size →
      ∃ out, errorFormat Engine.std (some e) (some b) size = .ok out ∧
        out.buf = store b 0 (fullText e ++ [0]) ∧ out.ret = ((fullText e).length : Nat)) ∧
    (0 < size → size ≤ (headText e).length →
      ∃ out, errorFormat Engine.std (some e) (some b) size = .ok out ∧
        out.buf = store b 0 ((headText e).take (size - 1) ++ [0]) ∧ out.ret = (size : Int) - 1) := by
  constructor
  · intro hfit
    have hpos : 0 < size := by omega
    obtain ⟨h1, h2⟩ := headOut_std b size hpos e
    have hhead : (headText e).length < size := by
      simp only [fullText, List.length_append] at hfit; omega
    simp only [errorFormat, if_neg (Nat.ne_of_gt hpos), if_neg (by simpa using hm : ¬ (0 : UInt8) ∉ e.message)]
    rw [if_neg (by rw [h2]; omega), if_neg (by rw [h2]; omega)]
    have hs : Shape b (headText e) (headOut Engine.std b size e) := by
      refine ⟨?_, h2⟩
      rw [h1, List.take_of_length_le (by omega)]
    obtain ⟨h3, h4⟩ := tailPieces_shape size e b _ hs hfit
    exact ⟨_, rfl, h3, h4⟩
  · intro hpos hbig
    obtain ⟨h1, h2⟩ := headOut_std b size hpos e
    simp only [errorFormat, if_neg (Nat.ne_of_gt hpos), if_neg (by simpa using hm : ¬ (0 : UInt8) ∉ e.message)]
    rw [if_neg (by rw [h2]; omega), if_pos (by rw [h2]; omega)]
    exact ⟨_, rfl, h1, rfl⟩

-- non-vacuity: INVALID_MAGIC (20) with message "bad", offset 4096, row group 0, no column; buffers of 200, 12, 1, 0 bytes
example :
    (errorFormat Engine.std (some ⟨20, [98, 97, 100, 0] ++ List.replicate 252 1, none, 0, none, 4096, -1, 0⟩)
        (some (List.replicate 200 0xEE)) 200).toOption.map (fun o => (cstr o.buf, o.ret)) =
      some (str "[Invalid magic bytes] bad (file offset: 4096) (row group: 0)\n  Hint: Ensure the file is a valid Parquet file (should start with 'PAR1')", 135) ∧
    (errorFormat Engine.std (some ⟨20, [98, 97, 100, 0] ++ List.replicate 252 1, none, 0, none, 4096, -1, 0⟩)
        (some (List.replicate 12 0xEE)) 12).toOption.map (fun o => (o.buf, o.ret)) = some (str "[Invalid ma" ++ [0], 11) ∧
    (errorFormat Engine.std (some ⟨20, [98, 97, 100, 0] ++ List.replicate 252 1, none, 0, none, 4096, -1, 0⟩)
        (some [0xEE]) 1).toOption.map (fun o => (o.buf, o.ret)) = some ([0], 0) ∧
    (errorFormat Engine.std (some ⟨20, [98, 97, 100, 0] ++ List.replicate 252 1, none, 0, none, 4096, -1, 0⟩)
        (some []) 0).toOption.map (fun o => (o.buf, o.ret, o.writes)) = some ([], 0, []) ∧
    -- the last piece does not fit: 70 bytes hold the head, the offset and the cut hint; 60 is returned
    (errorFormat Engine.std (some ⟨20, [98, 97, 100, 0] ++ List.replicate 252 1, none, 0, none, 4096, -1, 0⟩)
        (some (List.replicate 70 0xEE)) 70).toOption.map (fun o => (o.ret, (cstr o.buf).length)) = some (60, 69) := by
  decide +kernel

/-- strings the library returns as `const char*`: non-empty, without a NUL inside -/
def cString (s : Bytes) : Bool := !s.isEmpty && s.all (· ≠ 0)

/-- **`carquet_status_string` is total**: for every `int` — the enum's values, the gaps between
them, negative and huge ones — it returns a proper C string; outside the `case` labels that is the
`default` string; every constant of `carquet_status_t` has its own `case` and no two share a text. -/
theorem C04_status_string_total :
    (∀ status : Int, cString (statusString status) = true) ∧
    (∀ status : Int, status ∉ Gen.Api.statusStrings.map (·.1) → statusString status = str Gen.Api.statusStringsDefault) ∧
    Gen.Api.statusCodes.all (fun c => Gen.Api.statusStrings.any (fun p => p.1 == c.2)) = true ∧
    (Gen.Api.statusStrings.map (·.2)).Nodup ∧ Gen.Api.statusStringsDefault ∉ Gen.Api.statusStrings.map (·.2) := by
  refine ⟨?_, ?_, by decide +kernel, by decide +kernel, by decide +kernel⟩
  · intro status
    exact lookup_all (fun s => cString (str s)) _ _ (by decide +kernel) (by decide +kernel) status
  · intro status h
    unfold statusString
    rw [lookup_default _ _ _ h]

example : statusString 21 = str "Invalid file footer" ∧ statusString 5 = str "Unknown error" ∧
    statusString (-50) = str "Unknown error" ∧ statusString 4294967296 = str "Unknown error" := by decide +kernel

/-- **The `*_name` functions, the hint and the recoverability test are total** on every `int`
(no table indexed by the argument): a proper C string each (`NULL` or a proper C string for the
hint), the `default` result outside the `case` labels, every enum constant with its own `case`. -/
theorem C04_names_total :
    (∀ v : Int, cString (physicalTypeName v) = true ∧ cString (compressionName v) = true ∧
                cString (encodingName v) = true ∧ (∀ h, recoveryHint v = some h → cString h = true)) ∧
    (∀ v : Int, (v ∉ Gen.Api.physicalTypeNames.map (·.1) → physicalTypeName v = str Gen.Api.physicalTypeNamesDefault) ∧
                (v ∉ Gen.Api.compressionNames.map (·.1) → compressionName v = str Gen.Api.compressionNamesDefault) ∧
                (v ∉ Gen.Api.encodingNames.map (·.1) → encodingName v = str Gen.Api.encodingNamesDefault) ∧
                (v ∉ Gen.Api.recoveryHints.map (·.1) → recoveryHint v = Gen.Api.recoveryHintsDefault.map str) ∧
                (v ∉ Gen.Api.recoverable.map (·.1) → isRecoverable v = Gen.Api.recoverableDefault)) ∧
    Gen.Api.physicalTypes.all (fun c => Gen.Api.physicalTypeNames.any (fun p => p.1 == c.2)) = true ∧
    Gen.Api.compressionCodecs.all (fun c => Gen.Api.compressionNames.any (fun p => p.1 == c.2)) = true ∧
    Gen.Api.encodings.all (fun c => Gen.Api.encodingNames.any (fun p => p.1 == c.2)) = true := by
  refine ⟨?_, ?_, by decide +kernel, by decide +kernel, by decide +kernel⟩
  · intro v
    refine ⟨lookup_all (fun s => cString (str s)) _ _ (by decide +kernel) (by decide +kernel) v,
            lookup_all (fun s => cString (str s)) _ _ (by decide +kernel) (by decide +kernel) v,
            lookup_all (fun s => cString (str s)) _ _ (by decide +kernel) (by decide +kernel) v, ?_⟩
    intro h hh
    have := lookup_all (fun (s : Option String) => match s with | none => true | some t => cString (str t))
      Gen.Api.recoveryHints Gen.Api.recoveryHintsDefault (by decide +kernel) (by decide +kernel) v
    unfold recoveryHint at hh
    cases hl : lookup Gen.Api.recoveryHints Gen.Api.recoveryHintsDefault v with
    | none => rw [hl] at hh; cases hh
    | some t =>
      rw [hl] at hh this
      simp only [Option.map_some, Option.some.injEq] at hh
      subst hh; exact this
  · intro v
    refine ⟨fun h => ?_, fun h => ?_, fun h => ?_, fun h => ?_, fun h => ?_⟩
    · unfold physicalTypeName; rw [lookup_default _ _ _ h]
    · unfold compressionName; rw [lookup_default _ _ _ h]
    · unfold encodingName; rw [lookup_default _ _ _ h]
    · unfold recoveryHint; rw [lookup_default _ _ _ h]
    · unfold isRecoverable; rw [lookup_default _ _ _ h]

example : physicalTypeName 7 = str "FIXED_LEN_BYTE_ARRAY" ∧ physicalTypeName 8 = str "UNKNOWN" ∧
    compressionName (-1) = str "UNKNOWN" ∧ encodingName 1 = str "UNKNOWN" ∧ encodingName 9 = str "BYTE_STREAM_SPLIT" ∧
    recoveryHint 1 = none ∧ isRecoverable 12 = true ∧ isRecoverable 1000 = false := by decide +kernel

end Carquet.Properties.C04
