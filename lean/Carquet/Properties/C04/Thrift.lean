import Carquet.Impl.Thrift
import Carquet.Impl.ThriftParquet
import Carquet.Impl.ThriftCost
import Carquet.Gen.Constants
import Carquet.Proofs.ThriftSafeParquet
import Carquet.Proofs.ThriftCost
import Carquet.Proofs.ThriftCostParquet
/-
C04 / C08 for the metadata parser — safety of the Thrift compact decoder on ARBITRARY bytes.
Property statements only; helper lemmas live in Carquet/Proofs/ThriftSafe*.lean, ThriftCost*.lean.

The model (Impl.Thrift, Impl.ThriftParquet; fidelity exact, tied by harness/ops_thrift.c) makes the
three runtime notions data:
  * a `while (thrift_read_field_begin)` loop runs on a budget of `size + 1` iterations and reports
    `Err.fuel` when it runs out — "terminates" is "`Err.fuel` is unreachable";
  * `thrift_skip` runs on a grant of `stk` C stack frames and reports `Err.stack` when it needs
    more — "bounded recursion" is "`Err.stack` is unreachable with `maxNesting + 1` frames";
  * `pos` counts the bytes consumed and `rest` is what is left — "no read outside the buffer" is
    "`rest` stays a suffix of the input and `pos + |rest|` stays `size`";
and Impl.ThriftCost counts steps along the same control flow.
-/
namespace Carquet.Properties.C04
open Carquet Carquet.Impl.Thrift Carquet.Impl.ThriftParquet
open Carquet.Proofs.ThriftSafe

/-! ## (a) (b) (c) The two top-level parsers, on every byte string -/

/-- `parquet_parse_file_metadata` (repaired code), for EVERY byte string `bs`:
(a) no field loop exhausts its budget of `|bs| + 1` iterations (`Err.fuel` unreachable);
(c) `thrift_skip` never needs more than the frames it is granted (`Err.stack` unreachable; see
    `C04_thrift_skip_stack_bound` for the number: `maxNesting + 1`);
(b) the position reported never exceeds `|bs|`;
(d) none of the three top-level arrays (schema, row_groups, key_value_metadata) it allocates has
    more cells than `bs` has bytes. -/
theorem C04_thrift_file_metadata_safe (bs : List UInt8) :
    (parseFileMetaDataX Cfg.fixed bs).status ≠ some .fuel ∧
    (parseFileMetaDataX Cfg.fixed bs).status ≠ some .stack ∧
    (parseFileMetaDataX Cfg.fixed bs).consumed ≤ bs.length ∧
    (parseFileMetaDataX Cfg.fixed bs).val.schema.length ≤ bs.length ∧
    (parseFileMetaDataX Cfg.fixed bs).val.rowGroups.length ≤ bs.length ∧
    (parseFileMetaDataX Cfg.fixed bs).val.keyValueMetadata.length ≤ bs.length :=
  parseFileMetaDataX_safe bs

/-- a malformed footer: schema list announcing 127 elements in a 3-byte input is refused by the
count check of `thrift_read_list_begin`, not by running out of anything -/
example : (parseFileMetaDataX Cfg.fixed [0x29, 0xFC, 0x7F]).status = some .decode ∧
    (parseFileMetaDataX Cfg.fixed [0x29, 0xFC, 0x7F]).consumed = 3 := by decide +kernel

/-- `parquet_parse_page_header` (repaired code), for EVERY byte string: (a), (c), (b) as above. -/
theorem C04_thrift_page_header_safe (bs : List UInt8) :
    (parsePageHeaderX Cfg.fixed bs).status ≠ some .fuel ∧
    (parsePageHeaderX Cfg.fixed bs).status ≠ some .stack ∧
    (parsePageHeaderX Cfg.fixed bs).consumed ≤ bs.length :=
  parsePageHeaderX_safe bs

/-- a page header cut in the middle of a varint: TRUNCATED, position at the end -/
example : (parsePageHeaderX Cfg.fixed [0x15, 0x00, 0x15, 0x80]).status = some .truncated ∧
    (parsePageHeaderX Cfg.fixed [0x15, 0x00, 0x15, 0x80]).consumed = 4 := by decide +kernel

/-! ## `thrift_skip`, every wire type, from every decoder state -/

/-- `thrift_skip(dec, ty)` as the parsers call it, for EVERY wire type `ty` (0..15 and beyond) and
EVERY decoder state `d` without error whose loop budget exceeds the bytes left (as it does
throughout a parse: the budget is `size + 1`): the result `d'`
(a) is not `Err.fuel`, (c) is not `Err.stack`,
(b) has consumed a prefix of what was left — `d'.rest` is a suffix of `d.rest` and `pos` has
    advanced by exactly the number of bytes dropped —
and, when it ends without error, is back at the nesting level it started at and (unless `ty` is
one of the two bool codes, whose value sits in the field header) has consumed at least one byte;
a BYTE / DOUBLE / UUID that the stream ends inside is reported as THRIFT_TRUNCATED (fix F62). -/
theorem C04_thrift_skip_safe (ty : Nat) (d : Dec) (hb : d.rest.length < d.budget) (hs : d.status = none) :
    (skipField Cfg.fixed ty d).status ≠ some .fuel ∧
    (skipField Cfg.fixed ty d).status ≠ some .stack ∧
    (skipField Cfg.fixed ty d).rest <:+ d.rest ∧
    (skipField Cfg.fixed ty d).pos + (skipField Cfg.fixed ty d).rest.length = d.pos + d.rest.length ∧
    ((skipField Cfg.fixed ty d).status = none → (skipField Cfg.fixed ty d).lastId.length = d.lastId.length) ∧
    ((skipField Cfg.fixed ty d).status = none → ¬(ty = 1 ∨ ty = 2) →
      (skipField Cfg.fixed ty d).rest.length + 1 ≤ d.rest.length) ∧
    (d.rest.length < fixedWidth ty → (skipField Cfg.fixed ty d).status = some .truncated) := by
  have hg : Good d := ⟨hb, by rw [hs]; simp, by rw [hs]; simp⟩
  have ha := skipField_adv ty d hg
  have hg' := ha.good hg
  obtain ⟨pre, hr, _⟩ := ha.rest
  exact ⟨hg'.nofuel, hg'.nostack, ⟨pre, hr.symm⟩, ha.pos_len, ha.depth,
    fun hok hnb => skipField_progress ty d hg hs hnb hok, skipField_short ty d hs⟩

/-- the same from the start of a buffer: the position stays inside `bs` and what is left is
`bs` from that position on -/
theorem C04_thrift_skip_in_buffer (ty : Nat) (bs : List UInt8) :
    (skipField Cfg.fixed ty (Dec.init bs)).pos ≤ bs.length ∧
    (skipField Cfg.fixed ty (Dec.init bs)).rest = bs.drop (skipField Cfg.fixed ty (Dec.init bs)).pos ∧
    (skipField Cfg.fixed ty (Dec.init bs)).status ≠ some .fuel ∧
    (skipField Cfg.fixed ty (Dec.init bs)).status ≠ some .stack ∧
    (bs.length < fixedWidth ty → (skipField Cfg.fixed ty (Dec.init bs)).status = some .truncated) := by
  have hshort := skipField_short ty (Dec.init bs) rfl
  have hg := init_good bs
  have ha := skipField_adv ty (Dec.init bs) hg
  have hg' := ha.good hg
  obtain ⟨pre, hr, hp⟩ := ha.rest
  have hr' : bs = pre ++ (skipField Cfg.fixed ty (Dec.init bs)).rest := hr
  have hp' : (skipField Cfg.fixed ty (Dec.init bs)).pos = 0 + pre.length := hp
  generalize skipField Cfg.fixed ty (Dec.init bs) = d' at *
  refine ⟨?_, ?_, hg'.nofuel, hg'.nostack, hshort⟩
  · rw [hp', hr', List.length_append]; omega
  · rw [hp', Nat.zero_add]
    conv => rhs; rw [hr']
    simp

/-- a struct whose only field is a list of 3 doubles of which only one is there: the skip stops
at the second double with THRIFT_TRUNCATED, inside the buffer (before fix F62 the failed
`carquet_buffer_reader_skip` was ignored and the skip ended without error behind the STOP byte);
with one double announced it ends OK behind the STOP byte -/
example : (skipField Cfg.fixed 12 (Dec.init [0x19, 0x37, 1, 2, 3, 4, 5, 6, 7, 8, 0])).pos = 10 ∧
    (skipField Cfg.fixed 12 (Dec.init [0x19, 0x37, 1, 2, 3, 4, 5, 6, 7, 8, 0])).status = some .truncated ∧
    (skipField Cfg.preFix 12 (Dec.init [0x19, 0x37, 1, 2, 3, 4, 5, 6, 7, 8, 0])).pos = 11 ∧
    (skipField Cfg.preFix 12 (Dec.init [0x19, 0x37, 1, 2, 3, 4, 5, 6, 7, 8, 0])).status = none ∧
    (skipField Cfg.fixed 12 (Dec.init [0x19, 0x17, 1, 2, 3, 4, 5, 6, 7, 8, 0])).pos = 11 ∧
    (skipField Cfg.fixed 12 (Dec.init [0x19, 0x17, 1, 2, 3, 4, 5, 6, 7, 8, 0])).status = none := by
  decide +kernel

/-! ## (c) Recursion depth -/

/-- **`thrift_skip` needs at most `THRIFT_MAX_NESTING + 1` frames** (the F8 repair), for EVERY
input: started at nesting level `L` with at least one frame and at least `maxNesting + 1 − L`
frames granted, it never asks for another one.  (The struct parsers of parquet_types.c are not
recursive: their depth is their static nesting, at most 6 frames above `thrift_skip`.) -/
theorem C04_thrift_skip_stack_bound (stk ty : Nat) (d : Dec) (hb : d.rest.length < d.budget) (hs : d.status = none)
    (h1 : 1 ≤ stk) (hstk : maxNesting + 1 ≤ stk + d.lastId.length) :
    (skip Cfg.fixed stk ty d).status ≠ some .stack := by
  have hg : Good d := ⟨hb, by rw [hs]; simp, by rw [hs]; simp⟩
  exact ((skip_adv stk ty d hg (fun _ => ⟨h1, hstk⟩)).good hg).nostack

/-- `maxNesting` is the value of `THRIFT_MAX_NESTING` in the current source -/
example : maxNesting = Gen.thriftMaxNesting := by decide

/-- the bound is sharp: 32 nested one-element lists need the 33rd frame (which then refuses the
33rd nesting level with THRIFT_DECODE), and 32 frames are one too few -/
example :
    (skip Cfg.fixed 33 9 (Dec.init (List.replicate 32 0x19 ++ [0x13, 0x00]))).status = some .decode ∧
    (skip Cfg.fixed 32 9 (Dec.init (List.replicate 32 0x19 ++ [0x13, 0x00]))).status = some .stack := by
  decide +kernel

/-- before the F8 repair no number of frames sufficed: `n` nested lists exhaust `n` frames -/
example : (skip Cfg.preFix 40 9 (Dec.init (List.replicate 40 0x19 ++ [0x03]))).status = some .stack := by
  decide +kernel

/-! ## (a) Linear time -/

/-- **`thrift_skip` takes at most `36·(bytes consumed) + 36` steps**, for EVERY wire type and
EVERY input (a step = one `thrift_skip` invocation, one bool element, or one
`thrift_read_field_begin`; Impl.ThriftCost).  In particular at most `36·|remaining| + 36`. -/
theorem C04_thrift_skip_linear (ty : Nat) (d : Dec) (hb : d.rest.length < d.budget) (hs : d.status = none) :
    skipFieldSteps Cfg.fixed ty d + 36 * (skipField Cfg.fixed ty d).rest.length ≤ 36 * d.rest.length + 36 := by
  have hg : Good d := ⟨hb, by rw [hs]; simp, by rw [hs]; simp⟩
  exact skipSteps_le stackBudget ty d hg hs (stackBudget_ok d)

/-- a list announcing 14 doubles with 14 bytes left: one element is skipped, the second is
THRIFT_TRUNCATED (3 steps; before fix F62 the 13 short elements were 13 more steps that consumed
nothing and reported nothing — the case the constant 36 was made for); a struct with a
one-double list takes 5 steps -/
example : skipFieldSteps Cfg.fixed 9 (Dec.init [0xF7, 14, 1, 2, 3, 4, 5, 6, 7, 8, 9, 10, 11, 12, 13, 14]) = 3 ∧
    (skipField Cfg.fixed 9 (Dec.init [0xF7, 14, 1, 2, 3, 4, 5, 6, 7, 8, 9, 10, 11, 12, 13, 14])).pos = 10 ∧
    (skipField Cfg.fixed 9 (Dec.init [0xF7, 14, 1, 2, 3, 4, 5, 6, 7, 8, 9, 10, 11, 12, 13, 14])).status = some .truncated ∧
    skipFieldSteps Cfg.preFix 9 (Dec.init [0xF7, 14, 1, 2, 3, 4, 5, 6, 7, 8, 9, 10, 11, 12, 13, 14]) = 15 ∧
    skipFieldSteps Cfg.fixed 12 (Dec.init [0x19, 0x17, 1, 2, 3, 4, 5, 6, 7, 8, 0]) = 5 := by
  decide +kernel

/-- **`parquet_parse_file_metadata` takes at most `44·|bs| + 5` steps, and
`parquet_parse_page_header` at most `38·|bs| + 3`, for EVERY byte string `bs`** (repaired code).
A step is a `thrift_read_field_begin`, a `thrift_skip` invocation, a skipped bool element, or one
cell of an array allocated for a list (Impl.ThriftCost follows the parsers' control flow function
by function) — so the first bound is also a bound on the total number of array cells
`parquet_parse_file_metadata` allocates, repeated list fields and the cells visited after an
error included (the element loops of parquet_types.c are not guarded by the decoder status). -/
theorem C04_thrift_parsers_linear (bs : List UInt8) :
    parseFileMetaDataSteps Cfg.fixed bs ≤ 44 * bs.length + 5 ∧
    parsePageHeaderSteps Cfg.fixed bs ≤ 38 * bs.length + 3 :=
  ⟨parseFileMetaDataSteps_le bs, parsePageHeaderSteps_le bs⟩

/-- a well-formed 55-byte footer (2 schema elements, 1 row group, 1 column chunk with 2 encodings
and a 1-element path) takes 35 steps; a 12-byte input whose row-group list announces 10 elements
and fails inside the first one takes 24 (the loop still visits the 9 other cells) -/
example :
    parseFileMetaDataSteps Cfg.fixed (writeFileMetaData
      { version := 2, numRows := 3,
        schema := [{ name := some [0x72], numChildren := 1 }, { type := some 1, name := some [0x61], repetition := some 0 }],
        rowGroups := [{ totalByteSize := 10, numRows := 3,
                        columns := [{ fileOffset := 4, metaData := some { type := 1, encodings := [0, 3],
                                                                          pathInSchema := [[0x61]], numValues := 3 } }] }] })
      = 35 ∧
    parseFileMetaDataSteps Cfg.fixed [0x49, 0xAC, 0xFF, 1, 2, 3, 4, 5, 6, 7, 8, 9] = 24 ∧
    parsePageHeaderSteps Cfg.fixed [21, 0, 21, 20, 21, 20, 44, 21, 2, 21, 0, 21, 0, 21, 0, 28, 54, 14, 40, 1, 1, 0, 0, 0] = 14 := by
  decide +kernel

/-! ## (d) Counts and lengths read from the wire are bounded by what is left -/

/-- The count handed out by `thrift_read_list_begin` / `thrift_read_set_begin` is non-negative and
at most the number of bytes left behind the header; the one of `thrift_read_map_begin` at most
that number plus one (the key/value type byte); the bytes returned by `thrift_read_binary` are a
prefix of what is left behind the length varint — for EVERY decoder state. -/
theorem C04_thrift_counts_bounded (d : Dec) :
    (0 ≤ (readListBegin d).count ∧ (readListBegin d).count.toNat ≤ (readListBegin d).dec.rest.length) ∧
    (0 ≤ (readMapBegin d).count ∧ (readMapBegin d).count.toNat ≤ (readMapBegin d).dec.rest.length + 1) ∧
    (∀ b, (readBinary d).1 = some b →
      b.length ≤ (readVarint d).2.rest.length ∧ b = (readVarint d).2.rest.take b.length) :=
  ⟨readListBegin_count d, readMapBegin_count d, readBinary_slice d⟩

/-- `thrift_read_list_begin; VALIDATE_COUNT; calloc(count, sizeof T); for …` (every list member of
parquet_types.c below the top level): the list that is stored has at most `max` cells and at most
as many cells as bytes were left in front of the list header, whatever the element parser does. -/
theorem C04_thrift_list_alloc_bounded {α : Type} (max : Int) (elem : Dec → α × Dec) (d : Dec) (xs : List α)
    (h : (parseListOf max elem d).1 = some xs) : xs.length ≤ d.rest.length ∧ (xs.length : Int) ≤ max := by
  have h1 := (readListBegin_adv d).len
  have hc := readListBegin_count d
  unfold parseListOf at h
  split at h
  · cases h
  · rename_i hbad
    simp only [Option.some.injEq] at h
    subst h
    rw [readMany_length]
    omega

/-- a list header announcing 2^31−1 elements in front of 4 bytes: `thrift_read_list_begin` sets
THRIFT_DECODE and hands out count 0, so an empty array is stored; four elements in front of five
bytes are read -/
example : (parseListOf maxEncodings readI32 (Dec.init [0xF5, 0xFF, 0xFF, 0xFF, 0xFF, 0x07, 1, 2, 3, 4])).1 = some [] ∧
    (parseListOf maxEncodings readI32 (Dec.init [0xF5, 0xFF, 0xFF, 0xFF, 0xFF, 0x07, 1, 2, 3, 4])).2.status = some .decode ∧
    (parseListOf maxEncodings readI32 (Dec.init [0x45, 2, 4, 6, 8, 9])).1 = some [1, 2, 3, 4] := by
  decide +kernel

end Carquet.Properties.C04
