import Carquet.Proofs.CFun3.ThriftDecC
/-
C04 — stage 3 of the C -> Lean function translator (translate/gen_cfun.py, notes/NOTES_cfun3.md): link theorems between the
definitions REGENERATED FROM THE C SOURCE on every check run (Gen/CFun.lean: functions that read and write a struct through
a pointer) and the hand-written Impl models the property theorems of C04 are about.  Only `C04_cfun_<function>` (value
side) and `C04_cfun_<function>_defined` (no undefined behaviour under the documented precondition), each followed by a
non-vacuity example.  The abstraction functions / invariants are executable (Impl/CFun3/*.lean) and are evaluated by the
driver on every self-check line (`modelLink3`).
-/

/-! ## Thrift -/
section CFun3Thrift
/-
C04 — the safety reading of the stage-3 link for the Thrift decoder's primitive readers (src/thrift/thrift_decode.c, as
translated from the CURRENT source in `Carquet.Gen.CFun`): whatever the file bytes are, under the decoder invariant
`Impl.CFun3.decInv` (reader = exactly the list `data`, `0 ≤ pos ≤ size`, `0 ≤ nesting_level ≤ 32`, 32 cells of
`last_field_id`) these readers touch only `data[0 .. size)` and `last_field_id[0 .. 32)`, shift by less than 64 and
overflow no `int`: the generated `…_defined` (false on an out-of-bounds access, a signed overflow, a bad shift count, an
exhausted loop fuel) is `true` for EVERY content of `data`.  The value side is Properties/C13/CFun3Thrift.lean.
-/
namespace Carquet.Properties.C04
open Carquet Carquet.Impl Carquet.Impl.CFun3 Carquet.Proofs.CFun3.ThriftDec

/-- `read_byte_raw` reads `data[pos]` only when `pos < size` -/
theorem C04_cfun_read_byte_raw_defined (s : Gen.CFun.thrift_decoder_t) (data : List UInt8) (h : decInv s data = true) :
    Gen.CFun.read_byte_raw_defined s data = true := read_byte_raw_defined s data ((decInv_iff _ _).mp h)

example :
    let s : Gen.CFun.thrift_decoder_t :=
      { reader := { data := 0, size := 5#64, pos := 4#64 },
        last_field_id := List.replicate 32 0#16, nesting_level := 0#32, bool_pending := false, bool_value := false,
        status := 0#32 }
    decInv s [1, 2, 3, 4, 5] = true ∧ Gen.CFun.read_byte_raw_defined s [1, 2, 3, 4, 5] = true ∧
    -- at the end of the buffer nothing is read
    Gen.CFun.read_byte_raw_defined { s with reader := { s.reader with pos := 5#64 } } [1, 2, 3, 4, 5] = true ∧
    (Gen.CFun.read_byte_raw { s with reader := { s.reader with pos := 5#64 } } [1, 2, 3, 4, 5]).2.status = 33#32 ∧
    -- outside the invariant, a data list shorter than `reader.size`: `data[4]` is out of bounds
    decInv s [1, 2, 3] = false ∧ Gen.CFun.read_byte_raw_defined s [1, 2, 3] = false ∧
    -- outside the invariant, `pos > size`: `size - pos` wraps and the guard lets the read through
    decInv { s with reader := { s.reader with pos := 6#64 } } [1, 2, 3, 4, 5] = false ∧
    Gen.CFun.read_byte_raw_defined { s with reader := { s.reader with pos := 6#64 } } [1, 2, 3, 4, 5] = false := by
  decide

/-- `thrift_read_varint`: every read inside the buffer, shift counts 0, 7, …, 63 only, no overflow of `shift += 7`, at
most ten iterations -/
theorem C04_cfun_thrift_read_varint_defined (s : Gen.CFun.thrift_decoder_t) (data : List UInt8)
    (h : decInv s data = true) : Gen.CFun.thrift_read_varint_defined s data = true :=
  varint_defined s data ((decInv_iff _ _).mp h)

example :
    let s : Gen.CFun.thrift_decoder_t :=
      { reader := { data := 0, size := 12#64, pos := 0#64 },
        last_field_id := List.replicate 32 0#16, nesting_level := 0#32, bool_pending := false, bool_value := false,
        status := 0#32 }
    -- twelve continuation bytes: the loop stops after ten (shift = 70 is never used as a shift count)
    decInv s (List.replicate 12 0xFF) = true ∧
    Gen.CFun.thrift_read_varint_defined s (List.replicate 12 0xFF) = true ∧
    (Gen.CFun.thrift_read_varint s (List.replicate 12 0xFF)).2.reader.pos = 10#64 ∧
    (Gen.CFun.thrift_read_varint s (List.replicate 12 0xFF)).2.status = 30#32 ∧
    -- continuation bytes up to the end of the buffer: THRIFT_TRUNCATED, no read past the end
    Gen.CFun.thrift_read_varint_defined { s with reader := { s.reader with pos := 9#64 } } (List.replicate 12 0xFF) =
      true ∧
    (Gen.CFun.thrift_read_varint { s with reader := { s.reader with pos := 9#64 } } (List.replicate 12 0xFF)).2.status =
      33#32 ∧
    -- outside the invariant (list shorter than `reader.size`): the fourth read is out of bounds
    decInv s (List.replicate 3 0xFF) = false ∧
    Gen.CFun.thrift_read_varint_defined s (List.replicate 3 0xFF) = false := by decide +kernel

/-- `thrift_read_field_begin`: `last_field_id[nesting_level - 1]` is read / written only for `1 ≤ nesting_level ≤ 32`,
`prev_field_id + delta` does not overflow `int`, the header and the long-form field id are read inside the buffer -/
theorem C04_cfun_thrift_read_field_begin_defined (s : Gen.CFun.thrift_decoder_t) (data : List UInt8)
    (type : BitVec 32) (field_id : BitVec 16) (h : decInv s data = true) :
    Gen.CFun.thrift_read_field_begin_defined s data type field_id = true :=
  field_begin_defined s data ((decInv_iff _ _).mp h) type field_id

example :
    let s : Gen.CFun.thrift_decoder_t :=
      { reader := { data := 0, size := 2#64, pos := 0#64 },
        last_field_id := List.replicate 31 0#16 ++ [100#16], nesting_level := 32#32, bool_pending := false,
        bool_value := false, status := 0#32 }
    -- at the deepest level the cell used is `last_field_id[31]`
    decInv s [0x25, 0x00] = true ∧ Gen.CFun.thrift_read_field_begin_defined s [0x25, 0x00] 0#32 0#16 = true ∧
    (Gen.CFun.thrift_read_field_begin s [0x25, 0x00] 0#32 0#16).2.2 = (5#32, 102#16) ∧
    (Gen.CFun.thrift_read_field_begin s [0x25, 0x00] 0#32 0#16).2.1.last_field_id.drop 31 = [102#16] ∧
    -- long form whose field id runs into the end of the buffer
    Gen.CFun.thrift_read_field_begin_defined s [0x05, 0x80] 0#32 0#16 = true ∧
    (Gen.CFun.thrift_read_field_begin s [0x05, 0x80] 0#32 0#16).2.1.status = 33#32 ∧
    -- nesting level 33 is outside the invariant: `last_field_id[32]` would be accessed
    decInv { s with nesting_level := 33#32 } [0x25, 0x00] = false ∧
    Gen.CFun.thrift_read_field_begin_defined { s with nesting_level := 33#32 } [0x25, 0x00] 0#32 0#16 = false := by
  decide +kernel

/-- `thrift_read_list_begin`: header and count varint are read inside the buffer; the comparison of the count with the
remaining bytes involves no signed arithmetic -/
theorem C04_cfun_thrift_read_list_begin_defined (s : Gen.CFun.thrift_decoder_t) (data : List UInt8)
    (elem_type count : BitVec 32) (h : decInv s data = true) :
    Gen.CFun.thrift_read_list_begin_defined s data elem_type count = true :=
  list_begin_defined s data ((decInv_iff _ _).mp h) elem_type count

example :
    let s : Gen.CFun.thrift_decoder_t :=
      { reader := { data := 0, size := 3#64, pos := 0#64 },
        last_field_id := List.replicate 32 0#16, nesting_level := 0#32, bool_pending := false, bool_value := false,
        status := 0#32 }
    -- a count varint cut by the end of the buffer: THRIFT_TRUNCATED, `*count = 0`
    decInv s [0xF8, 0x80, 0x80] = true ∧ Gen.CFun.thrift_read_list_begin_defined s [0xF8, 0x80, 0x80] 0#32 0#32 = true ∧
    (Gen.CFun.thrift_read_list_begin s [0xF8, 0x80, 0x80] 0#32 0#32).2 = (8#32, 0#32) ∧
    (Gen.CFun.thrift_read_list_begin s [0xF8, 0x80, 0x80] 0#32 0#32).1.status = 33#32 ∧
    -- an empty buffer: header 0 after the failed read
    Gen.CFun.thrift_read_list_begin_defined { s with reader := { s.reader with pos := 3#64 } } [0xF8, 0x80, 0x80]
      0#32 0#32 = true ∧
    -- outside the invariant (list shorter than `reader.size`): the count varint is read past the end of the list
    decInv s [0xF8] = false ∧ Gen.CFun.thrift_read_list_begin_defined s [0xF8] 0#32 0#32 = false := by
  decide +kernel

/-- `thrift_read_struct_begin`: `last_field_id[nesting_level]` is written only for `0 ≤ nesting_level < 32`
(THRIFT_MAX_NESTING), `nesting_level++` does not overflow -/
theorem C04_cfun_thrift_read_struct_begin_defined (s : Gen.CFun.thrift_decoder_t) (data : List UInt8)
    (h : decInv s data = true) : Gen.CFun.thrift_read_struct_begin_defined s = true :=
  struct_begin_defined s data ((decInv_iff _ _).mp h)

example :
    let s : Gen.CFun.thrift_decoder_t :=
      { reader := { data := 0, size := 0#64, pos := 0#64 },
        last_field_id := List.replicate 32 9#16, nesting_level := 32#32, bool_pending := false, bool_value := false,
        status := 0#32 }
    -- a decoder at nesting level 32: THRIFT_DECODE is latched, `last_field_id[32]` is not written, the level stays 32
    decInv s [] = true ∧ Gen.CFun.thrift_read_struct_begin_defined s = true ∧
    (Gen.CFun.thrift_read_struct_begin s).status = 30#32 ∧
    (Gen.CFun.thrift_read_struct_begin s).last_field_id = s.last_field_id ∧
    (Gen.CFun.thrift_read_struct_begin s).nesting_level = 32#32 ∧
    -- level 31: the last cell is written
    Gen.CFun.thrift_read_struct_begin_defined { s with nesting_level := 31#32 } = true ∧
    (Gen.CFun.thrift_read_struct_begin { s with nesting_level := 31#32 }).last_field_id.drop 30 = [9#16, 0#16] ∧
    -- outside the invariant: a negative level indexes before the array
    decInv { s with nesting_level := BitVec.ofInt 32 (-1) } [] = false ∧
    Gen.CFun.thrift_read_struct_begin_defined { s with nesting_level := BitVec.ofInt 32 (-1) } = false ∧
    -- (level 33, also outside the invariant, takes the error branch: nothing is written)
    Gen.CFun.thrift_read_struct_begin_defined { s with nesting_level := 33#32 } = true := by decide

end Carquet.Properties.C04
end CFun3Thrift
