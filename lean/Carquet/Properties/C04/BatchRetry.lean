import Carquet.Impl.BatchReader
/-
C04 ("every subsequent sequence of valid API calls … never crashes"), batch reader part: calling
`carquet_batch_reader_next` AGAIN after a call that failed is a valid call.  F96: in the pinned code a failed
`open_row_group_readers` left `current_row_group >= 0` with every `col_readers[i] == NULL`, and the next call
evaluated `carquet_column_has_next(col_readers[0])` on the NULL pointer (model status `ub`).  The repaired code
tests the pointer and takes the row-group increment back, so the next call tries the same row group again.
-/
namespace Carquet.Properties.C04
open Carquet.Impl.BatchReader Carquet.Impl.ColumnReader

theorem openReaders_length {α : Type} (mode : IOMode) (f : File α) (g : Int) :
    ∀ (proj : List Int) (rs : List (Reader α)), openReaders mode f g proj = .ok rs → rs.length = proj.length
  | [], rs, h => by simp [openReaders] at h; subst h; rfl
  | c :: cs, rs, h => by
    simp only [openReaders] at h
    cases hc : getColumn mode f g c with
    | error e => simp [hc] at h
    | ok r =>
      cases hr : openReaders mode f g cs with
      | error e => simp [hc, hr] at h
      | ok rs' =>
        simp only [hc, hr, Except.ok.injEq] at h
        subst h
        simp [openReaders_length mode f g cs rs' hr]

theorem getColumn_no_ub {α : Type} (mode : IOMode) (f : File α) (g c : Int) :
    Impl.BatchReader.getColumn mode f g c ≠ .error .ub := by
  unfold Impl.BatchReader.getColumn
  split
  · simp
  · split
    · simp
    · split
      · split <;> simp
      · simp

theorem openReaders_no_ub {α : Type} (mode : IOMode) (f : File α) (g : Int) :
    ∀ proj : List Int, openReaders mode f g proj ≠ .error .ub
  | [] => by simp [openReaders]
  | c :: cs => by
    simp only [openReaders]
    cases hc : Impl.BatchReader.getColumn mode f g c with
    | error e =>
      simp only [ne_eq, Except.error.injEq]
      intro h; subst h
      exact getColumn_no_ub mode f g c hc
    | ok r =>
      cases hr : openReaders mode f g cs with
      | error e =>
        simp only [ne_eq, Except.error.injEq]
        intro h; subst h
        exact openReaders_no_ub mode f g cs hr
      | ok rs => simp

/-- what the row-group advance leaves behind -/
theorem advanceRowGroup_spec {α : Type} (b : BatchReader α) (hb : b.projected ≠ []) :
    (advanceRowGroup b).2 ≠ .ub ∧
    ((advanceRowGroup b).2 = .ok → (advanceRowGroup b).1.colReaders ≠ []) := by
  unfold advanceRowGroup
  by_cases hend : b.currentRowGroup + 1 ≥ (b.file.rowGroups.length : Int)
  · simp [hend]
  · simp only [hend, if_false]
    cases ho : openReaders b.mode b.file (b.currentRowGroup + 1) b.projected with
    | error e =>
      refine ⟨?_, ?_⟩
      · intro h
        simp only at h
        subst h
        exact openReaders_no_ub _ _ _ _ ho
      · intro h
        simp only at h
        subst h
        -- `openReaders` never fails with status `ok`
        exact absurd ho (by
          clear ho
          generalize b.projected = proj
          induction proj with
          | nil => simp [openReaders]
          | cons c cs ih =>
            simp only [openReaders]
            cases hc : Impl.BatchReader.getColumn b.mode b.file (b.currentRowGroup + 1) c with
            | error e =>
              simp only [ne_eq, Except.error.injEq]
              intro h; subst h
              revert hc
              unfold Impl.BatchReader.getColumn
              split
              · simp
              · split
                · simp
                · split
                  · split <;> simp
                  · simp
            | ok r =>
              cases hr : openReaders b.mode b.file (b.currentRowGroup + 1) cs with
              | error e => simpa [hr] using ih
              | ok rs => simp)
    | ok rs =>
      refine ⟨by simp, ?_⟩
      intro _
      have hl := openReaders_length b.mode b.file (b.currentRowGroup + 1) b.projected rs ho
      intro hnil
      simp only at hnil
      subst hnil
      simp at hl
      exact hb (List.eq_nil_of_length_eq_zero hl.symm)

theorem readBatchRows_no_ub {α : Type} (fx : Fixes) (b : BatchReader α) (r0 : Reader α) :
    (readBatchRows fx b r0).2.1 ≠ .ub := by
  unfold readBatchRows
  split
  · simp
  · split <;> simp

theorem afterAdvance_no_ub {α : Type} (fx : Fixes) (b : BatchReader α) (hb : b.projected ≠ []) :
    (afterAdvance fx b).2.1 ≠ .ub := by
  obtain ⟨h1, h2⟩ := advanceRowGroup_spec b hb
  unfold afterAdvance
  cases hadv : advanceRowGroup b with
  | mk b' st =>
    rw [hadv] at h1 h2
    simp only at h1 h2
    cases st with
    | ok =>
      simp only
      cases hr : b'.colReaders with
      | nil => exact absurd hr (h2 rfl)
      | cons r0 rest => simpa using readBatchRows_no_ub fx b' r0
    | ub => exact absurd rfl h1
    | endOfData => simp
    | rowGroupNotFound => simp
    | columnNotFound => simp
    | decode => simp

/-- **No call of the repaired `carquet_batch_reader_next` dereferences a missing column reader**: for EVERY state of a
batch reader with at least one projected column - in particular the state a failed call leaves behind - the status is
never `ub`.  (`ub` remains reachable only for a batch reader without projected columns, which `create` never
builds from a file with columns.) -/
theorem C04_batch_next_never_ub {α : Type} (fx : Fixes) (br : BatchReader α) (hp : br.projected ≠ []) :
    (next fx br).2.1 ≠ .ub := by
  unfold next
  split
  · exact afterAdvance_no_ub fx br hp
  · split
    · exact afterAdvance_no_ub fx br hp
    · split
      · exact readBatchRows_no_ub fx br _
      · exact afterAdvance_no_ub fx br hp

/-- the state a failed call leaves behind, and a second call on it -/
def exFileF96 : File Nat := { columns := [⟨"v", 0, 0, 4, true, false⟩], rowGroups := [[], []] }
def exBrF96 : BatchReader Nat := ⟨.fread, exFileF96, 7, [0], -1, []⟩

-- non-vacuity: the hypothesis of `C04_batch_next_never_ub` holds of the example, whose first call FAILS
example : exBrF96.projected ≠ [] ∧ (next Fixes.all exBrF96).2.1 = .columnNotFound := by decide

/-- **F96.**  A file whose first row group lacks the projected column chunk: the first call fails with
COLUMN_NOT_FOUND in both versions.  Pinned code: the second call dereferences the NULL `col_readers[0]` (`ub`: a
SEGV on the real code, witness replayed by the C04 check).  Repaired code: the second and third calls report the
same error again and the reader stays in front of the row group. -/
theorem C04_regression_F96 :
    (nextPreFixF96 Fixes.all exBrF96).2.1 = .columnNotFound ∧
    (nextPreFixF96 Fixes.all (nextPreFixF96 Fixes.all exBrF96).1).2.1 = .ub ∧
    (next Fixes.all exBrF96).2.1 = .columnNotFound ∧
    (next Fixes.all (next Fixes.all exBrF96).1).2.1 = .columnNotFound ∧
    (next Fixes.all (next Fixes.all (next Fixes.all exBrF96).1).1).2.1 = .columnNotFound ∧
    (next Fixes.all (next Fixes.all exBrF96).1).1.currentRowGroup = -1 := by decide

end Carquet.Properties.C04
