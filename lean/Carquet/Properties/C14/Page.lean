import Carquet.Proofs.ReaderCrc
import Carquet.Proofs.ReaderExamples
import Carquet.Properties.C14.Crc
/-
C14 (page part) — with checksum verification on, damage to a stored page body is reported; an
undamaged page is never reported as damaged.  Statements only; lemmas in Proofs/ReaderCrc.lean;
the checksum fact used is C14_burst_detected (Properties/C14/Crc.lean).

`load_next_page_*` is `prepStage` (find the data page's header `hr`, loading dictionaries on the
way; `loadDataPage_of_prep`) followed by `finishDataPage` on that header.
`storedDataPage mode b st hr = some body` says: the data page whose header `hr` the loader found
in state `st` passes the loader's header tests and its stored body `body` (`hr.1.compressed`
bytes behind the header) lies in the file.  Damage to the header is outside the statement (as in
the property); the theorems talk about the file as it is stored.
-/
namespace Carquet.Properties.C14
open Carquet.Impl Carquet.Impl.Reader
open Carquet.Proofs.ReaderCrc Carquet.Proofs.ReaderExamples

/-- **Damage is reported.**  Verification on; the page header carries a checksum, namely that of
the body `orig` the page was written with; what is stored now is `body`, a copy of `orig` damaged
inside one window of `w ≤ 32` bits (a flipped bit, a changed byte, any burst — `BurstDamage`).
Then the load returns CARQUET_ERROR_CRC_MISMATCH — `finishDataPage` on that header, hence
`load_next_page_*` from every state in which `prepStage` finds that header — in every mode, for
every codec, before anything is decompressed or decoded. -/
theorem C14_page_damage_reported (fx : Fixes) (L : Libs) (mode : Mode) (b : Reader.Bytes) (c : Col) (st : PState)
    (hr : ThriftParquetReq.PageHdr × Nat) (body orig : Reader.Bytes) (crc : Int) (w : Nat)
    (hst : storedDataPage mode b st hr = some body)
    (hcrc : hr.1.crc = some crc) (horig : (crc % 4294967296).toNat = (Crc32.crc32 orig).toNat)
    (hw : w ≤ 32) (hdmg : Carquet.Spec.Crc32.BurstDamage w orig body) :
    (finishDataPage fx L true mode b c st hr).result = .error .crcMismatch ∧
    ∀ st0, (prepStage fx L true mode b c st0).result = .ok (st, hr) →
      (loadDataPage fx L true mode b c st0).result = .error .crcMismatch := by
  have h := finishDataPage_crcBad fx L true mode b c st hr body hst
    (by rw [hcrc]; exact crcBad_of_burst crc orig body w hw horig hdmg)
  exact ⟨h, fun st0 hp => by rw [loadDataPage_of_prep fx L true mode b c st0 (st, hr) hp]; exact h⟩

/-- the same for a dictionary page -/
theorem C14_dictionary_damage_reported (fx : Fixes) (L : Libs) (mode : Mode) (b : Reader.Bytes) (c : Col) (off : Int)
    (h : ThriftParquetReq.PageHdr) (hs : Nat) (body orig : Reader.Bytes) (crc : Int) (w : Nat)
    (hst : storedDictPage mode b off = some (h, hs, body))
    (hcrc : h.crc = some crc) (horig : (crc % 4294967296).toNat = (Crc32.crc32 orig).toNat)
    (hw : w ≤ 32) (hdmg : Carquet.Spec.Crc32.BurstDamage w orig body) :
    (loadDictionary fx L true mode b c off).result = .error .crcMismatch :=
  loadDictionary_crcBad fx L true mode b c off h hs body hst (by rw [hcrc]; exact crcBad_of_burst crc orig body w hw horig hdmg)

/-- the two-page example file with bit 0 of the first page body's third byte flipped (42 + 2 = byte 44) -/
def twoPageDamaged : Reader.Bytes := twoPage.take 44 ++ [0x01] ++ twoPage.drop 45

-- non-vacuity: the hypotheses hold for that damage (stored checksum 58791804 = crc32 of the
-- original body), and the load indeed reports CRC_MISMATCH in all three modes
example :
    (prepStage Fixes.all noLibs true .fread twoPageDamaged twoPageCol (PState.init twoPageCol)).result =
      .ok (PState.init twoPageCol, (⟨0, 8, 8, some 58791804, 2, 0⟩, 38)) ∧
    storedDataPage .fread twoPageDamaged (PState.init twoPageCol) (⟨0, 8, 8, some 58791804, 2, 0⟩, 38) =
      some [1, 0, 1, 0, 2, 0, 0, 0] ∧
    (58791804 % 4294967296 : Int).toNat = (Crc32.crc32 [1, 0, 0, 0, 2, 0, 0, 0]).toNat ∧
    Carquet.Spec.Crc32.BurstDamage 1 [1, 0, 0, 0, 2, 0, 0, 0] [1, 0, 1, 0, 2, 0, 0, 0] ∧
    (loadDataPage Fixes.all noLibs true .fread twoPageDamaged twoPageCol (PState.init twoPageCol)).result = .error .crcMismatch ∧
    (loadDataPage Fixes.all noLibs true .mmap twoPageDamaged twoPageCol (PState.init twoPageCol)).result = .error .crcMismatch ∧
    (loadDataPage Fixes.all noLibs true .buffer twoPageDamaged twoPageCol (PState.init twoPageCol)).result = .error .crcMismatch := by
  decide +kernel

/-- **A clean page is accepted.**  If the stored body has the checksum the header carries (or the
header carries none, or verification is off), the checksum test passes and the load never reports
CRC_MISMATCH: whatever it returns comes from decompression and decoding. -/
theorem C14_clean_page_accepted (fx : Fixes) (L : Libs) (verify : Bool) (mode : Mode) (b : Reader.Bytes) (c : Col) (st : PState)
    (hr : ThriftParquetReq.PageHdr × Nat) (body : Reader.Bytes)
    (hst : storedDataPage mode b st hr = some body)
    (hclean : verify = false ∨ hr.1.crc = none ∨ ∃ crc, hr.1.crc = some crc ∧ (crc % 4294967296).toNat = (Crc32.crc32 body).toNat) :
    crcBad verify hr.1.crc body = false ∧ (finishDataPage fx L verify mode b c st hr).result ≠ .error .crcMismatch := by
  have hok : crcBad verify hr.1.crc body = false := by
    rcases hclean with hv | hn | ⟨crc, hc, he⟩
    · rw [hv]; exact crcBad_off _ _
    · rw [hn]; exact crcBad_none _ _
    · rw [hc]; exact crcBad_clean verify crc body he
  exact ⟨hok, finishDataPage_clean fx L verify mode b c st hr body hst hok⟩

-- non-vacuity: the undamaged first page of the two-page file is stored with its checksum and loads
example :
    storedDataPage .mmap twoPage (PState.init twoPageCol) (⟨0, 8, 8, some 58791804, 2, 0⟩, 38) = some [1, 0, 0, 0, 2, 0, 0, 0] ∧
    (58791804 % 4294967296 : Int).toNat = (Crc32.crc32 [1, 0, 0, 0, 2, 0, 0, 0]).toNat ∧
    (match (loadDataPage Fixes.all noLibs true .mmap twoPage twoPageCol (PState.init twoPageCol)).result with
     | .ok _ => true | .error _ => false) = true := by
  decide +kernel

-- with verification off the damaged page is decoded (no checksum error; the value is simply wrong)
example : (okPage (loadDataPage Fixes.all noLibs false .fread twoPageDamaged twoPageCol (PState.init twoPageCol)).result).map (·.page.vals)
    = some [[1, 0, 1, 0], [2, 0, 0, 0]] := by
  decide +kernel

end Carquet.Properties.C14
