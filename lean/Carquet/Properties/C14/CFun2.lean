import Carquet.Proofs.CFun2.Crc32
/-
C14 — stage-2 link theorems: src/util/crc32.c as translated from the CURRENT C source by translate/gen_cfun.py.
The run-time table `crc32_tables[8][256]` and its flag are STATE of the translated functions (implicit parameters and
results): `crc32_init_tables` is translated as it is (two loop nests), and proved to produce the table of the model
`Impl.Crc32.table`; `crc32_slicing_by_8`, `carquet_crc32`, `carquet_crc32_update` are proved equal to the model on
every state the program can be in (`CrcState`: table not yet built, or built).  `C14_impl_eq_spec` then rests on
regenerated code.
-/
namespace Carquet.Properties.C14
open Carquet Carquet.Impl Carquet.Proofs.CFun2

/-- `crc32_init_tables()` on the not-yet-initialised state: every one of the 2048 entries is written — entry `[k][i]` is
the model's `table k i` —, the flag is set, no undefined behaviour (indices inside `[8][256]`, loop fuel 257/9/8/257
sufficient); the previous content of the memory does not matter. -/
theorem C14_cfun_crc32_init_tables (T0 : List (BitVec 32)) (h0 : T0.length = 2048) :
    IsCrcTable (Gen.CFun.crc32_init_tables T0 0#32).1 ∧ (Gen.CFun.crc32_init_tables T0 0#32).2 = 1#32 ∧
    Gen.CFun.crc32_init_tables_defined T0 0#32 = true := by
  have h := init_tables_eq T0 h0
  rw [h.1]
  exact ⟨isCrcTable_F T0 h0, rfl, h.2⟩

/-- on the initialised state it returns at once -/
theorem C14_cfun_crc32_init_tables_idem (T : List (BitVec 32)) (fl : BitVec 32) (h : fl ≠ 0#32) :
    Gen.CFun.crc32_init_tables T fl = (T, fl) := by
  have : (fl != 0#32) = true := by simpa using h
  simp [Gen.CFun.crc32_init_tables, this]

/-- a table memory of the wrong size is outside the function's domain (non-vacuity of the shape obligation) -/
example : ∀ T : List (BitVec 32), T.length = 2047 → Gen.CFun.crc32_init_tables_defined T 0#32 = false := by
  intro T hT
  simp [Gen.CFun.crc32_init_tables_defined, hT]

/-- `crc32_slicing_by_8(crc, data, length)`: for every byte string, every start value and every reachable state of the
table, the result is the model's, the state afterwards is "built", and nothing undefined happens: the two 4-byte loads of
the main loop and the byte loads of the tail stay inside `data[0 .. length)`, every table index is inside its row. -/
theorem C14_cfun_crc32_slicing_by_8 (T : List (BitVec 32)) (fl crc : BitVec 32) (data : List UInt8)
    (hlen : data.length < 2 ^ 64) (hst : CrcState T fl) :
    (Gen.CFun.crc32_slicing_by_8 T fl crc data (BitVec.ofNat 64 data.length)).1 = Crc32.slicingBy8 crc data ∧
    CrcState (Gen.CFun.crc32_slicing_by_8 T fl crc data (BitVec.ofNat 64 data.length)).2.1
      (Gen.CFun.crc32_slicing_by_8 T fl crc data (BitVec.ofNat 64 data.length)).2.2 ∧
    Gen.CFun.crc32_slicing_by_8_defined T fl crc data (BitVec.ofNat 64 data.length) = true := by
  have h := slicing_eq T fl crc data (BitVec.ofNat 64 data.length) (by simp [BitVec.toNat_ofNat]; omega) hst
  exact ⟨h.1, h.2.1, h.2.2.2⟩

/-- `carquet_crc32_update(crc, data, length)` is `Impl.Crc32.update` -/
theorem C14_cfun_crc32_update (T : List (BitVec 32)) (fl crc : BitVec 32) (data : List UInt8)
    (hlen : data.length < 2 ^ 64) (hst : CrcState T fl) :
    (Gen.CFun.carquet_crc32_update T fl crc data (BitVec.ofNat 64 data.length)).1 = Crc32.update crc data ∧
    Gen.CFun.carquet_crc32_update_defined T fl crc data (BitVec.ofNat 64 data.length) = true := by
  have h := slicing_eq T fl crc data (BitVec.ofNat 64 data.length) (by simp [BitVec.toNat_ofNat]; omega) hst
  have hT : T.length = 2048 := by rcases hst with ⟨_, h⟩ | ⟨_, h⟩; exact h; exact h.1
  simp only [Gen.CFun.carquet_crc32_update, Gen.CFun.carquet_crc32_update_defined, h.1, h.2.2.2, Crc32.update, hT]
  simp

/-- `carquet_crc32(data, length)` is `Impl.Crc32.crc32` -/
theorem C14_cfun_crc32 (T : List (BitVec 32)) (fl : BitVec 32) (data : List UInt8)
    (hlen : data.length < 2 ^ 64) (hst : CrcState T fl) :
    (Gen.CFun.carquet_crc32 T fl data (BitVec.ofNat 64 data.length)).1 = Crc32.crc32 data ∧
    Gen.CFun.carquet_crc32_defined T fl data (BitVec.ofNat 64 data.length) = true := by
  have h := slicing_eq T fl 0#32 data (BitVec.ofNat 64 data.length) (by simp [BitVec.toNat_ofNat]; omega) hst
  have hT : T.length = 2048 := by rcases hst with ⟨_, h⟩ | ⟨_, h⟩; exact h; exact h.1
  simp only [Gen.CFun.carquet_crc32, Gen.CFun.carquet_crc32_defined, h.1, h.2.2.2, Crc32.crc32, hT]
  simp

/-- the initial state of the program (static storage: all zero) is a `CrcState` -/
example : CrcState (List.replicate 2048 0#32) 0#32 := Or.inl ⟨rfl, List.length_replicate ..⟩

/-- a `length` one larger than the buffer: the tail loop reads `data[1]` of a 1-byte buffer, and `_defined` says so
(evaluated on an already built table so that the kernel need not build it) -/
example : ∀ T : List (BitVec 32), T.length = 2048 →
    Gen.CFun.crc32_slicing_by_8_defined T 1#32 0#32 [7] 2#64 = false := by
  intro T hT
  simp [Gen.CFun.crc32_slicing_by_8_defined, Gen.CFun.crc32_slicing_by_8_k1_defined,
    Gen.CFun.crc32_slicing_by_8_loop1_defined, Gen.CFun.crc32_slicing_by_8_loop2_defined, hT, Impl.CSem.inb]

end Carquet.Properties.C14
