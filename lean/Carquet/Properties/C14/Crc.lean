import Carquet.Spec.Crc32
import Carquet.Impl.Crc32
import Carquet.Gen.Constants
/-
C14 — page checksums are IEEE CRC-32 and page damage is always detected.
Property statements only; helper lemmas live in Carquet/Proofs/.
-/
namespace Carquet.Properties.C14
open Carquet

/-- The polynomial the source currently defines (`CRC32_POLY`, re-extracted on every run) is the
IEEE one used by the Spec and by the Impl model. -/
theorem C14_poly_is_ieee :
    BitVec.ofNat 32 Gen.crc32Poly = Spec.Crc32.poly ∧ Impl.Crc32.poly = Spec.Crc32.poly := by
  decide

end Carquet.Properties.C14
