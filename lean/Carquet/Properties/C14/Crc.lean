import Carquet.Spec.Crc32
import Carquet.Impl.Crc32
import Carquet.Gen.Constants
import Carquet.Proofs.Crc32Damage
/-
C14 — page checksums are IEEE CRC-32 and page damage is always detected (function part:
`carquet_crc32` / `carquet_crc32_update`; the page-verification order is a separate part).
Property statements only; helper lemmas live in Carquet/Proofs/Crc32*.lean.

`Spec.Crc32`  = bit-serial IEEE 802.3 CRC-32 written from the definition;
`Impl.Crc32`  = model of src/util/crc32.c (table recurrence, slicing-by-8 loop, byte tail).
All theorems hold for every input; there is no length bound anywhere.
-/
namespace Carquet.Properties.C14
open Carquet
open Carquet.Spec.Crc32 (BurstDamage bits xorBytes)

/-- The polynomial the source currently defines (`CRC32_POLY`, re-extracted on every run) is the
IEEE one used by the Spec and by the Impl model. -/
theorem C14_poly_is_ieee :
    BitVec.ofNat 32 Gen.crc32Poly = Spec.Crc32.poly ∧ Impl.Crc32.poly = Spec.Crc32.poly := by
  decide

/-! ## 1. The table-driven code computes the IEEE CRC-32 -/

/-- `crc32_tables[0][i]` is eight zero-input LFSR steps applied to `i` (for every `i`, not only
`i < 256`). -/
theorem C14_table0_is_step8 : ∀ i : Nat, Impl.Crc32.table0 i = Spec.Crc32.step8 (BitVec.ofNat 32 i) :=
  Proofs.Crc32.table0_eq

example : Impl.Crc32.table0 1 = 0x77073096#32 ∧ Spec.Crc32.step8 1#32 = 0x77073096#32 := by decide

/-- `carquet_crc32` (slicing-by-8 main loop + byte tail over the generated tables) equals the
bit-serial IEEE CRC-32 on every input. -/
theorem C14_impl_eq_spec : ∀ data : List UInt8, Impl.Crc32.crc32 data = Spec.Crc32.crc32 data :=
  Proofs.Crc32.impl_crc32_eq

-- 19 bytes: two rounds of the 8-byte loop and a 3-byte tail; both sides evaluated by the kernel.
example : Impl.Crc32.crc32 [1,2,3,4,5,6,7,8,9,10,11,12,13,14,15,16,17,18,19] = 0xEE00AD46#32
    ∧ Spec.Crc32.crc32 [1,2,3,4,5,6,7,8,9,10,11,12,13,14,15,16,17,18,19] = 0xEE00AD46#32 := by
  decide +kernel
-- the published check value, through the table code (one 8-byte round + 1 tail byte)
example : Impl.Crc32.crc32 [0x31,0x32,0x33,0x34,0x35,0x36,0x37,0x38,0x39] = 0xCBF43926#32 := by
  decide +kernel

/-- `carquet_crc32_update` equals the Spec's incremental update for every starting value. -/
theorem C14_impl_update_eq_spec : ∀ (crc : BitVec 32) (data : List UInt8),
    Impl.Crc32.update crc data = Spec.Crc32.update crc data :=
  Proofs.Crc32.impl_update_eq

example : Impl.Crc32.update 0xCBF43926#32 [0x61,0x62,0x63,0x64,0x65,0x66,0x67,0x68,0x69,0x6A]
    = Spec.Crc32.update 0xCBF43926#32 [0x61,0x62,0x63,0x64,0x65,0x66,0x67,0x68,0x69,0x6A] :=
  C14_impl_update_eq_spec _ _

/-! ## 2. Incremental updates compose -/

/-- `crc(a ‖ b) = update(crc(a), b)` for the Spec … -/
theorem C14_update_composes : ∀ a b : List UInt8,
    Spec.Crc32.crc32 (a ++ b) = Spec.Crc32.update (Spec.Crc32.crc32 a) b :=
  Proofs.Crc32.crc32_append

example : Spec.Crc32.crc32 ([0x31,0x32,0x33] ++ [0x34,0x35,0x36,0x37,0x38,0x39])
    = Spec.Crc32.update (Spec.Crc32.crc32 [0x31,0x32,0x33]) [0x34,0x35,0x36,0x37,0x38,0x39] :=
  C14_update_composes _ _

/-- … and for the model of the C code, at every split point — hence for every position of the
8-byte main loop relative to the data (the split moves the loop's phase). -/
theorem C14_update_composes_impl : ∀ a b : List UInt8,
    Impl.Crc32.crc32 (a ++ b) = Impl.Crc32.update (Impl.Crc32.crc32 a) b := by
  intro a b
  rw [Proofs.Crc32.impl_crc32_eq, Proofs.Crc32.impl_crc32_eq, Proofs.Crc32.impl_update_eq]
  exact Proofs.Crc32.crc32_append a b

-- a 3 + 10 split: the whole is one 8-byte round + 5 tail bytes, the parts are 3 tail bytes and
-- one round + 2 tail bytes; both sides evaluated by the kernel
example : Impl.Crc32.crc32 ([1,2,3] ++ [4,5,6,7,8,9,10,11,12,13]) = 0xB720698D#32 ∧
    Impl.Crc32.update (Impl.Crc32.crc32 [1,2,3]) [4,5,6,7,8,9,10,11,12,13] = 0xB720698D#32 := by
  decide +kernel

/-- Streaming over any number of chunks: `update` is a monoid action of concatenation, and
`crc32` is `update` from the zlib start value 0. -/
theorem C14_update_assoc : ∀ (crc : BitVec 32) (a b : List UInt8),
    Impl.Crc32.update crc (a ++ b) = Impl.Crc32.update (Impl.Crc32.update crc a) b ∧
    Impl.Crc32.update 0#32 a = Impl.Crc32.crc32 a := by
  intro crc a b
  refine ⟨?_, rfl⟩
  simp only [Proofs.Crc32.impl_update_eq]
  exact Proofs.Crc32.update_append crc a b

example : Impl.Crc32.update 0xDEADBEEF#32 ([1,2,3,4,5] ++ [6,7,8,9,10,11,12,13,14])
    = Impl.Crc32.update (Impl.Crc32.update 0xDEADBEEF#32 [1,2,3,4,5]) [6,7,8,9,10,11,12,13,14] :=
  (C14_update_assoc _ _ _).1

/-! ## 3. Damage confined to a burst of at most 32 bits is always detected

Message bit positions are the positions at which the LFSR consumes the bits: byte by byte,
least significant bit first (`Spec.Crc32.bits`).  `C14_bit_serial` justifies that reading. -/

/-- The byte-wise register map is the bit-serial LFSR over the message bit stream `bits data`. -/
theorem C14_bit_serial : ∀ (c : BitVec 32) (data : List UInt8),
    Spec.Crc32.run c data = Spec.Crc32.runBits c (bits data) :=
  Proofs.Crc32.run_eq_runBits

example : Spec.Crc32.run 0xFFFFFFFF#32 [0x31, 0x80] =
    Spec.Crc32.runBits 0xFFFFFFFF#32
      [true,false,false,false,true,true,false,false, false,false,false,false,false,false,false,true] :=
  C14_bit_serial _ _

/-- **Burst detection.**  If `d'` has the same length as `d`, differs from it, and every message
bit that differs lies inside one window of `w ≤ 32` consecutive bit positions (`BurstDamage`,
decidable), then the checksum computed by the C code's algorithm differs.  No bound on the
length, the position of the window, or its alignment to bytes or to the 8-byte loop. -/
theorem C14_burst_detected : ∀ (w : Nat) (d d' : List UInt8), w ≤ 32 → BurstDamage w d d' →
    Impl.Crc32.crc32 d ≠ Impl.Crc32.crc32 d' := by
  intro w d d' hw h
  rw [Proofs.Crc32.impl_crc32_eq, Proofs.Crc32.impl_crc32_eq]
  exact Proofs.Crc32.crc32_burst_ne w hw d d' h

-- a 32-bit burst straddling five bytes (bits 12..43 of an 11-byte message, not byte aligned,
-- crossing the boundary of the 8-byte loop): bits 12, 13, 20, 27, 31, 36, 43 flipped
example : Impl.Crc32.crc32 [1,2,3,4,5,6,7,8,9,10,11] ≠ Impl.Crc32.crc32 [1,0x32,0x13,0x8C,0x15,0x0E,7,8,9,10,11] :=
  C14_burst_detected 32 _ _ (by decide) (by decide +kernel)

/-- The same for the Spec checksum. -/
theorem C14_burst_detected_spec : ∀ (w : Nat) (d d' : List UInt8), w ≤ 32 → BurstDamage w d d' →
    Spec.Crc32.crc32 d ≠ Spec.Crc32.crc32 d' :=
  fun w d d' hw h => Proofs.Crc32.crc32_burst_ne w hw d d' h

example : Spec.Crc32.crc32 [1,2,3,4,5,6,7,8,9,10,11] ≠ Spec.Crc32.crc32 [1,0x32,0x13,0x8C,0x15,0x0E,7,8,9,10,11] :=
  C14_burst_detected_spec 32 _ _ (by decide) (by decide +kernel)

-- the bound 32 is sharp: a 33-bit burst (the generator polynomial itself, x^32 + … + 1, laid on
-- bits 0..32) is NOT detected, so the theorem cannot be stated for a wider window
example : BurstDamage 33 [0,0,0,0,0] [0x41,0x06,0x71,0xDB,0x01] ∧
    Impl.Crc32.crc32 [0,0,0,0,0] = Impl.Crc32.crc32 [0x41,0x06,0x71,0xDB,0x01] := by
  decide +kernel

/-- Error-pattern form (DESIGN §3): xoring into `d` a non-zero pattern `e` of the same length
whose 1-bits lie inside a window of `w ≤ 32` bit positions changes the checksum. -/
theorem C14_burst_detected_xor : ∀ (w s : Nat) (d e : List UInt8), w ≤ 32 → e.length = d.length →
    (∃ i : Nat, (bits e)[i]? = some true) →
    (∀ i : Nat, (bits e)[i]? = some true → s ≤ i ∧ i < s + w) →
    Impl.Crc32.crc32 (xorBytes d e) ≠ Impl.Crc32.crc32 d := by
  intro w s d e hw hlen hnz hwin
  exact (C14_burst_detected w d (xorBytes d e) hw
    (Proofs.Crc32.burstDamage_xor w d e hlen s hnz hwin)).symm

example : Impl.Crc32.crc32 (xorBytes [9,8,7,6,5,4,3,2,1,0] [0,0,0,0x80,0xFF,0x00,0xFF,0x7F,0,0])
    ≠ Impl.Crc32.crc32 [9,8,7,6,5,4,3,2,1,0] :=
  C14_burst_detected_xor 32 31 _ _ (by decide) (by decide) ⟨31, by decide⟩ (by
    intro i hi
    have hlt : i < 80 := by
      rcases Nat.lt_or_ge i 80 with h | h
      · exact h
      · rw [List.getElem?_eq_none (by simpa [Proofs.Crc32.length_bits] using h)] at hi; cases hi
    revert hi; revert i; decide +kernel)

/-- Any change confined to at most four consecutive bytes (anywhere, any alignment). -/
theorem C14_four_bytes_detected : ∀ (p m m' q : List UInt8), m.length = m'.length → m.length ≤ 4 →
    m ≠ m' → Impl.Crc32.crc32 (p ++ m ++ q) ≠ Impl.Crc32.crc32 (p ++ m' ++ q) := by
  intro p m m' q hl h4 hne
  exact C14_burst_detected 32 _ _ (Nat.le_refl _)
    (Proofs.Crc32.burstDamage_of_split 32 p m m' q hl hne (by omega))

example : Impl.Crc32.crc32 ([1,2,3,4,5,6,7] ++ [8,9,10,11] ++ [12,13,14]) ≠
    Impl.Crc32.crc32 ([1,2,3,4,5,6,7] ++ [0xFF,9,10,0] ++ [12,13,14]) :=
  C14_four_bytes_detected _ _ _ _ rfl (by decide) (by decide)

/-- Any change of a single byte. -/
theorem C14_single_byte_detected : ∀ (d : List UInt8) (k : Nat) (hk : k < d.length) (v : UInt8),
    v ≠ d[k] → Impl.Crc32.crc32 (d.set k v) ≠ Impl.Crc32.crc32 d := by
  intro d k hk v hv
  exact (C14_burst_detected 8 _ _ (by omega) (Proofs.Crc32.burstDamage_set d k hk v hv)).symm

example : Impl.Crc32.crc32 ([10,20,30,40,50,60,70,80,90,100].set 8 0) ≠
    Impl.Crc32.crc32 [10,20,30,40,50,60,70,80,90,100] :=
  C14_single_byte_detected _ 8 (by decide) 0 (by decide)

/-- Any single flipped bit (bit `j` of byte `k`). -/
theorem C14_single_bit_detected : ∀ (d : List UInt8) (k : Nat) (hk : k < d.length) (j : Fin 8),
    Impl.Crc32.crc32 (d.set k (d[k] ^^^ ((1 : UInt8) <<< j.val.toUInt8))) ≠ Impl.Crc32.crc32 d := by
  intro d k hk j
  exact C14_single_byte_detected d k hk _
    (Proofs.Crc32.xor_mask_ne _ _ (Proofs.Crc32.bit_mask_ne_zero j))

example : Impl.Crc32.crc32 [10,20,30,40,50,60,70,80,90 ^^^ 0x20,100] ≠
    Impl.Crc32.crc32 [10,20,30,40,50,60,70,80,90,100] :=
  C14_single_bit_detected [10,20,30,40,50,60,70,80,90,100] 8 (by decide) 5

end Carquet.Properties.C14
