import Carquet.Proofs.ReaderApi
import Carquet.Proofs.ReaderExamples
/-
C03 (public accessors) — "identical metadata" across fread / mmap / buffer, and the predicate that
announces the zero-copy shortcut: carquet_reader_num_rows / _num_row_groups / _num_columns,
carquet_reader_row_group_metadata, the schema accessors, carquet_reader_is_mmap,
carquet_reader_can_zero_copy.  Statements only; lemmas in Proofs/ReaderApi.lean.
-/
namespace Carquet.Properties.C03
open Carquet.Impl Carquet.Impl.Reader Carquet.Impl.ReaderApi Carquet.Proofs.ReaderApi
open Carquet.Proofs.ReaderExamples

/-- **Every metadata accessor returns the same in the three modes.**  For every byte string that
all three of `carquet_reader_open` (fread), `carquet_reader_open` with `use_mmap` and
`carquet_reader_open_buffer` accept, the three readers hold the same metadata and schema; hence
`num_rows`, `num_row_groups`, `num_columns`, `row_group_metadata` for EVERY index (in range: the
same three numbers; out of range: the same ROW_GROUP_NOT_FOUND), every schema element with
everything its accessors return (name, type, repetition, type length, logical type, per-node
levels), `get_element` out of range, and the leaf arrays coincide.  (No hypothesis on the leading
magic: a file the mapped paths accept starts with it.)  `is_mmap` and `can_zero_copy` describe the
mode itself and are the subject of `C03_can_zero_copy_sound`. -/
theorem C03_metadata_accessors_modes_agree (b : List UInt8) (o1 o2 o3 : Opened)
    (h1 : openFile .fread b = .ok o1) (h2 : openFile .mmap b = .ok o2) (h3 : openFile .buffer b = .ok o3) :
    metaView o1 = metaView o2 ∧ metaView o2 = metaView o3 ∧
    (∀ rg : Int, rowGroupMetadata o1 rg = rowGroupMetadata o2 rg ∧ rowGroupMetadata o2 rg = rowGroupMetadata o3 rg) ∧
    (∀ i : Int, SchemaApi.getElement o1.md.schema i = SchemaApi.getElement o2.md.schema i ∧
                SchemaApi.getElement o2.md.schema i = SchemaApi.getElement o3.md.schema i) ∧
    (∀ rg col : Int, canZeroCopy true .mmap o2 rg col = canZeroCopy true .buffer o3 rg col) := by
  obtain ⟨e1, e2⟩ := opened_same b o1 o2 o3 h1 h2 h3
  subst e1 e2
  exact ⟨rfl, rfl, fun _ => ⟨rfl, rfl⟩, fun _ => ⟨rfl, rfl⟩, fun _ _ => rfl⟩

-- non-vacuity: the two-page example file opens in fread mode and starts with the magic (so the mapped paths return the
-- same, `C03_footer_modes_agree`); its row group metadata through the accessor model
example : twoPage.take 4 = magic ∧ (match openFile .fread twoPage with | .ok _ => true | .error _ => false) = true := by
  decide +kernel
example : rowGroupMetadata ⟨{ numRows := 5, rowGroups := [{ numRows := 5, totalByteSize := 100, totalCompressedSize := some 60 },
                                                          { numRows := 0, totalByteSize := 7 }] }, []⟩ 0 = .ok ⟨5, 100, 60⟩ ∧
    rowGroupMetadata ⟨{ numRows := 5, rowGroups := [{ numRows := 5, totalByteSize := 100, totalCompressedSize := some 60 },
                                                    { numRows := 0, totalByteSize := 7 }] }, []⟩ 1 = .ok ⟨0, 7, 7⟩ ∧
    rowGroupMetadata ⟨{ numRows := 5, rowGroups := [{ numRows := 5, totalByteSize := 100, totalCompressedSize := some 60 },
                                                    { numRows := 0, totalByteSize := 7 }] }, []⟩ 2 = .error .rowGroupNotFound ∧
    rowGroupMetadata ⟨{ numRows := 5, rowGroups := [] }, []⟩ (-1) = .error .rowGroupNotFound := by decide +kernel

/-- **`can_zero_copy` over-approximates the zero-copy branches** (repaired predicate, F90).
(a) Page loader: whenever `load_next_page` takes the view branch for a page of column `col` of row
group `rg` (any page header, any mode, pinned or repaired view bound), `can_zero_copy(rg, col)` is
true; the pinned predicate has this only in mmap mode.
(b) It is false in fread mode for every argument, and (c) false for every out-of-range index.
(d) Batch reader: the column readers of a batch reader only ever carry the VIEW flag when their
chunk takes views (`VI` is kept by `get_column`, `read_batch`, the prefetch and each column step), and
whenever `carquet_batch_reader_next` hands out a column as a VIEW (zero-copy branch), the
predicate is true of that column.  The converse does not hold and is not claimed: the predicate
does not look at the page encoding (a dictionary page is copied), at the page/batch alignment
(F5) or at the view bound (F51). -/
theorem C03_can_zero_copy_sound :
    (∀ (fx : Reader.Fixes) (mode : Mode) (o : Opened) (rg col : Int) (c : Col) (hdr : ThriftParquetReq.PageHdr),
      getColumn o rg col = .ok c → takesView fx mode c hdr = true →
      canZeroCopy true mode o rg col = true ∧ (mode = .mmap → canZeroCopy false mode o rg col = true)) ∧
    (∀ (fix90 : Bool) (o : Opened) (rg col : Int), canZeroCopy fix90 .fread o rg col = false) ∧
    (∀ (fix90 : Bool) (mode : Mode) (o : Opened) (rg col : Int),
      rg < 0 ∨ rg ≥ o.md.rowGroups.length ∨ col < 0 ∨ col ≥ o.leaves.length → canZeroCopy fix90 mode o rg col = false) ∧
    (∀ {α : Type} (fx : ColumnReader.Fixes) (mode : BatchReader.IOMode) (col : BatchReader.Column)
       (cd : BatchReader.ChunkData α) (ch : ColumnReader.Chunk α) (r : ColumnReader.Reader α) (rows : Int),
      ch.view = BatchReader.chunkIsView mode col cd → VI ch r →
      VI ch (BatchReader.prefetch fx r) ∧ VI ch (BatchReader.readColumn fx mode col r rows).1 ∧
      (∀ out, (BatchReader.readColumn fx mode col r rows).2 = some out → out.view = true →
        canZeroCopyB true mode col cd = true ∧ (mode = .mmap → canZeroCopyB false mode col cd = true))) := by
  refine ⟨?_, fun f o rg col => canZeroCopy_fread f o rg col, fun f m o rg col h => canZeroCopy_out_of_range f m o rg col h, ?_⟩
  · intro fx mode o rg col c hdr hc hv
    have hm : mode.mapped = true := by
      unfold takesView at hv
      simp only [Bool.and_eq_true] at hv
      exact hv.1.1.1
    refine ⟨canZeroCopy_of_takesView fx true mode o rg col c hdr hc hv (by simp [zeroCopySource, hm]), ?_⟩
    intro hmm
    subst hmm
    exact canZeroCopy_of_takesView fx false .mmap o rg col c hdr hc hv (by simp [zeroCopySource, hasMmapInfo])
  · intro α fx mode col cd ch r rows hview hvi
    have hpre : VI ch (BatchReader.prefetch fx r) := by
      unfold BatchReader.prefetch
      split
      · exact vi_readBatch fx ch r 0 false false hvi
      · exact hvi
    have htry : VI ch (BatchReader.tryZeroCopy fx mode col r) := by
      unfold BatchReader.tryZeroCopy
      split
      · exact vi_readBatch fx ch r 0 false false hvi
      · exact hvi
    refine ⟨hpre, ?_, ?_⟩
    · unfold BatchReader.readColumn
      split
      · exact ⟨htry.1, htry.2⟩
      · unfold BatchReader.standardCol
        split; · exact htry
        split; · exact htry
        have := vi_readBatch fx ch (BatchReader.tryZeroCopy fx mode col r) rows (decide (col.maxDef > 0)) false htry
        cases hq : ColumnReader.readBatch fx (BatchReader.tryZeroCopy fx mode col r) rows (decide (col.maxDef > 0)) false with
        | mk r' res =>
          rw [hq] at this
          simp only
          split <;> exact this
    · intro out hout hov
      unfold BatchReader.readColumn at hout
      split at hout
      · rename_i huse
        unfold BatchReader.useZeroCopy at huse
        simp only [Bool.and_eq_true, decide_eq_true_eq] at huse
        obtain ⟨⟨⟨⟨_, hown⟩, _⟩, _⟩, hdef⟩ := huse
        have hcv : BatchReader.chunkIsView mode col cd = true := by rw [← hview]; exact htry.2 hown
        unfold BatchReader.chunkIsView at hcv
        simp only [Bool.and_eq_true, decide_eq_true_eq] at hcv
        obtain ⟨⟨⟨⟨hmap, hunc⟩, hfw⟩, hd0⟩, _⟩ := hcv
        refine ⟨?_, ?_⟩
        · unfold canZeroCopyB zeroCopySource
          cases mode <;> simp_all [modeOfIO, Mode.mapped, BatchReader.IOMode.mapped]
        · intro hmm
          subst hmm
          unfold canZeroCopyB zeroCopySource
          simp [modeOfIO, hasMmapInfo, hunc, hfw, hd0]
      · exfalso
        unfold BatchReader.standardCol at hout
        split at hout; · cases hout
        split at hout; · cases hout
        cases hq : ColumnReader.readBatch fx (BatchReader.tryZeroCopy fx mode col r) rows (decide (col.maxDef > 0)) false with
        | mk r' res =>
          rw [hq] at hout
          simp only at hout
          split at hout
          · cases hout
          · cases hout
            simp at hov

-- non-vacuity of (a): on the two-page INT32 file the mapped paths take the view branch for the first page
example : (loadPage Fixes.all noLibs true .mmap twoPage twoPageCol (PState.init twoPageCol)).result.toOption.map (·.view) = some true ∧
    (loadPage Fixes.all noLibs true .buffer twoPage twoPageCol (PState.init twoPageCol)).result.toOption.map (·.view) = some true ∧
    (loadPage Fixes.all noLibs true .fread twoPage twoPageCol (PState.init twoPageCol)).result.toOption.map (·.view) = some false := by
  decide +kernel

/-- a REQUIRED INT32 column, one uncompressed page of three rows -/
def exColumn : BatchReader.Column := ⟨"a", 0, 0, 4, true, false⟩
def exChunk : BatchReader.ChunkData Nat := ⟨[some ⟨[0, 0, 0], [0, 0, 0], [7, 8, 9]⟩], 3, true⟩
def exFile : BatchReader.File Nat := ⟨[exColumn], [[exChunk]]⟩

/-- **F90 (pinned code).**  A reader opened with `carquet_reader_open_buffer` takes the zero-copy
branches — the page loader hands out a VIEW into the caller's buffer, the batch reader passes it on
as the column's data — while the pinned `carquet_reader_can_zero_copy` answers false for every
column of every buffer reader (it tested `mmap_info`, which only `use_mmap` sets).  The repaired
predicate tests what the loaders test (`mmap_data`). -/
theorem C03_regression_F90 :
    (∀ (o : Opened) (rg col : Int), canZeroCopy false .buffer o rg col = false) ∧
    (loadPage Fixes.all noLibs true .buffer twoPage twoPageCol (PState.init twoPageCol)).result.toOption.map (·.view) = some true ∧
    ((BatchReader.create .buffer exFile ⟨3, [0], []⟩).map (fun br =>
        (BatchReader.next ColumnReader.Fixes.all br).2.2.map (fun b => b.cols.map (·.view)))) = some (some [true]) ∧
    canZeroCopyB false .buffer exColumn exChunk = false ∧ canZeroCopyB true .buffer exColumn exChunk = true := by
  refine ⟨?_, by decide +kernel, by decide +kernel, by decide +kernel, by decide +kernel⟩
  intro o rg col
  simp [canZeroCopy, zeroCopySource, hasMmapInfo]

end Carquet.Properties.C03
