import Carquet.Proofs.ReaderModes
import Carquet.Proofs.ReaderOpen
import Carquet.Proofs.ReaderExamples
/-
C03 (reader part) — the fread path, the mmap path and the buffer path read the same things.
Statements only; lemmas in Proofs/ReaderModes.lean, Proofs/ReaderPlain.lean.
(The batch reader's zero-copy transparency is C03_batch_zero_copy_transparent of the cursor part.)
-/
namespace Carquet.Properties.C03
open Carquet.Impl Carquet.Impl.Reader
open Carquet.Proofs.ReaderModes Carquet.Proofs.ReaderPlain Carquet.Proofs.ReaderOpen Carquet.Proofs.ReaderExamples

/-- **Footer.**  On a file that starts with the magic, `carquet_reader_open` (fread),
`carquet_reader_open` with `use_mmap`, and `carquet_reader_open_buffer` return the same thing: the
same metadata and schema, or the same error.  (Without the leading magic they differ: the fread
path never looks at it — `C03_modes_differ_without_magic` below.) -/
theorem C03_footer_modes_agree (b : Reader.Bytes) (h : b.take 4 = magic) :
    openFile .fread b = openFile .mmap b ∧ openFile .mmap b = openFile .buffer b :=
  openFile_modes b h

example : twoPage.take 4 = magic ∧ (match openFile .fread twoPage with | .ok _ => true | .error _ => false) = true := by
  decide +kernel

/-- the premise is needed: 12 bytes that end in the magic but do not start with it -/
theorem C03_modes_differ_without_magic :
    openFile .fread [0, 0, 0, 0, 0, 0, 0, 0, 0x50, 0x41, 0x52, 0x31] = .error (.thrift .truncated) ∧
    openFile .mmap [0, 0, 0, 0, 0, 0, 0, 0, 0x50, 0x41, 0x52, 0x31] = .error .invalidMagic := by
  decide +kernel

/-- **Pages.**  Take any column (as `get_column` describes it), any reader state, any codec
libraries, verification on or off, and a file smaller than 2^64 bytes.  If the pages this load
touches — the dictionary page at `dictionary_page_offset` when one is due, the page at the data
page offset, and the data page behind an inline dictionary page — lie within the file (where a
page header parses, header and stored body end inside the file) and, for the fread path, their
headers are `HeaderStable` (parse the same from each of the windows 256, 512, … the path tries as
from everything behind the offset, and the file has at most 2^24 bytes there — `LoadWithin`), then
`load_next_page` through the fread path delivers the mode-free result `refPage`, and so do the
mmap and the buffer path, which need no stability: the same definition levels, repetition levels
and dense values, the same header and body sizes — or all fail.  This includes the zero-copy
branch of the mapped paths: the view it hands out (repaired code, F51) is exactly what the fread
path copies out with the PLAIN decoder. -/
theorem C03_page_modes_agree (fx : Fixes) (hv : fx.viewBound = true) (L : Libs) (verify : Bool) (b : Reader.Bytes)
    (c : Col) (st : PState) (hcol : ColValid c) (hsz : b.length < 2 ^ 64)
    (hw : LoadWithin fx L verify .fread b c st) (hm : LoadWithin fx L verify .mmap b c st)
    (hb : LoadWithin fx L verify .buffer b c st) :
    (okOf (loadPage fx L verify .mmap b c st).result).map proj = (okOf (loadPage fx L verify .fread b c st).result).map proj ∧
    (okOf (loadPage fx L verify .buffer b c st).result).map proj = (okOf (loadPage fx L verify .fread b c st).result).map proj := by
  rw [loadPage_ref fx hv L verify .mmap b c st hcol hsz hm, loadPage_ref fx hv L verify .fread b c st hcol hsz hw,
    loadPage_ref fx hv L verify .buffer b c st hcol hsz hb]
  exact ⟨rfl, rfl⟩

/-- for the mapped paths `LoadWithin` asks nothing about header windows: it follows from the fread
path's -/
theorem C03_loadWithin_mapped (fx : Fixes) (L : Libs) (verify : Bool) (mode : Mode) (hmode : mode.mapped = true)
    (b : Reader.Bytes) (c : Col) (st : PState) (hw : LoadWithin fx L verify .fread b c st) :
    LoadWithin fx L verify mode b c st :=
  ⟨fun doff h => ⟨Or.inl hmode, (hw.dict doff h).2⟩,
   fun st1 h => ⟨Or.inl hmode, (hw.prep st1 h).2.1, fun dl _ => Or.inl hmode⟩,
   hw.data⟩

-- non-vacuity: the hypotheses hold for the first page of the two-page file (its header parses the
-- same from every window: all 175 bytes behind offset 4 fit the first window), so the theorem applies
example : ColValid twoPageCol ∧ twoPage.length < 2 ^ 64 ∧
    LoadWithin Fixes.all noLibs true .fread twoPage twoPageCol (PState.init twoPageCol) := by
  have href : refHeader twoPage 4 = some (⟨0, 8, 8, some 58791804, 2, 0⟩, 38) := by decide +kernel
  have hstable : HeaderStable twoPage 4 := headerStable_of_check twoPage 4 (by decide +kernel)
  have hstep : refDictStep Fixes.all noLibs true twoPage twoPageCol (PState.init twoPageCol) = some (PState.init twoPageCol) := rfl
  refine ⟨(fun h => by cases h), (by decide +kernel), ?_, ?_, ?_⟩
  · intro doff h; cases h
  · intro st1 h
    rw [hstep] at h
    have hst : st1 = PState.init twoPageCol := (Option.some.inj h).symm
    subst hst
    refine ⟨Or.inr hstable, ?_, ?_⟩
    · intro r hr _
      have : refHeader twoPage 4 = some r := hr
      rw [href] at this
      cases this
      decide +kernel
    · intro dl hdl
      exfalso
      have : refDict Fixes.all noLibs true twoPage twoPageCol 4 = none := by
        unfold refDict
        have : refHeader twoPage 4 = some (⟨0, 8, 8, some 58791804, 2, 0⟩, 38) := href
        rw [this]
        rfl
      have hdl' : refDict Fixes.all noLibs true twoPage twoPageCol 4 = some dl := hdl
      rw [this] at hdl'
      cases hdl'
  · intro st1 sh h hsh _
    rw [hstep] at h
    have hst : st1 = PState.init twoPageCol := (Option.some.inj h).symm
    subst hst
    have : refPrep Fixes.all noLibs true twoPage twoPageCol (PState.init twoPageCol) =
        some (PState.init twoPageCol, (⟨0, 8, 8, some 58791804, 2, 0⟩, 38)) := by
      unfold refPrep
      have : refHeader twoPage ((PState.init twoPageCol).dataStart + (PState.init twoPageCol).currentPage) =
          some (⟨0, 8, 8, some 58791804, 2, 0⟩, 38) := href
      rw [this]
      rfl
    rw [this] at hsh
    cases hsh
    decide +kernel

/-- the column descriptions `carquet_reader_get_column` hands out satisfy the theorem's `ColValid` -/
theorem C03_getColumn_valid (o : Opened) (rg col : Int) (c : Col) (h : getColumn o rg col = .ok c) : ColValid c :=
  (getColumn_ok o rg col c h).2.2.2.2.2

/-- **Zero-copy view = copy**, on its own: when the mapped path takes the view branch, the values
it exposes are those the standard path decodes from the same stored body. -/
theorem C03_view_eq_copy (fx : Fixes) (hv : fx.viewBound = true) (L : Libs) (mode : Mode) (b : Reader.Bytes) (c : Col)
    (dict : Option Dict) (hr : ThriftParquetReq.PageHdr × Nat) (bodyOff : Nat)
    (hcol : ColValid c) (hsz : b.length < 2 ^ 64) (hin : bodyOff + hr.1.compressed.toNat ≤ b.length)
    (ht : takesView fx mode c hr.1 = true) :
    ∃ d, (viewPage b c bodyOff hr.1.word0.toNat).result = .ok d ∧
      stdPath fx L c dict hr (slice b bodyOff hr.1.compressed.toNat) = some (d, hr.2, hr.1.compressed.toNat) :=
  view_eq_std fx hv L mode b c dict hr bodyOff hcol hsz hin ht

-- non-vacuity: on the two-page INT32 file the mapped path takes the view branch, the fread path
-- copies, and both deliver the values 1, 2
example :
    (loadPage Fixes.all noLibs true .mmap twoPage twoPageCol (PState.init twoPageCol)).result =
      .ok ⟨⟨[0, 0], [0, 0], [[1, 0, 0, 0], [2, 0, 0, 0]]⟩, 38, 8, true⟩ ∧
    (loadPage Fixes.all noLibs true .fread twoPage twoPageCol (PState.init twoPageCol)).result =
      .ok ⟨⟨[0, 0], [0, 0], [[1, 0, 0, 0], [2, 0, 0, 0]]⟩, 38, 8, false⟩ := by
  decide +kernel

-- a nullable SNAPPY page (no view possible): levels 1,0,1 and the two dense values in both modes
example :
    (loadPage Fixes.all noLibs true .mmap optSnappy optSnappyCol (PState.init optSnappyCol)).result =
      (loadPage Fixes.all noLibs true .fread optSnappy optSnappyCol (PState.init optSnappyCol)).result ∧
    (okOf (loadPage Fixes.all noLibs true .fread optSnappy optSnappyCol (PState.init optSnappyCol)).result).map (·.page) =
      some ⟨[1, 0, 1], [0, 0, 0], [[7, 0, 0, 0, 0, 0, 0, 0], [9, 0, 0, 0, 0, 0, 0, 0]]⟩ := by
  decide +kernel

end Carquet.Properties.C03
