import Carquet.Proofs.CFun2.Varint
import Carquet.Proofs.CFun2.Bitpack
import Carquet.Proofs.CFun2.Bitpack2
/-
C11 — stage-2 link theorems: the varint readers / writers of src/core/endian.h, src/encoding/rle.c, src/encoding/delta.c,
the little-endian loads of endian.h and the specialised bit-unpackers of src/core/bitpack.c, as translated from the CURRENT
C source by translate/gen_cfun.py (input buffer = list + bounds obligations, `*out` = extra result component, caller
buffers = functional updates), against Impl.Varint / Impl.Delta / Impl.Bitpack.
-/
namespace Carquet.Properties.C11
open Carquet Carquet.Impl Carquet.Proofs.CFun2

/-- `carquet_decode_varint32(p, len, &out)` with `len` the size of the buffer: the returned count is the number of bytes
the model consumes and `*out` its value; on failure (−1) `*out` is untouched.  No read outside `p[0 .. len)`, no shift by
32 or more (the fifth byte is shifted by 28), five iterations at most. -/
theorem C11_cfun_decode_varint32 (p : List UInt8) (out : BitVec 32) (h : p.length < 2 ^ 64) :
    Gen.CFun.carquet_decode_varint32 p (BitVec.ofNat 64 p.length) out =
      (match Varint.decodeVarint32 p with
       | some (v, rest) => (BitVec.ofNat 32 (p.length - rest.length), BitVec.ofNat 32 v)
       | none => (4294967295#32, out)) := (decode_varint32_eq p out h).1

theorem C11_cfun_decode_varint32_defined (p : List UInt8) (out : BitVec 32) (h : p.length < 2 ^ 64) :
    Gen.CFun.carquet_decode_varint32_defined p (BitVec.ofNat 64 p.length) out = true := (decode_varint32_eq p out h).2

example : Gen.CFun.carquet_decode_varint32 [0xAC, 0x02, 0x55] 3#64 7#32 = (2#32, 300#32) ∧
    Gen.CFun.carquet_decode_varint32 [0x80, 0x80] 2#64 7#32 = (4294967295#32, 7#32) ∧
    -- a `len` larger than the buffer: the read of `p[2]` is out of bounds and `_defined` says so
    Gen.CFun.carquet_decode_varint32_defined [0x80, 0x80] 3#64 7#32 = false := by decide

theorem C11_cfun_decode_varint64 (p : List UInt8) (out : BitVec 64) (h : p.length < 2 ^ 64) :
    Gen.CFun.carquet_decode_varint64 p (BitVec.ofNat 64 p.length) out =
      (match Varint.decodeVarint64 p with
       | some (v, rest) => (BitVec.ofNat 32 (p.length - rest.length), BitVec.ofNat 64 v)
       | none => (4294967295#32, out)) := (decode_varint64_eq p out h).1

theorem C11_cfun_decode_varint64_defined (p : List UInt8) (out : BitVec 64) (h : p.length < 2 ^ 64) :
    Gen.CFun.carquet_decode_varint64_defined p (BitVec.ofNat 64 p.length) out = true := (decode_varint64_eq p out h).2

example : Gen.CFun.carquet_decode_varint64 [0xFF, 0xFF, 0xFF, 0xFF, 0xFF, 0xFF, 0xFF, 0xFF, 0xFF, 0x01] 10#64 0#64 =
    (10#32, 18446744073709551615#64) := by decide

/-- `carquet_encode_varint32(p, v)` into a buffer with room for the encoding: the returned count and the buffer
afterwards (the model's bytes, then the untouched rest); no write outside the buffer -/
theorem C11_cfun_encode_varint32 (p : List UInt8) (v : BitVec 32) (h : (Varint.writeVarint32 v.toNat).length ≤ p.length) :
    Gen.CFun.carquet_encode_varint32 p v =
      (BitVec.ofNat 32 (Varint.writeVarint32 v.toNat).length,
       Varint.writeVarint32 v.toNat ++ p.drop (Varint.writeVarint32 v.toNat).length) := (encode_varint32_eq p v h).1

theorem C11_cfun_encode_varint32_defined (p : List UInt8) (v : BitVec 32)
    (h : (Varint.writeVarint32 v.toNat).length ≤ p.length) :
    Gen.CFun.carquet_encode_varint32_defined p v = true := (encode_varint32_eq p v h).2

example : Gen.CFun.carquet_encode_varint32 [9, 9, 9] 300#32 = (2#32, [0xAC, 0x02, 9]) ∧
    Gen.CFun.carquet_encode_varint32_defined [9] 300#32 = false := by decide

theorem C11_cfun_encode_varint64 (p : List UInt8) (v : BitVec 64) (h : (Varint.writeVarint64 v.toNat).length ≤ p.length) :
    Gen.CFun.carquet_encode_varint64 p v =
      (BitVec.ofNat 32 (Varint.writeVarint64 v.toNat).length,
       Varint.writeVarint64 v.toNat ++ p.drop (Varint.writeVarint64 v.toNat).length) := (encode_varint64_eq p v h).1

theorem C11_cfun_encode_varint64_defined (p : List UInt8) (v : BitVec 64)
    (h : (Varint.writeVarint64 v.toNat).length ≤ p.length) :
    Gen.CFun.carquet_encode_varint64_defined p v = true := (encode_varint64_eq p v h).2

example : Gen.CFun.carquet_encode_varint64 [0, 0] 128#64 = (2#32, [0x80, 0x01]) := by decide

/-- rle.c `read_varint(data, size, &pos, &out)`: status 0, the new `*pos` and `*out` of the model on the bytes from
`*pos` on; −1 and both untouched otherwise -/
theorem C11_cfun_rle_read_varint (data : List UInt8) (pos : BitVec 64) (out : BitVec 32) (h : data.length < 2 ^ 64)
    (hpos : pos.toNat ≤ data.length) :
    Gen.CFun.rle_read_varint data (BitVec.ofNat 64 data.length) pos out =
      (match Varint.readVarintRle (data.drop pos.toNat) with
       | some (v, rest) => (0#32, BitVec.ofNat 64 (data.length - rest.length), BitVec.ofNat 32 v)
       | none => (4294967295#32, pos, out)) := (rle_read_varint_eq data pos out h hpos).1

theorem C11_cfun_rle_read_varint_defined (data : List UInt8) (pos : BitVec 64) (out : BitVec 32) (h : data.length < 2 ^ 64)
    (hpos : pos.toNat ≤ data.length) :
    Gen.CFun.rle_read_varint_defined data (BitVec.ofNat 64 data.length) pos out = true :=
  (rle_read_varint_eq data pos out h hpos).2

example : Gen.CFun.rle_read_varint [0xFF, 0x03, 0x7F] 3#64 1#64 0#32 = (0#32, 2#64, 3#32) := by decide

/-- delta.c `read_uleb128(data, size, &value)`: the byte count and value of the model; 0 when the model fails (then
`*value` holds whatever was accumulated — the C code accumulates directly in `*value`) -/
theorem C11_cfun_read_uleb128 (data : List UInt8) (value : BitVec 64) (h : data.length < 2 ^ 64) :
    (match Delta.readUleb128 data with
     | some (v, n) => Gen.CFun.read_uleb128 data (BitVec.ofNat 64 data.length) value = (BitVec.ofNat 64 n, v)
     | none => (Gen.CFun.read_uleb128 data (BitVec.ofNat 64 data.length) value).1 = 0#64) :=
  (read_uleb128_eq data value h).1

theorem C11_cfun_read_uleb128_defined (data : List UInt8) (value : BitVec 64) (h : data.length < 2 ^ 64) :
    Gen.CFun.read_uleb128_defined data (BitVec.ofNat 64 data.length) value = true := (read_uleb128_eq data value h).2

example : Gen.CFun.read_uleb128 [0xE5, 0x8E, 0x26] 3#64 99#64 = (3#64, 624485#64) := by decide

/-! ### little-endian loads (endian.h) and the specialised unpackers (bitpack.c) -/

theorem C11_cfun_read_u16_le (p : List UInt8) : (Gen.CFun.carquet_read_u16_le p).toNat = Bitpack.leNat (p.take 2) :=
  read_u16_le_toNat p
theorem C11_cfun_read_u32_le (p : List UInt8) : (Gen.CFun.carquet_read_u32_le p).toNat = Bitpack.leNat (p.take 4) :=
  read_u32_le_toNat p
theorem C11_cfun_read_u64_le (p : List UInt8) (h : 8 ≤ p.length) :
    (Gen.CFun.carquet_read_u64_le p).toNat = Bitpack.leNat (p.take 8) := read_u64_le_toNat p h
/-- the signed readers are the unsigned ones (a conversion that keeps the bit pattern) -/
theorem C11_cfun_read_i32_le (p : List UInt8) : Gen.CFun.carquet_read_i32_le p = Gen.CFun.carquet_read_u32_le p := rfl
theorem C11_cfun_read_i64_le (p : List UInt8) : Gen.CFun.carquet_read_i64_le p = Gen.CFun.carquet_read_u64_le p := rfl
/-- each reads exactly `sizeof v` bytes at `p` -/
theorem C11_cfun_read_le_defined (p : List UInt8) :
    Gen.CFun.carquet_read_u16_le_defined p = decide (2 ≤ p.length) ∧
    Gen.CFun.carquet_read_u32_le_defined p = decide (4 ≤ p.length) ∧
    Gen.CFun.carquet_read_u64_le_defined p = decide (8 ≤ p.length) ∧
    Gen.CFun.carquet_read_i32_le_defined p = decide (4 ≤ p.length) ∧
    Gen.CFun.carquet_read_i64_le_defined p = decide (8 ≤ p.length) := by
  simp [Gen.CFun.carquet_read_u16_le_defined, Gen.CFun.carquet_read_u32_le_defined, Gen.CFun.carquet_read_u64_le_defined,
    Gen.CFun.carquet_read_i32_le_defined, Gen.CFun.carquet_read_i64_le_defined, Impl.CSem.inb]

example : Gen.CFun.carquet_read_u32_le [0x78, 0x56, 0x34, 0x12, 0xFF] = 0x12345678#32 ∧
    Gen.CFun.carquet_read_u32_le_defined [1, 2, 3] = false := by decide

theorem C11_cfun_read_le24 (p : List UInt8) : (Gen.CFun.read_le24 p).toNat = Bitpack.leNat (p.take 3) := read_le24_toNat p
theorem C11_cfun_read_le32 (p : List UInt8) : (Gen.CFun.read_le32 p).toNat = Bitpack.leNat (p.take 4) := read_le32_toNat p

/-- `carquet_bitunpack8_3bit(input, values)`: `values[0..8)` are the model's eight values, the rest is untouched -/
theorem C11_cfun_bitunpack8_3bit (input : List UInt8) (values : List (BitVec 32)) (hv : 8 ≤ values.length) :
    (Gen.CFun.carquet_bitunpack8_3bit input values).map BitVec.toNat =
      Bitpack.unpack8_3bit input ++ (values.drop 8).map BitVec.toNat := bitunpack8_3bit_eq input values hv

/-- it reads `input[0..3)` and writes `values[0..8)` only -/
theorem C11_cfun_bitunpack8_3bit_defined (input : List UInt8) (values : List (BitVec 32)) (hi : 3 ≤ input.length)
    (hv : 8 ≤ values.length) : Gen.CFun.carquet_bitunpack8_3bit_defined input values = true :=
  bitunpack8_3bit_defined input values hi hv

example : Gen.CFun.carquet_bitunpack8_3bit [0x88, 0xC6, 0xFA] (List.replicate 8 0#32) = [0, 1, 2, 3, 4, 5, 6, 7] ∧
    Gen.CFun.carquet_bitunpack8_3bit_defined [0x88, 0xC6] (List.replicate 8 0#32) = false ∧
    Gen.CFun.carquet_bitunpack8_3bit_defined [0x88, 0xC6, 0xFA] (List.replicate 7 0#32) = false := by decide

theorem C11_cfun_bitunpack8_4bit (input : List UInt8) (values : List (BitVec 32)) (hv : 8 ≤ values.length) :
    (Gen.CFun.carquet_bitunpack8_4bit input values).map BitVec.toNat =
      Bitpack.unpack8_4bit input ++ (values.drop 8).map BitVec.toNat := bitunpack8_4bit_eq input values hv

theorem C11_cfun_bitunpack8_8bit (input : List UInt8) (values : List (BitVec 32)) (hv : 8 ≤ values.length) :
    (Gen.CFun.carquet_bitunpack8_8bit input values).map BitVec.toNat =
      Bitpack.unpack8_8bit input ++ (values.drop 8).map BitVec.toNat := bitunpack8_8bit_eq input values hv

/-- the other specialised unpackers (`read_le16/40/48/56`; for 5..7 bits the 5..7 input bytes must exist — which is also
what their `_defined` asks) -/
theorem C11_cfun_read_le16 (p : List UInt8) : (Gen.CFun.read_le16 p).toNat = Bitpack.leNat (p.take 2) := read_le16_toNat p
theorem C11_cfun_read_le40 (p : List UInt8) (h : 5 ≤ p.length) : (Gen.CFun.read_le40 p).toNat = Bitpack.leNat (p.take 5) :=
  read_le40_toNat p h
theorem C11_cfun_read_le48 (p : List UInt8) (h : 6 ≤ p.length) : (Gen.CFun.read_le48 p).toNat = Bitpack.leNat (p.take 6) :=
  read_le48_toNat p h
theorem C11_cfun_read_le56 (p : List UInt8) (h : 7 ≤ p.length) : (Gen.CFun.read_le56 p).toNat = Bitpack.leNat (p.take 7) :=
  read_le56_toNat p h

theorem C11_cfun_bitunpack8_1bit (input : List UInt8) (values : List (BitVec 32)) (hv : 8 ≤ values.length) :
    (Gen.CFun.carquet_bitunpack8_1bit input values).map BitVec.toNat =
      Bitpack.unpack8_1bit input ++ (values.drop 8).map BitVec.toNat := bitunpack8_1bit_eq input values hv
theorem C11_cfun_bitunpack8_2bit (input : List UInt8) (values : List (BitVec 32)) (hv : 8 ≤ values.length) :
    (Gen.CFun.carquet_bitunpack8_2bit input values).map BitVec.toNat =
      Bitpack.unpack8_2bit input ++ (values.drop 8).map BitVec.toNat := bitunpack8_2bit_eq input values hv
theorem C11_cfun_bitunpack8_5bit (input : List UInt8) (values : List (BitVec 32)) (hi : 5 ≤ input.length)
    (hv : 8 ≤ values.length) :
    (Gen.CFun.carquet_bitunpack8_5bit input values).map BitVec.toNat =
      Bitpack.unpack8_5bit input ++ (values.drop 8).map BitVec.toNat := bitunpack8_5bit_eq input values hi hv
theorem C11_cfun_bitunpack8_6bit (input : List UInt8) (values : List (BitVec 32)) (hi : 6 ≤ input.length)
    (hv : 8 ≤ values.length) :
    (Gen.CFun.carquet_bitunpack8_6bit input values).map BitVec.toNat =
      Bitpack.unpack8_6bit input ++ (values.drop 8).map BitVec.toNat := bitunpack8_6bit_eq input values hi hv
theorem C11_cfun_bitunpack8_7bit (input : List UInt8) (values : List (BitVec 32)) (hi : 7 ≤ input.length)
    (hv : 8 ≤ values.length) :
    (Gen.CFun.carquet_bitunpack8_7bit input values).map BitVec.toNat =
      Bitpack.unpack8_7bit input ++ (values.drop 8).map BitVec.toNat := bitunpack8_7bit_eq input values hi hv

example : Gen.CFun.carquet_bitunpack8_7bit [0x81, 0xC0, 0x60, 0x30, 0x18, 0x0C, 0x06] (List.replicate 9 5#32) =
    [1, 1, 3, 3, 3, 3, 3, 3, 5] := by decide

/- `carquet_bitunpack8_32(input, bit_width, values)` — full statement (NOT proved):
     ∀ w ≤ 32, w ≤ input.length → 8 ≤ values.length →
       (Gen.CFun.carquet_bitunpack8_32 input (BitVec.ofNat 32 w) values).map BitVec.toNat =
         Bitpack.unpack8 w input ++ (values.drop 8).map BitVec.toNat
   Proved below for the widths the function dispatches to the specialised unpackers (0..8, incl. the `memset` for 0).
   Missing: the general loop nest for 9..32 (it is translated — `carquet_bitunpack8_32_loop1/_loop2` — and compared with the
   compiled code on every run, but not related to `Bitpack.unpack8Generic`). -/
theorem C11_cfun_bitunpack8_32_partial (input : List UInt8) (values : List (BitVec 32)) (w : Nat) (hw : w ≤ 8)
    (hi : w ≤ input.length) (hv : 8 ≤ values.length) :
    (Gen.CFun.carquet_bitunpack8_32 input (BitVec.ofNat 32 w) values).map BitVec.toNat =
      Bitpack.unpack8 w input ++ (values.drop 8).map BitVec.toNat := bitunpack8_32_small input values w hw hi hv

example : Gen.CFun.carquet_bitunpack8_32 [0xFF] 0#32 (List.replicate 9 7#32) = List.replicate 8 0#32 ++ [7#32] ∧
    Gen.CFun.carquet_bitunpack8_32 [0x88, 0xC6, 0xFA] 3#32 (List.replicate 8 0#32) = [0, 1, 2, 3, 4, 5, 6, 7] := by decide

end Carquet.Properties.C11
