import Carquet.Spec.RleHybrid
import Carquet.Impl.Rle
import Carquet.Impl.RlePreFix
import Carquet.Proofs.Zigzag
import Carquet.Proofs.BitpackTails
import Carquet.Proofs.RleEncoder
import Carquet.Proofs.RleLevels
import Carquet.Proofs.RleLevelsF58
import Carquet.Proofs.RleHistory
/-
C11 — every encoding decodes its own output (part: ULEB128 varints + zigzag, raw bit packing,
RLE/bit-packed hybrid for values and int16 levels, with and without length prefix).

Property statements only; helper lemmas live in Carquet/Proofs/.  The models are those of the
code **as repaired** by fixes/F1, F30, F31, F32, F33 (see NOTES_rle.md); the pinned functions
are in Impl/RlePreFix.lean and the `C11_regression_*` theorems are their counterexamples.
All statements are for every bit width `w ≤ 32` and sequences of any length.
-/
namespace Carquet.Properties.C11
open Carquet Carquet.Impl Carquet.Proofs

/-! ### Varints and zigzag -/

/-- Every reader of the tree reads back what the writers write, and reports as consumed exactly
the bytes written (the unread rest is returned untouched), whatever follows. -/
theorem C11_varint_roundtrip (rest : List UInt8) :
    (∀ v, v < 2 ^ 32 →
      Varint.decodeVarint32 (Varint.writeVarint32 v ++ rest) = some (v, rest) ∧
      Varint.readVarintRle (Varint.writeVarint32 v ++ rest) = some (v, rest) ∧
      Varint.readHeaderLevels (Varint.writeVarint32 v ++ rest) = (v, rest)) ∧
    (∀ v, v < 2 ^ 64 → Varint.decodeVarint64 (Varint.writeVarint64 v ++ rest) = some (v, rest)) := by
  refine ⟨fun v hv => ?_, fun v hv => ?_⟩
  · have h := VarintImpl.readVarintRle_write hv rest
    exact ⟨h, h, VarintImpl.readHeaderLevels_of_readVarintRle h⟩
  · rw [VarintImpl.writeVarint64_eq hv]
    have hl := Spec.Varint.encode_length_le 9 v (Nat.lt_of_lt_of_le hv (by decide))
    have := VarintImpl.readLoop_eq 64 _ 10 0 0 v rest (Spec.Varint.decode_encode_append v rest)
      (by simp only [List.length_append]; omega) (by decide) (by simpa using hv)
    simpa [Varint.decodeVarint64] using this

example : Varint.decodeVarint32 (Varint.writeVarint32 300 ++ [7]) = some (300, [7]) :=
  ((C11_varint_roundtrip [7]).1 300 (by decide)).1

/-- zigzag encode/decode are mutually inverse bijections of the 32- and 64-bit words and compute
the zigzag of the Spec. -/
theorem C11_zigzag_roundtrip :
    (∀ v : BitVec 32, Varint.zigzagDecode32 (Varint.zigzagEncode32 v) = v) ∧
    (∀ x : BitVec 32, Varint.zigzagEncode32 (Varint.zigzagDecode32 x) = x) ∧
    (∀ v : BitVec 64, Varint.zigzagDecode64 (Varint.zigzagEncode64 v) = v) ∧
    (∀ v : BitVec 32, (Varint.zigzagEncode32 v).toNat = Spec.Varint.zigzag v.toInt) ∧
    (∀ v : BitVec 64, (Varint.zigzagEncode64 v).toNat = Spec.Varint.zigzag v.toInt) ∧
    (∀ i : Int, Spec.Varint.unzigzag (Spec.Varint.zigzag i) = i) :=
  ⟨Zigzag.roundtrip32, Zigzag.roundtrip32', Zigzag.roundtrip64, Zigzag.enc32_eq_spec, Zigzag.enc64_eq_spec,
   Spec.Varint.unzigzag_zigzag⟩

/-! ### Raw bit packing -/

/-- `bitunpack8_32 ∘ bitpack8_32` is the identity on eight values below `2^w`, and
`bitunpack_32 ∘ bitpack_32` on sequences of any length (tails included) returns the values
and reports as consumed exactly the number of bytes written. -/
theorem C11_bitpack_roundtrip (w : Nat) (hw : w ≤ 32) (vs : List Nat) (hv : ∀ v ∈ vs, v < 2 ^ w) :
    (vs.length = 8 → Bitpack.unpack8 w (Bitpack.pack8 w vs) = vs) ∧
    Bitpack.unpack w (Bitpack.pack w vs) vs.length = (vs, (Bitpack.pack w vs).length) ∧
    (Bitpack.pack w vs).length = Bitpack.packedSize vs.length w := by
  refine ⟨fun h8 => ?_, BitpackTails.unpack_pack hw vs hv, ?_⟩
  · rw [BitpackImpl.unpack8_eq hw, BitpackImpl.pack8_eq hw vs h8,
      List.take_of_length_le (by rw [NatBits.leBytes_length]; exact Nat.le_refl _)]
    have := BitpackTails.fields_of_packed w w vs hv (by rw [h8]; exact Nat.le_refl _)
    rw [h8] at this; exact this
  · rw [BitpackTails.impl_pack_eq_spec hw, BitPackSpec.pack_eq, NatBits.leBytes_length]; rfl

example : Bitpack.unpack 9 (Bitpack.pack 9 [511, 0, 1, 300, 5, 6, 7, 8, 9, 10, 11]) 11
    = ([511, 0, 1, 300, 5, 6, 7, 8, 9, 10, 11], (Bitpack.pack 9 [511, 0, 1, 300, 5, 6, 7, 8, 9, 10, 11]).length) :=
  (C11_bitpack_roundtrip 9 (by decide) [511, 0, 1, 300, 5, 6, 7, 8, 9, 10, 11] (by decide)).2.1

/-- The eight specialised unpackers (`carquet_bitunpack8_1bit` … `_8bit`, which
`carquet_bitunpack8_32` dispatches to) compute what the generic loop computes. -/
theorem C11_unpack_special_eq_general (inp : List UInt8) :
    (∀ w, 1 ≤ w → w ≤ 8 → Bitpack.unpack8 w inp = Bitpack.unpack8Generic w inp) ∧
    Bitpack.unpack8_1bit inp = Bitpack.unpack8Generic 1 inp ∧
    Bitpack.unpack8_2bit inp = Bitpack.unpack8Generic 2 inp ∧
    Bitpack.unpack8_3bit inp = Bitpack.unpack8Generic 3 inp ∧
    Bitpack.unpack8_4bit inp = Bitpack.unpack8Generic 4 inp ∧
    Bitpack.unpack8_5bit inp = Bitpack.unpack8Generic 5 inp ∧
    Bitpack.unpack8_6bit inp = Bitpack.unpack8Generic 6 inp ∧
    Bitpack.unpack8_7bit inp = Bitpack.unpack8Generic 7 inp ∧
    Bitpack.unpack8_8bit inp = Bitpack.unpack8Generic 8 inp := by
  have key : ∀ w, w ≤ 8 → Bitpack.unpack8 w inp = Bitpack.unpack8Generic w inp := fun w h => by
    rw [BitpackImpl.unpack8_eq (by omega), BitpackImpl.unpack8Generic_eq (by omega)]
  exact ⟨fun w _ h => key w h, key 1 (by decide), key 2 (by decide), key 3 (by decide), key 4 (by decide),
    key 5 (by decide), key 6 (by decide), key 7 (by decide), key 8 (by decide)⟩

/-! ### RLE / bit-packed hybrid -/

/-- `carquet_rle_decode_all` returns exactly the values `carquet_rle_encode_all` encoded: all of
them (the returned count is `|vs|`, which is how this API reports success — it has no error
result) and in order. -/
theorem C11_rle_roundtrip (w : Nat) (hw : w ≤ 32) (vs : List Nat) (hv : ∀ v ∈ vs, v < 2 ^ w) :
    Rle.decodeAll w (Rle.encode w vs) vs.length = vs ∧
    Rle.decode w (Rle.encode w vs) vs.length = .ok vs := by
  obtain ⟨pad, hr, _, _⟩ := RleEncoder.encode_runs hw vs hv
  have h : Rle.decodeAll w (Rle.encode w vs) vs.length = vs := by
    rw [RleDecoder.decodeAll_eq w hw, RleGrammar.allValues_of_runs hw hr]
    simp
  refine ⟨h, ?_⟩
  unfold Rle.decode
  rw [h, if_pos rfl]

example : Rle.decodeAll 1 (Rle.encode 1 [1, 0, 1, 1, 1, 1, 1, 1, 1, 1, 1, 1, 0]) 13
    = [1, 0, 1, 1, 1, 1, 1, 1, 1, 1, 1, 1, 0] :=
  (C11_rle_roundtrip 1 (by decide) _ (by decide)).1

/-- Levels: `carquet_rle_decode_levels` returns the int16 levels `carquet_rle_encode_levels`
encoded (levels are non-negative int16 values below `2^w`); behind a 4-byte length prefix
`carquet_rle_decode_levels_prefixed` returns them too and reports `4 + len` bytes consumed,
whatever follows the block. -/
theorem C11_rle_levels_roundtrip (w : Nat) (hw : w ≤ 32) (ls : List Int)
    (hl : ∀ l ∈ ls, 0 ≤ l ∧ l < 2 ^ w ∧ l < 32768) :
    Rle.decodeLevels w (Rle.encodeLevels w ls) ls.length = ls ∧
    ∀ tail, (Rle.encodeLevels w ls).length < 2 ^ 32 →
      Rle.decodeLevelsPrefixed w (Rle.withLengthPrefix (Rle.encodeLevels w ls) ++ tail) ls.length
        = .ok (ls, 4 + (Rle.encodeLevels w ls).length) := by
  have hmap : ls.map Rle.u32OfI16 = ls.map Int.toNat := by
    apply List.map_congr_left
    intro l h
    obtain ⟨h0, _, h2⟩ := hl l h
    unfold Rle.u32OfI16
    rw [Int.emod_eq_of_lt h0 (by omega)]
  have hback : (ls.map Int.toNat).map Int.ofNat = ls := by
    rw [List.map_map]
    conv => rhs; rw [← List.map_id ls]
    apply List.map_congr_left
    intro l h
    have := (hl l h).1
    simp only [Function.comp, id]
    exact Int.toNat_of_nonneg this
  have hvs : ∀ v ∈ ls.map Int.toNat, v < 2 ^ w := by
    intro v hv
    obtain ⟨l, hlm, rfl⟩ := List.mem_map.mp hv
    obtain ⟨h0, h1, _⟩ := hl l hlm
    have : ((l.toNat : Nat) : Int) < ((2 ^ w : Nat) : Int) := by
      rw [Int.toNat_of_nonneg h0]; simpa using h1
    exact Int.ofNat_lt.mp this
  have hsm : ∀ v ∈ ls.map Int.toNat, v < 32768 := by
    intro v hv
    obtain ⟨l, hlm, rfl⟩ := List.mem_map.mp hv
    obtain ⟨h0, _, h2⟩ := hl l hlm
    omega
  obtain ⟨pad, hr, _, _⟩ := RleEncoder.encode_runs hw (ls.map Int.toNat) hvs
  have hd : Rle.decodeLevels w (Rle.encodeLevels w ls) ls.length = ls := by
    unfold Rle.encodeLevels
    rw [hmap]
    have := RleLevels.decodeLevels_of_runs hw hr ls.length (by simp) (by
      intro v hv
      rw [List.take_append_of_le_length (by simp), List.take_of_length_le (by simp)] at hv
      exact hsm v hv)
    rw [this, List.take_append_of_le_length (by simp), List.take_of_length_le (by simp), hback]
  refine ⟨hd, fun tail hlen => ?_⟩
  unfold Rle.decodeLevelsPrefixed Rle.withLengthPrefix
  have h4 : (Bitpack.leBytes 4 (Rle.encodeLevels w ls).length).length = 4 := NatBits.leBytes_length _ _
  have hlt : ¬ (Bitpack.leBytes 4 (Rle.encodeLevels w ls).length ++ Rle.encodeLevels w ls ++ tail).length < 4 := by
    simp only [List.length_append, h4]; omega
  have htake : (Bitpack.leBytes 4 (Rle.encodeLevels w ls).length ++ Rle.encodeLevels w ls ++ tail).take 4
      = Bitpack.leBytes 4 (Rle.encodeLevels w ls).length := by
    rw [List.append_assoc, List.take_left' h4]
  have hnat : Bitpack.leNat (Bitpack.leBytes 4 (Rle.encodeLevels w ls).length) = (Rle.encodeLevels w ls).length := by
    rw [NatBits.leNat_leBytes]; exact Nat.mod_eq_of_lt hlen
  rw [if_neg hlt, htake, hnat, if_neg (by simp only [List.length_append, h4]; omega)]
  rw [List.append_assoc, List.drop_left' h4, List.take_left' rfl, hd]

example : Rle.decodeLevelsPrefixed 2 (Rle.withLengthPrefix (Rle.encodeLevels 2 [0, 1, 2, 2, 2, 2, 2, 2, 2, 2, 2, 3, 1]) ++ [9, 9])
    13 = .ok ([0, 1, 2, 2, 2, 2, 2, 2, 2, 2, 2, 3, 1], 4 + 8) := by decide

/-- **Streaming = one-shot, under any chunking and skipping, on any input bytes.**
For every byte string (well-formed or not) and every history of `get` / `get_batch k` /
`skip k` calls, what the calls return is what the list cursor returns on the one-shot decode
`carquet_rle_decode_all(bytes, N)` for any `N` at least the number of values the history asks
for: `get` returns the next value (0 when there is none), `get_batch k` the next `k` values
(fewer only when the one-shot decode has no more), `skip k` advances by `k` and returns how
many values there were.  In particular a truncated or malformed stream makes the streaming
calls stop exactly where the one-shot decoder stops. -/
theorem C11_rle_stream_eq_oneshot (w : Nat) (hw : w ≤ 32) (bytes : List UInt8) (ops : List Rle.Op)
    (N : Nat) (hN : Rle.demand ops ≤ N) :
    Rle.runOps (Rle.Dec.init w bytes) ops = Rle.cursorOps (Rle.decodeAll w bytes N) ops := by
  rw [RleDecoder.runOps_eq_cursor ops _ (RleDecoder.WF_init w hw bytes), RleDecoder.future_init w hw,
    RleDecoder.decodeAll_eq w hw, RleDecoder.cursorOps_take ops _ N hN]

example : Rle.runOps (Rle.Dec.init 1 [0x03, 0xFD, 0x08, 0x01, 0x03, 0x00]) [.get, .skip 3, .getBatch 7, .get, .getBatch 9]
    = [.val 1, .skipped 3, .vals [1, 1, 1, 1, 1, 1, 1], .val 1, .vals [0, 0, 0, 0, 0, 0, 0, 0]] := by decide

/-! ### Counterexamples on the pinned code (regressions of the fixes) -/

/-- **Arbitrary encoder histories.**  For every sequence `ops` of `carquet_rle_encoder_put`,
`_put_repeat` and `_flush` calls (flushes anywhere, any number of them) on a fresh encoder, followed by
a final flush: `carquet_rle_decode_all` on the bytes written returns exactly the values put, in
order, interleaved with the padding the flushes introduced — after the values preceding the i-th
flush come `pads[i] < 8` zeros (`flushPad`: a flush pads a pending group of 1..7 values to a whole
group of 8; it pads nothing when a run of ≥ 8 is pending, when nothing is pending, or at a group
boundary).  `denoteWith pads` is that interleaving; erasing the pads gives the values put.  A
caller that flushes in mid-stream therefore has to account for (or avoid) these zeros; a history
without inner flushes is `C11_rle_roundtrip`. -/
theorem C11_rle_history_roundtrip (w : Nat) (hw : w ≤ 32) (ops : List Rle.EncOp)
    (hv : ∀ v ∈ Rle.histValues ops, v < 2 ^ w) :
    (Rle.flushPads (Rle.Enc.init w) (ops ++ [.flush])).length = (ops.filter (· = .flush)).length + 1 ∧
    (∀ k ∈ Rle.flushPads (Rle.Enc.init w) (ops ++ [.flush]), k < 8) ∧
    Rle.decodeAll w (Rle.runEncOps (Rle.Enc.init w) (ops ++ [.flush])).out
        (Rle.denoteWith (Rle.flushPads (Rle.Enc.init w) (ops ++ [.flush])) (ops ++ [.flush])).length
      = Rle.denoteWith (Rle.flushPads (Rle.Enc.init w) (ops ++ [.flush])) (ops ++ [.flush]) ∧
    Rle.denoteWith ((Rle.flushPads (Rle.Enc.init w) (ops ++ [.flush])).map (fun _ => 0)) (ops ++ [.flush])
      = Rle.histValues ops := by
  obtain ⟨hr, h1, h2⟩ := RleHistory.history_runs hw ops hv
  refine ⟨h1, h2, ?_, ?_⟩
  · rw [RleDecoder.decodeAll_eq w hw, RleGrammar.allValues_of_runs hw hr]
    simp
  · rw [RleHistory.denoteWith_zero _ _ (by intro k hk; simp only [List.mem_map] at hk; obtain ⟨_, _, rfl⟩ := hk; rfl),
      RleHistory.histValues_append_flush]

/-- non-vacuity: put 1, flush (7 zeros of padding), 9 × 5 (an RLE run: no padding), flush, put 2, put 2 -/
example : Rle.flushPads (Rle.Enc.init 3) [.put 1, .flush, .rep 5 9, .flush, .put 2, .put 2, .flush] = [7, 0, 6] ∧
    (Rle.runEncOps (Rle.Enc.init 3) [.put 1, .flush, .rep 5 9, .flush, .put 2, .put 2, .flush]).out =
      [0x03, 0x01, 0x00, 0x00, 0x12, 0x05, 0x03, 0x12, 0x00, 0x00] ∧
    Rle.decodeAll 3 [0x03, 0x01, 0x00, 0x00, 0x12, 0x05, 0x03, 0x12, 0x00, 0x00] 25 =
      [1, 0, 0, 0, 0, 0, 0, 0, 5, 5, 5, 5, 5, 5, 5, 5, 5, 2, 2, 0, 0, 0, 0, 0, 0] := by decide

/-- F1 (pinned `flush_bitpack` before an RLE run): the bytes the pinned encoder emits for
`[1,0,1,1,1,1,1,1,1,1,1,1,0]` at width 1 are `03 01 14 01 03 00`, which denote
`1,0,0,0,0,0,0,0,1,1,1,1,1,…` for carquet's decoder and for the Spec decoder alike. -/
theorem C11_regression_F1 :
    RlePreFix.encode 1 [1, 0, 1, 1, 1, 1, 1, 1, 1, 1, 1, 1, 0] = [0x03, 0x01, 0x14, 0x01, 0x03, 0x00] ∧
    Rle.decodeAll 1 (RlePreFix.encode 1 [1, 0, 1, 1, 1, 1, 1, 1, 1, 1, 1, 1, 0]) 13
      = [1, 0, 0, 0, 0, 0, 0, 0, 1, 1, 1, 1, 1] ∧
    Spec.RleHybrid.decode 1 (RlePreFix.encode 1 [1, 0, 1, 1, 1, 1, 1, 1, 1, 1, 1, 1, 0]) 13
      = .ok [1, 0, 0, 0, 0, 0, 0, 0, 1, 1, 1, 1, 1] := by decide

/-- F30 (pinned `flush_rle` header `(uint32_t)(repeat_count << 1)`): after 2^31 equal values
(`put_repeat(5, 1 << 31)`: one `put` then `repeat_count` incremented 2^31 − 1 times) the pinned
`flush` writes `00 05`, an empty run: every value is lost. -/
theorem C11_regression_F30 :
    (RlePreFix.flush { Rle.put (Rle.Enc.init 3) 5 with rep := 2 ^ 31 }).out = [0x00, 0x05] ∧
    Rle.decodeAll 3 [0x00, 0x05] 10 = [] ∧
    (Rle.flush { Rle.put (Rle.Enc.init 3) 5 with rep := 2 ^ 31 }).out
      = [0xFE, 0xFF, 0xFF, 0xFF, 0x0F, 0x05, 0x02, 0x05] := by decide

/-- F32 (pinned tails of `carquet_bitpack_32` / `carquet_bitunpack_32`): one 32-bit value is
reported as 4 bytes but 32 bytes of the caller's buffer are written / read. -/
theorem C11_regression_F32 :
    Bitpack.packedSize 1 32 = 4 ∧ Bitpack.touchedPreFix 32 1 = 32 := by decide

/-- F33 (pinned `4 + rle_length > input_size` in 32 bits): a 6-byte input whose prefix says
4294967295 passes the pinned length test. -/
theorem C11_regression_F33 :
    RlePreFix.prefixCheck [0xFF, 0xFF, 0xFF, 0xFF, 0x02, 0x01] = .accepted 4294967295 ∧
    Rle.decodeLevelsPrefixed 1 [0xFF, 0xFF, 0xFF, 0xFF, 0x02, 0x01] 5 = .error .lengthExceedsInput := by decide

/-- F58 (pinned `carquet_rle_decode_levels`: a bit-packed group that is cut short only `break`s the
group loop): width 3, one announced group of which 2 of 3 bytes are present — the pinned loop
parses the remains `02 FF` as an RLE run header and returns the level 7 made of them; the repaired
loop stops (no level).  The same at width 8 with remains `02 05`. -/
theorem C11_regression_F58 :
    Rle.decodeLevelsPreF58 3 [0x03, 0x02, 0xFF] 1 = [7] ∧ Rle.decodeLevels 3 [0x03, 0x02, 0xFF] 1 = [] ∧
    Rle.decodeLevelsPreF58 8 [0x03, 0x02, 0x05] 4 = [5] ∧ Rle.decodeLevels 8 [0x03, 0x02, 0x05] 4 = [] := by decide

end Carquet.Properties.C11
