import Carquet.Proofs.PlainFixed
import Carquet.Proofs.PlainBool
import Carquet.Proofs.PlainBytes
import Carquet.Proofs.Bss
import Carquet.Proofs.Dictionary
/-
C11 (PLAIN, BYTE_STREAM_SPLIT and dictionary parts) — every encoding decodes its own output, for
value sequences of every length, with the reported consumed / written byte counts equal to the
actual encoded size.  Statements only; lemmas are in Carquet/Proofs/.

Conventions: the decoders are run on `encode v ++ extra` for an arbitrary `extra` (a page may
continue after the values), so "consumed = encoded size" is a statement about the count the
decoder reports, not about where the buffer happens to end.  `n * size < 2 ^ 64` says that the
caller's array of `n` values exists in the 64-bit address space (the C code computes
`(size_t)count * size` modulo 2^64).
-/
namespace Carquet.Properties.C11
open Carquet Carquet.Impl
open Carquet.Proofs.Plain Carquet.Proofs.Bss Carquet.Proofs.Dictionary

/-! ## PLAIN -/

/-- BOOLEAN, any count (also not a multiple of 8): the decoder returns the normalised input
(non-zero ↦ 1), reports `ceil(n/8)` consumed bytes, which is the encoded size; and all bits of the
encoded bytes are the values followed by `false` padding. -/
theorem C11_plain_boolean_roundtrip (vs : List UInt8) (extra : List UInt8) :
    Plain.decodeBoolean (Plain.encodeBoolean vs ++ extra) vs.length
      = .ok (vs.map (fun v => if v != 0 then 1 else 0)) (Plain.encodeBoolean vs).length ∧
    (Plain.encodeBoolean vs).length = (vs.length + 7) / 8 ∧
    (Plain.encodeBoolean vs).flatMap Spec.Plain.byteBits
      = vs.map (fun v => v != 0) ++ List.replicate ((8 - vs.length % 8) % 8) false := by
  have hlen : (Plain.encodeBoolean vs).length = (vs.length + 7) / 8 := by
    rw [Plain.encodeBoolean, packBools_eq_spec, encodeBool_length, List.length_map]
  refine ⟨?_, hlen, ?_⟩
  · have h := decodeBoolean_eq_spec (Plain.encodeBoolean vs ++ extra) vs.length
    rw [Plain.encodeBoolean, packBools_eq_spec] at h ⊢
    have hs := spec_decodeBool_encode (vs.map (fun v => v != 0)) extra
    rw [List.length_map] at hs
    rw [h, hs, encodeBool_length, List.length_map]
    simp only [List.map_map]
    congr 1
  · rw [Plain.encodeBoolean, packBools_eq_spec, bits_encodeBool, List.length_map]

/-- **F30, pinned code.**  Encoding zero booleans returns CARQUET_ERROR_OUT_OF_MEMORY (the
`carquet_buffer_advance(output, 0)` idiom), so "any length including 0" fails for BOOLEAN; for every
other length the pinned encoder is the repaired one.  Replayed by harness op `pl_enc t=bool vals=x`. -/
theorem C11_regression_F43_bool_zero :
    Plain.encodeBooleanPreFix [] = .error .outOfMemory ∧
    ∀ vs : List UInt8, vs ≠ [] → Plain.encodeBooleanPreFix vs = .ok (Plain.encodeBoolean vs) := by
  refine ⟨rfl, ?_⟩
  intro vs h
  cases vs with
  | nil => exact absurd rfl h
  | cons v vs =>
    simp only [Plain.encodeBooleanPreFix, Plain.encodeBoolean, List.length_cons]
    rw [if_neg (by omega)]

example : Plain.decodeBoolean (Plain.encodeBoolean [1, 0, 7, 1, 0, 0, 0, 0, 255, 0, 1] ++ [0xAA]) 11
    = .ok [1, 0, 1, 1, 0, 0, 0, 0, 1, 0, 1] 2 := by decide

theorem C11_plain_int32_roundtrip (vs : List UInt32) (extra : List UInt8) (h : vs.length * 4 < 2 ^ 64) :
    Plain.decodeInt32 (Plain.encodeInt32 vs ++ extra) vs.length = .ok vs (Plain.encodeInt32 vs).length ∧
    (Plain.encodeInt32 vs).length = vs.length * 4 := by
  have hl : (Plain.encodeInt32 vs).length = vs.length * 4 := length_encode32 vs
  exact ⟨by rw [hl]; exact decodeInt32_encode vs extra h, hl⟩

example : Plain.decodeInt32 (Plain.encodeInt32 [0, 1, 0x80000000, 0xFFFFFFFF] ++ [7]) 4
    = .ok [0, 1, 0x80000000, 0xFFFFFFFF] 16 := by decide

theorem C11_plain_int64_roundtrip (vs : List UInt64) (extra : List UInt8) (h : vs.length * 8 < 2 ^ 64) :
    Plain.decodeInt64 (Plain.encodeInt64 vs ++ extra) vs.length = .ok vs (Plain.encodeInt64 vs).length ∧
    (Plain.encodeInt64 vs).length = vs.length * 8 := by
  have hl : (Plain.encodeInt64 vs).length = vs.length * 8 := length_encode64 vs
  exact ⟨by rw [hl]; exact decodeInt64_encode vs extra h, hl⟩

example : Plain.decodeInt64 (Plain.encodeInt64 [0x8000000000000000, 1]) 2
    = .ok [0x8000000000000000, 1] 16 := by decide

theorem C11_plain_int96_roundtrip (vs : List Plain.Int96) (extra : List UInt8)
    (h : vs.length * 12 < 2 ^ 64) :
    Plain.decodeInt96 (Plain.encodeInt96 vs ++ extra) vs.length = .ok vs (Plain.encodeInt96 vs).length ∧
    (Plain.encodeInt96 vs).length = vs.length * 12 := by
  have hl := length_encode96 vs
  exact ⟨by rw [hl]; exact decodeInt96_encode vs extra h, hl⟩

example : Plain.decodeInt96 (Plain.encodeInt96 [(1, 2, 0xFFFFFFFF)] ++ [9]) 1
    = .ok [(1, 2, 0xFFFFFFFF)] 12 := by decide

/-- FLOAT: values are 32-bit patterns (NaN payloads, −0.0 and denormals are just patterns). -/
theorem C11_plain_float_roundtrip (vs : List UInt32) (extra : List UInt8) (h : vs.length * 4 < 2 ^ 64) :
    Plain.decodeFloat (Plain.encodeFloat vs ++ extra) vs.length = .ok vs (Plain.encodeFloat vs).length ∧
    (Plain.encodeFloat vs).length = vs.length * 4 :=
  C11_plain_int32_roundtrip vs extra h

-- quiet NaN with payload, -0.0f
example : Plain.decodeFloat (Plain.encodeFloat [0x7FC00001, 0x80000000]) 2
    = .ok [0x7FC00001, 0x80000000] 8 := by decide

/-- DOUBLE: 64-bit patterns. -/
theorem C11_plain_double_roundtrip (vs : List UInt64) (extra : List UInt8) (h : vs.length * 8 < 2 ^ 64) :
    Plain.decodeDouble (Plain.encodeDouble vs ++ extra) vs.length = .ok vs (Plain.encodeDouble vs).length ∧
    (Plain.encodeDouble vs).length = vs.length * 8 :=
  C11_plain_int64_roundtrip vs extra h

example : Plain.decodeDouble (Plain.encodeDouble [0xFFF8000000000001]) 1
    = .ok [0xFFF8000000000001] 8 := by decide

/-- BYTE_ARRAY: the decoder returns slices `(offset, length)` of its input; read through them the
caller sees the original values (empty ones included); consumed = encoded size. -/
theorem C11_plain_byte_array_roundtrip (vs : List (List UInt8)) (extra : List UInt8)
    (h : ∀ v ∈ vs, v.length < 2 ^ 31) :
    ∃ slices, Plain.decodeByteArray (Plain.encodeByteArray vs ++ extra) vs.length
        = .ok slices (Plain.encodeByteArray vs).length ∧
      slices.map (Plain.slice (Plain.encodeByteArray vs ++ extra)) = vs := by
  have h1 := baLoop_encode vs h [] extra
  have h2 := expectedSlices_values vs [] extra
  simp only [List.nil_append, List.length_nil, Nat.zero_add] at h1 h2
  refine ⟨expectedSlices 0 vs, ?_, h2⟩
  simp only [Plain.decodeByteArray, Int.toNat_natCast, h1]
  rw [if_neg (by omega)]

example : Plain.decodeByteArray (Plain.encodeByteArray [[0x61, 0x62], [], [0x63]] ++ [0xFF]) 3
    = .ok [(4, 2), (10, 0), (14, 1)] 15 := by decide

/-- FIXED_LEN_BYTE_ARRAY of width `k`. -/
theorem C11_plain_fixed_len_byte_array_roundtrip (k : Nat) (hk : 0 < k) (vs : List (List UInt8))
    (hv : ∀ v ∈ vs, v.length = k) (extra : List UInt8) (h : vs.length * k < 2 ^ 64) :
    Plain.encodeFlba vs.flatten vs.length k = .ok vs.flatten ∧
    Plain.decodeFlba (vs.flatten ++ extra) vs.length k = .ok vs.flatten vs.flatten.length ∧
    vs.flatten.length = vs.length * k := by
  have hl : vs.flatten.length = vs.length * k := flatten_length_of_all vs hv
  have hs : Plain.sizeMul vs.length k = vs.length * k := sizeMul_of_lt h
  refine ⟨?_, ?_, hl⟩
  · simp only [Plain.encodeFlba, Int.toNat_natCast, hs]
    rw [if_neg (by omega), ← hl, List.take_length]
  · simp only [Plain.decodeFlba, Int.toNat_natCast, hs]
    rw [if_neg (by omega), if_neg (by rw [List.length_append]; omega), ← hl, List.take_left]

example : Plain.decodeFlba ([1, 2, 3, 4, 5, 6] ++ [7]) 2 3 = .ok [1, 2, 3, 4, 5, 6] 6 := by decide

/-! ## BYTE_STREAM_SPLIT -/

theorem requiredSize_natCast {n k : Nat} (hk : 0 < k) (h : n * k < 2 ^ 64) :
    Bss.requiredSize (n : Int) k = n * k := by
  have hn : n < 2 ^ 64 := Nat.lt_of_le_of_lt (Nat.le_mul_of_pos_right n hk) h
  have : Bss.sizeT (n : Int) = n := by unfold Bss.sizeT; omega
  rw [Bss.requiredSize, this, Nat.mod_eq_of_lt h]

/-- Generic width `k` (FIXED_LEN_BYTE_ARRAY, INT32, INT64, ...): `n` values of `k` bytes.  The
encoder writes exactly `n * k` bytes; the decoder gives the value bytes back. -/
theorem C11_bss_roundtrip (k n : Nat) (hk : 0 < k) (vals : List (List UInt8))
    (hn : vals.length = n) (hv : ∀ v ∈ vals, v.length = k) (hsz : n * k < 2 ^ 64)
    (cap : Nat) (hcap : n * k ≤ cap) (extra : List UInt8) :
    ∃ bytes, Bss.encode vals.flatten n k cap = .ok bytes ∧ bytes.length = n * k ∧
      Bss.decode (bytes ++ extra) k n = .ok vals.flatten := by
  have hr : Rect k n vals := ⟨hn, hv⟩
  have hreq := requiredSize_natCast hk hsz
  refine ⟨Spec.Bss.encode k vals, ?_, by rw [encode_length k hr, Nat.mul_comm], ?_⟩
  · simp only [Bss.encode, Int.toNat_natCast, hreq, scatterSeq_flat hr]
    rw [if_neg (by omega), if_neg (by omega)]
  · simp only [Bss.decode, Int.toNat_natCast, hreq, gather_encode hr extra]
    rw [if_neg (by omega), if_neg (by rw [List.length_append, encode_length k hr, Nat.mul_comm]; omega)]

example : Bss.decode ([1, 4, 2, 5, 3, 6] ++ [9]) 3 2 = .ok [1, 2, 3, 4, 5, 6] ∧
    Bss.encode [1, 2, 3, 4, 5, 6] 2 3 6 = .ok [1, 4, 2, 5, 3, 6] := by decide

theorem rect_mem32 (fs : List UInt32) : Rect 4 fs.length (fs.map Plain.memU32) :=
  ⟨by simp, by intro v hv; simp only [List.mem_map] at hv; obtain ⟨_, _, rfl⟩ := hv; rfl⟩

theorem rect_mem64 (ds : List UInt64) : Rect 8 ds.length (ds.map Plain.memU64) :=
  ⟨by simp, by intro v hv; simp only [List.mem_map] at hv; obtain ⟨_, _, rfl⟩ := hv; rfl⟩

/-- FLOAT through the scalar kernel: `img` is the byte image of the caller's `float[n]`; the kernel
fills the first `4 n` bytes of the output buffer `out0` (leaving the rest untouched), and decoding
them gives the image — hence the values — back. -/
theorem C11_bss_float_roundtrip (fs : List UInt32) (hsz : fs.length * 4 < 2 ^ 64)
    (out0 : List UInt8) (hcap : fs.length * 4 ≤ out0.length) (extra : List UInt8) :
    ∃ bytes, Bss.encodeFloatBuf (fs.flatMap Plain.memU32) fs.length out0
        = .ok (bytes ++ out0.drop (fs.length * 4)) ∧ bytes.length = fs.length * 4 ∧
      Bss.decodeFloat (bytes ++ extra) fs.length = .ok (fs.flatMap Plain.memU32) ∧
      Plain.load32s (fs.flatMap Plain.memU32) = fs := by
  have hr := rect_mem32 fs
  have himg : (fs.map Plain.memU32).flatten = fs.flatMap Plain.memU32 := by rw [List.flatMap_def]
  have hreq := requiredSize_natCast (k := 4) (by omega) hsz
  refine ⟨Spec.Bss.encode 4 (fs.map Plain.memU32), ?_, by rw [encode_length 4 hr, Nat.mul_comm], ?_,
    load32s_encode fs⟩
  · simp only [Bss.encodeFloatBuf, Int.toNat_natCast, hreq]
    rw [if_neg (by omega), ← himg, scatterLoop_flat hr out0 (by omega), Nat.mul_comm]
  · simp only [Bss.decodeFloat, Int.toNat_natCast, hreq, gather_encode hr extra, himg]
    rw [if_neg (by rw [List.length_append, encode_length 4 hr]; omega)]

/-- DOUBLE through the scalar kernel. -/
theorem C11_bss_double_roundtrip (ds : List UInt64) (hsz : ds.length * 8 < 2 ^ 64)
    (out0 : List UInt8) (hcap : ds.length * 8 ≤ out0.length) (extra : List UInt8) :
    ∃ bytes, Bss.encodeDoubleBuf (ds.flatMap Plain.memU64) ds.length out0
        = .ok (bytes ++ out0.drop (ds.length * 8)) ∧ bytes.length = ds.length * 8 ∧
      Bss.decodeDouble (bytes ++ extra) ds.length = .ok (ds.flatMap Plain.memU64) ∧
      Plain.load64s (ds.flatMap Plain.memU64) = ds := by
  have hr := rect_mem64 ds
  have himg : (ds.map Plain.memU64).flatten = ds.flatMap Plain.memU64 := by rw [List.flatMap_def]
  have hreq := requiredSize_natCast (k := 8) (by omega) hsz
  refine ⟨Spec.Bss.encode 8 (ds.map Plain.memU64), ?_, by rw [encode_length 8 hr, Nat.mul_comm], ?_,
    load64s_encode ds⟩
  · simp only [Bss.encodeDoubleBuf, Int.toNat_natCast, hreq]
    rw [if_neg (by omega), ← himg, scatterLoop_flat hr out0 (by omega), Nat.mul_comm]
  · simp only [Bss.decodeDouble, Int.toNat_natCast, hreq, gather_encode hr extra, himg]
    rw [if_neg (by rw [List.length_append, encode_length 8 hr]; omega)]

example : Bss.encodeFloatBuf ([0x3F800000, 0x7FC00001].flatMap Plain.memU32) 2 (List.replicate 9 0xEE)
    = .ok [0x00, 0x01, 0x00, 0x00, 0x80, 0xC0, 0x3F, 0x7F, 0xEE] := by decide

/-! ## Dictionary encoding -/

/-- The builder, for **any** hash function and **any** positive number of buckets (the C code uses
FNV-1a and 1024): the dictionary is the list of distinct values in order of first occurrence — so
the hash table is irrelevant to the result —, it has no duplicates, the index assigned to a value
is its position in the dictionary, every index is below the dictionary size, and looking the
indices up gives the original sequence back. -/
theorem C11_dictionary_builder (hash : List UInt8 → Nat) (nb : Nat) (hnb : 0 < nb) (isVar : Bool)
    (vals : List (List UInt8)) (hlen : vals.length < 2 ^ 31) :
    (Dictionary.build hash nb isVar vals).entries = Spec.Dictionary.firstOccurrences vals ∧
    (Dictionary.build hash nb isVar vals).entries.Nodup ∧
    (Dictionary.build hash nb isVar vals).indices
      = vals.map (fun v => Spec.Dictionary.indexIn v (Dictionary.build hash nb isVar vals).entries) ∧
    (∀ i ∈ (Dictionary.build hash nb isVar vals).indices,
      i < (Dictionary.build hash nb isVar vals).entries.length) ∧
    Spec.Dictionary.decode (Dictionary.build hash nb isVar vals).entries
      (Dictionary.build hash nb isVar vals).indices = some vals ∧
    (Dictionary.build hash nb isVar vals).count = (Dictionary.build hash nb isVar vals).entries.length := by
  obtain ⟨he, hi, hc, _⟩ := build_spec hash hnb isVar vals (by omega)
  refine ⟨he, by rw [he]; exact nodup_firstOccurrences vals, by rw [hi, he], ?_, ?_, by rw [hc, he]⟩
  · intro i hm
    rw [hi] at hm
    simp only [List.mem_map] at hm
    obtain ⟨v, hv, rfl⟩ := hm
    rw [he]
    exact indexIn_lt_length (mem_firstOccurrences.mpr hv)
  · rw [hi, he]
    exact decode_indexIn _ vals (fun v hv => mem_firstOccurrences.mpr hv)

example : (Dictionary.build Dictionary.hashNat 1024 false [[5], [3], [5], [5], [7], [3]]).indices
    = [0, 1, 0, 0, 2, 1] := by decide +kernel

/-- The bit width byte: 1..32, wide enough for every index, and the number of bits of
`count − 1` except that 0 is raised to 1. -/
theorem C11_dictionary_bit_width (n : Nat) (h1 : 1 ≤ n) (h2 : n < 2 ^ 32) :
    1 ≤ Dictionary.bitWidthForCount n ∧ Dictionary.bitWidthForCount n ≤ 32 ∧
    n ≤ 2 ^ Dictionary.bitWidthForCount n ∧
    Dictionary.bitWidthForCount n = max 1 (Spec.Dictionary.bitsFor n) :=
  bitWidth_spec n h1 h2

example : (List.range 10).map Dictionary.bitWidthForCount = [0, 1, 1, 2, 2, 3, 3, 3, 3, 4] := by decide

/-- INT32 / FLOAT (bit patterns): encode then decode with carquet's own (repaired) decoder, for
any index codec `idxEnc/idxDec` that round-trips indices below `2 ^ w` (the RLE hybrid, verified
separately).  `dict_count` is the number of 4-byte entries of the dictionary page. -/
theorem C11_dictionary_roundtrip_32
    (idxEnc : Nat → List Nat → List UInt8) (idxDec : Nat → List UInt8 → Nat → Option (List Nat))
    (hcodec : ∀ w idxs, 1 ≤ w → w ≤ 32 → (∀ i ∈ idxs, i < 2 ^ w) →
      idxDec w (idxEnc w idxs) idxs.length = some idxs)
    (vs : List UInt32) (hlen : vs.length < 2 ^ 31) :
    Dictionary.decode32 idxDec (Dictionary.encode32 idxEnc vs).dictPage
      (((Dictionary.encode32 idxEnc vs).dictPage.length / 4 : Nat) : Int)
      (Dictionary.encode32 idxEnc vs).indexStream (vs.length : Int) = .ok vs := by
  have hnb : 0 < Gen.dictNumBuckets := by decide
  have hsz : ∀ v ∈ vs.map Plain.memU32, v.length = 4 := (rect_mem32 vs).2
  have h := decodeFixed_build 4 Dictionary.hashNat hnb idxEnc idxDec hcodec (vs.map Plain.memU32) hsz
    (by simpa using hlen)
  obtain ⟨he, _, _, hv⟩ := build_spec Dictionary.hashNat hnb false (vs.map Plain.memU32) (by simp; omega)
  have hesz : ∀ e ∈ (Dictionary.build Dictionary.hashNat Gen.dictNumBuckets false (vs.map Plain.memU32)).entries,
      e.length = 4 := by
    intro e hm; rw [he] at hm; exact hsz e (mem_firstOccurrences.mp hm)
  have hdl : (Dictionary.encode32 idxEnc vs).dictPage.length / 4
      = (Dictionary.build Dictionary.hashNat Gen.dictNumBuckets false (vs.map Plain.memU32)).entries.length := by
    simp only [Dictionary.encode32, Dictionary.finish, dictBytes_fixed _ hv, flatten_length_of_all _ hesz]
    omega
  rw [List.length_map] at h
  unfold Dictionary.decode32
  rw [hdl]
  unfold Dictionary.encode32
  rw [h]
  simp only [Dictionary.Res.map, ← List.flatMap_def, load32s_encode]

/-- INT64 / DOUBLE (bit patterns). -/
theorem C11_dictionary_roundtrip_64
    (idxEnc : Nat → List Nat → List UInt8) (idxDec : Nat → List UInt8 → Nat → Option (List Nat))
    (hcodec : ∀ w idxs, 1 ≤ w → w ≤ 32 → (∀ i ∈ idxs, i < 2 ^ w) →
      idxDec w (idxEnc w idxs) idxs.length = some idxs)
    (vs : List UInt64) (hlen : vs.length < 2 ^ 31) :
    Dictionary.decode64 idxDec (Dictionary.encode64 idxEnc vs).dictPage
      (((Dictionary.encode64 idxEnc vs).dictPage.length / 8 : Nat) : Int)
      (Dictionary.encode64 idxEnc vs).indexStream (vs.length : Int) = .ok vs := by
  have hnb : 0 < Gen.dictNumBuckets := by decide
  have hsz : ∀ v ∈ vs.map Plain.memU64, v.length = 8 := (rect_mem64 vs).2
  have h := decodeFixed_build 8 Dictionary.hashNat hnb idxEnc idxDec hcodec (vs.map Plain.memU64) hsz
    (by simpa using hlen)
  obtain ⟨he, _, _, hv⟩ := build_spec Dictionary.hashNat hnb false (vs.map Plain.memU64) (by simp; omega)
  have hesz : ∀ e ∈ (Dictionary.build Dictionary.hashNat Gen.dictNumBuckets false (vs.map Plain.memU64)).entries,
      e.length = 8 := by
    intro e hm; rw [he] at hm; exact hsz e (mem_firstOccurrences.mp hm)
  have hdl : (Dictionary.encode64 idxEnc vs).dictPage.length / 8
      = (Dictionary.build Dictionary.hashNat Gen.dictNumBuckets false (vs.map Plain.memU64)).entries.length := by
    simp only [Dictionary.encode64, Dictionary.finish, dictBytes_fixed _ hv, flatten_length_of_all _ hesz]
    omega
  rw [List.length_map] at h
  unfold Dictionary.decode64
  rw [hdl]
  unfold Dictionary.encode64
  rw [h]
  simp only [Dictionary.Res.map, ← List.flatMap_def, load64s_encode]

/-- A toy index codec satisfying the hypothesis (one byte per index; only for the non-vacuity
example below — the real codec is the RLE hybrid). -/
def toyEnc (_ : Nat) (idxs : List Nat) : List UInt8 := idxs.map UInt8.ofNat
def toyDec (_ : Nat) (bs : List UInt8) (n : Nat) : Option (List Nat) := some ((bs.take n).map UInt8.toNat)

example : Dictionary.decode32 toyDec (Dictionary.encode32 toyEnc [7, 9, 7, 7, 1, 9]).dictPage 3
    (Dictionary.encode32 toyEnc [7, 9, 7, 7, 1, 9]).indexStream 6 = .ok [7, 9, 7, 7, 1, 9] := by
  decide +kernel

end Carquet.Properties.C11
