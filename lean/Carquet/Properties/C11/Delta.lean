import Carquet.Proofs.DeltaTop
import Carquet.Proofs.DeltaBytes
import Carquet.Proofs.DeltaImplCap
import Carquet.Proofs.DeltaBytesCap
/-
C11 — every encoding decodes its own output: DELTA_BINARY_PACKED (int32 and int64).
Property statements only; helper lemmas live in Carquet/Proofs/Delta*.lean.
The models are those of the repaired code (fixes/F13-…, fixes/F30-…).
-/
namespace Carquet.Properties.C11
open Carquet

/-- DELTA_BINARY_PACKED, INT64: for every non-empty value sequence the API can express (any
length up to `INT32_MAX`, any values: wrap-around deltas, `INT64_MIN`/`INT64_MAX` alternating,
every block-boundary length) and every capacity with which `carquet_delta_encode_int64` returns
OK, `carquet_delta_decode_int64` on the written bytes — followed by anything — returns exactly the
values, and `bytes_consumed` is the number of bytes written. -/
theorem C11_delta_int64_roundtrip (vs : List (BitVec 64)) (cap : Nat) (bs tail : List UInt8)
    (hne : vs ≠ []) (hlen : vs.length ≤ 2147483647)
    (henc : Impl.Delta.encodeInt64 vs cap = .ok bs) :
    Impl.Delta.decodeInt64 (bs ++ tail) vs.length = .ok (vs, bs.length) :=
  Impl.Delta.int64_roundtrip vs cap bs tail hne hlen henc

/-- DELTA_BINARY_PACKED, INT32 (deltas are taken on the sign-extended values in 64 bits, so
`INT32_MIN, INT32_MAX, INT32_MIN` needs a 33-bit miniblock — the case F13 broke). -/
theorem C11_delta_int32_roundtrip (vs : List (BitVec 32)) (cap : Nat) (bs tail : List UInt8)
    (hne : vs ≠ []) (hlen : vs.length ≤ 2147483647)
    (henc : Impl.Delta.encodeInt32 vs cap = .ok bs) :
    Impl.Delta.decodeInt32 (bs ++ tail) vs.length = .ok (vs, bs.length) :=
  Impl.Delta.int32_roundtrip vs cap bs tail hne hlen henc

/-- non-vacuity: a concrete encode succeeds (33-bit miniblock, two blocks would need 130 values;
this one exercises the header, one block, a 33-bit width) and the theorem's conclusion is the
value the kernel computes. -/
example : ∃ bs, Impl.Delta.encodeInt32 [0x80000000#32, 0x7FFFFFFF#32, 0x80000000#32] 400 = .ok bs ∧
    Impl.Delta.decodeInt32 bs 3 = .ok ([0x80000000#32, 0x7FFFFFFF#32, 0x80000000#32], bs.length) ∧
    bs.length = 4 + 5 + 5 + 4 + 132 := by
  refine ⟨_, rfl, ?_, ?_⟩ <;> decide +kernel

example : ∃ bs, Impl.Delta.encodeInt64 [0x8000000000000000#64, 0x7FFFFFFFFFFFFFFF#64, 0x8000000000000000#64, 5#64] 400 = .ok bs ∧
    Impl.Delta.decodeInt64 bs 4 = .ok ([0x8000000000000000#64, 0x7FFFFFFFFFFFFFFF#64, 0x8000000000000000#64, 5#64], bs.length) := by
  refine ⟨_, rfl, ?_⟩; decide +kernel

/-- The encoders succeed whenever the output buffer has the 40 bytes the header check asks for and
`27 + 1038` bytes per started block of 128 deltas (the real need is usually far smaller: the exact
condition proved in `Impl.Delta.encodeV_succeeds` is "final size + 9 ≤ capacity"), so with an
adequate buffer the round trips above are unconditional. -/
theorem C11_delta_encode_succeeds :
    (∀ (vs : List (BitVec 64)) (cap : Nat), vs ≠ [] → vs.length ≤ 2147483647 → 40 ≤ cap →
      27 + 1038 * ((vs.length + 126) / 128) ≤ cap → ∃ bs, Impl.Delta.encodeInt64 vs cap = .ok bs) ∧
    (∀ (vs : List (BitVec 32)) (cap : Nat), vs ≠ [] → vs.length ≤ 2147483647 → 40 ≤ cap →
      27 + 1038 * ((vs.length + 126) / 128) ≤ cap → ∃ bs, Impl.Delta.encodeInt32 vs cap = .ok bs) := by
  have key : ∀ (v : BitVec 64) (rest : List (BitVec 64)) (cap : Nat), rest.length + 1 ≤ 2147483647 → 40 ≤ cap →
      27 + 1038 * ((rest.length + 1 + 126) / 128) ≤ cap → ∃ bs, Impl.Delta.encodeV false (v :: rest) cap = .ok bs := by
    intro v rest cap hlen h40 hcap
    have hb := Impl.Delta.length_encodeOut_le v rest hlen
    have : rest.length + 1 + 126 = rest.length + 127 := by omega
    rw [this] at hcap
    exact ⟨_, Impl.Delta.encodeV_succeeds v rest cap h40 (by omega)⟩
  constructor
  · intro vs cap hne hlen h40 hcap
    cases vs with
    | nil => exact absurd rfl hne
    | cons v rest => exact key v rest cap (by simpa using hlen) h40 (by simpa using hcap)
  · intro vs cap hne hlen h40 hcap
    cases vs with
    | nil => exact absurd rfl hne
    | cons v rest =>
      have := key (v.signExtend 64) (rest.map (BitVec.signExtend 64)) cap (by simpa using hlen) h40
        (by simpa using hcap)
      simpa [Impl.Delta.encodeInt32] using this

/-- The length-0 edge, stated as it is observable: encoding zero values succeeds and writes zero
bytes, but zero bytes are not a decodable stream (no header): the decoder reports
`CARQUET_ERROR_DECODE` even when asked for zero values.  `decode (encode []) = []` therefore
does NOT hold at length 0; see NOTES_delta.md. -/
theorem C11_delta_empty_edge (cap : Nat) :
    Impl.Delta.encodeInt64 [] cap = .ok [] ∧ Impl.Delta.encodeInt32 [] cap = .ok [] ∧
    Impl.Delta.decodeInt64 [] 0 = .error .decode ∧ Impl.Delta.decodeInt32 [] 0 = .error .decode := by
  refine ⟨rfl, rfl, ?_, ?_⟩ <;> decide

/-- DELTA_LENGTH_BYTE_ARRAY: for every non-empty list of byte arrays (each shorter than 2 GiB, as
the `int32_t length` field requires; empty strings allowed) for which
`carquet_delta_length_encode` returns OK, `carquet_delta_length_decode` on the produced bytes —
followed by anything — returns the byte arrays and reports `bytes_consumed` = bytes produced.
(The encoder's internal capacity `10·n + 100` for the length stream can be exceeded for n ≤ 5 with
length jumps ≥ 2^27; the call then returns `CARQUET_ERROR_ENCODE`, see NOTES_delta.md.) -/
theorem C11_delta_length_roundtrip (vs : List (List UInt8)) (bs tail : List UInt8) (hne : vs ≠ [])
    (hlen : vs.length ≤ 2147483647) (hv : ∀ v ∈ vs, v.length < 2 ^ 31)
    (henc : Impl.DeltaLength.encode vs = .ok bs) :
    Impl.DeltaLength.decode (bs ++ tail) vs.length = .ok (vs, bs.length) :=
  Impl.DeltaLength.roundtrip vs bs tail hne hlen hv henc

example : ∃ bs, Impl.DeltaLength.encode [[1, 2, 3], [], [4], [5, 6, 7, 8, 9]] = .ok bs ∧
    Impl.DeltaLength.decode bs 4 = .ok ([[1, 2, 3], [], [4], [5, 6, 7, 8, 9]], bs.length) := by
  refine ⟨_, rfl, ?_⟩; decide +kernel

/-- DELTA_BYTE_ARRAY (incremental / prefix encoding): same statement; the caller's work buffer
must hold the reconstructed strings (`Σ length ≤ work`). -/
theorem C11_delta_strings_roundtrip (vs : List (List UInt8)) (bs tail : List UInt8) (work : Nat)
    (hne : vs ≠ []) (hlen : vs.length ≤ 2147483647) (hv : ∀ v ∈ vs, v.length < 2 ^ 31)
    (hwork : (vs.map List.length).sum ≤ work) (henc : Impl.DeltaStrings.encode vs = .ok bs) :
    Impl.DeltaStrings.decode (bs ++ tail) vs.length work = .ok (vs, bs.length) :=
  Impl.DeltaStrings.roundtrip vs bs tail work hne hlen hv hwork henc

example : ∃ bs, Impl.DeltaStrings.encode [[1, 2, 3], [1, 2, 4, 5], [], [1, 2, 4, 5], [1, 2, 4]] = .ok bs ∧
    Impl.DeltaStrings.decode bs 5 14 = .ok ([[1, 2, 3], [1, 2, 4, 5], [], [1, 2, 4, 5], [1, 2, 4]], bs.length) := by
  refine ⟨_, rfl, ?_⟩; decide +kernel

/-- Success of the byte-array encoders, characterised: `carquet_delta_length_encode` and
`carquet_delta_strings_encode` return OK for **every** non-empty list of byte arrays the API can
express (`num_values` is an `int32_t`; nothing is asked of the values).  The only way they could
fail on the model — allocation aside — is the fixed scratch buffer their length streams are encoded
into; its capacity is re-extracted from the source on every run (`Gen.deltaLengthScratch`,
`Gen.deltaStringsScratch`) and proved sufficient (`40 + 1038·⌈n/128⌉ ≥` the 40-byte header check and
`27 + 1038` per started block of `C11_delta_encode_succeeds`).  With `num_values ≤ 0` both return
`CARQUET_ERROR_INVALID_ARGUMENT`.  So success is exactly `values ≠ []`. -/
theorem C11_delta_bytes_encode_succeeds (vs : List (List UInt8)) (hlen : vs.length ≤ 2147483647) :
    ((∃ bs, Impl.DeltaLength.encode vs = .ok bs) ↔ vs ≠ []) ∧
    ((∃ bs, Impl.DeltaStrings.encode vs = .ok bs) ↔ vs ≠ []) := by
  constructor
  · constructor
    · rintro ⟨bs, h⟩ rfl; simp [Impl.DeltaLength.encode] at h
    · intro hne; exact Impl.DeltaLength.encode_succeeds vs hne hlen
  · constructor
    · rintro ⟨bs, h⟩ rfl; simp [Impl.DeltaStrings.encode] at h
    · intro hne; exact Impl.DeltaStrings.encode_succeeds vs hne hlen

/-- DELTA_LENGTH_BYTE_ARRAY round trip without a condition on the encoder's status: for every
non-empty list of byte arrays (each shorter than 2 GiB — the `int32_t length` field) the encoder
succeeds, and the decoder on the produced bytes — followed by anything — returns the byte arrays and
`bytes_consumed` = bytes produced. -/
theorem C11_delta_length_roundtrip_total (vs : List (List UInt8)) (tail : List UInt8) (hne : vs ≠ [])
    (hlen : vs.length ≤ 2147483647) (hv : ∀ v ∈ vs, v.length < 2 ^ 31) :
    ∃ bs, Impl.DeltaLength.encode vs = .ok bs ∧
      Impl.DeltaLength.decode (bs ++ tail) vs.length = .ok (vs, bs.length) := by
  obtain ⟨bs, h⟩ := Impl.DeltaLength.encode_succeeds vs hne hlen
  exact ⟨bs, h, Impl.DeltaLength.roundtrip vs bs tail hne hlen hv h⟩

/-- DELTA_BYTE_ARRAY round trip without a condition on the encoder's status (the caller's work
buffer must hold the reconstructed strings). -/
theorem C11_delta_strings_roundtrip_total (vs : List (List UInt8)) (tail : List UInt8) (work : Nat)
    (hne : vs ≠ []) (hlen : vs.length ≤ 2147483647) (hv : ∀ v ∈ vs, v.length < 2 ^ 31)
    (hwork : (vs.map List.length).sum ≤ work) :
    ∃ bs, Impl.DeltaStrings.encode vs = .ok bs ∧
      Impl.DeltaStrings.decode (bs ++ tail) vs.length work = .ok (vs, bs.length) := by
  obtain ⟨bs, h⟩ := Impl.DeltaStrings.encode_succeeds vs hne hlen
  exact ⟨bs, h, Impl.DeltaStrings.roundtrip vs bs tail work hne hlen hv hwork h⟩

/-- non-vacuity of the hypotheses (and the capacity in force for four values) -/
example : ([[1, 2, 3], [], [4], [5, 6, 7, 8, 9]] : List (List UInt8)) ≠ [] ∧
    (∀ v ∈ ([[1, 2, 3], [], [4], [5, 6, 7, 8, 9]] : List (List UInt8)), v.length < 2 ^ 31) ∧
    Impl.DeltaLength.lengthsCapacity 4 = 1078 ∧ Impl.DeltaStrings.deltaCapacity 129 = 2116 := by
  refine ⟨by decide, by decide, by decide, by decide⟩

/-- F61, the defect the repair removes: before the fix both encoders encoded their length streams
into a scratch buffer of `10·n + 100` bytes, while `delta_encoder_flush_block` asks for 14 bytes plus
every started miniblock written whole.  Three byte arrays of lengths 0, 2^27, 0 — whatever their
bytes — were refused with `CARQUET_ERROR_ENCODE` by `carquet_delta_length_encode` (one 29-bit
miniblock: 5 + 14 + 116 > 130), and a 2^27-byte value followed by two empty ones by
`carquet_delta_strings_encode`; the repaired encoders accept both (theorems above).  Kernel-checked
on the length level; replayed on the real code by `corpus/C11/F61-delta-bytes-scratch-capacity.ops`
(`dl_big lens=0,134217728,0` → `st=41` on the unpatched tree). -/
theorem C11_regression_F61 :
    (∀ a b c : List UInt8, a.length = 0 → b.length = 134217728 → c.length = 0 →
       Impl.DeltaLength.encodePreFix [a, b, c] = .error .encode) ∧
    (∀ b : List UInt8, b.length = 134217728 → Impl.DeltaStrings.encodePreFix [b, [], []] = .error .encode) ∧
    Impl.DeltaLength.encodeLensWith true [0, 134217728, 0] = .error .encode ∧
    (Impl.DeltaLength.encodeLensWith false [0, 134217728, 0]).map List.length = .ok (5 + 4 + 4 + 116) :=
  ⟨Impl.DeltaLength.encodePreFix_fails, Impl.DeltaStrings.encodePreFix_fails, by decide +kernel,
   by decide +kernel⟩

end Carquet.Properties.C11
