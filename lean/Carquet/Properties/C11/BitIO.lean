import Carquet.Impl.BitIO
import Carquet.Proofs.BitIORoundtrip
import Carquet.Proofs.DeltaBitpack
/-
C11 — the bit stream writer / reader pair of src/core/bitpack.c decodes its own output (repaired code,
F81), and the delta model's own bit packer is the loop-level model of `carquet_bitpack_32`.
-/
namespace Carquet.Properties.C11
open Carquet Carquet.Impl.BitIO Carquet.Proofs.BitIO

/-- **Bit IO round trip.**  For any sequence of `write_bit` / `write_bits(v, n)` / `write_bits64(v, n)` calls
(any values, any `n` — counts above 32 / 64 are clamped, values are cut to their width) followed by `flush`,
into a buffer whose capacity is at least `⌈total bits / 8⌉`: exactly that many bytes are written, and
reading them back with the matching `read_bit` / `read_bits(n)` / `read_bits64(n)` calls returns, call by
call, the values written (reduced to their widths).  The capacity hypothesis is exact: with one byte less
the last byte is missing (see `C08_bitwriter_writes_le_capacity` for what is stored then). -/
theorem C11_bitio_roundtrip (cap : Nat) (ops : List WOp) (hn : WOp.flush ∉ ops)
    (hcap : (totalBits ops + 7) / 8 ≤ cap) :
    (flush (wrun (Writer.init cap) ops)).out.length = (totalBits ops + 7) / 8 ∧
    (rrun (Reader.init (flush (wrun (Writer.init cap) ops)).out) (readsOf ops)).1 = expectOf ops := by
  obtain ⟨h1, h2⟩ := roundtrip cap ops (noFlush_of_not_mem ops hn) hcap
  exact ⟨by rw [h1, Proofs.NatBits.leBytes_length], h2⟩

/-- non-vacuity: bits, a 20-bit, two 32-bit and a 50-bit field — 135 bits, 17 bytes; the second example is
the F81 witness history (20 + 20 + 32 bits) on the repaired code -/
example : (flush (wrun (Writer.init 17) [.bit 1, .bits 0xABCDE 20, .bits 0xFFFFFFFF 32, .bits 0x12345678 32, .bits64 0x2AAAAAAAAAAAA 50])).out.length = 17 ∧
    (rrun (Reader.init (flush (wrun (Writer.init 17) [.bit 1, .bits 0xABCDE 20, .bits 0xFFFFFFFF 32, .bits 0x12345678 32, .bits64 0x2AAAAAAAAAAAA 50])).out)
      [.bit, .bits 20, .bits 32, .bits 32, .bits64 50]).1 =
    [.bit 1, .val 0xABCDE, .val 0xFFFFFFFF, .val 0x12345678, .val 0x2AAAAAAAAAAAA] := by decide +kernel

/-- F81 on the pinned code (before fixes/F81-bit-writer-accumulator-overflow.patch), data side:
`write_bits` OR-ed `value << buffer_bits` into the 64-bit accumulator with up to 55 bits pending; with 40
bits pending a 32-bit value loses its top 8 bits.  `write_bits(0xFFFFF, 20)` twice, then
`write_bits(0xFFFFFFFF, 32)`, flush: the pinned writer stores `… 00` as ninth byte and the reader gets
0x00FFFFFF back; the repaired writer stores nine `FF` (replay corpus/C11/F81-bit-writer.ops). -/
theorem C11_regression_F81 :
    ((writeBitsPreFix (Writer.init 16) 0xFFFFF 20).bind (fun w => (writeBitsPreFix w 0xFFFFF 20).bind
        (fun w => (writeBitsPreFix w 0xFFFFFFFF 32).map flushPreFix))).toOption.map (·.out) =
      some [0xFF, 0xFF, 0xFF, 0xFF, 0xFF, 0xFF, 0xFF, 0xFF, 0x00] ∧
    (rrun (Reader.init [0xFF, 0xFF, 0xFF, 0xFF, 0xFF, 0xFF, 0xFF, 0xFF, 0x00]) [.bits 20, .bits 20, .bits 32]).1 =
      [.val 0xFFFFF, .val 0xFFFFF, .val 0x00FFFFFF] ∧
    (wrun (Writer.init 16) [.bits 0xFFFFF 20, .bits 0xFFFFF 20, .bits 0xFFFFFFFF 32, .flush]).out =
      [0xFF, 0xFF, 0xFF, 0xFF, 0xFF, 0xFF, 0xFF, 0xFF, 0xFF] := by
  decide +kernel

/-- **The delta model's bit packer is `carquet_bitpack_32` / `carquet_bitunpack_32`.**  `Impl.Delta.packBits`
and `unpackBits` were written as the delta component's own LSB-first definition of the two functions
("abstract" until now).  For every width the delta code passes to them (`w ≤ 32`; wider miniblocks go
through `bitpack_wide`) and any number of values they ARE the loop-by-loop model of src/core/bitpack.c:
`packBits w vals = Impl.Bitpack.pack w (the (uint32_t) casts of vals)`, and on a buffer that holds `count`
values `unpackBits w count bytes = Impl.Bitpack.unpack w bytes count`, widened to 64 bits. -/
theorem C11_delta_packbits_eq_bitpack (w : Nat) (hw : w ≤ 32) (vals : List (BitVec 64)) (count : Nat)
    (bytes : List UInt8) :
    Impl.Delta.packBits w vals = Impl.Bitpack.pack w (vals.map (fun v => v.toNat % 2 ^ 32)) ∧
    (count * w ≤ 8 * bytes.length →
      Impl.Delta.unpackBits w count bytes = (Impl.Bitpack.unpack w bytes count).1.map (BitVec.ofNat 64)) :=
  ⟨Proofs.DeltaBitpack.packBits_eq_bitpack hw vals, Proofs.DeltaBitpack.unpackBits_eq_bitpack hw count bytes⟩

example : Impl.Delta.packBits 9 [511#64, 0#64, 0x100000001#64] = Impl.Bitpack.pack 9 [511, 0, 1] ∧
    Impl.Delta.unpackBits 9 3 [0xFF, 0x01, 0x04, 0x00] = [511#64, 0#64, 1#64] := by decide +kernel

end Carquet.Properties.C11
