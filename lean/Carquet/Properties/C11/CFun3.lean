import Carquet.Proofs.CFun3.BitReader
import Carquet.Proofs.CFun3.BitWriter
import Carquet.Proofs.CFun3.Bitunpack
import Carquet.Proofs.CFun3.Bitunpack32
import Carquet.Proofs.CFun3.RleDec
/-
C11 — stage 3 of the C -> Lean function translator (translate/gen_cfun.py, notes/NOTES_cfun3.md): link theorems between the
definitions REGENERATED FROM THE C SOURCE on every check run (Gen/CFun.lean: functions that read and write a struct through
a pointer) and the hand-written Impl models the property theorems of C11 are about.  Only `C11_cfun_<function>` (value
side) and `C11_cfun_<function>_defined` (no undefined behaviour under the documented precondition), each followed by a
non-vacuity example.  The abstraction functions / invariants are executable (Impl/CFun3/*.lean) and are evaluated by the
driver on every self-check line (`modelLink3`).
-/

/-! ## BitReader -/
section CFun3BitReader
/-
C11 — stage-3 link theorems: the bit reader of src/core/bitpack.c (`carquet_bit_reader_init`, `refill_buffer`,
`carquet_bit_reader_read_bit / _read_bits / _read_bits64 / _has_more / _remaining_bits`) as translated from the CURRENT C
source by translate/gen_cfun.py (the struct `carquet_bit_reader_t` is a generated Lean structure, its pointer field
`data` an offset into the input buffer that travels as a separate list), against the model `Impl.BitIO`.

`rdAbs s data` reads a C reader state over the buffer `data` as the model state; `rdInv s data` is the invariant of a
live reader (`data` field = start of the buffer, `size` = its length, `byte_pos ≤ size`, `0 ≤ buffer_bits ≤ 64`,
`buffer < 2^buffer_bits`): it holds after `init` and every function keeps it.  The model also reports the indices of
`data` it reads; the C function does not, so only values and states are compared (the safety reading of the indices is
the `_defined` half, C08).
-/
namespace Carquet.Properties.C11
open Carquet Carquet.Impl Carquet.Impl.CFun3 Carquet.Proofs.CFun3.BitReader

/-- `carquet_bit_reader_init(reader, data, size)` with `size` the length of the buffer, on ANY incoming `*reader`:
the model's initial state, and the invariant holds -/
theorem C11_cfun_bit_reader_init (s : Gen.CFun.carquet_bit_reader_t) (data : List UInt8) (h : data.length < 2 ^ 64) :
    rdAbs (Gen.CFun.carquet_bit_reader_init s data (BitVec.ofNat 64 data.length)) data = BitIO.Reader.init data ∧
    rdInv (Gen.CFun.carquet_bit_reader_init s data (BitVec.ofNat 64 data.length)) data = true ∧
    (Gen.CFun.carquet_bit_reader_init s data (BitVec.ofNat 64 data.length)).bit_pos = 0#32 := by
  refine ⟨rfl, ?_, rfl⟩
  simp [rdInv, Gen.CFun.carquet_bit_reader_init, BitVec.toNat_ofNat, Nat.mod_eq_of_lt h]

theorem C11_cfun_bit_reader_init_defined (s : Gen.CFun.carquet_bit_reader_t) (data : List UInt8) (size : BitVec 64) :
    Gen.CFun.carquet_bit_reader_init_defined s data size = true := rfl

example : Gen.CFun.carquet_bit_reader_init ⟨7, 1#64, 2#64, 3#32, 4#64, 5#32⟩ [0xB2, 0x01] 2#64 =
      ⟨0, 2#64, 0#64, 0#32, 0#64, 0#32⟩ ∧
    rdInv ⟨0, 2#64, 0#64, 0#32, 0#64, 0#32⟩ [0xB2, 0x01] = true ∧
    -- a `size` that is not the length of the buffer is outside the invariant
    rdInv (Gen.CFun.carquet_bit_reader_init ⟨7, 1#64, 2#64, 3#32, 4#64, 5#32⟩ [0xB2, 0x01] 3#64) [0xB2, 0x01] = false := by
  decide

/-- `refill_buffer(reader)`: the model's `refill` (which runs with fuel 8; the translated loop makes at most 9
condition tests), invariant kept, `data` / `size` / `bit_pos` untouched -/
theorem C11_cfun_refill_buffer (s : Gen.CFun.carquet_bit_reader_t) (data : List UInt8) (h : rdInv s data = true) :
    rdAbs (Gen.CFun.refill_buffer s data) data = (BitIO.refill (rdAbs s data)).1 ∧
    rdInv (Gen.CFun.refill_buffer s data) data = true ∧
    (Gen.CFun.refill_buffer s data).data = s.data ∧ (Gen.CFun.refill_buffer s data).size = s.size ∧
    (Gen.CFun.refill_buffer s data).bit_pos = s.bit_pos := refill_buffer_eq s data h

theorem C11_cfun_refill_buffer_defined (s : Gen.CFun.carquet_bit_reader_t) (data : List UInt8)
    (h : rdInv s data = true) : Gen.CFun.refill_buffer_defined s data = true := refill_buffer_defined s data h

example : Gen.CFun.refill_buffer ⟨0, 10#64, 1#64, 0#32, 0x5#64, 3#32⟩ [1, 2, 3, 4, 5, 6, 7, 8, 9, 10] =
      ⟨0, 10#64, 8#64, 0#32, 0x40383028201815#64, 59#32⟩ ∧
    rdInv ⟨0, 10#64, 1#64, 0#32, 0x5#64, 3#32⟩ [1, 2, 3, 4, 5, 6, 7, 8, 9, 10] = true ∧
    Gen.CFun.refill_buffer_defined ⟨0, 10#64, 1#64, 0#32, 0x5#64, 3#32⟩ [1, 2, 3, 4, 5, 6, 7, 8, 9, 10] = true ∧
    -- outside the invariant (`buffer_bits = -8`): the C code shifts by a negative count
    Gen.CFun.refill_buffer_defined ⟨0, 2#64, 0#64, 0#32, 0#64, 0xFFFFFFF8#32⟩ [1, 2] = false := by decide +kernel

/-- `carquet_bit_reader_read_bit(reader)`: the returned `int` (−1 at the end of the data, else the next bit) and the
new state are the model's; invariant kept, `bit_pos` untouched -/
theorem C11_cfun_bit_reader_read_bit (s : Gen.CFun.carquet_bit_reader_t) (data : List UInt8) (h : rdInv s data = true) :
    (Gen.CFun.carquet_bit_reader_read_bit s data).1.toInt = (BitIO.readBit (rdAbs s data)).1 ∧
    rdAbs (Gen.CFun.carquet_bit_reader_read_bit s data).2 data = (BitIO.readBit (rdAbs s data)).2.1 ∧
    rdInv (Gen.CFun.carquet_bit_reader_read_bit s data).2 data = true ∧
    (Gen.CFun.carquet_bit_reader_read_bit s data).2.bit_pos = s.bit_pos :=
  ⟨(read_bit_eq s data h).1, (read_bit_eq s data h).2.1, (read_bit_eq s data h).2.2.1, (read_bit_eq s data h).2.2.2.1⟩

theorem C11_cfun_bit_reader_read_bit_defined (s : Gen.CFun.carquet_bit_reader_t) (data : List UInt8)
    (h : rdInv s data = true) : Gen.CFun.carquet_bit_reader_read_bit_defined s data = true :=
  (read_bit_eq s data h).2.2.2.2

example : Gen.CFun.carquet_bit_reader_read_bit ⟨0, 2#64, 0#64, 0#32, 0#64, 0#32⟩ [0xB3, 0x01] =
      (1#32, ⟨0, 2#64, 2#64, 0#32, 0xD9#64, 15#32⟩) ∧
    Gen.CFun.carquet_bit_reader_read_bit ⟨0, 2#64, 2#64, 0#32, 0#64, 0#32⟩ [0xB3, 0x01] =
      (4294967295#32, ⟨0, 2#64, 2#64, 0#32, 0#64, 0#32⟩) ∧
    BitIO.readBit ⟨[0xB3, 0x01], 2, 0, 0⟩ = (-1, ⟨[0xB3, 0x01], 2, 0, 0⟩, []) := by decide +kernel

/-- `carquet_bit_reader_read_bits(reader, num_bits)` for `num_bits ≥ 0` (clamped to 32; at the end of the data the bits
that are left, zero-extended): value and new state are the model's; invariant kept -/
theorem C11_cfun_bit_reader_read_bits (s : Gen.CFun.carquet_bit_reader_t) (data : List UInt8) (num_bits : BitVec 32)
    (h : rdInv s data = true) (hn : 0 ≤ num_bits.toInt) :
    (Gen.CFun.carquet_bit_reader_read_bits s data num_bits).1.toNat = (BitIO.readBits (rdAbs s data) num_bits.toNat).1 ∧
    rdAbs (Gen.CFun.carquet_bit_reader_read_bits s data num_bits).2 data = (BitIO.readBits (rdAbs s data) num_bits.toNat).2.1 ∧
    rdInv (Gen.CFun.carquet_bit_reader_read_bits s data num_bits).2 data = true ∧
    (Gen.CFun.carquet_bit_reader_read_bits s data num_bits).2.bit_pos = s.bit_pos :=
  ⟨(read_bits_eq s data num_bits h hn).1, (read_bits_eq s data num_bits h hn).2.1,
   (read_bits_eq s data num_bits h hn).2.2.1, (read_bits_eq s data num_bits h hn).2.2.2.1⟩

theorem C11_cfun_bit_reader_read_bits_defined (s : Gen.CFun.carquet_bit_reader_t) (data : List UInt8)
    (num_bits : BitVec 32) (h : rdInv s data = true) (hn : 0 ≤ num_bits.toInt) :
    Gen.CFun.carquet_bit_reader_read_bits_defined s data num_bits = true := (read_bits_eq s data num_bits h hn).2.2.2.2

example : Gen.CFun.carquet_bit_reader_read_bits ⟨0, 3#64, 1#64, 0#32, 0x2#64, 3#32⟩ [0xB3, 0xFF, 0x01] 9#32 =
      (0x1FA#32, ⟨0, 3#64, 3#64, 0#32, 0x7#64, 10#32⟩) ∧
    -- end of the data: the 3 + 8 bits that are left (F82), 40 clamped to 32
    Gen.CFun.carquet_bit_reader_read_bits ⟨0, 3#64, 2#64, 0#32, 0x2#64, 3#32⟩ [0xB3, 0xFF, 0x01] 40#32 =
      (0xA#32, ⟨0, 3#64, 3#64, 0#32, 0#64, 0#32⟩) ∧
    -- a negative count is outside the API: the C code shifts by it
    Gen.CFun.carquet_bit_reader_read_bits_defined ⟨0, 3#64, 1#64, 0#32, 0x2#64, 3#32⟩ [0xB3, 0xFF, 0x01] 0xFFFFFFFF#32 = false := by
  decide +kernel

/-- `carquet_bit_reader_read_bits64(reader, num_bits)` for `num_bits ≥ 0` (clamped to 64; more than 32 bits in two
parts `low | high << 32`): value and new state are the model's; invariant kept -/
theorem C11_cfun_bit_reader_read_bits64 (s : Gen.CFun.carquet_bit_reader_t) (data : List UInt8) (num_bits : BitVec 32)
    (h : rdInv s data = true) (hn : 0 ≤ num_bits.toInt) :
    (Gen.CFun.carquet_bit_reader_read_bits64 s data num_bits).1.toNat = (BitIO.readBits64 (rdAbs s data) num_bits.toNat).1 ∧
    rdAbs (Gen.CFun.carquet_bit_reader_read_bits64 s data num_bits).2 data = (BitIO.readBits64 (rdAbs s data) num_bits.toNat).2.1 ∧
    rdInv (Gen.CFun.carquet_bit_reader_read_bits64 s data num_bits).2 data = true ∧
    (Gen.CFun.carquet_bit_reader_read_bits64 s data num_bits).2.bit_pos = s.bit_pos :=
  ⟨(read_bits64_eq s data num_bits h hn).1, (read_bits64_eq s data num_bits h hn).2.1,
   (read_bits64_eq s data num_bits h hn).2.2.1, (read_bits64_eq s data num_bits h hn).2.2.2.1⟩

theorem C11_cfun_bit_reader_read_bits64_defined (s : Gen.CFun.carquet_bit_reader_t) (data : List UInt8)
    (num_bits : BitVec 32) (h : rdInv s data = true) (hn : 0 ≤ num_bits.toInt) :
    Gen.CFun.carquet_bit_reader_read_bits64_defined s data num_bits = true :=
  (read_bits64_eq s data num_bits h hn).2.2.2.2

example : Gen.CFun.carquet_bit_reader_read_bits64 ⟨0, 9#64, 0#64, 0#32, 0#64, 0#32⟩
        [0x01, 0x23, 0x45, 0x67, 0x89, 0xAB, 0xCD, 0xEF, 0x5A] 44#32 =
      (0xB8967452301#64, ⟨0, 9#64, 8#64, 0#32, 0xEFCDA#64, 20#32⟩) ∧
    (BitIO.readBits64 ⟨[0x01, 0x23, 0x45, 0x67, 0x89, 0xAB, 0xCD, 0xEF, 0x5A], 0, 0, 0⟩ 44).1 = 0xB8967452301 ∧
    Gen.CFun.carquet_bit_reader_read_bits64_defined ⟨0, 9#64, 0#64, 0#32, 0#64, 0#32⟩
        [0x01, 0x23, 0x45, 0x67, 0x89, 0xAB, 0xCD, 0xEF, 0x5A] 0x80000000#32 = false := by
  decide +kernel

/-- `carquet_bit_reader_has_more(reader)` -/
theorem C11_cfun_bit_reader_has_more (s : Gen.CFun.carquet_bit_reader_t) (data : List UInt8) (h : rdInv s data = true) :
    Gen.CFun.carquet_bit_reader_has_more s = BitIO.hasMore (rdAbs s data) := has_more_eq s data h

theorem C11_cfun_bit_reader_has_more_defined (s : Gen.CFun.carquet_bit_reader_t) :
    Gen.CFun.carquet_bit_reader_has_more_defined s = true := rfl

example : Gen.CFun.carquet_bit_reader_has_more ⟨0, 2#64, 2#64, 0#32, 0x1#64, 1#32⟩ = true ∧
    Gen.CFun.carquet_bit_reader_has_more ⟨0, 2#64, 2#64, 0#32, 0#64, 0#32⟩ = false ∧
    -- outside the invariant (`buffer_bits = -24`, the pinned F82 state): C says "no more", the Nat model cannot express it
    Gen.CFun.carquet_bit_reader_has_more ⟨0, 1#64, 1#64, 0#32, 0#64, 0xFFFFFFE8#32⟩ = false ∧
    rdInv ⟨0, 1#64, 1#64, 0#32, 0#64, 0xFFFFFFE8#32⟩ [0xFF] = false := by decide

/-- `carquet_bit_reader_remaining_bits(reader)` = `(size_t)buffer_bits + (size - byte_pos) * 8` -/
theorem C11_cfun_bit_reader_remaining_bits (s : Gen.CFun.carquet_bit_reader_t) (data : List UInt8)
    (h : rdInv s data = true) :
    (Gen.CFun.carquet_bit_reader_remaining_bits s).toNat = BitIO.remainingBits (rdAbs s data) :=
  remaining_bits_eq s data h

theorem C11_cfun_bit_reader_remaining_bits_defined (s : Gen.CFun.carquet_bit_reader_t) :
    Gen.CFun.carquet_bit_reader_remaining_bits_defined s = true := rfl

example : Gen.CFun.carquet_bit_reader_remaining_bits ⟨0, 5#64, 2#64, 0#32, 0x1#64, 3#32⟩ = 27#64 ∧
    BitIO.remainingBits ⟨[1, 2, 3, 4, 5], 2, 1, 3⟩ = 27 ∧
    -- outside the invariant (`buffer_bits = -24`, the pinned F82 state): 2^64 − 24
    Gen.CFun.carquet_bit_reader_remaining_bits ⟨0, 1#64, 1#64, 0#32, 0#64, 0xFFFFFFE8#32⟩ = 18446744073709551592#64 := by
  decide

end Carquet.Properties.C11
end CFun3BitReader

/-! ## BitWriter -/
section CFun3BitWriter
/-
C11 — stage-3 link theorems, the bit WRITER of src/core/bitpack.c (`carquet_bit_writer_init`, the static
`flush_buffer`, `_write_bit`, `_write_bits`, `_write_bits64`, `_flush`, `_bytes_written`) as translated from the CURRENT
C source by translate/gen_cfun.py (the struct is `Gen.CFun.carquet_bit_writer_t`, `writer->data` an offset into the output
array that travels separately; each function returns the new struct and the new content of the array) against the
model `Impl.BitIO.Writer`.

`Impl.CFun3.wrAbs s data` is the model state (capacity, `data[0 .. byte_pos)`, accumulator, pending bits);
`Impl.CFun3.wrInv s data` the invariant of a live writer: `writer->data` is the start of `data`, the array has at least
`capacity` bytes, `byte_pos ≤ capacity`, `0 ≤ buffer_bits ≤ 55`, `buffer < 2^buffer_bits`.  It holds after `init` and
is preserved by every public function; `flush_buffer` alone is entered with up to 64 pending bits (`wrFlushInv`: ≤ 71, the
most its translated loop — fuel 9 — can handle).

Every link theorem: with `(s', data') = f s data args`, the abstraction of the result is the model function on the
abstraction of the argument; the invariant holds again; the array keeps its length, the bytes already stored
(`[0, byte_pos)`) and the bytes from the new `byte_pos` on are untouched (so exactly the bytes the model appends are
written); `byte_pos` does not decrease; `capacity`, `data`, `bit_pos` are unchanged.
-/
namespace Carquet.Properties.C11
open Carquet Carquet.Impl Carquet.Impl.CFun3 Carquet.Proofs.CFun3.BitWriter

/-- `carquet_bit_writer_init(writer, data, capacity)` on an array of at least `capacity` bytes (whatever the struct held
before): the model's initial state, and the invariant holds; the array is returned as it was -/
theorem C11_cfun_bit_writer_init (s0 : Gen.CFun.carquet_bit_writer_t) (data : List UInt8) (cap : Nat)
    (hl : data.length < 2 ^ 64) (hc : cap ≤ data.length)
    (s' : Gen.CFun.carquet_bit_writer_t) (data' : List UInt8)
    (e : Gen.CFun.carquet_bit_writer_init s0 data (BitVec.ofNat 64 cap) = (s', data')) :
    wrAbs s' data' = BitIO.Writer.init cap ∧ wrInv s' data' = true ∧ data' = data ∧
    s'.capacity = BitVec.ofNat 64 cap ∧ s'.data = 0 ∧ s'.bit_pos = 0#32 := by
  obtain ⟨h1, h2⟩ := init_spec s0 data cap hl hc
  rw [e] at h1 h2
  refine ⟨h1, (wrInv_iff _ _).mpr (h2.mono (by omega)), ?_, ?_, ?_, ?_⟩ <;>
    (simp only [Gen.CFun.carquet_bit_writer_init, Prod.mk.injEq] at e; obtain ⟨e1, e2⟩ := e; subst e1; subst e2; rfl)

theorem C11_cfun_bit_writer_init_defined (s0 : Gen.CFun.carquet_bit_writer_t) (data : List UInt8) (capacity : BitVec 64) :
    Gen.CFun.carquet_bit_writer_init_defined s0 data capacity = true := rfl

example : Gen.CFun.carquet_bit_writer_init ⟨7, 1#64, 2#64, 3#32, 4#64, 5#32⟩ [9, 9, 9] 2#64 =
      (⟨0, 2#64, 0#64, 0#32, 0#64, 0#32⟩, [9, 9, 9]) ∧
    wrAbs ⟨0, 2#64, 0#64, 0#32, 0#64, 0#32⟩ [9, 9, 9] = BitIO.Writer.init 2 ∧
    wrInv ⟨0, 2#64, 0#64, 0#32, 0#64, 0#32⟩ [9, 9, 9] = true ∧
    -- a declared capacity larger than the caller's array: not a live writer
    wrInv (Gen.CFun.carquet_bit_writer_init ⟨7, 1#64, 2#64, 3#32, 4#64, 5#32⟩ [9, 9, 9] 4#64).1 [9, 9, 9] = false := by
  decide

/-- the static `flush_buffer`, entered with up to 71 pending bits: the model's `flushBuffer` (complete bytes leave the
accumulator, those that do not fit in the capacity are dropped); fewer than 8 bits stay pending -/
theorem C11_cfun_flush_buffer (s : Gen.CFun.carquet_bit_writer_t) (data : List UInt8) (h : wrFlushInv s data = true)
    (s' : Gen.CFun.carquet_bit_writer_t) (data' : List UInt8) (e : Gen.CFun.flush_buffer s data = (s', data')) :
    wrAbs s' data' = BitIO.flushBuffer (wrAbs s data) ∧ wrInv s' data' = true ∧ data'.length = data.length ∧
    data'.take s.byte_pos.toNat = data.take s.byte_pos.toNat ∧
    data'.drop s'.byte_pos.toNat = data.drop s'.byte_pos.toNat ∧
    s.byte_pos.toNat ≤ s'.byte_pos.toNat ∧ s'.capacity = s.capacity ∧ s'.data = s.data ∧ s'.bit_pos = s.bit_pos :=
  link_of_spec (flush_buffer_spec s data ((wrFlushInv_iff s data).mp h)) (by decide) s' data' e

/-- no store outside the `capacity` bytes (each `data[byte_pos]` is guarded by `byte_pos < capacity ≤ data.length`),
`buffer_bits -= 8` does not overflow, at most 8 iterations -/
theorem C11_cfun_flush_buffer_defined (s : Gen.CFun.carquet_bit_writer_t) (data : List UInt8)
    (h : wrFlushInv s data = true) : Gen.CFun.flush_buffer_defined s data = true :=
  defined_of_spec (flush_buffer_spec s data ((wrFlushInv_iff s data).mp h))

/-- 64 pending bits, room for 3 of the 8 bytes: 3 stored, 5 dropped; with 72 pending bits the loop would need a tenth
test (outside `wrFlushInv`); a capacity beyond the array makes the third store an out-of-bounds write -/
example : Gen.CFun.flush_buffer ⟨0, 4#64, 1#64, 9#32, 0x0807060504030201#64, 64#32⟩ [0xAA, 0, 0, 0, 0xEE] =
      (⟨0, 4#64, 4#64, 9#32, 0#64, 0#32⟩, [0xAA, 1, 2, 3, 0xEE]) ∧
    wrFlushInv ⟨0, 4#64, 1#64, 9#32, 0x0807060504030201#64, 64#32⟩ [0xAA, 0, 0, 0, 0xEE] = true ∧
    BitIO.flushBuffer ⟨4, [0xAA], 0x0807060504030201, 64⟩ = ⟨4, [0xAA, 1, 2, 3], 0, 0⟩ ∧
    Gen.CFun.flush_buffer_defined ⟨0, 4#64, 1#64, 9#32, 0x0807060504030201#64, 64#32⟩ [0xAA, 0, 0, 0, 0xEE] = true ∧
    Gen.CFun.flush_buffer_defined ⟨0, 4#64, 1#64, 9#32, 0#64, 72#32⟩ [0xAA, 0, 0, 0, 0xEE] = false ∧
    Gen.CFun.flush_buffer_defined ⟨0, 4#64, 1#64, 9#32, 0x0807060504030201#64, 64#32⟩ [0xAA, 0, 0] = false := by
  decide +kernel

/-- `carquet_bit_writer_write_bit(writer, bit)`: the model's `writeBit` on the value of the `int` read as unsigned (only
its lowest bit is used) -/
theorem C11_cfun_bit_writer_write_bit (s : Gen.CFun.carquet_bit_writer_t) (data : List UInt8) (bit : BitVec 32)
    (h : wrInv s data = true) (s' : Gen.CFun.carquet_bit_writer_t) (data' : List UInt8)
    (e : Gen.CFun.carquet_bit_writer_write_bit s data bit = (s', data')) :
    wrAbs s' data' = BitIO.writeBit (wrAbs s data) bit.toNat ∧ wrInv s' data' = true ∧ data'.length = data.length ∧
    data'.take s.byte_pos.toNat = data.take s.byte_pos.toNat ∧
    data'.drop s'.byte_pos.toNat = data.drop s'.byte_pos.toNat ∧
    s.byte_pos.toNat ≤ s'.byte_pos.toNat ∧ s'.capacity = s.capacity ∧ s'.data = s.data ∧ s'.bit_pos = s.bit_pos :=
  link_of_spec (write_bit_spec s data bit ((wrInv_iff s data).mp h)) (by decide) s' data' e

/-- the shift count `buffer_bits` is in `[0, 64)`, `buffer_bits++` does not overflow, `flush_buffer` is entered with at
most 56 bits and stores inside the capacity -/
theorem C11_cfun_bit_writer_write_bit_defined (s : Gen.CFun.carquet_bit_writer_t) (data : List UInt8) (bit : BitVec 32)
    (h : wrInv s data = true) : Gen.CFun.carquet_bit_writer_write_bit_defined s data bit = true :=
  defined_of_spec (write_bit_spec s data bit ((wrInv_iff s data).mp h))

/-- the 56th pending bit triggers the flush: 7 bytes leave the accumulator, 2 fit; `bit = -1` writes a 1 -/
example : Gen.CFun.carquet_bit_writer_write_bit ⟨0, 3#64, 1#64, 0#32, 0x55555555555555#64, 55#32⟩ [7, 0, 0, 9] (-1#32) =
      (⟨0, 3#64, 3#64, 0#32, 0#64, 0#32⟩, [7, 0x55, 0x55, 9]) ∧
    wrInv ⟨0, 3#64, 1#64, 0#32, 0x55555555555555#64, 55#32⟩ [7, 0, 0, 9] = true ∧
    BitIO.writeBit ⟨3, [7], 0x55555555555555, 55⟩ 0xFFFFFFFF = ⟨3, [7, 0x55, 0x55], 0, 0⟩ ∧
    Gen.CFun.carquet_bit_writer_write_bit_defined ⟨0, 3#64, 1#64, 0#32, 0x55555555555555#64, 55#32⟩ [7, 0, 0, 9] 1#32 = true ∧
    -- capacity 3 declared on a 2-byte array: the C code would write outside the caller's buffer
    Gen.CFun.carquet_bit_writer_write_bit_defined ⟨0, 3#64, 1#64, 0#32, 0x55555555555555#64, 55#32⟩ [7, 0] 1#32 = false ∧
    -- 64 pending bits (impossible for a live writer): shift by 64
    Gen.CFun.carquet_bit_writer_write_bit_defined ⟨0, 3#64, 1#64, 0#32, 0#64, 64#32⟩ [7, 0, 0, 9] 1#32 = false := by
  decide +kernel

/-- `carquet_bit_writer_write_bits(writer, value, num_bits)` for `num_bits ≥ 0` (counts above 32 are clamped by the
code): the model's `writeBits` -/
theorem C11_cfun_bit_writer_write_bits (s : Gen.CFun.carquet_bit_writer_t) (data : List UInt8) (value num_bits : BitVec 32)
    (h : wrInv s data = true) (hn : 0 ≤ num_bits.toInt) (s' : Gen.CFun.carquet_bit_writer_t) (data' : List UInt8)
    (e : Gen.CFun.carquet_bit_writer_write_bits s data value num_bits = (s', data')) :
    wrAbs s' data' = BitIO.writeBits (wrAbs s data) value.toNat num_bits.toNat ∧ wrInv s' data' = true ∧
    data'.length = data.length ∧
    data'.take s.byte_pos.toNat = data.take s.byte_pos.toNat ∧
    data'.drop s'.byte_pos.toNat = data.drop s'.byte_pos.toNat ∧
    s.byte_pos.toNat ≤ s'.byte_pos.toNat ∧ s'.capacity = s.capacity ∧ s'.data = s.data ∧ s'.bit_pos = s.bit_pos :=
  link_of_spec (write_bits_spec s data value num_bits ((wrInv_iff s data).mp h) hn) (by decide) s' data' e

/-- `1U << num_bits` only for `num_bits < 32`, the accumulator is shifted by at most 32 (room is made first) and holds
at most 64 bits before the second flush, no `int` overflow, every store inside the capacity -/
theorem C11_cfun_bit_writer_write_bits_defined (s : Gen.CFun.carquet_bit_writer_t) (data : List UInt8)
    (value num_bits : BitVec 32) (h : wrInv s data = true) (hn : 0 ≤ num_bits.toInt) :
    Gen.CFun.carquet_bit_writer_write_bits_defined s data value num_bits = true :=
  defined_of_spec (write_bits_spec s data value num_bits ((wrInv_iff s data).mp h) hn)

/-- 40 bits pending and 32 more (the F81 situation): room is made first (5 bytes out), nothing is lost; a negative
`num_bits` reaches `1U << num_bits` -/
example : Gen.CFun.carquet_bit_writer_write_bits ⟨0, 16#64, 0#64, 0#32, 0xFFFFFFFFFF#64, 40#32⟩ [0, 0, 0, 0, 0, 0, 0, 0]
        0xFFFFFFFF#32 32#32 =
      (⟨0, 16#64, 5#64, 0#32, 0xFFFFFFFF#64, 32#32⟩, [0xFF, 0xFF, 0xFF, 0xFF, 0xFF, 0, 0, 0]) ∧
    BitIO.writeBits ⟨16, [], 0xFFFFFFFFFF, 40⟩ 0xFFFFFFFF 32 = ⟨16, [0xFF, 0xFF, 0xFF, 0xFF, 0xFF], 0xFFFFFFFF, 32⟩ ∧
    Gen.CFun.carquet_bit_writer_write_bits ⟨0, 2#64, 0#64, 0#32, 0x1FFFFFF#64, 25#32⟩ [0, 0, 0] 0xABCDEF12#32 77#32 =
      (⟨0, 2#64, 2#64, 0#32, 1#64, 1#32⟩, [0xFF, 0xFF, 0]) ∧
    Gen.CFun.carquet_bit_writer_write_bits_defined ⟨0, 2#64, 0#64, 0#32, 0x1FFFFFF#64, 25#32⟩ [0, 0, 0] 0xABCDEF12#32 77#32 = true ∧
    Gen.CFun.carquet_bit_writer_write_bits_defined ⟨0, 2#64, 0#64, 0#32, 0x1FFFFFF#64, 25#32⟩ [0, 0, 0] 1#32 (-1#32) = false ∧
    Gen.CFun.carquet_bit_writer_write_bits_defined ⟨0, 2#64, 0#64, 0#32, 0x1FFFFFF#64, 25#32⟩ [0] 0xABCDEF12#32 32#32 = false := by
  decide +kernel

/-- `carquet_bit_writer_write_bits64(writer, value, num_bits)` for `num_bits ≥ 0` (clamped to 64; more than 32 bits go
in two `write_bits` calls): the model's `writeBits64` -/
theorem C11_cfun_bit_writer_write_bits64 (s : Gen.CFun.carquet_bit_writer_t) (data : List UInt8) (value : BitVec 64)
    (num_bits : BitVec 32) (h : wrInv s data = true) (hn : 0 ≤ num_bits.toInt)
    (s' : Gen.CFun.carquet_bit_writer_t) (data' : List UInt8)
    (e : Gen.CFun.carquet_bit_writer_write_bits64 s data value num_bits = (s', data')) :
    wrAbs s' data' = BitIO.writeBits64 (wrAbs s data) value.toNat num_bits.toNat ∧ wrInv s' data' = true ∧
    data'.length = data.length ∧
    data'.take s.byte_pos.toNat = data.take s.byte_pos.toNat ∧
    data'.drop s'.byte_pos.toNat = data.drop s'.byte_pos.toNat ∧
    s.byte_pos.toNat ≤ s'.byte_pos.toNat ∧ s'.capacity = s.capacity ∧ s'.data = s.data ∧ s'.bit_pos = s.bit_pos :=
  link_of_spec (write_bits64_spec s data value num_bits ((wrInv_iff s data).mp h) hn) (by decide) s' data' e

theorem C11_cfun_bit_writer_write_bits64_defined (s : Gen.CFun.carquet_bit_writer_t) (data : List UInt8)
    (value : BitVec 64) (num_bits : BitVec 32) (h : wrInv s data = true) (hn : 0 ≤ num_bits.toInt) :
    Gen.CFun.carquet_bit_writer_write_bits64_defined s data value num_bits = true :=
  defined_of_spec (write_bits64_spec s data value num_bits ((wrInv_iff s data).mp h) hn)

/-- 50 bits on top of 3 pending ones: 35 bits after the low half, room is made for the high half (4 bytes out), 21
bits stay pending; a negative count is passed on to `write_bits` -/
example : Gen.CFun.carquet_bit_writer_write_bits64 ⟨0, 8#64, 1#64, 0#32, 5#64, 3#32⟩ [0x11, 0, 0, 0, 0, 0, 0, 0]
        0x2AAAAAAAAAAAA#64 50#32 =
      (⟨0, 8#64, 5#64, 0#32, 0x155555#64, 21#32⟩, [0x11, 0x55, 0x55, 0x55, 0x55, 0, 0, 0]) ∧
    BitIO.writeBits64 ⟨8, [0x11], 5, 3⟩ 0x2AAAAAAAAAAAA 50 = ⟨8, [0x11, 0x55, 0x55, 0x55, 0x55], 0x155555, 21⟩ ∧
    Gen.CFun.carquet_bit_writer_write_bits64_defined ⟨0, 8#64, 1#64, 0#32, 5#64, 3#32⟩ [0x11, 0, 0, 0, 0, 0, 0, 0]
        0x2AAAAAAAAAAAA#64 50#32 = true ∧
    Gen.CFun.carquet_bit_writer_write_bits64_defined ⟨0, 8#64, 1#64, 0#32, 5#64, 3#32⟩ [0x11, 0, 0, 0, 0, 0, 0, 0]
        0x2AAAAAAAAAAAA#64 (-5#32) = false ∧
    Gen.CFun.carquet_bit_writer_write_bits64_defined ⟨0, 8#64, 1#64, 0#32, 5#64, 3#32⟩ [0x11, 0, 0]
        0x2AAAAAAAAAAAA#64 50#32 = false := by
  decide +kernel

/-- `carquet_bit_writer_flush(writer)`: the model's `flush` (complete bytes, then the partial byte if it fits) -/
theorem C11_cfun_bit_writer_flush (s : Gen.CFun.carquet_bit_writer_t) (data : List UInt8) (h : wrInv s data = true)
    (s' : Gen.CFun.carquet_bit_writer_t) (data' : List UInt8) (e : Gen.CFun.carquet_bit_writer_flush s data = (s', data')) :
    wrAbs s' data' = BitIO.flush (wrAbs s data) ∧ wrInv s' data' = true ∧ data'.length = data.length ∧
    data'.take s.byte_pos.toNat = data.take s.byte_pos.toNat ∧
    data'.drop s'.byte_pos.toNat = data.drop s'.byte_pos.toNat ∧
    s.byte_pos.toNat ≤ s'.byte_pos.toNat ∧ s'.capacity = s.capacity ∧ s'.data = s.data ∧ s'.bit_pos = s.bit_pos :=
  link_of_spec (flush_spec s data ((wrInv_iff s data).mp h)) (by decide) s' data' e

theorem C11_cfun_bit_writer_flush_defined (s : Gen.CFun.carquet_bit_writer_t) (data : List UInt8)
    (h : wrInv s data = true) : Gen.CFun.carquet_bit_writer_flush_defined s data = true :=
  defined_of_spec (flush_spec s data ((wrInv_iff s data).mp h))

/-- 20 pending bits: two complete bytes and the partial one; with room for two only, the partial byte stays pending -/
example : Gen.CFun.carquet_bit_writer_flush ⟨0, 4#64, 1#64, 0#32, 0xABCDE#64, 20#32⟩ [1, 0, 0, 0, 9] =
      (⟨0, 4#64, 4#64, 0#32, 0#64, 0#32⟩, [1, 0xDE, 0xBC, 0x0A, 9]) ∧
    BitIO.flush ⟨4, [1], 0xABCDE, 20⟩ = ⟨4, [1, 0xDE, 0xBC, 0x0A], 0, 0⟩ ∧
    Gen.CFun.carquet_bit_writer_flush ⟨0, 3#64, 1#64, 0#32, 0xABCDE#64, 20#32⟩ [1, 0, 0, 0, 9] =
      (⟨0, 3#64, 3#64, 0#32, 0xA#64, 4#32⟩, [1, 0xDE, 0xBC, 0, 9]) ∧
    Gen.CFun.carquet_bit_writer_flush_defined ⟨0, 4#64, 1#64, 0#32, 0xABCDE#64, 20#32⟩ [1, 0, 0, 0, 9] = true ∧
    Gen.CFun.carquet_bit_writer_flush_defined ⟨0, 4#64, 1#64, 0#32, 0xABCDE#64, 20#32⟩ [1, 0, 0] = false := by
  decide +kernel

/-- `carquet_bit_writer_bytes_written(writer)` = the number of bytes the model has stored -/
theorem C11_cfun_bit_writer_bytes_written (s : Gen.CFun.carquet_bit_writer_t) (data : List UInt8)
    (h : wrInv s data = true) :
    (Gen.CFun.carquet_bit_writer_bytes_written s).toNat = BitIO.bytesWritten (wrAbs s data) := by
  have hi := (wrInv_iff s data).mp h
  have := hi.pos
  have := hi.cap
  simp only [Gen.CFun.carquet_bit_writer_bytes_written, BitIO.bytesWritten, wrAbs, List.length_take]
  omega

theorem C11_cfun_bit_writer_bytes_written_defined (s : Gen.CFun.carquet_bit_writer_t) :
    Gen.CFun.carquet_bit_writer_bytes_written_defined s = true := rfl

example : Gen.CFun.carquet_bit_writer_bytes_written ⟨0, 4#64, 3#64, 0#32, 5#64, 3#32⟩ = 3#64 ∧
    BitIO.bytesWritten (wrAbs ⟨0, 4#64, 3#64, 0#32, 5#64, 3#32⟩ [1, 2, 3, 4]) = 3 ∧
    -- outside the invariant (`byte_pos` beyond the array) the model side differs
    BitIO.bytesWritten (wrAbs ⟨0, 4#64, 3#64, 0#32, 5#64, 3#32⟩ [1, 2]) = 2 := by decide

end Carquet.Properties.C11
end CFun3BitWriter

/-! ## Bitunpack -/
section CFun3Bitunpack
/-
C11 — stage-3 link theorem: `carquet_bitunpack8_32` of src/core/bitpack.c as translated from the CURRENT C source by
translate/gen_cfun.py (dispatch on the width, the eight specialised unpackers, and the general `bit_pos` / `byte_pos` loop
nest for widths 9..32), against `Impl.Bitpack.unpack8`, at every width 0..32.
-/
namespace Carquet.Properties.C11
open Carquet Carquet.Impl Carquet.Proofs.CFun3.Bitunpack

/-- **`carquet_bitunpack8_32(input, bit_width, values)`**, `bit_width ≤ 32` and that many bytes in `input`: the eight values
the model `Bitpack.unpack8` computes are stored in `values[0..8)`, the rest of `values` is untouched. -/
theorem C11_cfun_bitunpack8_32 (input : List UInt8) (values : List (BitVec 32)) (w : Nat) (hw : w ≤ 32)
    (hi : w ≤ input.length) (hv : 8 ≤ values.length) :
    (Gen.CFun.carquet_bitunpack8_32 input (BitVec.ofNat 32 w) values).map BitVec.toNat =
      Bitpack.unpack8 w input ++ (values.drop 8).map BitVec.toNat := bitunpack8_32_full input values w hw hi hv

example : (Gen.CFun.carquet_bitunpack8_32 [1, 32, 0, 3, 240, 255, 0, 0, 128, 7, 64, 6] 12#32
      (List.replicate 9 7#32)).map BitVec.toNat = [1, 2, 3, 4095, 0, 2048, 7, 100, 7] ∧
    Bitpack.unpack8 12 [1, 32, 0, 3, 240, 255, 0, 0, 128, 7, 64, 6] = [1, 2, 3, 4095, 0, 2048, 7, 100] ∧
    (Gen.CFun.carquet_bitunpack8_32 [255, 1, 4, 0, 88, 64, 85, 85, 150] 9#32
      (List.replicate 8 0#32)).map BitVec.toNat = [511, 0, 1, 256, 5, 170, 341, 300] := by decide +kernel

/-- … and under the same hypotheses the C function reaches no undefined behaviour: every read is inside `input`, every
write inside `values`, no signed overflow, no out-of-range shift, and the loop fuels of the translation are not exhausted. -/
theorem C11_cfun_bitunpack8_32_defined (input : List UInt8) (values : List (BitVec 32)) (w : Nat) (hw : w ≤ 32)
    (hi : w ≤ input.length) (hv : 8 ≤ values.length) :
    Gen.CFun.carquet_bitunpack8_32_defined input (BitVec.ofNat 32 w) values = true :=
  bitunpack8_32_full_defined input values w hw hi hv

example : Gen.CFun.carquet_bitunpack8_32_defined [1, 32, 0, 3, 240, 255, 0, 0, 128, 7, 64, 6] 12#32
      (List.replicate 9 7#32) = true ∧
    Gen.CFun.carquet_bitunpack8_32_defined [1, 32, 0, 3, 240, 255, 0, 0, 128, 7, 64] 12#32
      (List.replicate 9 7#32) = false ∧
    Gen.CFun.carquet_bitunpack8_32_defined [1, 32, 0, 3, 240, 255, 0, 0, 128, 7, 64, 6] 12#32
      (List.replicate 7 7#32) = false := by decide +kernel

end Carquet.Properties.C11
end CFun3Bitunpack

/-! ## Bitunpack32 -/
section CFun3Bitunpack32
/-
C11 — stage-3 link theorem: `carquet_bitunpack_32` of src/core/bitpack.c as translated from the CURRENT C source by
translate/gen_cfun.py (the `memset` for width 0, the loop over the groups of 8 through `carquet_bitunpack8_32(input +
bytes_consumed, bit_width, values + i)`, the tail of `count % 8` values unpacked from the zero-padded 32-byte local copy
into the uninitialised local `temp[8]` and copied out), against `Impl.Bitpack.unpack`, at every width 0..32 and every
count below 2^61.  `temp_indet` is the ghost parameter of the translation for the indeterminate content of `temp` before
`carquet_bitunpack8_32` overwrites it: the theorems hold for every such content.
-/
namespace Carquet.Properties.C11
open Carquet Carquet.Impl Carquet.Proofs.CFun3.Bitunpack32

/-- **`carquet_bitunpack_32(input, count, bit_width, values)`**, `bit_width ≤ 32`, `input` holds the bytes the function
reports as consumed (`count / 8 * w + packed_size(count % 8, w)`, 0 for width 0) and `values` has room for `count`
entries: the return value is the model's `bytes_consumed`, `values[0 .. count)` are the model's values, the rest of
`values` is untouched. -/
theorem C11_cfun_bitunpack_32 (input : List UInt8) (values temp_indet : List (BitVec 32)) (w count : Nat) (hw : w ≤ 32)
    (hc : count < 2 ^ 61) (hi : (Bitpack.unpack w input count).2 ≤ input.length) (hv : count ≤ values.length)
    (ht : temp_indet.length = 8) :
    ((Gen.CFun.carquet_bitunpack_32 input (BitVec.ofNat 64 count) (BitVec.ofNat 32 w) values temp_indet).1.toNat =
      (Bitpack.unpack w input count).2) ∧
    ((Gen.CFun.carquet_bitunpack_32 input (BitVec.ofNat 64 count) (BitVec.ofNat 32 w) values temp_indet).2.map BitVec.toNat =
      (Bitpack.unpack w input count).1 ++ (values.drop count).map BitVec.toNat) :=
  bitunpack_32_full input values temp_indet w count hw hc hi hv ht

-- 11 values of width 9 (one group through the general loop nest, a tail of 3 through `packed` / `temp`), junk in `temp`
example : (Bitpack.unpack 9 [255, 1, 4, 0, 88, 64, 85, 85, 150, 255, 1, 4, 0] 11).2 ≤ 13 ∧
    (Gen.CFun.carquet_bitunpack_32 [255, 1, 4, 0, 88, 64, 85, 85, 150, 255, 1, 4, 0] 11#64 9#32 (List.replicate 12 7#32)
      [0xdeadbeef#32, 2#32, 3#32, 4#32, 5#32, 6#32, 7#32, 8#32]).1.toNat = 13 ∧
    (Gen.CFun.carquet_bitunpack_32 [255, 1, 4, 0, 88, 64, 85, 85, 150, 255, 1, 4, 0] 11#64 9#32 (List.replicate 12 7#32)
      [0xdeadbeef#32, 2#32, 3#32, 4#32, 5#32, 6#32, 7#32, 8#32]).2.map BitVec.toNat =
      [511, 0, 1, 256, 5, 170, 341, 300, 511, 0, 1, 7] ∧
    Bitpack.unpack 9 [255, 1, 4, 0, 88, 64, 85, 85, 150, 255, 1, 4, 0] 11 =
      ([511, 0, 1, 256, 5, 170, 341, 300, 511, 0, 1], 13) ∧
    -- one value of width 32: 4 bytes of the caller's buffer (F32)
    (Gen.CFun.carquet_bitunpack_32 [0xef, 0xbe, 0xad, 0xde] 1#64 32#32 [0#32, 9#32]
      (List.replicate 8 0x55#32)).2.map BitVec.toNat = [0xdeadbeef, 9] ∧
    -- width 0: `memset`
    (Gen.CFun.carquet_bitunpack_32 [] 3#64 0#32 (List.replicate 4 5#32) (List.replicate 8 0x55#32)).2.map BitVec.toNat =
      [0, 0, 0, 5] := by decide +kernel

/-- … and under the same hypotheses the C function reaches no undefined behaviour: every read of `input` lies inside
`input[0 .. bytes_consumed)`, every write inside `values[0 .. count)`, the `memcpy` into `packed[32]` copies at most 32
bytes, `temp[j]` is read for `j < 8` only, and the loop fuels of the translation are not exhausted. -/
theorem C11_cfun_bitunpack_32_defined (input : List UInt8) (values temp_indet : List (BitVec 32)) (w count : Nat)
    (hw : w ≤ 32) (hc : count < 2 ^ 61) (hi : (Bitpack.unpack w input count).2 ≤ input.length)
    (hv : count ≤ values.length) (ht : temp_indet.length = 8) :
    Gen.CFun.carquet_bitunpack_32_defined input (BitVec.ofNat 64 count) (BitVec.ofNat 32 w) values temp_indet = true :=
  bitunpack_32_full_defined input values temp_indet w count hw hc hi hv ht

example : Gen.CFun.carquet_bitunpack_32_defined [255, 1, 4, 0, 88, 64, 85, 85, 150, 255, 1, 4, 0] 11#64 9#32
      (List.replicate 12 7#32) [0xdeadbeef#32, 2#32, 3#32, 4#32, 5#32, 6#32, 7#32, 8#32] = true ∧
    -- the input one byte too short: the `memcpy` of the 4 tail bytes reads `input[12]`
    (Bitpack.unpack 9 [255, 1, 4, 0, 88, 64, 85, 85, 150, 255, 1, 4] 11).2 = 13 ∧
    Gen.CFun.carquet_bitunpack_32_defined [255, 1, 4, 0, 88, 64, 85, 85, 150, 255, 1, 4] 11#64 9#32
      (List.replicate 12 7#32) [0xdeadbeef#32, 2#32, 3#32, 4#32, 5#32, 6#32, 7#32, 8#32] = false ∧
    -- room for 10 values only: `values[10] = temp[2]`
    Gen.CFun.carquet_bitunpack_32_defined [255, 1, 4, 0, 88, 64, 85, 85, 150, 255, 1, 4, 0] 11#64 9#32
      (List.replicate 10 7#32) [0xdeadbeef#32, 2#32, 3#32, 4#32, 5#32, 6#32, 7#32, 8#32] = false := by decide +kernel

end Carquet.Properties.C11
end CFun3Bitunpack32

/-! ## RleDec -/
section CFun3RleDec
/-
C11 — stage-3 link theorems: the non-recursive pieces of the RLE / bit-packing hybrid DECODER of src/encoding/rle.c
(`carquet_rle_decoder_init`, `carquet_rle_decoder_has_next`, `fill_bitpack_buffer`) as translated from the CURRENT C source
by translate/gen_cfun.py (the struct `carquet_rle_decoder_t` is a generated Lean structure, its pointer field `data` an
offset into the input buffer that travels as a separate list, its array `bitpack_buffer[8]` a list), against the model
`Impl.Rle.Dec` (`Dec.init`, `hasNext`, `fill`).

`rleAbs inRle rleValue s data` reads a C decoder state over the buffer `data` as the model state (`rest` = the bytes from
`pos` on, `bp` = `bitpack_buffer[bitpack_pos .. bitpack_count)`); the C fields `in_rle_run` / `rle_value` are never
touched by these three functions, are not part of the generated structure, and enter as the two parameters.
`rleInv s data` is the invariant of a live decoder (`data` field = start of the buffer, `size` = its length and
`size + 32 < 2^64`, `pos ≤ size`, `run_remaining ≥ 0`, 8 group-buffer elements, `0 ≤ bitpack_pos ≤ bitpack_count ≤ 8`,
status 0 or 43, and while the status is OK `0 ≤ bit_width ≤ 32` with `value_mask` the mask of that width): it holds
after `init` and `fill_bitpack_buffer` keeps it.

`size + 32 < 2^64` is what keeps `dec->pos + bytes_needed` from wrapping (`size_t` arithmetic); no C object is that large.
Without it the generated function and the model part ways: see the last example of `C11_cfun_fill_bitpack_buffer`.
-/
namespace Carquet.Properties.C11
open Carquet Carquet.Impl Carquet.Impl.CFun3 Carquet.Proofs.CFun3.RleDec

/-- `carquet_rle_decoder_init(dec, data, size, bit_width)` with `size` the length of the buffer, on ANY incoming `*dec`
and ANY `int bit_width`: the model's initial state (`in_rle_run = false`, `rle_value = 0` from the `memset`), and the
invariant holds.  A negative `bit_width` needs no side condition: its bit pattern read unsigned is a width above 32, and
both the C code (`bit_width < 0`) and the model (`w > maxWidth`) leave the decoder in status INVALID_RLE (43) -/
theorem C11_cfun_rle_decoder_init (s : Gen.CFun.carquet_rle_decoder_t) (data : List UInt8) (bit_width : BitVec 32)
    (h : data.length + 32 < 2 ^ 64) :
    rleAbs false 0 (Gen.CFun.carquet_rle_decoder_init s data (BitVec.ofNat 64 data.length) bit_width) data =
      Rle.Dec.init bit_width.toNat data ∧
    rleInv (Gen.CFun.carquet_rle_decoder_init s data (BitVec.ofNat 64 data.length) bit_width) data = true :=
  ⟨(init_eq s data bit_width h).1, (init_eq s data bit_width h).2.1⟩

/-- … and `1U << bit_width` is evaluated for `0 ≤ bit_width < 32` only -/
theorem C11_cfun_rle_decoder_init_defined (s : Gen.CFun.carquet_rle_decoder_t) (data : List UInt8)
    (bit_width : BitVec 32) (h : data.length + 32 < 2 ^ 64) :
    Gen.CFun.carquet_rle_decoder_init_defined s data (BitVec.ofNat 64 data.length) bit_width = true :=
  (init_eq s data bit_width h).2.2

example :
    -- every field of the incoming struct is overwritten (memset); width 3: mask 7, status OK
    Gen.CFun.carquet_rle_decoder_init ⟨7, 1#64, 2#64, 3#32, 4#32, 5#64, [1#32], 6#32, 7#32, 8#32⟩
        [0x03, 0x88, 0xC6, 0xFA] 4#64 3#32 =
      ⟨0, 4#64, 0#64, 3#32, 7#32, 0#64, List.replicate 8 0#32, 0#32, 0#32, 0#32⟩ ∧
    rleAbs false 0 ⟨0, 4#64, 0#64, 3#32, 7#32, 0#64, List.replicate 8 0#32, 0#32, 0#32, 0#32⟩ [0x03, 0x88, 0xC6, 0xFA] =
      ⟨3, [0x03, 0x88, 0xC6, 0xFA], false, 0, 0, [], .ok⟩ ∧
    -- width 32: `~0U`
    (Gen.CFun.carquet_rle_decoder_init ⟨7, 1#64, 2#64, 3#32, 4#32, 5#64, [1#32], 6#32, 7#32, 8#32⟩
        [0x03, 0x88, 0xC6, 0xFA] 4#64 32#32).value_mask = 0xFFFFFFFF#32 ∧
    -- width 33 and width -1: status 43, `value_mask` left 0; the invariant holds (the width is then unconstrained)
    Gen.CFun.carquet_rle_decoder_init ⟨7, 1#64, 2#64, 3#32, 4#32, 5#64, [1#32], 6#32, 7#32, 8#32⟩
        [0x03, 0x88, 0xC6, 0xFA] 4#64 33#32 =
      ⟨0, 4#64, 0#64, 33#32, 0#32, 0#64, List.replicate 8 0#32, 0#32, 0#32, 43#32⟩ ∧
    Gen.CFun.carquet_rle_decoder_init ⟨7, 1#64, 2#64, 3#32, 4#32, 5#64, [1#32], 6#32, 7#32, 8#32⟩
        [0x03, 0x88, 0xC6, 0xFA] 4#64 0xFFFFFFFF#32 =
      ⟨0, 4#64, 0#64, 0xFFFFFFFF#32, 0#32, 0#64, List.replicate 8 0#32, 0#32, 0#32, 43#32⟩ ∧
    (Rle.Dec.init 4294967295 [0x03, 0x88, 0xC6, 0xFA]).status = .invalidRle ∧
    rleInv ⟨0, 4#64, 0#64, 0xFFFFFFFF#32, 0#32, 0#64, List.replicate 8 0#32, 0#32, 0#32, 43#32⟩
        [0x03, 0x88, 0xC6, 0xFA] = true ∧
    Gen.CFun.carquet_rle_decoder_init_defined ⟨7, 1#64, 2#64, 3#32, 4#32, 5#64, [1#32], 6#32, 7#32, 8#32⟩
        [0x03, 0x88, 0xC6, 0xFA] 4#64 0xFFFFFFFF#32 = true ∧
    -- a `size` that is not the length of the buffer is outside the invariant
    rleInv (Gen.CFun.carquet_rle_decoder_init ⟨7, 1#64, 2#64, 3#32, 4#32, 5#64, [1#32], 6#32, 7#32, 8#32⟩
        [0x03, 0x88, 0xC6, 0xFA] 5#64 3#32) [0x03, 0x88, 0xC6, 0xFA] = false := by decide +kernel

/-- `carquet_rle_decoder_has_next(dec)`: the model's `hasNext` (whatever `in_rle_run` / `rle_value` hold) -/
theorem C11_cfun_rle_decoder_has_next (ir : Bool) (rv : Nat) (s : Gen.CFun.carquet_rle_decoder_t) (data : List UInt8)
    (h : rleInv s data = true) :
    Gen.CFun.carquet_rle_decoder_has_next s = Rle.hasNext (rleAbs ir rv s data) := has_next_eq ir rv s data h

theorem C11_cfun_rle_decoder_has_next_defined (s : Gen.CFun.carquet_rle_decoder_t) :
    Gen.CFun.carquet_rle_decoder_has_next_defined s = true := rfl

example :
    -- input left
    Gen.CFun.carquet_rle_decoder_has_next ⟨0, 4#64, 1#64, 3#32, 7#32, 0#64, List.replicate 8 0#32, 0#32, 0#32, 0#32⟩ = true ∧
    -- input exhausted but 5 values of the run left
    Gen.CFun.carquet_rle_decoder_has_next ⟨0, 4#64, 4#64, 3#32, 7#32, 5#64, List.replicate 8 0#32, 3#32, 8#32, 0#32⟩ = true ∧
    -- exhausted; status INVALID_RLE
    Gen.CFun.carquet_rle_decoder_has_next ⟨0, 4#64, 4#64, 3#32, 7#32, 0#64, List.replicate 8 0#32, 8#32, 8#32, 0#32⟩ = false ∧
    Gen.CFun.carquet_rle_decoder_has_next ⟨0, 4#64, 1#64, 3#32, 7#32, 5#64, List.replicate 8 0#32, 0#32, 0#32, 43#32⟩ = false ∧
    Rle.hasNext ⟨3, [], true, 5, 2, [], .ok⟩ = true ∧ Rle.hasNext ⟨3, [0x88], true, 5, 2, [], .invalidRle⟩ = false ∧
    -- outside the invariant (`run_remaining = -1`): C says "no value left" at the end of the input, the model's
    -- `runRemaining : Nat` cannot be negative
    Gen.CFun.carquet_rle_decoder_has_next
      ⟨0, 4#64, 4#64, 3#32, 7#32, 0xFFFFFFFFFFFFFFFF#64, List.replicate 8 0#32, 0#32, 0#32, 0#32⟩ = false ∧
    Rle.hasNext (rleAbs false 0
      ⟨0, 4#64, 4#64, 3#32, 7#32, 0xFFFFFFFFFFFFFFFF#64, List.replicate 8 0#32, 0#32, 0#32, 0#32⟩ [1, 2, 3, 4]) = true ∧
    rleInv ⟨0, 4#64, 4#64, 3#32, 7#32, 0xFFFFFFFFFFFFFFFF#64, List.replicate 8 0#32, 0#32, 0#32, 0#32⟩ [1, 2, 3, 4] = false := by
  decide +kernel

/-- `fill_bitpack_buffer(dec)` on a live decoder with status OK (`carquet_rle_decoder_get / _get_batch / _skip` call it
only then; with status 43 the width may be outside 0..32): the returned `bool` and the new state are the model's `fill`
(no run open: nothing; fewer than `bit_width` bytes left: status INVALID_RLE; else the 8 values of the group in
`bitpack_buffer[0..8)`, `bitpack_pos = 0`, `bitpack_count = 8`, `pos += bit_width`); the invariant is kept; `data`,
`size`, `bit_width`, `value_mask`, `run_remaining` are unchanged -/
theorem C11_cfun_fill_bitpack_buffer (ir : Bool) (rv : Nat) (s : Gen.CFun.carquet_rle_decoder_t) (data : List UInt8)
    (h : rleInv s data = true) (h0 : s.status = 0#32) :
    (Gen.CFun.fill_bitpack_buffer s data).1 = (Rle.fill (rleAbs ir rv s data)).1 ∧
    rleAbs ir rv (Gen.CFun.fill_bitpack_buffer s data).2 data = (Rle.fill (rleAbs ir rv s data)).2 ∧
    rleInv (Gen.CFun.fill_bitpack_buffer s data).2 data = true ∧
    (Gen.CFun.fill_bitpack_buffer s data).2.data = s.data ∧
    (Gen.CFun.fill_bitpack_buffer s data).2.size = s.size ∧
    (Gen.CFun.fill_bitpack_buffer s data).2.bit_width = s.bit_width ∧
    (Gen.CFun.fill_bitpack_buffer s data).2.value_mask = s.value_mask ∧
    (Gen.CFun.fill_bitpack_buffer s data).2.run_remaining = s.run_remaining :=
  ⟨(fill_eq ir rv s data h h0).1, (fill_eq ir rv s data h h0).2.1, (fill_eq ir rv s data h h0).2.2.1,
   (fill_eq ir rv s data h h0).2.2.2.1, (fill_eq ir rv s data h h0).2.2.2.2.1, (fill_eq ir rv s data h h0).2.2.2.2.2.1,
   (fill_eq ir rv s data h h0).2.2.2.2.2.2.1, (fill_eq ir rv s data h h0).2.2.2.2.2.2.2.1⟩

/-- … and no undefined behaviour: the group unpacker `carquet_bitunpack8_32(dec->data + dec->pos, bit_width,
dec->bitpack_buffer)` runs only after `pos + bit_width ≤ size` was tested, so every byte it reads is inside
`data[0 .. size)`; it writes `bitpack_buffer[0 .. 8)` only; `pos + bytes_needed` does not wrap -/
theorem C11_cfun_fill_bitpack_buffer_defined (s : Gen.CFun.carquet_rle_decoder_t) (data : List UInt8)
    (h : rleInv s data = true) (h0 : s.status = 0#32) : Gen.CFun.fill_bitpack_buffer_defined s data = true :=
  (fill_eq false 0 s data h h0).2.2.2.2.2.2.2.2

example :
    -- width 3, the group 0x88 0xC6 0xFA after the run header 0x03 = values 0..7 (stale buffer content overwritten)
    Gen.CFun.fill_bitpack_buffer ⟨0, 4#64, 1#64, 3#32, 7#32, 8#64, List.replicate 8 9#32, 8#32, 8#32, 0#32⟩
        [0x03, 0x88, 0xC6, 0xFA] =
      (true, ⟨0, 4#64, 4#64, 3#32, 7#32, 8#64, [0#32, 1#32, 2#32, 3#32, 4#32, 5#32, 6#32, 7#32], 0#32, 8#32, 0#32⟩) ∧
    Rle.fill ⟨3, [0x88, 0xC6, 0xFA], false, 8, 0, [], .ok⟩ = (true, ⟨3, [], false, 8, 0, [0, 1, 2, 3, 4, 5, 6, 7], .ok⟩) ∧
    rleInv ⟨0, 4#64, 1#64, 3#32, 7#32, 8#64, List.replicate 8 9#32, 8#32, 8#32, 0#32⟩ [0x03, 0x88, 0xC6, 0xFA] = true ∧
    Gen.CFun.fill_bitpack_buffer_defined ⟨0, 4#64, 1#64, 3#32, 7#32, 8#64, List.replicate 8 9#32, 8#32, 8#32, 0#32⟩
        [0x03, 0x88, 0xC6, 0xFA] = true ∧
    -- a truncated group: status 43, nothing else changes
    Gen.CFun.fill_bitpack_buffer ⟨0, 3#64, 1#64, 3#32, 7#32, 8#64, List.replicate 8 9#32, 8#32, 8#32, 0#32⟩
        [0x03, 0x88, 0xC6] =
      (false, ⟨0, 3#64, 1#64, 3#32, 7#32, 8#64, List.replicate 8 9#32, 8#32, 8#32, 43#32⟩) ∧
    Rle.fill ⟨3, [0x88, 0xC6], false, 8, 0, [], .ok⟩ = (false, ⟨3, [0x88, 0xC6], false, 8, 0, [], .invalidRle⟩) ∧
    -- no run open: nothing happens; width 0: eight zeros, no byte consumed
    Gen.CFun.fill_bitpack_buffer ⟨0, 3#64, 1#64, 3#32, 7#32, 0#64, List.replicate 8 9#32, 8#32, 8#32, 0#32⟩
        [0x03, 0x88, 0xC6] =
      (false, ⟨0, 3#64, 1#64, 3#32, 7#32, 0#64, List.replicate 8 9#32, 8#32, 8#32, 0#32⟩) ∧
    Gen.CFun.fill_bitpack_buffer ⟨0, 1#64, 1#64, 0#32, 0#32, 8#64, List.replicate 8 9#32, 8#32, 8#32, 0#32⟩ [0x03] =
      (true, ⟨0, 1#64, 1#64, 0#32, 0#32, 8#64, List.replicate 8 0#32, 0#32, 8#32, 0#32⟩) ∧
    -- outside the invariant, `size` larger than the data list: the unpacker reads `data[3]`
    rleInv ⟨0, 4#64, 1#64, 3#32, 7#32, 8#64, List.replicate 8 9#32, 8#32, 8#32, 0#32⟩ [0x03, 0x88, 0xC6] = false ∧
    Gen.CFun.fill_bitpack_buffer_defined ⟨0, 4#64, 1#64, 3#32, 7#32, 8#64, List.replicate 8 9#32, 8#32, 8#32, 0#32⟩
        [0x03, 0x88, 0xC6] = false ∧
    -- outside the invariant, `size + 32 ≥ 2^64`: `pos + bytes_needed` wraps to 1, the test `> size` passes, and the
    -- unpacker reads three bytes at `data + 2^64 - 2` (a buffer of that size cannot exist)
    (Gen.CFun.fill_bitpack_buffer
      ⟨0, 0xFFFFFFFFFFFFFFFF#64, 0xFFFFFFFFFFFFFFFE#64, 3#32, 7#32, 8#64, List.replicate 8 9#32, 8#32, 8#32, 0#32⟩
        [0x03, 0x88, 0xC6]).1 = true ∧
    Gen.CFun.fill_bitpack_buffer_defined
      ⟨0, 0xFFFFFFFFFFFFFFFF#64, 0xFFFFFFFFFFFFFFFE#64, 3#32, 7#32, 8#64, List.replicate 8 9#32, 8#32, 8#32, 0#32⟩
        [0x03, 0x88, 0xC6] = false := by decide +kernel

end Carquet.Properties.C11
end CFun3RleDec
