import Carquet.Proofs.CFunB.BssGeneric
import Carquet.Proofs.CFunB.Enc
import Carquet.Proofs.CFunB.PlainBool
/-
C11 — link theorems (component `cfun`, batch `cfunb`): array loops of the encodings as translated from the CURRENT C source by
translate/gen_cfun.py on every check run, proved equal to the Impl models the round-trip theorems are about:
`carquet_byte_stream_split_encode` / `_decode` (the generic FIXED_LEN_BYTE_ARRAY loop nests with their argument checks;
`Impl.Bss.encode` / `decode`, C11_bss_roundtrip), `carquet_decode_plain_fixed_byte_array` (`Impl.Plain.decodeFlba`,
C11_plain_fixed_len_byte_array_roundtrip), `dict_hash` (`Impl.Dictionary.dictHash`, C11_dictionary_builder), `write_uleb128`
(`Impl.Delta.writeUleb128`, C11_delta_*_roundtrip), `common_prefix_length` (`Impl.DeltaStrings.commonPrefixLength`,
C11_delta_strings_roundtrip).  NULL tests of the array parameters are constant (arrays are objects the caller provides).
-/
namespace Carquet.Properties.C11
open Carquet Carquet.Impl Carquet.Proofs.CFunB

/-! ### BYTE_STREAM_SPLIT, generic -/

/-- success path: `count` values of `type_length` bytes each, an output of exactly `count * type_length` bytes; the status is
`CARQUET_OK` (0), the output holds the model's bytes, `*bytes_written` their number -/
theorem C11_cfun_byte_stream_split_encode (values out : List UInt8) (n k cap : Nat) (bw : BitVec 64) (hk0 : 0 < k)
    (hk : k < 2 ^ 30) (hs : values.length = n * k) (ho : out.length = n * k) (hn : n * k + k + n < 2 ^ 63) (hcap : n * k ≤ cap)
    (hc : cap < 2 ^ 64) :
    ∃ L, Bss.encode values (n : Int) (k : Int) cap = .ok L ∧
      Gen.CFun.carquet_byte_stream_split_encode values (BitVec.ofNat 64 n) (BitVec.ofNat 32 k) out (BitVec.ofNat 64 cap) bw =
        (0#32, L, BitVec.ofNat 64 L.length) := (bss_encode_ok values out n k cap bw hk0 hk hs ho hn hcap hc).1
theorem C11_cfun_byte_stream_split_encode_defined (values out : List UInt8) (n k cap : Nat) (bw : BitVec 64) (hk0 : 0 < k)
    (hk : k < 2 ^ 30) (hs : values.length = n * k) (ho : out.length = n * k) (hn : n * k + k + n < 2 ^ 63) (hcap : n * k ≤ cap)
    (hc : cap < 2 ^ 64) :
    Gen.CFun.carquet_byte_stream_split_encode_defined values (BitVec.ofNat 64 n) (BitVec.ofNat 32 k) out (BitVec.ofNat 64 cap) bw
      = true := (bss_encode_ok values out n k cap bw hk0 hk hs ho hn hcap hc).2

/-- `type_length <= 0`: CARQUET_ERROR_INVALID_ARGUMENT (1), nothing read or written -/
theorem C11_cfun_byte_stream_split_encode_invalid (values out : List UInt8) (count cap bw : BitVec 64) (tl : BitVec 32)
    (h : tl.toInt ≤ 0) :
    Gen.CFun.carquet_byte_stream_split_encode values count tl out cap bw = (1#32, out, bw) ∧
    Gen.CFun.carquet_byte_stream_split_encode_defined values count tl out cap bw = true ∧
    Bss.encode values count.toInt tl.toInt cap.toNat = .error .invalidArgument := bss_encode_invalid values out count cap bw tl h

/-- capacity below `count * type_length`: CARQUET_ERROR_ENCODE (41), nothing read or written -/
theorem C11_cfun_byte_stream_split_encode_small (values out : List UInt8) (n k cap : Nat) (bw : BitVec 64) (hk0 : 0 < k)
    (hk : k < 2 ^ 30) (hn : n * k < 2 ^ 63) (hn2 : n < 2 ^ 63) (hcap : cap < n * k) :
    Gen.CFun.carquet_byte_stream_split_encode values (BitVec.ofNat 64 n) (BitVec.ofNat 32 k) out (BitVec.ofNat 64 cap) bw =
      (41#32, out, bw) ∧
    Gen.CFun.carquet_byte_stream_split_encode_defined values (BitVec.ofNat 64 n) (BitVec.ofNat 32 k) out (BitVec.ofNat 64 cap) bw
      = true ∧
    Bss.encode values (n : Int) (k : Int) cap = .error .encode := bss_encode_small values out n k cap bw hk0 hk hn hn2 hcap

example : Gen.CFun.carquet_byte_stream_split_encode [1, 2, 3, 0x0A, 0x0B, 0x0C] 2#64 3#32 [0, 0, 0, 0, 0, 0] 6#64 77#64 =
      (0#32, [1, 0x0A, 2, 0x0B, 3, 0x0C], 6#64) ∧
    Bss.encode [1, 2, 3, 0x0A, 0x0B, 0x0C] 2 3 6 = .ok [1, 0x0A, 2, 0x0B, 3, 0x0C] ∧
    Gen.CFun.carquet_byte_stream_split_encode [1, 2, 3, 0x0A, 0x0B, 0x0C] 2#64 3#32 [0, 0, 0, 0, 0, 0] 5#64 77#64 =
      (41#32, [0, 0, 0, 0, 0, 0], 77#64) ∧
    -- a `values` array one byte short: the read of values[5] is outside
    Gen.CFun.carquet_byte_stream_split_encode_defined [1, 2, 3, 0x0A, 0x0B] 2#64 3#32 [0, 0, 0, 0, 0, 0] 6#64 77#64 = false := by
  decide

/-- success path of the decoder: at least `count * type_length` input bytes, `data_size` = the length of the input -/
theorem C11_cfun_byte_stream_split_decode (data out : List UInt8) (n k : Nat) (hk0 : 0 < k) (hk : k < 2 ^ 30)
    (hs : k * n ≤ data.length) (hd : data.length < 2 ^ 64) (ho : out.length = k * n) (hn : k * n + k + n < 2 ^ 63) :
    ∃ L, Bss.decode data (k : Int) (n : Int) = .ok L ∧
      Gen.CFun.carquet_byte_stream_split_decode data (BitVec.ofNat 64 data.length) (BitVec.ofNat 32 k) out (BitVec.ofNat 64 n) =
        (0#32, L) := (bss_decode_ok data out n k hk0 hk hs hd ho hn).1
theorem C11_cfun_byte_stream_split_decode_defined (data out : List UInt8) (n k : Nat) (hk0 : 0 < k) (hk : k < 2 ^ 30)
    (hs : k * n ≤ data.length) (hd : data.length < 2 ^ 64) (ho : out.length = k * n) (hn : k * n + k + n < 2 ^ 63) :
    Gen.CFun.carquet_byte_stream_split_decode_defined data (BitVec.ofNat 64 data.length) (BitVec.ofNat 32 k) out
      (BitVec.ofNat 64 n) = true := (bss_decode_ok data out n k hk0 hk hs hd ho hn).2

example : Gen.CFun.carquet_byte_stream_split_decode [1, 0x0A, 2, 0x0B, 3, 0x0C] 6#64 3#32 [0, 0, 0, 0, 0, 0] 2#64 =
      (0#32, [1, 2, 3, 0x0A, 0x0B, 0x0C]) ∧
    Gen.CFun.carquet_byte_stream_split_decode [1, 0x0A, 2, 0x0B, 3] 5#64 3#32 [0, 0, 0, 0, 0, 0] 2#64 =
      (40#32, [0, 0, 0, 0, 0, 0]) := by decide

/-! ### PLAIN, FIXED_LEN_BYTE_ARRAY -/

/-- the whole of `carquet_decode_plain_fixed_byte_array` (`input_size` = the length of the input): the model's values and
byte count on success, -1 exactly when the model refuses -/
theorem C11_cfun_decode_plain_fixed_byte_array (input output : List UInt8) (count : BitVec 64) (fl : BitVec 32)
    (hin : input.length < 2 ^ 64) :
    (∀ vals consumed, Plain.decodeFlba input count.toInt fl.toInt = .ok vals consumed → consumed ≤ output.length →
      Gen.CFun.carquet_decode_plain_fixed_byte_array input (BitVec.ofNat 64 input.length) output count fl =
        (BitVec.ofNat 64 consumed, vals ++ output.drop consumed)) ∧
    (Plain.decodeFlba input count.toInt fl.toInt = .err →
      Gen.CFun.carquet_decode_plain_fixed_byte_array input (BitVec.ofNat 64 input.length) output count fl =
        (BitVec.allOnes 64, output)) :=
  ⟨fun v c h ho => ((decode_plain_flba_eq input output count fl hin).1 v c h ho).1,
   fun h => ((decode_plain_flba_eq input output count fl hin).2 h).1⟩
theorem C11_cfun_decode_plain_fixed_byte_array_defined (input output : List UInt8) (count : BitVec 64) (fl : BitVec 32)
    (hin : input.length < 2 ^ 64)
    (hout : ∀ vals consumed, Plain.decodeFlba input count.toInt fl.toInt = .ok vals consumed → consumed ≤ output.length) :
    Gen.CFun.carquet_decode_plain_fixed_byte_array_defined input (BitVec.ofNat 64 input.length) output count fl = true := by
  cases h : Plain.decodeFlba input count.toInt fl.toInt with
  | ok v c => exact ((decode_plain_flba_eq input output count fl hin).1 v c h (hout v c h)).2
  | err => exact ((decode_plain_flba_eq input output count fl hin).2 h).2
  | oob => simp [Plain.decodeFlba] at h; split at h <;> (try split at h) <;> simp at h

example : Gen.CFun.carquet_decode_plain_fixed_byte_array [1, 2, 3, 4, 5, 6, 7] 7#64 [0, 0, 0, 0, 0, 0, 9] 2#64 3#32 =
      (6#64, [1, 2, 3, 4, 5, 6, 9]) ∧
    Gen.CFun.carquet_decode_plain_fixed_byte_array [1, 2, 3, 4, 5] 5#64 [0, 0, 0, 0, 0, 0] 2#64 3#32 =
      (BitVec.allOnes 64, [0, 0, 0, 0, 0, 0]) ∧
    -- an output buffer shorter than what is copied
    Gen.CFun.carquet_decode_plain_fixed_byte_array_defined [1, 2, 3, 4, 5, 6] 6#64 [0, 0, 0, 0, 0] 2#64 3#32 = false := by decide

/-! ### PLAIN, BOOLEAN -/

/-- the whole of `carquet_decode_plain_boolean` for a non-negative `count` (`input_size` = the length of the input, `count`
output slots): the loop over whole bytes with its eight unrolled stores and the loop over the remaining bits yield the model's
flags and byte count; -1 exactly when the model refuses (input shorter than `(count + 7) / 8` bytes) -/
theorem C11_cfun_decode_plain_boolean (input output : List UInt8) (hn : output.length < 2 ^ 62) (hin : input.length < 2 ^ 64) :
    (∀ vals consumed, Plain.decodeBoolean input (output.length : Int) = .ok vals consumed →
      Gen.CFun.carquet_decode_plain_boolean input (BitVec.ofNat 64 input.length) output (BitVec.ofNat 64 output.length) =
        (BitVec.ofNat 64 consumed, vals)) ∧
    (Plain.decodeBoolean input (output.length : Int) = .err →
      Gen.CFun.carquet_decode_plain_boolean input (BitVec.ofNat 64 input.length) output (BitVec.ofNat 64 output.length) =
        (BitVec.allOnes 64, output)) :=
  ⟨(decode_plain_boolean_eq input output hn hin).1, (decode_plain_boolean_eq input output hn hin).2.1⟩
theorem C11_cfun_decode_plain_boolean_defined (input output : List UInt8) (hn : output.length < 2 ^ 62)
    (hin : input.length < 2 ^ 64) :
    Gen.CFun.carquet_decode_plain_boolean_defined input (BitVec.ofNat 64 input.length) output (BitVec.ofNat 64 output.length) = true :=
  (decode_plain_boolean_eq input output hn hin).2.2.2

example : Gen.CFun.carquet_decode_plain_boolean [0xA5, 0x01] 2#64 [9, 9, 9, 9, 9, 9, 9, 9, 9] 9#64 =
      (2#64, [1, 0, 1, 0, 0, 1, 0, 1, 1]) ∧
    Plain.decodeBoolean [0xA5, 0x01] 9 = .ok [1, 0, 1, 0, 0, 1, 0, 1, 1] 2 ∧
    Gen.CFun.carquet_decode_plain_boolean [0xA5] 1#64 [9, 9, 9, 9, 9, 9, 9, 9, 9] 9#64 =
      (BitVec.allOnes 64, [9, 9, 9, 9, 9, 9, 9, 9, 9]) ∧
    -- an `input_size` that overstates the input: the size check passes and the second byte is read outside
    Gen.CFun.carquet_decode_plain_boolean_defined [0xA5] 2#64 [9, 9, 9, 9, 9, 9, 9, 9, 9] 9#64 = false := by decide

/-! ### dictionary, delta -/

/-- `dict_hash(data, size)`: 32-bit FNV-1a -/
theorem C11_cfun_dict_hash (data : List UInt8) (h : data.length < 2 ^ 64) :
    Gen.CFun.dict_hash data (BitVec.ofNat 64 data.length) = (Dictionary.dictHash data).toBitVec := (dict_hash_eq data h).1
theorem C11_cfun_dict_hash_defined (data : List UInt8) (h : data.length < 2 ^ 64) :
    Gen.CFun.dict_hash_defined data (BitVec.ofNat 64 data.length) = true := (dict_hash_eq data h).2

example : Gen.CFun.dict_hash [0x61, 0x62, 0x63] 3#64 = 0x1A47E90B#32 ∧ Gen.CFun.dict_hash_defined [0x61] 2#64 = false := by decide

/-- `write_uleb128(data, value)` on a buffer with room for the encoding (at most 10 bytes) -/
theorem C11_cfun_write_uleb128 (data : List UInt8) (v : BitVec 64) (h : (Delta.writeUleb128 v).length ≤ data.length) :
    Gen.CFun.write_uleb128 data v =
      (BitVec.ofNat 64 (Delta.writeUleb128 v).length, Delta.writeUleb128 v ++ data.drop (Delta.writeUleb128 v).length) :=
  (write_uleb128_eq data v h).1
theorem C11_cfun_write_uleb128_defined (data : List UInt8) (v : BitVec 64) (h : (Delta.writeUleb128 v).length ≤ data.length) :
    Gen.CFun.write_uleb128_defined data v = true := (write_uleb128_eq data v h).2

example : Gen.CFun.write_uleb128 [9, 9, 9] 300#64 = (2#64, [0xAC, 0x02, 9]) ∧
    (Gen.CFun.write_uleb128 (List.replicate 10 0) 0xFFFFFFFFFFFFFFFF#64).1 = 10#64 ∧
    Gen.CFun.write_uleb128_defined [9] 300#64 = false := by decide

/-- `common_prefix_length(a, a_len, b, b_len)` with the lengths of the two strings -/
theorem C11_cfun_common_prefix_length (a b : List UInt8) (ha : a.length < 2 ^ 31) (hb : b.length < 2 ^ 31) :
    Gen.CFun.common_prefix_length a (BitVec.ofNat 32 a.length) b (BitVec.ofNat 32 b.length) =
      BitVec.ofNat 32 (DeltaStrings.commonPrefixLength a b) := (common_prefix_length_eq a b ha hb).1
theorem C11_cfun_common_prefix_length_defined (a b : List UInt8) (ha : a.length < 2 ^ 31) (hb : b.length < 2 ^ 31) :
    Gen.CFun.common_prefix_length_defined a (BitVec.ofNat 32 a.length) b (BitVec.ofNat 32 b.length) = true :=
  (common_prefix_length_eq a b ha hb).2

example : Gen.CFun.common_prefix_length [1, 2, 3, 4] 4#32 [1, 2, 9] 3#32 = 2#32 ∧
    Gen.CFun.common_prefix_length [1, 2] 2#32 [1, 2, 9] 3#32 = 2#32 ∧
    Gen.CFun.common_prefix_length_defined [1, 2] 3#32 [1, 2, 9] 3#32 = false := by decide

end Carquet.Properties.C11
