import Carquet.Impl.CSem
import Carquet.Impl.Varint
import Carquet.Impl.Delta
import Carquet.Impl.Dictionary
import Carquet.Impl.Bitpack
import Carquet.Gen.CFun
import Carquet.Proofs.CFun.Basic
import Carquet.Proofs.CFun.Loops
import Carquet.Proofs.CFun.Bits
/-
C11 — link theorems between the scalar helpers of the encoders (src/core/endian.h zigzag, src/encoding/delta.c
`zigzag_encode64 / zigzag_decode64 / bit_width_required`, src/encoding/dictionary.c `bit_width_for_count`,
src/core/bitpack.h `carquet_packed_size`, `carquet_bit_width32/64`, `carquet_clz32/64`) as translated from the CURRENT
source (`Carquet.Gen.CFun`, regenerated on every run) and the models the C11/C12 theorems are about (`Impl.Varint`,
`Impl.Delta`, `Impl.Dictionary`, `Impl.Bitpack`).
-/
namespace Carquet.Properties.C11
open Carquet Carquet.Impl
open Carquet.Impl.CSem (bitLen)

/-! ### zigzag (core/endian.h) -/

theorem C11_cfun_zigzag_encode32 (v : BitVec 32) :
    Gen.CFun.carquet_zigzag_encode32 v = Impl.Varint.zigzagEncode32 v := rfl
theorem C11_cfun_zigzag_encode32_defined (v : BitVec 32) : Gen.CFun.carquet_zigzag_encode32_defined v = true := rfl

theorem C11_cfun_zigzag_encode64 (v : BitVec 64) :
    Gen.CFun.carquet_zigzag_encode64 v = Impl.Varint.zigzagEncode64 v := rfl
theorem C11_cfun_zigzag_encode64_defined (v : BitVec 64) : Gen.CFun.carquet_zigzag_encode64_defined v = true := rfl

theorem C11_cfun_zigzag_decode32 (v : BitVec 32) :
    Gen.CFun.carquet_zigzag_decode32 v = Impl.Varint.zigzagDecode32 v := rfl
/-- `-(int32_t)(v & 1)` negates 0 or 1: never `INT_MIN` -/
theorem C11_cfun_zigzag_decode32_defined (v : BitVec 32) : Gen.CFun.carquet_zigzag_decode32_defined v = true := by
  simp only [Gen.CFun.carquet_zigzag_decode32_defined, CSem.sNegOk, bne_iff_ne, ne_eq]
  intro h
  have h1 : (v &&& 1#32).toNat ≤ 1 := by
    rw [BitVec.toNat_and]; exact Nat.and_le_right
  rw [h] at h1
  exact absurd h1 (by decide)

theorem C11_cfun_zigzag_decode64 (v : BitVec 64) :
    Gen.CFun.carquet_zigzag_decode64 v = Impl.Varint.zigzagDecode64 v := rfl
theorem C11_cfun_zigzag_decode64_defined (v : BitVec 64) : Gen.CFun.carquet_zigzag_decode64_defined v = true := by
  simp only [Gen.CFun.carquet_zigzag_decode64_defined, CSem.sNegOk, bne_iff_ne, ne_eq]
  intro h
  have h1 : (v &&& 1#64).toNat ≤ 1 := by
    rw [BitVec.toNat_and]; exact Nat.and_le_right
  rw [h] at h1
  exact absurd h1 (by decide)

example : Gen.CFun.carquet_zigzag_encode32 (BitVec.ofInt 32 (-3)) = 5#32 ∧
    Gen.CFun.carquet_zigzag_decode32 5#32 = BitVec.ofInt 32 (-3) ∧
    Gen.CFun.carquet_zigzag_encode64 (BitVec.ofInt 64 (-3)) = 5#64 ∧
    Gen.CFun.carquet_zigzag_decode64 5#64 = BitVec.ofInt 64 (-3) := by decide

/-! ### delta.c -/

theorem C11_cfun_delta_zigzag_decode64 (n : BitVec 64) :
    Gen.CFun.delta_zigzag_decode64 n = Impl.Delta.zigzagDecode64 n := rfl
theorem C11_cfun_delta_zigzag_decode64_defined (n : BitVec 64) : Gen.CFun.delta_zigzag_decode64_defined n = true := rfl

theorem C11_cfun_delta_zigzag_encode64 (n : BitVec 64) :
    Gen.CFun.delta_zigzag_encode64 n = Impl.Delta.zigzagEncode64 n := rfl
theorem C11_cfun_delta_zigzag_encode64_defined (n : BitVec 64) : Gen.CFun.delta_zigzag_encode64_defined n = true := rfl

example : Gen.CFun.delta_zigzag_encode64 (BitVec.ofInt 64 (-3)) = 5#64 ∧
    Gen.CFun.delta_zigzag_decode64 5#64 = BitVec.ofInt 64 (-3) := by decide

/-- `bit_width_required(value)` is the model's `bitWidthRequired`, for every `uint64_t`; the translated loop needs at
most 65 condition tests (the fuel in translate/gen_cfun.py) and `width++` stays far from `INT_MAX`. -/
theorem C11_cfun_bit_width_required (v : BitVec 64) :
    (Gen.CFun.bit_width_required v).toNat = Impl.Delta.bitWidthRequired v := by
  have hb := Proofs.CFun.bitLen_le_of_lt v.toNat 64 v.isLt
  have hz : (0#32 : BitVec 32).toNat = 0 := rfl
  have hl := (Proofs.CFun.bit_width_required_loop 65 v 0#32 (by omega) (by rw [hz]; omega)).1
  have hm := Proofs.CFun.natLoop_eq Impl.Delta.bitWidthLoop (by intro v w; simp [Impl.Delta.bitWidthLoop])
    (by intro f v w; simp [Impl.Delta.bitWidthLoop]) 64 v.toNat 0 (by have := v.isLt; omega)
  unfold Gen.CFun.bit_width_required Impl.Delta.bitWidthRequired
  by_cases h0 : v = 0#64
  · subst h0; rfl
  · simp only [beq_iff_eq, h0, if_false, hl, hm, hz]

theorem C11_cfun_bit_width_required_defined (v : BitVec 64) : Gen.CFun.bit_width_required_defined v = true := by
  have hb := Proofs.CFun.bitLen_le_of_lt v.toNat 64 v.isLt
  have hz : (0#32 : BitVec 32).toNat = 0 := rfl
  have hl := (Proofs.CFun.bit_width_required_loop 65 v 0#32 (by omega) (by rw [hz]; omega)).2
  unfold Gen.CFun.bit_width_required_defined
  by_cases h0 : v = 0#64 <;> simp [h0, hl]

example : (Gen.CFun.bit_width_required 5#64).toNat = 3 ∧ Impl.Delta.bitWidthRequired 5#64 = 3 ∧
    (Gen.CFun.bit_width_required (BitVec.allOnes 64)).toNat = 64 ∧
    Gen.CFun.bit_width_required_defined (BitVec.allOnes 64) = true := by decide +kernel

/-! ### dictionary.c -/

/-- `bit_width_for_count(count)` is the model's `bitWidthForCount`, for every `uint32_t`; fuel 33 suffices -/
theorem C11_cfun_bit_width_for_count (c : BitVec 32) :
    (Gen.CFun.bit_width_for_count c).toNat = Impl.Dictionary.bitWidthForCount c.toNat := by
  have hmod : c.toNat % 2 ^ 32 = c.toNat := Nat.mod_eq_of_lt c.isLt
  unfold Gen.CFun.bit_width_for_count Impl.Dictionary.bitWidthForCount
  rw [hmod]
  by_cases h0 : c = 0#32
  · subst h0; rfl
  · have hne : c.toNat ≠ 0 := fun e => h0 (BitVec.eq_of_toNat_eq e)
    have hs : (c - 1#32).toNat = c.toNat - 1 := by bv_omega
    have hlt : c.toNat - 1 < 2 ^ 32 := by have := c.isLt; omega
    have hb := Proofs.CFun.bitLen_le_of_lt (c.toNat - 1) 32 hlt
    have hz : (0#32 : BitVec 32).toNat = 0 := rfl
    have hl := (Proofs.CFun.bit_width_for_count_loop 33 (c - 1#32) 0#32 (by rw [hs]; omega) (by rw [hs, hz]; omega)).1
    have hm := Proofs.CFun.natLoop_eq Impl.Dictionary.widthLoop (by intro v w; simp [Impl.Dictionary.widthLoop])
      (by intro f v w; simp [Impl.Dictionary.widthLoop]) 32 (c.toNat - 1) 0 hlt
    simp only [beq_iff_eq, h0, if_false, hne, hl, hm, hs, hz, Nat.zero_add, gt_iff_lt]

theorem C11_cfun_bit_width_for_count_defined (c : BitVec 32) : Gen.CFun.bit_width_for_count_defined c = true := by
  unfold Gen.CFun.bit_width_for_count_defined
  by_cases h0 : c = 0#32
  · simp [h0]
  · have hne : c.toNat ≠ 0 := fun e => h0 (BitVec.eq_of_toNat_eq e)
    have hs : (c - 1#32).toNat = c.toNat - 1 := by bv_omega
    have hlt : c.toNat - 1 < 2 ^ 32 := by have := c.isLt; omega
    have hb := Proofs.CFun.bitLen_le_of_lt (c.toNat - 1) 32 hlt
    have hz : (0#32 : BitVec 32).toNat = 0 := rfl
    have hl := (Proofs.CFun.bit_width_for_count_loop 33 (c - 1#32) 0#32 (by rw [hs]; omega) (by rw [hs, hz]; omega)).2
    simp [h0, hl]

example : (Gen.CFun.bit_width_for_count 5#32).toNat = 3 ∧ Impl.Dictionary.bitWidthForCount 5 = 3 ∧
    (Gen.CFun.bit_width_for_count 1#32).toNat = 1 ∧ (Gen.CFun.bit_width_for_count (BitVec.allOnes 32)).toNat = 32 ∧
    Gen.CFun.bit_width_for_count_defined (BitVec.allOnes 32) = true := by decide +kernel

/-! ### core/bitpack.h -/

/-- `carquet_packed_size(count, bit_width)` is the model's `packedSize` for a non-negative `int` width whenever
`count * bit_width + 7` fits a `size_t` (beyond that the C multiplication wraps; a negative width is converted to a
huge `size_t`). -/
theorem C11_cfun_packed_size (count : BitVec 64) (w : BitVec 32) (hw : 0 ≤ w.toInt)
    (h : count.toNat * w.toInt.toNat + 7 < 2 ^ 64) :
    (Gen.CFun.carquet_packed_size count w).toNat = Impl.Bitpack.packedSize count.toNat w.toInt.toNat := by
  have hx := Proofs.CFun.toNat_signExtend_32_64_of_nonneg w hw
  unfold Gen.CFun.carquet_packed_size Impl.Bitpack.packedSize
  have hmul : (count * BitVec.signExtend 64 w).toNat = count.toNat * w.toInt.toNat := by
    rw [BitVec.toNat_mul, hx]; exact Nat.mod_eq_of_lt (by omega)
  have hadd : (count * BitVec.signExtend 64 w + 7#64).toNat = count.toNat * w.toInt.toNat + 7 := by
    rw [BitVec.toNat_add, hmul]; exact Nat.mod_eq_of_lt h
  rw [BitVec.toNat_udiv, hadd]
  rfl

theorem C11_cfun_packed_size_defined (count : BitVec 64) (w : BitVec 32) :
    Gen.CFun.carquet_packed_size_defined count w = true := by
  simp [Gen.CFun.carquet_packed_size_defined]

example : (0 : Int) ≤ (3#32 : BitVec 32).toInt ∧ (1000#64).toNat * (3#32 : BitVec 32).toInt.toNat + 7 < 2 ^ 64 ∧
    (Gen.CFun.carquet_packed_size 1000#64 3#32).toNat = 375 ∧ Impl.Bitpack.packedSize 1000 3 = 375 := by decide

/-- `carquet_clz32(v)` = 32 − (number of bits of `v`), for every `v` (32 for 0, where the builtin is not called) -/
theorem C11_cfun_clz32 (v : BitVec 32) : (Gen.CFun.carquet_clz32 v).toNat = 32 - bitLen v.toNat := by
  unfold Gen.CFun.carquet_clz32
  by_cases h0 : v = 0#32
  · subst h0; rfl
  · have := Proofs.CFun.bitLen_le_of_lt v.toNat 32 v.isLt
    simp only [beq_iff_eq, h0, if_false, CSem.builtinClz, CSem.clzNat, BitVec.toNat_ofNat]
    omega

theorem C11_cfun_clz32_defined (v : BitVec 32) : Gen.CFun.carquet_clz32_defined v = true := by
  unfold Gen.CFun.carquet_clz32_defined
  by_cases h0 : v = 0#32 <;> simp [h0, CSem.builtinNonZero]

theorem C11_cfun_clz64 (v : BitVec 64) : (Gen.CFun.carquet_clz64 v).toNat = 64 - bitLen v.toNat := by
  unfold Gen.CFun.carquet_clz64
  by_cases h0 : v = 0#64
  · subst h0; rfl
  · have := Proofs.CFun.bitLen_le_of_lt v.toNat 64 v.isLt
    simp only [beq_iff_eq, h0, if_false, CSem.builtinClz, CSem.clzNat, BitVec.toNat_ofNat]
    omega

theorem C11_cfun_clz64_defined (v : BitVec 64) : Gen.CFun.carquet_clz64_defined v = true := by
  unfold Gen.CFun.carquet_clz64_defined
  by_cases h0 : v = 0#64 <;> simp [h0, CSem.builtinNonZero]

example : (Gen.CFun.carquet_clz32 1#32).toNat = 31 ∧ (Gen.CFun.carquet_clz32 0#32).toNat = 32 ∧
    (Gen.CFun.carquet_clz64 0x8000000000000000#64).toNat = 0 := by decide

/-- `carquet_bit_width32(v)` is the number of bits of `v` (`Nat.log2 v + 1`, 0 for 0), for every `v` -/
theorem C11_cfun_bit_width32 (v : BitVec 32) : (Gen.CFun.carquet_bit_width32 v).toNat = bitLen v.toNat := by
  unfold Gen.CFun.carquet_bit_width32
  by_cases h0 : v = 0#32
  · subst h0; rfl
  · have hb := Proofs.CFun.bitLen_le_of_lt v.toNat 32 v.isLt
    have hc := C11_cfun_clz32 v
    simp only [beq_iff_eq, h0, if_false]
    have : (32#32 - Gen.CFun.carquet_clz32 v).toNat = 32 - (Gen.CFun.carquet_clz32 v).toNat := by
      have : (Gen.CFun.carquet_clz32 v).toNat ≤ 32 := by omega
      bv_omega
    rw [this, hc]; omega

theorem C11_cfun_bit_width32_defined (v : BitVec 32) : Gen.CFun.carquet_bit_width32_defined v = true := by
  unfold Gen.CFun.carquet_bit_width32_defined
  by_cases h0 : v = 0#32
  · simp [h0]
  · have hc := C11_cfun_clz32 v
    have hle : (Gen.CFun.carquet_clz32 v).toNat ≤ 32 := by omega
    have hi : (Gen.CFun.carquet_clz32 v).toInt = ((Gen.CFun.carquet_clz32 v).toNat : Int) := by
      rw [BitVec.toInt_eq_toNat_of_lt]; omega
    have h32 : (32#32 : BitVec 32).toInt = 32 := by decide
    have ok : CSem.sSubOk 32#32 (Gen.CFun.carquet_clz32 v) = true := by
      simp only [CSem.sSubOk, BitVec.ssubOverflow, hi, h32]
      have a1 : ¬ ((32 : Int) - ((Gen.CFun.carquet_clz32 v).toNat : Int) ≥ 2 ^ (32 - 1)) := by omega
      have a2 : ¬ ((32 : Int) - ((Gen.CFun.carquet_clz32 v).toNat : Int) < -2 ^ (32 - 1)) := by omega
      simp only [a1, a2, decide_false, Bool.or_self, Bool.not_false]
    simp [h0, ok, C11_cfun_clz32_defined]

theorem C11_cfun_bit_width64 (v : BitVec 64) : (Gen.CFun.carquet_bit_width64 v).toNat = bitLen v.toNat := by
  unfold Gen.CFun.carquet_bit_width64
  by_cases h0 : v = 0#64
  · subst h0; rfl
  · have hb := Proofs.CFun.bitLen_le_of_lt v.toNat 64 v.isLt
    have hc := C11_cfun_clz64 v
    simp only [beq_iff_eq, h0, if_false]
    have : (64#32 - Gen.CFun.carquet_clz64 v).toNat = 64 - (Gen.CFun.carquet_clz64 v).toNat := by
      have : (Gen.CFun.carquet_clz64 v).toNat ≤ 64 := by omega
      bv_omega
    rw [this, hc]; omega

theorem C11_cfun_bit_width64_defined (v : BitVec 64) : Gen.CFun.carquet_bit_width64_defined v = true := by
  unfold Gen.CFun.carquet_bit_width64_defined
  by_cases h0 : v = 0#64
  · simp [h0]
  · have hc := C11_cfun_clz64 v
    have hle : (Gen.CFun.carquet_clz64 v).toNat ≤ 64 := by omega
    have hi : (Gen.CFun.carquet_clz64 v).toInt = ((Gen.CFun.carquet_clz64 v).toNat : Int) := by
      rw [BitVec.toInt_eq_toNat_of_lt]; omega
    have h64 : (64#32 : BitVec 32).toInt = 64 := by decide
    have ok : CSem.sSubOk 64#32 (Gen.CFun.carquet_clz64 v) = true := by
      simp only [CSem.sSubOk, BitVec.ssubOverflow, hi, h64]
      have a1 : ¬ ((64 : Int) - ((Gen.CFun.carquet_clz64 v).toNat : Int) ≥ 2 ^ (32 - 1)) := by omega
      have a2 : ¬ ((64 : Int) - ((Gen.CFun.carquet_clz64 v).toNat : Int) < -2 ^ (32 - 1)) := by omega
      simp only [a1, a2, decide_false, Bool.or_self, Bool.not_false]
    simp [h0, ok, C11_cfun_clz64_defined]

example : (Gen.CFun.carquet_bit_width32 5#32).toNat = 3 ∧ bitLen 5 = 3 ∧
    (Gen.CFun.carquet_bit_width64 (BitVec.allOnes 64)).toNat = 64 := by decide

/-- `carquet_ctz32(v)` is the index of the lowest set bit of a non-zero `v` (and 32 for 0, where the builtin is not
called) -/
theorem C11_cfun_ctz32 (v : BitVec 32) (h : v ≠ 0#32) :
    (Gen.CFun.carquet_ctz32 v).toNat < 32 ∧ v.toNat % 2 ^ (Gen.CFun.carquet_ctz32 v).toNat = 0 ∧
    v.toNat / 2 ^ (Gen.CFun.carquet_ctz32 v).toNat % 2 = 1 := by
  have hne : v.toNat ≠ 0 := fun e => h (BitVec.eq_of_toNat_eq e)
  obtain ⟨a, b, c⟩ := Proofs.CFun.ctzAux_spec 32 v.toNat hne v.isLt
  have e : (Gen.CFun.carquet_ctz32 v).toNat = CSem.ctzAux 32 v.toNat := by
    simp only [Gen.CFun.carquet_ctz32, beq_iff_eq, h, if_false, CSem.builtinCtz, CSem.ctzNat, hne, BitVec.toNat_ofNat]
    omega
  rw [e]; exact ⟨a, b, c⟩

theorem C11_cfun_ctz32_zero : Gen.CFun.carquet_ctz32 0#32 = 32#32 := rfl

theorem C11_cfun_ctz32_defined (v : BitVec 32) : Gen.CFun.carquet_ctz32_defined v = true := by
  unfold Gen.CFun.carquet_ctz32_defined
  by_cases h0 : v = 0#32 <;> simp [h0, CSem.builtinNonZero]

example : (Gen.CFun.carquet_ctz32 40#32).toNat = 3 ∧ (40#32 : BitVec 32) ≠ 0#32 := by decide

/-- `carquet_popcount32(v)` / `carquet_popcount64(v)` is the number of set bits of `v` -/
theorem C11_cfun_popcount32 (v : BitVec 32) :
    (Gen.CFun.carquet_popcount32 v).toNat = Proofs.CFun.bitCount 32 v.toNat := by
  have hle : Proofs.CFun.bitCount 32 v.toNat ≤ 32 := by
    unfold Proofs.CFun.bitCount
    exact Nat.le_trans (List.length_filter_le _ _) (by simp)
  simp only [Gen.CFun.carquet_popcount32, CSem.builtinPopcount, CSem.popNat, Proofs.CFun.popAux_eq, BitVec.toNat_ofNat]
  omega

theorem C11_cfun_popcount64 (v : BitVec 64) :
    (Gen.CFun.carquet_popcount64 v).toNat = Proofs.CFun.bitCount 64 v.toNat := by
  have hle : Proofs.CFun.bitCount 64 v.toNat ≤ 64 := by
    unfold Proofs.CFun.bitCount
    exact Nat.le_trans (List.length_filter_le _ _) (by simp)
  simp only [Gen.CFun.carquet_popcount64, CSem.builtinPopcount, CSem.popNat, Proofs.CFun.popAux_eq, BitVec.toNat_ofNat]
  omega

theorem C11_cfun_popcount32_defined (v : BitVec 32) : Gen.CFun.carquet_popcount32_defined v = true := rfl
theorem C11_cfun_popcount64_defined (v : BitVec 64) : Gen.CFun.carquet_popcount64_defined v = true := rfl

example : (Gen.CFun.carquet_popcount32 0xF0F0#32).toNat = 8 ∧ Proofs.CFun.bitCount 32 0xF0F0 = 8 ∧
    (Gen.CFun.carquet_popcount64 (BitVec.allOnes 64)).toNat = 64 := by decide

end Carquet.Properties.C11
