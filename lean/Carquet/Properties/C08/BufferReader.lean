import Carquet.Impl.BufferReader
import Carquet.Proofs.BufferReader
/-
C08 — the buffer read cursor of src/core/buffer.h / buffer.c (`carquet_buffer_reader_*`: the primitive
every Thrift read goes through), for EVERY history of calls with arbitrary `size_t` arguments on an
arbitrary buffer.  The model reports each access `(offset, length)` it makes to `data[0 .. size)`.
-/
namespace Carquet.Properties.C08
open Carquet Carquet.Impl.BufferReader

/-- **Reads stay inside `[0, size)`, for every call sequence** (repaired `has`, F83): whatever calls are
made with whatever arguments, the cursor never moves backwards, `pos ≤ size` holds after every history,
and every access lies inside the buffer — in fact between the position at the start and `size`. -/
theorem C08_bufreader_reads_in_input (data : List UInt8) (hsz : data.length < 2 ^ 64) (ops : List Op) :
    (run true (init data) ops).2.2.pos ≤ data.length ∧
    (run true (init data) ops).2.2.data = data ∧
    ∀ a ∈ (run true (init data) ops).2.1, a.off + a.len ≤ data.length := by
  obtain ⟨h1, _, h3, h4⟩ := Proofs.BufferReader.run_ok ops (init data) (Nat.zero_le _) hsz
  exact ⟨h3, h1, fun a ha => (h4 a ha).2⟩

example : (run true (init [1, 2, 3, 4, 5]) [.skip 1, .readU16, .read 3, .read 2, .readByte]) =
    ([.st .ok, .val .ok 0x0302, .bytes .truncated [], .bytes .ok [4, 5], .val .truncated 0],
     [⟨1, 2⟩, ⟨3, 2⟩], ⟨[1, 2, 3, 4, 5], 5⟩) := by decide

/-- **A failed call changes nothing**: when the status is not OK the cursor is where it was and no byte
was touched; when it is OK the cursor advanced by exactly the width, the single access is
`(old pos, width)` and the bytes delivered are `data[pos .. pos + width)` (repaired code, reachable states). -/
theorem C08_bufreader_failed_read_keeps_pos (r : Reader) (hp : r.pos ≤ r.data.length)
    (hsz : r.data.length < 2 ^ 64) (n : Nat) :
    (has true r n = false →
      step true r (.read n) = ⟨.bytes .truncated [], r, []⟩ ∧ step true r (.skip n) = ⟨.st .truncated, r, []⟩) ∧
    (has true r n = true →
      r.pos + n ≤ r.data.length ∧
      step true r (.read n) = ⟨.bytes .ok (bytesAt r.data r.pos n), { r with pos := r.pos + n }, [⟨r.pos, n⟩]⟩ ∧
      step true r (.skip n) = ⟨.st .ok, { r with pos := r.pos + n }, []⟩ ∧
      (bytesAt r.data r.pos n).length = n) ∧
    (∀ k, has true r k = false → readFixed true r k = ⟨.val .truncated 0, r, []⟩) := by
  refine ⟨fun h => ?_, fun h => ?_, fun k h => ?_⟩
  · simp only [step, h, if_true]
    exact ⟨trivial, trivial⟩
  · have hf : hasFixed r n = true := by simpa only [has, if_true] using h
    have hle := (Proofs.BufferReader.hasFixed_iff r n hp hsz).mp hf
    have ha := Proofs.BufferReader.addSz_of_le hle hsz
    refine ⟨hle, ?_, ?_, ?_⟩
    · simp only [step, h, Bool.true_eq_false, if_false, ha]
    · simp only [step, h, Bool.true_eq_false, if_false, ha]
    · simp only [bytesAt, List.length_take, List.length_drop]; omega
  · simp only [readFixed, h, if_true]

/-- `pos ≤ size` also survives every history on the PINNED code (the wrapped sum is both compared and
stored), which is why the wrap-around below stays invisible to a caller that only looks at `pos`. -/
theorem C08_bufreader_pos_le_size (fixed : Bool) (data : List UInt8) (hsz : data.length < 2 ^ 64) (ops : List Op) :
    (run fixed (init data) ops).2.2.pos ≤ data.length :=
  Proofs.BufferReader.run_inv_any fixed ops (init data) (Nat.zero_le _) hsz

/-- F83 on the pinned code (before fixes/F83-buffer-reader-has-wraparound.patch): `has` computes
`pos + n <= size` in `size_t`.  With `pos = 4`, `n = 2^64 − 2` the sum wraps to 2: `has` answers true,
`skip` "succeeds" and moves the cursor BACKWARDS to 2, and `read` of `2^64 − 2` bytes is let through
(the access reported reaches far beyond the 16-byte buffer: `memcpy` of 2^64−2 bytes).  No caller inside
the library passes such an `n` (all go through 31-bit lengths); replay `corpus/C08/F83-bufreader-wrap.ops`.
The repaired test `n <= size − pos` refuses all three. -/
theorem C08_regression_F83 :
    (run false (init (List.replicate 16 0)) [.skip 4, .has 18446744073709551614, .skip 18446744073709551614]).1 =
      [.st .ok, .bool true, .st .ok] ∧
    (run false (init (List.replicate 16 0)) [.skip 4, .skip 18446744073709551614]).2.2.pos = 2 ∧
    (run false (init (List.replicate 16 0)) [.skip 4, .read 18446744073709551614]).2.1 = [⟨4, 18446744073709551614⟩] ∧
    (run true (init (List.replicate 16 0)) [.skip 4, .has 18446744073709551614, .skip 18446744073709551614,
        .read 18446744073709551614]).1 = [.st .ok, .bool false, .st .truncated, .bytes .truncated []] ∧
    (run true (init (List.replicate 16 0)) [.skip 4, .skip 18446744073709551614, .read 18446744073709551614]).2 =
      ([], ⟨List.replicate 16 0, 4⟩) := by
  decide +kernel

end Carquet.Properties.C08
