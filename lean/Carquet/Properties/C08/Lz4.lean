import Carquet.Spec.Lz4
import Carquet.Impl.Lz4
import Carquet.Proofs.Lz4Decomp
import Carquet.Proofs.Lz4Fuel
/-
C08 (LZ4 part) — `carquet_lz4_decompress` is memory-safe on arbitrary bytes.
The Impl model is fail-stop (Impl/Lz4.lean): the token, length-chain and offset reads index the
source array, `memcpy(op, ip, lit_len)` reads `src[ip, ip+lit_len)`, the match copy — the 8-byte
`memcpy` loop for offsets ≥ 8 and the byte loop — reads only bytes written before and appends at
`op`; any of these outside `[0, |src|)` resp. `[0, cap)` is the result `oobRead` / `oobWrite`.
-/
namespace Carquet.Properties.C08
open Carquet
open Carquet.Impl.Lz4 (decompress)

/-- For every input and every declared capacity: no read outside the source, no read of
destination bytes not yet written, no write at or beyond `dst + cap` (including the 8-byte copy
loop, which never writes past `op + match_len`), and a reported length of at most `cap`. -/
theorem C08_lz4_decompress_in_bounds (bs : List UInt8) (cap : Nat) :
    decompress bs cap ≠ .error .oobRead ∧ decompress bs cap ≠ .error .oobWrite ∧
    ∀ out, decompress bs cap = .ok out → out.length ≤ cap := by
  rw [Proofs.Lz4Decomp.decompress_eq_spec]
  cases h : Spec.Lz4.decode bs cap with
  | error e => exact ⟨by simp, by simp, by simp⟩
  | ok o =>
    refine ⟨by simp, by simp, ?_⟩
    intro out ho
    simp only [Except.ok.injEq] at ho
    subst ho
    exact Proofs.Lz4Decomp.decode_le_cap bs cap o h

/-- an overlapping wide copy at the very end of an exact-size destination -/
example : decompress [0x8f, 1, 2, 3, 4, 5, 6, 7, 8, 0x08, 0x00, 0x05, 0x00] 32
    = .ok [1, 2, 3, 4, 5, 6, 7, 8, 1, 2, 3, 4, 5, 6, 7, 8, 1, 2, 3, 4, 5, 6, 7, 8, 1, 2, 3, 4, 5, 6, 7, 8] := by
  decide +kernel
example : decompress [0x8f, 1, 2, 3, 4, 5, 6, 7, 8, 0x08, 0x00, 0x05, 0x00] 31 = .error .invalidData := by
  decide +kernel

/-- The model terminates by construction (structural recursion on fuel); the fuel never decides
the result: the model equals the Spec decoder, which accepts exactly the grammar. -/
theorem C08_lz4_decompress_total (bs : List UInt8) (cap : Nat) :
    (∃ out, decompress bs cap = .ok out) ∨ decompress bs cap = .error .invalidData := by
  rw [Proofs.Lz4Decomp.decompress_eq_spec]
  cases Spec.Lz4.decode bs cap with
  | error e => exact Or.inr rfl
  | ok o => exact Or.inl ⟨o, rfl⟩

/-- Fuel bound of the decoder loops: started with `|bs| + 1` (every iteration consumes at least
its token), and any larger amount accepts exactly the same inputs with the same output. -/
theorem C08_lz4_decompress_fuel_adequate (bs : List UInt8) (cap : Nat) (o : Array UInt8) (k : Nat) :
    Spec.Lz4.loop (bs.length + 1 + k) bs #[] cap = .ok o ↔ Spec.Lz4.loop (bs.length + 1) bs #[] cap = .ok o :=
  Proofs.Lz4Fuel.decode_fuel_add bs cap o k

end Carquet.Properties.C08
