import Carquet.Impl.BitIO
import Carquet.Proofs.BitIO
import Carquet.Proofs.BitIOWriter
import Carquet.Proofs.BitIORoundtrip
/-
C08 — the bit stream reader and writer of src/core/bitpack.c (`carquet_bit_reader_*`, `carquet_bit_writer_*`)
for EVERY history of calls: the reader on arbitrary bytes, the writer with any declared capacity.  The
reader model reports the index of every `data[byte_pos++]`; the writer model keeps the bytes stored and the
declared capacity.  Repaired code (F81 writer, F82 reader).
-/
namespace Carquet.Properties.C08
open Carquet Carquet.Impl.BitIO Carquet.Proofs.BitIO

/-- **Bit reader: reads stay inside `[0, size)`, for every call sequence.**  On any input and any history of
`read_bit` / `read_bits n` / `read_bits64 n` / `has_more` / `remaining_bits` (any `n`): every index read is
below `size`; afterwards `byte_pos ≤ size`, `buffer_bits ≤ 64`, the accumulator holds exactly
`buffer_bits` bits; and what the caller sees is what the abstract bit string of the input prescribes
(`arun`: the next `min n 32|64` bits, least significant first, zero-extended at the end; `read_bit` = −1
exactly when nothing is left; `remaining_bits` = the number of undelivered bits). -/
theorem C08_bitreader_reads_in_input (data : List UInt8) (ops : List ROp) :
    (∀ i ∈ (rrun (Reader.init data) ops).2.1, i < data.length) ∧
    (rrun (Reader.init data) ops).2.2.bytePos ≤ data.length ∧
    (rrun (Reader.init data) ops).2.2.bufferBits ≤ 64 ∧
    (rrun (Reader.init data) ops).2.2.buffer < 2 ^ (rrun (Reader.init data) ops).2.2.bufferBits ∧
    (rrun (Reader.init data) ops).1 = arun (Impl.Bitpack.leNat data, 8 * data.length) ops := by
  obtain ⟨r1, r2, r3, r4⟩ := rrun_spec ops (Reader.init data) (RInv_init data)
  rw [stream_init, avail_init] at r1
  have hp := r2.pos
  rw [r3] at hp
  exact ⟨fun i hi => (r4 i hi).2, hp, r2.bits, r2.buf, r1⟩

example : rrun (Reader.init [0xB2, 0x01]) [.bit, .bits 4, .bits64 40, .remaining, .bit, .hasMore] =
    ([.bit 0, .val 9, .val 13, .rem 0, .bit (-1), .more false], [0, 1], ⟨[0xB2, 0x01], 2, 0, 0⟩) := by decide +kernel

/-- **Bit writer: no write beyond the capacity, for every call sequence** (flushes anywhere): the number of
bytes stored never exceeds the declared capacity, the capacity field is never changed, fewer than 56 bits
are pending between calls and the accumulator holds exactly that many bits (so no shift of the 64-bit
accumulator by 64 or more can occur).  When the capacity is exhausted complete bytes are dropped:
after `writes; flush` the bytes stored are exactly the first `cap` bytes of the full stream. -/
theorem C08_bitwriter_writes_le_capacity (cap : Nat) (ops : List WOp) :
    (wrun (Writer.init cap) ops).out.length ≤ cap ∧
    (wrun (Writer.init cap) ops).cap = cap ∧
    (wrun (Writer.init cap) ops).bufferBits ≤ 55 ∧
    (wrun (Writer.init cap) ops).buffer < 2 ^ (wrun (Writer.init cap) ops).bufferBits ∧
    (WOp.flush ∉ ops →
      (flush (wrun (Writer.init cap) ops)).out =
        (Impl.Bitpack.leBytes ((totalBits ops + 7) / 8) (concatFields (fieldsOf ops))).take cap) := by
  obtain ⟨h, hc⟩ := wrun_cap ops (Writer.init cap) (WInv_init cap)
  have hcap := h.cap
  rw [hc] at hcap
  refine ⟨hcap, hc, h.bits, h.buf, fun hn => ?_⟩
  exact (flush_wrun cap ops (noFlush_of_not_mem ops hn)).1

example : (wrun (Writer.init 2) [.bits 0xFFFFFFFF 32, .bits 0xFFFFFFFF 32, .bit 1, .flush, .bits 5 3, .flush]).out = [0xFF, 0xFF] ∧
    (wrun (Writer.init 2) [.bits 0xFFFFFFFF 32, .bits 0xFFFFFFFF 32, .bit 1, .flush, .bits 5 3, .flush]).bufferBits = 4 := by decide +kernel

/-- F81 on the pinned code (before fixes/F81-bit-writer-accumulator-overflow.patch), capacity side: `flush_buffer`
stopped at a full output and left the complete bytes in the accumulator; with a 1-byte buffer, 72 `write_bit`
calls pile up 64 pending bits and the 73rd `write_bit` shifts the 64-bit accumulator by 64 — undefined
behaviour (UBSan `shift exponent 64 is too large`, replay corpus/C08/F81-bit-writer.ops).  The repaired
writer keeps fewer than 56 bits. -/
theorem C08_regression_F81 :
    ((List.replicate 73 1).foldl (fun (acc : Except Fault Writer) b => acc.bind (fun w => writeBitPreFix w b))
        (.ok (Writer.init 1))) = .error (.shiftTooLarge 64) ∧
    (wrun (Writer.init 1) ((List.replicate 73 1).map WOp.bit)).bufferBits = 17 ∧
    (wrun (Writer.init 1) ((List.replicate 73 1).map WOp.bit)).out = [0xFF] :=
  ⟨by rfl, by decide +kernel, by decide +kernel⟩

/-- F82 on the pinned code (before fixes/F82-bit-reader-overread-count.patch): `read_bits(32)` on a 1-byte
input subtracted 32 from the 8 buffered bits: `buffer_bits = −24`, and `remaining_bits()` then reports
`(size_t)−24` = 2^64 − 24 bits for an exhausted 1-byte input (replay corpus/C08/F82-bit-reader.ops).  The
repaired reader takes the 8 bits that are left. -/
theorem C08_regression_F82 :
    readBitsPreFix (Reader.init [0xFF]) 32 = (255, -24, 18446744073709551592) ∧
    rrun (Reader.init [0xFF]) [.bits 32, .remaining, .hasMore] =
      ([.val 255, .rem 0, .more false], [0], ⟨[0xFF], 1, 0, 0⟩) := by
  decide +kernel

end Carquet.Properties.C08
