import Carquet.Impl.BitpackAcc
import Carquet.Proofs.BitpackAcc
import Carquet.Proofs.RleAcc
/-
C08 — raw bit unpacking (src/core/bitpack.c: `carquet_bitunpack8_32` with its eight specialised unpackers,
`carquet_bitunpack_32` with the padded final group).  `Impl.Bitpack` reads its input through total lookups;
the read footprint is stated in two forms: *intensionally* — the indices / accesses the C code touches, as
data (`unpack8Idx`, `unpackAccs`) — and *extensionally* — the result does not depend on any byte outside
the footprint (the decoder cannot even notice what lies behind it).
-/
namespace Carquet.Properties.C08
open Carquet Carquet.Impl.Bitpack

/-- **`carquet_bitunpack8_32(input, w, values)`**: every index of `input` it reads is below `w` (any declared
width), it stores exactly 8 values (any width), and for `w ≤ 32` (the documented domain) the values are a
function of `input[0 .. w)` alone. -/
theorem C08_bitunpack8_reads_in_input (w : Nat) (inp : List UInt8) :
    (∀ i ∈ unpack8Idx w inp, i < w) ∧
    (unpack8 w inp).length = 8 ∧
    (w ≤ 32 → unpack8 w inp = unpack8 w (inp.take w)) :=
  ⟨Proofs.BitpackAcc.unpack8Idx_lt w inp, Proofs.RleAcc.unpack8_length_any w inp,
   fun hw => Proofs.BitpackAcc.unpack8_take hw inp⟩

example : unpack8Idx 17 [] = [0, 1, 2, 2, 3, 4, 4, 5, 6, 6, 7, 8, 8, 9, 10, 10, 11, 12, 12, 13, 14, 14, 15, 16] := by decide

/-- **`carquet_bitunpack_32(input, count, w, values)`** for `w ≤ 32`: the accesses to `input` (one group of
`w` bytes per 8 values, then a `memcpy` of `packed_size(count mod 8, w)` bytes) all lie inside
`[0, packed_size(count, w))`; their lengths add up to `packed_size(count, w)`, which is the
`bytes_consumed` the function reports; exactly `count` values are stored; values and `bytes_consumed` are a
function of the first `packed_size(count, w)` bytes alone; the tail copy fits the local 32-byte buffer and
the unpacker reads at most 32 bytes of it. -/
theorem C08_bitunpack_reads_in_input (w : Nat) (hw : w ≤ 32) (inp : List UInt8) (count : Nat) :
    (∀ a ∈ unpackAccs w count, a.off + a.len ≤ packedSize count w) ∧
    ((unpackAccs w count).map (·.len)).sum = (unpack w inp count).2 ∧
    (unpack w inp count).2 = (if w = 0 then 0 else packedSize count w) ∧
    (unpack w inp count).1.length = count ∧
    unpack w inp count = unpack w (inp.take (packedSize count w)) count ∧
    packedSize (count % 8) w ≤ 32 := by
  have ha := Proofs.BitpackAcc.unpackAccs_in w count
  have hc : (unpack w inp count).2 = (if w = 0 then 0 else packedSize count w) := by
    by_cases h0 : w = 0
    · subst h0; simp [unpack]
    · rw [if_neg h0]; exact Proofs.BitpackTails.unpack_consumed h0 inp count
  have hl : (unpack w inp count).1.length = count := by
    by_cases h0 : w = 0
    · subst h0; simp [unpack]
    · rw [Proofs.BitpackTails.unpack_values hw h0]; simp
  refine ⟨ha.1, by rw [ha.2, hc], hc, hl, Proofs.BitpackAcc.unpack_take hw inp count, ?_⟩
  have := Proofs.BitpackTails.packedSize_le (count % 8) w (Nat.mod_lt _ (by decide))
  omega

example : unpackAccs 9 19 = [⟨0, 9⟩, ⟨9, 9⟩, ⟨18, 4⟩] ∧ packedSize 19 9 = 22 ∧
    unpack 9 (List.replicate 22 0xFF) 19 = (List.replicate 19 511, 22) := by decide +kernel

/-- F32 on the pinned code (before `11608da`): the final partial group was unpacked in place, reading a whole
group of `w` bytes where only `packed_size(rem, w)` belong to the input — 32 bytes read from a 4-byte buffer
for one value of width 32 (replayed by the harness line `c8_bu w=32 n=1`, ASan heap-buffer-overflow then). -/
theorem C08_regression_F32 :
    touchedPreFix 32 1 = 32 ∧ packedSize 1 32 = 4 ∧ unpackAccs 32 1 = [⟨0, 4⟩] := by decide

end Carquet.Properties.C08
