import Carquet.Proofs.PlainFixed
import Carquet.Proofs.PlainBool
import Carquet.Proofs.PlainBytes
import Carquet.Proofs.Bss
import Carquet.Proofs.Dictionary
/-
C08 (PLAIN, BYTE_STREAM_SPLIT and dictionary-index parts) — the component decoders never read
outside the declared input, on arbitrary bytes and arbitrary declared counts.

The Impl decoders report an out-of-bounds read as the outcome `oob`; the theorems below say that
this outcome is impossible (so every read the C code makes is inside `[input, input + size)`),
that the reported consumed count is at most the input size, and that too-short inputs are
rejected.  `count * size < 2 ^ 64` (where it appears) says that the caller's output array of
`count` elements exists in the address space; the C code computes the product modulo 2^64.
-/
namespace Carquet.Properties.C08
open Carquet Carquet.Impl
open Carquet.Proofs.Plain Carquet.Proofs.Bss Carquet.Proofs.Dictionary

/-! ## PLAIN -/

/-- No PLAIN decoder reads outside its input, for any bytes and any declared count; a successful
decode reports at most `input.length` consumed bytes.  (INT96 is the only decoder whose element
loop is not covered by its wrapped size check: it needs `count * 12 < 2^64`.) -/
theorem C08_plain_reads_in_input (input : List UInt8) (count : Int) :
    (Plain.decodeBoolean input count ≠ .oob ∧
      ∀ v c, Plain.decodeBoolean input count = .ok v c → c ≤ input.length ∧ v.length = count.toNat) ∧
    (Plain.decodeInt32 input count ≠ .oob ∧
      ∀ v c, Plain.decodeInt32 input count = .ok v c → c ≤ input.length) ∧
    (Plain.decodeInt64 input count ≠ .oob ∧
      ∀ v c, Plain.decodeInt64 input count = .ok v c → c ≤ input.length) ∧
    (Plain.decodeFloat input count ≠ .oob ∧
      ∀ v c, Plain.decodeFloat input count = .ok v c → c ≤ input.length) ∧
    (Plain.decodeDouble input count ≠ .oob ∧
      ∀ v c, Plain.decodeDouble input count = .ok v c → c ≤ input.length) ∧
    (count * 12 < 2 ^ 64 → Plain.decodeInt96 input count ≠ .oob ∧
      ∀ v c, Plain.decodeInt96 input count = .ok v c → c ≤ input.length ∧ v.length = count.toNat) ∧
    (Plain.decodeByteArray input count ≠ .oob ∧
      ∀ v c, Plain.decodeByteArray input count = .ok v c → c ≤ input.length) ∧
    (∀ fixedLen, Plain.decodeFlba input count fixedLen ≠ .oob ∧
      ∀ v c, Plain.decodeFlba input count fixedLen = .ok v c → c ≤ input.length) := by
  refine ⟨?_, ?_, ?_, ?_, ?_, ?_, ?_, ?_⟩
  · -- boolean
    unfold Plain.decodeBoolean
    by_cases h0 : count < 0
    · simp [h0]
    · rw [if_neg h0]
      by_cases h1 : input.length < (count.toNat + 7) / 8
      · simp [h1]
      · rw [if_neg h1, boolLoop_eq input count.toNat (by omega)]
        refine ⟨by simp, ?_⟩
        intro v c e
        simp only [Plain.Res.ok.injEq] at e
        obtain ⟨rfl, rfl⟩ := e
        refine ⟨by omega, ?_⟩
        have hb : (input.flatMap Spec.Plain.byteBits).length = input.length * 8 := by
          clear h1
          induction input with
          | nil => rfl
          | cons b bs ih => simp [List.flatMap_cons, byteBits_length, ih]; omega
        simp only [List.length_map, List.length_take, hb]
        omega
  all_goals first
    | (refine ⟨?_, ?_⟩
       · simp only [Plain.decodeInt32, Plain.decodeInt64, Plain.decodeFloat, Plain.decodeDouble]
         split <;> (try split) <;> simp
       · intro v c e
         simp only [Plain.decodeInt32, Plain.decodeInt64, Plain.decodeFloat, Plain.decodeDouble] at e
         split at e
         · cases e
         · split at e
           · cases e
           · simp only [Plain.Res.ok.injEq] at e; omega)
    | skip
  · -- int96
    intro hsz
    unfold Plain.decodeInt96
    by_cases h0 : count < 0
    · simp [h0]
    · rw [if_neg h0]
      have hs : Plain.sizeMul count.toNat 12 = count.toNat * 12 := sizeMul_of_lt (by omega)
      rw [hs]
      by_cases h1 : input.length < count.toNat * 12
      · simp [h1]
      · rw [if_neg h1]
        obtain ⟨vs, hv, hl⟩ := loop96_some_of_le count.toNat input (by omega)
        rw [hv]
        refine ⟨by simp, ?_⟩
        intro v c e
        simp only [Plain.Res.ok.injEq] at e
        obtain ⟨rfl, rfl⟩ := e
        exact ⟨by omega, hl⟩
  · -- byte array
    unfold Plain.decodeByteArray
    by_cases h0 : count < 0
    · simp [h0]
    · rw [if_neg h0]
      obtain ⟨r, hr, hp⟩ := baLoop_safe input count.toNat 0 (Nat.zero_le _)
      rw [hr]
      match r, hp with
      | none, _ => simp
      | some (sl, p), hp =>
        refine ⟨by simp, ?_⟩
        intro v c e
        simp only [Plain.Res.ok.injEq] at e
        obtain ⟨rfl, rfl⟩ := e
        exact (hp sl p rfl).1
  · -- flba
    intro fixedLen
    unfold Plain.decodeFlba
    refine ⟨by split <;> (try split) <;> simp, ?_⟩
    intro v c e
    split at e
    · cases e
    · split at e
      · cases e
      · simp only [Plain.Res.ok.injEq] at e; omega

example : Plain.decodeInt32 [1, 2, 3] 1 = .err ∧ Plain.decodeBoolean [0xFF] 9 = .err ∧
    Plain.decodeInt96 [1, 2, 3, 4, 5, 6, 7, 8, 9, 10, 11] 1 = .err := by decide

/-- The hypothesis on INT96 is needed: with `count = 2^62` the wrapped size is 0, the check
passes on an empty input and the element loop reads past it.  (Not reachable with an output
array that exists; recorded as an observation, see NOTES_plain.md.) -/
theorem C08_plain_int96_wrap_witness : Plain.decodeInt96 [] (2 ^ 62) = .oob := by decide

/-- Inputs shorter than `count` values are rejected (fixed-width types; booleans: fewer than
`ceil(count/8)` bytes). -/
theorem C08_plain_rejects_short_input (input : List UInt8) (count : Nat) :
    (input.length < (count + 7) / 8 → Plain.decodeBoolean input count = .err) ∧
    (count * 4 < 2 ^ 64 → input.length < count * 4 →
      Plain.decodeInt32 input count = .err ∧ Plain.decodeFloat input count = .err) ∧
    (count * 8 < 2 ^ 64 → input.length < count * 8 →
      Plain.decodeInt64 input count = .err ∧ Plain.decodeDouble input count = .err) ∧
    (count * 12 < 2 ^ 64 → input.length < count * 12 → Plain.decodeInt96 input count = .err) ∧
    (∀ k : Nat, 0 < k → count * k < 2 ^ 64 → input.length < count * k →
      Plain.decodeFlba input count k = .err) := by
  refine ⟨?_, ?_, ?_, ?_, ?_⟩
  · intro h
    simp only [Plain.decodeBoolean, Int.toNat_natCast]
    rw [if_neg (by omega), if_pos h]
  · intro hs h
    simp only [Plain.decodeInt32, Plain.decodeFloat, Int.toNat_natCast, sizeMul_of_lt hs]
    rw [if_neg (by omega), if_pos h]; exact ⟨rfl, rfl⟩
  · intro hs h
    simp only [Plain.decodeInt64, Plain.decodeDouble, Int.toNat_natCast, sizeMul_of_lt hs]
    rw [if_neg (by omega), if_pos h]; exact ⟨rfl, rfl⟩
  · intro hs h
    simp only [Plain.decodeInt96, Int.toNat_natCast, sizeMul_of_lt hs]
    rw [if_neg (by omega), if_pos h]
  · intro k hk hs h
    simp only [Plain.decodeFlba, Int.toNat_natCast, sizeMul_of_lt hs]
    rw [if_neg (by omega), if_pos h]

/-- A negative count is rejected by every PLAIN decoder. -/
theorem C08_plain_rejects_negative_count (input : List UInt8) (count : Int) (h : count < 0) :
    Plain.decodeBoolean input count = .err ∧ Plain.decodeInt32 input count = .err ∧
    Plain.decodeInt64 input count = .err ∧ Plain.decodeInt96 input count = .err ∧
    Plain.decodeFloat input count = .err ∧ Plain.decodeDouble input count = .err ∧
    Plain.decodeByteArray input count = .err ∧ ∀ k, Plain.decodeFlba input count k = .err := by
  simp [Plain.decodeBoolean, Plain.decodeInt32, Plain.decodeInt64, Plain.decodeInt96, Plain.decodeFloat,
    Plain.decodeDouble, Plain.decodeByteArray, Plain.decodeFlba, h]

/-- BYTE_ARRAY decoding returns pointers into the input: every returned slice `(offset, length)`
lies inside the input, there are exactly `count` of them, and the consumed count is in range. -/
theorem C08_plain_byte_array_slices_in_input (input : List UInt8) (count : Int)
    (slices : List (Nat × Nat)) (consumed : Nat)
    (h : Plain.decodeByteArray input count = .ok slices consumed) :
    consumed ≤ input.length ∧ slices.length = count.toNat ∧
    ∀ s ∈ slices, s.1 + s.2 ≤ input.length := by
  unfold Plain.decodeByteArray at h
  by_cases h0 : count < 0
  · simp [h0] at h
  · rw [if_neg h0] at h
    obtain ⟨r, hr, hp⟩ := baLoop_safe input count.toNat 0 (Nat.zero_le _)
    rw [hr] at h
    match r, hr, hp, h with
    | some (sl, p), hr, hp, h =>
      simp only [Plain.Res.ok.injEq] at h
      obtain ⟨rfl, rfl⟩ := h
      exact ⟨(hp sl p rfl).1, baLoop_length input _ _ sl p hr, (hp sl p rfl).2.2⟩

example : Plain.decodeByteArray [2, 0, 0, 0, 0x61, 0x62, 0, 0, 0, 0] 2 = .ok [(4, 2), (10, 0)] 10 := by decide

/-- A length prefix that is negative as `int32_t`, or that runs past the end of the input, or a
truncated prefix, makes the decoder return an error (first record; by `baLoop`'s recursion the same
test guards every record). -/
theorem C08_plain_byte_array_rejects_bad_length (input : List UInt8) (count : Nat) (hc : 0 < count) :
    (input.length < 4 → Plain.decodeByteArray input count = .err) ∧
    (∀ b0 b1 b2 b3 rest, input = b0 :: b1 :: b2 :: b3 :: rest →
      (Plain.toInt32 (Plain.loadU32 b0 b1 b2 b3) < 0 ∨
        (Plain.loadU32 b0 b1 b2 b3).toNat > rest.length) →
      Plain.decodeByteArray input count = .err) := by
  obtain ⟨n, rfl⟩ : ∃ n, count = n + 1 := ⟨count - 1, by omega⟩
  refine ⟨?_, ?_⟩
  · intro h
    simp only [Plain.decodeByteArray, Int.toNat_natCast]
    rw [if_neg (by omega), Plain.baLoop, if_pos (by omega)]
  · intro b0 b1 b2 b3 rest hin hbad
    subst hin
    simp only [Plain.decodeByteArray, Int.toNat_natCast]
    rw [if_neg (by omega), Plain.baLoop, if_neg (by simp)]
    simp only [List.drop_zero, Plain.readU32]
    rw [if_pos (by
      rcases hbad with h | h
      · exact Or.inl h
      · right; simp only [List.length_cons]; omega)]

example : Plain.decodeByteArray [0xFF, 0xFF, 0xFF, 0xFF, 1, 2, 3] 1 = .err ∧
    Plain.decodeByteArray [4, 0, 0, 0, 1, 2, 3] 1 = .err ∧
    Plain.decodeByteArray [3, 0, 0] 1 = .err := by decide

/-! ## BYTE_STREAM_SPLIT -/

/-- The three decoders never read outside `data`, for any bytes; a negative count reads nothing. -/
theorem C08_bss_reads_in_input (data : List UInt8) (count : Int) (k : Nat) (hk : 0 < k)
    (hsz : count < 0 ∨ count * k < 2 ^ 64) :
    Bss.decode data k count ≠ .oob ∧
    (k = 4 → Bss.decodeFloat data count ≠ .oob) ∧ (k = 8 → Bss.decodeDouble data count ≠ .oob) := by
  have key : ∀ r : Nat, r = Bss.requiredSize count k → ¬ data.length < r →
      ∃ out, Bss.gather k data count.toNat = some out := by
    intro r hr hlen
    rcases hsz with hneg | hpos
    · have : count.toNat = 0 := by omega
      rw [this]; exact ⟨[], gather_zero k data⟩
    · by_cases hneg : count < 0
      · have : count.toNat = 0 := by omega
        rw [this]; exact ⟨[], gather_zero k data⟩
      · obtain ⟨n, rfl⟩ : ∃ n : Nat, count = n := ⟨count.toNat, by omega⟩
        have hnk : n * k < 2 ^ 64 := by exact_mod_cast hpos
        have hreq : Bss.requiredSize (n : Int) k = n * k := by
          have hn : n < 2 ^ 64 := Nat.lt_of_le_of_lt (Nat.le_mul_of_pos_right n hk) hnk
          have : Bss.sizeT (n : Int) = n := by unfold Bss.sizeT; omega
          rw [Bss.requiredSize, this, Nat.mod_eq_of_lt hnk]
        rw [Int.toNat_natCast]
        exact gather_isSome k n data (by rw [hr, hreq] at hlen; rw [Nat.mul_comm]; omega)
  refine ⟨?_, ?_, ?_⟩
  · unfold Bss.decode
    rw [if_neg (by omega), Int.toNat_natCast]
    by_cases hl : data.length < Bss.requiredSize count k
    · simp [hl]
    · obtain ⟨out, ho⟩ := key _ rfl hl
      rw [if_neg hl, ho]; simp
  · intro h4; subst h4
    unfold Bss.decodeFloat
    by_cases hl : data.length < Bss.requiredSize count 4
    · simp [hl]
    · obtain ⟨out, ho⟩ := key _ rfl hl
      rw [if_neg hl, ho]; simp
  · intro h8; subst h8
    unfold Bss.decodeDouble
    by_cases hl : data.length < Bss.requiredSize count 8
    · simp [hl]
    · obtain ⟨out, ho⟩ := key _ rfl hl
      rw [if_neg hl, ho]; simp

theorem C08_bss_rejects_short_input (data : List UInt8) (n k : Nat) (hk : 0 < k)
    (hsz : n * k < 2 ^ 64) (h : data.length < n * k) :
    Bss.decode data k n = .error .decode := by
  have hn : n < 2 ^ 64 := Nat.lt_of_le_of_lt (Nat.le_mul_of_pos_right n hk) hsz
  have hs : Bss.sizeT (n : Int) = n := by unfold Bss.sizeT; omega
  simp only [Bss.decode, Int.toNat_natCast, Bss.requiredSize, hs, Nat.mod_eq_of_lt hsz]
  rw [if_neg (by omega), if_pos h]

example : Bss.decode [1, 2, 3, 4, 5] 2 3 = .error .decode ∧ Bss.decode [1, 2, 3, 4, 5, 6] 2 3 ≠ .oob := by
  decide

/-! ## Dictionary index decoders (defect F7) -/

/-- **F7, pinned code.**  The standalone decoders compare `(int32_t)indices[i] >= dict_count`, so
an index ≥ 2^31 passes: with a one-entry INT32 dictionary and an index stream that decodes to
`[0xFFFFFFFF]` (width 32) the C code reads `dict_data + 0xFFFFFFFF * 4`.  Replayed on the real code
by harness op `dict_dec` (SEGV under ASan). -/
theorem C08_regression_F7 :
    Dictionary.decodeFixedPreFix 4 (fun _ _ _ => some [4294967295]) [1, 2, 3, 4] 1
      [32, 2, 255, 255, 255, 255] 1 = .oob 17179869180 ∧
    Dictionary.decodeFixedPreFix 8 (fun _ _ _ => some [2147483648]) [1, 2, 3, 4, 5, 6, 7, 8] 1
      [32, 2, 0, 0, 0, 128] 1 = .oob 17179869184 ∧
    Dictionary.decodeFixed 4 (fun _ _ _ => some [4294967295]) [1, 2, 3, 4] 1
      [32, 2, 255, 255, 255, 255] 1 = .error := by
  decide

/-- **After fix F7** (index compared as unsigned): for every element size, every index decoder,
every dictionary, every declared `dict_count`, every index stream and every output count, the
look-up never reads outside the dictionary. -/
theorem C08_dict_index_in_range (sz : Nat) (idxDec : Nat → List UInt8 → Nat → Option (List Nat))
    (dict : List UInt8) (dictCount : Int) (indices : List UInt8) (outCount : Int) (off : Nat) :
    Dictionary.decodeFixed sz idxDec dict dictCount indices outCount ≠ .oob off ∧
    Dictionary.decode32 idxDec dict dictCount indices outCount ≠ .oob off ∧
    Dictionary.decode64 idxDec dict dictCount indices outCount ≠ .oob off := by
  have main : ∀ sz, Dictionary.decodeFixed sz idxDec dict dictCount indices outCount ≠ .oob off := by
    intro sz
    unfold Dictionary.decodeFixed Dictionary.decodeWith
    split
    · simp
    · split
      · simp
      · split
        · simp
        · rename_i hlen
          split
          · simp
          · split
            · simp
            · split
              · simp
              · exact lookupLoop_no_oob sz dict dictCount (by omega) _ off
  refine ⟨main sz, ?_, ?_⟩
  · unfold Dictionary.decode32
    have := main 4
    cases h : Dictionary.decodeFixed 4 idxDec dict dictCount indices outCount with
    | ok v => simp [Dictionary.Res.map]
    | error => simp [Dictionary.Res.map]
    | oob o => rw [h] at this; simp only [ne_eq, Dictionary.Res.oob.injEq] at this; simp [Dictionary.Res.map, this]
  · unfold Dictionary.decode64
    have := main 8
    cases h : Dictionary.decodeFixed 8 idxDec dict dictCount indices outCount with
    | ok v => simp [Dictionary.Res.map]
    | error => simp [Dictionary.Res.map]
    | oob o => rw [h] at this; simp only [ne_eq, Dictionary.Res.oob.injEq] at this; simp [Dictionary.Res.map, this]

/-- Every index the repaired decoder accepts is below `dict_count`; conversely an index
`≥ dict_count` (as an unsigned number) makes it return an error. -/
theorem C08_dict_rejects_out_of_range (sz : Nat) (dict : List UInt8) (dictCount : Int)
    (idxs : List Nat) (i : Nat) (hi : i ∈ idxs) (hbad : (i : Int) ≥ dictCount)
    (hd : dictCount.toNat * sz ≤ dict.length) :
    Dictionary.lookupLoop sz dict dictCount idxs = .error := by
  induction idxs with
  | nil => simp at hi
  | cons j js ih =>
    rw [Dictionary.lookupLoop]
    by_cases hj : (j : Int) ≥ dictCount
    · rw [if_pos hj]
    · rw [if_neg hj]
      have hmem : i ∈ js := by
        rcases List.mem_cons.mp hi with e | e
        · subst e; exact absurd hbad hj
        · exact e
      have hlt : j + 1 ≤ dictCount.toNat := by omega
      have : j * sz + sz ≤ dict.length := by
        calc j * sz + sz = (j + 1) * sz := by rw [Nat.succ_mul]
          _ ≤ dictCount.toNat * sz := Nat.mul_le_mul_right sz hlt
          _ ≤ dict.length := hd
      simp only [Dictionary.readAt, if_pos this, ih hmem]

example : Dictionary.decode32 (fun _ _ _ => some [1, 0, 2]) [1, 0, 0, 0, 2, 0, 0, 0] 2 [2, 0] 3 = .error ∧
    Dictionary.decode32 (fun _ _ _ => some [1, 0, 1]) [1, 0, 0, 0, 2, 0, 0, 0] 2 [2, 0] 3 = .ok [2, 1, 2] := by
  decide

end Carquet.Properties.C08
