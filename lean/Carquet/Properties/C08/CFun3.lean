import Carquet.Proofs.CFun3.BitReader
import Carquet.Proofs.CFun3.BitWriter
import Carquet.Proofs.CFun3.BufReader
import Carquet.Proofs.CFun3.Bitunpack32
import Carquet.Proofs.CFun3.RleDec
/-
C08 — stage 3 of the C -> Lean function translator (translate/gen_cfun.py, notes/NOTES_cfun3.md): link theorems between the
definitions REGENERATED FROM THE C SOURCE on every check run (Gen/CFun.lean: functions that read and write a struct through
a pointer) and the hand-written Impl models the property theorems of C08 are about.  Only `C08_cfun_<function>` (value
side) and `C08_cfun_<function>_defined` (no undefined behaviour under the documented precondition), each followed by a
non-vacuity example.  The abstraction functions / invariants are executable (Impl/CFun3/*.lean) and are evaluated by the
driver on every self-check line (`modelLink3`).
-/

/-! ## BitReader -/
section CFun3BitReader
/-
C08 — stage-3 link theorems, safety half: the bit reader of src/core/bitpack.c as translated from the CURRENT C source
(Gen/CFun.lean).  `f_defined … = true` says that the C execution reaches no undefined behaviour this layer knows about.
Here, for a live reader (`rdInv`: `data` field = start of the buffer, `size` = its length, `byte_pos ≤ size`,
`0 ≤ buffer_bits ≤ 64`, `buffer < 2^buffer_bits`) and EVERY content of the input buffer: every `data[byte_pos]` the code
evaluates lies inside `data[0 .. size)`, every shift of the 64-bit accumulator is by `0..63`, no `int` addition or
subtraction overflows, and the refill loop ends within its 9 condition tests.  The value halves (and the preservation
of `rdInv`, which makes these statements chain over any history of calls) are in Properties/C11/CFun3BitReader.lean.
-/
namespace Carquet.Properties.C08
open Carquet Carquet.Impl Carquet.Impl.CFun3 Carquet.Proofs.CFun3.BitReader

theorem C08_cfun_refill_buffer_defined (s : Gen.CFun.carquet_bit_reader_t) (data : List UInt8)
    (h : rdInv s data = true) : Gen.CFun.refill_buffer_defined s data = true := refill_buffer_defined s data h

-- a reader at the last byte; a reader whose `size` promises more bytes than the buffer has reads `data[2]`
example : rdInv ⟨0, 3#64, 2#64, 0#32, 0#64, 0#32⟩ [0xB3, 0xFF, 0x01] = true ∧
    Gen.CFun.refill_buffer_defined ⟨0, 3#64, 2#64, 0#32, 0#64, 0#32⟩ [0xB3, 0xFF, 0x01] = true ∧
    Gen.CFun.refill_buffer ⟨0, 3#64, 2#64, 0#32, 0#64, 0#32⟩ [0xB3, 0xFF, 0x01] = ⟨0, 3#64, 3#64, 0#32, 0x1#64, 8#32⟩ ∧
    rdInv ⟨0, 4#64, 0#64, 0#32, 0#64, 0#32⟩ [0xB3, 0xFF] = false ∧
    Gen.CFun.refill_buffer_defined ⟨0, 4#64, 0#64, 0#32, 0#64, 0#32⟩ [0xB3, 0xFF] = false := by decide +kernel

theorem C08_cfun_bit_reader_read_bit_defined (s : Gen.CFun.carquet_bit_reader_t) (data : List UInt8)
    (h : rdInv s data = true) : Gen.CFun.carquet_bit_reader_read_bit_defined s data = true :=
  (read_bit_eq s data h).2.2.2.2

example : Gen.CFun.carquet_bit_reader_read_bit_defined ⟨0, 3#64, 2#64, 0#32, 0#64, 0#32⟩ [0xB3, 0xFF, 0x01] = true ∧
    -- exhausted input: no read at all
    Gen.CFun.carquet_bit_reader_read_bit_defined ⟨0, 3#64, 3#64, 0#32, 0#64, 0#32⟩ [0xB3, 0xFF, 0x01] = true ∧
    -- `byte_pos < size` but the buffer is shorter than `size`
    Gen.CFun.carquet_bit_reader_read_bit_defined ⟨0, 3#64, 2#64, 0#32, 0#64, 0#32⟩ [0xB3, 0xFF] = false ∧
    -- `buffer_bits = INT_MIN`: `buffer_bits--` overflows
    Gen.CFun.carquet_bit_reader_read_bit_defined ⟨0, 2#64, 2#64, 0#32, 0#64, 0x80000000#32⟩ [0xB3, 0xFF] = false := by
  decide +kernel

theorem C08_cfun_bit_reader_read_bits_defined (s : Gen.CFun.carquet_bit_reader_t) (data : List UInt8)
    (num_bits : BitVec 32) (h : rdInv s data = true) (hn : 0 ≤ num_bits.toInt) :
    Gen.CFun.carquet_bit_reader_read_bits_defined s data num_bits = true := (read_bits_eq s data num_bits h hn).2.2.2.2

example : Gen.CFun.carquet_bit_reader_read_bits_defined ⟨0, 3#64, 2#64, 0#32, 0x2#64, 3#32⟩ [0xB3, 0xFF, 0x01] 32#32 = true ∧
    Gen.CFun.carquet_bit_reader_read_bits_defined ⟨0, 3#64, 2#64, 0#32, 0x2#64, 3#32⟩ [0xB3, 0xFF, 0x01] 0x7FFFFFFF#32 = true ∧
    Gen.CFun.carquet_bit_reader_read_bits_defined ⟨0, 3#64, 2#64, 0#32, 0x2#64, 3#32⟩ [0xB3, 0xFF] 32#32 = false ∧
    -- a negative count is outside the API: `1ULL << num_bits`
    Gen.CFun.carquet_bit_reader_read_bits_defined ⟨0, 3#64, 2#64, 0#32, 0x2#64, 3#32⟩ [0xB3, 0xFF, 0x01] 0xFFFFFFFF#32 = false := by
  decide +kernel

theorem C08_cfun_bit_reader_read_bits64_defined (s : Gen.CFun.carquet_bit_reader_t) (data : List UInt8)
    (num_bits : BitVec 32) (h : rdInv s data = true) (hn : 0 ≤ num_bits.toInt) :
    Gen.CFun.carquet_bit_reader_read_bits64_defined s data num_bits = true :=
  (read_bits64_eq s data num_bits h hn).2.2.2.2

example : Gen.CFun.carquet_bit_reader_read_bits64_defined ⟨0, 9#64, 1#64, 0#32, 0x1#64, 1#32⟩
        [0x01, 0x23, 0x45, 0x67, 0x89, 0xAB, 0xCD, 0xEF, 0x5A] 64#32 = true ∧
    Gen.CFun.carquet_bit_reader_read_bits64_defined ⟨0, 9#64, 8#64, 0#32, 0x1#64, 1#32⟩
        [0x01, 0x23, 0x45, 0x67, 0x89, 0xAB, 0xCD, 0xEF, 0x5A] 1000#32 = true ∧
    -- the second part (`num_bits - 32` bits) refills from a buffer that is shorter than `size`
    Gen.CFun.carquet_bit_reader_read_bits64_defined ⟨0, 9#64, 1#64, 0#32, 0x1#64, 1#32⟩
        [0x01, 0x23, 0x45, 0x67, 0x89, 0xAB, 0xCD, 0xEF] 64#32 = false ∧
    Gen.CFun.carquet_bit_reader_read_bits64_defined ⟨0, 9#64, 1#64, 0#32, 0x1#64, 1#32⟩
        [0x01, 0x23, 0x45, 0x67, 0x89, 0xAB, 0xCD, 0xEF, 0x5A] 0xFFFFFFC0#32 = false := by
  decide +kernel

end Carquet.Properties.C08
end CFun3BitReader

/-! ## BitWriter -/
section CFun3BitWriter
/-
C08 — stage-3 link, the bit WRITER of src/core/bitpack.c as translated from the CURRENT C source (Gen/CFun.lean): the
safety reading of the `_defined` facts.  For a live writer (`Impl.CFun3.wrInv`: the caller's array has at least the
declared `capacity` bytes, `byte_pos ≤ capacity`, `0 ≤ buffer_bits ≤ 55`, `buffer < 2^buffer_bits`) and a non-negative
`num_bits`, no call reaches undefined behaviour: every store `data[byte_pos]` lies inside the `capacity` bytes of the
caller's array, the 64-bit accumulator is never shifted by 64 or more, `1U << num_bits` only for `num_bits < 32`, no `int`
overflow, the loop of `flush_buffer` ends within its 9 condition tests.  (Value side: Properties/C11/CFun3BitWriter.lean.)
-/
namespace Carquet.Properties.C08
open Carquet Carquet.Impl Carquet.Impl.CFun3 Carquet.Proofs.CFun3.BitWriter

/-- the static `flush_buffer` entered with at most 71 pending bits (the public functions enter it with at most 64) -/
theorem C08_cfun_flush_buffer_defined (s : Gen.CFun.carquet_bit_writer_t) (data : List UInt8)
    (h : wrFlushInv s data = true) : Gen.CFun.flush_buffer_defined s data = true :=
  defined_of_spec (flush_buffer_spec s data ((wrFlushInv_iff s data).mp h))

/-- 8 complete bytes, room for 1: one store, inside the array; the same state on an array shorter than the declared
capacity stores out of bounds -/
example : wrFlushInv ⟨0, 2#64, 1#64, 0#32, 0x0807060504030201#64, 64#32⟩ [0, 0] = true ∧
    Gen.CFun.flush_buffer_defined ⟨0, 2#64, 1#64, 0#32, 0x0807060504030201#64, 64#32⟩ [0, 0] = true ∧
    (Gen.CFun.flush_buffer ⟨0, 2#64, 1#64, 0#32, 0x0807060504030201#64, 64#32⟩ [0, 0]).2 = [0, 1] ∧
    wrFlushInv ⟨0, 2#64, 1#64, 0#32, 0x0807060504030201#64, 64#32⟩ [0] = false ∧
    Gen.CFun.flush_buffer_defined ⟨0, 2#64, 1#64, 0#32, 0x0807060504030201#64, 64#32⟩ [0] = false := by
  decide +kernel

theorem C08_cfun_bit_writer_write_bit_defined (s : Gen.CFun.carquet_bit_writer_t) (data : List UInt8) (bit : BitVec 32)
    (h : wrInv s data = true) : Gen.CFun.carquet_bit_writer_write_bit_defined s data bit = true :=
  defined_of_spec (write_bit_spec s data bit ((wrInv_iff s data).mp h))

/-- the F81 state (64 bits piled up in the accumulator) is not a live writer: `1 << 64` -/
example : wrInv ⟨0, 1#64, 1#64, 0#32, 0x7FFFFFFFFFFFFF#64, 55#32⟩ [0xFF] = true ∧
    Gen.CFun.carquet_bit_writer_write_bit_defined ⟨0, 1#64, 1#64, 0#32, 0x7FFFFFFFFFFFFF#64, 55#32⟩ [0xFF] 1#32 = true ∧
    Gen.CFun.carquet_bit_writer_write_bit ⟨0, 1#64, 1#64, 0#32, 0x7FFFFFFFFFFFFF#64, 55#32⟩ [0xFF] 1#32 =
      (⟨0, 1#64, 1#64, 0#32, 0#64, 0#32⟩, [0xFF]) ∧
    wrInv ⟨0, 1#64, 1#64, 0#32, 0xFFFFFFFFFFFFFFFF#64, 64#32⟩ [0xFF] = false ∧
    Gen.CFun.carquet_bit_writer_write_bit_defined ⟨0, 1#64, 1#64, 0#32, 0xFFFFFFFFFFFFFFFF#64, 64#32⟩ [0xFF] 1#32 = false := by
  decide +kernel

theorem C08_cfun_bit_writer_write_bits_defined (s : Gen.CFun.carquet_bit_writer_t) (data : List UInt8)
    (value num_bits : BitVec 32) (h : wrInv s data = true) (hn : 0 ≤ num_bits.toInt) :
    Gen.CFun.carquet_bit_writer_write_bits_defined s data value num_bits = true :=
  defined_of_spec (write_bits_spec s data value num_bits ((wrInv_iff s data).mp h) hn)

/-- 55 pending bits and 32 more on a full output: defined (the bytes are dropped); a negative count is not -/
example : wrInv ⟨0, 2#64, 2#64, 0#32, 0x7FFFFFFFFFFFFF#64, 55#32⟩ [1, 2, 3] = true ∧
    Gen.CFun.carquet_bit_writer_write_bits_defined ⟨0, 2#64, 2#64, 0#32, 0x7FFFFFFFFFFFFF#64, 55#32⟩ [1, 2, 3]
      0xFFFFFFFF#32 32#32 = true ∧
    Gen.CFun.carquet_bit_writer_write_bits ⟨0, 2#64, 2#64, 0#32, 0x7FFFFFFFFFFFFF#64, 55#32⟩ [1, 2, 3] 0xFFFFFFFF#32 32#32 =
      (⟨0, 2#64, 2#64, 0#32, 0x7FFFFFFFFF#64, 39#32⟩, [1, 2, 3]) ∧
    Gen.CFun.carquet_bit_writer_write_bits_defined ⟨0, 2#64, 2#64, 0#32, 0x7FFFFFFFFFFFFF#64, 55#32⟩ [1, 2, 3]
      0xFFFFFFFF#32 (-32#32) = false := by
  decide +kernel

theorem C08_cfun_bit_writer_write_bits64_defined (s : Gen.CFun.carquet_bit_writer_t) (data : List UInt8)
    (value : BitVec 64) (num_bits : BitVec 32) (h : wrInv s data = true) (hn : 0 ≤ num_bits.toInt) :
    Gen.CFun.carquet_bit_writer_write_bits64_defined s data value num_bits = true :=
  defined_of_spec (write_bits64_spec s data value num_bits ((wrInv_iff s data).mp h) hn)

/-- 64 bits (the count 1000 is clamped) on 55 pending ones, one byte of room -/
example : wrInv ⟨0, 3#64, 2#64, 0#32, 0x7FFFFFFFFFFFFF#64, 55#32⟩ [1, 2, 3] = true ∧
    Gen.CFun.carquet_bit_writer_write_bits64_defined ⟨0, 3#64, 2#64, 0#32, 0x7FFFFFFFFFFFFF#64, 55#32⟩ [1, 2, 3]
      0xFFFFFFFFFFFFFFFF#64 1000#32 = true ∧
    (Gen.CFun.carquet_bit_writer_write_bits64 ⟨0, 3#64, 2#64, 0#32, 0x7FFFFFFFFFFFFF#64, 55#32⟩ [1, 2, 3]
      0xFFFFFFFFFFFFFFFF#64 1000#32).2 = [1, 2, 0xFF] ∧
    Gen.CFun.carquet_bit_writer_write_bits64_defined ⟨0, 3#64, 2#64, 0#32, 0x7FFFFFFFFFFFFF#64, 55#32⟩ [1, 2]
      0xFFFFFFFFFFFFFFFF#64 1000#32 = false := by
  decide +kernel

theorem C08_cfun_bit_writer_flush_defined (s : Gen.CFun.carquet_bit_writer_t) (data : List UInt8)
    (h : wrInv s data = true) : Gen.CFun.carquet_bit_writer_flush_defined s data = true :=
  defined_of_spec (flush_spec s data ((wrInv_iff s data).mp h))

/-- the partial byte is stored only if `byte_pos < capacity`; with the capacity overstated it lands outside the array -/
example : wrInv ⟨0, 1#64, 0#64, 0#32, 5#64, 3#32⟩ [0] = true ∧
    Gen.CFun.carquet_bit_writer_flush_defined ⟨0, 1#64, 0#64, 0#32, 5#64, 3#32⟩ [0] = true ∧
    Gen.CFun.carquet_bit_writer_flush ⟨0, 1#64, 0#64, 0#32, 5#64, 3#32⟩ [0] = (⟨0, 1#64, 1#64, 0#32, 0#64, 0#32⟩, [5]) ∧
    Gen.CFun.carquet_bit_writer_flush_defined ⟨0, 1#64, 1#64, 0#32, 5#64, 3#32⟩ [0] = true ∧
    Gen.CFun.carquet_bit_writer_flush_defined ⟨0, 1#64, 0#64, 0#32, 5#64, 3#32⟩ [] = false := by
  decide +kernel

end Carquet.Properties.C08
end CFun3BitWriter

/-! ## BufReader -/
section CFun3BufReader
/-
C08 — stage-3 link theorems for the buffer read cursor: `carquet_buffer_reader_init_data / _read / _skip / _read_byte /
_read_u16_le / _read_u32_le / _read_u64_le` of src/core/buffer.c as translated from the CURRENT C source
(`Carquet.Gen.CFun`, struct `carquet_buffer_reader_t` = data offset, size, pos; the byte array travels separately)
against one call `BufferReader.step true` of the model the C08 cursor theorems (`C08_bufreader_reads_in_input`, …) are
about.  `brAbs s data` is the model cursor of the C cursor `s` over the array `data`; `brInv s data` (the pointer is the
start of `data`, `size` its length, `pos ≤ size`) is what `init_data` establishes and every function preserves.

Shape of each value theorem, with `(st, s', out') := f s data out`:
  * `brAbs s' data` is the model's next cursor and `brInv s' data` holds again (so `s'.data`, `s'.size` are unchanged);
  * what the caller sees, read as a model observation (`stObs st`, `valObs st out'`, `bytesObs st dest' n`), IS the
    model's observation;
  * `st` is 0 (CARQUET_OK), or it is 15 (CARQUET_ERROR_FILE_TRUNCATED) and then NOTHING changed (`s' = s`, `out' = out`).
`_defined`: no access outside `data[0 .. size)` (and, for `read`, outside `dest[0 .. n)`), for every argument.
-/
namespace Carquet.Properties.C08
open Carquet Carquet.Impl Carquet.Impl.CFun3 Carquet.Impl.BufferReader Carquet.Proofs.CFun3.BufReader

/-- `carquet_buffer_reader_init_data(reader, data, size)` with `size` the length of the array: the model's `init data`,
in the invariant, whatever the struct held before -/
theorem C08_cfun_buffer_reader_init_data (s : Gen.CFun.carquet_buffer_reader_t) (data : List UInt8) (size : BitVec 64)
    (h : brInitPre data size = true) :
    brAbs (Gen.CFun.carquet_buffer_reader_init_data s data size) data = BufferReader.init data ∧
    brInv (Gen.CFun.carquet_buffer_reader_init_data s data size) data = true := by
  have hs : size.toNat = data.length := by simpa [brInitPre] using h
  refine ⟨rfl, ?_⟩
  rw [brInv_iff]
  simp [Gen.CFun.carquet_buffer_reader_init_data, hs]

theorem C08_cfun_buffer_reader_init_data_defined (s : Gen.CFun.carquet_buffer_reader_t) (data : List UInt8)
    (size : BitVec 64) : Gen.CFun.carquet_buffer_reader_init_data_defined s data size = true := rfl

example : brInitPre [1, 2, 3] 3#64 = true ∧
    Gen.CFun.carquet_buffer_reader_init_data ⟨7, 9#64, 9#64⟩ [1, 2, 3] 3#64 = ⟨0, 3#64, 0#64⟩ ∧
    brInv (Gen.CFun.carquet_buffer_reader_init_data ⟨7, 9#64, 9#64⟩ [1, 2, 3] 3#64) [1, 2, 3] = true ∧
    -- a `size` that is not the length of the array: outside the precondition, and the invariant does not hold
    brInitPre [1, 2, 3] 4#64 = false ∧
    brInv (Gen.CFun.carquet_buffer_reader_init_data ⟨7, 9#64, 9#64⟩ [1, 2, 3] 4#64) [1, 2, 3] = false := by decide

/-- `carquet_buffer_reader_skip(reader, n)` is the model's `skip n`, for every `size_t n` -/
theorem C08_cfun_buffer_reader_skip (s : Gen.CFun.carquet_buffer_reader_t) (data : List UInt8) (n : BitVec 64)
    (h : brInv s data = true) :
    brAbs (Gen.CFun.carquet_buffer_reader_skip s n).2 data = (step true (brAbs s data) (.skip n.toNat)).next ∧
    brInv (Gen.CFun.carquet_buffer_reader_skip s n).2 data = true ∧
    stObs (Gen.CFun.carquet_buffer_reader_skip s n).1 = (step true (brAbs s data) (.skip n.toNat)).obs ∧
    ((Gen.CFun.carquet_buffer_reader_skip s n).1 = 0#32 ∨ Gen.CFun.carquet_buffer_reader_skip s n = (15#32, s)) := by
  rw [skip_eq s data n h, step_skip_abs s data n.toNat h]
  by_cases hle : s.pos.toNat + n.toNat ≤ data.length
  · obtain ⟨hi, ha⟩ := advance_inv s data n h hle
    rw [if_pos hle, if_pos hle]
    exact ⟨by simp [brAbs, ha], hi, rfl, Or.inl rfl⟩
  · rw [if_neg hle, if_neg hle]
    exact ⟨rfl, h, rfl, Or.inr rfl⟩

theorem C08_cfun_buffer_reader_skip_defined (s : Gen.CFun.carquet_buffer_reader_t) (n : BitVec 64) :
    Gen.CFun.carquet_buffer_reader_skip_defined s n = true := by
  simp [Gen.CFun.carquet_buffer_reader_skip_defined, Gen.CFun.carquet_buffer_reader_has_defined]

example : brInv ⟨0, 5#64, 3#64⟩ [1, 2, 3, 4, 5] = true ∧
    Gen.CFun.carquet_buffer_reader_skip ⟨0, 5#64, 3#64⟩ 2#64 = (0#32, ⟨0, 5#64, 5#64⟩) ∧
    step true ⟨[1, 2, 3, 4, 5], 3⟩ (.skip 2) = ⟨.st .ok, ⟨[1, 2, 3, 4, 5], 5⟩, []⟩ ∧
    Gen.CFun.carquet_buffer_reader_skip ⟨0, 5#64, 3#64⟩ 3#64 = (15#32, ⟨0, 5#64, 3#64⟩) ∧
    -- F83: a huge `n` does not wrap
    Gen.CFun.carquet_buffer_reader_skip ⟨0, 5#64, 3#64⟩ (BitVec.allOnes 64) = (15#32, ⟨0, 5#64, 3#64⟩) ∧
    (step true ⟨[1, 2, 3, 4, 5], 3⟩ (.skip (2 ^ 64 - 1))).obs = .st .truncated := by decide

/-- `carquet_buffer_reader_read(reader, dest, n)` is the model's `read n`: on OK `dest[0 .. n)` are the bytes
`data[pos .. pos + n)` the model delivers and the rest of `dest` is as before (the length too when `dest` has room);
on TRUNCATED neither the cursor nor `dest` changed -/
theorem C08_cfun_buffer_reader_read (s : Gen.CFun.carquet_buffer_reader_t) (data dest : List UInt8) (n : BitVec 64)
    (h : brInv s data = true) :
    brAbs (Gen.CFun.carquet_buffer_reader_read s data dest n).2.1 data =
      (step true (brAbs s data) (.read n.toNat)).next ∧
    brInv (Gen.CFun.carquet_buffer_reader_read s data dest n).2.1 data = true ∧
    bytesObs (Gen.CFun.carquet_buffer_reader_read s data dest n).1
        (Gen.CFun.carquet_buffer_reader_read s data dest n).2.2 n.toNat =
      (step true (brAbs s data) (.read n.toNat)).obs ∧
    (((Gen.CFun.carquet_buffer_reader_read s data dest n).1 = 0#32 ∧
        (Gen.CFun.carquet_buffer_reader_read s data dest n).2.2.take n.toNat = bytesAt data s.pos.toNat n.toNat ∧
        (Gen.CFun.carquet_buffer_reader_read s data dest n).2.2.drop n.toNat = dest.drop n.toNat ∧
        (n.toNat ≤ dest.length → (Gen.CFun.carquet_buffer_reader_read s data dest n).2.2.length = dest.length)) ∨
      Gen.CFun.carquet_buffer_reader_read s data dest n = (15#32, s, dest)) := by
  rw [read_eq s data dest n h, step_read_abs s data n.toNat h]
  by_cases hle : s.pos.toNat + n.toNat ≤ data.length
  · obtain ⟨hi, ha⟩ := advance_inv s data n h hle
    have hl := bytesAt_length data s.pos.toNat n.toNat hle
    rw [if_pos hle, if_pos hle]
    have ht : (bytesAt data s.pos.toNat n.toNat ++ dest.drop n.toNat).take n.toNat = bytesAt data s.pos.toNat n.toNat := by
      rw [List.take_append_of_le_length (by omega), List.take_of_length_le (by omega)]
    refine ⟨by simp [brAbs, ha], hi, ?_, Or.inl ⟨rfl, ht, ?_, fun hd => ?_⟩⟩
    · simp only [bytesObs, statusOf, if_true, ht]
    · rw [List.drop_append_of_le_length (by omega), List.drop_of_length_le (by omega), List.nil_append]
    · simp only [List.length_append, List.length_drop, hl]; omega
  · rw [if_neg hle, if_neg hle]
    exact ⟨rfl, h, rfl, Or.inr rfl⟩

/-- `memcpy(dest, data + pos, n)` reads inside `data[0 .. size)` and writes inside `dest` when `dest` has room for `n` bytes -/
theorem C08_cfun_buffer_reader_read_defined (s : Gen.CFun.carquet_buffer_reader_t) (data dest : List UInt8) (n : BitVec 64)
    (h : brInv s data = true) (hd : n.toNat ≤ dest.length) :
    Gen.CFun.carquet_buffer_reader_read_defined s data dest n = true := by
  obtain ⟨h0, hs, hp⟩ := (brInv_iff s data).mp h
  unfold Gen.CFun.carquet_buffer_reader_read_defined
  rw [has_c _ _ _ hp, hs]
  by_cases hle : s.pos.toNat + n.toNat ≤ data.length <;>
    simp [hle, CSem.inb, Gen.CFun.carquet_buffer_reader_has_defined, h0, hd]

example : Gen.CFun.carquet_buffer_reader_read ⟨0, 5#64, 1#64⟩ [1, 2, 3, 4, 5] [9, 9, 9, 9] 3#64 =
      (0#32, ⟨0, 5#64, 4#64⟩, [2, 3, 4, 9]) ∧
    step true ⟨[1, 2, 3, 4, 5], 1⟩ (.read 3) = ⟨.bytes .ok [2, 3, 4], ⟨[1, 2, 3, 4, 5], 4⟩, [⟨1, 3⟩]⟩ ∧
    Gen.CFun.carquet_buffer_reader_read ⟨0, 5#64, 3#64⟩ [1, 2, 3, 4, 5] [9, 9, 9, 9] 3#64 =
      (15#32, ⟨0, 5#64, 3#64⟩, [9, 9, 9, 9]) ∧
    Gen.CFun.carquet_buffer_reader_read_defined ⟨0, 5#64, 1#64⟩ [1, 2, 3, 4, 5] [9, 9, 9, 9] 3#64 = true ∧
    -- a destination that is too small: the `memcpy` writes past its end
    Gen.CFun.carquet_buffer_reader_read_defined ⟨0, 5#64, 1#64⟩ [1, 2, 3, 4, 5] [9, 9] 3#64 = false ∧
    -- a state outside the invariant (`size` larger than the array): the `memcpy` reads past the end of `data`
    brInv ⟨0, 8#64, 3#64⟩ [1, 2, 3, 4, 5] = false ∧
    Gen.CFun.carquet_buffer_reader_read_defined ⟨0, 8#64, 3#64⟩ [1, 2, 3, 4, 5] [9, 9, 9, 9] 3#64 = false := by decide

/-- `carquet_buffer_reader_read_byte(reader, &value)` is the model's `readByte` -/
theorem C08_cfun_buffer_reader_read_byte (s : Gen.CFun.carquet_buffer_reader_t) (data : List UInt8) (v : BitVec 8)
    (h : brInv s data = true) :
    brAbs (Gen.CFun.carquet_buffer_reader_read_byte s data v).2.1 data = (step true (brAbs s data) .readByte).next ∧
    brInv (Gen.CFun.carquet_buffer_reader_read_byte s data v).2.1 data = true ∧
    valObs (Gen.CFun.carquet_buffer_reader_read_byte s data v).1 (Gen.CFun.carquet_buffer_reader_read_byte s data v).2.2.toNat =
      (step true (brAbs s data) .readByte).obs ∧
    ((Gen.CFun.carquet_buffer_reader_read_byte s data v).1 = 0#32 ∨ Gen.CFun.carquet_buffer_reader_read_byte s data v = (15#32, s, v)) := by
  have h0 : s.data = 0 := ((brInv_iff s data).mp h).1
  exact typed_link s data v 1 1#64 rfl (CSem.rd8 data (s.data + s.pos.toNat))
    (fun hle => by rw [h0, Nat.zero_add]; exact load8 data s.pos.toNat hle) h _ (by simp [Gen.CFun.carquet_buffer_reader_read_byte])

/-- every byte it reads is inside `data[0 .. size)` -/
theorem C08_cfun_buffer_reader_read_byte_defined (s : Gen.CFun.carquet_buffer_reader_t) (data : List UInt8) (v : BitVec 8)
    (h : brInv s data = true) : Gen.CFun.carquet_buffer_reader_read_byte_defined s data v = true := by
  have h0 : s.data = 0 := ((brInv_iff s data).mp h).1
  unfold Gen.CFun.carquet_buffer_reader_read_byte_defined
  refine typed_defined s data 1 1#64 rfl _ (fun hle => ?_) h
  simp [CSem.inb, h0]
  omega

example : brInv ⟨0, 3#64, 2#64⟩ [7, 8, 9] = true ∧
    Gen.CFun.carquet_buffer_reader_read_byte ⟨0, 3#64, 2#64⟩ [7, 8, 9] 0x55#8 = (0#32, ⟨0, 3#64, 3#64⟩, 9#8) ∧
    step true ⟨[7, 8, 9], 2⟩ .readByte = ⟨.val .ok 9, ⟨[7, 8, 9], 3⟩, [⟨2, 1⟩]⟩ ∧
    Gen.CFun.carquet_buffer_reader_read_byte ⟨0, 3#64, 3#64⟩ [7, 8, 9] 0x55#8 = (15#32, ⟨0, 3#64, 3#64⟩, 0x55#8) ∧
    step true ⟨[7, 8, 9], 3⟩ .readByte = ⟨.val .truncated 0, ⟨[7, 8, 9], 3⟩, []⟩ ∧
    -- outside the invariant (`size` = 4 for 3 bytes): `data[3]` is read
    brInv ⟨0, 4#64, 3#64⟩ [7, 8, 9] = false ∧
    Gen.CFun.carquet_buffer_reader_read_byte_defined ⟨0, 4#64, 3#64⟩ [7, 8, 9] 0#8 = false := by decide

/-- `carquet_buffer_reader_read_u16_le(reader, &value)` is the model's `readU16` -/
theorem C08_cfun_buffer_reader_read_u16_le (s : Gen.CFun.carquet_buffer_reader_t) (data : List UInt8) (v : BitVec 16)
    (h : brInv s data = true) :
    brAbs (Gen.CFun.carquet_buffer_reader_read_u16_le s data v).2.1 data = (step true (brAbs s data) .readU16).next ∧
    brInv (Gen.CFun.carquet_buffer_reader_read_u16_le s data v).2.1 data = true ∧
    valObs (Gen.CFun.carquet_buffer_reader_read_u16_le s data v).1 (Gen.CFun.carquet_buffer_reader_read_u16_le s data v).2.2.toNat =
      (step true (brAbs s data) .readU16).obs ∧
    ((Gen.CFun.carquet_buffer_reader_read_u16_le s data v).1 = 0#32 ∨ Gen.CFun.carquet_buffer_reader_read_u16_le s data v = (15#32, s, v)) := by
  have h0 : s.data = 0 := ((brInv_iff s data).mp h).1
  exact typed_link s data v 2 2#64 rfl (Gen.CFun.carquet_read_u16_le (List.drop (s.data + s.pos.toNat) data))
    (fun hle => by rw [h0, Nat.zero_add]; exact load16 data s.pos.toNat) h _ (by simp [Gen.CFun.carquet_buffer_reader_read_u16_le])

/-- every byte it reads is inside `data[0 .. size)` -/
theorem C08_cfun_buffer_reader_read_u16_le_defined (s : Gen.CFun.carquet_buffer_reader_t) (data : List UInt8) (v : BitVec 16)
    (h : brInv s data = true) : Gen.CFun.carquet_buffer_reader_read_u16_le_defined s data v = true := by
  have h0 : s.data = 0 := ((brInv_iff s data).mp h).1
  unfold Gen.CFun.carquet_buffer_reader_read_u16_le_defined
  refine typed_defined s data 2 2#64 rfl _ (fun hle => ?_) h
  simp [CSem.inb, h0, Gen.CFun.carquet_read_u16_le_defined]
  omega

example : Gen.CFun.carquet_buffer_reader_read_u16_le ⟨0, 5#64, 1#64⟩ [1, 2, 3, 4, 5] 0#16 = (0#32, ⟨0, 5#64, 3#64⟩, 0x0302#16) ∧
    step true ⟨[1, 2, 3, 4, 5], 1⟩ .readU16 = ⟨.val .ok 0x0302, ⟨[1, 2, 3, 4, 5], 3⟩, [⟨1, 2⟩]⟩ ∧
    Gen.CFun.carquet_buffer_reader_read_u16_le ⟨0, 5#64, 4#64⟩ [1, 2, 3, 4, 5] 0x7777#16 = (15#32, ⟨0, 5#64, 4#64⟩, 0x7777#16) ∧
    Gen.CFun.carquet_buffer_reader_read_u16_le_defined ⟨0, 6#64, 4#64⟩ [1, 2, 3, 4, 5] 0#16 = false := by decide

/-- `carquet_buffer_reader_read_u32_le(reader, &value)` is the model's `readU32` -/
theorem C08_cfun_buffer_reader_read_u32_le (s : Gen.CFun.carquet_buffer_reader_t) (data : List UInt8) (v : BitVec 32)
    (h : brInv s data = true) :
    brAbs (Gen.CFun.carquet_buffer_reader_read_u32_le s data v).2.1 data = (step true (brAbs s data) .readU32).next ∧
    brInv (Gen.CFun.carquet_buffer_reader_read_u32_le s data v).2.1 data = true ∧
    valObs (Gen.CFun.carquet_buffer_reader_read_u32_le s data v).1 (Gen.CFun.carquet_buffer_reader_read_u32_le s data v).2.2.toNat =
      (step true (brAbs s data) .readU32).obs ∧
    ((Gen.CFun.carquet_buffer_reader_read_u32_le s data v).1 = 0#32 ∨ Gen.CFun.carquet_buffer_reader_read_u32_le s data v = (15#32, s, v)) := by
  have h0 : s.data = 0 := ((brInv_iff s data).mp h).1
  exact typed_link s data v 4 4#64 rfl (Gen.CFun.carquet_read_u32_le (List.drop (s.data + s.pos.toNat) data))
    (fun hle => by rw [h0, Nat.zero_add]; exact load32 data s.pos.toNat) h _ (by simp [Gen.CFun.carquet_buffer_reader_read_u32_le])

/-- every byte it reads is inside `data[0 .. size)` -/
theorem C08_cfun_buffer_reader_read_u32_le_defined (s : Gen.CFun.carquet_buffer_reader_t) (data : List UInt8) (v : BitVec 32)
    (h : brInv s data = true) : Gen.CFun.carquet_buffer_reader_read_u32_le_defined s data v = true := by
  have h0 : s.data = 0 := ((brInv_iff s data).mp h).1
  unfold Gen.CFun.carquet_buffer_reader_read_u32_le_defined
  refine typed_defined s data 4 4#64 rfl _ (fun hle => ?_) h
  simp [CSem.inb, h0, Gen.CFun.carquet_read_u32_le_defined]
  omega

/-- a cursor two bytes before the end asked for 4 bytes: TRUNCATED, position and `*value` kept; one that has 4 bytes left -/
example : brInv ⟨0, 6#64, 4#64⟩ [1, 2, 3, 4, 5, 6] = true ∧
    Gen.CFun.carquet_buffer_reader_read_u32_le ⟨0, 6#64, 4#64⟩ [1, 2, 3, 4, 5, 6] 0xDEADBEEF#32 =
      (15#32, ⟨0, 6#64, 4#64⟩, 0xDEADBEEF#32) ∧
    step true ⟨[1, 2, 3, 4, 5, 6], 4⟩ .readU32 = ⟨.val .truncated 0, ⟨[1, 2, 3, 4, 5, 6], 4⟩, []⟩ ∧
    Gen.CFun.carquet_buffer_reader_read_u32_le_defined ⟨0, 6#64, 4#64⟩ [1, 2, 3, 4, 5, 6] 0#32 = true ∧
    Gen.CFun.carquet_buffer_reader_read_u32_le ⟨0, 6#64, 2#64⟩ [1, 2, 3, 4, 5, 6] 0#32 = (0#32, ⟨0, 6#64, 6#64⟩, 0x06050403#32) ∧
    step true ⟨[1, 2, 3, 4, 5, 6], 2⟩ .readU32 = ⟨.val .ok 0x06050403, ⟨[1, 2, 3, 4, 5, 6], 6⟩, [⟨2, 4⟩]⟩ ∧
    -- a state violating the invariant (`size` = 8 for a 6-byte array): the load reads `data[6]`, `data[7]`
    brInv ⟨0, 8#64, 4#64⟩ [1, 2, 3, 4, 5, 6] = false ∧
    Gen.CFun.carquet_buffer_reader_read_u32_le_defined ⟨0, 8#64, 4#64⟩ [1, 2, 3, 4, 5, 6] 0#32 = false := by decide

/-- `carquet_buffer_reader_read_u64_le(reader, &value)` is the model's `readU64` -/
theorem C08_cfun_buffer_reader_read_u64_le (s : Gen.CFun.carquet_buffer_reader_t) (data : List UInt8) (v : BitVec 64)
    (h : brInv s data = true) :
    brAbs (Gen.CFun.carquet_buffer_reader_read_u64_le s data v).2.1 data = (step true (brAbs s data) .readU64).next ∧
    brInv (Gen.CFun.carquet_buffer_reader_read_u64_le s data v).2.1 data = true ∧
    valObs (Gen.CFun.carquet_buffer_reader_read_u64_le s data v).1 (Gen.CFun.carquet_buffer_reader_read_u64_le s data v).2.2.toNat =
      (step true (brAbs s data) .readU64).obs ∧
    ((Gen.CFun.carquet_buffer_reader_read_u64_le s data v).1 = 0#32 ∨ Gen.CFun.carquet_buffer_reader_read_u64_le s data v = (15#32, s, v)) := by
  have h0 : s.data = 0 := ((brInv_iff s data).mp h).1
  exact typed_link s data v 8 8#64 rfl (Gen.CFun.carquet_read_u64_le (List.drop (s.data + s.pos.toNat) data))
    (fun hle => by rw [h0, Nat.zero_add]; exact load64 data s.pos.toNat hle) h _ (by simp [Gen.CFun.carquet_buffer_reader_read_u64_le])

/-- every byte it reads is inside `data[0 .. size)` -/
theorem C08_cfun_buffer_reader_read_u64_le_defined (s : Gen.CFun.carquet_buffer_reader_t) (data : List UInt8) (v : BitVec 64)
    (h : brInv s data = true) : Gen.CFun.carquet_buffer_reader_read_u64_le_defined s data v = true := by
  have h0 : s.data = 0 := ((brInv_iff s data).mp h).1
  unfold Gen.CFun.carquet_buffer_reader_read_u64_le_defined
  refine typed_defined s data 8 8#64 rfl _ (fun hle => ?_) h
  simp [CSem.inb, h0, Gen.CFun.carquet_read_u64_le_defined]
  omega

example : Gen.CFun.carquet_buffer_reader_read_u64_le ⟨0, 9#64, 1#64⟩ [0, 1, 2, 3, 4, 5, 6, 7, 8] 0#64 =
      (0#32, ⟨0, 9#64, 9#64⟩, 0x0807060504030201#64) ∧
    step true ⟨[0, 1, 2, 3, 4, 5, 6, 7, 8], 1⟩ .readU64 =
      ⟨.val .ok 0x0807060504030201, ⟨[0, 1, 2, 3, 4, 5, 6, 7, 8], 9⟩, [⟨1, 8⟩]⟩ ∧
    Gen.CFun.carquet_buffer_reader_read_u64_le ⟨0, 9#64, 2#64⟩ [0, 1, 2, 3, 4, 5, 6, 7, 8] 5#64 = (15#32, ⟨0, 9#64, 2#64⟩, 5#64) ∧
    Gen.CFun.carquet_buffer_reader_read_u64_le_defined ⟨0, 10#64, 2#64⟩ [0, 1, 2, 3, 4, 5, 6, 7, 8] 0#64 = false := by decide

end Carquet.Properties.C08
end CFun3BufReader

/-! ## Bitunpack32 -/
section CFun3Bitunpack32
/-
C08 — stage-3 link theorem, safety half: `carquet_bitunpack_32` of src/core/bitpack.c as translated from the CURRENT C
source (Gen/CFun.lean).  `carquet_bitunpack_32_defined … = true` says that the C execution reaches no undefined behaviour
this layer knows about; the value half is Properties/C11/CFun3Bitunpack32.lean.
-/
namespace Carquet.Properties.C08
open Carquet Carquet.Impl Carquet.Proofs.CFun3.Bitunpack32

/-- **`carquet_bitunpack_32` reads only `input[0 .. bytes_consumed)` and writes only `values[0 .. count)`**: for a width
0..32, an input that holds the `bytes_consumed` bytes the model reports (`count / 8 * w + packed_size(count % 8, w)`) and
room for `count` values, every access of the translated function is in bounds — each group of 8 reads `w` bytes at
`input + 8g·w/8`, and the tail group touches only `packed_size(count % 8, w)` bytes of the caller's buffer (copied into
the zero-padded local `packed[32]`, fix F32: the pinned code read a whole group of `w` bytes there), whatever the
uninitialised local `temp` contained. -/
theorem C08_cfun_bitunpack_32_defined (input : List UInt8) (values temp_indet : List (BitVec 32)) (w count : Nat)
    (hw : w ≤ 32) (hc : count < 2 ^ 61) (hi : (Bitpack.unpack w input count).2 ≤ input.length)
    (hv : count ≤ values.length) (ht : temp_indet.length = 8) :
    Gen.CFun.carquet_bitunpack_32_defined input (BitVec.ofNat 64 count) (BitVec.ofNat 32 w) values temp_indet = true :=
  bitunpack_32_full_defined input values temp_indet w count hw hc hi hv ht

-- the F32 instance: one value of width 32 from a 4-byte buffer is fine; from 3 bytes it is not
example : (Bitpack.unpack 32 [0xef, 0xbe, 0xad, 0xde] 1).2 = 4 ∧
    Gen.CFun.carquet_bitunpack_32_defined [0xef, 0xbe, 0xad, 0xde] 1#64 32#32 [0#32] (List.replicate 8 0x55#32) = true ∧
    Gen.CFun.carquet_bitunpack_32_defined [0xef, 0xbe, 0xad] 1#64 32#32 [0#32] (List.replicate 8 0x55#32) = false ∧
    Gen.CFun.carquet_bitunpack_32_defined [0xef, 0xbe, 0xad, 0xde] 1#64 32#32 [] (List.replicate 8 0x55#32) = false := by
  decide +kernel

end Carquet.Properties.C08
end CFun3Bitunpack32

/-! ## RleDec -/
section CFun3RleDec
/-
C08 — stage-3 link theorem, safety half: `fill_bitpack_buffer` of src/encoding/rle.c as translated from the CURRENT C
source (Gen/CFun.lean).  `fill_bitpack_buffer_defined … = true` says that the C execution reaches no undefined
behaviour this layer knows about.  Here, for a live decoder with status OK (`rleInv`: `data` field = start of the
buffer, `size` = its length, `pos ≤ size`, `0 ≤ bit_width ≤ 32`, eight group-buffer elements, …) and EVERY content of
the input buffer: the group is read from `data[pos .. pos + bit_width)` only after `pos + bit_width ≤ size` was tested
(and that sum does not wrap), so every byte `carquet_bitunpack8_32` reads lies inside `data[0 .. size)`; only
`bitpack_buffer[0 .. 8)` is written; no `int` overflow, no out-of-range shift, no exhausted loop fuel inside the unpacker.
The value half (and the preservation of `rleInv`) is `C11_cfun_fill_bitpack_buffer`, Properties/C11/CFun3RleDec.lean; the
same fact about the model is `C08_rle_reads_in_input`.
-/
namespace Carquet.Properties.C08
open Carquet Carquet.Impl Carquet.Impl.CFun3 Carquet.Proofs.CFun3.RleDec

theorem C08_cfun_fill_bitpack_buffer_defined (s : Gen.CFun.carquet_rle_decoder_t) (data : List UInt8)
    (h : rleInv s data = true) (h0 : s.status = 0#32) : Gen.CFun.fill_bitpack_buffer_defined s data = true :=
  (fill_eq false 0 s data h h0).2.2.2.2.2.2.2.2

-- width 17 with exactly 17 bytes left after the header; with 16 left the group is refused before any read; a decoder
-- whose `size` promises a byte the buffer does not have reads `data[17]`
example : rleInv ⟨0, 18#64, 1#64, 17#32, 0x1FFFF#32, 8#64, List.replicate 8 0#32, 0#32, 0#32, 0#32⟩
      (0x03 :: List.replicate 17 0xA5) = true ∧
    Gen.CFun.fill_bitpack_buffer_defined ⟨0, 18#64, 1#64, 17#32, 0x1FFFF#32, 8#64, List.replicate 8 0#32, 0#32, 0#32, 0#32⟩
      (0x03 :: List.replicate 17 0xA5) = true ∧
    Gen.CFun.fill_bitpack_buffer_defined ⟨0, 17#64, 1#64, 17#32, 0x1FFFF#32, 8#64, List.replicate 8 0#32, 0#32, 0#32, 0#32⟩
      (0x03 :: List.replicate 16 0xA5) = true ∧
    (Gen.CFun.fill_bitpack_buffer ⟨0, 17#64, 1#64, 17#32, 0x1FFFF#32, 8#64, List.replicate 8 0#32, 0#32, 0#32, 0#32⟩
      (0x03 :: List.replicate 16 0xA5)).2.status = 43#32 ∧
    rleInv ⟨0, 18#64, 1#64, 17#32, 0x1FFFF#32, 8#64, List.replicate 8 0#32, 0#32, 0#32, 0#32⟩
      (0x03 :: List.replicate 16 0xA5) = false ∧
    Gen.CFun.fill_bitpack_buffer_defined ⟨0, 18#64, 1#64, 17#32, 0x1FFFF#32, 8#64, List.replicate 8 0#32, 0#32, 0#32, 0#32⟩
      (0x03 :: List.replicate 16 0xA5) = false ∧
    -- a group buffer with fewer than 8 elements (not a `carquet_rle_decoder_t`): the write of `values[7]` is outside
    Gen.CFun.fill_bitpack_buffer_defined ⟨0, 18#64, 1#64, 17#32, 0x1FFFF#32, 8#64, List.replicate 7 0#32, 0#32, 0#32, 0#32⟩
      (0x03 :: List.replicate 17 0xA5) = false := by decide +kernel

end Carquet.Properties.C08
end CFun3RleDec
