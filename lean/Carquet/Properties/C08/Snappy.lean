import Carquet.Spec.Snappy
import Carquet.Impl.Snappy
import Carquet.Proofs.SnappyDecomp
/-
C08 (Snappy decompressor) — safe on arbitrary bytes.
The Impl model is in access-reporting form: every load from the input, every load from the part of
the destination already written and every store goes through a primitive that compares the index with
the real buffer sizes (`src_size`, `dst_capacity`) and yields the model-only outcome
`oobRead i` / `oobDst i` / `oobWrite i` where the C code would touch memory outside them; the element
loop runs on fuel `src_size + 1` and yields `fuel` if that were not enough.
-/
namespace Carquet.Properties.C08
open Carquet

/-- For arbitrary input bytes and any destination capacity the repaired decompressor never reads
outside `src[0..src_size)`, never reads an unwritten destination byte, never writes outside
`dst[0..dst_capacity)` and terminates within its fuel: the only failure is the status
INVALID_COMPRESSED_DATA; and on success it reports at most `dst_capacity` bytes. -/
theorem C08_snappy_decompress_in_bounds (bs : List UInt8) (cap : Nat) :
    (∀ e, Impl.Snappy.decompress bs cap = .error e → e = .invalidData) ∧
    (∀ out, Impl.Snappy.decompress bs cap = .ok out → out.length ≤ cap) := by
  have hs := Proofs.Snappy.decompressWith_sound bs cap
  simp only [Impl.Snappy.decompress]
  revert hs
  cases Impl.Snappy.decompressWith Impl.Snappy.Fixes.all bs.toArray cap with
  | error e2 =>
    intro hs
    simp only [Proofs.Snappy.DecGood] at hs
    refine ⟨?_, ?_⟩
    · intro e h; simp only [Except.error.injEq] at h; rw [← h, hs]
    · intro out h; cases h
  | ok o =>
    intro hs
    simp only [Proofs.Snappy.DecGood] at hs
    refine ⟨?_, ?_⟩
    · intro e h; cases h
    · intro out h; simp only [Except.ok.injEq] at h; rw [← h]; simpa using hs.2

-- both outcomes occur
example : Impl.Snappy.decompress [0x04, 0x01] 4 = .error .invalidData := by decide +kernel
example : Impl.Snappy.decompress [0x02, 0x00, 0x41, 0x02, 0x01, 0x00] 2 = .ok [0x41, 0x41] := by decide +kernel

/-- F6 on the pinned code (before fixes/F6-snappy-copy-bounds.patch): an input that ends right after a
COPY_1 tag makes the decompressor read `src[src_size]` (heap-buffer-overflow under ASan). -/
theorem C08_regression_F6 :
    Impl.Snappy.decompressPreFix [0x04, 0x01] 4 = .error (.oobRead 2) ∧
    Impl.Snappy.decompressPreFix [0x05, 0x00, 0x41, 0x01] 5 = .error (.oobRead 4) ∧
    Impl.Snappy.decompress [0x04, 0x01] 4 = .error .invalidData := by
  decide +kernel

end Carquet.Properties.C08
