import Carquet.Impl.RleAcc
import Carquet.Impl.RlePreFix
import Carquet.Proofs.RleAcc
/-
C08 — the RLE / bit-packed hybrid decoders of src/encoding/rle.c on ARBITRARY bytes, any declared bit
width (0..255 and beyond), any requested count: the streaming decoder (`init / get / get_batch / skip`),
the one-shot `carquet_rle_decode_all`, `carquet_rle_decode_levels`, `carquet_rle_decode_levels_prefixed`.

`Impl.Rle` represents `(data, size, pos)` by the unread suffix.  What "reads only within the input" means
for that representation is made explicit by the access-reporting twins of Impl/RleAcc.lean: they ARE the
decoders (first conjuncts below), and they list every read the C code makes as `(offset, length)` with
`offset = size − |unread suffix|` = the C variable `pos` at that moment.  The theorems are about the
repaired code (F80: widths above 32 are refused; F31, F33, F58 earlier).
-/
namespace Carquet.Properties.C08
open Carquet Carquet.Impl.Rle Carquet.Proofs.RleAcc

/-- **Reads stay inside the input.**  For every input, every declared width and every history of
`get` / `get_batch k` / `skip k` calls on a freshly initialised decoder: the twin is the decoder (same
observations); every access `(off, len)` it reports satisfies `off + len ≤ size`; the unread suffix of the
final state is a suffix of the input (so `pos = size − |rest| ≤ size`, and a read of `len` bytes at `pos`
delivers exactly `data[pos .. pos+len)`).  The one-shot decoder is the special case `[getBatch n]`; for
`decode_levels` and the length-prefixed variant the same holds, the prefixed accesses being expressed in
offsets of the caller's buffer (prefix at 0..4, the payload reads shifted by 4). -/
theorem C08_rle_reads_in_input (w : Nat) (data : List UInt8) (ops : List Op) (n : Nat) :
    (runOpsAcc data.length (Dec.init w data) ops).1 = runOps (Dec.init w data) ops ∧
    (∀ a ∈ (runOpsAcc data.length (Dec.init w data) ops).2.1, a.off + a.len ≤ data.length) ∧
    (runOpsAcc data.length (Dec.init w data) ops).2.2.rest <:+ data ∧
    ((decodeAllAcc w data n).1.1 = decodeAll w data n ∧
      (∀ a ∈ (decodeAllAcc w data n).2, a.off + a.len ≤ data.length) ∧
      (decodeAllAcc w data n).1.2.rest <:+ data) ∧
    ((decodeLevelsAcc w data n).1.1 = decodeLevels w data n ∧
      (∀ a ∈ (decodeLevelsAcc w data n).2, a.off + a.len ≤ data.length) ∧
      (decodeLevelsAcc w data n).1.2 ≤ data.length) ∧
    ((decodeLevelsPrefixedAcc w data n).1 = decodeLevelsPrefixed w data n ∧
      (∀ a ∈ (decodeLevelsPrefixedAcc w data n).2, a.off + a.len ≤ data.length)) := by
  have hinit : (Dec.init w data).rest.length ≤ data.length := Nat.le_refl _
  have h1 := runOpsAcc_adv data.length ops (Dec.init w data) hinit
  have h2 := batchLoopAcc_adv data.length n (Dec.init w data) n hinit
  refine ⟨runOpsAcc_fst _ _ _, fun a ha => (h1.2 a ha).2, h1.1, ⟨decodeAllAcc_fst w data n, fun a ha => (h2.2 a ha).2, h2.1⟩,
    ⟨decodeLevelsAcc_fst w data n, fun a ha => ((decodeLevelsAcc_in w data n).1 a ha).2, (decodeLevelsAcc_in w data n).2⟩,
    ⟨decodeLevelsPrefixedAcc_fst w data n, fun a ha => ((decodeLevelsPrefixedAcc_in w data n) a ha).2⟩⟩

/-- non-vacuity: a history over a stream with an empty RLE run, a bit-packed group and a truncated group;
the accesses reported are the ones the C code makes (header, value byte, header, group of 3 bytes, header) -/
example : runOpsAcc 9 (Dec.init 3 [0x00, 0x05, 0x03, 0x88, 0xC6, 0xFA, 0x03, 0x01, 0x02]) [.get, .skip 3, .getBatch 9] =
    ([.val 0, .skipped 3, .vals [4, 5, 6, 7]],
     [⟨0, 1⟩, ⟨1, 1⟩, ⟨2, 1⟩, ⟨3, 3⟩, ⟨6, 1⟩],
     ⟨3, [0x01, 0x02], false, 8, 5, [], .invalidRle⟩) := by decide +kernel

/-- **Writes stay inside the output.**  `get_batch` stores at most `count` values, `skip` reports at most
`count`, the one-shot decoder at most `max_values`, `decode_levels` and the prefixed variant at most
`max_values` levels — for every state / input / width, with no hypothesis. -/
theorem C08_rle_writes_le_count (w : Nat) (data : List UInt8) (d : Dec) (count : Nat) :
    (getBatch d count).1.length ≤ count ∧
    (skip d count).1 ≤ count ∧
    (decodeAll w data count).length ≤ count ∧
    (decodeLevels w data count).length ≤ count ∧
    (∀ ls c, decodeLevelsPrefixed w data count = .ok (ls, c) → ls.length ≤ count ∧ c ≤ data.length) := by
  refine ⟨batchLoop_length_le _ _ _, skipLoop_le _ _ _, batchLoop_length_le _ _ _, decodeLevels_length_le _ _ _, ?_⟩
  intro ls c h
  unfold decodeLevelsPrefixed at h
  split at h
  · cases h
  · split at h
    · cases h
    · rename_i h4 hle
      simp only [Except.ok.injEq, Prod.mk.injEq] at h
      obtain ⟨rfl, rfl⟩ := h
      exact ⟨decodeLevels_length_le _ _ _, by omega⟩

example : (getBatch (Dec.init 1 [0x03, 0xFD]) 5).1 = [1, 0, 1, 1, 1] := by decide
example : decodeLevelsPrefixed 1 [0x02, 0, 0, 0, 0x03, 0x05, 0xEE] 3 = .ok ([1, 0, 1], 6) := rfl

/-- **Termination.**  The model's loops are structural recursions on a fuel argument; the fuel is never
what stops them: `start_new_run` gives the same result for every fuel above the number of unread bytes
(each level of its recursion consumes at least a header byte), `get_batch` / `skip` for every fuel ≥ the
requested count (after a successful `prep` every iteration moves at least one value), `decode_levels`
for every fuel above the input length.  So the C loops terminate within `size + 1` run headers and
`count` chunk moves, on every input. -/
theorem C08_rle_total (w : Nat) (d : Dec) (bs : List UInt8) (count f : Nat) :
    (d.rest.length < f → startNewRunF f d = startNewRun d) ∧
    (count ≤ f → batchLoop f d count = getBatch d count) ∧
    (count ≤ f → skipLoop f d count = skip d count) ∧
    (bs.length < f → levelsLoop w f bs count = levelsLoop w (bs.length + 1) bs count) ∧
    (∀ want, 0 < want → (prep d).1 = true → 0 < chunkLen (prep d).2 want) :=
  ⟨fun h => startNewRunF_fuel _ _ d h (Nat.lt_succ_self _),
   fun h => batchLoop_fuel _ _ d count h (Nat.le_refl _),
   fun h => skipLoop_fuel _ _ d count h (Nat.le_refl _),
   fun h => levelsLoop_fuel w _ _ bs count h (Nat.lt_succ_self _),
   fun want hw hp => prep_progress d want hw hp⟩

example : startNewRunF 100 (Dec.init 3 [0x00, 0x05, 0x00, 0x01, 0x03]) = startNewRun (Dec.init 3 [0x00, 0x05, 0x00, 0x01, 0x03]) := by
  decide +kernel

/-- **The length prefix is checked before it is used.**  An input shorter than the prefix, or a prefix
announcing more bytes than follow it, is answered with an error; the only bytes read are the four prefix
bytes (none when there are fewer than four); in particular no wrap-around value of the prefix (F33) makes
the decoder start.  And when the call succeeds, `bytes_consumed = 4 + prefix ≤ input_size`. -/
theorem C08_rle_levels_prefixed_rejects_bad_prefix (w : Nat) (data : List UInt8) (n : Nat) :
    (data.length < 4 → decodeLevelsPrefixedAcc w data n = (.error .tooShort, [])) ∧
    (4 ≤ data.length → data.length - 4 < Impl.Bitpack.leNat (data.take 4) →
      decodeLevelsPrefixedAcc w data n = (.error .lengthExceedsInput, [⟨0, 4⟩])) ∧
    (∀ ls c, decodeLevelsPrefixed w data n = .ok (ls, c) →
      c = 4 + Impl.Bitpack.leNat (data.take 4) ∧ c ≤ data.length) := by
  refine ⟨fun h => ?_, fun h4 h => ?_, fun ls c h => ?_⟩
  · unfold decodeLevelsPrefixedAcc; rw [if_pos h]
  · unfold decodeLevelsPrefixedAcc; rw [if_neg (by omega), if_pos h]
  · unfold decodeLevelsPrefixed at h
    split at h
    · cases h
    · split at h
      · cases h
      · simp only [Except.ok.injEq, Prod.mk.injEq] at h
        obtain ⟨_, rfl⟩ := h
        exact ⟨rfl, by omega⟩

example : (decodeLevelsPrefixedAcc 1 [0xFF, 0xFF, 0xFF, 0xFF, 0x02, 0x01] 5).2 = [⟨0, 4⟩] := by decide +kernel
example : (decodeLevelsPrefixedAcc 1 [0x03, 0, 0, 0, 0x02, 0x01] 5).2 = [⟨0, 4⟩] := by decide +kernel

/-- **Declared widths above 32** (the width byte of dictionary indices comes from the file).  The repaired
decoders refuse them without reading a byte: the streaming decoder is born in status INVALID_RLE and
delivers nothing, `decode_levels` returns 0 levels. -/
theorem C08_rle_wide_width_refused (w : Nat) (hw : 32 < w) (data : List UInt8) (ops : List Op) (n : Nat) :
    (Dec.init w data).status = .invalidRle ∧
    (runOpsAcc data.length (Dec.init w data) ops).2.1 = [] ∧
    decodeAll w data n = [] ∧ (decodeAllAcc w data n).2 = [] ∧
    decodeLevels w data n = [] ∧ (decodeLevelsAcc w data n).2 = [] := by
  have hnw : ¬ w ≤ maxWidth := by unfold maxWidth; omega
  have hs : (Dec.init w data).status = .invalidRle := by
    simp only [Dec.init]; rw [if_neg hnw]
  have hb : ∀ (f : Nat) (d : Dec) (k : Nat), d.status = .invalidRle → batchLoopAcc data.length f d k = (([], d), []) := by
    intro f d k hd
    cases f with
    | zero => rfl
    | succ f =>
      simp only [batchLoopAcc]
      split
      · rfl
      · rw [if_pos (by simp [hasNext, hd])]
  have hsk : ∀ (f : Nat) (d : Dec) (k : Nat), d.status = .invalidRle → skipLoopAcc data.length f d k = ((0, d), []) := by
    intro f d k hd
    cases f with
    | zero => rfl
    | succ f =>
      simp only [skipLoopAcc]
      split
      · rfl
      · rw [if_pos (by simp [hasNext, hd])]
  have hrun : ∀ (ops : List Op) (d : Dec), d.status = .invalidRle → (runOpsAcc data.length d ops).2.1 = [] := by
    intro ops
    induction ops with
    | nil => intro d _; rfl
    | cons op ops ih =>
      intro d hd
      have hstep : (stepAcc data.length d op).1.2 = d ∧ (stepAcc data.length d op).2 = [] := by
        cases op with
        | get => simp [stepAcc, getAcc, hd]
        | getBatch k => simp [stepAcc, getBatchAcc, hb k d k hd]
        | skip k => simp [stepAcc, skipAcc, hsk k d k hd]
      simp only [runOpsAcc, hstep.1, hstep.2, List.nil_append]
      exact ih d hd
  have hall : decodeAllAcc w data n = (([], Dec.init w data), []) := hb n _ n hs
  refine ⟨hs, hrun ops _ hs, ?_, by rw [hall], ?_, ?_⟩
  · rw [← decodeAllAcc_fst, hall]
  · simp only [decodeLevels]; rw [if_neg hnw]
  · simp only [decodeLevelsAcc]; rw [if_neg hnw]

example : (Dec.init 33 [0x10, 1, 2, 3, 4, 5]).status = .invalidRle ∧ decodeAll 33 [0x10, 1, 2, 3, 4, 5] 8 = [] := by decide

/-- F80 on the pinned code (before fixes/F80-rle-decoder-bit-width.patch): `carquet_rle_decoder_init`
accepted any width; at width 33 an RLE run carries five value bytes and the fifth is shifted by 32 bits
into the 32-bit accumulator — undefined behaviour (UBSan: `shift exponent 32 is too large for 32-bit type`,
replay `corpus/C08/F80-rle-wide-width.ops`); reachable from file bytes through the dictionary index
decoders of dictionary.c, which take the width from the first data byte.  The repaired decoder refuses. -/
theorem C08_regression_F80 :
    (Impl.RlePreFix.initPreF80 33 [0x10, 1, 2, 3, 4, 5]).status = .ok ∧
    Impl.RlePreFix.readRunValuePreF80 33 [1, 2, 3, 4, 5] = .error (.shiftTooLarge 32) ∧
    (Dec.init 33 [0x10, 1, 2, 3, 4, 5]).status = .invalidRle ∧
    decodeAll 33 [0x10, 1, 2, 3, 4, 5] 8 = [] ∧ decodeLevels 33 [0x10, 1, 2, 3, 4, 5] 8 = [] :=
  ⟨rfl, rfl, by decide, by decide, by decide⟩

end Carquet.Properties.C08
