import Carquet.Properties.C11.CFunB
/-
C08 — link theorems (component `cfun`, batch `cfunb`): for the decoders that are translated from the CURRENT C source, the
generated `_defined` predicate contains one conjunct `offset + n ≤ length` per memory access.  Proving `_defined = true` for
EVERY input (whatever its length, `data_size` / `input_size` being the true size of the input) says: under the function's own
length check no byte outside `[input, input + input_size)` is read and nothing is written outside the output — C08's
obligation, here about the code as it is now rather than about the hand-written model.
-/
namespace Carquet.Properties.C08
open Carquet Carquet.Impl Carquet.Proofs.CFunB

/-- `carquet_byte_stream_split_decode`: any input; an output of `count * type_length` bytes -/
theorem C08_cfun_byte_stream_split_decode_defined (data out : List UInt8) (n k : Nat) (hk0 : 0 < k) (hk : k < 2 ^ 30)
    (hd : data.length < 2 ^ 63) (ho : out.length = k * n) (hn : k * n + k + n < 2 ^ 63) :
    Gen.CFun.carquet_byte_stream_split_decode_defined data (BitVec.ofNat 64 data.length) (BitVec.ofNat 32 k) out
      (BitVec.ofNat 64 n) = true := by
  by_cases hs : data.length < n * k
  · exact (bss_decode_short data out n k hk0 hk (by rw [Nat.mul_comm]; omega) (by omega) hs).2.1
  · exact (bss_decode_ok data out n k hk0 hk (by rw [Nat.mul_comm]; omega) (by omega) ho hn).2

/-- and the status tells which: CARQUET_ERROR_DECODE (40) exactly when the input is shorter than `count * type_length` -/
theorem C08_cfun_byte_stream_split_decode (data out : List UInt8) (n k : Nat) (hk0 : 0 < k) (hk : k < 2 ^ 30)
    (hd : data.length < 2 ^ 63) (ho : out.length = k * n) (hn : k * n + k + n < 2 ^ 63) :
    (Gen.CFun.carquet_byte_stream_split_decode data (BitVec.ofNat 64 data.length) (BitVec.ofNat 32 k) out (BitVec.ofNat 64 n)).1 =
      (if data.length < n * k then 40#32 else 0#32) := by
  by_cases hs : data.length < n * k
  · rw [if_pos hs, (bss_decode_short data out n k hk0 hk (by rw [Nat.mul_comm]; omega) (by omega) hs).1]
  · obtain ⟨L, _, hL⟩ := (bss_decode_ok data out n k hk0 hk (by rw [Nat.mul_comm]; omega) (by omega) ho hn).1
    rw [if_neg hs, hL]

example : Gen.CFun.carquet_byte_stream_split_decode_defined [1, 2, 3, 4, 5] 5#64 3#32 [0, 0, 0, 0, 0, 0] 2#64 = true ∧
    -- a `data_size` that overstates the input: the check passes and the loop reads data[5]
    Gen.CFun.carquet_byte_stream_split_decode_defined [1, 2, 3, 4, 5] 6#64 3#32 [0, 0, 0, 0, 0, 0] 2#64 = false := by decide

/-- `carquet_decode_plain_fixed_byte_array`: any input, any `count`, any `fixed_len`; an output that holds what is copied -/
theorem C08_cfun_decode_plain_fixed_byte_array_defined (input output : List UInt8) (count : BitVec 64) (fl : BitVec 32)
    (hin : input.length < 2 ^ 64)
    (hout : ∀ vals consumed, Plain.decodeFlba input count.toInt fl.toInt = .ok vals consumed → consumed ≤ output.length) :
    Gen.CFun.carquet_decode_plain_fixed_byte_array_defined input (BitVec.ofNat 64 input.length) output count fl = true :=
  Carquet.Properties.C11.C11_cfun_decode_plain_fixed_byte_array_defined input output count fl hin hout

example : Gen.CFun.carquet_decode_plain_fixed_byte_array_defined [1, 2, 3] 3#64 [0, 0, 0, 0] 2#64 2#32 = true ∧
    Gen.CFun.carquet_decode_plain_fixed_byte_array_defined [1, 2, 3] 4#64 [0, 0, 0, 0] 2#64 2#32 = false := by decide

/-- `carquet_decode_plain_boolean`: any input, any non-negative `count` below 2^62 with `count` output slots: every one of the
`(count + 7) / 8` byte reads is inside the input, every store inside the output; the model never reports an out-of-bounds read
either -/
theorem C08_cfun_decode_plain_boolean_defined (input output : List UInt8) (hn : output.length < 2 ^ 62)
    (hin : input.length < 2 ^ 64) :
    Gen.CFun.carquet_decode_plain_boolean_defined input (BitVec.ofNat 64 input.length) output (BitVec.ofNat 64 output.length) = true ∧
    Plain.decodeBoolean input (output.length : Int) ≠ .oob :=
  ⟨(decode_plain_boolean_eq input output hn hin).2.2.2, (decode_plain_boolean_eq input output hn hin).2.2.1⟩

example : Gen.CFun.carquet_decode_plain_boolean_defined [0xA5] 1#64 [9, 9, 9, 9, 9, 9, 9, 9, 9] 9#64 = true ∧
    Gen.CFun.carquet_decode_plain_boolean_defined [0xA5, 1] 2#64 [9, 9, 9, 9, 9, 9, 9, 9] 9#64 = false := by decide

end Carquet.Properties.C08
