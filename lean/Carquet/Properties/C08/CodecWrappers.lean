import Carquet.Impl.CodecWrappers
/-
C08 — the GZIP and ZSTD decompression wrappers (src/compression/gzip.c, zstd.c) on arbitrary input and
capacity.  The libraries are a parameter; of the library contract only the capacity clause is used here
(`dec_le_cap`: what the library reports as written fits the capacity it was given — zlib's `avail_out`
accounting, `ZSTD_decompressDCtx`'s `dstCapacity`).  That a failing call releases what it allocated
(`inflateEnd` on every path after `inflateInit2`; the cached ZSTD context is the only allocation that
outlives a call) is observed per call by the allocation-balance predicate of the harness (`p_bal`).
-/
namespace Carquet.Properties.C08
open Carquet Carquet.Impl.CodecWrappers

/-- **Any input, any capacity: an error or a size within the capacity.**  Whatever the bytes and the
capacity, `carquet_gzip_decompress` / `carquet_zstd_decompress` return either INVALID_COMPRESSED_DATA (the
only failure with non-NULL arguments) or a result of at most `dst_capacity` bytes. -/
theorem C08_codec_wrappers_error_or_le_capacity (L : Lib)
    (hL : ∀ (c y : List UInt8) (cap : Nat), L.decompress c cap = some y → y.length ≤ cap)
    (c : List UInt8) (cap : Nat) :
    (∀ y, gzipDecompress L c cap = .ok y → y.length ≤ cap) ∧
    (∀ e, gzipDecompress L c cap = .error e → e = .invalidData) ∧
    (∀ y, zstdDecompress L c cap = .ok y → y.length ≤ cap) ∧
    (∀ e, zstdDecompress L c cap = .error e → e = .invalidData) := by
  refine ⟨fun y h => ?_, fun e h => ?_, fun y h => ?_, fun e h => ?_⟩
  · simp only [gzipDecompress, gzipDecompressG, Bool.or_self, Bool.false_eq_true, if_false] at h
    cases hd : L.decompress (c.take c.length) cap with
    | none => rw [hd] at h; cases h
    | some z => rw [hd] at h; cases h; exact hL _ _ _ hd
  · simp only [gzipDecompress, gzipDecompressG, Bool.or_self, Bool.false_eq_true, if_false] at h
    cases hd : L.decompress (c.take c.length) cap with
    | none => rw [hd] at h; cases h; rfl
    | some z => rw [hd] at h; cases h
  · simp only [zstdDecompress, zstdDecompressG, Bool.or_self, Bool.false_eq_true, if_false] at h
    cases hd : L.decompress (c.take c.length) cap with
    | none => rw [hd] at h; cases h
    | some z => rw [hd] at h; cases h; exact hL _ _ _ hd
  · simp only [zstdDecompress, zstdDecompressG, Bool.or_self, Bool.false_eq_true, if_false] at h
    cases hd : L.decompress (c.take c.length) cap with
    | none => rw [hd] at h; cases h; rfl
    | some z => rw [hd] at h; cases h

/-- a library that copies (so that the hypothesis above is satisfiable and both outcomes occur) -/
example : ∃ L : Lib, (∀ c y cap, L.decompress c cap = some y → y.length ≤ cap) ∧
    gzipDecompress L [1, 2, 3] 3 = .ok [1, 2, 3] ∧ gzipDecompress L [1, 2, 3] 2 = .error .invalidData :=
  ⟨⟨fun _ _ _ => none, fun c cap => if c.length ≤ cap then some c else none, id⟩,
   by intro c y cap h; simp only at h; split at h <;> simp_all, by decide, by decide⟩

/-- **Argument checks come before the library call.**  With a NULL source, destination or size pointer all
four wrappers return INVALID_ARGUMENT whatever the library would have answered — the result does not depend
on `call`, i.e. the library is not consulted (and so nothing has been allocated yet). -/
theorem C08_codec_wrappers_args_checked_first (srcNull dstNull sizeNull : Bool)
    (h : (srcNull || dstNull || sizeNull) = true) (n cap : Nat) (level maxl : Int)
    (callD : Nat → Nat → Option (List UInt8)) (callC : Int → Nat → Nat → Option (List UInt8)) :
    gzipDecompressG srcNull dstNull sizeNull n cap callD = .error .invalidArgument ∧
    zstdDecompressG srcNull dstNull sizeNull n cap callD = .error .invalidArgument ∧
    gzipCompressG srcNull dstNull sizeNull n cap level callC = .error .invalidArgument ∧
    zstdCompressG srcNull dstNull sizeNull n cap level maxl callC = .error .invalidArgument := by
  simp only [gzipDecompressG, zstdDecompressG, gzipCompressG, zstdCompressG, h, if_true, and_self]

example : gzipDecompressG true false false 3 3 (fun _ _ => some [1]) = .error .invalidArgument := by decide

end Carquet.Properties.C08
