import Carquet.Proofs.DeltaSafe
import Carquet.Proofs.DeltaBytesSafe
/-
C08 — component decoders safe on arbitrary bytes: the arithmetic part for the
DELTA_BINARY_PACKED decoders (model of the repaired code).  Heap behaviour itself is observed
(ASan/UBSan in the correspondence harness), not proved.
In the list model every read is a `take`/`drop`/pattern match on `rest`, so reads cannot leave the
input *in the model*; the one place where the C code touches bytes the model does not name is the
group-wise reader `carquet_bitunpack_32`, whose extent is `Impl.Delta.unpack32ReadExtent`.
-/
namespace Carquet.Properties.C08
open Carquet

/-- Termination and totality: `Impl.Delta.decodeInt64/32` are total Lean functions (structural
recursion on the requested count); on *every* input they return a status, and a successful call
yields exactly the requested number of values (the C loop stores `values[0..n)` and nothing else)
and a `bytes_consumed` that does not exceed the input size. -/
theorem C08_delta_writes_in_output_and_consumed_le (data : List UInt8) (n : Nat) :
    (∀ vs c, Impl.Delta.decodeInt64 data n = .ok (vs, c) → vs.length = n ∧ c ≤ data.length) ∧
    (∀ vs c, Impl.Delta.decodeInt32 data n = .ok (vs, c) → vs.length = n ∧ c ≤ data.length) := by
  constructor
  · intro vs c h
    exact Impl.Delta.decodeV_ok false data n vs c h
  · intro vs c h
    unfold Impl.Delta.decodeInt32 at h
    cases hd : Impl.Delta.decodeV false data n with
    | error s => rw [hd] at h; cases h
    | ok p =>
      obtain ⟨ws, c'⟩ := p
      rw [hd] at h
      simp only [Except.ok.injEq, Prod.mk.injEq] at h
      obtain ⟨rfl, rfl⟩ := h
      have := Impl.Delta.decodeV_ok false data n ws c' hd
      simpa using this

/-- After a successful `delta_decoder_init` the geometry is 128/4 and the count fits `int32_t`,
whatever the input: every miniblock has 32 values, so the local buffers of 32 entries
(`mini_block_values`, `unpacked`) are never exceeded, and the group-wise bit reader touches exactly
the bytes whose presence `read_mini_block` has checked. -/
theorem C08_delta_reads_in_input (data : List UInt8) (d : Impl.Delta.Dec) (h : Impl.Delta.init data = .ok d) :
    d.blockSize / d.miniBlocksPerBlock = 32 ∧ d.totalValues ≤ 2147483647 ∧
    d.pos + d.rest.length = data.length ∧
    ∀ w, Impl.Delta.unpack32ReadExtent (d.blockSize / d.miniBlocksPerBlock) w =
           ((d.blockSize / d.miniBlocksPerBlock) * w + 7) / 8 := by
  obtain ⟨h1, h2, h3, h4, _⟩ := Impl.Delta.init_ok data d h
  rw [h1, h2]
  refine ⟨rfl, h3, h4, ?_⟩
  intro w
  simp only [Impl.Delta.unpack32ReadExtent]
  have e1 : (128 / 4 : Nat) = 32 := rfl
  rw [e1]
  simp only [show (32 / 8 : Nat) = 4 from rfl, show (32 % 8 : Nat) = 0 from rfl, if_true]
  omega

example : ∃ d, Impl.Delta.init [0x80, 0x01, 0x04, 0x05, 0x02, 0x02, 0, 0, 0, 0] = .ok d := ⟨_, rfl⟩

/-- F30, the defect the repair removes: the old header check accepted geometry 8/4 (miniblocks of
2 values); at width 8 `read_mini_block` checked 2 bytes and `carquet_bitunpack_32` read a whole
group of 8.  (Replayed on the real code: `corpus/C12/F30-delta-header-validation.ops`, ASan
heap-buffer-overflow on the unpatched tree.)  The repaired check accepts 128/4 only. -/
theorem C08_regression_F30 :
    Impl.Delta.geometryAcceptedPreFix 8#64 4#64 = true ∧
    (2 * 8 + 7) / 8 < Impl.Delta.unpack32ReadExtent 2 8 ∧
    Impl.Delta.geometryAccepted 8#64 4#64 = false ∧
    Impl.Delta.geometryAcceptedPreFix 0x100000080#64 4#64 = true ∧
    Impl.Delta.geometryAccepted 0x100000080#64 4#64 = false := by decide

/-- DELTA_LENGTH_BYTE_ARRAY, on arbitrary bytes: `carquet_delta_length_decode` hands out pointers
into its input.  `Impl.DeltaLength.decodeSlices` is the decoder with those pointers kept as
`(offset, length)` pairs (first conjunct: it *is* the decoder — same statuses, and the values are the
input bytes the pairs name).  Whenever it returns OK: exactly `num_values` slices, the first starting
where the length stream ended (`c0`), each following the previous one without gap, each shorter than
2 GiB, all of them inside `[c0, bytes_consumed)`, and `bytes_consumed ≤ data_size` — no returned
pointer or length reaches outside the input buffer, whatever the bytes were. -/
theorem C08_delta_length_slices_in_input (data : List UInt8) (n : Int) :
    Impl.DeltaLength.decode data n =
      (Impl.DeltaLength.decodeSlices data n).map
        (fun r => (r.1.map (fun ol => (data.drop ol.1).take ol.2), r.2)) ∧
    ∀ sl c, Impl.DeltaLength.decodeSlices data n = .ok (sl, c) →
      0 < n ∧ sl.length = n.toNat ∧ c ≤ data.length ∧
      ∃ c0, c0 ≤ c ∧ sl = Impl.DeltaLength.sliceOffsets c0 (sl.map Prod.snd) ∧
        c = c0 + (sl.map Prod.snd).sum ∧
        ∀ ol ∈ sl, c0 ≤ ol.1 ∧ ol.1 + ol.2 ≤ c ∧ ol.2 < 2 ^ 31 :=
  ⟨Impl.DeltaLength.decode_eq_decodeSlices data n, Impl.DeltaLength.decodeSlices_safe data n⟩

/-- non-vacuity: a stream (followed by two more bytes) whose three values are the input bytes
22..24, none, 25 (lengths 3, 0, 1) -/
example : Impl.DeltaLength.decodeSlices
      ([0x80, 0x01, 0x04, 0x03, 0x06, 0x05, 0x03, 0, 0, 0, 0x20, 0, 0, 0, 0, 0, 0, 0, 0, 0, 0, 0] ++
       [0xAA, 0xBB, 0xCC, 0xDD, 0xEE, 0xFF]) 3 =
    .ok ([(22, 3), (25, 0), (25, 1)], 26) := by decide +kernel

/-- Malformed input is refused, never followed: negative lengths and lengths reaching past the end
give `CARQUET_ERROR_DECODE`, a non-positive count `CARQUET_ERROR_INVALID_ARGUMENT`. -/
example : Impl.DeltaLength.decodeSlices [0x80, 0x01, 0x04, 0x01, 0x01] 1 = .error .decode ∧       -- length -1
    Impl.DeltaLength.decodeSlices [0x80, 0x01, 0x04, 0x01, 0x04, 0xAA] 1 = .error .decode ∧          -- length 2, 1 byte left
    Impl.DeltaLength.decodeSlices [0x80, 0x01, 0x04, 0x01, 0x04, 0xAA] 0 = .error .invalidArgument := by
  refine ⟨?_, ?_, ?_⟩ <;> decide +kernel

/-- DELTA_BYTE_ARRAY, on arbitrary bytes: `carquet_delta_strings_decode` copies, per value, `pre`
bytes from the previous value and `suf` bytes from the input to `work_buffer + workOff`.
`Impl.DeltaStrings.decodeAcc` is the decoder with these accesses kept as data (first conjunct: it
*is* the decoder; the values are what the accesses build).  Whenever it returns OK, for a work
buffer of `workSize` bytes: exactly `num_values` accesses; `accsSafe`: destinations are consecutive
from offset 0, every value ends inside the work buffer, every prefix copy stays inside the previous
value (none for the first), suffix reads are consecutive from the end `c0` of the two length
streams; read access by access: every suffix read lies inside `[c0, bytes_consumed)` and
`bytes_consumed ≤ data_size`; all lengths are below 2 GiB. -/
theorem C08_delta_strings_accesses_in_bounds (data : List UInt8) (n : Int) (workSize : Nat) :
    Impl.DeltaStrings.decode data n workSize =
      (Impl.DeltaStrings.decodeAcc data n workSize).map
        (fun r => (Impl.DeltaStrings.buildValues data [] r.1, r.2)) ∧
    ∀ accs c, Impl.DeltaStrings.decodeAcc data n workSize = .ok (accs, c) →
      0 < n ∧ accs.length = n.toNat ∧ c ≤ data.length ∧
      ∃ c0, Impl.DeltaStrings.accsSafe workSize c0 0 0 accs ∧ c = c0 + (accs.map (·.suf)).sum ∧
        (∀ a ∈ accs, c0 ≤ a.sufOff ∧ a.sufOff + a.suf ≤ c ∧ a.workOff + a.pre + a.suf ≤ workSize ∧
           a.pre < 2 ^ 31 ∧ a.suf < 2 ^ 31) := by
  refine ⟨Impl.DeltaStrings.decode_eq_decodeAcc data n workSize, ?_⟩
  intro accs c h
  obtain ⟨h1, h2, h3, c0, h4, h5, h6⟩ := Impl.DeltaStrings.decodeAcc_safe data n workSize accs c h
  refine ⟨h1, h2, h3, c0, h4, h5, ?_⟩
  intro a ha
  obtain ⟨j1, j2, _, j4⟩ := Impl.DeltaStrings.accsSafe_forall workSize accs c0 0 0 h4 a ha
  exact ⟨j1, by omega, j4, (h6 a ha).1, (h6 a ha).2⟩

/-- non-vacuity: prefixes 0,2,1 and suffixes 2,1,3 over the bytes AA..FF; a work buffer of 9 bytes is
exactly enough, 8 bytes are refused, and a prefix longer than the previous value is refused -/
example : Impl.DeltaStrings.decodeAcc
      ([0x80, 0x01, 0x04, 0x03, 0x00, 0x01, 0x02, 0, 0, 0, 0x03, 0, 0, 0, 0, 0, 0, 0] ++ [0x80, 0x01, 0x04, 0x03, 0x04, 0x01, 0x02, 0, 0, 0, 0x0C, 0, 0, 0, 0, 0, 0, 0] ++
       [0xAA, 0xBB, 0xCC, 0xDD, 0xEE, 0xFF]) 3 9 =
    .ok ([⟨0, 0, 36, 2⟩, ⟨2, 2, 38, 1⟩, ⟨5, 1, 39, 3⟩], 42) ∧
    Impl.DeltaStrings.decodeAcc
      ([0x80, 0x01, 0x04, 0x03, 0x00, 0x01, 0x02, 0, 0, 0, 0x03, 0, 0, 0, 0, 0, 0, 0] ++ [0x80, 0x01, 0x04, 0x03, 0x04, 0x01, 0x02, 0, 0, 0, 0x0C, 0, 0, 0, 0, 0, 0, 0] ++
       [0xAA, 0xBB, 0xCC, 0xDD, 0xEE, 0xFF]) 3 8 = .error .outOfMemory ∧
    Impl.DeltaStrings.decodeAcc
      ([0x80, 0x01, 0x04, 0x02, 0x00, 0x06, 0, 0, 0, 0] ++ [0x80, 0x01, 0x04, 0x02, 0x04, 0x01, 0, 0, 0, 0] ++
       [0xAA, 0xBB, 0xCC]) 2 64 = .error .decode := by
  refine ⟨?_, ?_, ?_⟩ <;> decide +kernel

end Carquet.Properties.C08
