import Carquet.Proofs.DeltaSafe
/-
C08 — component decoders safe on arbitrary bytes: the arithmetic part for the
DELTA_BINARY_PACKED decoders (model of the repaired code).  Heap behaviour itself is observed
(ASan/UBSan in the correspondence harness), not proved.
In the list model every read is a `take`/`drop`/pattern match on `rest`, so reads cannot leave the
input *in the model*; the one place where the C code touches bytes the model does not name is the
group-wise reader `carquet_bitunpack_32`, whose extent is `Impl.Delta.unpack32ReadExtent`.
-/
namespace Carquet.Properties.C08
open Carquet

/-- Termination and totality: `Impl.Delta.decodeInt64/32` are total Lean functions (structural
recursion on the requested count); on *every* input they return a status, and a successful call
yields exactly the requested number of values (the C loop stores `values[0..n)` and nothing else)
and a `bytes_consumed` that does not exceed the input size. -/
theorem C08_delta_writes_in_output_and_consumed_le (data : List UInt8) (n : Nat) :
    (∀ vs c, Impl.Delta.decodeInt64 data n = .ok (vs, c) → vs.length = n ∧ c ≤ data.length) ∧
    (∀ vs c, Impl.Delta.decodeInt32 data n = .ok (vs, c) → vs.length = n ∧ c ≤ data.length) := by
  constructor
  · intro vs c h
    exact Impl.Delta.decodeV_ok false data n vs c h
  · intro vs c h
    unfold Impl.Delta.decodeInt32 at h
    cases hd : Impl.Delta.decodeV false data n with
    | error s => rw [hd] at h; cases h
    | ok p =>
      obtain ⟨ws, c'⟩ := p
      rw [hd] at h
      simp only [Except.ok.injEq, Prod.mk.injEq] at h
      obtain ⟨rfl, rfl⟩ := h
      have := Impl.Delta.decodeV_ok false data n ws c' hd
      simpa using this

/-- After a successful `delta_decoder_init` the geometry is 128/4 and the count fits `int32_t`,
whatever the input: every miniblock has 32 values, so the local buffers of 32 entries
(`mini_block_values`, `unpacked`) are never exceeded, and the group-wise bit reader touches exactly
the bytes whose presence `read_mini_block` has checked. -/
theorem C08_delta_reads_in_input (data : List UInt8) (d : Impl.Delta.Dec) (h : Impl.Delta.init data = .ok d) :
    d.blockSize / d.miniBlocksPerBlock = 32 ∧ d.totalValues ≤ 2147483647 ∧
    d.pos + d.rest.length = data.length ∧
    ∀ w, Impl.Delta.unpack32ReadExtent (d.blockSize / d.miniBlocksPerBlock) w =
           ((d.blockSize / d.miniBlocksPerBlock) * w + 7) / 8 := by
  obtain ⟨h1, h2, h3, h4, _⟩ := Impl.Delta.init_ok data d h
  rw [h1, h2]
  refine ⟨rfl, h3, h4, ?_⟩
  intro w
  simp only [Impl.Delta.unpack32ReadExtent]
  have e1 : (128 / 4 : Nat) = 32 := rfl
  rw [e1]
  simp only [show (32 / 8 : Nat) = 4 from rfl, show (32 % 8 : Nat) = 0 from rfl, if_true]
  omega

example : ∃ d, Impl.Delta.init [0x80, 0x01, 0x04, 0x05, 0x02, 0x02, 0, 0, 0, 0] = .ok d := ⟨_, rfl⟩

/-- F30, the defect the repair removes: the old header check accepted geometry 8/4 (miniblocks of
2 values); at width 8 `read_mini_block` checked 2 bytes and `carquet_bitunpack_32` read a whole
group of 8.  (Replayed on the real code: `corpus/C12/F30-delta-header-validation.ops`, ASan
heap-buffer-overflow on the unpatched tree.)  The repaired check accepts 128/4 only. -/
theorem C08_regression_F30 :
    Impl.Delta.geometryAcceptedPreFix 8#64 4#64 = true ∧
    (2 * 8 + 7) / 8 < Impl.Delta.unpack32ReadExtent 2 8 ∧
    Impl.Delta.geometryAccepted 8#64 4#64 = false ∧
    Impl.Delta.geometryAcceptedPreFix 0x100000080#64 4#64 = true ∧
    Impl.Delta.geometryAccepted 0x100000080#64 4#64 = false := by decide

end Carquet.Properties.C08
