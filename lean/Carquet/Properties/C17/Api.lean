import Carquet.Proofs.SchemaApi
import Carquet.Proofs.ThriftExtendsDeep
import Carquet.Proofs.ThriftRoundtripTop
import Carquet.Properties.C17.Schema
import Carquet.Gen.Api
/-
C17 (public accessors) — "element accessors (name, type, repetition, type length, logical type)
return what the file states", for the accessors and builder arguments no other part speaks of:
carquet_schema_get_element + carquet_schema_node_logical_type, the per-node
carquet_schema_node_max_def_level / _max_rep_level, and carquet_schema_add_column WITH a logical
type (incl. what a file written from such a schema reads back).
Statements only; lemmas in Proofs/SchemaApi.lean (and the C13 lemmas for the Thrift step).
-/
namespace Carquet.Properties.C17
open Carquet Carquet.Spec.Schema Carquet.Spec.SchemaAnnot Carquet.Spec.Thrift Carquet.Spec.ParquetThrift
open Carquet.Impl.Thrift Carquet.Impl.ThriftParquet Carquet.Impl.SchemaApi Carquet.Impl.Reader
open Carquet.Proofs.SchemaApi Carquet.Proofs.Thrift

/-- a reader that opened has parsed the footer bytes of the file -/
theorem openFile_ok_footer (mode : Mode) (b : List UInt8) (o : Opened) (h : openFile mode b = .ok o) :
    parseFooter (footerBytes b) = .ok o := by
  have hF : ∀ b, (openFread b).1 = .ok o → parseFooter (footerBytes b) = .ok o := by
    intro b h
    unfold openFread at h
    split at h; · cases h
    split at h; · cases h
    split at h; · cases h
    exact h
  have hM : ∀ b, (openMapped b).1 = .ok o → parseFooter (footerBytes b) = .ok o := by
    intro b h
    unfold openMapped at h
    split at h; · cases h
    split at h; · cases h
    split at h; · cases h
    split at h; · cases h
    exact h
  unfold openFile openFileA at h
  cases mode with
  | fread => exact hF b h
  | mmap =>
    simp only at h
    split at h
    · exact hF b h
    · exact hM b h
  | buffer =>
    simp only at h
    split at h
    · cases h
    · exact hM b h

/-- **The logical-type accessor returns what the file states — for every element of every schema.**
Let the footer of a file be ANY compact-protocol encoding `bs` (short or long headers, unknown
fields of any wire type at any level) of a FileMetaData value `m`, and let the file open in any
I/O mode.  Then the reader's schema has exactly the elements of `m`, and for every index `i`
(`carquet_schema_get_element(schema, i)`, leaf or group, at any depth):
`carquet_schema_node_logical_type` returns the logical type the element's Thrift value states
(`Spec.SchemaAnnot.statedLogical`: the union member with its parameters — DECIMAL scale/precision,
TIME/TIMESTAMP unit and UTC flag, INTEGER width and sign — and NULL when the element has no
field 10), and the element's converted type is the stated field 6; outside `[0, n)`
`get_element` returns NULL. -/
theorem C17_logical_type_accessor (m : FileMetaData) (hm : m.wf = true) (v' : TVal)
    (hext : ExtD (schFileMeta 27) (fileMetaDataTV m) v') (bs : List UInt8) (henc : Encodes v' bs)
    (mode : Mode) (file : List UInt8) (hfile : footerBytes file = bs) (o : Opened) (ho : openFile mode file = .ok o) :
    o.md.schema.length = m.schema.length ∧
    (∀ (i : Nat) (s : SchemaElement), m.schema[i]? = some s →
      ∃ e, getElement o.md.schema (i : Int) = some e ∧
        nodeLogicalType e = statedLogical (schemaElementTV s) ∧
        e.convertedType = statedConverted (schemaElementTV s) ∧
        nodeMaxDefLevel e = nodeMaxDefLevel s ∧ nodeMaxRepLevel e = nodeMaxRepLevel s) ∧
    (∀ i : Int, i < 0 ∨ i ≥ m.schema.length → getElement o.md.schema i = none) := by
  have hp := accepts_filemetadata_deep m hm v' hext bs henc []
  rw [List.append_nil] at hp
  have hfoot := openFile_ok_footer mode file o ho
  rw [hfile] at hfoot
  have hmd : o.md = m.norm := by
    unfold parseFooter Carquet.Impl.ThriftParquetReq.parseFileMetaDataReq parseFileMetaData at hfoot
    rw [hp] at hfoot
    simp only [ParseResult.toExcept] at hfoot
    split at hfoot
    · cases hfoot
    · cases hfoot; rfl
  have hs : o.md.schema = m.schema.map SchemaElement.norm := by rw [hmd]; rfl
  refine ⟨by rw [hs]; simp, ?_, ?_⟩
  · intro i s hi
    refine ⟨s.norm, ?_, ?_, ?_, ?_, ?_⟩
    · rw [getElement_nat, hs, List.getElem?_map, hi]; rfl
    · rw [statedLogical_TV]; rfl
    · rw [statedConverted_TV]; rfl
    · rfl
    · rfl
  · intro i hi
    unfold getElement
    rw [if_pos (by rw [hs]; simpa using hi)]

-- non-vacuity: a schema with a DECIMAL leaf, a LIST group, a TIMESTAMP leaf and an un-annotated leaf is a
-- well-formed FileMetaData; its own serialisation is one admissible encoding (ExtD is reflexive)
def exMeta : FileMetaData :=
  { version := 2, numRows := 0, rowGroups := [],
    schema := [{ name := some [0x72], numChildren := 3 },
               { name := some [0x61], type := some 7, typeLength := 9, repetition := some 1,
                 convertedType := some 5, scale := 2, precision := 20, logicalType := some (.decimal 2 20) },
               { name := some [0x67], repetition := some 2, numChildren := 2, convertedType := some 3, logicalType := some .list },
               { name := some [0x74], type := some 2, repetition := some 0, logicalType := some (.timestamp true .nanos) },
               { name := some [0x75], type := some 1, repetition := some 1 }] }
example : exMeta.wf = true ∧ ExtD (schFileMeta 27) (fileMetaDataTV exMeta) (fileMetaDataTV exMeta) ∧
    exMeta.schema.map (fun s => statedLogical (schemaElementTV s)) =
      [none, some (.decimal 2 20), some .list, some (.timestamp true .nanos), none] ∧
    exMeta.schema.map (fun s => statedConverted (schemaElementTV s)) = [none, some 5, some 3, none, none] :=
  ⟨by decide +kernel, extD_refl _ _, by decide +kernel, by decide +kernel⟩

/-- the accessor chain on a parsed element list, as a caller writes it -/
def logicalAt (sch : List SchemaElement) (i : Int) : Option (Option LogicalType) := (getElement sch i).map nodeLogicalType

-- an annotation carquet does not know (union member 16) and an empty union: present, id UNKNOWN (not NULL);
-- the Spec reading says the same
example :
    (parseSchemaElement Cfg.fixed (Dec.init [0x48, 0x01, 0x78, 0x6c, 0x0c, 0x20, 0x00, 0x00, 0x00])).1.logicalType = some .unknown ∧
    statedLogical (.struct [(4, .binary [0x78]), (10, .struct [(16, .struct [])])]) = some .unknown ∧
    statedLogical (.struct [(4, .binary [0x78]), (10, .struct [])]) = some .unknown ∧
    statedLogical (.struct [(4, .binary [0x78])]) = none := by decide +kernel

/-- **The two numberings of logical types are kept apart, as parquet.thrift and carquet's header
define them** (tables re-extracted from the source on every run, `Gen.Api`).  The LogicalType union
numbers its members 1–8, 10–15 (there is no member 9); `carquet_logical_type_id_t` is dense 0–14.
(a) every arm `case N: lt->id = CARQUET_LOGICAL_X` of `parse_logical_type` assigns the enum value of
the annotation that union member N denotes in parquet.thrift (`Spec.SchemaAnnot.memberOf`), and
every member has an arm; (b) the hand-written parser model makes the same assignment on each
member; (c) `write_logical_type` is the inverse table (as a set of arms: the order of the `case` arms of a
switch over a union does not matter); (d) the TimeUnit union (1 MILLIS, 2 MICROS,
3 NANOS) and the parameter field numbers (DECIMAL 1 scale 2 precision, TIME/TIMESTAMP 1
isAdjustedToUTC 2 unit, INTEGER 1 bitWidth 2 isSigned) are the format's; (e) the public enums have
the values the model's `logicalId` / `unitCode` use. -/
theorem C17_logical_member_table :
    Gen.Api.logicalParseArms.all (fun a => (memberOf (a.1, .struct [])).map logicalId == some a.2.toNat) = true ∧
    ([1, 2, 3, 4, 5, 6, 7, 8, 10, 11, 12, 13, 14, 15] : List Int).all (fun k => Gen.Api.logicalParseArms.any (fun a => a.1 == k)) = true ∧
    (Gen.Api.logicalParseArms.map (·.1)).Nodup ∧
    Gen.Api.logicalParseArms.all (fun a =>
      logicalId (logicalBody Cfg.fixed 12 a.1 (Dec.init [0]) (.unknown, false)).1.1 == a.2.toNat) = true ∧
    (Gen.Api.logicalWriteArms.map (fun a => (a.2, a.1))).all (Gen.Api.logicalParseArms.contains ·) = true ∧
    Gen.Api.logicalParseArms.all ((Gen.Api.logicalWriteArms.map (fun a => (a.2, a.1))).contains ·) = true ∧
    (Gen.Api.logicalWriteArms.map (·.1)).Nodup ∧
    Gen.Api.logicalParseUnits.all (fun u => unitCode (unitOf (some (.struct [(u.2.1, .struct [])]))) == u.2.2) = true ∧
    Gen.Api.logicalParseUnits.map (fun u => (u.1, u.2.1)) =
      [("time", 1), ("time", 2), ("time", 3), ("timestamp", 1), ("timestamp", 2), ("timestamp", 3)] ∧
    Gen.Api.logicalParseParams = [("decimal", "scale", 1), ("decimal", "precision", 2), ("time", "is_adjusted_to_utc", 1),
      ("timestamp", "is_adjusted_to_utc", 1), ("integer", "bit_width", 1), ("integer", "is_signed", 2)] ∧
    Gen.Api.logicalIds = [("CARQUET_LOGICAL_UNKNOWN", 0), ("CARQUET_LOGICAL_STRING", 1), ("CARQUET_LOGICAL_MAP", 2),
      ("CARQUET_LOGICAL_LIST", 3), ("CARQUET_LOGICAL_ENUM", 4), ("CARQUET_LOGICAL_DECIMAL", 5), ("CARQUET_LOGICAL_DATE", 6),
      ("CARQUET_LOGICAL_TIME", 7), ("CARQUET_LOGICAL_TIMESTAMP", 8), ("CARQUET_LOGICAL_INTEGER", 9), ("CARQUET_LOGICAL_NULL", 10),
      ("CARQUET_LOGICAL_JSON", 11), ("CARQUET_LOGICAL_BSON", 12), ("CARQUET_LOGICAL_UUID", 13), ("CARQUET_LOGICAL_FLOAT16", 14)] ∧
    Gen.Api.timeUnits = [("CARQUET_TIME_UNIT_MILLIS", 0), ("CARQUET_TIME_UNIT_MICROS", 1), ("CARQUET_TIME_UNIT_NANOS", 2)] := by
  decide +kernel

-- the members whose two numbers differ: union field 10 is INTEGER (enum 9), 11 NULL (10), …, 15 FLOAT16 (14)
example : ([10, 11, 12, 13, 14, 15] : List Int).map (fun k => (memberOf (k, .struct [])).map logicalId) =
    [some 9, some 10, some 11, some 12, some 13, some 14] ∧ memberOf (9, .struct []) = none := by decide +kernel

/-- **Per-node level accessors and the leaf levels.**  `carquet_schema_node_max_def_level` /
`_max_rep_level` return the node's OWN contribution (1 for OPTIONAL or REPEATED, resp. for REPEATED,
else 0) — not the column's level.  For every well-formed schema tree, stored as the element list
`sch`: the levels `build_schema` assigns to column k (those the column readers use,
`C17_traverse_eq_spec`) are the SUMS of the accessor values over the nodes on the path from below
the root to the k-th leaf, and the column's element is the last node of that path. -/
theorem C17_node_levels_sum_to_leaf_levels (root : Node) (h : WellFormed root) (sch : List SchemaElement)
    (hsch : sch.map toElement = flatten root) :
    Impl.Schema.build (sch.map toElement) =
      some ((paths root).map (fun p => (⟨p.getLastD 0, accSum sch nodeMaxDefLevel p, accSum sch nodeMaxRepLevel p⟩ : Leaf))) ∧
    (∀ e : SchemaElement, nodeMaxDefLevel e = defInc (toElement e).info.rep ∧ nodeMaxRepLevel e = repInc (toElement e).info.rep) := by
  refine ⟨?_, fun e => ⟨nodeMaxDef_eq e, nodeMaxRep_eq e⟩⟩
  rw [hsch, C17_traverse_eq_spec root h]
  cases root with
  | leaf _ => exact absurd h (by simp [WellFormed, wellFormedB])
  | group i cs =>
    rw [leaves_eq_paths i cs]
    congr 1
    apply List.map_congr_left
    intro p _
    simp only [leafOfPath, (accSum_eq sch p).1, (accSum_eq sch p).2, hsch]

-- the example tree of file_reader.c's comment: column "g" = element 7 under the REPEATED group "e" (element 5):
-- path [5, 7], accessor values 1+1 / 1+0
def exSch : List SchemaElement :=
  [{ name := some [0x73], numChildren := 3 },
   { name := some [0x61], type := some 1, repetition := some 1 },
   { name := some [0x62], repetition := some 1, numChildren := 2 },
   { name := some [0x63], type := some 1, repetition := some 0 }, { name := some [0x64], type := some 1, repetition := some 1 },
   { name := some [0x65], repetition := some 2, numChildren := 2 },
   { name := some [0x66], type := some 1, repetition := some 0 }, { name := some [0x67], type := some 1, repetition := some 1 }]
def exSchTree : Node :=
  .group ⟨"s", none, none, 0, none, none⟩ [
    .leaf ⟨"a", some .optional, some 1, 0, none, none⟩,
    .group ⟨"b", some .optional, none, 0, none, none⟩ [.leaf ⟨"c", some .required, some 1, 0, none, none⟩, .leaf ⟨"d", some .optional, some 1, 0, none, none⟩],
    .group ⟨"e", some .repeated, none, 0, none, none⟩ [.leaf ⟨"f", some .required, some 1, 0, none, none⟩, .leaf ⟨"g", some .optional, some 1, 0, none, none⟩]]
example : WellFormed exSchTree ∧ exSch.map toElement = flatten exSchTree ∧
    paths exSchTree = [[1], [2, 3], [2, 4], [5, 6], [5, 7]] ∧
    (paths exSchTree).map (fun p => (p.getLastD 0, accSum exSch nodeMaxDefLevel p, accSum exSch nodeMaxRepLevel p)) =
      [(1, 1, 0), (3, 1, 0), (4, 2, 0), (6, 1, 1), (7, 2, 1)] ∧
    exSch.map nodeMaxDefLevel = [0, 1, 1, 0, 1, 1, 0, 1] := by decide +kernel

/-- **Builder with logical types, and the written file.**  For ANY sequence of
`carquet_schema_add_column` calls WITH a `logical_type` argument (any union member with any
parameters, or NULL) and `carquet_schema_add_group` calls:
(a) element k+1 of the builder's schema is the k-th call's element, and
`carquet_schema_node_logical_type` on it returns exactly the argument passed (NULL for NULL and
for groups; a non-NULL `{UNKNOWN}` stays non-NULL);
(b) `carquet_writer_create` + `build_file_metadata` put the root and one element per COLUMN into
the footer, and reading that footer back (`parquet_write_file_metadata` then
`parquet_parse_file_metadata`) gives elements whose logical-type accessor returns the argument of
the j-th add_column call — with the one collapse the writer makes: `{UNKNOWN}` comes back as NULL
(`has_logical_type` is only set for `id != CARQUET_LOGICAL_UNKNOWN`). -/
theorem C17_builder_logical_types (calls : List Impl.SchemaApi.Call) :
    (∀ (k : Nat) (c : Impl.SchemaApi.Call), calls[k]? = some c →
      logicalAt (Builder.run calls).elements ((k : Nat) + 1 : Nat) = some c.logical) ∧
    (Builder.run calls).elements.length = calls.length + 1 ∧
    (∀ md : FileMetaData, md.schema = writerSchema (Builder.run calls) → md.wf = true →
      ∃ md', parseFileMetaData (writeFileMetaData md) = .ok md' ∧
        md'.schema.length = (calls.filter Impl.SchemaApi.Call.isColumn).length + 1 ∧
        ∀ (j : Nat) (c : Impl.SchemaApi.Call), (calls.filter Impl.SchemaApi.Call.isColumn)[j]? = some c →
          logicalAt md'.schema ((j : Nat) + 1 : Nat) = some (normLogical c.logical)) := by
  have hc := closed_run calls
  refine ⟨?_, by rw [hc.elements]; simp, ?_⟩
  · intro k c hk
    unfold logicalAt
    rw [getElement_nat, hc.elements]
    simp only [List.getElem?_cons_succ, List.getElem?_map, hk, Option.map_some]
    cases c <;> rfl
  · intro md hmd hwf
    obtain ⟨hp, _⟩ := roundtrip_filemetadata md hwf
    refine ⟨md.norm, ?_, ?_, ?_⟩
    · unfold parseFileMetaData; rw [hp]; rfl
    · show (md.schema.map SchemaElement.norm).length = _
      rw [hmd, writerSchema_run]; simp
    · intro j c hj
      unfold logicalAt
      rw [getElement_nat]
      show ((md.schema.map SchemaElement.norm)[j + 1]?).map nodeLogicalType = _
      rw [hmd, writerSchema_run]
      simp only [List.map_cons, List.getElem?_cons_succ, List.getElem?_map, hj, Option.map_some]
      rw [show nodeLogicalType (SchemaElement.norm (writerElement c.element)) = normLogical c.logical from
        norm_writerElement_logical c]

-- non-vacuity: DECIMAL(9,2) column, a group, a column with {UNKNOWN}, a TIME(MICROS, utc) column, a plain one
def exCalls : List Impl.SchemaApi.Call :=
  [.column [0x61] 1 (some (.decimal 2 9)) 0 0, .group [0x67] 1, .column [0x62] 6 (some .unknown) 1 0,
   .column [0x63] 2 (some (.time true .micros)) 2 0, .column [0x64] 5 none 0 0]
example :
    (List.range 7).map (fun i => logicalAt (Builder.run exCalls).elements (i : Nat)) =
      [some none, some (some (.decimal 2 9)), some none, some (some .unknown), some (some (.time true .micros)), some none, none] ∧
    (writerSchema (Builder.run exCalls)).map (·.logicalType) = [none, some (.decimal 2 9), none, some (.time true .micros), none] ∧
    FileMetaData.wf { version := 2, schema := writerSchema (Builder.run exCalls), numRows := 0, rowGroups := [] } = true := by
  decide +kernel

end Carquet.Properties.C17
