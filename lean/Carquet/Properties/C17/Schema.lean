import Carquet.Proofs.Schema
/-
C17 — schema trees map to the right leaf columns and def/rep levels.
Property statements only; helper lemmas are in Carquet/Proofs/Schema.lean.
`WellFormed root`: the root is a group with at least one child and every inner group has at
least one child (what the Parquet format requires of a schema; an empty group would be stored
with `num_children = 0` and is indistinguishable from a leaf), groups carry no physical type
and leaves carry one (the reader refuses anything else since fix 153ae4b).
-/
namespace Carquet.Properties.C17
open Carquet Carquet.Spec.Schema Carquet.Impl.Schema Carquet.Proofs.Schema

def wellFormedB : Node → Bool
  | .leaf _ => false
  | .group i cs => groupsNonEmpty (.group i cs) && typed (.group i cs)

def WellFormed (root : Node) : Prop := wellFormedB root = true

instance (root : Node) : Decidable (WellFormed root) := by unfold WellFormed; infer_instance

/-- For every schema tree (any nesting of required/optional/repeated groups and leaves, any
depth, any size), `build_schema` run on its depth-first element list exposes exactly the
leaves in depth-first order, with max definition level = number of optional-or-repeated nodes
on the path and max repetition level = number of repeated nodes on the path. -/
theorem C17_traverse_eq_spec : ∀ root : Node, WellFormed root →
    Impl.Schema.build (flatten root) = some (leaves root) := by
  intro root h
  cases root with
  | leaf _ => exact absurd h (by simp [WellFormed, wellFormedB])
  | group i cs =>
    have h' : groupsNonEmpty (.group i cs) = true ∧ typed (.group i cs) = true := by
      simpa [WellFormed, wellFormedB] using h
    exact build_flatten i cs h'.1 h'.2

def exInfo (n : String) (r : Option Rep) : Info := ⟨n, r, some 1, 0, none, none⟩
def exGroup (n : String) (r : Option Rep) : Info := ⟨n, r, none, 0, none, none⟩
/-- the example of the comment in file_reader.c -/
def exTree : Node :=
  .group (exGroup "schema" none) [
    .leaf (exInfo "a" (some .optional)),
    .group (exGroup "b" (some .optional)) [.leaf (exInfo "c" (some .required)), .leaf (exInfo "d" (some .optional))],
    .group (exGroup "e" (some .repeated)) [.leaf (exInfo "f" (some .required)), .leaf (exInfo "g" (some .optional))]]
example : WellFormed exTree := by decide
example : Impl.Schema.build (flatten exTree) = some [⟨1, 1, 0⟩, ⟨3, 1, 0⟩, ⟨4, 2, 0⟩, ⟨6, 1, 1⟩, ⟨7, 2, 1⟩] := by
  rw [C17_traverse_eq_spec exTree (by decide)]; decide

/-- The number of columns is the number of leaves of the tree. -/
theorem C17_column_count : ∀ root : Node, WellFormed root →
    countLeaves (flatten root) = (leaves root).length := by
  intro root h
  cases root with
  | leaf _ => exact absurd h (by simp [WellFormed, wellFormedB])
  | group i cs =>
    have h' : groupsNonEmpty (.group i cs) = true ∧ typed (.group i cs) = true := by
      simpa [WellFormed, wellFormedB] using h
    exact countLeaves_root i cs h'.1
example : countLeaves (flatten exTree) = 5 := by decide

/-- Column k points at the schema element of the k-th leaf of the tree: name, type,
repetition, type length and logical type read through a column's element are what the file
states for that leaf. -/
theorem C17_accessors : ∀ root : Node, WellFormed root →
    (leaves root).map (fun l => (flatten root)[l.elemIdx]?) =
      (leafInfosOf root).map (fun i => some (⟨i, 0⟩ : Element)) := by
  intro root h
  cases root with
  | leaf _ => exact absurd h (by simp [WellFormed, wellFormedB])
  | group i cs =>
    have := leaf_elements_list cs [⟨i, cs.length⟩] [] 0 0
    simpa [leaves, flatten, leafInfosOf] using this
example : (leaves exTree).map (fun l => ((flatten exTree)[l.elemIdx]?).map (·.info.name)) =
    [some "a", some "c", some "d", some "f", some "g"] := by decide

/-- Lookup by name returns the first column (in depth-first leaf order) whose leaf carries
that name, or nothing when no leaf does. -/
theorem C17_find_by_name : ∀ (root : Node) (name : String), WellFormed root →
    findColumn (flatten root) (leaves root) name =
      (leafInfosOf root).findIdx? (fun i => i.name == name) := by
  intro root name h
  have hacc := C17_accessors root h
  unfold findColumn
  generalize leaves root = ls at hacc
  generalize leafInfosOf root = infos at hacc
  induction ls generalizing infos with
  | nil => cases infos <;> simp_all
  | cons l ls ih =>
    cases infos with
    | nil => simp at hacc
    | cons i is =>
      simp only [List.map_cons, List.cons.injEq] at hacc
      have := ih is hacc.2
      simp [List.findIdx?_cons, hacc.1, this]
example : findColumn (flatten exTree) (leaves exTree) "d" = some 2 ∧
    findColumn (flatten exTree) (leaves exTree) "b" = none := by decide

/-- Schemas built through the builder API: for ANY number of `add_column` calls (also past the
initial capacity of 64, the element array is only ever appended to) the builder's elements
are the depth-first list of the flat tree with those leaves, and its columns/levels are the
ones the format rule gives for that tree. -/
theorem C17_builder_flat : ∀ infos : List Info,
    (infos.foldl Builder.addColumn Builder.create).elements =
        flatten (.group rootInfo (infos.map Node.leaf)) ∧
    (infos.foldl Builder.addColumn Builder.create).leaves =
        leaves (.group rootInfo (infos.map Node.leaf)) ∧
    (infos.foldl Builder.addColumn Builder.create).leaves.length = infos.length := by
  intro infos
  obtain ⟨h1, h2⟩ := builder_closed_form infos
  refine ⟨?_, ?_, ?_⟩
  · simp [h1, flatten, flattenList_leaves]
  · simp [h2, leaves, leavesOfList_leaves]
  · simp [h2]
example : (([exInfo "x" (some .repeated), exInfo "y" (some .optional)].foldl Builder.addColumn Builder.create).leaves
    = [⟨1, 1, 1⟩, ⟨2, 1, 0⟩]) := by decide

/-- Capacity growth of the builder always reaches the required size (the doubling loop of
`schema_ensure_capacity`), so growth never loses an element. -/
theorem C17_builder_capacity : ∀ infos : List Info,
    (infos.foldl Builder.addColumn Builder.create).elements.length = infos.length + 1 := by
  intro infos
  obtain ⟨h1, _⟩ := builder_closed_form infos
  simp [h1]

/-- (used by C04) `compute_levels` does at most `2 * num_elements` loop iterations and calls for
ANY element list, whatever the child counts claim — this is the statement that was false
before the fix of F10. -/
theorem C17_traversal_linear : ∀ els : List Element, buildSteps els ≤ 2 * els.length :=
  buildSteps_linear
example : buildSteps [⟨exInfo "r" none, 2147483647⟩, ⟨exInfo "g" (some .optional), 2147483647⟩,
    ⟨exInfo "l" (some .optional), 0⟩] ≤ 6 := C17_traversal_linear _

end Carquet.Properties.C17
