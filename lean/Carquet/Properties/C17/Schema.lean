namespace Carquet.Properties.C17
end Carquet.Properties.C17
