import Carquet.Spec.Kernels
import Carquet.Impl.Simd
import Carquet.Impl.Dispatch
import Carquet.Gen.Dispatch
import Carquet.Proofs.SimdBlocked
import Carquet.Proofs.SimdPrefix
import Carquet.Proofs.SimdBss
import Carquet.Proofs.SimdBools
import Carquet.Proofs.SimdLevels
import Carquet.Proofs.SimdKernels
import Carquet.Proofs.SimdDispatch
/-
C15 — SIMD kernels equal their scalar definitions (partial by nature: the theorems are about the
lane-level models of `Impl/Simd.lean`; the kernels not modelled with intrinsics are tied to
`Spec.Kernels` by the correspondence run only).  Property statements only; helper lemmas live in
`Carquet/Proofs/Simd*.lean`.
-/
namespace Carquet.Properties.C15
open Carquet Carquet.Impl.Simd
open Carquet.Proofs

/-! ## 1. The blocked loop: vector loop over full blocks + scalar remainder = scalar loop,
for every count (0 and every remainder included), touching only elements below the count -/

/-- map shape (gather, byte-stream split, bool pack/unpack, null bitmap, fill, memcpy).
`scalar` may work at any granularity (e.g. 8 flags -> 1 byte) as long as it splits at block
boundaries (`hhom`). -/
theorem C15_blocked_eq_scalar_map {α β : Type} (W : Nat) (hW : 0 < W) (blk tail scalar : List α → List β)
    (hblk : ∀ b, b.length = W → blk b = scalar b)
    (htail : ∀ t, t.length < W → tail t = scalar t)
    (hhom : ∀ a r, a.length = W → scalar (a ++ r) = scalar a ++ scalar r) :
    ∀ xs : List α, blockedMap W blk tail xs = scalar xs ∧
      (∀ a ∈ accesses W xs.length, a.1 + a.2 ≤ xs.length) ∧
      ((accesses W xs.length).map (·.2)).sum = xs.length :=
  fun xs => ⟨SimdBlocked.blockedMap_eq W hW blk tail scalar hblk htail hhom xs,
             SimdBlocked.accesses_in_bounds W xs.length, SimdBlocked.accesses_cover W xs.length⟩

/-- map shape restricted to a domain `P` of element values (pack_bools: bytes 0/1) -/
theorem C15_blocked_eq_scalar_map_dom {α β : Type} (P : α → Prop) (W : Nat) (hW : 0 < W)
    (blk tail scalar : List α → List β)
    (hblk : ∀ b, b.length = W → (∀ x ∈ b, P x) → blk b = scalar b)
    (htail : ∀ t, t.length < W → (∀ x ∈ t, P x) → tail t = scalar t)
    (hhom : ∀ a r, a.length = W → scalar (a ++ r) = scalar a ++ scalar r) :
    ∀ xs : List α, (∀ x ∈ xs, P x) → blockedMap W blk tail xs = scalar xs :=
  fun xs hP => SimdBlocked.blockedMap_eq_dom P W hW blk tail scalar hblk htail hhom xs hP

/-- scan shape (prefix sums): a carry runs through the blocks -/
theorem C15_blocked_eq_scalar_scan {σ α β : Type} (W : Nat) (blk : σ → List α → List β × σ)
    (step : σ → α → β × σ)
    (hblk : ∀ c b, b.length = W → blk c b = scalarScan step c b) :
    ∀ (c : σ) (xs : List α), blockedScan W blk step c xs = scalarScan step c xs ∧
      (∀ a ∈ accesses W xs.length, a.1 + a.2 ≤ xs.length) :=
  fun c xs => ⟨SimdBlocked.blockedScan_eq W blk step hblk c xs, SimdBlocked.accesses_in_bounds W xs.length⟩

/-- reduce shape (count_non_nulls, crc32c) -/
theorem C15_blocked_eq_scalar_reduce {σ α : Type} (W : Nat) (hW : 0 < W) (blk tail : σ → List α → σ)
    (step : σ → α → σ)
    (hblk : ∀ c b, b.length = W → blk c b = b.foldl step c)
    (htail : ∀ c t, t.length < W → tail c t = t.foldl step c) :
    ∀ (c : σ) (xs : List α), blockedFold W blk tail c xs = xs.foldl step c ∧
      (∀ a ∈ accesses W xs.length, a.1 + a.2 ≤ xs.length) :=
  fun c xs => ⟨SimdBlocked.blockedFold_eq W hW blk tail step hblk htail c xs,
               SimdBlocked.accesses_in_bounds W xs.length⟩

/-- search shape (find_run_length, match_length): the result is the index of the first hit (the
count if there is none); a search stopping in block `j < count / W` touches blocks `0..j` only -/
theorem C15_blocked_eq_scalar_search {α : Type} (W : Nat) (blk : List α → Option Nat) (p : α → Bool)
    (hblk : ∀ b, b.length = W → blk b = if firstIdx p b < W then some (firstIdx p b) else none) :
    ∀ xs : List α, blockedSearch W blk p xs = firstIdx p xs ∧ firstIdx p xs ≤ xs.length ∧
      (∀ s, (∀ j, s = some j → j < xs.length / W) → ∀ a ∈ searchAccesses W xs.length s, a.1 + a.2 ≤ xs.length) :=
  fun xs => ⟨SimdBlocked.blockedSearch_eq W blk p hblk xs, SimdBlocked.firstIdx_le p xs,
             fun s hs => SimdBlocked.searchAccesses_in_bounds W xs.length s hs⟩

-- non-vacuity: the SSE prefix-sum block step satisfies `hblk` of the scan theorem (W = 4), and
-- the count 7 = 1 block + remainder 3 touches [0,4), 4, 5, 6.
example : ∀ c b, b.length = 4 → ssePrefixSumI32Blk c b = scalarScan psStep c b := SimdPrefix.sse_i32_block
example : accesses 4 7 = [(0, 4), (4, 1), (5, 1), (6, 1)] := by decide
example : accesses 4 0 = [] := by decide

/-! ## 2. Kernels modelled with intrinsics: block lemma (all inputs) and corollary (all counts) -/

/-! ### prefix sums -/

theorem C15_sse_prefix_sum_i32_block : ∀ (c : BitVec 32) (b : List (BitVec 32)), b.length = 4 →
    ssePrefixSumI32Blk c b = scalarScan psStep c b := SimdPrefix.sse_i32_block
theorem C15_sse_prefix_sum_i32_eq_scalar (init : BitVec 32) (vals : List (BitVec 32)) :
    ssePrefixSumI32 init vals = Spec.Kernels.prefixSum init vals := SimdKernels.sse_prefix_i32 init vals

theorem C15_sse_prefix_sum_i64_block : ∀ (c : BitVec 64) (b : List (BitVec 64)), b.length = 2 →
    ssePrefixSumI64Blk c b = scalarScan psStep c b := SimdPrefix.sse_i64_block
theorem C15_sse_prefix_sum_i64_eq_scalar (init : BitVec 64) (vals : List (BitVec 64)) :
    ssePrefixSumI64 init vals = Spec.Kernels.prefixSum init vals := SimdKernels.sse_prefix_i64 init vals

/-- includes the cross-lane fix-up (`_mm256_slli_si256` shifts inside each 128-bit half) -/
theorem C15_avx2_prefix_sum_i32_block : ∀ (c : BitVec 32) (b : List (BitVec 32)), b.length = 8 →
    avx2PrefixSumI32Blk c b = scalarScan psStep c b := SimdPrefix.avx2_i32_block
theorem C15_avx2_prefix_sum_i32_eq_scalar (init : BitVec 32) (vals : List (BitVec 32)) :
    avx2PrefixSumI32 init vals = Spec.Kernels.prefixSum init vals := SimdKernels.avx2_prefix_i32 init vals

theorem C15_avx2_prefix_sum_i64_block : ∀ (c : BitVec 64) (b : List (BitVec 64)), b.length = 4 →
    avx2PrefixSumI64Blk c b = scalarScan psStep c b := SimdPrefix.avx2_i64_block
theorem C15_avx2_prefix_sum_i64_eq_scalar (init : BitVec 64) (vals : List (BitVec 64)) :
    avx2PrefixSumI64 init vals = Spec.Kernels.prefixSum init vals := SimdKernels.avx2_prefix_i64 init vals

/-- the `_mm512_maskz_alignr_epi32` ladder (shifts by 1, 2, 4, 8 lanes) -/
theorem C15_avx512_prefix_sum_i32_block : ∀ (c : BitVec 32) (b : List (BitVec 32)), b.length = 16 →
    avx512PrefixSumI32Blk c b = scalarScan psStep c b := SimdPrefix.avx512_i32_block
theorem C15_avx512_prefix_sum_i32_eq_scalar (init : BitVec 32) (vals : List (BitVec 32)) :
    avx512PrefixSumI32 init vals = Spec.Kernels.prefixSum init vals := SimdKernels.avx512_prefix_i32 init vals

theorem C15_avx512_prefix_sum_i64_block : ∀ (c : BitVec 64) (b : List (BitVec 64)), b.length = 8 →
    avx512PrefixSumI64Blk c b = scalarScan psStep c b := SimdPrefix.avx512_i64_block
theorem C15_avx512_prefix_sum_i64_eq_scalar (init : BitVec 64) (vals : List (BitVec 64)) :
    avx512PrefixSumI64 init vals = Spec.Kernels.prefixSum init vals := SimdKernels.avx512_prefix_i64 init vals

-- wrap-around instance: 9 elements = 2 SSE blocks + remainder 1 / 1 AVX2 block + remainder 1
example : ssePrefixSumI32 0x7FFFFFFF#32 [1#32, 2#32, 3#32, 4#32, 5#32, 6#32, 7#32, 8#32, 0x80000000#32] =
    [0x80000000#32, 0x80000002#32, 0x80000005#32, 0x80000009#32, 0x8000000E#32, 0x80000014#32,
     0x8000001B#32, 0x80000023#32, 0x00000023#32] := by decide
example : avx2PrefixSumI32 0x7FFFFFFF#32 [1#32, 2#32, 3#32, 4#32, 5#32, 6#32, 7#32, 8#32, 0x80000000#32] =
    Spec.Kernels.prefixSum 0x7FFFFFFF#32 [1#32, 2#32, 3#32, 4#32, 5#32, 6#32, 7#32, 8#32, 0x80000000#32] := by decide

/-! ### BYTE_STREAM_SPLIT, float -/

theorem C15_sse_bss_encode_float_block : ∀ b : List (BitVec 32), b.length = 4 → sseBssEncBlk b = bssEncScalar b :=
  SimdBss.sse_enc_block
theorem C15_sse_bss_encode_float_eq_scalar (vals : List (BitVec 32)) :
    sseBssEncodeFloat vals = Spec.Kernels.bssEncode (k := 4) vals := SimdKernels.sse_bss_enc vals

theorem C15_avx2_bss_encode_float_block : ∀ b : List (BitVec 32), b.length = 8 → avx2BssEncBlk b = bssEncScalar b :=
  SimdBss.avx2_enc_block
theorem C15_avx2_bss_encode_float_eq_scalar (vals : List (BitVec 32)) :
    avx2BssEncodeFloat vals = Spec.Kernels.bssEncode (k := 4) vals := SimdKernels.avx2_bss_enc vals

theorem C15_avx512_bss_encode_float_block : ∀ b : List (BitVec 32), b.length = 16 →
    avx512BssEncBlk b = bssEncScalar b := SimdBss.avx512_enc_block
theorem C15_avx512_bss_encode_float_eq_scalar (vals : List (BitVec 32)) :
    avx512BssEncodeFloat vals = Spec.Kernels.bssEncode (k := 4) vals := SimdKernels.avx512_bss_enc vals

theorem C15_sse_bss_decode_float_block : ∀ b : List T4, b.length = 4 → sseBssDecBlk b = bssDecScalar b :=
  SimdBss.sse_dec_block
theorem C15_avx2_bss_decode_float_block : ∀ b : List T4, b.length = 8 → avx2BssDecBlk b = bssDecScalar b :=
  SimdBss.avx2_dec_block
theorem C15_avx512_bss_decode_float_block : ∀ b : List T4, b.length = 16 → avx512BssDecBlk b = bssDecScalar b :=
  SimdBss.avx512_dec_block

theorem C15_sse_bss_decode_float_eq_scalar (n : Nat) (data : List UInt8) (h : data.length = 4 * n) :
    some (sseBssDecodeFloat (zipStreams n data)) = Spec.Kernels.bssDecode 4 n data :=
  SimdKernels.bss_dec 4 (by decide) sseBssDecBlk SimdBss.sse_dec_block n data h
theorem C15_avx2_bss_decode_float_eq_scalar (n : Nat) (data : List UInt8) (h : data.length = 4 * n) :
    some (avx2BssDecodeFloat (zipStreams n data)) = Spec.Kernels.bssDecode 4 n data :=
  SimdKernels.bss_dec 8 (by decide) avx2BssDecBlk SimdBss.avx2_dec_block n data h
theorem C15_avx512_bss_decode_float_eq_scalar (n : Nat) (data : List UInt8) (h : data.length = 4 * n) :
    some (avx512BssDecodeFloat (zipStreams n data)) = Spec.Kernels.bssDecode 4 n data :=
  SimdKernels.bss_dec 16 (by decide) avx512BssDecBlk SimdBss.avx512_dec_block n data h

example : sseBssEncodeFloat [0x04030201#32, 0x14131211#32, 0x24232221#32, 0x34333231#32, 0x44434241#32] =
    [0x01, 0x11, 0x21, 0x31, 0x41, 0x02, 0x12, 0x22, 0x32, 0x42, 0x03, 0x13, 0x23, 0x33, 0x43,
     0x04, 0x14, 0x24, 0x34, 0x44] := by decide
example : (4 : Nat) * 2 = [1, 2, 3, 4, 5, 6, 7, (8 : UInt8)].length := rfl

/-! ### booleans -/

theorem C15_sse_unpack_bools_block : ∀ b : List UInt8, b.length = 2 → sseUnpackBlk b = unpackScalar b :=
  SimdBools.sse_unpack_block
theorem C15_sse_unpack_bools_eq_scalar (bytes : List UInt8) (count : Nat) (h : count ≤ 8 * bytes.length) :
    some (sseUnpackBools bytes count) = Spec.Kernels.unpackBools bytes count :=
  SimdBools.unpack_eq 16 2 rfl (by decide) _ SimdBools.sse_unpack_block bytes count h

theorem C15_avx2_unpack_bools_block : ∀ b : List UInt8, b.length = 4 → avx2UnpackBlk b = unpackScalar b :=
  SimdBools.avx2_unpack_block
theorem C15_avx2_unpack_bools_eq_scalar (bytes : List UInt8) (count : Nat) (h : count ≤ 8 * bytes.length) :
    some (avx2UnpackBools bytes count) = Spec.Kernels.unpackBools bytes count :=
  SimdBools.unpack_eq 32 4 rfl (by decide) _ SimdBools.avx2_unpack_block bytes count h

theorem C15_avx512_unpack_bools_block : ∀ b : List UInt8, b.length = 8 → avx512UnpackBlk b = unpackScalar b :=
  SimdBools.avx512_unpack_block
theorem C15_avx512_unpack_bools_eq_scalar (bytes : List UInt8) (count : Nat) (h : count ≤ 8 * bytes.length) :
    some (avx512UnpackBools bytes count) = Spec.Kernels.unpackBools bytes count :=
  SimdBools.unpack_eq 64 8 rfl (by decide) _ SimdBools.avx512_unpack_block bytes count h

example : (19 : Nat) ≤ 8 * [0xA5, 0x0F, (0x07 : UInt8)].length := by decide
example : sseUnpackBools [0xA5, 0x0F, 0x07] 19 = [1,0,1,0,0,1,0,1, 1,1,1,1,0,0,0,0, 1,1,1] := by decide

/-- SSE and AVX2 look at bit 0 / multiply by the byte: equal to the scalar definition on the
documented domain (every byte 0 or 1) -/
theorem C15_sse_pack_bools_block : ∀ b : List UInt8, b.length = 8 → (∀ x ∈ b, x = 0 ∨ x = 1) →
    ssePackBlk b = packScalar b := SimdBools.sse_pack_block
theorem C15_sse_pack_bools_eq_scalar (xs : List UInt8) (hd : ∀ x ∈ xs, x = 0 ∨ x = 1) :
    ssePackBools xs = Spec.Kernels.packBools xs := SimdKernels.sse_pack xs hd

theorem C15_avx2_pack_bools_block : ∀ b : List UInt8, b.length = 8 → (∀ x ∈ b, x = 0 ∨ x = 1) →
    avx2PackBlk b = packScalar b := SimdBools.avx2_pack_block
theorem C15_avx2_pack_bools_eq_scalar (xs : List UInt8) (hd : ∀ x ∈ xs, x = 0 ∨ x = 1) :
    avx2PackBools xs = Spec.Kernels.packBools xs := SimdKernels.avx2_pack xs hd

/-- AVX-512 tests for non-zero like the scalar loop: all inputs; the remainder (masked load,
`(r+7)/8` bytes stored) is modelled too -/
theorem C15_avx512_pack_bools_block : ∀ b : List UInt8, b.length = 64 → avx512PackBlk b = packScalar b :=
  SimdBools.avx512_pack_block
theorem C15_avx512_pack_bools_eq_scalar (xs : List UInt8) :
    avx512PackBools xs = Spec.Kernels.packBools xs := SimdKernels.avx512_pack xs

example : ssePackBools [1, 0, 1, 1, 0, 0, 0, 0, 1, 1] = [0x0D, 0x03] := by decide
-- outside the domain the three implementations are three different functions (recorded, not a defect:
-- the C comment says "Input bytes should be 0 or 1")
example : ssePackBools [2, 0, 0, 0, 0, 0, 0, 0] = [0] ∧ avx2PackBools [2, 0, 0, 0, 0, 0, 0, 0] = [2] ∧
    Spec.Kernels.packBools [2, 0, 0, 0, 0, 0, 0, 0] = [1] := by decide

/-! ### definition levels -/

theorem C15_sse_count_non_nulls_block : ∀ (mx : BitVec 16) (c : Nat) (b : List (BitVec 16)), b.length = 8 →
    sseCountNonNullsBlk mx c b = b.foldl (cnnStep mx) c := fun mx c b _ => SimdLevels.sse_count_block mx c b
theorem C15_sse_count_non_nulls_eq_scalar (levels : List (BitVec 16)) (mx : BitVec 16) :
    sseCountNonNulls levels mx = Spec.Kernels.countNonNulls levels mx := SimdKernels.sse_count levels mx

theorem C15_sse_build_null_bitmap_block : ∀ (mx : BitVec 16) (b : List (BitVec 16)), b.length = 8 →
    sseNullBitmapBlk mx b = nullBitmapScalar mx b := SimdLevels.sse_null_bitmap_block
theorem C15_sse_build_null_bitmap_eq_scalar (levels : List (BitVec 16)) (mx : BitVec 16) :
    sseBuildNullBitmap levels mx = Spec.Kernels.buildNullBitmap levels mx := SimdKernels.sse_null_bitmap levels mx

/-- the repaired scalar fallback (FS1) -/
theorem C15_scalar_build_null_bitmap_eq_spec (levels : List (BitVec 16)) (mx : BitVec 16) :
    scalarBuildNullBitmap levels mx = Spec.Kernels.buildNullBitmap levels mx := SimdKernels.scalar_null_bitmap levels mx

theorem C15_sse_fill_def_levels_block : ∀ (v : BitVec 16) (b : List (BitVec 16)), b.length = 8 →
    sseFillBlk v b = b.map fun _ => v := fun v b _ => SimdLevels.sse_fill_block v b
theorem C15_sse_fill_def_levels_eq_scalar (old : List (BitVec 16)) (v : BitVec 16) :
    sseFillDefLevels old v = Spec.Kernels.fillDefLevels old.length v := SimdKernels.sse_fill old v

example : sseCountNonNulls [1#16, 0#16, 1#16, 1#16, 0#16, 1#16, 1#16, 1#16, 0#16, 1#16] 1#16 = 7 := by decide
example : sseBuildNullBitmap [1#16, 0#16, 1#16, 1#16, 0#16, 1#16, 1#16, 1#16, 0#16, 1#16] 1#16 = [0x12, 0x01] := by decide

/-! ### run-length search -/

theorem C15_sse_find_run_length_block : ∀ (first : BitVec 32) (b : List (BitVec 32)), b.length = 4 →
    sseRunBlk first b = if firstIdx (· != first) b < 4 then some (firstIdx (· != first) b) else none :=
  SimdLevels.sse_run_block
theorem C15_sse_find_run_length_eq_scalar (vals : List (BitVec 32)) :
    sseFindRunLength vals = Spec.Kernels.findRunLength vals :=
  SimdKernels.find_run 4 sseRunBlk SimdLevels.sse_run_block vals

theorem C15_avx2_find_run_length_block : ∀ (first : BitVec 32) (b : List (BitVec 32)), b.length = 8 →
    avx2RunBlk first b = if firstIdx (· != first) b < 8 then some (firstIdx (· != first) b) else none :=
  SimdLevels.avx2_run_block
theorem C15_avx2_find_run_length_eq_scalar (vals : List (BitVec 32)) :
    avx2FindRunLength vals = Spec.Kernels.findRunLength vals :=
  SimdKernels.find_run 8 avx2RunBlk SimdLevels.avx2_run_block vals

theorem C15_avx512_find_run_length_block : ∀ (first : BitVec 32) (b : List (BitVec 32)), b.length = 16 →
    avx512RunBlk first b = if firstIdx (· != first) b < 16 then some (firstIdx (· != first) b) else none :=
  SimdLevels.avx512_run_block
theorem C15_avx512_find_run_length_eq_scalar (vals : List (BitVec 32)) :
    avx512FindRunLength vals = Spec.Kernels.findRunLength vals :=
  SimdKernels.find_run 16 avx512RunBlk SimdLevels.avx512_run_block vals

example : sseFindRunLength [7#32, 7#32, 7#32, 7#32, 7#32, 7#32, 9#32, 7#32, 7#32] = 6 := by decide

/-! ### CRC-32C -/

/-- test vector: the check value of CRC-32C (a test of the Spec's transcription, not a proof) -/
theorem C15_crc32c_spec :
    Spec.Kernels.crc32c 0 [0x31, 0x32, 0x33, 0x34, 0x35, 0x36, 0x37, 0x38, 0x39] = 0xE3069283#32 := by
  decide +kernel

/-- every entry of the table the scalar fallback uses (`crc32c_table[256]`, re-extracted on every
run) is eight shifts of the Castagnoli LFSR applied to its index -/
theorem C15_crc32c_table :
    ∀ i : Fin 256, Gen.Dispatch.crc32cTable[i.val]? = some (Spec.Kernels.crcStep8 (BitVec.ofNat 32 i.val)).toNat := by
  decide +kernel

/-- the hardware CRC32 loops (8, 4, 2, 1 bytes) with the repaired pre/post conditioning (F15) -/
theorem C15_sse_crc32c_eq_scalar (crc : BitVec 32) (data : List UInt8) :
    sseCrc32c crc data = Spec.Kernels.crc32c crc data := by
  unfold sseCrc32c Spec.Kernels.crc32c
  rw [SimdLevels.sseCrcLoops_eq]

/-- F15 (pinned tree): `carquet_sse_crc32c` without `~crc` before and after returns 58e3fa20 for
"123456789", the scalar definition e3069283 -/
theorem C15_regression_F15 :
    sseCrc32cPreFix 0 [0x31, 0x32, 0x33, 0x34, 0x35, 0x36, 0x37, 0x38, 0x39] = 0x58E3FA20#32 ∧
    sseCrc32cPreFix 0 [0x31, 0x32, 0x33, 0x34, 0x35, 0x36, 0x37, 0x38, 0x39] ≠
      Spec.Kernels.crc32c 0 [0x31, 0x32, 0x33, 0x34, 0x35, 0x36, 0x37, 0x38, 0x39] := by
  decide +kernel

/-- FS1 (pinned tree): the scalar fallback or-s the partial last bitmap byte into what the
buffer held: levels [1,1,1], max 1 (no nulls) over a byte 0xCD leave 0xCD; the definition and the
SSE variant give 0x00 -/
theorem C15_regression_FS1 :
    scalarBuildNullBitmapPreFix [1#16, 1#16, 1#16] 1#16 [0xCD] = [0xCD] ∧
    Spec.Kernels.buildNullBitmap [1#16, 1#16, 1#16] 1#16 = [0x00] ∧
    sseBuildNullBitmap [1#16, 1#16, 1#16] 1#16 = [0x00] := by
  decide

/-! ## 3. The dispatcher (table re-extracted from dispatch.c / CMakeLists.txt on every run) -/

open Carquet.Impl.Dispatch Carquet.Gen.Dispatch in
/-- for every capability mask (any `Nat` bit set over `Gen.Dispatch.features`) and every slot, the
installed kernel needs only features of the mask (`requiredFeatures` = the `-m` flags its file is
compiled with).  Proved from a static check of the regenerated table (`tableOK`, by `decide`: every
kernel a block installs needs only what the block's own `if` tests) and a lemma about the fold. -/
theorem C15_dispatch_sound :
    ∀ mask slot : Nat, slot < slots.length →
      ∃ k r, select mask slot = some k ∧ requiredFeatures k = some r ∧ subset r mask = true := by
  intro mask slot hs
  have hok : tableOK blocks scalarInit kernelReq = true := by decide
  have hlen : slots.length = scalarInit.length := by decide
  have := SimdDispatch.sound_of_tableOK blocks scalarInit kernelReq hok mask slot (hlen ▸ hs)
  unfold soundIn at this
  unfold select requiredFeatures
  cases hsel : selectIn blocks scalarInit mask slot with
  | none => rw [hsel] at this; simp at this
  | some k =>
    rw [hsel] at this
    cases hr : requiredFeaturesIn kernelReq k with
    | none => simp [hr] at this
    | some r => exact ⟨k, r, rfl, hr, by simpa [hr] using this⟩

open Carquet.Impl.Dispatch Carquet.Gen.Dispatch in
/-- scalar < SSE4.2 < AVX2 < AVX-512: the blocks appear in ascending order, and whatever subset of
the blocks is enabled, every slot ends up with a kernel of the highest-ranked enabled block that
lists it (scalar if none) -/
theorem C15_dispatch_order :
    blockRank = [1, 2, 3] ∧
    ∀ mask slot : Nat, slot < slots.length →
      selectedRank mask slot = some (bestEnabledRank mask slot) := by
  refine ⟨by decide, ?_⟩
  have h : ∀ en ∈ allBools blocks.length, ∀ slot : Fin slots.length,
      rankE en slot.val = some (bestRankE en slot.val) := by decide +kernel
  intro mask slot hs
  have hm := SimdDispatch.mem_allBools (blocks.map (enabled mask))
  rw [List.length_map] at hm
  exact h _ hm ⟨slot, hs⟩

open Carquet.Impl.Dispatch in
/-- F16 (pinned tree): capability {sse2, sse4.1, sse4.2, avx, avx2, bmi2, avx512f} without
avx512bw/vl: slot 0 (prefix_sum_i32) gets the AVX-512 kernel, compiled with -mavx512bw -mavx512vl -/
theorem C15_regression_F16 :
    selectIn blocksPreFix scalarInitPreFix (63 + 512) 0 = some 49 ∧
    requiredFeaturesIn kernelReqPreFix 49 = some 224 ∧ subset 224 (63 + 512) = false ∧
    soundPreFix (63 + 512) 0 = false := by
  decide

open Carquet.Impl.Dispatch in
/-- FS2 (pinned tree): capability {…, avx2} without bmi2: slot 11 (pack_bools) gets the AVX2 kernel,
whose file is compiled with -mbmi2 (the pinned build's pack_bools contains `shlx`) -/
theorem C15_regression_FS2 :
    selectIn blocksPreFix scalarInitPreFix 31 11 = some 47 ∧
    requiredFeaturesIn kernelReqPreFix 47 = some 528 ∧ subset 528 31 = false ∧
    soundPreFix 31 11 = false := by
  decide

-- the current table under the full capability set: slot 0 holds an AVX-512 kernel, slot 13 (crc32c) the SSE one
example : Impl.Dispatch.selectedRank 511 0 = some 3 ∧ Impl.Dispatch.selectedRank 511 13 = some 1 ∧
    Impl.Dispatch.selectedRank 0 0 = some 0 := by decide

end Carquet.Properties.C15
