import Carquet.Proofs.CFunB.Simd
import Carquet.Proofs.CFunB.Simd2
import Carquet.Proofs.CFunB.Bools
import Carquet.Proofs.CFunB.NullBitmap
import Carquet.Proofs.CFunB.Bss
import Carquet.Proofs.CFunB.Match
/-
C15 — link theorems (component `cfun`, batch `cfunb`): the SCALAR REFERENCE KERNELS of src/simd/dispatch.c, as translated
from the CURRENT C source by translate/gen_cfun.py on every check run (`Gen.CFun.scalar_*`), are the definitions the C15
theorems take as what every SIMD kernel must equal (`Impl.Simd.scalar*`, lean/Carquet/Impl/Simd*.lean).  Until now that
reference side was tied to the source by correspondence runs only.

Every function has a value theorem `C15_cfun_<function>` and a `C15_cfun_<function>_defined` theorem (no read or write
outside the arrays, no signed overflow, no undefined shift, enough loop fuel), under the function's contract stated as
explicit hypotheses: every array has exactly the length the contract says (`count` elements, `(count + 7) / 8` bitmap bytes,
`k * count` bytes), counts are below 2^63 (they are `int64_t`).  Each is followed by a non-vacuity example; several examples
also show an input just outside the contract on which `_defined` is false.
-/
namespace Carquet.Properties.C15
open Carquet Carquet.Impl Carquet.Impl.Simd Carquet.Proofs.CFunB

/-! ### prefix sums -/

/-- `scalar_prefix_sum_i32(values, count, initial)`: in place, wrapping -/
theorem C15_cfun_scalar_prefix_sum_i32 (vals : List (BitVec 32)) (init : BitVec 32) (h : vals.length < 2 ^ 63) :
    Gen.CFun.scalar_prefix_sum_i32 vals (BitVec.ofNat 64 vals.length) init = scalarPrefixSum init vals :=
  (scalar_prefix_sum_i32_eq vals init h).1
theorem C15_cfun_scalar_prefix_sum_i32_defined (vals : List (BitVec 32)) (init : BitVec 32) (h : vals.length < 2 ^ 63) :
    Gen.CFun.scalar_prefix_sum_i32_defined vals (BitVec.ofNat 64 vals.length) init = true :=
  (scalar_prefix_sum_i32_eq vals init h).2

example : Gen.CFun.scalar_prefix_sum_i32 [1#32, 2#32, 0xFFFFFFFF#32] 3#64 5#32 = [6#32, 8#32, 7#32] ∧
    Gen.CFun.scalar_prefix_sum_i32_defined [1#32, 2#32, 0xFFFFFFFF#32] 3#64 5#32 = true ∧
    -- a count one larger than the array: the read of values[3] is outside
    Gen.CFun.scalar_prefix_sum_i32_defined [1#32, 2#32, 0xFFFFFFFF#32] 4#64 5#32 = false := by decide

theorem C15_cfun_scalar_prefix_sum_i64 (vals : List (BitVec 64)) (init : BitVec 64) (h : vals.length < 2 ^ 63) :
    Gen.CFun.scalar_prefix_sum_i64 vals (BitVec.ofNat 64 vals.length) init = scalarPrefixSum init vals :=
  (scalar_prefix_sum_i64_eq vals init h).1
theorem C15_cfun_scalar_prefix_sum_i64_defined (vals : List (BitVec 64)) (init : BitVec 64) (h : vals.length < 2 ^ 63) :
    Gen.CFun.scalar_prefix_sum_i64_defined vals (BitVec.ofNat 64 vals.length) init = true :=
  (scalar_prefix_sum_i64_eq vals init h).2

example : Gen.CFun.scalar_prefix_sum_i64 [1#64, 0xFFFFFFFFFFFFFFFF#64] 2#64 5#64 = [6#64, 5#64] ∧
    Gen.CFun.scalar_prefix_sum_i64_defined [1#64, 0xFFFFFFFFFFFFFFFF#64] 2#64 5#64 = true := by decide

/-! ### dictionary gathers (`float` / `double` elements are moved as 32 / 64-bit words) -/

/-- `scalar_gather_i32(dict, indices, count, output)`: the model's result when every index is inside the dictionary -/
theorem C15_cfun_scalar_gather_i32 (dict : List (BitVec 32)) (idx : List (BitVec 32)) (out : List (BitVec 32))
    (ho : out.length = idx.length) (h : idx.length < 2 ^ 63) (r : List (BitVec 32))
    (hr : scalarGather (memOf dict) idx = some r) :
    Gen.CFun.scalar_gather_i32 dict idx (BitVec.ofNat 64 idx.length) out = r :=
  (scalar_gather_i32_eq dict idx out ho h).1 r hr
/-- no undefined behaviour exactly when the model accepts: an index outside the dictionary is a read outside `dict` -/
theorem C15_cfun_scalar_gather_i32_defined (dict : List (BitVec 32)) (idx : List (BitVec 32)) (out : List (BitVec 32))
    (ho : out.length = idx.length) (h : idx.length < 2 ^ 63) :
    Gen.CFun.scalar_gather_i32_defined dict idx (BitVec.ofNat 64 idx.length) out = (scalarGather (memOf dict) idx).isSome :=
  (scalar_gather_i32_eq dict idx out ho h).2

example : Gen.CFun.scalar_gather_i32 [10#32, 20#32, 30#32] [2#32, 0#32] 2#64 [0#32, 0#32] = [30#32, 10#32] ∧
    scalarGather (memOf [10#32, 20#32, 30#32]) [2#32, 0#32] = some [30#32, 10#32] ∧
    Gen.CFun.scalar_gather_i32_defined [10#32, 20#32, 30#32] [2#32, 3#32] 2#64 [0#32, 0#32] = false := by decide

theorem C15_cfun_scalar_gather_i64 (dict : List (BitVec 64)) (idx : List (BitVec 32)) (out : List (BitVec 64))
    (ho : out.length = idx.length) (h : idx.length < 2 ^ 63) (r : List (BitVec 64))
    (hr : scalarGather (memOf dict) idx = some r) :
    Gen.CFun.scalar_gather_i64 dict idx (BitVec.ofNat 64 idx.length) out = r :=
  (scalar_gather_i64_eq dict idx out ho h).1 r hr
theorem C15_cfun_scalar_gather_i64_defined (dict : List (BitVec 64)) (idx : List (BitVec 32)) (out : List (BitVec 64))
    (ho : out.length = idx.length) (h : idx.length < 2 ^ 63) :
    Gen.CFun.scalar_gather_i64_defined dict idx (BitVec.ofNat 64 idx.length) out = (scalarGather (memOf dict) idx).isSome :=
  (scalar_gather_i64_eq dict idx out ho h).2

example : Gen.CFun.scalar_gather_i64 [10#64, 20#64] [1#32, 1#32, 0#32] 3#64 [0#64, 0#64, 0#64] = [20#64, 20#64, 10#64] ∧
    Gen.CFun.scalar_gather_i64_defined [10#64, 20#64] [1#32, 1#32, 0#32] 3#64 [0#64, 0#64, 0#64] = true := by decide

theorem C15_cfun_scalar_gather_float (dict : List (BitVec 32)) (idx : List (BitVec 32)) (out : List (BitVec 32))
    (ho : out.length = idx.length) (h : idx.length < 2 ^ 63) (r : List (BitVec 32))
    (hr : scalarGather (memOf dict) idx = some r) :
    Gen.CFun.scalar_gather_float dict idx (BitVec.ofNat 64 idx.length) out = r :=
  (scalar_gather_float_eq dict idx out ho h).1 r hr
theorem C15_cfun_scalar_gather_float_defined (dict : List (BitVec 32)) (idx : List (BitVec 32)) (out : List (BitVec 32))
    (ho : out.length = idx.length) (h : idx.length < 2 ^ 63) :
    Gen.CFun.scalar_gather_float_defined dict idx (BitVec.ofNat 64 idx.length) out = (scalarGather (memOf dict) idx).isSome :=
  (scalar_gather_float_eq dict idx out ho h).2

/-- a signalling NaN (0x7F800001) comes through bit for bit -/
example : Gen.CFun.scalar_gather_float [0x7F800001#32, 0x3F800000#32] [0#32, 1#32] 2#64 [0#32, 0#32] =
    [0x7F800001#32, 0x3F800000#32] := by decide

theorem C15_cfun_scalar_gather_double (dict : List (BitVec 64)) (idx : List (BitVec 32)) (out : List (BitVec 64))
    (ho : out.length = idx.length) (h : idx.length < 2 ^ 63) (r : List (BitVec 64))
    (hr : scalarGather (memOf dict) idx = some r) :
    Gen.CFun.scalar_gather_double dict idx (BitVec.ofNat 64 idx.length) out = r :=
  (scalar_gather_double_eq dict idx out ho h).1 r hr
theorem C15_cfun_scalar_gather_double_defined (dict : List (BitVec 64)) (idx : List (BitVec 32)) (out : List (BitVec 64))
    (ho : out.length = idx.length) (h : idx.length < 2 ^ 63) :
    Gen.CFun.scalar_gather_double_defined dict idx (BitVec.ofNat 64 idx.length) out = (scalarGather (memOf dict) idx).isSome :=
  (scalar_gather_double_eq dict idx out ho h).2

example : Gen.CFun.scalar_gather_double [7#64] [0#32] 1#64 [0#64] = [7#64] ∧
    Gen.CFun.scalar_gather_double_defined [7#64] [0#32] 1#64 [] = false := by decide

/-! ### BYTE_STREAM_SPLIT (the value arrays are seen as bytes, as the C code does through `(const uint8_t*)values`) -/

/-- `scalar_byte_split_encode_float(values, count, output)`; `values` = the little-endian bytes of the `count` floats -/
theorem C15_cfun_scalar_byte_split_encode_float (vals : List (BitVec 32)) (out : List UInt8)
    (ho : out.length = 4 * vals.length) (hn : 4 * vals.length + 8 < 2 ^ 63) :
    Gen.CFun.scalar_byte_split_encode_float (vals.flatMap bytesLE32) (BitVec.ofNat 64 vals.length) out =
      scalarBssEncodeFloat vals := (scalar_bss_encode_float_eq vals out ho hn).1
theorem C15_cfun_scalar_byte_split_encode_float_defined (vals : List (BitVec 32)) (out : List UInt8)
    (ho : out.length = 4 * vals.length) (hn : 4 * vals.length + 8 < 2 ^ 63) :
    Gen.CFun.scalar_byte_split_encode_float_defined (vals.flatMap bytesLE32) (BitVec.ofNat 64 vals.length) out = true :=
  (scalar_bss_encode_float_eq vals out ho hn).2

example : Gen.CFun.scalar_byte_split_encode_float [1, 2, 3, 4, 0x0A, 0x0B, 0x0C, 0x0D] 2#64 [0, 0, 0, 0, 0, 0, 0, 0] =
      [1, 0x0A, 2, 0x0B, 3, 0x0C, 4, 0x0D] ∧
    Gen.CFun.scalar_byte_split_encode_float_defined [1, 2, 3, 4, 0x0A, 0x0B, 0x0C, 0x0D] 2#64 [0, 0, 0, 0, 0, 0, 0] = false := by
  decide

theorem C15_cfun_scalar_byte_split_encode_double (vals : List (BitVec 64)) (out : List UInt8)
    (ho : out.length = 8 * vals.length) (hn : 8 * vals.length + 8 < 2 ^ 63) :
    Gen.CFun.scalar_byte_split_encode_double (vals.flatMap (bytesLE 8)) (BitVec.ofNat 64 vals.length) out =
      scalarBssEncodeDouble vals := (scalar_bss_encode_double_eq vals out ho hn).1
theorem C15_cfun_scalar_byte_split_encode_double_defined (vals : List (BitVec 64)) (out : List UInt8)
    (ho : out.length = 8 * vals.length) (hn : 8 * vals.length + 8 < 2 ^ 63) :
    Gen.CFun.scalar_byte_split_encode_double_defined (vals.flatMap (bytesLE 8)) (BitVec.ofNat 64 vals.length) out = true :=
  (scalar_bss_encode_double_eq vals out ho hn).2

example : Gen.CFun.scalar_byte_split_encode_double [1, 2, 3, 4, 5, 6, 7, 8] 1#64 [0, 0, 0, 0, 0, 0, 0, 0] =
    [1, 2, 3, 4, 5, 6, 7, 8] := by decide

/-- `scalar_byte_split_decode_float(data, count, values)`: the `count` little-endian values the output array holds afterwards
(`valuesOf`) are the model's -/
theorem C15_cfun_scalar_byte_split_decode_float (data out : List UInt8) (n : Nat) (hd : data.length = 4 * n)
    (ho : out.length = 4 * n) (hn : 4 * n + 8 < 2 ^ 63) :
    scalarBssDecodeFloat n data = some (valuesOf 4 n (Gen.CFun.scalar_byte_split_decode_float data (BitVec.ofNat 64 n) out)) :=
  (scalar_bss_decode_float_eq data out n hd ho hn).1
theorem C15_cfun_scalar_byte_split_decode_float_defined (data out : List UInt8) (n : Nat) (hd : data.length = 4 * n)
    (ho : out.length = 4 * n) (hn : 4 * n + 8 < 2 ^ 63) :
    Gen.CFun.scalar_byte_split_decode_float_defined data (BitVec.ofNat 64 n) out = true :=
  (scalar_bss_decode_float_eq data out n hd ho hn).2

example : Gen.CFun.scalar_byte_split_decode_float [1, 0x0A, 2, 0x0B, 3, 0x0C, 4, 0x0D] 2#64 [0, 0, 0, 0, 0, 0, 0, 0] =
      [1, 2, 3, 4, 0x0A, 0x0B, 0x0C, 0x0D] ∧
    valuesOf 4 2 [1, 2, 3, 4, 0x0A, 0x0B, 0x0C, 0x0D] = [0x04030201#32, 0x0D0C0B0A#32] ∧
    Gen.CFun.scalar_byte_split_decode_float_defined [1, 0x0A, 2, 0x0B, 3, 0x0C, 4] 2#64 [0, 0, 0, 0, 0, 0, 0, 0] = false := by
  decide

theorem C15_cfun_scalar_byte_split_decode_double (data out : List UInt8) (n : Nat) (hd : data.length = 8 * n)
    (ho : out.length = 8 * n) (hn : 8 * n + 8 < 2 ^ 63) :
    scalarBssDecodeDouble n data = some (valuesOf 8 n (Gen.CFun.scalar_byte_split_decode_double data (BitVec.ofNat 64 n) out)) :=
  (scalar_bss_decode_double_eq data out n hd ho hn).1
theorem C15_cfun_scalar_byte_split_decode_double_defined (data out : List UInt8) (n : Nat) (hd : data.length = 8 * n)
    (ho : out.length = 8 * n) (hn : 8 * n + 8 < 2 ^ 63) :
    Gen.CFun.scalar_byte_split_decode_double_defined data (BitVec.ofNat 64 n) out = true :=
  (scalar_bss_decode_double_eq data out n hd ho hn).2

example : Gen.CFun.scalar_byte_split_decode_double [1, 2, 3, 4, 5, 6, 7, 8] 1#64 [0, 0, 0, 0, 0, 0, 0, 0] =
    [1, 2, 3, 4, 5, 6, 7, 8] := by decide

/-! ### booleans -/

/-- `scalar_unpack_bools(input, output, count)`; fewer than 2^34 flags (`int byte_idx = (int)(i / 8)`) -/
theorem C15_cfun_scalar_unpack_bools (bytes out : List UInt8) (h : out.length < 2 ^ 34) (r : List UInt8)
    (hr : scalarUnpackBools bytes out.length = some r) :
    Gen.CFun.scalar_unpack_bools bytes out (BitVec.ofNat 64 out.length) = r := (scalar_unpack_bools_eq bytes out h).1 r hr
/-- defined exactly when the input holds `count` bits -/
theorem C15_cfun_scalar_unpack_bools_defined (bytes out : List UInt8) (h : out.length < 2 ^ 34) :
    Gen.CFun.scalar_unpack_bools_defined bytes out (BitVec.ofNat 64 out.length) = (scalarUnpackBools bytes out.length).isSome :=
  (scalar_unpack_bools_eq bytes out h).2

example : Gen.CFun.scalar_unpack_bools [0xA5, 0x01] [9, 9, 9, 9, 9, 9, 9, 9, 9] 9#64 = [1, 0, 1, 0, 0, 1, 0, 1, 1] ∧
    Gen.CFun.scalar_unpack_bools_defined [0xA5] [9, 9, 9, 9, 9, 9, 9, 9, 9] 9#64 = false := by decide

/-- `scalar_pack_bools(input, output, count)` with `(count + 7) / 8` output bytes -/
theorem C15_cfun_scalar_pack_bools (xs out : List UInt8) (ho : out.length = (xs.length + 7) / 8) (h : xs.length + 8 < 2 ^ 63) :
    Gen.CFun.scalar_pack_bools xs out (BitVec.ofNat 64 xs.length) = scalarPackBools xs := (scalar_pack_bools_eq xs out ho h).1
theorem C15_cfun_scalar_pack_bools_defined (xs out : List UInt8) (ho : out.length = (xs.length + 7) / 8)
    (h : xs.length + 8 < 2 ^ 63) :
    Gen.CFun.scalar_pack_bools_defined xs out (BitVec.ofNat 64 xs.length) = true := (scalar_pack_bools_eq xs out ho h).2

example : Gen.CFun.scalar_pack_bools [1, 0, 1, 1, 0, 0, 0, 0, 7] [0xEE, 0xEE] 9#64 = [0x0D, 0x01] ∧
    Gen.CFun.scalar_pack_bools_defined [1, 0, 1, 1, 0, 0, 0, 0, 7] [0xEE] 9#64 = false := by decide

/-! ### run length, CRC-32C -/

theorem C15_cfun_scalar_find_run_length_i32 (vals : List (BitVec 32)) (h : vals.length < 2 ^ 63) :
    Gen.CFun.scalar_find_run_length_i32 vals (BitVec.ofNat 64 vals.length) = BitVec.ofNat 64 (scalarFindRunLength vals) :=
  (scalar_find_run_length_i32_eq vals h).1
theorem C15_cfun_scalar_find_run_length_i32_defined (vals : List (BitVec 32)) (h : vals.length < 2 ^ 63) :
    Gen.CFun.scalar_find_run_length_i32_defined vals (BitVec.ofNat 64 vals.length) = true :=
  (scalar_find_run_length_i32_eq vals h).2

example : Gen.CFun.scalar_find_run_length_i32 [7#32, 7#32, 7#32, 8#32, 7#32] 5#64 = 3#64 ∧
    Gen.CFun.scalar_find_run_length_i32 [7#32, 7#32] 2#64 = 2#64 ∧
    Gen.CFun.scalar_find_run_length_i32_defined [7#32, 7#32] 3#64 = false := by decide

/-- the table in the C source (read from its initialiser in the AST) is the table the regex translator extracted -/
theorem C15_cfun_crc32c_table : Gen.CFun.dispatch_crc32c_table = Gen.Dispatch.crc32cTable.map (BitVec.ofNat 32) :=
  crc32c_table_eq

theorem C15_cfun_scalar_crc32c (crc : BitVec 32) (data : List UInt8) (h : data.length < 2 ^ 64) :
    Gen.CFun.scalar_crc32c crc data (BitVec.ofNat 64 data.length) = scalarCrc32c Gen.Dispatch.crc32cTable crc data :=
  (scalar_crc32c_eq crc data h).1
theorem C15_cfun_scalar_crc32c_defined (crc : BitVec 32) (data : List UInt8) (h : data.length < 2 ^ 64) :
    Gen.CFun.scalar_crc32c_defined crc data (BitVec.ofNat 64 data.length) = true := (scalar_crc32c_eq crc data h).2

example : Gen.CFun.scalar_crc32c 0#32 [0x31, 0x32, 0x33, 0x34, 0x35, 0x36, 0x37, 0x38, 0x39] 9#64 = 0xE3069283#32 ∧
    Gen.CFun.scalar_crc32c_defined 0#32 [0x31] 2#64 = false := by decide +kernel

/-! ### LZ77 helpers -/

/-- `scalar_match_copy(dst, src, len, offset)` with `src = dst - offset`: `window` = the `offset` bytes before `dst`, `t1` = the
`len` bytes overwritten, `t2` = what follows -/
theorem C15_cfun_scalar_match_copy (window t1 t2 : List UInt8) (ho : 0 < window.length) (hlen : t1.length < 2 ^ 64)
    (hoff : window.length < 2 ^ 64) :
    Gen.CFun.scalar_match_copy window.length (window ++ t1 ++ t2) (BitVec.ofNat 64 t1.length) (BitVec.ofNat 64 window.length) =
      window ++ scalarMatchCopy window t1.length ++ t2 := (scalar_match_copy_eq window t1 t2 ho hlen hoff).1
/-- in particular the 8-byte `memcpy` blocks never overlap and never leave the buffer -/
theorem C15_cfun_scalar_match_copy_defined (window t1 t2 : List UInt8) (ho : 0 < window.length) (hlen : t1.length < 2 ^ 64)
    (hoff : window.length < 2 ^ 64) :
    Gen.CFun.scalar_match_copy_defined window.length (window ++ t1 ++ t2) (BitVec.ofNat 64 t1.length)
      (BitVec.ofNat 64 window.length) = true := (scalar_match_copy_eq window t1 t2 ho hlen hoff).2

example : Gen.CFun.scalar_match_copy 2 [0x61, 0x62, 0, 0, 0, 0, 0, 9] 5#64 2#64 = [0x61, 0x62, 0x61, 0x62, 0x61, 0x62, 0x61, 9] ∧
    -- an `offset` of 9 although `src` is only 2 bytes behind `dst`: the 8-byte copies would overlap
    Gen.CFun.scalar_match_copy_defined 2 [1, 2, 3, 4, 5, 6, 7, 8, 9, 10, 11, 12] 8#64 9#64 = false ∧
    -- one byte more than the buffer holds
    Gen.CFun.scalar_match_copy_defined 2 [0x61, 0x62, 0, 0, 0] 4#64 2#64 = false := by decide

/-- `scalar_match_length(p, match, limit)` with `match` the start of the buffer, `p = match + off`, `limit` its end -/
theorem C15_cfun_scalar_match_length (buf : List UInt8) (off : Nat) (ho : off ≤ buf.length) (hL : buf.length < 2 ^ 63) :
    Gen.CFun.scalar_match_length off buf buf.length = BitVec.ofNat 64 (scalarMatchLength buf off) :=
  (scalar_match_length_eq buf off ho hL).1
theorem C15_cfun_scalar_match_length_defined (buf : List UInt8) (off : Nat) (ho : off ≤ buf.length) (hL : buf.length < 2 ^ 63) :
    Gen.CFun.scalar_match_length_defined off buf buf.length = true := (scalar_match_length_eq buf off ho hL).2

example : Gen.CFun.scalar_match_length 3 [1, 2, 3, 1, 2, 4] 6 = 2#64 ∧
    -- a `limit` beyond the buffer: a match that runs to the end reads `*p` outside
    Gen.CFun.scalar_match_length_defined 3 [1, 2, 3, 1, 2, 3] 7 = false := by decide

/-! ### definition levels -/

theorem C15_cfun_scalar_count_non_nulls (levels : List (BitVec 16)) (mx : BitVec 16) (h : levels.length < 2 ^ 63) :
    Gen.CFun.scalar_count_non_nulls levels (BitVec.ofNat 64 levels.length) mx =
      BitVec.ofNat 64 (scalarCountNonNulls levels mx) := (scalar_count_non_nulls_eq levels mx h).1
theorem C15_cfun_scalar_count_non_nulls_defined (levels : List (BitVec 16)) (mx : BitVec 16) (h : levels.length < 2 ^ 63) :
    Gen.CFun.scalar_count_non_nulls_defined levels (BitVec.ofNat 64 levels.length) mx = true :=
  (scalar_count_non_nulls_eq levels mx h).2

example : Gen.CFun.scalar_count_non_nulls [1#16, 0#16, 1#16, 0xFFFF#16] 4#64 1#16 = 2#64 := by decide

/-- `scalar_build_null_bitmap(def_levels, count, max_def_level, null_bitmap)` with `(count + 7) / 8` bitmap bytes: whatever
the bitmap held before (FS1) -/
theorem C15_cfun_scalar_build_null_bitmap (levels : List (BitVec 16)) (mx : BitVec 16) (bm : List UInt8)
    (hb : bm.length = (levels.length + 7) / 8) (hn : levels.length + 8 < 2 ^ 63) :
    Gen.CFun.scalar_build_null_bitmap levels (BitVec.ofNat 64 levels.length) mx bm = scalarBuildNullBitmap levels mx :=
  (scalar_build_null_bitmap_eq levels mx bm hb hn).1
theorem C15_cfun_scalar_build_null_bitmap_defined (levels : List (BitVec 16)) (mx : BitVec 16) (bm : List UInt8)
    (hb : bm.length = (levels.length + 7) / 8) (hn : levels.length + 8 < 2 ^ 63) :
    Gen.CFun.scalar_build_null_bitmap_defined levels (BitVec.ofNat 64 levels.length) mx bm = true :=
  (scalar_build_null_bitmap_eq levels mx bm hb hn).2

example : Gen.CFun.scalar_build_null_bitmap [1#16, 0#16, 1#16] 3#64 1#16 [0xFF] = [0x02] ∧
    Gen.CFun.scalar_build_null_bitmap [0#16, 0#16, 0#16, 0#16, 0#16, 0#16, 0#16, 0#16, 1#16, 0#16] 10#64 1#16 [0xAA, 0xFF] =
      [0xFF, 0x02] ∧
    Gen.CFun.scalar_build_null_bitmap_defined [1#16, 0#16, 1#16] 3#64 1#16 [] = false := by decide

theorem C15_cfun_scalar_fill_def_levels (old : List (BitVec 16)) (value : BitVec 16) (h : old.length < 2 ^ 63) :
    Gen.CFun.scalar_fill_def_levels old (BitVec.ofNat 64 old.length) value = scalarFillDefLevels old value :=
  (scalar_fill_def_levels_eq old value h).1
theorem C15_cfun_scalar_fill_def_levels_defined (old : List (BitVec 16)) (value : BitVec 16) (h : old.length < 2 ^ 63) :
    Gen.CFun.scalar_fill_def_levels_defined old (BitVec.ofNat 64 old.length) value = true :=
  (scalar_fill_def_levels_eq old value h).2

example : Gen.CFun.scalar_fill_def_levels [0#16, 5#16, 9#16] 3#64 2#16 = [2#16, 2#16, 2#16] ∧
    Gen.CFun.scalar_fill_def_levels_defined [0#16, 5#16, 9#16] 4#64 2#16 = false := by decide

end Carquet.Properties.C15
