import Carquet.Spec.Kernels
import Carquet.Impl.Simd
import Carquet.Impl.SimdMore
import Carquet.Impl.SimdBitunpack
import Carquet.Impl.SimdRegistry
import Carquet.Impl.Dispatch
import Carquet.Gen.Dispatch
import Carquet.Proofs.SimdCrc
import Carquet.Proofs.SimdGather
import Carquet.Proofs.SimdScalar
import Carquet.Proofs.SimdMatch
import Carquet.Proofs.SimdMem
import Carquet.Proofs.SimdBitunpack
import Carquet.Proofs.SimdRegistry
import Carquet.Properties.C15.Simd
/-
C15, second part — the kernels that were compared only: dictionary gathers (with the address
arithmetic of `vpgatherdd/dq`), the scalar fallbacks of dispatch.c, BYTE_STREAM_SPLIT for doubles,
the LZ77 match helpers, memset / memcpy, the ten bit unpackers; the table step of `scalar_crc32c`;
and the dispatcher theorem over the extracted table: whatever the CPU flags, every slot holds a
kernel whose model is proved equal to the slot's scalar definition.
Property statements only; helper lemmas live in `Carquet/Proofs/Simd*.lean`.
-/
namespace Carquet.Properties.C15
open Carquet Carquet.Impl.Simd
open Carquet.Proofs

/-! ## 1. Dictionary gathers

`mem : Int → Option α` is the memory seen from the `dict` pointer (signed element offsets, `none`
outside the dictionary object); `memOf d` is a dictionary of `d.length` elements.  The scalar loop
and the SSE kernels index with the zero-extended `uint32_t`; the AVX2 / AVX-512 kernels use
`vpgatherdd/dq`, which sign-extend it. -/

/-- the scalar fallback over a dictionary is the Spec's gather (`none` iff an index is outside) -/
theorem C15_scalar_gather_eq_spec {α : Type} (d : List α) (idx : List (BitVec 32)) :
    scalarGather (memOf d) idx = Spec.Kernels.gather d (idx.map (·.toNat)) := SimdGather.scalarGather_spec d idx

/-- SSE (scalar loads packed by `_mm_set_epi32`; 8, then 4, then 1 at a time): any memory, any indices -/
theorem C15_sse_gather32_eq_scalar {α : Type} (mem : DictMem α) (idx : List (BitVec 32)) :
    sseGather32 mem idx = scalarGather mem idx := SimdGather.sseGather32_eq mem idx
theorem C15_sse_gather64_eq_scalar {α : Type} (mem : DictMem α) (idx : List (BitVec 32)) :
    sseGather64 mem idx = scalarGather mem idx := SimdGather.sseGather64_eq mem idx

/-- block lemma of the hardware gathers: a vector of indices whose sign-extended and zero-extended
addresses hold the same thing is gathered like the scalar loop does -/
theorem C15_hw_gather_block {α : Type} (mem : DictMem α) (b : List (BitVec 32))
    (h : ∀ i ∈ b, mem i.toInt = mem (Int.ofNat i.toNat)) : i32gather mem b = gatherTail mem b :=
  SimdGather.i32gather_blk mem b h

/-- an index below 2^31 is the same address either way (any memory) -/
theorem C15_gather_index_below_2p31 {α : Type} (mem : DictMem α) (i : BitVec 32) (h : i.toNat < 2 ^ 31) :
    mem i.toInt = mem (Int.ofNat i.toNat) := SimdGather.laneAgrees_of_lt mem i h

/-- a dictionary of at most 2^31 elements: every index agrees (one with the top bit set is outside
the dictionary zero-extended, and before it sign-extended) -/
theorem C15_gather_small_dictionary {α : Type} (d : List α) (hd : d.length ≤ 2 ^ 31) (i : BitVec 32) :
    memOf d i.toInt = memOf d (Int.ofNat i.toNat) := SimdGather.laneAgrees_memOf d hd i

/-- AVX2 / AVX-512 gathers = scalar loop, for every count, on indices whose lanes agree -/
theorem C15_avx2_gather32_eq_scalar {α : Type} (mem : DictMem α) (idx : List (BitVec 32))
    (h : ∀ i ∈ idx, mem i.toInt = mem (Int.ofNat i.toNat)) : avx2Gather32 mem idx = scalarGather mem idx :=
  SimdGather.avx2Gather32_eq mem idx h
theorem C15_avx2_gather64_eq_scalar {α : Type} (mem : DictMem α) (idx : List (BitVec 32))
    (h : ∀ i ∈ idx, mem i.toInt = mem (Int.ofNat i.toNat)) : avx2Gather64 mem idx = scalarGather mem idx :=
  SimdGather.avx2Gather64_eq mem idx h
theorem C15_avx512_gather32_eq_scalar {α : Type} (mem : DictMem α) (idx : List (BitVec 32))
    (h : ∀ i ∈ idx, mem i.toInt = mem (Int.ofNat i.toNat)) : avx512Gather32 mem idx = scalarGather mem idx :=
  SimdGather.avx512Gather32_eq mem idx h
theorem C15_avx512_gather64_eq_scalar {α : Type} (mem : DictMem α) (idx : List (BitVec 32))
    (h : ∀ i ∈ idx, mem i.toInt = mem (Int.ofNat i.toNat)) : avx512Gather64 mem idx = scalarGather mem idx :=
  SimdGather.avx512Gather64_eq mem idx h

/-
Full statement (FALSE of the code, see `C15_hw_gather_sign_extension`):
  ∀ d idx, avx2Gather32 (memOf d) idx = Spec.Kernels.gather d (idx.map (·.toNat))
Proved under `d.length ≤ 2^31`, which the only caller guarantees (`dictionary_count` is an
`int32_t` checked `>= 0`, and every index is checked `< dictionary_count` before the gather).
-/
theorem C15_avx2_gather32_eq_spec_partial {α : Type} (d : List α) (hd : d.length ≤ 2 ^ 31) (idx : List (BitVec 32)) :
    avx2Gather32 (memOf d) idx = Spec.Kernels.gather d (idx.map (·.toNat)) := SimdGather.avx2_32_spec d hd idx
theorem C15_avx2_gather64_eq_spec_partial {α : Type} (d : List α) (hd : d.length ≤ 2 ^ 31) (idx : List (BitVec 32)) :
    avx2Gather64 (memOf d) idx = Spec.Kernels.gather d (idx.map (·.toNat)) := SimdGather.avx2_64_spec d hd idx
theorem C15_avx512_gather32_eq_spec_partial {α : Type} (d : List α) (hd : d.length ≤ 2 ^ 31) (idx : List (BitVec 32)) :
    avx512Gather32 (memOf d) idx = Spec.Kernels.gather d (idx.map (·.toNat)) := SimdGather.avx512_32_spec d hd idx
theorem C15_avx512_gather64_eq_spec_partial {α : Type} (d : List α) (hd : d.length ≤ 2 ^ 31) (idx : List (BitVec 32)) :
    avx512Gather64 (memOf d) idx = Spec.Kernels.gather d (idx.map (·.toNat)) := SimdGather.avx512_64_spec d hd idx
theorem C15_sse_gather32_eq_spec {α : Type} (d : List α) (idx : List (BitVec 32)) :
    sseGather32 (memOf d) idx = Spec.Kernels.gather d (idx.map (·.toNat)) := SimdGather.sse32_spec d idx
theorem C15_sse_gather64_eq_spec {α : Type} (d : List α) (idx : List (BitVec 32)) :
    sseGather64 (memOf d) idx = Spec.Kernels.gather d (idx.map (·.toNat)) := SimdGather.sse64_spec d idx

/-- FS4 (why the hypothesis is needed): one full vector block of `W` indices, all inside the
dictionary, one of them `≥ 2^31` (so the dictionary has more than 2^31 elements): the scalar
definition is defined, a hardware-gather kernel of block width `W` reads *before* the dictionary
(`W = 8`: `carquet_avx2_gather_i32/float`, `carquet_avx512_gather_i64/double`; `W = 4`:
`carquet_avx2_gather_i64/double`; `W = 16`: `carquet_avx512_gather_i32/float`) -/
theorem C15_hw_gather_sign_extension {α : Type} (W : Nat) (hW : 0 < W) (d : List α)
    (tail : List (BitVec 32) → List (Option α)) (idx : List (BitVec 32)) (hl : idx.length = W)
    (hin : ∀ i ∈ idx, i.toNat < d.length) (i : BitVec 32) (hi : i ∈ idx) (hbig : 2 ^ 31 ≤ i.toNat) :
    allLoaded (blockedMap W (i32gather (memOf d)) tail idx) = none ∧
    (Spec.Kernels.gather d (idx.map (·.toNat))).isSome = true :=
  SimdGather.hwGather_diverges W hW d tail idx hl hin i hi hbig

/-- the concrete instance: a dictionary of 2^31 + 1 entries, eight times the index 2^31 -/
theorem C15_regression_FS4 :
    avx2Gather32 (memOf (List.replicate (2 ^ 31 + 1) 7#32)) (List.replicate 8 0x80000000#32) = none ∧
    (Spec.Kernels.gather (List.replicate (2 ^ 31 + 1) 7#32) ((List.replicate 8 0x80000000#32).map (·.toNat))).isSome
      = true := by
  have h := C15_hw_gather_sign_extension 8 (by decide) (List.replicate (2 ^ 31 + 1) 7#32)
    (gatherTail (memOf (List.replicate (2 ^ 31 + 1) 7#32))) (List.replicate 8 0x80000000#32) (by simp)
    (by intro i hi; rw [List.eq_of_mem_replicate hi, List.length_replicate]; decide)
    0x80000000#32 (by simp) (by decide)
  exact h

-- non-vacuity: a 3-entry dictionary, 9 indices (1 AVX2 block + remainder 1; 2 SSE blocks of 4 + 1)
example : avx2Gather32 (memOf [10#32, 20#32, 30#32]) [0#32, 1#32, 2#32, 2#32, 1#32, 0#32, 0#32, 2#32, 1#32] =
    some [10#32, 20#32, 30#32, 30#32, 20#32, 10#32, 10#32, 30#32, 20#32] := by decide
example : sseGather32 (memOf [10#32, 20#32, 30#32]) [0#32, 1#32, 2#32, 2#32, 1#32, 0#32, 0#32, 2#32, 1#32] =
    Spec.Kernels.gather [10#32, 20#32, 30#32] [0, 1, 2, 2, 1, 0, 0, 2, 1] := by decide
-- an index outside the dictionary is `none` for all of them
example : avx512Gather64 (memOf [10#64, 20#64]) [0#32, 1#32, 2#32] = none ∧
    Spec.Kernels.gather [10#64, 20#64] [0, 1, 2] = none := by decide
-- the two address computations on an index with the top bit set
example : (0x80000000#32).toInt = -2147483648 ∧ (0x80000000#32).toNat = 2147483648 := by decide

/-! ## 2. `scalar_crc32c`: the table step is the bit-serial (LFSR) step -/

/-- one iteration `crc = table[(crc ^ b) & 0xFF] ^ (crc >> 8)` with the extracted table equals
eight shifts of the Castagnoli LFSR applied to `crc ^ b` -/
theorem C15_scalar_crc32c_step (c : BitVec 32) (b : UInt8) :
    SimdCrc.tableStep Gen.Dispatch.crc32cTable c b = Spec.Kernels.crcByte c b :=
  SimdCrc.tableStep_eq_crcByte _ SimdRegistry.crcTable_ok c b

theorem C15_scalar_crc32c_eq_spec (crc : BitVec 32) (data : List UInt8) :
    scalarCrc32c Gen.Dispatch.crc32cTable crc data = Spec.Kernels.crc32c crc data :=
  SimdCrc.scalarCrc32c_eq _ SimdRegistry.crcTable_ok crc data

/-- the identity behind it (GF(2)-linearity of the LFSR step) -/
theorem C15_crc32c_step8_split (c : BitVec 32) :
    Spec.Kernels.crcStep8 c = Spec.Kernels.crcStep8 (c &&& 0xFF#32) ^^^ (c >>> 8) := SimdCrc.step8_split c

example : scalarCrc32c Gen.Dispatch.crc32cTable 0 [0x31, 0x32, 0x33, 0x34, 0x35, 0x36, 0x37, 0x38, 0x39] =
    0xE3069283#32 := by decide +kernel

/-! ## 3. The scalar fallbacks of dispatch.c (as loops) equal the Spec definitions -/

theorem C15_scalar_prefix_sum_eq_spec {w : Nat} (init : BitVec w) (vals : List (BitVec w)) :
    scalarPrefixSum init vals = Spec.Kernels.prefixSum init vals := SimdScalar.scalar_prefix init vals
theorem C15_scalar_bss_encode_float_eq_spec (vals : List (BitVec 32)) :
    scalarBssEncodeFloat vals = Spec.Kernels.bssEncode (k := 4) vals := SimdScalar.scalar_bss_enc_float vals
theorem C15_scalar_bss_encode_double_eq_spec (vals : List (BitVec 64)) :
    scalarBssEncodeDouble vals = Spec.Kernels.bssEncode (k := 8) vals := SimdScalar.scalar_bss_enc_double vals
/-- the plain decode loop (`scalar_byte_split_decode_float/_double`, and the SSE / AVX2 double
decoders, which are the same loop), any value width `k` -/
theorem C15_scalar_bss_decode_eq_spec (k n : Nat) (data : List UInt8) (h : data.length = k * n) :
    scalarBssDecode k n data = Spec.Kernels.bssDecode k n data := SimdScalar.scalar_bss_dec k n data h
theorem C15_scalar_unpack_bools_eq_spec (bytes : List UInt8) (count : Nat) :
    scalarUnpackBools bytes count = Spec.Kernels.unpackBools bytes count := SimdScalar.scalar_unpack bytes count
theorem C15_scalar_pack_bools_eq_spec (xs : List UInt8) :
    scalarPackBools xs = Spec.Kernels.packBools xs := rfl
theorem C15_scalar_find_run_length_eq_spec (vals : List (BitVec 32)) :
    scalarFindRunLength vals = Spec.Kernels.findRunLength vals := SimdScalar.scalar_find_run vals
theorem C15_scalar_count_non_nulls_eq_spec (levels : List (BitVec 16)) (mx : BitVec 16) :
    scalarCountNonNulls levels mx = Spec.Kernels.countNonNulls levels mx := SimdScalar.scalar_count levels mx
theorem C15_scalar_fill_def_levels_eq_spec (old : List (BitVec 16)) (v : BitVec 16) :
    scalarFillDefLevels old v = Spec.Kernels.fillDefLevels old.length v := SimdScalar.scalar_fill old v
/-- 8-byte `memcpy` blocks (offset ≥ 8) or byte by byte: the overlapping copy -/
theorem C15_scalar_match_copy_eq_spec (window : List UInt8) (h : 0 < window.length) (len : Nat) :
    scalarMatchCopy window len = Spec.Kernels.matchCopy window len := SimdMatch.scalar_match_copy window h len
theorem C15_scalar_match_length_eq_spec (buf : List UInt8) (off : Nat) :
    scalarMatchLength buf off = Spec.Kernels.matchLength buf off := SimdMatch.scalar_match_length buf off

example : scalarUnpackBools [0xA5, 0x01] 9 = some [1, 0, 1, 0, 0, 1, 0, 1, 1] := by decide
example : scalarUnpackBools [0xA5] 9 = none := by decide
example : scalarMatchCopy [1, 2, 3, 4, 5, 6, 7, 8, 9] 11 = [1, 2, 3, 4, 5, 6, 7, 8, 9, 1, 2] := by decide
example : scalarBssDecode 8 1 [1, 2, 3, 4, 5, 6, 7, 8] = some [0x0807060504030201#64] := by decide

/-! ## 4. BYTE_STREAM_SPLIT for doubles -/

theorem C15_sse_bss_encode_double_block : ∀ b : List (BitVec 64), b.length = 2 →
    sseBssEncDoubleBlk b = bssEncRows 8 b := SimdScalar.sse_enc_double_block
theorem C15_sse_bss_encode_double_eq_scalar (vals : List (BitVec 64)) :
    sseBssEncodeDouble vals = Spec.Kernels.bssEncode (k := 8) vals := SimdScalar.sse_bss_enc_double vals
theorem C15_avx2_bss_encode_double_block : ∀ b : List (BitVec 64), b.length = 4 →
    avx2BssEncDoubleBlk b = bssEncRows 8 b := SimdScalar.avx2_enc_double_block
theorem C15_avx2_bss_encode_double_eq_scalar (vals : List (BitVec 64)) :
    avx2BssEncodeDouble vals = Spec.Kernels.bssEncode (k := 8) vals := SimdScalar.avx2_bss_enc_double vals
theorem C15_sse_bss_decode_double_eq_scalar (n : Nat) (data : List UInt8) (h : data.length = 8 * n) :
    sseBssDecodeDouble n data = Spec.Kernels.bssDecode 8 n data := SimdScalar.scalar_bss_dec 8 n data h
theorem C15_avx2_bss_decode_double_eq_scalar (n : Nat) (data : List UInt8) (h : data.length = 8 * n) :
    avx2BssDecodeDouble n data = Spec.Kernels.bssDecode 8 n data := SimdScalar.scalar_bss_dec 8 n data h

example : sseBssEncodeDouble [0x0807060504030201#64, 0x1817161514131211#64, 0x2827262524232221#64] =
    [0x01, 0x11, 0x21, 0x02, 0x12, 0x22, 0x03, 0x13, 0x23, 0x04, 0x14, 0x24, 0x05, 0x15, 0x25,
     0x06, 0x16, 0x26, 0x07, 0x17, 0x27, 0x08, 0x18, 0x28] := by decide

/-! ## 5. LZ77 match helpers -/

/-- block lemma of the copies: a `W`-byte load/store with `W ≤ offset` is `W` single-byte copies -/
theorem C15_match_copy_block (W offset : Nat) (ho : 0 < offset) (hW : W ≤ offset) (hist : List UInt8)
    (hle : offset ≤ hist.length) : copyBlock W offset hist = copyBytes offset W hist :=
  SimdMatch.copyBlock_eq W offset ho hW hist hle

/-- all five cases of `carquet_sse_match_copy` (offset ≥ 16: 16-byte copies + one 8-byte copy;
offset 1, 2, 4: pattern fills; else bytes), every offset ≥ 1 and every length -/
theorem C15_sse_match_copy_eq_scalar (window : List UInt8) (h : 0 < window.length) (len : Nat) :
    sseMatchCopy window len = Spec.Kernels.matchCopy window len := SimdMatch.sse_match_copy window h len

theorem C15_sse_match_length_block : ∀ b : List (UInt8 × UInt8), b.length = 16 →
    sseMatchBlk b = if firstIdx (fun pm => pm.1 != pm.2) b < 16 then some (firstIdx (fun pm => pm.1 != pm.2) b)
                    else none := SimdMatch.sse_match_block
theorem C15_sse_match_length_eq_scalar (buf : List UInt8) (off : Nat) :
    sseMatchLength buf off = Spec.Kernels.matchLength buf off := SimdMatch.sse_match_length buf off

example : sseMatchCopy [0xAB, 0xCD, 0xEF, 0x01] 22 =
    [0xAB, 0xCD, 0xEF, 0x01, 0xAB, 0xCD, 0xEF, 0x01, 0xAB, 0xCD, 0xEF, 0x01, 0xAB, 0xCD, 0xEF, 0x01,
     0xAB, 0xCD, 0xEF, 0x01, 0xAB, 0xCD] := by decide
example : sseMatchLength [1, 2, 3, 4, 5, 6, 7, 8, 9, 1, 2, 3, 4, 5, 6, 7, 8, 9, 1, 2, 3, 4, 5, 6, 7, 8, 9, 1, 0] 9 = 19 := by
  decide

/-! ## 6. memset / memcpy helpers (not in the table) -/

theorem C15_sse_memset_eq_scalar (old : List UInt8) (v : UInt8) :
    sseMemset old v = Spec.Kernels.memset old.length v := SimdMem.sse_memset old v
theorem C15_avx2_memset_eq_scalar (old : List UInt8) (v : UInt8) :
    avx2Memset old v = Spec.Kernels.memset old.length v := SimdMem.avx2_memset old v
theorem C15_avx512_memset_eq_scalar (old : List UInt8) (v : UInt8) :
    avx512Memset old v = Spec.Kernels.memset old.length v := SimdMem.avx512_memset old v
theorem C15_sse_memcpy_eq_scalar (src : List UInt8) : sseMemcpy src = Spec.Kernels.memcpy src := SimdMem.sse_memcpy src
theorem C15_avx2_memcpy_eq_scalar (src : List UInt8) : avx2Memcpy src = Spec.Kernels.memcpy src := SimdMem.avx2_memcpy src
theorem C15_avx512_memcpy_eq_scalar (src : List UInt8) : avx512Memcpy src = Spec.Kernels.memcpy src :=
  SimdMem.avx512_memcpy src

example : sseMemset (List.replicate 83 0) 7 = List.replicate 83 7 := by decide

/-! ## 7. The ten fixed-width bit unpackers (not in the table) -/

theorem C15_sse_bitunpack32_1bit_eq_scalar (input : List UInt8) (h : input.length = 4) :
    some ((sseBitunpack32x1 input).map (·.toNat)) = Spec.Kernels.bitUnpack 1 32 input := SimdBitunpack.sse_32x1 input h
theorem C15_sse_bitunpack8_4bit_eq_scalar (input : List UInt8) (h : input.length = 4) :
    some ((sseBitunpack8x4 input).map (·.toNat)) = Spec.Kernels.bitUnpack 4 8 input := SimdBitunpack.sse_8x4 input h
theorem C15_sse_bitunpack8_8bit_eq_scalar (input : List UInt8) (h : input.length = 8) :
    some ((sseBitunpack8x8 input).map (·.toNat)) = Spec.Kernels.bitUnpack 8 8 input := SimdBitunpack.sse_8x8 input h
theorem C15_avx2_bitunpack64_1bit_eq_scalar (input : List UInt8) (h : input.length = 8) :
    some ((avx2Bitunpack64x1 input).map (·.toNat)) = Spec.Kernels.bitUnpack 1 64 input := SimdBitunpack.avx2_64x1 input h
theorem C15_avx2_bitunpack16_4bit_eq_scalar (input : List UInt8) (h : input.length = 8) :
    some ((avx2Bitunpack16x4 input).map (·.toNat)) = Spec.Kernels.bitUnpack 4 16 input := SimdBitunpack.avx2_16x4 input h
theorem C15_avx2_bitunpack16_8bit_eq_scalar (input : List UInt8) (h : input.length = 16) :
    some ((avx2Bitunpack16x8 input).map (·.toNat)) = Spec.Kernels.bitUnpack 8 16 input := SimdBitunpack.avx2_16x8 input h
theorem C15_avx2_bitunpack8_16bit_eq_scalar (input : List UInt8) (h : input.length = 16) :
    some ((avx2Bitunpack8x16 input).map (·.toNat)) = Spec.Kernels.bitUnpack 16 8 input := SimdBitunpack.avx2_8x16 input h
theorem C15_avx512_bitunpack32_8bit_eq_scalar (input : List UInt8) (h : input.length = 32) :
    some ((avx512Bitunpack32x8 input).map (·.toNat)) = Spec.Kernels.bitUnpack 8 32 input :=
  SimdBitunpack.avx512_32x8 input h
theorem C15_avx512_bitunpack16_16bit_eq_scalar (input : List UInt8) (h : input.length = 32) :
    some ((avx512Bitunpack16x16 input).map (·.toNat)) = Spec.Kernels.bitUnpack 16 16 input :=
  SimdBitunpack.avx512_16x16 input h
theorem C15_avx512_bitunpack32_4bit_eq_scalar (input : List UInt8) (h : input.length = 16) :
    some ((avx512Bitunpack32x4 input).map (·.toNat)) = Spec.Kernels.bitUnpack 4 32 input :=
  SimdBitunpack.avx512_32x4 input h

example : (sseBitunpack8x4 [0x21, 0x43, 0x65, 0x87]).map (·.toNat) = [1, 2, 3, 4, 5, 6, 7, 8] := by decide
example : (avx2Bitunpack8x16 [0x34, 0x12, 0, 0x80, 1, 0, 0xFF, 0xFF, 0, 0, 0, 0, 0, 0, 0, 0]).map (·.toNat) =
    [0x1234, 0x8000, 1, 0xFFFF, 0, 0, 0, 0] := by decide

/-! ## 8. The dispatcher over the extracted table -/

open Carquet.Impl.Dispatch in
/-- every registry entry (60 kernels: 19 scalar fallbacks, 19 SSE, 11 AVX2, 11 AVX-512) computes
its slot's scalar definition on every input satisfying the slot's contract -/
theorem C15_registry_certified : ∀ k ∈ registry, k.EqScalar := SimdRegistry.registry_certified

open Carquet.Impl.Dispatch in
/-- the hand-written `Slot` enumeration is, in order, the slot list extracted from
`carquet_simd_dispatch_t` (so `Slot.spec` assigns a scalar definition to every extracted slot) -/
theorem C15_slots_enumerated :
    [Slot.prefixSumI32, .prefixSumI64, .gatherI32, .gatherI64, .gatherFloat, .gatherDouble, .bssEncFloat,
     .bssDecFloat, .bssEncDouble, .bssDecDouble, .unpackBools, .packBools, .findRunLength, .crc32c, .matchCopy,
     .matchLength, .countNonNulls, .buildNullBitmap, .fillDefLevels].map Slot.name = Gen.Dispatch.slots := by
  decide

open Carquet.Impl.Dispatch Carquet.Gen.Dispatch in
/-- For every capability mask (any `Nat` bit set over `Gen.Dispatch.features`) and every slot of the
table extracted from dispatch.c: the slot holds a kernel (`select`), the kernel's C name in the
extracted table is the name of a registry entry filed under the extracted slot name, and that
entry's model equals the slot's scalar definition (`Slot.spec`, from `Spec.Kernels`) on every input
satisfying the slot's contract (`Slot.dom`).  The coverage of the table by the registry
(`tableCovered`) is decided by evaluation on the regenerated table: a kernel added to dispatch.c
without a model and a proof makes this theorem fail to build. -/
theorem C15_dispatch_kernels_eq_scalar :
    ∀ mask slot : Nat, slot < slots.length →
      ∃ k kn sn, select mask slot = some k ∧ kernels[k]? = some kn ∧ slots[slot]? = some sn ∧
        ∃ m ∈ registry, m.name = kn ∧ m.slot.name = sn ∧
          ∀ x, m.slot.dom x → m.run x = m.slot.spec x := by
  intro mask slot hs
  have hcov : tableCovered = true := by decide +kernel
  have hlen : slots.length = scalarInit.length := by decide
  obtain ⟨k, kreq, hsel, _, _⟩ := C15_dispatch_sound mask slot hs
  have hmem := SimdRegistry.select_mem_pairs blocks scalarInit mask slot k hsel
  have hc : covered (slot, k) = true := List.all_eq_true.mp hcov (slot, k) hmem
  obtain ⟨sn, kn, h1, h2, m, hm, hn, hsn⟩ := SimdRegistry.covered_entry (slot, k) hc
  exact ⟨k, kn, sn, hsel, h2, h1, m, hm, hn, hsn, SimdRegistry.registry_certified m hm⟩

-- non-vacuity: under the full capability set slot 2 (gather_i32) holds the AVX-512 gather, under
-- {sse2, sse4.1, sse4.2} the SSE one, under no flags the scalar fallback; all three are registry entries
example : (Impl.Dispatch.select 511 2).bind (Gen.Dispatch.kernels[·]?) = some "carquet_avx512_gather_i32" ∧
    (Impl.Dispatch.select 7 2).bind (Gen.Dispatch.kernels[·]?) = some "carquet_sse_gather_i32" ∧
    (Impl.Dispatch.select 0 2).bind (Gen.Dispatch.kernels[·]?) = some "scalar_gather_i32" := by decide
example : Impl.Dispatch.registry.length = 60 ∧ Impl.Dispatch.tablePairs.length = 60 := by decide

end Carquet.Properties.C15
