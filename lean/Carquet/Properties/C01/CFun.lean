import Carquet.Impl.CSem
import Carquet.Impl.Writer
import Carquet.Gen.CFun
import Carquet.Proofs.CFun.Basic
import Carquet.Proofs.CFun.Loops
/-
C01 — link theorem between the level bit width the page writer encodes with (src/writer/page_writer.c
`bit_width_for_max`) as translated from the CURRENT source (`Carquet.Gen.CFun`, regenerated on every run) and the writer
model the C01 theorems are about (`Impl.Writer.bitWidthForMax`).
-/
namespace Carquet.Properties.C01
open Carquet Carquet.Impl

/-- page_writer.c `bit_width_for_max(max_level)` is the model's `bitWidthForMax` for every non-negative `int16_t`
maximum level -/
theorem C01_cfun_bit_width_for_max (m : BitVec 16) (h : 0 ≤ m.toInt) :
    (Gen.CFun.page_writer_bit_width_for_max m).toNat = Impl.Writer.bitWidthForMax m.toInt.toNat := by
  have hn := Proofs.CFun.toNat_of_toInt_nonneg m h
  have h15 : m.toNat < 2 ^ 15 := by
    have := BitVec.toInt_lt (x := m); omega
  have hb := Proofs.CFun.bitLen_le_of_lt m.toNat 15 h15
  have hz : (0#32 : BitVec 32).toNat = 0 := rfl
  have hl := (Proofs.CFun.page_writer_bit_width_for_max_loop 16 m 0#32 m h15 (by omega) (by rw [hz]; omega)).1
  have hx := Proofs.CFun.signExtend_16_32 m h15
  unfold Gen.CFun.page_writer_bit_width_for_max Impl.Writer.bitWidthForMax
  rw [← hn]
  by_cases h0 : m = 0#16
  · subst h0; rfl
  · have hne : m.toNat ≠ 0 := fun e => h0 (BitVec.eq_of_toNat_eq e)
    have hne' : ¬ (BitVec.signExtend 32 m = 0#32) := fun e => hne (by rw [← hx, e]; rfl)
    simp only [beq_iff_eq, hne', if_false, hne, hl, hz, Nat.zero_add, CSem.bitLen]

theorem C01_cfun_bit_width_for_max_defined (m : BitVec 16) (h : 0 ≤ m.toInt) :
    Gen.CFun.page_writer_bit_width_for_max_defined m = true := by
  have h15 : m.toNat < 2 ^ 15 := by
    have := BitVec.toInt_lt (x := m); have := Proofs.CFun.toNat_of_toInt_nonneg m h; omega
  have hb := Proofs.CFun.bitLen_le_of_lt m.toNat 15 h15
  have hz : (0#32 : BitVec 32).toNat = 0 := rfl
  have hl := (Proofs.CFun.page_writer_bit_width_for_max_loop 16 m 0#32 m h15 (by omega) (by rw [hz]; omega)).2
  unfold Gen.CFun.page_writer_bit_width_for_max_defined
  by_cases h0 : BitVec.signExtend 32 m = 0#32 <;> simp [h0, hl]

example : (0 : Int) ≤ (5#16 : BitVec 16).toInt ∧ (Gen.CFun.page_writer_bit_width_for_max 5#16).toNat = 3 ∧
    Impl.Writer.bitWidthForMax 5 = 3 ∧ (Gen.CFun.page_writer_bit_width_for_max 32767#16).toNat = 15 ∧
    Gen.CFun.page_writer_bit_width_for_max_defined 32767#16 = true := by decide

end Carquet.Properties.C01
