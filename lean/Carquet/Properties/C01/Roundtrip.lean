import Carquet.Impl.SchemaApi
import Carquet.Proofs.RoundtripFile
import Carquet.Proofs.RoundtripCursor
import Carquet.Proofs.SpecWriterSizes
import Carquet.Properties.C05.SpecWriter
import Carquet.Properties.C01.Reader
/-
C01, FILE LEVEL — write-then-read returns the table.

`fileOf (Impl.FileReal.deps [])` is the byte-exact model of carquet's writer (tie: byte equality of
whole files, op `wr`); `Impl.Reader.readAll` is the model of carquet's reader (open, get_column,
page loaders, column reader; tie: every field the real reader returns on every generated file, in
three I/O modes, op `wr`).  `readerTableOf cols ops` (Impl/ReaderTable.lean) is the table the
history denotes — per row group, per column, the definition level of every row and the dense
values — defined from the batches alone; the driver's read-back predicate of op `wr` compares the
REAL reader's output with the same function.

The hypotheses are those of C05_spec_reader_accepts_writer (Properties/C05/SpecWriter.lean), where
each is explained: codec among UNCOMPRESSED / SNAPPY / LZ4 / LZ4_RAW; `SchemaOk` (at least one column,
flat REQUIRED / OPTIONAL / REPEATED columns, FLBA with a positive length, C-string names); `HistOk` (the arrays
hold what the counts say, values are bit patterns of the column's type, columns of a row group are
aligned — the rows of a REPEATED column are its entries with repetition level 0 — and begin with
repetition level 0); `FileSizesOk` (file below 2 GiB, at most 32768 row groups, chunk `num_values` and
`total_uncompressed_size` below 2^31); every call and the close returned OK.

Stages (each a statement of its own below; lemmas in Proofs/Roundtrip{Page,Open,Layout,Chunk,File,Cursor}.lean):
  open          C01_open_written          all three open paths on the written envelope + footer; build_schema
  get_column    C01_get_column_written    every test of get_column passes on the writer's metadata
  chunk offsets C01_chunk_at_offset       file = pre ++ pages of the chunk ++ post at data_page_offset, and
                                          every page record satisfies the reader half's `RecOk` (PageShape,
                                          HdrFits, header within the first 256-byte window)
  one chunk     C01_chunk_read_written    one read_batch of num_values rows = the column's table entry
                C01_read_chunk_api        the same through `readChunk`, as the caller's arrays (what the tie prints)
  row group     C01_row_group_read_written
  whole file    C01_roundtrip             (C01_roundtrip_sizes: direct size conditions, no alignment hypothesis)
Corollaries: C01_roundtrip_modes_agree (C03 on written files), C01_roundtrip_any_consumption (the
batch-at-a-time API through C02), C01_schema_read_back (names, types, repetition, type length, levels),
C01_null_def_levels_all_present.
Every codec tag: C01_roundtrip_lib — the same theorem for ANY codec tag and writer-side oracle under
`StoredOk` (what was stored decompresses), which is a theorem for UNCOMPRESSED / SNAPPY / LZ4 / LZ4_RAW
(C01_storedOk_exact) and the library contract `decompress (compress x) = x` for GZIP / ZSTD
(C01_storedOk_gzip, C01_storedOk_zstd).
-/
namespace Carquet.Properties.C01
open Carquet.Impl Carquet.Impl.Writer Carquet.Impl.FileReal
open Carquet.Proofs.SpecWriter Carquet.Proofs.WriterTable Carquet.Proofs.Roundtrip
open Carquet.Properties.C05 (SchemaOk HistOk FileSizesOk)

/-- everything the stages use about a completed run, from the hypotheses of the theorem -/
private theorem run_all (cols : List Col) (codec pageSize : Nat) (ops : List Op)
    (hcodec : codec = 0 ∨ codec = 1 ∨ codec = 5 ∨ codec = 7)
    (hschema : SchemaOk cols) (hhist : HistOk cols ops) (hsize : FileSizesOk cols codec pageSize ops)
    (hok : ∀ s ∈ (fileOf (deps []) cols codec pageSize "Carquet" ops).2, s = .ok) :
    RunFacts (deps []) (goodPred []) cols codec "Carquet" ops (fileOf (deps []) cols codec pageSize "Carquet" ops).1
      (mdOfRun (deps []) cols codec pageSize "Carquet" ops) (pagesOfRun (deps []) cols codec pageSize "Carquet" ops) ∧
    RunSmall (mdOfRun (deps []) cols codec pageSize "Carquet" ops) (pagesOfRun (deps []) cols codec pageSize "Carquet" ops) ∧
    ReadSmall (fileOf (deps []) cols codec pageSize "Carquet" ops).1 (mdOfRun (deps []) cols codec pageSize "Carquet" ops) := by
  have hf := run_facts (deps []) (goodPred []) cols codec pageSize "Carquet" ops hhist.wf hhist.batches hok
  refine ⟨hf, runSmall_of_output [] codec hcodec cols ops _ _ _ hf hschema.small hsize, ?_, ?_⟩
  · exact Nat.lt_trans hsize.fileLen (by decide)
  · intro g hg ch hch
    exact (hsize.chunks g hg ch hch).1

/-- **C01, file level.**  For every schema, codec among UNCOMPRESSED / SNAPPY / LZ4 / LZ4_RAW, page size
and write history satisfying the preconditions: if every call and the close returned OK, carquet's
reader — opened by `carquet_reader_open` with or without mmap or by `carquet_reader_open_buffer`,
with or without checksum verification, whatever zlib / libzstd would do — reads every column chunk
of every row group of the written file completely and returns exactly the table the history
denotes: row groups, rows, null positions (definition levels) and bit-identical values; `num_rows`
is the number of rows written. -/
theorem C01_roundtrip (cols : List Col) (codec pageSize : Nat) (ops : List Op) (mode : Reader.Mode) (verify : Bool)
    (L : Reader.Libs)
    (hcodec : codec = 0 ∨ codec = 1 ∨ codec = 5 ∨ codec = 7)
    (hschema : SchemaOk cols) (hhist : HistOk cols ops) (hsize : FileSizesOk cols codec pageSize ops)
    (hok : ∀ s ∈ (fileOf (deps []) cols codec pageSize "Carquet" ops).2, s = .ok) :
    Reader.readAll Reader.Fixes.all L verify mode (fileOf (deps []) cols codec pageSize "Carquet" ops).1 =
      .ok (readerTableOf cols ops) := by
  obtain ⟨hf, hsm, hrs⟩ := run_all cols codec pageSize ops hcodec hschema hhist hsize hok
  exact readAll_written L verify mode codec [] (storedOk_exact L [] codec hcodec) cols hschema.colsOk ops "Carquet" _ _ _ hf hsm hrs
    hschema.nonEmpty

/-- The same under the size conditions in their direct form: `RunSmall` (footer within the limits
`footerOk`, footer shorter than 4 GiB, every page's body / stored body / row count below 2^31) and
`ReadSmall` (file shorter than 2^64 bytes, every chunk's `num_values` below 2^31); and WITHOUT the
alignment of the columns of a row group — carquet's reader does not compare a chunk's row count
with the row group's `num_rows`. -/
theorem C01_roundtrip_sizes (cols : List Col) (codec pageSize : Nat) (ops : List Op) (mode : Reader.Mode) (verify : Bool)
    (L : Reader.Libs)
    (hcodec : codec = 0 ∨ codec = 1 ∨ codec = 5 ∨ codec = 7)
    (hne : cols ≠ []) (hcols : ∀ c ∈ cols, ColOk c) (hwf : HistWF ops)
    (hbatches : ∀ b, Op.batch b ∈ ops → ∀ c, cols[b.col]? = some c → BatchOk c b)
    (hsm : RunSmall (mdOfRun (deps []) cols codec pageSize "Carquet" ops) (pagesOfRun (deps []) cols codec pageSize "Carquet" ops))
    (hrs : ReadSmall (fileOf (deps []) cols codec pageSize "Carquet" ops).1 (mdOfRun (deps []) cols codec pageSize "Carquet" ops))
    (hok : ∀ s ∈ (fileOf (deps []) cols codec pageSize "Carquet" ops).2, s = .ok) :
    Reader.readAll Reader.Fixes.all L verify mode (fileOf (deps []) cols codec pageSize "Carquet" ops).1 =
      .ok (readerTableOf cols ops) :=
  readAll_written L verify mode codec [] (storedOk_exact L [] codec hcodec) cols hcols ops "Carquet" _ _ _
    (run_facts (deps []) (goodPred []) cols codec pageSize "Carquet" ops hwf hbatches hok) hsm hrs hne

/-- **C03 on written files** (immediate): the three ways of opening, and both checksum settings,
give the same result on every file the writer reports complete. -/
theorem C01_roundtrip_modes_agree (cols : List Col) (codec pageSize : Nat) (ops : List Op)
    (mode mode' : Reader.Mode) (verify verify' : Bool) (L L' : Reader.Libs)
    (hcodec : codec = 0 ∨ codec = 1 ∨ codec = 5 ∨ codec = 7)
    (hschema : SchemaOk cols) (hhist : HistOk cols ops) (hsize : FileSizesOk cols codec pageSize ops)
    (hok : ∀ s ∈ (fileOf (deps []) cols codec pageSize "Carquet" ops).2, s = .ok) :
    Reader.readAll Reader.Fixes.all L verify mode (fileOf (deps []) cols codec pageSize "Carquet" ops).1 =
      Reader.readAll Reader.Fixes.all L' verify' mode' (fileOf (deps []) cols codec pageSize "Carquet" ops).1 := by
  rw [C01_roundtrip cols codec pageSize ops mode verify L hcodec hschema hhist hsize hok,
    C01_roundtrip cols codec pageSize ops mode' verify' L' hcodec hschema hhist hsize hok]

/-! ### every codec tag: GZIP and ZSTD by the library contract -/

/-- **C01 for ANY codec tag, over the libraries' contract.**  `o` is what zlib / libzstd produced on
the writer's side (the oracle of `Impl.FileReal.compress`, a table from page bodies to stored
bodies; irrelevant for the byte-exact codecs), `L` the libraries on the reader's side.  If whatever
was stored decompresses (`StoredOk L o codec`: a theorem for UNCOMPRESSED / SNAPPY / LZ4 / LZ4_RAW —
`C01_storedOk_exact` —, the contract `decompress (compress x) = x` of Impl.CodecWrappers for GZIP /
ZSTD — `C01_storedOk_gzip`, `C01_storedOk_zstd`), the reader returns the table, in every mode.
Size conditions in their direct form (`RunSmall`, `ReadSmall`), no alignment hypothesis. -/
theorem C01_roundtrip_lib (o : FileReal.Oracle) (cols : List Col) (codec pageSize : Nat) (ops : List Op) (mode : Reader.Mode)
    (verify : Bool) (L : Reader.Libs) (hst : StoredOk L o codec)
    (hne : cols ≠ []) (hcols : ∀ c ∈ cols, ColOk c) (hwf : HistWF ops)
    (hbatches : ∀ b, Op.batch b ∈ ops → ∀ c, cols[b.col]? = some c → BatchOk c b)
    (hsm : RunSmall (mdOfRun (deps o) cols codec pageSize "Carquet" ops) (pagesOfRun (deps o) cols codec pageSize "Carquet" ops))
    (hrs : ReadSmall (fileOf (deps o) cols codec pageSize "Carquet" ops).1 (mdOfRun (deps o) cols codec pageSize "Carquet" ops))
    (hok : ∀ s ∈ (fileOf (deps o) cols codec pageSize "Carquet" ops).2, s = .ok) :
    Reader.readAll Reader.Fixes.all L verify mode (fileOf (deps o) cols codec pageSize "Carquet" ops).1 =
      .ok (readerTableOf cols ops) :=
  readAll_written L verify mode codec o hst cols hcols ops "Carquet" _ _ _
    (run_facts (deps o) (goodPred o) cols codec pageSize "Carquet" ops hwf hbatches hok) hsm hrs hne

/-- UNCOMPRESSED, SNAPPY, LZ4, LZ4_RAW: the stored body decompresses, by C09 (no assumption) -/
theorem C01_storedOk_exact (L : Reader.Libs) (o : FileReal.Oracle) (codec : Nat)
    (hcodec : codec = 0 ∨ codec = 1 ∨ codec = 5 ∨ codec = 7) : StoredOk L o codec :=
  storedOk_exact L o codec hcodec

/-- GZIP: if the writer's side stored outputs of zlib's compressor (at a level inside the range of the
contract) and zlib satisfies `decompress (compress x) = x`, the stored body decompresses -/
theorem C01_storedOk_gzip (L : Reader.Libs) (o : FileReal.Oracle) (lo hi : Int)
    (hc : CodecWrappers.Lib.Contract L.gzip lo hi) (ho : OracleFrom L.gzip lo hi o) : StoredOk L o 2 :=
  storedOk_gzip L o lo hi hc ho

/-- ZSTD: the same for libzstd -/
theorem C01_storedOk_zstd (L : Reader.Libs) (o : FileReal.Oracle) (lo hi : Int)
    (hc : CodecWrappers.Lib.Contract L.zstd lo hi) (ho : OracleFrom L.zstd lo hi o) : StoredOk L o 6 :=
  storedOk_zstd L o lo hi hc ho

/-! ### the reader half in its general form (any codec tag)

`RecOkL L c codec r` (Proofs/ReaderChunkRoundtrip.lean) is `RecOk` with "the stored body is
`compress_data` of the body for a byte-exact codec" replaced by what the reader needs of it: the
loaders' decompression step turns the stored body back into the body.  `C01_page_load_roundtrip`
and `C01_chunk_pages_roundtrip` (Properties/C01/Reader.lean) are the instances for codecs 0/1/5/7. -/

open Carquet.Proofs.ReaderChunkRoundtrip Carquet.Proofs.ReaderPageRoundtrip Carquet.Proofs.ReaderModes in
/-- one page through `load_next_page`, any codec tag -/
theorem C01_page_load_roundtrip_lib (L : Reader.Libs) (verify : Bool) (mode : Reader.Mode) (pre post : Reader.Bytes) (c : Col)
    (cm : ThriftParquet.ColumnMetaData) (codec : Nat) (r : PageRec) (st : Reader.PState)
    (hr : RecOkL L c codec r) (hcodec : cm.codec = (codec : Int)) (hnd : cm.dictionaryPageOffset = none)
    (hoff : st.dataStart + st.currentPage = (pre.length : Int)) (hrem : (r.rows : Int) ≤ st.valuesRemaining)
    (hpost : 8 ≤ post.length) (hsz : (pre ++ PageRec.bytes D r ++ post).length < 2 ^ 64) :
    (okOf (Reader.loadPage Reader.Fixes.all L verify mode (pre ++ PageRec.bytes D r ++ post) (colOf c cm) st).result).map proj =
      some (decodedOf c r, (hdrBytes r).length, r.comp.length) ∧
    Reader.stateAfterLoad Reader.Fixes.all L verify mode (pre ++ PageRec.bytes D r ++ post) (colOf c cm) st = st :=
  loadPage_writerPageL L verify mode pre post c cm codec r st hr hcodec hnd hoff hrem hpost hsz

open Carquet.Proofs.ReaderChunkRoundtrip Carquet.Proofs.ReaderPageRoundtrip in
/-- one chunk through the page iteration, any codec tag -/
theorem C01_chunk_pages_roundtrip_lib (L : Reader.Libs) (verify : Bool) (mode : Reader.Mode) (c : Col)
    (cm : ThriftParquet.ColumnMetaData) (codec : Nat) (ps : List PageRec) (pre post : Reader.Bytes)
    (hcodec : cm.codec = (codec : Int)) (hnd : cm.dictionaryPageOffset = none)
    (hoff : cm.dataPageOffset = (pre.length : Int))
    (hnv : cm.numValues = (Carquet.Proofs.WriterPages.sumRows ps : Int))
    (hall : ∀ r ∈ ps, RecOkL L c codec r) (hpost : 8 ≤ post.length)
    (hsz : (pre ++ Carquet.Proofs.WriterPages.pagesBytes D ps ++ post).length < 2 ^ 64) :
    (Reader.chunkOf Reader.Fixes.all L verify mode (pre ++ Carquet.Proofs.WriterPages.pagesBytes D ps ++ post) (colOf c cm)).pages =
      ps.map (fun r => some (cursorPage c r)) :=
  (chunkOf_writerL L verify mode c cm codec ps pre post hcodec hnd hoff hnv hall hpost hsz).1

/-! ### the stages, as statements of their own -/

section stages
variable (cols : List Col) (codec pageSize : Nat) (ops : List Op)
  (hcodec : codec = 0 ∨ codec = 1 ∨ codec = 5 ∨ codec = 7)
  (hschema : SchemaOk cols) (hhist : HistOk cols ops) (hsize : FileSizesOk cols codec pageSize ops)
  (hok : ∀ s ∈ (fileOf (deps []) cols codec pageSize "Carquet" ops).2, s = .ok)
include hcodec hschema hhist hsize hok

/-- **open.**  Every open path accepts the written file (both magics, the footer length word, the
footer parsed by `parquet_parse_file_metadata` with its required fields, `build_schema`) and holds
afterwards: the metadata the writer assembled at close, and one leaf per column — leaf `j` is
schema element `1 + j` with the levels of the column's repetition. -/
theorem C01_open_written (mode : Reader.Mode) :
    Reader.openFile mode (fileOf (deps []) cols codec pageSize "Carquet" ops).1 =
      .ok ⟨FileReal.fileMetaData (mdOfRun (deps []) cols codec pageSize "Carquet" ops), leavesOfCols cols⟩ := by
  obtain ⟨hf, hsm, _⟩ := run_all cols codec pageSize ops hcodec hschema hhist hsize hok
  have hfoot : (deps []).footer (mdOfRun (deps []) cols codec pageSize "Carquet" ops) =
      FileReal.footer (mdOfRun (deps []) cols codec pageSize "Carquet" ops) := rfl
  have hc := hf.cols_eq
  have hne : (mdOfRun (deps []) cols codec pageSize "Carquet" ops).cols ≠ [] := by rw [hc]; exact hschema.nonEmpty
  have := openFile_envelope mode (Carquet.Proofs.WriterPages.dataBytes (deps []) (pagesOfRun (deps []) cols codec pageSize "Carquet" ops))
    _ hsm.footerLen _ (parseFooter_written _ hsm.footer hne)
  rw [hc] at this
  rw [hf.file_eq, hfoot]
  exact this

/-- **get_column.**  For row group `i` of the footer and column `j` of the schema,
`carquet_reader_get_column` passes every test (indices, chunk count, metadata present, physical
type against the schema, FLBA length, `num_values ≥ 0`) and creates the column reader of the
column with the chunk's metadata. -/
theorem C01_get_column_written (i j : Nat) (gm : RgMeta) (m : ChunkMeta) (c : Col)
    (hg : (mdOfRun (deps []) cols codec pageSize "Carquet" ops).rowGroups[i]? = some gm)
    (hm : gm.chunks[j]? = some m) (hc : cols[j]? = some c) :
    Reader.getColumn ⟨FileReal.fileMetaData (mdOfRun (deps []) cols codec pageSize "Carquet" ops), leavesOfCols cols⟩ i j =
      .ok (Carquet.Proofs.ReaderPageRoundtrip.colOf c (cmdOf m)) := by
  obtain ⟨hf, hsm, _⟩ := run_all cols codec pageSize ops hcodec hschema hhist hsize hok
  obtain ⟨_, m', _, _, h2, _, hcell⟩ := cell_of_run [] codec cols ops "Carquet" _ _ _ hf hsm i j gm c hg hc
  rw [hm] at h2
  simp only [Option.some.injEq] at h2
  subst h2
  have := getColumn_written _ i j gm m c (hschema.colsOk c (List.mem_of_getElem? hc)) hg hm (by rw [hf.cols_eq]; exact hc) hcell.ptype
  rw [hf.cols_eq] at this
  exact this

/-- **chunk offsets and page invariants.**  The chunk of row group `i`, column `j` lies in the file
exactly where its metadata say: the file is `pre ++ pages ++ post` with `|pre|` = the chunk's
`file_offset` = `data_page_offset`, at least the 8 trailing bytes behind it, `pages` the bytes
(hand-written header ++ stored body) of the chunk's page records, whose row counts sum to the
chunk's `num_values`; their content concatenated is the column's entry of the table; and every page
record satisfies `RecOk` — the hypothesis of the reader half (C01_page_load_roundtrip,
C01_chunk_pages_roundtrip): `PageShape`, `HdrFits` and a header of at most 256 bytes are INVARIANTS
of the writer's page builder. -/
theorem C01_chunk_at_offset (i j : Nat) (g : List ColData) (c : Col)
    (hg : (tableOf cols ops)[i]? = some g) (hc : cols[j]? = some c) :
    ∃ (gm : RgMeta) (m : ChunkMeta) (ps : List PageRec) (pre post : List UInt8),
      (mdOfRun (deps []) cols codec pageSize "Carquet" ops).rowGroups[i]? = some gm ∧ gm.chunks[j]? = some m ∧
      (fileOf (deps []) cols codec pageSize "Carquet" ops).1 = pre ++ Carquet.Proofs.WriterPages.pagesBytes (deps []) ps ++ post ∧
      pre.length = m.fileOffset ∧ 8 ≤ post.length ∧ m.numValues = Carquet.Proofs.WriterPages.sumRows ps ∧ m.codec = codec ∧
      g[j]? = some (pagesData ps) ∧
      ∀ r ∈ ps, Carquet.Proofs.ReaderChunkRoundtrip.RecOk c codec r := by
  obtain ⟨hf, hsm, _⟩ := run_all cols codec pageSize ops hcodec hschema hhist hsize hok
  have hlen := allGroups_length (deps []) codec _ _ hf.allGroups
  rw [← hf.table, List.getElem?_map] at hg
  cases hgp : (pagesOfRun (deps []) cols codec pageSize "Carquet" ops)[i]? with
  | none => rw [hgp] at hg; cases hg
  | some gp =>
    rw [hgp] at hg
    simp only [Option.map_some, Option.some.injEq] at hg
    have hi : i < (mdOfRun (deps []) cols codec pageSize "Carquet" ops).rowGroups.length := by
      have := (List.getElem?_eq_some_iff.mp hgp).1; omega
    obtain ⟨gp', m, ps, h1, h2, h3, hcell⟩ := cell_of_run [] codec cols ops "Carquet" _ _ _ hf hsm i j _ c
      (List.getElem?_eq_getElem hi) hc
    rw [hgp] at h1
    simp only [Option.some.injEq] at h1
    subst h1
    obtain ⟨pre, post, s1, s2, s3⟩ := hcell.split
    refine ⟨_, m, ps, pre, post, List.getElem?_eq_getElem hi, h2, s1, s2, s3, hcell.pages.1, hcell.pages.2.2.2.1, ?_, ?_⟩
    · rw [← hg, List.getElem?_map, h3]; rfl
    · intro r hr
      exact recOk_of_facts hcodec (hschema.colsOk c (List.mem_of_getElem? hc)) (hcell.facts r hr)

/-- **one chunk.**  The column reader `get_column` creates for row group `i`, column `j`, driven by
one `carquet_column_read_batch` of `num_values` rows with a definition-level array, returns the
column's entry of the table: one definition level per row and the dense values. -/
theorem C01_chunk_read_written (L : Reader.Libs) (verify : Bool) (mode : Reader.Mode) (i j : Nat) (g : List ColData) (d : ColData)
    (c : Col) (hg : (tableOf cols ops)[i]? = some g) (hd : g[j]? = some d) (hc : cols[j]? = some c) :
    ∃ col, Reader.getColumn ⟨FileReal.fileMetaData (mdOfRun (deps []) cols codec pageSize "Carquet" ops), leavesOfCols cols⟩ i j = .ok col ∧
      Reader.columnData col.maxDef
        (ColumnReader.readBatch ColumnReader.Fixes.all (ColumnReader.getColumn
          (Reader.chunkOf Reader.Fixes.all L verify mode (fileOf (deps []) cols codec pageSize "Carquet" ops).1 col))
          col.cm.numValues true false).2 col.cm.numValues = some (readerColOf c d) := by
  obtain ⟨hf, hsm, hrs⟩ := run_all cols codec pageSize ops hcodec hschema hhist hsize hok
  rw [← hf.table, List.getElem?_map] at hg
  cases hgp : (pagesOfRun (deps []) cols codec pageSize "Carquet" ops)[i]? with
  | none => rw [hgp] at hg; cases hg
  | some gp =>
    rw [hgp] at hg
    simp only [Option.map_some, Option.some.injEq] at hg
    have hlen := allGroups_length (deps []) codec _ _ hf.allGroups
    have hi : i < (mdOfRun (deps []) cols codec pageSize "Carquet" ops).rowGroups.length := by
      have := (List.getElem?_eq_some_iff.mp hgp).1; omega
    obtain ⟨gp', m, ps, h1, h2, h3, hcell⟩ := cell_of_run [] codec cols ops "Carquet" _ _ _ hf hsm i j _ c
      (List.getElem?_eq_getElem hi) hc
    rw [hgp] at h1
    simp only [Option.some.injEq] at h1
    subst h1
    have hdd : d = pagesData ps := by
      rw [← hg, List.getElem?_map, h3] at hd
      simpa using hd.symm
    have hck := hschema.colsOk c (List.mem_of_getElem? hc)
    have hgc := getColumn_written _ i j _ m c hck (List.getElem?_eq_getElem hi) h2 (by rw [hf.cols_eq]; exact hc) hcell.ptype
    rw [hf.cols_eq] at hgc
    refine ⟨_, hgc, ?_⟩
    rw [hdd]
    exact readCell L verify mode codec [] (storedOk_exact L [] codec hcodec) _ c hck m ps hcell
      (hrs.numValues _ (List.mem_of_getElem? (List.getElem?_eq_getElem hi)) m (List.mem_of_getElem? h2)) hrs.fileLen

/-- **one chunk through the public call**, as the harness makes it and `Impl.Reader.readChunk` models it:
`get_column`, then ONE `carquet_column_read_batch(cr, values, carquet_column_remaining(cr), def_levels?, NULL)`.
The call returns the number of rows of the column in that row group, fills the level array (when
one is passed) with the definition level of every row, and the value array with the dense values
(its remaining slots stay untouched). -/
theorem C01_read_chunk_api (L : Reader.Libs) (verify : Bool) (mode : Reader.Mode) (i j : Nat) (g : List ColData) (d : ColData)
    (c : Col) (hg : (tableOf cols ops)[i]? = some g) (hd : g[j]? = some d) (hc : cols[j]? = some c) (wantDefs : Bool) :
    ∃ res, Reader.readChunk Reader.Fixes.all L verify mode (fileOf (deps []) cols codec pageSize "Carquet" ops).1
        ⟨FileReal.fileMetaData (mdOfRun (deps []) cols codec pageSize "Carquet" ops), leavesOfCols cols⟩ i j wantDefs = .ok res ∧
      res.count = (d.rows : Int) ∧ res.defs = (if wantDefs then (readerDefs c d).map some else []) ∧ res.reps = [] ∧
      res.vals = d.vals.map some ++ List.replicate (d.rows - d.vals.length) none := by
  obtain ⟨hf, hsm, hrs⟩ := run_all cols codec pageSize ops hcodec hschema hhist hsize hok
  rw [← hf.table, List.getElem?_map] at hg
  cases hgp : (pagesOfRun (deps []) cols codec pageSize "Carquet" ops)[i]? with
  | none => rw [hgp] at hg; cases hg
  | some gp =>
    rw [hgp] at hg
    simp only [Option.map_some, Option.some.injEq] at hg
    have hlen := allGroups_length (deps []) codec _ _ hf.allGroups
    have hi : i < (mdOfRun (deps []) cols codec pageSize "Carquet" ops).rowGroups.length := by
      have := (List.getElem?_eq_some_iff.mp hgp).1; omega
    obtain ⟨gp', m, ps, h1, h2, h3, hcell⟩ := cell_of_run [] codec cols ops "Carquet" _ _ _ hf hsm i j _ c
      (List.getElem?_eq_getElem hi) hc
    rw [hgp] at h1
    simp only [Option.some.injEq] at h1
    subst h1
    have hdd : d = pagesData ps := by
      rw [← hg, List.getElem?_map, h3] at hd
      simpa using hd.symm
    have hck := hschema.colsOk c (List.mem_of_getElem? hc)
    have hgc := getColumn_written _ i j _ m c hck (List.getElem?_eq_getElem hi) h2 (by rw [hf.cols_eq]; exact hc) hcell.ptype
    rw [hf.cols_eq] at hgc
    obtain ⟨res, hres, r1, r2, r3, r4⟩ := readCellApi L verify mode codec [] (storedOk_exact L [] codec hcodec) _ c hck m ps hcell
      (hrs.numValues _ (List.mem_of_getElem? (List.getElem?_eq_getElem hi)) m (List.mem_of_getElem? h2)) hrs.fileLen wantDefs
    refine ⟨res, ?_, ?_⟩
    · unfold Reader.readChunk
      rw [hgc]
      simp only [hres]
    · rw [hdd]; exact ⟨r1, r2, r3, r4⟩

/-- **one row group.**  The loop over the columns (`num_columns` = number of columns of the schema)
returns the row group of the table. -/
theorem C01_row_group_read_written (L : Reader.Libs) (verify : Bool) (mode : Reader.Mode) (i : Nat) (g : List ColData)
    (hg : (tableOf cols ops)[i]? = some g) :
    Reader.readRowGroup Reader.Fixes.all L verify mode (fileOf (deps []) cols codec pageSize "Carquet" ops).1
      ⟨FileReal.fileMetaData (mdOfRun (deps []) cols codec pageSize "Carquet" ops), leavesOfCols cols⟩ i cols.length =
      .ok (List.zipWith readerColOf cols g) := by
  obtain ⟨hf, hsm, hrs⟩ := run_all cols codec pageSize ops hcodec hschema hhist hsize hok
  rw [← hf.table, List.getElem?_map] at hg
  cases hgp : (pagesOfRun (deps []) cols codec pageSize "Carquet" ops)[i]? with
  | none => rw [hgp] at hg; cases hg
  | some gp =>
    rw [hgp] at hg
    simp only [Option.map_some, Option.some.injEq] at hg
    have hlen := allGroups_length (deps []) codec _ _ hf.allGroups
    have hi : i < (mdOfRun (deps []) cols codec pageSize "Carquet" ops).rowGroups.length := by
      have := (List.getElem?_eq_some_iff.mp hgp).1; omega
    have := readRowGroup_written L verify mode codec [] (storedOk_exact L [] codec hcodec) cols hschema.colsOk ops "Carquet" _ _ _ hf hsm hrs i _ gp
      (List.getElem?_eq_getElem hi) hgp cols.length (Nat.le_refl _)
    rw [hf.cols_eq] at this
    rw [this, ← hg]
    congr 1
    apply List.take_of_length_le
    simp only [groupRead, List.length_zipWith]
    omega

/-- **The batch-at-a-time API (through C02).**  For row group `i`, column `j` of the written file and
EVERY history of `read k | skip k | has_next | remaining | re-create` calls on the column reader
`get_column` creates — in any mode —, the outputs are those of the index cursor (Spec.Cursor) over
the rows of that column of the table the history denotes (`tableRows`: one row per definition
level, a value on the rows at the maximum level): however the consumer cuts the chunk into batches,
it sees the written rows, in order, none lost, none repeated. -/
theorem C01_roundtrip_any_consumption (L : Reader.Libs) (verify : Bool) (mode : Reader.Mode) (i j : Nat)
    (g : List ColData) (d : ColData) (c : Col)
    (hg : (tableOf cols ops)[i]? = some g) (hd : g[j]? = some d) (hc : cols[j]? = some c)
    (cops : List Carquet.Spec.Cursor.Op) (hops : ∀ op ∈ cops, Carquet.Proofs.Cursor.OpOk op) :
    ∃ o col, Reader.openFile mode (fileOf (deps []) cols codec pageSize "Carquet" ops).1 = .ok o ∧
      Reader.getColumn o i j = .ok col ∧
      (ColumnReader.run ColumnReader.Fixes.all
        (Reader.chunkOf Reader.Fixes.all L verify mode (fileOf (deps []) cols codec pageSize "Carquet" ops).1 col) cops).2 =
        (Carquet.Spec.Cursor.run (tableRows c d) cops).2.map Carquet.Proofs.Cursor.encodeOut := by
  obtain ⟨hf, hsm, hrs⟩ := run_all cols codec pageSize ops hcodec hschema hhist hsize hok
  have hopen := C01_open_written cols codec pageSize ops hcodec hschema hhist hsize hok mode
  rw [← hf.table, List.getElem?_map] at hg
  cases hgp : (pagesOfRun (deps []) cols codec pageSize "Carquet" ops)[i]? with
  | none => rw [hgp] at hg; cases hg
  | some gp =>
    rw [hgp] at hg
    simp only [Option.map_some, Option.some.injEq] at hg
    have hlen := allGroups_length (deps []) codec _ _ hf.allGroups
    have hi : i < (mdOfRun (deps []) cols codec pageSize "Carquet" ops).rowGroups.length := by
      have := (List.getElem?_eq_some_iff.mp hgp).1; omega
    obtain ⟨gp', m, ps, h1, h2, h3, hcell⟩ := cell_of_run [] codec cols ops "Carquet" _ _ _ hf hsm i j _ c
      (List.getElem?_eq_getElem hi) hc
    rw [hgp] at h1
    simp only [Option.some.injEq] at h1
    subst h1
    have hdd : d = pagesData ps := by
      rw [← hg, List.getElem?_map, h3] at hd
      simpa using hd.symm
    have hck := hschema.colsOk c (List.mem_of_getElem? hc)
    have hgc := getColumn_written _ i j _ m c hck (List.getElem?_eq_getElem hi) h2 (by rw [hf.cols_eq]; exact hc) hcell.ptype
    rw [hf.cols_eq] at hgc
    refine ⟨_, _, hopen, hgc, ?_⟩
    rw [hdd]
    exact runCell L verify mode codec [] (storedOk_exact L [] codec hcodec) _ c hck m ps hcell hrs.fileLen cops hops

/-- **The schema reads back.**  The opened reader's schema is the written one: for column `j`, leaf `j`
points at a schema element that carries the column's name (UTF-8 bytes), physical type, repetition
and type length, the leaf's maximum definition / repetition levels are those of the column, and
`carquet_schema_node_logical_type` of that element returns the logical type the column was created
with — id and parameters — or NULL when the column was created with a NULL pointer or id UNKNOWN
(`FileReal.colLogical`); no converted type is stated. -/
theorem C01_schema_read_back (mode : Reader.Mode) (j : Nat) (c : Col) (hc : cols[j]? = some c) :
    ∃ o lf el, Reader.openFile mode (fileOf (deps []) cols codec pageSize "Carquet" ops).1 = .ok o ∧
      o.numColumns = cols.length ∧ o.leaves[j]? = some lf ∧ o.md.schema[lf.elemIdx]? = some el ∧
      el.name = some (FileReal.strBytes c.name) ∧ el.type = some (c.ptype.code : Int) ∧
      el.repetition = some (c.rep.code : Int) ∧ el.typeLength = (c.typeLen : Int) ∧ el.numChildren = 0 ∧
      lf.maxDef = c.maxDef ∧ lf.maxRep = c.maxRep ∧
      SchemaApi.nodeLogicalType el = FileReal.colLogical c ∧ el.convertedType = none := by
  obtain ⟨hf, _, _⟩ := run_all cols codec pageSize ops hcodec hschema hhist hsize hok
  have hopen := C01_open_written cols codec pageSize ops hcodec hschema hhist hsize hok mode
  obtain ⟨hd, hr⟩ := colInfo_levels c
  refine ⟨_, _, colElement c, hopen, by simp [Reader.Opened.numColumns, leavesOfCols], leavesOfCols_get cols j c hc, ?_,
    rfl, rfl, rfl, rfl, rfl, hd, hr, rfl, rfl⟩
  show (FileReal.fileMetaData (mdOfRun (deps []) cols codec pageSize "Carquet" ops)).schema[1 + j]? = _
  rw [Carquet.Proofs.Roundtrip.schema_written, Nat.add_comm, List.getElem?_cons_succ, List.getElem?_map, hf.cols_eq, hc]
  rfl

end stages

/-- **NULL def_levels = all present.**  What an accepted `write_batch` on an OPTIONAL column with a NULL
`def_levels` pointer contributes to the table (`tableOf` is the concatenation of `batchData` per row
group and column): `nrows` rows, every one at definition level 1, carrying the values handed in. -/
theorem C01_null_def_levels_all_present (c : Col) (b : Batch) (hc : c.rep = .optional) (hb : b.defs = none) :
    readerDefs c (batchData c b) = List.replicate b.nrows 1 ∧ (batchData c b).vals = b.vals ∧ (batchData c b).rows = b.nrows := by
  simp [readerDefs, batchData, Col.maxDef, hc, hb]

/-! ### non-vacuity: the two-column, two-row-group, Snappy-compressed history of Properties/C05/SpecWriter.lean
(OPTIONAL INT32 with a null and page statistics, REQUIRED BOOLEAN) satisfies every hypothesis -/

private def exCols : List Col := [⟨"a", .int32, .optional, 0, none⟩, ⟨"b", .boolean, .required, 0, none⟩]
private def exOps : List Op :=
  [.batch ⟨0, 3, some [1, 0, 1], [[1, 0, 0, 0], [2, 0, 0, 0]], none⟩, .batch ⟨1, 3, none, [[1], [0], [1]], none⟩, .newRowGroup,
   .batch ⟨0, 1, none, [[7, 0, 0, 0]], none⟩, .batch ⟨1, 1, none, [[0]], none⟩]

private theorem exSchemaOk : SchemaOk exCols :=
  ⟨by decide, fun c hc => by
    simp only [exCols, List.mem_cons, List.mem_nil_iff, or_false] at hc
    rcases hc with rfl | rfl <;> exact ⟨by decide⟩,
   ⟨by decide, by decide +kernel, by decide, by decide⟩⟩

private theorem exHistOk : HistOk exCols exOps := by
  refine ⟨?_, ?_, by decide +kernel, by decide +kernel⟩
  · intro b hb
    simp only [exOps, List.mem_cons, Op.batch.injEq, List.mem_nil_iff, or_false, reduceCtorEq, false_or] at hb
    rcases hb with h | h | h | h <;> subst h <;>
      exact ⟨by decide, (by intro ds h; cases h <;> rfl), (by intro rs h; cases h)⟩
  · intro b hb c hc
    simp only [exOps, List.mem_cons, Op.batch.injEq, List.mem_nil_iff, or_false, reduceCtorEq, false_or] at hb
    rcases hb with h | h | h | h <;> subst h <;>
      simp only [exCols, List.getElem?_cons_zero, List.getElem?_cons_succ, Option.some.injEq] at hc <;> subst hc <;>
      exact ⟨by decide, (by intro ds h; cases h <;> rfl), (by intro _ ds h; cases h <;> decide), by decide,
        (by intro rs h; cases h), (by intro _ rs h; cases h)⟩

private theorem exSizesOk : FileSizesOk exCols 1 64 exOps := ⟨by decide +kernel, by decide +kernel, by decide +kernel⟩

private theorem exAllOk : ((fileOf (deps []) exCols 1 64 "Carquet" exOps).2.all (· == .ok)) = true := by decide +kernel

/-- the theorem applied to the example, in mmap mode with checksum verification and libraries that
always fail: the reader returns the example's table -/
example : Reader.readAll Reader.Fixes.all Carquet.Proofs.ReaderExamples.noLibs true .mmap
    (fileOf (deps []) exCols 1 64 "Carquet" exOps).1 = .ok (readerTableOf exCols exOps) :=
  C01_roundtrip exCols 1 64 exOps .mmap true _ (by decide) exSchemaOk exHistOk exSizesOk
    (fun s hs => by simpa using List.all_eq_true.mp exAllOk s hs)

/-- the table of the example: 4 rows in two row groups; column `a` of the first has a null -/
example : readerTableOf exCols exOps =
    ⟨4, [[⟨[1, 0, 1], [[1, 0, 0, 0], [2, 0, 0, 0]]⟩, ⟨[0, 0, 0], [[1], [0], [1]]⟩],
         [⟨[1], [[7, 0, 0, 0]]⟩, ⟨[0], [[0]]⟩]]⟩ := by decide +kernel

/-- … and its rows for the batch-at-a-time API -/
example : tableRows ⟨"a", .int32, .optional, 0, none⟩ ⟨3, [1, 0, 1], [], [[1, 0, 0, 0], [2, 0, 0, 0]]⟩ =
    [⟨1, 0, some [1, 0, 0, 0]⟩, ⟨0, 0, none⟩, ⟨1, 0, some [2, 0, 0, 0]⟩] := by decide

/-! ### non-vacuity for REPEATED columns: a REPEATED INT32 column first (rows [1,2], [], [3,4]; the second
batch continues the last list, so with page size 1 a page ends inside a row; then two one-element
lists written with NULL level pointers) next to a REQUIRED column, two row groups, LZ4_RAW
(`rpCols`, `rpOps` and the proofs that they satisfy the hypotheses: Properties/C05/SpecWriter.lean) -/

open Carquet.Properties.C05 (rpCols rpOps rpSchemaOk rpHistOk rpSizesOk rpAllOk) in
/-- the theorem applied: the reader returns the table with the REPEATED column, in fread mode -/
example : Reader.readAll Reader.Fixes.all Carquet.Proofs.ReaderExamples.noLibs true .fread
    (fileOf (deps []) rpCols 7 1 "Carquet" rpOps).1 = .ok (readerTableOf rpCols rpOps) :=
  C01_roundtrip rpCols 7 1 rpOps .fread true _ (by decide) rpSchemaOk rpHistOk rpSizesOk
    (fun s hs => by simpa using List.all_eq_true.mp rpAllOk s hs)

open Carquet.Properties.C05 (rpCols rpOps) in
/-- its table: `num_rows` 5 = 3 + 2 rows (not the 7 level entries of column `l`); per entry of `l` the
definition level (0 = empty list) and the dense values -/
example : readerTableOf rpCols rpOps =
    ⟨5, [[⟨[1, 1, 0, 1, 1], [[1, 0, 0, 0], [2, 0, 0, 0], [3, 0, 0, 0], [4, 0, 0, 0]]⟩,
          ⟨[0, 0, 0], [[10, 0, 0, 0], [11, 0, 0, 0], [12, 0, 0, 0]]⟩],
         [⟨[1, 1], [[5, 0, 0, 0], [6, 0, 0, 0]]⟩, ⟨[0, 0], [[13, 0, 0, 0], [14, 0, 0, 0]]⟩]]⟩ := by decide +kernel

open Carquet.Properties.C05 (rpCols rpOps) in
/-- … and the entries of column `l` of the first row group for the batch-at-a-time API
(C01_roundtrip_any_consumption), with their repetition levels: [1,2], [], [3,4] -/
example : ((tableOf rpCols rpOps)[0]?.bind (·[0]?)).map (tableRows ⟨"l", .int32, .repeated, 0, none⟩) =
    some [⟨1, 0, some [1, 0, 0, 0]⟩, ⟨1, 1, some [2, 0, 0, 0]⟩, ⟨0, 0, none⟩, ⟨1, 0, some [3, 0, 0, 0]⟩,
          ⟨1, 1, some [4, 0, 0, 0]⟩] := by decide +kernel

/-! ### non-vacuity of the library form: the same history written with codec tag GZIP, with a "library"
that stores its input (it satisfies the contract), the oracle holding what it produced -/

private def idLib : CodecWrappers.Lib :=
  ⟨fun _ x cap => if x.length ≤ cap then some x else none, fun c cap => if c.length ≤ cap then some c else none, fun n => n⟩

private theorem idLib_contract : CodecWrappers.Lib.Contract idLib 1 9 := by
  refine ⟨?_, ?_, ?_, ?_, ?_⟩
  · intro lvl x cap _ _ h; exact ⟨x, by simp only [idLib] at h ⊢; rw [if_pos h]⟩
  · intro lvl x c cap h
    simp only [idLib] at h
    split at h
    · cases h; assumption
    · cases h
  · intro lvl x c cap _ _ h
    simp only [idLib] at h ⊢
    split at h
    · cases h; exact Nat.le_refl _
    · cases h
  · intro lvl x c cap cap' _ _ h hx
    simp only [idLib] at h ⊢
    split at h
    · cases h; rw [if_pos hx]
    · cases h
  · intro c y cap h
    simp only [idLib] at h
    split at h
    · cases h; assumption
    · cases h

/-- the page bodies of the example history (they do not depend on the codec) and what the library made of them -/
private def exOracle : FileReal.Oracle :=
  ((pagesOfRun (deps []) exCols 0 64 "Carquet" exOps).flatten.flatten.map (·.body)).map (fun b => (b, b))

private theorem exOracleFrom : OracleFrom idLib 1 9 exOracle := by
  intro p hp
  obtain ⟨b, _, rfl⟩ := List.mem_map.mp hp
  exact ⟨1, b.length, by decide, by decide, by simp [idLib]⟩

private theorem exAllOkLib : ((fileOf (deps exOracle) exCols 2 64 "Carquet" exOps).2.all (· == .ok)) = true := by decide +kernel

example : Reader.readAll Reader.Fixes.all ⟨idLib, idLib⟩ true .buffer
    (fileOf (deps exOracle) exCols 2 64 "Carquet" exOps).1 = .ok (readerTableOf exCols exOps) :=
  C01_roundtrip_lib exOracle exCols 2 64 exOps .buffer true ⟨idLib, idLib⟩
    (C01_storedOk_gzip ⟨idLib, idLib⟩ exOracle 1 9 idLib_contract exOracleFrom)
    exSchemaOk.nonEmpty exSchemaOk.colsOk exHistOk.wf exHistOk.batches
    ⟨by decide +kernel, by decide +kernel, by decide +kernel⟩ ⟨by decide +kernel, by decide +kernel⟩
    (fun s hs => by simpa using List.all_eq_true.mp exAllOkLib s hs)

end Carquet.Properties.C01
