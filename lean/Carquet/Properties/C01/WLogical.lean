import Carquet.Properties.C01.Roundtrip
import Carquet.Properties.C05.WLogical
/-
C01 — LOGICAL TYPES: write-then-read returns the schema that was written, logical types included.

`C01_roundtrip` and `C01_schema_read_back` (Properties/C01/Roundtrip.lean) hold for columns created with a
logical type; `C01_schema_read_back` now says what `carquet_schema_node_logical_type` returns for every column
after re-opening.  This file states the accessor content for all columns at once and gives the instance with a
DECIMAL(9, 0) and a TIMESTAMP column.  Statements only.
-/
namespace Carquet.Properties.C01
open Carquet.Impl Carquet.Impl.Writer Carquet.Impl.FileReal
open Carquet.Proofs.SpecWriter Carquet.Proofs.WriterTable Carquet.Proofs.Roundtrip
open Carquet.Properties.C05 (SchemaOk HistOk FileSizesOk)

/-- **The logical types read back.**  Under the hypotheses of `C01_roundtrip`, in every open mode: the schema of
the re-opened file has `1 + |cols|` elements; `carquet_schema_node_logical_type` returns NULL for the root and,
for the element of column `j` (`carquet_schema_get_element(schema, 1 + j)`), the logical type the column was
created with — id and parameters — or NULL when it was created with a NULL pointer or id UNKNOWN. -/
theorem C01_logical_types_read_back (cols : List Col) (codec pageSize : Nat) (ops : List Op) (mode : Reader.Mode)
    (hcodec : codec = 0 ∨ codec = 1 ∨ codec = 5 ∨ codec = 7)
    (hschema : SchemaOk cols) (hhist : HistOk cols ops) (hsize : FileSizesOk cols codec pageSize ops)
    (hok : ∀ s ∈ (fileOf (deps []) cols codec pageSize "Carquet" ops).2, s = .ok) :
    ∃ o, Reader.openFile mode (fileOf (deps []) cols codec pageSize "Carquet" ops).1 = .ok o ∧
      o.md.schema.map SchemaApi.nodeLogicalType = none :: cols.map colLogical := by
  have hopen := C01_open_written cols codec pageSize ops hcodec hschema hhist hsize hok mode
  have hf := run_facts (deps []) (goodPred []) cols codec pageSize "Carquet" ops hhist.wf hhist.batches hok
  refine ⟨_, hopen, ?_⟩
  show (FileReal.fileMetaData (mdOfRun (deps []) cols codec pageSize "Carquet" ops)).schema.map SchemaApi.nodeLogicalType = _
  simp only [FileReal.fileMetaData, List.map_cons, List.map_map, hf.cols_eq]
  rfl

/-! ### non-vacuity: the history of Properties/C05/WLogical.lean — DECIMAL(9, 0) OPTIONAL INT32 with a null,
TIMESTAMP(UTC, MICROS) INT64, a column created with a non-NULL pointer whose id is UNKNOWN; two row groups, Snappy -/

open Carquet.Properties.C05 (lgCols lgOps lgSchemaOk lgHistOk lgSizesOk lgAllOk)

/-- `C01_roundtrip` applied to it (buffer mode, checksum verification on) -/
example : Reader.readAll Reader.Fixes.all Carquet.Proofs.ReaderExamples.noLibs true .buffer
    (fileOf (deps []) lgCols 1 64 "Carquet" lgOps).1 = .ok (readerTableOf lgCols lgOps) :=
  C01_roundtrip lgCols 1 64 lgOps .buffer true _ (by decide) lgSchemaOk lgHistOk lgSizesOk
    (fun s hs => by simpa using List.all_eq_true.mp lgAllOk s hs)

/-- `C01_logical_types_read_back` applied to it (mmap mode) -/
example : ∃ o, Reader.openFile .mmap (fileOf (deps []) lgCols 1 64 "Carquet" lgOps).1 = .ok o ∧
    o.md.schema.map SchemaApi.nodeLogicalType = none :: lgCols.map colLogical :=
  C01_logical_types_read_back lgCols 1 64 lgOps .mmap (by decide) lgSchemaOk lgHistOk lgSizesOk
    (fun s hs => by simpa using List.all_eq_true.mp lgAllOk s hs)

/-- what the accessor returns for the three columns: DECIMAL(scale 0, precision 9), TIMESTAMP(UTC, MICROS), NULL -/
example : lgCols.map colLogical = [some (.decimal 0 9), some (.timestamp true .micros), none] := by decide

/-- `C01_schema_read_back` applied to the DECIMAL column (fread mode) -/
example : ∃ o lf el, Reader.openFile .fread (fileOf (deps []) lgCols 1 64 "Carquet" lgOps).1 = .ok o ∧
    o.numColumns = lgCols.length ∧ o.leaves[0]? = some lf ∧ o.md.schema[lf.elemIdx]? = some el ∧
    el.name = some (FileReal.strBytes "price") ∧ el.type = some 1 ∧
    el.repetition = some 1 ∧ el.typeLength = 0 ∧ el.numChildren = 0 ∧
    lf.maxDef = 1 ∧ lf.maxRep = 0 ∧
    SchemaApi.nodeLogicalType el = some (.decimal 0 9) ∧ el.convertedType = none :=
  C01_schema_read_back lgCols 1 64 lgOps (by decide) lgSchemaOk lgHistOk lgSizesOk
    (fun s hs => by simpa using List.all_eq_true.mp lgAllOk s hs) .fread 0 _ rfl

end Carquet.Properties.C01
