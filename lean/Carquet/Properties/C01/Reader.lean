import Carquet.Proofs.ReaderPageRoundtrip
import Carquet.Proofs.ReaderChunkRoundtrip
import Carquet.Proofs.ReaderExamples
import Carquet.Properties.C02.Cursor
import Carquet.Properties.C09.Snappy
import Carquet.Properties.C09.Lz4
/-
C01 (reader part) — the reader half of the write-then-read round trip, up to chunk level.
Statements only; lemmas in Proofs/ReaderPageRoundtrip.lean, Proofs/ReaderHeaderReads.lean,
Proofs/ReaderChunkRoundtrip.lean; uses C11 (RLE levels, PLAIN), C09 (Snappy, LZ4), C13 machinery
(page header written by the writer = what `parquet_parse_page_header` reads) and C02 (column
reader = index cursor).

  page body      C01_page_body_roundtrip, C01_stored_body_roundtrip(_lib)
  one page       C01_page_load_roundtrip: `load_next_page`, any mode, on a page as the writer lays
                 it out in the file (hand-written header ++ stored body)
  one chunk      C01_chunk_pages_roundtrip (page iteration delivers the writer's pages in order),
                 C01_chunk_roundtrip (any consumption history through the column reader = the index
                 cursor over the written rows; levels and dense values of those rows are the page
                 builders' content, i.e. `pagesData` of C05_written_table)

Vocabulary: `RecOk c codec r` (Proofs/ReaderChunkRoundtrip) — the page record `r` is what the
writer theorems say it is (`recOk_of_writer`: C05_pages_chain's `PageOk`, C05_written_table's
`r = pageRecOf …`) and its content has the shape the page builder produces for a flat column
(`PageShape`) within the C size limits (`HdrFits`, header ≤ 256 bytes).

NOT proved: the file level (`readAll (fileOf history) = tableOf history`): it additionally needs
the footer round trip through `openFile`/`buildSchema`/`getColumn` (C13_roundtrip_filemetadata
gives the parse; the schema rebuild and the per-chunk offsets from `GroupsAt` are not composed
here) and `PageShape` as an invariant of the writer's page builder.  Per generated history the file
level is established by the tie (writer model = real bytes, reader model = real values, values =
intended table).
-/
namespace Carquet.Properties.C01
open Carquet.Impl Carquet.Impl.Reader
open Carquet.Proofs.ReaderPageRoundtrip Carquet.Proofs.ReaderChunkRoundtrip Carquet.Proofs.ReaderModes

/-- **Page body round trip.**  For a flat REQUIRED, OPTIONAL or REPEATED column of any of the eight
physical types and a page as the page builder holds it when it is finalised (`PageShape`: one
definition level ≤ 1 per entry for OPTIONAL / REPEATED, none for REQUIRED; one repetition level ≤ 1
per entry for REPEATED, none otherwise; as many values as entries with definition level 1; values
of the column's width, booleans 0/1; sizes that fit the C types), decoding the body the writer emits —
`carquet_read_data_page_v1` with PLAIN encoding and the page's entry count — returns exactly the
definition levels, the repetition levels (all zero for a column that is not REPEATED) and the dense
values that went in. -/
theorem C01_page_body_roundtrip (c : Writer.Col) (p : Writer.Page) (h : PageShape c p) (cm : ThriftParquet.ColumnMetaData)
    (dict : Option Dict) :
    readDataPageV1 Fixes.all (colOf c cm) dict (Writer.pageBody (FileReal.deps []) c p) p.numValues 0 =
      .ok ⟨if c.maxDef > 0 then p.defs else List.replicate p.numValues 0,
           if c.maxRep > 0 then p.reps else List.replicate p.numValues 0, p.values⟩ :=
  readDataPageV1_pageBody c p h cm dict

-- non-vacuity: an OPTIONAL INT32 page with rows 5, null, 6
example : PageShape ⟨"a", .int32, .optional, 0, none⟩
    { values := [[5, 0, 0, 0], [6, 0, 0, 0]], defs := [1, 0, 1], numValues := 3, numNulls := 1 } := by
  constructor
  · intro _; decide
  · intro h; exact absurd h (by decide)
  · decide
  · decide
  · intro v hv; simp at hv; rcases hv with h | h <;> subst h <;> rfl
  · decide
  · decide
  · intro h; exact absurd h (by decide)
  · intro _; rfl
  · intro r hr; cases hr
  · decide

-- non-vacuity for REPEATED: a page holding the lists [5, 6] and [] (three entries)
example : PageShape ⟨"l", .int32, .repeated, 0, none⟩
    { values := [[5, 0, 0, 0], [6, 0, 0, 0]], defs := [1, 1, 0], reps := [0, 1, 0], numValues := 3, numNulls := 1 } := by
  constructor
  · intro _; decide
  · intro h; exact absurd h (by decide)
  · decide
  · decide
  · intro v hv; simp at hv; rcases hv with h | h <;> subst h <;> rfl
  · decide
  · decide
  · intro _; decide
  · intro h; exact absurd h (by decide)
  · decide
  · decide

/-- **Stored page round trip, with the codec.**  What `compress_data` makes of a page body (codecs
UNCOMPRESSED, SNAPPY, LZ4, LZ4_RAW; bodies below 2^32 bytes), the loaders' `pageData` step with
the header's `uncompressed_page_size` turns back into the body. -/
theorem C01_stored_body_roundtrip (L : Libs) (codec : Nat) (body comp : Reader.Bytes)
    (hc : codec = 0 ∨ codec = 1 ∨ codec = 5 ∨ codec = 7) (hsz : body.length < 2 ^ 32)
    (hcomp : FileReal.compress [] codec body = some comp) :
    pageData L (codec : Int) comp body.length = .ok body :=
  stored_body_roundtrip L codec body comp hc hsz hcomp

/-- the same for GZIP and ZSTD under the library contract of Impl.CodecWrappers (whatever bytes the
library produced for the body at the level the writer uses) -/
theorem C01_stored_body_roundtrip_lib (L : Libs) (lo hi lvl : Int) (cap : Nat) (body comp : Reader.Bytes)
    (hg : CodecWrappers.Lib.Contract L.gzip lo hi) (hl : lo ≤ lvl ∧ lvl ≤ hi)
    (hcomp : L.gzip.compress lvl body cap = some comp) :
    pageData L 2 comp body.length = .ok body := by
  have := hg.roundtrip lvl body comp cap body.length hl.1 hl.2 hcomp (Nat.le_refl _)
  simp [pageData, decompressPage, CodecWrappers.gzipDecompress, CodecWrappers.gzipDecompressG, this, mapWrap]

/-! ### one page, one chunk -/

/-- **One page through `load_next_page`.**  A page as the writer lays it out in the file — the
hand-written header (sizes, CRC-32 of the stored body, row count, statistics) followed by the
stored body — sitting at the reader's current offset, anywhere in a file with at least 8 bytes
behind it: in EVERY mode (fread, mmap, buffer; with or without checksum verification; whatever
the zlib/zstd behaviour) the load succeeds, returns exactly the definition levels, all-zero
repetition levels and dense values of the page-builder content the page was made from, reports
the header's and the stored body's true sizes (so the iteration advances to exactly the next
page), and leaves the chunk state untouched (no dictionary). -/
theorem C01_page_load_roundtrip (L : Libs) (verify : Bool) (mode : Mode) (pre post : Reader.Bytes) (c : Writer.Col)
    (cm : ThriftParquet.ColumnMetaData) (codec : Nat) (r : Writer.PageRec) (st : PState)
    (hr : RecOk c codec r) (hcodec : cm.codec = (codec : Int)) (hnd : cm.dictionaryPageOffset = none)
    (hoff : st.dataStart + st.currentPage = (pre.length : Int)) (hrem : (r.rows : Int) ≤ st.valuesRemaining)
    (hpost : 8 ≤ post.length) (hsz : (pre ++ Writer.PageRec.bytes D r ++ post).length < 2 ^ 64) :
    (okOf (loadPage Fixes.all L verify mode (pre ++ Writer.PageRec.bytes D r ++ post) (colOf c cm) st).result).map proj =
      some (decodedOf c r, (hdrBytes r).length, r.comp.length) ∧
    stateAfterLoad Fixes.all L verify mode (pre ++ Writer.PageRec.bytes D r ++ post) (colOf c cm) st = st :=
  loadPage_writerPage L verify mode pre post c cm codec r st hr hcodec hnd hoff hrem hpost hsz

/-- **One chunk through the page iteration.**  A column chunk as the writer lays it out
(`pagesBytes`: its pages one after the other) at the offset its metadata name, with `num_values`
the sum of the pages' row counts and no dictionary page: in every mode the page iteration
(`carquet_read_next_page` until the values are used up) delivers exactly the writer's pages, in
order, each decoded to its page-builder content — no page lost, none read twice, no error. -/
theorem C01_chunk_pages_roundtrip (L : Libs) (verify : Bool) (mode : Mode) (c : Writer.Col) (cm : ThriftParquet.ColumnMetaData)
    (codec : Nat) (ps : List Writer.PageRec) (pre post : Reader.Bytes)
    (hcodec : cm.codec = (codec : Int)) (hnd : cm.dictionaryPageOffset = none)
    (hoff : cm.dataPageOffset = (pre.length : Int))
    (hnv : cm.numValues = (Carquet.Proofs.WriterPages.sumRows ps : Int))
    (hall : ∀ r ∈ ps, RecOk c codec r) (hpost : 8 ≤ post.length)
    (hsz : (pre ++ Carquet.Proofs.WriterPages.pagesBytes D ps ++ post).length < 2 ^ 64) :
    (chunkOf Fixes.all L verify mode (pre ++ Carquet.Proofs.WriterPages.pagesBytes D ps ++ post) (colOf c cm)).pages =
      ps.map (fun r => some (cursorPage c r)) :=
  (chunkOf_writer L verify mode c cm codec ps pre post hcodec hnd hoff hnv hall hpost hsz).1

/-- **One chunk through the column reader, any consumption pattern.**  Under the same hypotheses,
for every history of `read k | skip k | has_next | remaining | re-create` calls on the column
reader of that chunk, the outputs are those of the index cursor (Spec.Cursor) over the rows the
writer's pages stand for (`writtenRows`), and those rows carry exactly what went into the page
builders: their definition levels are the pages' levels concatenated (all zero for a REQUIRED
column), the values at the non-null rows are the pages' dense values concatenated — i.e. the
`defs` and `vals` of `pagesData ps`, which C05_written_table equates with the table the history
denotes — and there are `Σ rows` of them. -/
theorem C01_chunk_roundtrip (L : Libs) (verify : Bool) (mode : Mode) (c : Writer.Col) (cm : ThriftParquet.ColumnMetaData)
    (codec : Nat) (ps : List Writer.PageRec) (pre post : Reader.Bytes)
    (hcodec : cm.codec = (codec : Int)) (hnd : cm.dictionaryPageOffset = none)
    (hoff : cm.dataPageOffset = (pre.length : Int))
    (hnv : cm.numValues = (Carquet.Proofs.WriterPages.sumRows ps : Int))
    (hall : ∀ r ∈ ps, RecOk c codec r) (hpost : 8 ≤ post.length)
    (hsz : (pre ++ Carquet.Proofs.WriterPages.pagesBytes D ps ++ post).length < 2 ^ 64)
    (ops : List Carquet.Spec.Cursor.Op) (hops : ∀ op ∈ ops, Carquet.Proofs.Cursor.OpOk op) :
    (ColumnReader.run ColumnReader.Fixes.all
        (chunkOf Fixes.all L verify mode (pre ++ Carquet.Proofs.WriterPages.pagesBytes D ps ++ post) (colOf c cm)) ops).2 =
      (Carquet.Spec.Cursor.run (writtenRows c ps) ops).2.map Carquet.Proofs.Cursor.encodeOut ∧
    (writtenRows c ps).length = (Carquet.Proofs.WriterTable.pagesData ps).rows ∧
    (writtenRows c ps).map (·.defLevel) =
      (if c.maxDef > 0 then (Carquet.Proofs.WriterTable.pagesData ps).defs
       else List.replicate (Carquet.Proofs.WriterTable.pagesData ps).rows 0) ∧
    (writtenRows c ps).filterMap (·.val) = (Carquet.Proofs.WriterTable.pagesData ps).vals := by
  obtain ⟨h1, h2, h3⟩ := chunkOf_writer L verify mode c cm codec ps pre post hcodec hnd hoff hnv hall hpost hsz
  obtain ⟨hok, hrows⟩ := chunkOk_writer _ c codec ps hall h1 h2 h3
  have hsum : sumRows ps = (Carquet.Proofs.WriterTable.pagesData ps).rows := by
    unfold sumRows Carquet.Proofs.WriterTable.pagesData
    simp only
    congr 1
    apply List.map_congr_left
    intro r hr
    exact (hall r hr).rows
  refine ⟨?_, ?_, ?_, ?_⟩
  · rw [← hrows]; exact (Carquet.Properties.C02.C02_column_refines_cursor _ hok ops hops).1
  · rw [writtenRows_length c codec ps hall, hsum]
  · rw [writtenRows_defs c codec ps hall, hsum]; rfl
  · rw [writtenRows_vals c codec ps hall]; rfl

/-- the hypotheses `RecOk` come from the writer theorems: C05_pages_chain gives `PageOk`,
C05_written_table gives `r = pageRecOf …`; what remains is the shape of the page-builder content
and the size bounds -/
theorem C01_recOk_of_writer (c : Writer.Col) (codec : Nat) (r : Writer.PageRec)
    (hcodec : codec = 0 ∨ codec = 1 ∨ codec = 5 ∨ codec = 7)
    (hpage : Carquet.Proofs.WriterPages.PageOk D codec r) (hof : r = Writer.pageRecOf D codec c r.src)
    (hshape : PageShape c r.src)
    (hfits : Carquet.Proofs.ReaderHeaderReads.HdrFits r.body.length r.comp.length (FileReal.crc32 r.comp) r.rows r.stats)
    (hshort : (hdrBytes r).length ≤ 256) : RecOk c codec r :=
  recOk_of_writer c codec r hcodec hpage hof hshape hfits hshort

/-! ### non-vacuity -/

def exCol : Writer.Col := ⟨"a", .int32, .optional, 0, none⟩
def exP1 : Writer.Page := { values := [[5, 0, 0, 0], [6, 0, 0, 0]], defs := [1, 0, 1], numValues := 3, numNulls := 1 }
def exP2 : Writer.Page := { values := [[9, 0, 0, 0]], defs := [1], numValues := 1, numNulls := 0 }
def exR1 := Writer.pageRecOf D 1 exCol exP1
def exR2 := Writer.pageRecOf D 1 exCol exP2

private theorem shape1 : PageShape exCol exP1 := by
  constructor
  · intro _; decide
  · intro h; exact absurd h (by decide)
  · decide
  · decide
  · intro v hv; simp [exP1] at hv; rcases hv with h | h <;> subst h <;> rfl
  · decide
  · decide
  · intro h; exact absurd h (by decide)
  · intro _; rfl
  · intro r hr; cases hr
  · decide

private theorem rec1 : RecOk exCol 1 exR1 := by
  refine recOk_of_writer exCol 1 exR1 (by decide) ⟨by decide +kernel, by decide⟩ rfl shape1 ?_ (by decide +kernel)
  refine ⟨by decide +kernel, by decide +kernel, crc32_lt _, by decide, ?_⟩
  intro s hs
  have h2 : exR1.stats = none := by decide +kernel
  rw [h2] at hs; cases hs

private theorem shape2 : PageShape exCol exP2 := by
  constructor
  · intro _; decide
  · intro h; exact absurd h (by decide)
  · decide
  · decide
  · intro v hv; simp [exP2] at hv; subst hv; rfl
  · decide
  · decide
  · intro h; exact absurd h (by decide)
  · intro _; rfl
  · intro r hr; cases hr
  · decide

private theorem rec2 : RecOk exCol 1 exR2 := by
  refine recOk_of_writer exCol 1 exR2 (by decide) ⟨by decide +kernel, by decide⟩ rfl shape2 ?_ (by decide +kernel)
  refine ⟨by decide +kernel, by decide +kernel, crc32_lt _, by decide, ?_⟩
  intro s hs
  have h2 : exR2.stats = none := by decide +kernel
  rw [h2] at hs; cases hs

def exCm : ThriftParquet.ColumnMetaData := { codec := 1, dataPageOffset := 4, numValues := 4, type := 1 }
def exFile : Reader.Bytes := [80, 65, 82, 49] ++ Carquet.Proofs.WriterPages.pagesBytes D [exR1, exR2] ++ [0, 0, 0, 0, 80, 65, 82, 49]

-- non-vacuity of the chunk theorems: their hypotheses hold for this two-page SNAPPY chunk of an
-- OPTIONAL INT32 column (rows 5, null, 6 | 9) …
example : (∀ r ∈ [exR1, exR2], RecOk exCol 1 r) ∧ exCm.codec = ((1 : Nat) : Int) ∧ exCm.dictionaryPageOffset = none ∧
    exCm.dataPageOffset = (([80, 65, 82, 49] : Reader.Bytes).length : Int) ∧
    exCm.numValues = (Carquet.Proofs.WriterPages.sumRows [exR1, exR2] : Int) := by
  refine ⟨?_, by decide, by decide, by decide, by decide⟩
  intro r hr
  simp only [List.mem_cons, List.mem_nil_iff, or_false] at hr
  rcases hr with rfl | rfl
  · exact rec1
  · exact rec2

-- … and, evaluated directly in the kernel, the iteration over the file bytes returns the two pages
example : (chunkOf Fixes.all Carquet.Proofs.ReaderExamples.noLibs true .mmap exFile (colOf exCol exCm)).pages =
    [some ⟨[1, 0, 1], [0, 0, 0], [[5, 0, 0, 0], [6, 0, 0, 0]]⟩, some ⟨[1], [0], [[9, 0, 0, 0]]⟩] := by
  decide +kernel

end Carquet.Properties.C01
