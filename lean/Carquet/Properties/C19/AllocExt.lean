import Carquet.Impl.Arena
import Carquet.Impl.AllocFlow
import Carquet.Impl.AllocExt
import Carquet.Proofs.AllocArenaSeq
import Carquet.Proofs.AllocFlow
import Carquet.Proofs.AllocExt
import Carquet.Proofs.AllocReader
import Carquet.Properties.C19.Alloc
/-
C19 — allocation failure gives a clean error or a correct result: second wave (partial).

* carquet_arena: n-ary pairwise disjointness of a whole allocation sequence.
* metadata builders that carquet's own writer/reader pair never reaches (Bloom filter, statistics builder, page
  index builders, index serialisers): a refused request surfaces as an error; the index builders, whose pointer
  fields are tracked as null / live / dangling with a count of live blocks, never touch a freed block and release
  every block, whatever request is refused.  `checked = false` mirrors the code before F20h / F20i / F20j; the
  kernel-checked counterexamples are `C19_regression_F20h … F20j`.
* column reader, page by page (dictionary pages, several pages per chunk, carquet_column_skip): a page load
  succeeds exactly when none of its requests is refused; the counts returned by carquet_column_read_batch and
  carquet_column_skip are the truth about `values_remaining`, whatever is refused; and a read delivers everything
  asked for unless a request was refused.
-/
namespace Carquet.Properties.C19
open Carquet Carquet.Impl.Alloc
open Carquet.Impl.Alloc.Flow
open Carquet.Impl.Alloc.Ext

/-! ## carquet_arena: a whole allocation sequence -/

/-- Any sequence of `carquet_arena_alloc_aligned` requests (hence also `_alloc`, `_calloc`, `_strdup`, `_strndup`,
`_memdup`, which reduce to it) on a well-formed arena, under any oracle — granted and refused requests in any mix:
the pointers handed out are pairwise disjoint (two pointers into the same block: the earlier one ends before the
later one starts), each lies inside its block of the final arena at an address aligned as requested and answers a
non-empty request, and the final arena is well formed. -/
theorem C19_arena_alloc_sequence_disjoint (reqs : List Arena.Req) (ar : Arena.Arena) (o : Oracle) (hinv : Arena.Inv ar) :
    List.Pairwise (fun a b : Arena.Grant => a.block = b.block → a.off + a.size ≤ b.off) (Arena.allocSeq reqs ar o).1 ∧
    (∀ g ∈ (Arena.allocSeq reqs ar o).1, 0 < g.size ∧
        ∃ b : Arena.Block, (Arena.allocSeq reqs ar o).2.1.blocks[g.block]? = some b ∧ g.off + g.size ≤ b.size ∧
          (b.base + g.off) % Arena.effAlign g.align = 0) ∧
    Arena.Inv (Arena.allocSeq reqs ar o).2.1 := by
  obtain ⟨h1, _, h3, h4⟩ := Arena.allocSeq_spec reqs ar o hinv
  exact ⟨h4, fun g hg => ⟨(h3 g hg).2.2.1, (h3 g hg).2.2.2⟩, h1⟩

/-- non-vacuity: five requests on a fresh 64 KiB arena, the third refused (it needs a second block and the allocator
says no), the fourth served by a new block: four pointers, in two blocks -/
example : (Arena.allocSeq [⟨100, 16, 8⟩, ⟨65000, 1, 8⟩, ⟨5000, 8, 8⟩, ⟨5000, 8, 8⟩, ⟨7, 0, 8⟩]
      ⟨[⟨8, 65536, 0⟩], 0, 65536, 0, 65536⟩ [false]).1 =
    [⟨0, 8, 100, 16⟩, ⟨0, 108, 65000, 1⟩, ⟨1, 0, 5000, 8⟩, ⟨1, 5000, 7, 0⟩] := by decide

/-! ## Bloom filter, statistics builder, index serialisers -/

/-- A refused request during carquet_bloom_filter_create / _from_data / _read, carquet_statistics_builder_create,
carquet_statistics_build (after F20h) or carquet_column_index_serialize / carquet_offset_index_serialize (after F20j)
makes the call report an error (never a crash); a call that reports success has the fault-free result. -/
theorem C19_metadata_builders_propagate (ar : Option Arena.Arena) (minLen maxLen : Nat) (out : Buffer.Buf)
    (chunks : List (List UInt8)) :
    Clean bloomCreate ∧ Clean statsBuilderCreate ∧ Clean (statisticsBuild true ar minLen maxLen) ∧
    Clean (indexSerialize true out chunks) :=
  ⟨clean_bloomCreate, clean_statsBuilderCreate, clean_statisticsBuild ar minLen maxLen, clean_indexSerialize out chunks⟩

/-- … in the property's own words, for the builder's result and the serialised index: -/
theorem C19_statistics_build_ok_is_complete (ar : Option Arena.Arena) (minLen maxLen : Nat) (o o' : Oracle)
    (r : Option Arena.Arena × BuiltStats) (h : statisticsBuild true ar minLen maxLen o = (.ok r, o')) :
    r.2 = ⟨decide (minLen > 0), decide (maxLen > 0)⟩ ∧ Granted o o' :=
  ⟨statisticsBuild_complete ar minLen maxLen o o' r h, ((clean_statisticsBuild ar minLen maxLen).1 o r o' h).1⟩

theorem C19_index_serialize_ok_is_complete (out : Buffer.Buf) (chunks : List (List UInt8)) (o o' : Oracle) (b : Buffer.Buf)
    (h : indexSerialize true out chunks o = (.ok b, o')) : b.data = out.data ++ chunks.flatten := by
  simp only [indexSerialize, if_true, encodeChecked] at h
  by_cases hs : ((Enc.init out).putAll chunks o).1.status = .ok
  · simp only [hs, if_true] at h
    have hb : b = ((Enc.init out).putAll chunks o).1.buf := by
      have := congrArg Prod.fst h; simp only [Except.ok.injEq] at this; exact this.symm
    rw [hb]
    exact (C19_thrift_latch (Enc.init out) chunks o).2.2 hs
  · simp [hs] at h

example : ∃ b, (indexSerialize true Buffer.init [[1], [2, 3]] [true]).1 = .ok b ∧ b.data = [1, 2, 3] := ⟨_, rfl, by decide⟩

/-- F20h regression: before the repair a refused copy of the maximum was silently left out and the build reported OK
(first line: the result has a minimum but no maximum); the repaired build reports OUT_OF_MEMORY. -/
theorem C19_regression_F20h :
    (match (statisticsBuild false none 8 8 (oneFail 2)).1 with | .ok r => r.2 == ⟨true, false⟩ | .error _ => false) = true ∧
    (match (statisticsBuild true none 8 8 (oneFail 2)).1 with | .ok _ => false | .error e => e == .oom) = true ∧
    (match (statisticsBuild true none 8 8 []).1 with | .ok r => r.2 == ⟨true, true⟩ | .error _ => false) = true := by
  decide

/-- F20j regression: before the repair the serialisers returned OK whatever happened to the encoder: with the first
append refused the index comes out without its first byte; the repaired serialiser reports the failure. -/
theorem C19_regression_F20j :
    (match (indexSerialize false Buffer.init [[0x19], [0x2c], [1, 2]] [false]).1 with
      | .ok b => b.data == [0x2c, 1, 2] | .error _ => false) = true ∧
    (match (indexSerialize true Buffer.init [[0x19], [0x2c], [1, 2]] [false]).1 with | .ok _ => false | .error e => e == .oom) = true := by
  decide

/-! ## page index builders: no freed block is touched, nothing is leaked -/

/-- The column index builder after F20i, for every sequence of pages, every oracle and every number `base` of blocks
that belong to someone else: `carquet_column_index_builder_create` yields NULL with nothing left allocated, or a
builder; adding pages until a call fails and then destroying the builder touches no freed block (`crashed = false`)
and releases every block (`liveBlocks = base`); a failing `add_page` leaves the pages as they were, a succeeding
one adds exactly one. -/
theorem C19_column_index_builder_safe (base : Nat) (o : Oracle) :
    (match colIdxCreate ⟨base, false⟩ o with
     | (some b, m, _) =>
        (∀ pgs o2, (colIdxSession true pgs b m o2).2.1 = ⟨base, false⟩) ∧
        (∀ hasMin hasMax o2,
          ((colIdxAddPage true b hasMin hasMax m o2).1 ≠ .ok → (colIdxAddPage true b hasMin hasMax m o2).2.1.pages = b.pages) ∧
          ((colIdxAddPage true b hasMin hasMax m o2).1 = .ok →
              (colIdxAddPage true b hasMin hasMax m o2).2.1.pages.length = b.pages.length + 1))
     | (none, m, _) => m = ⟨base, false⟩) := by
  have h := colIdxCreate_spec base o
  generalize colIdxCreate ⟨base, false⟩ o = r at h
  obtain ⟨ob, m, o'⟩ := r
  cases ob with
  | none => exact h
  | some b =>
    simp only at h ⊢
    exact ⟨fun pgs o2 => colIdxSession_safe pgs b m o2 base h.1,
           fun hasMin hasMax o2 => (colIdxAddPage_owned b hasMin hasMax m o2 base h.1).2⟩

/-- the same for the offset index builder (with and without the uncompressed sizes) -/
theorem C19_offset_index_builder_safe (track : Bool) (base : Nat) (o : Oracle) :
    (match offIdxCreate track ⟨base, false⟩ o with
     | (some b, m, _) => ∀ n o2, (offIdxSession true n b m o2).2.1 = ⟨base, false⟩
     | (none, m, _) => m = ⟨base, false⟩) := by
  have h := offIdxCreate_spec track base o
  generalize offIdxCreate track ⟨base, false⟩ o = r at h
  obtain ⟨ob, m, o'⟩ := r
  cases ob with
  | none => exact h
  | some b =>
    simp only at h ⊢
    exact fun n o2 => offIdxSession_safe n b m o2 base h.1

/-- non-vacuity, and the growth path is reached: 18 pages (the capacity is 16) with the second array of the growth
refused — the 17th add_page reports OUT_OF_MEMORY, and after destroy nothing is live and nothing was touched twice -/
example : (match colIdxCreate ⟨0, false⟩ [] with
    | (some b, m, _) =>
      (colIdxSession true (List.replicate 18 (true, true)) b m (failSet [34] 64)).1.length == 17 &&
      (colIdxSession true (List.replicate 18 (true, true)) b m (failSet [34] 64)).1.getLast? == some Status.oom &&
      (colIdxSession true (List.replicate 18 (true, true)) b m (failSet [34] 64)).2.1 == ⟨0, false⟩
    | _ => false) = true := by decide

/-- F20i regression: before the repair the same history — one refused realloc while the six arrays grow — leaves the
builder pointing at a block that realloc has already released: destroy frees it a second time (`crashed`), and the
blocks realloc had handed out are never released (five blocks stay live).  Offset index builder: the same (two blocks). -/
theorem C19_regression_F20i :
    (match colIdxCreate ⟨0, false⟩ [] with
     | (some b, m, _) => (colIdxSession false (List.replicate 18 (true, true)) b m (failSet [34] 64)).2.1 == ⟨5, true⟩
     | _ => false) = true ∧
    (match colIdxCreate ⟨0, false⟩ [] with
     | (some b, m, _) => (colIdxSession true (List.replicate 18 (true, true)) b m (failSet [34] 64)).2.1 == ⟨0, false⟩
     | _ => false) = true ∧
    (match offIdxCreate true ⟨0, false⟩ [] with
     | (some b, m, _) => (offIdxSession false 18 b m (failSet [2] 8)).2.1 == ⟨2, true⟩
     | _ => false) = true ∧
    (match offIdxCreate true ⟨0, false⟩ [] with
     | (some b, m, _) => (offIdxSession true 18 b m (failSet [2] 8)).2.1 == ⟨0, false⟩
     | _ => false) = true := by
  decide

/-! ## the column reader, page by page -/

/-- Loading a page (dictionary page first if the chunk has one — fixed width or BYTE_ARRAY, found through
dictionary_page_offset or at data_page_offset —, header window, compressed / decompressed copies, decode buffers,
dictionary indices, retired-page list; fread, mmap and buffer modes; zero-copy and standard branch): the load consumes
a prefix of the oracle and succeeds **iff** nothing in that prefix was refused; it never changes `values_remaining`;
and after a successful load the page is there with all its rows. -/
theorem C19_page_load_propagates (c : ChunkD) (p : PageD) (s : CR) (o : Oracle) :
    (loadPageD c p s o).2.1.remaining = s.remaining ∧
    (∃ pre : List Bool, o = pre ++ (loadPageD c p s o).2.2 ∧ ((loadPageD c p s o).1 = .ok ↔ ∀ b ∈ pre, b = true)) ∧
    ((loadPageD c p s o).1 = .ok →
        (loadPageD c p s o).2.1.loaded = true ∧ (loadPageD c p s o).2.1.pageRows = p.rows ∧ (loadPageD c p s o).2.1.pageRead = 0) :=
  ⟨(spec_loadPageD c p s o).1, (spec_loadPageD c p s o).2, post_loadPageD c p s o⟩

/-- a BYTE_ARRAY dictionary chunk read through fread: header window, compressed copy, dictionary copy, offset table,
page copy, three decode buffers, indices = 9 requests; refusing the 4th (the offset table) fails the load -/
example : (loadPageD ⟨.fread, false, false, true, true, false⟩ ⟨10, 7, true⟩ (CR.fresh 10) (List.replicate 12 true)).1 = .ok ∧
    (loadPageD ⟨.fread, false, false, true, true, false⟩ ⟨10, 7, true⟩ (CR.fresh 10) (List.replicate 12 true)).2.2.length = 3 ∧
    (loadPageD ⟨.fread, false, false, true, true, false⟩ ⟨10, 7, true⟩ (CR.fresh 10) (failSet [4] 12)).1 = .oom := by decide

/-- carquet_column_read_batch and carquet_column_skip over any number of pages, under every oracle — pages loaded, a
load refused after partial progress, an error before anything was delivered, the temporary buffer of skip refused:
the count returned (−1 counting as nothing) is exactly the amount by which `values_remaining` went down.  The reader
therefore stands where the caller was told it stands. -/
theorem C19_column_read_counts_are_true (c : ChunkD) (pages : List PageD) (s : CR) (n : Nat) (o : Oracle) :
    delivered (readBatch c pages s n o).1 + (readBatch c pages s n o).2.1.remaining = s.remaining ∧
    (skip c pages s n o).1 + (skip c pages s n o).2.1.remaining = s.remaining :=
  ⟨readBatch_conserves c pages s n o, skip_conserves c pages s n o⟩

/-- Partial progress only under refusal: if the loaded page and the pages to come hold exactly the values the chunk
still owes (`Covers`, true of a fresh reader of a well-formed chunk) and no request made during the call was refused,
carquet_column_read_batch delivers everything that was asked for (or everything that is left). -/
theorem C19_column_read_full_unless_refused (c : ChunkD) (pages : List PageD) (s : CR) (max : Nat) (o : Oracle)
    (hc : Covers pages s) :
    ∃ pre : List Bool, o = pre ++ (readBatch c pages s max o).2.2.2 ∧
      ((∀ b ∈ pre, b = true) → (readBatch c pages s max o).1 = some (min max s.remaining)) :=
  readBatch_full c pages s max o hc

/-- non-vacuity: a fresh reader of a three-page chunk is covered; a read of 25 rows across the pages delivers 25 when
nothing is refused, and 10 (the first page) when a request of the second page's load is refused -/
example : Covers [⟨10, 10, false⟩, ⟨10, 10, false⟩, ⟨10, 10, false⟩] (CR.fresh 30) ∧
    (readBatch ⟨.mmap, true, false, false, false, false⟩ [⟨10, 10, false⟩, ⟨10, 10, false⟩, ⟨10, 10, false⟩] (CR.fresh 30) 25 []).1 = some 25 ∧
    (readBatch ⟨.mmap, true, false, false, false, false⟩ [⟨10, 10, false⟩, ⟨10, 10, false⟩, ⟨10, 10, false⟩] (CR.fresh 30) 25 (oneFail 5)).1 = some 10 ∧
    (skip ⟨.mmap, true, false, false, false, false⟩ [⟨10, 10, false⟩, ⟨10, 10, false⟩, ⟨10, 10, false⟩] (CR.fresh 30) 25 (oneFail 1)).1 = 0 := by
  refine ⟨by unfold Covers; decide, by decide, by decide, by decide⟩

end Carquet.Properties.C19
