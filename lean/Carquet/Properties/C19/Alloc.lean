import Carquet.Impl.Buffer
import Carquet.Impl.Arena
import Carquet.Impl.AllocFlow
import Carquet.Proofs.AllocBuffer
import Carquet.Proofs.AllocArena
import Carquet.Proofs.AllocFlow
import Carquet.Proofs.AllocSchema
import Carquet.Proofs.AllocFlowClean
/-
C19 — allocation failure gives a clean error or a correct result (partial).

Property theorems about the Impl models of the allocation-bearing components, under an explicit
allocator oracle (`List Bool`, k-th request granted or refused; `[]` is the fault-free allocator).
What is proved is the propagation algebra of the modelled components: a refused request surfaces as
an error status, and a call that reports success has the effect of the fault-free run.  Crash-,
leak- and use-after-free-freedom of the whole C API under every single failure is *explored* by
fault enumeration in the correspondence harness (harness/ops_alloc.c), not proved here.

`…PreFix` / `checked = false` models mirror the code before the F20 repairs (fixes/F20*.patch); their
kernel-checked counterexamples are the `C19_regression_F20*` theorems.
-/
namespace Carquet.Properties.C19
open Carquet Carquet.Impl.Alloc
open Carquet.Impl.Alloc.Buffer (Buf)
open Carquet.Impl.Alloc.Flow

/-! ## carquet_buffer -/

/-- `size ≤ capacity` always: it holds for a fresh, a wrapped and a destroyed buffer and is preserved by
every operation sequence under every oracle. -/
theorem C19_buffer_inv :
    Buffer.Inv Buffer.init ∧ (∀ bytes nn, Buffer.Inv (Buffer.initWrap bytes nn)) ∧
    ∀ (ops : List Buffer.Op) (b : Buf) (o : Oracle), Buffer.Inv b → Buffer.Inv (Buffer.run ops b o).2.1 :=
  ⟨by decide, fun _ _ => Nat.le_refl _, fun ops b o h => Buffer.run_inv ops b o h⟩

example : (Buffer.run [.append [1, 2, 3], .reserve 5000, .shrink, .resize 7] Buffer.init [true, false, true]).2.1.size = 7 := by decide

/-- A failed reserve / append / advance / resize returns OUT_OF_MEMORY and leaves contents, size,
capacity and ownership exactly as they were. -/
theorem C19_buffer_failed_append_unchanged (b : Buf) (bytes : List UInt8) (n : Nat) (o : Oracle) :
    ((Buffer.append b bytes o).1 ≠ .ok → (Buffer.append b bytes o).1 = .oom ∧ (Buffer.append b bytes o).2.1 = b) ∧
    ((Buffer.reserve b n o).1 ≠ .ok → (Buffer.reserve b n o).1 = .oom ∧ (Buffer.reserve b n o).2.1 = b) ∧
    ((Buffer.advance b bytes o).1 ≠ .ok → (Buffer.advance b bytes o).1 = .oom ∧ (Buffer.advance b bytes o).2.1 = b) ∧
    ((Buffer.resize b n o).1 ≠ .ok → (Buffer.resize b n o).1 = .oom ∧ (Buffer.resize b n o).2.1 = b) := by
  refine ⟨?_, ?_, ?_, ?_⟩
  · intro h; rcases Buffer.append_spec b bytes o with ⟨h1, _⟩ | h1
    · exact absurd h1 h
    · exact h1
  · intro h; rcases Buffer.ensureCapacity_spec b n o with ⟨h1, _⟩ | h1
    · exact absurd h1 h
    · exact h1
  · intro h; rcases Buffer.advance_spec b bytes o with ⟨h1, _⟩ | h1
    · exact absurd h1 h
    · exact h1
  · intro h; rcases Buffer.resize_spec b n o with ⟨h1, _⟩ | h1
    · exact absurd h1 h
    · exact h1

example : (Buffer.append Buffer.init [1, 2, 3] [false]).1 = .oom ∧ (Buffer.append Buffer.init [1, 2, 3] [false]).2.1 = Buffer.init := by decide

/-- A successful append adds exactly the bytes at the end, never shrinks the capacity and keeps `size ≤ capacity`. -/
theorem C19_buffer_append_ok_content (b : Buf) (bytes : List UInt8) (o : Oracle)
    (h : (Buffer.append b bytes o).1 = .ok) :
    (Buffer.append b bytes o).2.1.data = b.data ++ bytes ∧
    b.capacity ≤ (Buffer.append b bytes o).2.1.capacity ∧
    (Buffer.Inv b → Buffer.Inv (Buffer.append b bytes o).2.1) := by
  rcases Buffer.append_spec b bytes o with ⟨_, h2, h3, h4⟩ | ⟨h1, _⟩
  · exact ⟨h2, h3, h4⟩
  · rw [h1] at h; cases h

example : (Buffer.append (Buffer.append Buffer.init [1, 2] []).2.1 [3] []).2.1.data = [1, 2, 3] := by decide

/-! ## carquet_arena -/

/-- Two successive successful allocations on a well-formed arena: each lies inside its block, is
aligned as requested (absolute address), and if both come from the same block they do not overlap
(the second starts at or after the end of the first).  The block geometry (base, size) is unchanged. -/
theorem C19_arena_alloc_disjoint_in_block (ar : Arena.Arena) (hinv : Arena.Inv ar)
    (s1 a1 nb1 s2 a2 nb2 : Nat) (o : Oracle) (i off1 j off2 : Nat) (ar1 ar2 : Arena.Arena) (o1 o2 : Oracle)
    (h1 : Arena.allocAligned ar s1 a1 nb1 o = (some (i, off1), ar1, o1))
    (h2 : Arena.allocAligned ar1 s2 a2 nb2 o1 = (some (j, off2), ar2, o2)) :
    (i = j → off1 + s1 ≤ off2) ∧
    (∃ b : Arena.Block, ar2.blocks[i]? = some b ∧ off1 + s1 ≤ b.size ∧ (b.base + off1) % Arena.effAlign a1 = 0) ∧
    (∃ b : Arena.Block, ar2.blocks[j]? = some b ∧ off2 + s2 ≤ b.size ∧ (b.base + off2) % Arena.effAlign a2 = 0) ∧
    0 < s1 ∧ 0 < s2 ∧ Arena.Inv ar2 := by
  have sp1 := Arena.allocAligned_spec ar s1 a1 nb1 o hinv
  rw [h1] at sp1
  obtain ⟨hs1, ok1⟩ := sp1
  have sp2 := Arena.allocAligned_spec ar1 s2 a2 nb2 o1 ok1.inv
  rw [h2] at sp2
  obtain ⟨hs2, ok2⟩ := sp2
  refine ⟨?_, ?_, ok2.inBlock, hs1, hs2, ok2.inv⟩
  · intro hij; subst hij
    have := ok2.lower; rw [ok1.upper] at this; exact this
  · obtain ⟨b1, hb1, hsz, hal⟩ := ok1.inBlock
    obtain ⟨b2, hb2, hbase, hsize⟩ := ok2.geometry i b1 hb1
    exact ⟨b2, hb2, by rw [hsize]; exact hsz, by rw [hbase]; exact hal⟩

example : ∃ ar o, Arena.initSize 4096 8 [] = (some ar, o) ∧ Arena.Inv ar ∧
    (Arena.allocAligned ar 10 16 8 o).1 = some (0, 8) ∧
    (Arena.allocAligned (Arena.allocAligned ar 10 16 8 o).2.1 5 1 8 o).1 = some (0, 18) := by
  refine ⟨_, _, rfl, ?_, by decide, by decide⟩
  exact ⟨by decide, by decide⟩

/-- A failed arena allocation (NULL) leaves the arena exactly as it was. -/
theorem C19_arena_failed_alloc_unchanged (ar : Arena.Arena) (hinv : Arena.Inv ar) (size align nb : Nat) (o : Oracle)
    (h : (Arena.allocAligned ar size align nb o).1 = none) : (Arena.allocAligned ar size align nb o).2.1 = ar :=
  Arena.alloc_none_unchanged ar size align nb o hinv h

example : (Arena.allocAligned ⟨[⟨8, 65536, 65530⟩], 0, 65536, 65530, 65536⟩ 100 16 8 [false]).1 = none := by decide

/-! ## schema builder -/

/-- carquet_schema_add_column under every oracle, on a schema satisfying the builder's invariant:
the invariant is kept; a failing call reports OUT_OF_MEMORY and leaves elements and leaves as they
were (the capacity may have grown); a succeeding call appends exactly one element and one leaf entry
and keeps everything before it — and, in the repaired code, the new element carries its name. -/
theorem C19_schema_growth_preserves (checked : Bool) (s : Schema) (name : List UInt8) (rep : Nat) (o : Oracle)
    (hinv : SchemaInv s) :
    SchemaInv (schemaAddColumnS checked s name rep o).2.1 ∧
    ((schemaAddColumnS checked s name rep o).1 ≠ .ok →
        (schemaAddColumnS checked s name rep o).1 = .oom ∧
        (schemaAddColumnS checked s name rep o).2.1.elems = s.elems ∧
        (schemaAddColumnS checked s name rep o).2.1.leaves = s.leaves ∧
        s.capacity ≤ (schemaAddColumnS checked s name rep o).2.1.capacity) ∧
    ((schemaAddColumnS checked s name rep o).1 = .ok →
        ∃ nm, (schemaAddColumnS checked s name rep o).2.1.elems = s.elems ++ [⟨nm, rep⟩] ∧
          (schemaAddColumnS checked s name rep o).2.1.leaves = s.leaves ++ [(s.elems.length, maxDefOf rep, maxRepOf rep)] ∧
          (checked = true → nm = some name)) :=
  addColumnS_spec checked s name rep o hinv

/-- a fresh schema (what carquet_schema_create returns) satisfies the invariant, and growth is reachable:
the 64th added column makes the four arrays double -/
example : ∃ s o, schemaCreate true [] = (.ok s, o) ∧ SchemaInv s := ⟨_, _, rfl, by decide⟩

/-! ## Thrift encoder latch -/

/-- Any failed append → the encoder's final status is not OK (and an encoder that starts in error stays in error);
conversely the status is OK only if every single append succeeded. -/
theorem C19_thrift_latch (e : Enc) (chunks : List (List UInt8)) (o : Oracle) :
    ((∃ s ∈ (e.putAll chunks o).2.2, s ≠ .ok) → (e.putAll chunks o).1.status ≠ .ok) ∧
    (e.status ≠ .ok → (e.putAll chunks o).1.status ≠ .ok) ∧
    ((e.putAll chunks o).1.status = .ok → (e.putAll chunks o).1.buf.data = e.buf.data ++ chunks.flatten) := by
  refine ⟨?_, ?_, ?_⟩
  · rintro ⟨s, hs, hne⟩ hok
    exact hne (((putAll_status e chunks o).mp hok).2 s hs)
  · intro hne hok
    exact hne ((putAll_status e chunks o).mp hok).1
  · intro hok
    induction chunks generalizing e o with
    | nil => simp [Enc.putAll]
    | cons c cs ih =>
      have hst := (putAll_status e (c :: cs) o).mp hok
      rw [putAll_cons] at hok hst ⊢
      simp only at hok hst ⊢
      have hput : (Buffer.append e.buf c o).1 = .ok := hst.2 _ List.mem_cons_self
      rw [ih (e.put c o).1 (e.put c o).2.1 hok]
      have : (e.put c o).1.buf.data = e.buf.data ++ c := (C19_buffer_append_ok_content e.buf c o hput).1
      simp [this]

example : ((Enc.init Buffer.init).putAll [[1], [2, 3], [4]] [false]).1.status = .oom ∧
    ((Enc.init Buffer.init).putAll [[1], [2, 3], [4]] [false]).1.buf.data = [2, 3, 4] := by decide

/-! ## page builder -/

/-- Any refused request (= failed append or failed malloc) during add_values / encode_levels / finalize of
the repaired page builder → the call's status is an error (and not a crash). -/
theorem C19_page_builder_propagates (P : Payload) (w : PageWriter) (o o' : Oracle) :
    (∀ rows d r vc res, pageAddValues w rows d r vc o = (res, o') → Refused o o' → ∃ e, res = .error e ∧ e ≠ .crash) ∧
    (∀ raw maxLevel out res, encodeLevels P raw maxLevel out o = (res, o') → Refused o o' → ∃ e, res = .error e ∧ e ≠ .crash) ∧
    (∀ res, pageFinalize P w o = (res, o') → Refused o o' → ∃ e, res = .error e ∧ e ≠ .crash) :=
  ⟨fun rows d r vc _ h hr => (clean_pageAddValues w rows d r vc).refused h hr,
   fun raw ml out _ h hr => (clean_encodeLevels P raw ml out).refused h hr,
   fun _ h hr => (clean_pageFinalize P w).refused h hr⟩

/-- a small concrete page builder used by the examples and regression witnesses -/
def demoPayload : Payload where
  rle := fun _ raw => [[UInt8.ofNat raw.length], [0xAA]]
  packBool := fun b => b
  compress := fun _ b => b
  bound := fun _ n => n
  header := fun unc cmp _ => [[0x15], [UInt8.ofNat unc], [0x15], [UInt8.ofNat cmp], [0]]

def demoWriter : PageWriter :=
  ⟨⟨[1, 2, 3, 4], 4096, true, true⟩, ⟨[1, 0, 0, 0], 4096, true, true⟩, Buffer.init, Buffer.init, 1, 0, false, 0, 2⟩

def okPage (r : Except Fault (PageWriter × List UInt8) × Oracle) : Option (List UInt8) :=
  match r.1 with
  | .ok x => some x.2
  | .error _ => none

def outcome (r : Except Fault α) : Nat :=
  match r with
  | .ok _ => 0
  | .error .oom => 1
  | .error .other => 2
  | .error .crash => 3

/-- non-vacuity: the third request of this finalize is refused, and the repaired finalize reports OOM -/
example : outcome (pageFinalize demoPayload demoWriter [true, true, false]).1 = 1 ∧
    Refused [true, true, false] (pageFinalize demoPayload demoWriter [true, true, false]).2 := by
  refine ⟨by decide, [true, true, false], by decide, by decide⟩

/-- F20b/F20c regression: before the repair a refused request inside encode_levels is swallowed — finalize
reports OK and hands out a page whose level block lost its first RLE byte (2nd request refused) or its 4-byte
length prefix (3rd request refused); the fault-free page is the last one. -/
theorem C19_regression_F20b :
    okPage (pageFinalizePreFix demoPayload demoWriter (oneFail 2)) =
      some [0x15, 9, 0x15, 9, 0, 1, 0, 0, 0, 0xAA, 1, 2, 3, 4] ∧
    okPage (pageFinalizePreFix demoPayload demoWriter (oneFail 3)) =
      some [0x15, 6, 0x15, 6, 0, 4, 0xAA, 1, 2, 3, 4] ∧
    okPage (pageFinalizePreFix demoPayload demoWriter []) =
      some [0x15, 10, 0x15, 10, 0, 2, 0, 0, 0, 4, 0xAA, 1, 2, 3, 4] ∧
    okPage (pageFinalize demoPayload demoWriter []) = okPage (pageFinalizePreFix demoPayload demoWriter []) ∧
    outcome (pageFinalize demoPayload demoWriter (oneFail 2)).1 = 1 ∧
    outcome (pageFinalize demoPayload demoWriter (oneFail 3)).1 = 1 := by
  decide

/-- F20b regression, header latch: a refused request while the Thrift page header is written used to be ignored
(the page came out without its first header byte); the repaired finalize returns OOM for the same oracle. -/
theorem C19_regression_F20b_header :
    okPage (pageFinalizePreFix demoPayload demoWriter (oneFail 5)) =
      some [10, 0x15, 10, 0, 2, 0, 0, 0, 4, 0xAA, 1, 2, 3, 4] ∧
    outcome (pageFinalize demoPayload demoWriter (oneFail 5)).1 = 1 := by
  decide

/-! ## success means same effect -/

/-- Every repaired flow, under every oracle (in particular under `oneFail k` for every k): a run that reports
success has exactly the result of the fault-free run, and no run dereferences NULL.
Flows: schema build; add_values / finalize of the page builder; the whole write path
create → write_batch… → new_row_group → close; open (+ metadata parse, schema build) in every I/O mode;
get_column; page load and column read; one batch of the batch reader. -/
theorem C19_success_means_same_effect
    (P : Payload) (S : Sizes) (footer : FileMeta → List (List UInt8)) :
    (∀ cols, SameEffect (schemaBuild true cols) ∧ NoCrash (schemaBuild true cols)) ∧
    (∀ w rows d r vc, SameEffect (pageAddValues w rows d r vc)) ∧
    (∀ w, SameEffect (pageFinalize P w) ∧ NoCrash (pageFinalize P w)) ∧
    (∀ codec target cols groups,
        SameEffect (writeFile true pageFinalize P S footer codec target cols groups) ∧
        NoCrash (writeFile true pageFinalize P S footer codec target cols groups)) ∧
    (∀ want f leaves,
        (∀ o r o', readerOpen true S want f leaves o = (.ok r, o') → r.md = fullMeta f) ∧
        NoCrash (readerOpen true S want f leaves)) ∧
    (∀ mode cr p (vals : List UInt8), SameEffect (readColumn true mode cr p vals) ∧ NoCrash (readColumn true mode cr p vals)) ∧
    (∀ mode (cols : List (Bool × PageShape × List UInt8)),
        (∀ o outs o', batchNext true mode cols o = (.ok outs, o') → outs = cols.map (fun c => ⟨c.2.2, true, c.1⟩)) ∧
        NoCrash (batchNext true mode cols)) := by
  refine ⟨?_, ?_, ?_, ?_, ?_, ?_, ?_⟩
  · intro cols; exact ⟨(clean_schemaBuild cols).faithful.sameEffect, (clean_schemaBuild cols).2⟩
  · intro w rows d r vc; exact (clean_pageAddValues w rows d r vc).faithful.sameEffect
  · intro w; exact ⟨(clean_pageFinalize P w).faithful.sameEffect, (clean_pageFinalize P w).2⟩
  · intro codec target cols groups
    have h := clean_writeFile (fin := pageFinalize) clean_pageFinalize P S footer codec target cols groups
    exact ⟨h.faithful.sameEffect, h.2⟩
  · intro want f leaves
    exact ⟨fun o r o' h => post_readerOpen S want f leaves o r o' h, nocrash_readerOpen S want f leaves⟩
  · intro mode cr p vals
    exact ⟨(clean_readColumn mode cr p vals).faithful.sameEffect, (clean_readColumn mode cr p vals).2⟩
  · intro mode cols
    exact ⟨fun o outs o' h => post_batchNext mode cols o outs o' h, nocrash_batchNext mode cols⟩

/-- The same in the property's own words for a single failure: if the k-th request is the only one refused and
the write path still reports OK, the file is the fault-free file. -/
theorem C19_success_means_same_effect_single_failure
    (P : Payload) (S : Sizes) (footer : FileMeta → List (List UInt8)) (codec target : Nat) (cols : List ColDef)
    (groups : List (List Batch)) (k : Nat) (out out0 : List UInt8 × FileMeta) (o' o0 : Oracle)
    (hk : writeFile true pageFinalize P S footer codec target cols groups (oneFail k) = (.ok out, o'))
    (h0 : writeFile true pageFinalize P S footer codec target cols groups [] = (.ok out0, o0)) : out = out0 :=
  (C19_success_means_same_effect P S footer).2.2.2.1 codec target cols groups |>.1 _ _ _ hk _ _ h0

/-- In the write path a refused request is never absorbed: it always surfaces as an error status. -/
theorem C19_write_path_propagates
    (P : Payload) (S : Sizes) (footer : FileMeta → List (List UInt8)) (codec target : Nat) (cols : List ColDef)
    (groups : List (List Batch)) (o o' : Oracle) (res : Except Fault (List UInt8 × FileMeta))
    (h : writeFile true pageFinalize P S footer codec target cols groups o = (res, o')) (hr : Refused o o') :
    ∃ e, res = .error e ∧ e ≠ .crash :=
  (clean_writeFile (fin := pageFinalize) clean_pageFinalize P S footer codec target cols groups).refused h hr

/-- non-vacuity of the write path: a one-column, one-batch file is written (fault-free run succeeds), and
failing its 7th request makes the run report OOM. -/
def demoCols : List ColDef := [⟨[99], 0, 0, false⟩]
def demoGroups : List (List Batch) := [[⟨1, .absent [0, 0] 1, .absent [0, 0] 1, [[7, 0, 0, 0]]⟩]]
def demoFooter : FileMeta → List (List UInt8) := fun m => [[UInt8.ofNat m.rowGroups.length]]

example : outcome (writeFile true pageFinalize demoPayload {} demoFooter 0 1048576 demoCols demoGroups []).1 = 0 ∧
    outcome (writeFile true pageFinalize demoPayload {} demoFooter 0 1048576 demoCols demoGroups (oneFail 7)).1 = 1 := by
  decide

/-! ## regression witnesses for the other F20 sites (code before the repair) -/

/-- an arena whose only block has 6 bytes left -/
def fullArena : Arena.Arena := ⟨[⟨8, 65536, 65530⟩], 0, 65536, 65530, 65536⟩

def demoFooterShape : FooterShape := ⟨[[115], [99]], [[⟨2, [[99]]⟩]], some [67]⟩

/-- F20a: parsing a footer when the arena needs a new block and malloc refuses: the unchecked list allocation is
dereferenced (crash); the repaired parser returns OUT_OF_MEMORY. -/
theorem C19_regression_F20a :
    outcome (parseFileMetadata false {} fullArena demoFooterShape [false]).1 = 3 ∧
    outcome (parseFileMetadata true {} fullArena demoFooterShape [false]).1 = 1 := by decide

/-- F20a (strings): a failed name copy used to yield a NULL name with status OK. -/
theorem C19_regression_F20a_strings :
    (match (strAlloc false fullArena [1, 2, 3, 4, 5, 6, 7, 8] [false]).1 with | .ok r => r.2 == none | .error _ => false) = true ∧
    outcome (strAlloc true fullArena [1, 2, 3, 4, 5, 6, 7, 8] [false]).1 = 1 := by decide

/-- F20c: the RLE encoder dropped the status of its appends: first chunk lost, result OK. -/
theorem C19_regression_F20c :
    (match (rleEncodeAllPreFix [[3], [0xAA]] [false]).1 with | .ok b => b.data == [0xAA] | .error _ => false) = true ∧
    outcome (rleEncodeAll [[3], [0xAA]] [false]).1 = 1 := by decide

/-- F20d: zero-copy page load, level buffers unchecked: memset through NULL. -/
theorem C19_regression_F20d :
    outcome (loadPage false .mmap ⟨0, false⟩ ⟨10, false, true, false⟩ [false]).1 = 3 ∧
    outcome (loadPage true .mmap ⟨0, false⟩ ⟨10, false, true, false⟩ [false]).1 = 1 := by decide

/-- F20e: batch reader — a refused def_levels malloc used to produce a batch that reports OK with the nulls lost
(and a refused bitmap calloc one without a bitmap); the repaired code fails the batch. -/
theorem C19_regression_F20e :
    (match (batchColumn false .fread true [] (⟨0, false⟩, ⟨10, false, false, false⟩, [1, 2, 3]) (oneFail 7)).1 with
      | .ok outs => outs == [⟨[1, 2, 3], true, false⟩] | .error _ => false) = true ∧
    (match (batchColumn false .fread true [] (⟨0, false⟩, ⟨10, false, false, false⟩, [1, 2, 3]) (oneFail 6)).1 with
      | .ok outs => outs == [⟨[1, 2, 3], false, false⟩] | .error _ => false) = true ∧
    outcome (batchColumn true .fread true ([] : List (ColumnOut (List UInt8))) (⟨0, false⟩, ⟨10, false, false, false⟩, [1, 2, 3]) (oneFail 7)).1 = 2 ∧
    outcome (batchColumn true .fread true ([] : List (ColumnOut (List UInt8))) (⟨0, false⟩, ⟨10, false, false, false⟩, [1, 2, 3]) (oneFail 6)).1 = 2 ∧
    -- a refused request during the ignored prefetch is absorbed: the batch still succeeds, with the right content
    (match (batchColumn true .fread true [] (⟨0, false⟩, ⟨10, false, false, false⟩, [1, 2, 3]) (oneFail 2)).1 with
      | .ok outs => outs == [⟨[1, 2, 3], true, true⟩] | .error _ => false) = true := by
  decide

/-- F20f: schema builder — a refused name copy used to leave a NULL name with status OK. -/
theorem C19_regression_F20f :
    ((schemaAddColumnS false ⟨fullArena, [⟨some rootName, 0⟩], [], 64, 64, 64, 64, 64⟩ [1, 2, 3, 4, 5, 6, 7, 8] 0 [false]).1 = .ok ∧
     (schemaAddColumnS false ⟨fullArena, [⟨some rootName, 0⟩], [], 64, 64, 64, 64, 64⟩ [1, 2, 3, 4, 5, 6, 7, 8] 0 [false]).2.1.elems =
        [⟨some rootName, 0⟩, ⟨none, 0⟩]) ∧
    (schemaAddColumnS true ⟨fullArena, [⟨some rootName, 0⟩], [], 64, 64, 64, 64, 64⟩ [1, 2, 3, 4, 5, 6, 7, 8] 0 [false]).1 = .oom := by
  decide

/-- F20g: writer metadata — a refused `encodings` allocation in flush_row_group used to be stored as NULL and
dereferenced when the footer is serialised (crash at close); the repaired close returns OUT_OF_MEMORY. -/
theorem C19_regression_F20g :
    (match (chunkMeta false {} (fullArena, []) (some [99], 10) [false]).1 with
      | .ok r => r.2 == [⟨some [99], false, 10⟩] | .error _ => false) = true ∧
    outcome (chunkMeta true {} (fullArena, []) (some [99], 10) [false]).1 = 1 ∧
    footerDerefOk ⟨true, [], [[⟨some [99], false, 10⟩]]⟩ = false := by decide

end Carquet.Properties.C19
