import Carquet.Impl.CSem
import Carquet.Impl.Buffer
import Carquet.Impl.Arena
import Carquet.Gen.CFun
import Carquet.Proofs.CFun.C19
/-
C19 — link theorems between the size helpers of src/core/buffer.c and src/core/arena.c as translated from the
CURRENT source (`Carquet.Gen.CFun`, regenerated on every run) and the models the C19 theorems are about
(`Impl.Alloc.Buffer.nextPow2`, `Impl.Alloc.Arena.alignUp`).  Both models are on unbounded `Nat`; the hypotheses say
exactly where the 64-bit C arithmetic does not wrap (Impl/Buffer.lean states the same assumption: sizes below 2^63).
-/
namespace Carquet.Properties.C19
open Carquet Carquet.Impl

/-- `next_power_of_two(n)` is the model's `nextPow2 n` for every `n ≤ 2^63`.  (For larger `n` the C function
returns 0 — the `+ 1` wraps — while the model returns 2^64: see the example below.) -/
theorem C19_cfun_next_power_of_two (n : BitVec 64) (h : n.toNat ≤ 2 ^ 63) :
    (Gen.CFun.next_power_of_two n).toNat = Impl.Alloc.Buffer.nextPow2 n.toNat := by
  unfold Gen.CFun.next_power_of_two Impl.Alloc.Buffer.nextPow2
  by_cases h0 : n = 0#64
  · subst h0; rfl
  · have hn : n.toNat ≠ 0 := fun h' => h0 (BitVec.eq_of_toNat_eq h')
    have h1 : (n - 1#64).toNat = n.toNat - 1 := by bv_omega
    have h2 := Proofs.CFun.C19.smear_lt (n.toNat - 1) 63 (by omega)
    simp only [beq_iff_eq, h0, if_false, hn, BitVec.toNat_add, Proofs.CFun.C19.smear_eq, h1]
    simp only [BitVec.toNat_ofNat]
    omega

theorem C19_cfun_next_power_of_two_defined (n : BitVec 64) : Gen.CFun.next_power_of_two_defined n = true := by
  simp [Gen.CFun.next_power_of_two_defined]

example : (1000#64).toNat ≤ 2 ^ 63 ∧ (Gen.CFun.next_power_of_two 1000#64).toNat = 1024 ∧
    Impl.Alloc.Buffer.nextPow2 1000 = 1024 := by decide

/-- outside the hypothesis the two differ: the C function wraps to 0 -/
example : (Gen.CFun.next_power_of_two (BitVec.ofNat 64 (2 ^ 63 + 1))).toNat = 0 ∧
    Impl.Alloc.Buffer.nextPow2 (2 ^ 63 + 1) = 2 ^ 64 := by decide

/-- `align_up(value, alignment)` is the model's `alignUp` for every power-of-two alignment `2^k`, `k < 64`, as long
as `value + alignment - 1` fits a `size_t` (the only call site passes `CARQUET_ARENA_DEFAULT_BLOCK_SIZE`). -/
theorem C19_cfun_align_up (value : BitVec 64) (k : Nat) (hk : k < 64) (h : value.toNat + 2 ^ k - 1 < 2 ^ 64) :
    (Gen.CFun.align_up value (BitVec.ofNat 64 (2 ^ k))).toNat = Impl.Alloc.Arena.alignUp value.toNat (2 ^ k) := by
  have hp : 2 ^ k < 2 ^ 64 := Nat.pow_lt_pow_right (by decide) hk
  have hpos : 0 < 2 ^ k := Nat.two_pow_pos k
  have ha : (BitVec.ofNat 64 (2 ^ k)).toNat = 2 ^ k := by simp [Nat.mod_eq_of_lt hp]
  have hs : (value + BitVec.ofNat 64 (2 ^ k) - 1#64).toNat = value.toNat + 2 ^ k - 1 := by bv_omega
  unfold Gen.CFun.align_up Impl.Alloc.Arena.alignUp
  rw [Proofs.CFun.C19.and_not_low _ k hk, hs]

theorem C19_cfun_align_up_defined (value alignment : BitVec 64) :
    Gen.CFun.align_up_defined value alignment = true := by
  simp [Gen.CFun.align_up_defined]

example : (16 : Nat) < 64 ∧ (70000#64).toNat + 2 ^ 16 - 1 < 2 ^ 64 ∧
    (Gen.CFun.align_up 70000#64 (BitVec.ofNat 64 (2 ^ 16))).toNat = 131072 ∧
    Impl.Alloc.Arena.alignUp 70000 (2 ^ 16) = 131072 := by decide

end Carquet.Properties.C19
