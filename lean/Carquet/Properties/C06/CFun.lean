import Carquet.Impl.CSem
import Carquet.Impl.Reader
import Carquet.Gen.CFun
import Carquet.Proofs.CFun.Basic
import Carquet.Proofs.CFun.Loops
/-
C06 — link theorems between the per-type value sizes and the level bit width the page decoder uses
(src/reader/page_reader.c `get_value_size`, `bit_width_for_max`; src/reader/batch_reader.c `get_type_size`) as
translated from the CURRENT source (`Carquet.Gen.CFun`, regenerated on every run) and the reader model the C06
theorems are about (`Impl.Reader.valueSize`, `Impl.Reader.bitWidthForMax`).
-/
namespace Carquet.Properties.C06
open Carquet Carquet.Impl

/-- page_reader.c `get_value_size(type, type_length)` is the model's `valueSize`, for every value of the enum and every
`int32_t type_length`, except FIXED_LEN_BYTE_ARRAY with a NEGATIVE type_length: there the C function returns the huge
`(size_t)type_length` while the model says `typeLength.toNat = 0` (see the example below; the model is only applied to
schemas whose FLBA length is positive). -/
theorem C06_cfun_get_value_size (t tl : BitVec 32) (h : t = 7#32 → 0 ≤ tl.toInt) :
    (Gen.CFun.page_reader_get_value_size t tl).toNat = Impl.Reader.valueSize t.toNat tl.toInt := by
  simp only [Gen.CFun.page_reader_get_value_size, Impl.Reader.valueSize,
    Proofs.CFun.beq_lit32 t 0 (by decide), Proofs.CFun.beq_lit32 t 1 (by decide), Proofs.CFun.beq_lit32 t 2 (by decide),
    Proofs.CFun.beq_lit32 t 3 (by decide), Proofs.CFun.beq_lit32 t 4 (by decide), Proofs.CFun.beq_lit32 t 5 (by decide),
    Proofs.CFun.beq_lit32 t 6 (by decide), Proofs.CFun.beq_lit32 t 7 (by decide)]
  have hcases : t.toNat = 0 ∨ t.toNat = 1 ∨ t.toNat = 2 ∨ t.toNat = 3 ∨ t.toNat = 4 ∨ t.toNat = 5 ∨ t.toNat = 6 ∨
      t.toNat = 7 ∨ 7 < t.toNat := by omega
  rcases hcases with h'|h'|h'|h'|h'|h'|h'|h'|h'
  · simp [h']
  · simp [h']
  · simp [h']
  · simp [h']
  · simp [h']
  · simp [h']
  · simp [h']
  · have : t = 7#32 := BitVec.eq_of_toNat_eq (by simp [h'])
    simp [h', Proofs.CFun.toNat_signExtend_32_64_of_nonneg tl (h this)]
  · have e0 : ¬ (t.toNat = 0) := by omega
    have e1 : ¬ ((t.toNat : Int) = 1) := by omega
    have e2 : ¬ ((t.toNat : Int) = 2) := by omega
    have e3 : ¬ ((t.toNat : Int) = 3) := by omega
    have e4 : ¬ ((t.toNat : Int) = 4) := by omega
    have e5 : ¬ ((t.toNat : Int) = 5) := by omega
    have e6 : ¬ ((t.toNat : Int) = 6) := by omega
    have e7 : ¬ ((t.toNat : Int) = 7) := by omega
    simp [e0, e1, e2, e3, e4, e5, e6, e7]

theorem C06_cfun_get_value_size_defined (t tl : BitVec 32) :
    Gen.CFun.page_reader_get_value_size_defined t tl = true := by
  simp [Gen.CFun.page_reader_get_value_size_defined]

example : ((7#32 : BitVec 32) = 7#32 → 0 ≤ (12#32 : BitVec 32).toInt) ∧
    (Gen.CFun.page_reader_get_value_size 7#32 12#32).toNat = 12 ∧ Impl.Reader.valueSize 7 12 = 12 ∧
    (Gen.CFun.page_reader_get_value_size 6#32 0#32).toNat = 16 := by decide

/-- where the hypothesis fails, code and model differ -/
example : (Gen.CFun.page_reader_get_value_size 7#32 (BitVec.ofInt 32 (-1))).toNat = 2 ^ 64 - 1 ∧
    Impl.Reader.valueSize 7 (-1) = 0 := by decide

/-- the value size the batch reader allocates for: `get_type_size` of batch_reader.c (no model function: the model
`Impl.BatchReader` carries the result as the field `valueSize`, "0 = unknown type / bad type_length") -/
def typeSize (ptype : Nat) (typeLength : Int) : Nat :=
  if ptype = 0 then 1
  else if ptype = 1 ∨ ptype = 4 then 4
  else if ptype = 2 ∨ ptype = 5 then 8
  else if ptype = 3 then 12
  else if ptype = 7 then (if typeLength ≤ 0 ∨ 16 * 1024 * 1024 < typeLength then 0 else typeLength.toNat)
  else if ptype = 6 then 16
  else 0

/-- batch_reader.c `get_type_size(type, type_length)` is `typeSize`, for every enum value and every `int32_t` length -/
theorem C06_cfun_get_type_size (t tl : BitVec 32) :
    (Gen.CFun.get_type_size t tl).toNat = typeSize t.toNat tl.toInt := by
  have hmax : ((16#32 * 1024#32) * 1024#32 : BitVec 32).toInt = 16 * 1024 * 1024 := by decide
  simp only [Gen.CFun.get_type_size, typeSize, BitVec.sle_eq_decide, BitVec.slt_eq_decide, hmax]
  have hcases : t.toNat = 0 ∨ t.toNat = 1 ∨ t.toNat = 2 ∨ t.toNat = 3 ∨ t.toNat = 4 ∨ t.toNat = 5 ∨ t.toNat = 6 ∨
      t.toNat = 7 ∨ 7 < t.toNat := by omega
  have lit : ∀ k : Nat, k < 2 ^ 32 → t.toNat = k → t = BitVec.ofNat 32 k := fun k hk e =>
    BitVec.eq_of_toNat_eq (by simp [e, Nat.mod_eq_of_lt hk])
  rcases hcases with h'|h'|h'|h'|h'|h'|h'|h'|h'
  · simp [lit 0 (by decide) h']
  · simp [lit 1 (by decide) h']
  · simp [lit 2 (by decide) h']
  · simp [lit 3 (by decide) h']
  · simp [lit 4 (by decide) h']
  · simp [lit 5 (by decide) h']
  · simp [lit 6 (by decide) h']
  · rw [lit 7 (by decide) h']
    have z : (0#32 : BitVec 32).toInt = 0 := by decide
    simp only [z]
    by_cases hbad : tl.toInt ≤ 0 ∨ 16777216 < tl.toInt
    · simp [hbad]
    · have hx := Proofs.CFun.toNat_signExtend_32_64_of_nonneg tl (by omega)
      simp [hbad, hx]
  · have ne : ∀ k : Nat, k ≤ 7 → ¬ (t = BitVec.ofNat 32 k) := by
      intro k hk e; subst e; simp at h'; omega
    have e0 : ¬ (t.toNat = 0) := by omega
    have e1 : ¬ (t.toNat = 1) := by omega
    have e2 : ¬ (t.toNat = 2) := by omega
    have e3 : ¬ (t.toNat = 3) := by omega
    have e4 : ¬ (t.toNat = 4) := by omega
    have e5 : ¬ (t.toNat = 5) := by omega
    have e6 : ¬ (t.toNat = 6) := by omega
    have e7 : ¬ (t.toNat = 7) := by omega
    simp [ne 0, ne 1, ne 2, ne 3, ne 4, ne 5, ne 6, ne 7, e0, e1, e2, e3, e4, e5, e6, e7]

theorem C06_cfun_get_type_size_defined (t tl : BitVec 32) : Gen.CFun.get_type_size_defined t tl = true := by
  have h1 : CSem.sMulOk 16#32 1024#32 = true := by decide
  have h2 : CSem.sMulOk (16#32 * 1024#32) 1024#32 = true := by decide
  simp only [Gen.CFun.get_type_size_defined, h1, h2]
  simp

example : (Gen.CFun.get_type_size 7#32 12#32).toNat = 12 ∧ typeSize 7 12 = 12 ∧
    (Gen.CFun.get_type_size 7#32 (BitVec.ofInt 32 (-1))).toNat = 0 ∧
    (Gen.CFun.get_type_size 7#32 (BitVec.ofNat 32 (16 * 1024 * 1024 + 1))).toNat = 0 ∧
    (Gen.CFun.get_type_size 6#32 0#32).toNat = 16 := by decide

/-- page_reader.c `bit_width_for_max(max_val)` is the model's `bitWidthForMax` for every non-negative `int` (the
maximum definition / repetition level), and the fuel of the translated loop suffices -/
theorem C06_cfun_bit_width_for_max (m : BitVec 32) (h : 0 ≤ m.toInt) :
    (Gen.CFun.page_reader_bit_width_for_max m).toNat = Impl.Reader.bitWidthForMax m.toInt.toNat := by
  have hn := Proofs.CFun.toNat_of_toInt_nonneg m h
  have h31 : m.toNat < 2 ^ 31 := by
    have := BitVec.toInt_lt (x := m); omega
  have hb := Proofs.CFun.bitLen_le_of_lt m.toNat 31 h31
  have hz : (0#32 : BitVec 32).toNat = 0 := rfl
  have hl := (Proofs.CFun.page_reader_bit_width_for_max_loop 32 m 0#32 h31 (by omega) (by rw [hz]; omega)).1
  unfold Gen.CFun.page_reader_bit_width_for_max Impl.Reader.bitWidthForMax
  rw [← hn]
  by_cases h0 : m = 0#32
  · subst h0; rfl
  · have hne : m.toNat ≠ 0 := fun e => h0 (BitVec.eq_of_toNat_eq e)
    simp only [beq_iff_eq, h0, if_false, hne, hl, hz, Nat.zero_add, CSem.bitLen]

theorem C06_cfun_bit_width_for_max_defined (m : BitVec 32) (h : 0 ≤ m.toInt) :
    Gen.CFun.page_reader_bit_width_for_max_defined m = true := by
  have h31 : m.toNat < 2 ^ 31 := by
    have := BitVec.toInt_lt (x := m); have := Proofs.CFun.toNat_of_toInt_nonneg m h; omega
  have hb := Proofs.CFun.bitLen_le_of_lt m.toNat 31 h31
  have hz : (0#32 : BitVec 32).toNat = 0 := rfl
  have hl := (Proofs.CFun.page_reader_bit_width_for_max_loop 32 m 0#32 h31 (by omega) (by rw [hz]; omega)).2
  unfold Gen.CFun.page_reader_bit_width_for_max_defined
  by_cases h0 : m = 0#32 <;> simp [h0, hl]

example : (0 : Int) ≤ (5#32 : BitVec 32).toInt ∧ (Gen.CFun.page_reader_bit_width_for_max 5#32).toNat = 3 ∧
    Impl.Reader.bitWidthForMax 5 = 3 ∧ (Gen.CFun.page_reader_bit_width_for_max 2147483647#32).toNat = 31 ∧
    Gen.CFun.page_reader_bit_width_for_max_defined 2147483647#32 = true := by decide

/-- a negative maximum gives width 0 (the loop is not entered) -/
example : (Gen.CFun.page_reader_bit_width_for_max (BitVec.ofInt 32 (-3))).toNat = 0 := by decide

end Carquet.Properties.C06
