import Carquet.Proofs.ImplReadsWhole
import Carquet.Proofs.ImplReadsOracle
import Carquet.Proofs.ImplReadsReject
import Carquet.Proofs.ImplReadsRejectV2
import Carquet.Proofs.SpecFileGzip
import Carquet.Proofs.SpecFileZstd
import Carquet.Properties.C06.SpecFile
import Carquet.Properties.C06.SpecFileFull
/-
C06, implementation half — **carquet's reader reads what a specification-following writer wrote**:

    theorem C06_impl_reads_reference (t : Table) (l : Layout) (file : Bytes) (oracle : Oracle)
        (hw : writeFull t l = some (file, oracle)) (hadm : layoutAdm l = true)
        (hwf : ∀ v, footerTV t l = some v → v.wf = true ∧ footerUsizeOk v = true)
        (hlen : file.length < 2 ^ 31) (hsmall : ∀ g ∈ t.rowGroups, ∀ es ∈ g.chunks, es.length < 2 ^ 31)
        (mode : Mode) (hclaim : fileClaimed (decide (mode = .fread)) t l = true)
        (verify : Bool) (L : Libs) (hL : LibsDecode L oracle) :
        Impl.Reader.readAll Fixes.all L verify mode file = .ok (readerTableOfSpec t)

`Spec.File.writeFull t l` is the reference writer (Spec/File/Write.lean: every choice the format leaves
open is steered by the layout `l`); `Impl.Reader.readAll` is the model of carquet's reader (open in one
of the three I/O modes, `get_column` for every cell, one complete `carquet_column_read_batch` per chunk),
tied to the C code value-exactly on every generated file; `readerTableOfSpec t` (Impl/ReaderTableSpec.lean)
renders the table the way carquet hands it out — per row group, per leaf column, the definition level of
every entry and the dense values of the entries that carry one (and `num_rows`); the repetition levels of
the same reads are `C06_impl_reads_reference_levels`.

Hypotheses.  The first five are those of the Spec-side theorem `C06_reference_selfconsistent` (the layout
fits the table and is admissible: data page v1, PLAIN / PLAIN_DICTIONARY / RLE_DICTIONARY, any compression
plan, unknown fields really unknown; the Thrift integers fit; file < 2 GiB).  `fileClaimed` (decidable,
Impl/ReaderClaim.lean) adds what CARQUET bounds: nesting depth of unknown fields (THRIFT_MAX_NESTING = 32
counted from the top-level struct), list lengths (10000 schema elements / columns, 100000 row groups, 100
encodings / path elements), no BOOLEAN dictionary (NOT_IMPLEMENTED), levels within int16, and — fread mode
only — every page header lies within the largest window `read_page_header_fread` tries, 2^24 bytes.  (Data
pages WITHOUT values — at the head, in the middle, at the end of a chunk, several in a row — are inside the
claim since repair F63: `C06_regression_F63`.)  (That the growing window never accepts a header cut short is a THEOREM since fix F62:
`parsePageHeaderC_mono`, Proofs/ImplReadsPrefix.lean — carquet's page-header parser is prefix-monotone; before the
fix it was false, `C06_regression_F62`.)  `LibsDecode L oracle`: zlib and
libzstd (parameters of the model, in the trusted base) inflate the GZIP members / ZSTD frames of the file.

FREE in the theorem: the table (any schema tree, flat or nested to any depth the levels allow, all eight
physical types, any number of row groups incl. none and empty ones), page split, run plans of the level
(pages without values included) AND index streams (any mix of RLE and bit-packed runs, zero-length runs,
over-long headers, padded final group), index width ≤ 32, dictionary order / duplicates / unused entries, `dictionary_page_offset` present
or absent (fix F52s), PLAIN pages before / after dictionary-encoded ones, SNAPPY op lists, LZ4 / LZ4_RAW
sequence lists, GZIP stored blocks, ZSTD raw / RLE blocks, CRC per page (verified or not), page and chunk
statistics, Thrift header form of footer and every page header, unknown fields of every wire type at all
ten places, gaps, version, created_by; the I/O mode (fread / mmap / buffer) and `verify_checksums`.

Delivered in CLASSES (each a theorem with the class as a decidable hypothesis on the layout), then the
union; the negative half `C06_unsupported_rejected`; the defects found on the way, `C06_regression_F62`
and `C06_regression_F63`.
-/
namespace Carquet.Properties.C06
open Carquet.Spec Carquet.Spec.File Carquet.Spec.Thrift
open Carquet.Impl
open Carquet.Impl.Reader hiding Bytes
open Carquet.Impl.Reader.Claim
open Carquet.Proofs.ImplReads

/-! ## the union -/

/-- **C06, implementation half** (see the header comment) -/
theorem C06_impl_reads_reference (t : File.Table) (l : Layout) (file : Bytes) (oracle : Oracle)
    (hw : writeFull t l = some (file, oracle)) (hadm : layoutAdm l = true)
    (hwf : ∀ v, footerTV t l = some v → v.wf = true ∧ footerUsizeOk v = true)
    (hlen : file.length < 2 ^ 31) (hsmall : ∀ g ∈ t.rowGroups, ∀ es ∈ g.chunks, es.length < 2 ^ 31)
    (mode : Mode) (hclaim : fileClaimed (decide (mode = .fread)) t l = true)
    (verify : Bool) (L : Libs) (hL : LibsDecode L oracle) :
    readAll Fixes.all L verify mode file = .ok (readerTableOfSpec t) :=
  readAll_reference t l file oracle hw hadm hwf hlen hsmall mode hclaim verify L hL

theorem selfConsistencyHyp_parts {t : File.Table} {l : Layout} (h : selfConsistencyHyp t l = true) :
    (writeFull t l).isSome = true ∧ layoutAdm l = true ∧
    (∀ v, footerTV t l = some v → v.wf = true ∧ footerUsizeOk v = true) ∧ (write t l).length < 2 ^ 31 ∧
    (∀ g ∈ t.rowGroups, ∀ es ∈ g.chunks, es.length < 2 ^ 31) := by
  unfold selfConsistencyHyp at h
  simp only [Bool.and_eq_true, decide_eq_true_eq, List.all_eq_true] at h
  obtain ⟨⟨⟨⟨h1, h2⟩, h3⟩, h4⟩, h5⟩ := h
  refine ⟨h1, h2, ?_, h4, h5⟩
  intro v hv
  rw [hv] at h3
  simpa using h3

/-- the same with ALL hypotheses about the file decidable: `selfConsistencyHyp` (Spec side) and `fileClaimed`
(carquet's limits), evaluated by the generator for every file it emits -/
theorem C06_impl_reads_reference_checked (t : File.Table) (l : Layout) (hyp : selfConsistencyHyp t l = true)
    (mode : Mode) (hclaim : fileClaimed (decide (mode = .fread)) t l = true)
    (verify : Bool) (L : Libs) (hL : LibsDecode L (writeOracle t l)) :
    readAll Fixes.all L verify mode (write t l) = .ok (readerTableOfSpec t) := by
  obtain ⟨h1, h2, h3, h4, h5⟩ := selfConsistencyHyp_parts hyp
  cases hw : writeFull t l with
  | none => rw [hw] at h1; cases h1
  | some p =>
    obtain ⟨file, oracle⟩ := p
    have e1 : write t l = file := by simp [write, hw]
    have e2 : writeOracle t l = oracle := by simp [writeOracle, hw]
    rw [e1] at h4 ⊢
    rw [e2] at hL
    exact C06_impl_reads_reference t l file oracle hw h2 h3 h4 h5 mode hclaim verify L hL

/-- the three I/O modes, both checksum settings and all libraries that honour the contract read the same -/
theorem C06_impl_reads_modes_agree (t : File.Table) (l : Layout) (hyp : selfConsistencyHyp t l = true)
    (hclaim : fileClaimed true t l = true) (m1 m2 : Mode) (v1 v2 : Bool) (L1 L2 : Libs)
    (h1 : LibsDecode L1 (writeOracle t l)) (h2 : LibsDecode L2 (writeOracle t l)) :
    readAll Fixes.all L1 v1 m1 (write t l) = readAll Fixes.all L2 v2 m2 (write t l) := by
  have hc : ∀ m : Mode, fileClaimed (decide (m = .fread)) t l = true := fileClaimed_any_mode hclaim
  rw [C06_impl_reads_reference_checked t l hyp m1 (hc m1) v1 L1 h1, C06_impl_reads_reference_checked t l hyp m2 (hc m2) v2 L2 h2]

/-! ## levels: the same reads with all three arrays -/

theorem fill_full {β : Type} (xs : List β) : Carquet.Proofs.Cursor.fill xs xs.length = xs.map some := by
  simp [Carquet.Proofs.Cursor.fill]

/-- **repetition levels, definition levels and values**: for every cell of the table, `get_column` succeeds
and ONE `carquet_column_read_batch(cr, values, num_values, def_levels, rep_levels)` returns the number of
entries, fills `def_levels` and `rep_levels` with the stored levels of every entry, and `values` (dense)
with the values of the entries that carry one, leaving its other slots untouched -/
theorem C06_impl_reads_reference_levels (t : File.Table) (l : Layout) (file : Bytes) (oracle : Oracle)
    (hw : writeFull t l = some (file, oracle)) (hadm : layoutAdm l = true)
    (hwf : ∀ v, footerTV t l = some v → v.wf = true ∧ footerUsizeOk v = true)
    (hlen : file.length < 2 ^ 31) (hsmall : ∀ g ∈ t.rowGroups, ∀ es ∈ g.chunks, es.length < 2 ^ 31)
    (mode : Mode) (hclaim : fileClaimed (decide (mode = .fread)) t l = true)
    (verify : Bool) (L : Libs) (hL : LibsDecode L oracle) :
    ∃ o, openFile mode file = .ok o ∧ o.numRowGroups = t.rowGroups.length ∧
      ∀ (i j : Nat) (g : RowGroup) (es : Chunk), t.rowGroups[i]? = some g → g.chunks[j]? = some es →
        ∃ c, getColumn o (i : Int) (j : Int) = .ok c ∧ c.cm.numValues = (es.length : Int) ∧
          (ColumnReader.readBatch ColumnReader.Fixes.all (ColumnReader.getColumn (chunkOf Fixes.all L verify mode file c))
              c.cm.numValues true true).2.count = (es.length : Int) ∧
          (ColumnReader.readBatch ColumnReader.Fixes.all (ColumnReader.getColumn (chunkOf Fixes.all L verify mode file c))
              c.cm.numValues true true).2.defs = (es.map (·.dl)).map some ∧
          (ColumnReader.readBatch ColumnReader.Fixes.all (ColumnReader.getColumn (chunkOf Fixes.all L verify mode file c))
              c.cm.numValues true true).2.reps = (es.map (·.rep)).map some ∧
          (ColumnReader.readBatch ColumnReader.Fixes.all (ColumnReader.getColumn (chunkOf Fixes.all L verify mode file c))
              c.cm.numValues true true).2.vals =
            (es.filterMap (·.val)).map some ++ List.replicate (es.length - (es.filterMap (·.val)).length) none := by
  obtain ⟨o, leaves, _, hopen, hop, _⟩ := opening_reference t l file oracle hw hadm hwf hlen hsmall mode hclaim verify L hL
  refine ⟨o, hopen, hop.numRowGroups, ?_⟩
  intro i j g es hg hes
  obtain ⟨leaf, cm, hgc, hread⟩ := hop.cell i j g es hg hes
  obtain ⟨rows, hres, hd, hr, hv, hlen', hnv, _⟩ := hread true true
  refine ⟨colOfLeaf leaf cm, hgc, hnv, ?_, ?_, ?_, ?_⟩
  · rw [hres.count, hlen']
  · rw [hres.defs, hd]
    have := fill_full (es.map (·.dl))
    simp only [List.length_map] at this
    simp only [if_true, this]
  · rw [hres.reps, hr]
    have := fill_full (es.map (·.rep))
    simp only [List.length_map] at this
    simp only [if_true, this]
  · rw [hres.vals, hv]
    rfl

/-! ## the classes -/

/-- **class 1 — PLAIN**: flat and nested schemas, PLAIN values, uncompressed, any page split, any run plan of
the level streams, any Thrift header form, CRCs on / off, statistics present — for ANY behaviour of the
GZIP / ZSTD libraries -/
theorem C06_impl_reads_plain_class (t : File.Table) (l : Layout) (hclass : plainClass l = true)
    (hyp : selfConsistencyHyp t l = true) (mode : Mode) (hclaim : fileClaimed (decide (mode = .fread)) t l = true)
    (verify : Bool) (L : Libs) :
    readAll Fixes.all L verify mode (write t l) = .ok (readerTableOfSpec t) := by
  unfold plainClass at hclass
  simp only [Bool.and_eq_true] at hclass
  apply C06_impl_reads_reference_checked t l hyp mode hclaim verify L
  obtain ⟨h1, h2, _⟩ := selfConsistencyHyp_parts hyp
  cases hw : writeFull t l with
  | none => rw [hw] at h1; cases h1
  | some p =>
    have := writeFull_oracle_nil t l p.1 p.2 h2 (layoutUncompressed_noLib hclass.1.2) hw
    simp only [writeOracle, hw, this]
    exact libsDecode_nil L

/-- **class 2 — dictionary**: dictionary pages + dictionary-encoded data pages (PLAIN_DICTIONARY and
RLE_DICTIONARY tags, any index run plan, width ≤ 32, dictionary offset present or absent, PLAIN pages before /
after dictionary-encoded pages), uncompressed — for ANY behaviour of the libraries -/
theorem C06_impl_reads_dictionary_class (t : File.Table) (l : Layout) (hclass : dictClass l = true)
    (hyp : selfConsistencyHyp t l = true) (mode : Mode) (hclaim : fileClaimed (decide (mode = .fread)) t l = true)
    (verify : Bool) (L : Libs) :
    readAll Fixes.all L verify mode (write t l) = .ok (readerTableOfSpec t) := by
  unfold dictClass at hclass
  simp only [Bool.and_eq_true] at hclass
  apply C06_impl_reads_reference_checked t l hyp mode hclaim verify L
  obtain ⟨h1, h2, _⟩ := selfConsistencyHyp_parts hyp
  cases hw : writeFull t l with
  | none => rw [hw] at h1; cases h1
  | some p =>
    have := writeFull_oracle_nil t l p.1 p.2 h2 (layoutUncompressed_noLib hclass.1) hw
    simp only [writeOracle, hw, this]
    exact libsDecode_nil L

/-- **class 3a — SNAPPY / LZ4 / LZ4_RAW** (via C10: carquet's decompressors accept every stream of the Spec
grammars, which is all the reference encoders emit): any op list / sequence list — for ANY behaviour of the
GZIP / ZSTD libraries -/
theorem C06_impl_reads_codec_class (t : File.Table) (l : Layout) (hclass : codecClass l = true)
    (hyp : selfConsistencyHyp t l = true) (mode : Mode) (hclaim : fileClaimed (decide (mode = .fread)) t l = true)
    (verify : Bool) (L : Libs) :
    readAll Fixes.all L verify mode (write t l) = .ok (readerTableOfSpec t) := by
  unfold codecClass at hclass
  simp only [Bool.and_eq_true] at hclass
  apply C06_impl_reads_reference_checked t l hyp mode hclaim verify L
  obtain ⟨h1, h2, _⟩ := selfConsistencyHyp_parts hyp
  cases hw : writeFull t l with
  | none => rw [hw] at h1; cases h1
  | some p =>
    have := writeFull_oracle_nil t l p.1 p.2 h2 hclass.1 hw
    simp only [writeOracle, hw, this]
    exact libsDecode_nil L

/-- **class 3b — GZIP / ZSTD too**, by the library contract: zlib inflates the stored-block members and
libzstd the raw / RLE-block frames of the file (`LibsDecode`) -/
theorem C06_impl_reads_lib_codec_class (t : File.Table) (l : Layout) (_hclass : libCodecClass l = true)
    (hyp : selfConsistencyHyp t l = true) (mode : Mode) (hclaim : fileClaimed (decide (mode = .fread)) t l = true)
    (verify : Bool) (L : Libs) (hL : LibsDecode L (writeOracle t l)) :
    readAll Fixes.all L verify mode (write t l) = .ok (readerTableOfSpec t) :=
  C06_impl_reads_reference_checked t l hyp mode hclaim verify L hL

/-- **class 4 — unknown Thrift fields everywhere** (via C13: the parsers skip every field they do not know,
in any wire type and header form, nested up to the depth `thrift_skip` allows): footer, schema elements, row
groups, column chunks, column metadata, page headers, data / dictionary page headers, statistics.  This is
the union: nothing else is restricted. -/
theorem C06_impl_reads_unknown_fields_class (t : File.Table) (l : Layout)
    (hyp : selfConsistencyHyp t l = true) (mode : Mode) (hclaim : fileClaimed (decide (mode = .fread)) t l = true)
    (verify : Bool) (L : Libs) (hL : LibsDecode L (writeOracle t l)) :
    readAll Fixes.all L verify mode (write t l) = .ok (readerTableOfSpec t) :=
  C06_impl_reads_reference_checked t l hyp mode hclaim verify L hL

/-! ## the negative half -/

/-- **Unsupported features are rejected with an error, never decoded** — as far as the reader decides it by
inspection of a header field.  For every file `b`, column reader `c`, reader state, I/O mode and library
behaviour:

1. DATA_PAGE_V2: once `load_next_page` has found a page header of type 3, it returns NOT_IMPLEMENTED
   (`finishDataPage`; `C06_v2_page_rejected` below is the same from the bytes of the file);
2. a value encoding outside {PLAIN = 0, PLAIN_DICTIONARY = 2, RLE_DICTIONARY = 8} in the data page header:
   the load returns an error (INVALID_ENCODING from `carquet_read_data_page_v1`, or an earlier one) — or, since
   repair F63, the header says `num_values = 0` and the page is stepped over undecoded: it is loaded as a
   page without levels and without values;
3. a codec tag outside {0, 1, 2, 5, 6, 7} in the column metadata: every data-page load of the chunk returns
   an error (UNSUPPORTED_CODEC from `decompress_page`, or an earlier one) or (F63) steps over a page without
   values (`NothingDecoded`) — hence every page the column reader ever gets of such a chunk is `none` or a page
   without rows: no level and no value of the chunk is decoded;
4. a dictionary page for a BOOLEAN column: `load_dictionary_page_*` returns an error whatever the page holds
   (NOT_IMPLEMENTED, fix F54, or an earlier one), hence so does the first `load_next_page` of a chunk that
   announces a dictionary;
5. whenever `load_next_page` returns an error with values outstanding, the page iteration ends there
   (`chunkPages = [none]`): the column reader gets no page, so no level and no value of the offending page is
   delivered (`carquet_column_read_batch` returns the entries it had copied from earlier pages, or -1).

BIT_PACKED level encoding is not decided by a header field: the reader ignores the level-encoding fields and
decodes RLE; the refread check observes an error (never wrong values) on every such generated file. -/
theorem C06_unsupported_rejected (fx : Fixes) (L : Libs) (verify : Bool) (mode : Mode) (b : Bytes) (c : Col) (st : PState) :
    (∀ hr : ThriftParquetReq.PageHdr × Nat, hr.1.type = 3 →
      (finishDataPage fx L verify mode b c st hr).result = .error .notImplemented) ∧
    (∀ hr : ThriftParquetReq.PageHdr × Nat, encodingKnown hr.1.word4 = false →
      (∃ e, (finishDataPage fx L verify mode b c st hr).result = .error e) ∨
        (hr.1.word0 = 0 ∧ ∃ p, (finishDataPage fx L verify mode b c st hr).result = .ok p ∧ p.page = ⟨[], [], []⟩)) ∧
    (codecKnown c.cm.codec = false → NothingDecoded (loadPage fx L verify mode b c st).result ∧
      ∀ fuel, ∀ x ∈ chunkPages fx L verify mode b c fuel st, x = none ∨ x = some ⟨[], [], []⟩) ∧
    (c.ptype = 0 → (∀ off, ∃ e, (loadDictionary fx L verify mode b c off).result = .error e) ∧
      (∀ doff, c.cm.dictionaryPageOffset = some doff → st.dict = none →
        ∃ e, (loadPage fx L verify mode b c st).result = .error e)) ∧
    (∀ e fuel, 0 < st.valuesRemaining → (loadPage fx L verify mode b c st).result = .error e →
      chunkPages fx L verify mode b c (fuel + 1) st = [none]) :=
  ⟨fun hr h3 => finishDataPage_v2 fx L verify mode b c st hr h3,
   fun hr he => finishDataPage_encoding fx L verify mode b c st hr he,
   fun hc => ⟨loadPage_codec fx L verify mode b c st hc, fun fuel => chunkPages_codec fx L verify mode b c hc fuel st⟩,
   fun hb => ⟨fun off => loadDictionary_boolean fx L verify mode b c off hb,
              fun doff hd hn => loadPage_boolean_dictionary fx L verify mode b c st hb doff hd hn⟩,
   fun e fuel hrem h => chunkPages_of_load_error fx L verify mode b c st fuel hrem e h⟩

/-- DATA_PAGE_V2 from the bytes of the file: a page whose header — in any Thrift form, with anything the
parser accepts — announces type 3, at the offset the column reader points at, makes `load_next_page` return
NOT_IMPLEMENTED in every mode -/
theorem C06_v2_page_rejected (L : Libs) (verify : Bool) (mode : Mode) (pre post : Bytes) (c : Col) (p : RPage) (st : PState)
    (hp : p.Parses mode) (h3 : p.hdr.type = 3)
    (hsettled : c.cm.dictionaryPageOffset = none ∨ st.dict.isSome = true)
    (hoff : st.dataStart + st.currentPage = (pre.length : Int)) (hpost : 8 ≤ post.length) :
    (loadPage Fixes.all L verify mode (pre ++ p.bytes ++ post) c st).result = .error .notImplemented :=
  loadPage_v2 L verify mode pre post c p st hp h3 hsettled hoff hpost

/-- **DATA_PAGE_V2 of the reference writer is refused.**  A page the reference writer lays out with
`PageKind.v2` (page type 3, member struct 8, levels outside the compressed part) — in any Thrift header form,
with unknown fields in the page header and in the v2 member struct (ids outside the parquet.thrift tables,
nesting ≤ 29 / 28), header value well-formed — placed where the (settled) column reader points: the header is
found (fread mode: by the growing window), read as type 3, and `load_next_page` returns NOT_IMPLEMENTED in every
mode; by clause 5 of `C06_unsupported_rejected` the page iteration ends there and nothing of the page is handed out. -/
theorem C06_v2_layout_rejected (L : Libs) (verify : Bool) (mode : Mode) (leaf : LeafInfo) (dict : Option (List Bytes))
    (pl : PageLayout) (es : List Entry) (a : Written) (hk : pl.kind = .v2) (hw : writeDataPage leaf dict pl es = some a)
    (hhx : extrasOk ParquetThrift.pageHeader pl.hdrExtra = true) (hhd : extrasDepth 29 pl.hdrExtra = true)
    (hmx : extrasOk ParquetThrift.dataPageHeaderV2 pl.memberExtra = true) (hmd : extrasDepth 28 pl.memberExtra = true)
    (hwf : ∀ usize crc n nulls rows dlen rlen (body : Bytes),
      a.bytes = encodeValF pl.form (v2PageHdrTV pl usize body.length crc n nulls rows dlen rlen) ++ body →
      (v2PageHdrTV pl usize body.length crc n nulls rows dlen rlen).wf = true ∧
      (mode = .fread → WindowOk (encodeValF pl.form (v2PageHdrTV pl usize body.length crc n nulls rows dlen rlen))))
    (pre post : Bytes) (c : Col) (st : PState)
    (hsettled : c.cm.dictionaryPageOffset = none ∨ st.dict.isSome = true)
    (hoff : st.dataStart + st.currentPage = (pre.length : Int)) (hpost : 8 ≤ post.length) :
    (loadPage Fixes.all L verify mode (pre ++ a.bytes ++ post) c st).result = .error .notImplemented := by
  obtain ⟨usize, crc, n, nulls, rows, dlen, rlen, body, hb⟩ := writeDataPage_v2 hk hw
  obtain ⟨h1, h2⟩ := hwf usize crc n nulls rows dlen rlen body hb
  rw [hb]
  exact loadPage_v2_layout L verify mode pre post body c st pl usize crc n nulls rows dlen rlen hhx hhd hmx hmd h1 h2
    hsettled hoff hpost

/-! ## the defect found on the way: F62 -/

/-- the header of the witness page (corpus/C06/fixed-F62.ops): 259 bytes — known fields, an unknown BINARY
field of 230 bytes and an unknown DOUBLE field 0.0 whose eight bytes straddle byte 256 -/
def hdrF62 : Bytes :=
  encodeValF {} (pageHdrTV 0 24 24 none 5 (dataHdrTV ⟨6, 0, 3, 3, none⟩ [] [])
    [(20, .binary (List.replicate 230 0x41)), (21, .double 0)])

/-- **F62** (found by this component; fix `fixes/F62-thrift-skip-truncated-fixed-width-value.patch`).  Before
the fix `thrift_skip` ignored the result of `carquet_buffer_reader_skip` for BYTE / DOUBLE / UUID values: with
fewer than 8 bytes left, the decoder stayed where it was, status OK, and read the first byte of the DOUBLE
(0x00) as the STOP of the page header.  The first window (256 bytes) of `read_page_header_fread` — which is
doubled only when the parse FAILS — was therefore accepted as a complete header of 251 bytes although the
header is 259 bytes long: the page body was read 8 bytes too early (fread mode: values shifted, status OK;
mmap / buffer modes parse from everything behind the offset and were right).  After the fix the cut window is
THRIFT_TRUNCATED, the window is doubled, and the header parses to its full length. -/
theorem C06_regression_F62 :
    hdrF62.length = 259 ∧
    (ThriftParquetReq.parsePageHeaderCXPreF62 (hdrF62.take 256)).status = none ∧
    (ThriftParquetReq.parsePageHeaderCXPreF62 (hdrF62.take 256)).consumed = 251 ∧
    ThriftParquetReq.parsePageHeaderC (hdrF62.take 256) = .error .truncated ∧
    ThriftParquetReq.parsePageHeaderC hdrF62 = .ok (⟨0, 24, 24, none, 6, 0⟩, 259) ∧
    windowOk hdrF62 = true := by
  decide +kernel

/-! ## non-vacuity: kernel-checked instances -/

/-- libraries that honour the contract on the containers the reference writer emits: a stored-block
inflater and a raw / RLE-block zstd decoder (Proofs/SpecFileGzip.lean, SpecFileZstd.lean) -/
def exLibs : Libs :=
  ⟨⟨fun _ _ _ => none, fun c _ => Carquet.Proofs.SpecFile.gunzipStored c, id⟩,
   ⟨fun _ _ _ => none, fun c _ => Carquet.Proofs.SpecFile.unzstdRaw c, id⟩⟩

/-- **the union**, on the instance of Properties/C06/SpecFileFull.lean (nested schema: optional group ∋ repeated
INT32 + required BYTE_ARRAY; two row groups; SNAPPY with literal and copy ops, GZIP with FNAME, LZ4_RAW, ZSTD raw +
RLE blocks; dictionary with duplicate and unused entries, offset present and absent, RLE_DICTIONARY at width 3 with
an over-long zero-length run, PLAIN_DICTIONARY at width 17, PLAIN pages after and before dictionary pages; CRCs;
page and chunk statistics; unknown fields of 11 wire types at all ten places; mixed header forms), read in FREAD
mode with checksum verification: every hypothesis is evaluated by the kernel, the conclusion follows from the
theorem -/
example : readAll Fixes.all exLibs true .fread (write Ex.table Ex.layout) = .ok (readerTableOfSpec Ex.table) :=
  C06_impl_reads_reference_checked Ex.table Ex.layout (by decide +kernel) .fread (by decide +kernel) true exLibs
    (libsDecode_of_check (by decide +kernel))

/-- … and in the mapped modes, without verification -/
example : readAll Fixes.all exLibs false .mmap (write Ex.table Ex.layout) = .ok (readerTableOfSpec Ex.table) ∧
    readAll Fixes.all exLibs false .buffer (write Ex.table Ex.layout) = .ok (readerTableOfSpec Ex.table) :=
  ⟨C06_impl_reads_reference_checked Ex.table Ex.layout (by decide +kernel) .mmap (by decide +kernel) false exLibs
     (libsDecode_of_check (by decide +kernel)),
   C06_impl_reads_reference_checked Ex.table Ex.layout (by decide +kernel) .buffer (by decide +kernel) false exLibs
     (libsDecode_of_check (by decide +kernel))⟩

/-- what carquet hands out for it: 9 rows; the nested column with its definition levels and dense values -/
example : (readerTableOfSpec Ex.table).numRows = 7 ∧
    ((readerTableOfSpec Ex.table).rowGroups.map (fun g => g.map (·.defs))) = [[[2, 2, 0, 1, 2], [0, 0, 0, 0]], [[2, 1, 2, 2], [0, 0, 0]]] ∧
    readerRepsOfSpec Ex.table = [[[0, 1, 0, 0, 0], [0, 0, 0, 0]], [[0, 0, 0, 1], [0, 0, 0]]] := by
  decide +kernel

/-- **class 1 (PLAIN)** on the instance of Properties/C06/SpecFile.lean (nested table — optional group ∋ repeated
INT32 + required BYTE_ARRAY —, gap, two pages with mixed run plans, long-form page header, CRC, statistics,
mixed-form footer): any libraries -/
example (L : Libs) : readAll Fixes.all L true .fread (write exTable exLayout) = .ok (readerTableOfSpec exTable) :=
  C06_impl_reads_plain_class exTable exLayout (by decide +kernel) (by decide +kernel) .fread (by decide +kernel) true L

namespace Ex2
/-- one flat OPTIONAL INT32 column, one row group -/
def schema : Schema.Node := .group ⟨"schema", none, none, 0, none, none⟩ [.leaf ⟨"a", some .optional, some 1, 0, none, none⟩]
def leaf : LeafInfo := ⟨1, 0, .int32, 0, ["a"]⟩
def es : List Entry := [⟨0, 1, some [7, 0, 0, 0]⟩, ⟨0, 0, none⟩, ⟨0, 1, some [9, 0, 0, 0]⟩, ⟨0, 1, some [7, 0, 0, 0]⟩]
def table : File.Table := ⟨schema, [⟨[es]⟩]⟩
def dict : List Bytes := [[9, 0, 0, 0], [7, 0, 0, 0], [1, 1, 1, 1]]
def pDict : PageLayout :=
  { count := 3, defRuns := [.rle 1 1, .rle 1 0, .rle 1 1], values := .dict 8 2 [.packed 1 [0, 0, 0, 0, 0, 0] 0], crc := true,
    stats := { nullCount := true, minMaxValue := true }, form := { fieldForm := 1 } }
def pPlain : PageLayout := { count := 1, defRuns := [.packed 1 [0, 0, 0, 0, 0, 0, 0] 1] }
/-- class 2: dictionary page without `dictionary_page_offset`, an RLE_DICTIONARY page, a PLAIN page behind it -/
def layoutDict : Layout :=
  { rowGroups := [[{ dict := some { values := dict, offsetPresent := false, sorted := some false }, pages := [pDict, pPlain] }]] }
/-- class 3a: the same under SNAPPY (literal ops) with the offset present -/
def layoutSnappy : Layout :=
  { rowGroups := [[{
      dict := some { values := dict, comp := .snappy [.literal (plainEncode leaf dict) (.ext 1)] },
      codec := (1 : Nat),
      pages := [{ pDict with comp := .snappy [.literal (Ex.bodyOf leaf (some dict) pDict (es.take 3)) .inTag] },
                { pPlain with comp := .snappy [.literal (Ex.bodyOf leaf (some dict) pPlain (es.drop 3)) (.ext 2)] }] }]] }
end Ex2

/-- **class 2 (dictionary)**: any libraries -/
example (L : Libs) : readAll Fixes.all L true .fread (write Ex2.table Ex2.layoutDict) = .ok (readerTableOfSpec Ex2.table) :=
  C06_impl_reads_dictionary_class Ex2.table Ex2.layoutDict (by decide +kernel) (by decide +kernel) .fread (by decide +kernel) true L

/-- **class 3a (SNAPPY)**: any libraries -/
example (L : Libs) : readAll Fixes.all L true .buffer (write Ex2.table Ex2.layoutSnappy) = .ok (readerTableOfSpec Ex2.table) :=
  C06_impl_reads_codec_class Ex2.table Ex2.layoutSnappy (by decide +kernel) (by decide +kernel) .buffer (by decide +kernel) true L

/-! ## the defect found on the way: F63 (empty data pages) -/

namespace F63
/-- the table of `Ex2` (one OPTIONAL INT32 column, entries 7, null, 9, 7) in data pages of 3, 0 and 1 entries -/
def p3 : PageLayout := { Ex2.pPlain with count := 3, defRuns := [.rle 1 1, .rle 1 0, .rle 1 1] }
def layout : Layout := { rowGroups := [[{ pages := [p3, { count := 0 }, Ex2.pPlain] }]] }
def file : Bytes := write Ex2.table layout
/-- the column reader `carquet_reader_get_column(reader, 0, 0)` creates on that file (the chunk's metadata as the
footer records them: INT32, UNCOMPRESSED, 4 values, first page at offset 4; max_def_level 1) -/
def col : Col := ⟨{ type := 1, codec := 0, numValues := 4, dataPageOffset := 4 }, 1, 0, 1, 0⟩
/-- empty pages at the head, two in a row in the middle, at the end; PLAIN and dictionary-encoded pages -/
def layoutMany : Layout :=
  { rowGroups := [[{
      dict := some { values := Ex2.dict, offsetPresent := false, sorted := some false },
      pages := [{ count := 0 }, Ex2.pDict, { count := 0, crc := true }, { count := 0 }, Ex2.pPlain, { count := 0 }] }]] }
end F63

/-- **F63** (found by `c06impl`; fix `fixes/F63-empty-data-page-read-short.patch`).  A data page whose header
says `num_values = 0` is legal Parquet.  The witness is the reference writer's file for four entries in pages of
3, 0 and 1 entries: admissible for the Spec reader, inside every limit of `fileClaimed` (and outside the conjunct
`pagesNonEmpty` the claim carried until the repair).  The page loaders decode it to the pages `[3 rows, no rows,
1 row]` (evaluated on the bytes of the file, mapped and fread path).  Before the repair
`carquet_read_next_page` loaded the empty page, copied nothing, and `carquet_column_read_batch` left its loop at
`values_read == 0`: the read of all 4 entries returned 3; read 3 at a time, the second call returned 0 with
`has_next` true and one entry outstanding — a caller that takes 0 for the end of the chunk loses the rest.  The
repaired loop steps over the page: 4 entries, then 3 + 1; and the whole file is read back
(`C06_impl_reads_reference`, whose hypothesis `fileClaimed` no longer excludes empty pages). -/
theorem C06_regression_F63 :
    (selfConsistencyHyp Ex2.table F63.layout = true ∧ fileClaimed true Ex2.table F63.layout = true ∧
      (F63.layout.rowGroups.all (fun g => g.all pagesNonEmpty)) = false) ∧
    ((chunkOf Fixes.all exLibs false .mmap F63.file F63.col).pages =
        [some ⟨[1, 0, 1], [0, 0, 0], [[7, 0, 0, 0], [9, 0, 0, 0]]⟩, some ⟨[], [], []⟩, some ⟨[1], [0], [[7, 0, 0, 0]]⟩] ∧
     (chunkOf Fixes.all exLibs true .fread F63.file F63.col).pages =
        [some ⟨[1, 0, 1], [0, 0, 0], [[7, 0, 0, 0], [9, 0, 0, 0]]⟩, some ⟨[], [], []⟩, some ⟨[1], [0], [[7, 0, 0, 0]]⟩]) ∧
    -- before the repair
    ((ColumnReader.readBatch ColumnReader.Fixes.preF63
        (ColumnReader.getColumn (chunkOf Fixes.all exLibs false .mmap F63.file F63.col)) 4 true false).2.count = 3 ∧
     (ColumnReader.readBatch ColumnReader.Fixes.preF63
        (ColumnReader.readBatch ColumnReader.Fixes.preF63
          (ColumnReader.getColumn (chunkOf Fixes.all exLibs false .mmap F63.file F63.col)) 3 true false).1 3 true false).2.count = 0 ∧
     ColumnReader.hasNext (ColumnReader.readBatch ColumnReader.Fixes.preF63
        (ColumnReader.readBatch ColumnReader.Fixes.preF63
          (ColumnReader.getColumn (chunkOf Fixes.all exLibs false .mmap F63.file F63.col)) 3 true false).1 3 true false).1 = true) ∧
    -- after it
    ((ColumnReader.readBatch ColumnReader.Fixes.all
        (ColumnReader.getColumn (chunkOf Fixes.all exLibs false .mmap F63.file F63.col)) 4 true false).2.count = 4 ∧
     (ColumnReader.readBatch ColumnReader.Fixes.all
        (ColumnReader.readBatch ColumnReader.Fixes.all
          (ColumnReader.getColumn (chunkOf Fixes.all exLibs false .mmap F63.file F63.col)) 3 true false).1 3 true false).2.count = 1 ∧
     ∀ (mode : Mode) (verify : Bool) (L : Libs),
       readAll Fixes.all L verify mode F63.file = .ok (readerTableOfSpec Ex2.table)) := by
  refine ⟨by decide +kernel, by decide +kernel, by decide +kernel, by decide +kernel, by decide +kernel, ?_⟩
  intro mode verify L
  have hc : fileClaimed (decide (mode = .fread)) Ex2.table F63.layout = true :=
    fileClaimed_any_mode (by decide +kernel) mode
  exact C06_impl_reads_plain_class Ex2.table F63.layout (by decide +kernel) (by decide +kernel) mode hc verify L

/-- empty pages everywhere — at the head of the chunk (behind the dictionary page), two in a row in the middle
(one with a CRC), at the end — between an RLE_DICTIONARY page and a PLAIN page: inside the theorem, any libraries,
every mode -/
example (L : Libs) (mode : Mode) (verify : Bool) :
    readAll Fixes.all L verify mode (write Ex2.table F63.layoutMany) = .ok (readerTableOfSpec Ex2.table) :=
  C06_impl_reads_dictionary_class Ex2.table F63.layoutMany (by decide +kernel) (by decide +kernel) mode
    (fileClaimed_any_mode (by decide +kernel) mode) verify L

end Carquet.Properties.C06
