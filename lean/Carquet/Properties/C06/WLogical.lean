import Carquet.Properties.C06.SpecFileFull
import Carquet.Proofs.SpecFileLogical
/-
C06 — the REFERENCE WRITER states logical types: `Spec.File.write` emits, for every schema element whose
`Info.logicalType` is set, SchemaElement field 10 = the LogicalType union value that states the annotation
(`Spec.File.annotationTV`: one member, every REQUIRED field of DecimalType / TimeType / TimestampType /
IntType), and `C06_reference_selfconsistent` — unchanged in its statement — says the independent reader reads
the table back, schema annotations included (`Table` equality covers `Info.logicalType`).  This file gives the
instance with a DECIMAL(9, 0) and a TIMESTAMP column; nothing else is needed.  Statements only.
-/
namespace Carquet.Properties.C06
open Carquet.Spec Carquet.Spec.File Carquet.Spec.Thrift

/-- **The LogicalType union round-trips**: the union value that states an annotation (what the reference writer
puts into field 10) is complete per parquet.thrift, and the independent reader reads exactly that annotation
from it — for every annotation, any scale / precision / bit width. -/
theorem C06_logical_type_roundtrip (a : Schema.Annotation) :
    ∃ fs, annotationTV a = .struct fs ∧ logicalTypeOf fs = .ok (some a) ∧ logicalTypeComplete fs = true := by
  obtain ⟨fs, h1, h2⟩ := Carquet.Proofs.SpecFile.logicalTypeOf_TV a
  obtain ⟨fs', h1', h3⟩ := Carquet.Proofs.SpecFile.annotationTV_complete a
  rw [h1] at h1'
  cases h1'
  exact ⟨fs, h1, h2, h3⟩

/-- **A schema element round-trips with its annotation**, also with unknown fields merged in: the SchemaElement
value the reference writer emits for `e` (name, repetition, type, type length, children, converted type AND logical
type) is read back as `e`. -/
theorem C06_schema_element_roundtrip (e : Schema.Element) (extra : Fields)
    (h : extrasOk Spec.ParquetThrift.schemaElement extra = true) :
    (match schemaElementTV e extra with
     | .struct fs => schemaElementOf fs
     | _ => .error .footerNotThrift) = .ok e := by
  rw [Carquet.Proofs.SpecFile.schemaElementTV_eq_we]
  show schemaElementOf (withExtras (Carquet.Proofs.SpecFile.seFields e) extra) = _
  rw [Carquet.Proofs.SpecFile.schemaElementOf_we _ _ h, Carquet.Proofs.SpecFile.schemaElementOf_seFields]

namespace LgEx

/-- optional INT32 `price` DECIMAL(scale 0, precision 9), with a null; required INT64 `ts` TIMESTAMP(UTC, MICROS);
an optional group `g` annotated LIST around a repeated BYTE_ARRAY `tags` annotated STRING -/
def schema : Schema.Node :=
  .group ⟨"schema", none, none, 0, none, none⟩
    [.leaf ⟨"price", some .optional, some 1, 0, none, some (.decimal 0 9)⟩,
     .leaf ⟨"ts", some .required, some 2, 0, none, some (.timestamp true .micros)⟩,
     .group ⟨"g", some .optional, none, 0, some 3, some .list⟩ [.leaf ⟨"tags", some .repeated, some 6, 0, none, some .string⟩]]

def table : Table :=
  ⟨schema, [⟨[[⟨0, 1, some [1, 0, 0, 0]⟩, ⟨0, 0, none⟩], [⟨0, 0, some [1, 0, 0, 0, 0, 0, 0, 0]⟩, ⟨0, 0, some [2, 0, 0, 0, 0, 0, 0, 0]⟩],
             [⟨0, 2, some [0x61]⟩, ⟨1, 2, some []⟩, ⟨0, 0, none⟩]]⟩]⟩

def layout : Layout :=
  { rowGroups := [[{ pages := [{ count := 2, defRuns := [.rle 1 1, .rle 1 0], stats := { nullCount := true, minMaxValue := true } }] },
                   { pages := [{ count := 2, crc := true }] },
                   { pages := [{ count := 3, repRuns := [.rle 1 0, .rle 1 1, .rle 1 0], defRuns := [.rle 2 2, .rle 1 0] }] }]],
    form := { fieldForm := 2, listForm := 1 }, createdBy := some [0x4c], schemaExtra := [(25, .i16 7)] }

end LgEx

/-- every hypothesis of `C06_reference_selfconsistent` holds of the instance (evaluated by the kernel) -/
theorem C06_logical_instance_hyp : selfConsistencyHyp LgEx.table LgEx.layout = true := by decide +kernel

/-- the theorem applied: the independent reader reads the reference-written file back — the table, with the
DECIMAL, TIMESTAMP, LIST and STRING annotations (and the converted type LIST of the group) in its schema -/
example : Spec.File.read (write LgEx.table LgEx.layout) (oracle := writeOracle LgEx.table LgEx.layout) = .ok LgEx.table :=
  C06_reference_selfconsistent_checked LgEx.table LgEx.layout C06_logical_instance_hyp

/-- the annotations of the columns, in column order -/
example : (Schema.leafInfos LgEx.table.schema).map (·.logicalType) =
    [some (.decimal 0 9), some (.timestamp true .micros), some .string] := by decide

/-- field 10 of the SchemaElement the reference writer emits for `price`: member 5 with scale and precision -/
example : field? (match schemaElementTV ⟨⟨"price", some .optional, some 1, 0, none, some (.decimal 0 9)⟩, 0⟩ [] with
                  | .struct fs => fs | _ => []) 10 = some (.struct [(5, .struct [(1, .i32 0), (2, .i32 9)])]) := by rfl

/-- `C06_schema_element_roundtrip` on the annotated group element of the instance, with its unknown field -/
example : (match schemaElementTV ⟨⟨"g", some .optional, none, 0, some 3, some .list⟩, 1⟩ [(25, .i16 7)] with
           | .struct fs => schemaElementOf fs
           | _ => .error .footerNotThrift) = .ok ⟨⟨"g", some .optional, none, 0, some 3, some .list⟩, 1⟩ :=
  C06_schema_element_roundtrip _ _ (by decide)

end Carquet.Properties.C06
