import Carquet.Spec.File
import Carquet.Spec.File.Write
import Carquet.Proofs.SpecFileWholeFull
import Carquet.Proofs.SpecFileOracle
/-
C06 (oracle part), full strength — the reference writer `Spec.File.write` and the independent reader
`Spec.File.read` are coherent on EVERY admissible layout:

    theorem C06_reference_selfconsistent (t : Table) (l : Layout) (file : Bytes) (oracle : Oracle)
        (hw : writeFull t l = some (file, oracle)) (hadm : layoutAdm l = true)
        (hwf : ∀ v, footerTV t l = some v → v.wf = true ∧ footerUsizeOk v = true)
        (hlen : file.length < 2 ^ 31) (hsmall : ∀ g ∈ t.rowGroups, ∀ es ∈ g.chunks, es.length < 2 ^ 31) :
        Spec.File.read file (oracle := oracle) = .ok t

`layoutAdm` (Spec/File/Admissible.lean, a `Bool`) says the layout stays inside what the independent
reader decodes and that unknown fields are unknown: data page v1; no deliberate damage; value encoding
PLAIN or dictionary indices under tag 2 / 8; an LZ4 plan under tag 5 or 7; a GZIP plan's FNAME without
zero byte (it is zero-terminated); the codec tag written is the plans' codec; a dictionary page in PLAIN
(tag 0 or 2) with fewer than 2^31 entries; every `…Extra` field list carries only ids outside the
struct's table of parquet.thrift (the page-level ones are well-formed Thrift values; the footer-level
ones are covered by the footer hypothesis).  FREE: everything else — the table (any schema tree, all
eight physical types, any nesting), row groups, page split, run plans of level AND index streams, index
width ≤ 32 (the writer refuses more), dictionary order / duplicates / unused entries, dictionary offset
present or absent, `is_sorted`, PLAIN pages before or after dictionary-encoded pages, compression plan
per page (UNCOMPRESSED / SNAPPY any op list / LZ4, LZ4_RAW any sequence list / GZIP stored blocks / ZSTD
raw and RLE blocks), CRC per page, page statistics in any selection, chunk statistics, header form of the
footer and of every page header, unknown fields of any wire type in footer, schema elements, row
groups, column chunks, column metadata, page headers, data / dictionary page headers and statistics,
gaps between chunks, version, created_by.

Size hypotheses (explicit, decidable): the footer value (`footerTV`) is a well-formed Thrift value and
announces `total_uncompressed_size < 2^31` for every chunk (page headers carry sizes as i32); the file
is below 2 GiB; no chunk has 2^31 entries.  All hypotheses together are the `Bool`
`selfConsistencyHyp t l` (`C06_reference_selfconsistent_checked`), which the generator evaluates for
every file it emits.

The oracle: `oracleLookup` takes the first pair found under a stored body, so the table must be a
function on its keys (`oracleCoherent`).  That is PROVED of the table the writer emits
(`C06_writer_oracle_coherent`: stored-block GZIP members and raw / RLE-block ZSTD frames are decodable,
Proofs/SpecFileGzip.lean, SpecFileZstd.lean); `C06_reference_selfconsistent_oracle` is the variant for a
foreign table in which every stored body is found with its contents (one filled by zlib / libzstd).

The classes of the task (dictionary; compressed bodies; unknown fields; chunk statistics) are all
instances of this one theorem; their stage lemmas are stated separately below.  The PLAIN-class theorem
`C06_reference_selfconsistent_partial` (Properties/C06/SpecFile.lean) is kept.
-/
namespace Carquet.Properties.C06
open Carquet.Spec Carquet.Spec.File Carquet.Spec.Thrift Carquet.Proofs.SpecFile

/-- value section in both claimed encodings: PLAIN, or one width byte (≤ 32) and an RLE-hybrid index
stream in any run plan over a dictionary that may hold duplicates and unused entries -/
theorem C06_values_roundtrip (leaf : LeafInfo) (dict : Option (List Bytes)) (enc : ValueEnc) (vals : List Bytes)
    (valB : Bytes) (hv : valueBytes leaf dict enc vals = some valB) (hok : valuesOk enc = true)
    (hvalid : ∀ v ∈ vals, validValue leaf v = true) :
    readValues leaf dict (valueEncTag enc) vals.length valB = .ok vals :=
  readValues_written leaf dict enc vals valB hv hok hvalid

example : valueBytes ⟨0, 0, .int32, 0, ["a"]⟩ (some [[9, 0, 0, 0], [7, 0, 0, 0], [7, 0, 0, 0], [1, 1, 1, 1]])
    (.dict 8 17 [.rle 2 1, .packed 1 [0, 0, 0, 0, 0, 0, 0] 0]) [[7, 0, 0, 0], [7, 0, 0, 0], [9, 0, 0, 0]] =
    some [17, 0x84, 0x00, 1, 0, 0, 0x03, 0, 0, 0, 0, 0, 0, 0, 0, 0, 0, 0, 0, 0, 0, 0, 0, 0] := by decide +kernel

/-- compressed bodies: what `compressWith` stores under any plan, `decompress` gives back under the
plan's codec tag (SNAPPY, LZ4 / LZ4_RAW: Spec encoders and decoders; GZIP / ZSTD: the oracle pair) -/
theorem C06_compressed_body_roundtrip (o : Oracle) (plan : CompPlan) (body comp : Bytes)
    (hc : compressWith plan body = some comp) (hp : planOk plan = true)
    (ho : ∀ e ∈ oracleEntry plan comp body, oracleLookup o e.1 = some e.2) :
    decompress o plan.codec comp body.length = .ok body :=
  decompress_compressWith o plan body comp hc hp ho

example : compressWith (.snappy [.literal [7, 0, 0, 0] .inTag, .copy 4 4 .c1, .literal [5] (.ext 2)]) [7, 0, 0, 0, 7, 0, 0, 0, 5] =
    some [9, 12, 7, 0, 0, 0, 0x01, 4, 0xF4, 0, 0, 5] := by decide +kernel
example : compressWith (.lz4 7 [⟨[1, 2], 2, 6⟩] [9, 9, 9, 9, 9]) [1, 2, 1, 2, 1, 2, 1, 2, 9, 9, 9, 9, 9] =
    some [0x22, 1, 2, 2, 0, 0x50, 9, 9, 9, 9, 9] := by decide +kernel

/-- unknown Thrift fields threaded through every structure the reader extracts: with ids outside the
struct's table merged in anywhere, each extraction function returns what it returns without them -/
theorem C06_unknown_fields_threaded (known extra : Fields) :
    (extrasOk ParquetThrift.fileMetaData extra = true → fileMetaOf (withExtras known extra) = fileMetaOf known) ∧
    (extrasOk ParquetThrift.schemaElement extra = true → schemaElementOf (withExtras known extra) = schemaElementOf known) ∧
    (extrasOk ParquetThrift.rowGroup extra = true → rowGroupOf (withExtras known extra) = rowGroupOf known) ∧
    (extrasOk ParquetThrift.columnChunk extra = true → columnChunkOf (withExtras known extra) = columnChunkOf known) ∧
    (extrasOk ParquetThrift.columnMetaData extra = true → columnMetaOf (withExtras known extra) = columnMetaOf known) ∧
    (extrasOk ParquetThrift.pageHeader extra = true → pageHdrOf (withExtras known extra) = pageHdrOf known) ∧
    (extrasOk ParquetThrift.dataPageHeader extra = true → dataHdrOf (withExtras known extra) = dataHdrOf known) ∧
    (extrasOk ParquetThrift.dictionaryPageHeader extra = true → dictHdrOf (withExtras known extra) = dictHdrOf known) ∧
    (extrasOk ParquetThrift.statistics extra = true → statsOf (withExtras known extra) = statsOf known) :=
  ⟨fileMetaOf_we known extra, schemaElementOf_we known extra, rowGroupOf_we known extra, columnChunkOf_we known extra,
   columnMetaOf_we known extra, pageHdrOf_we known extra, dataHdrOf_we known extra, dictHdrOf_we known extra,
   statsOf_we known extra⟩

example : extrasOk ParquetThrift.columnMetaData [(-2, .bool true), (20, .list .bool [.bool false]), (32767, .map [])] = true := by
  decide

/-- page chaining over admissible pages (either value encoding, any compression plan of the chunk's
codec, unknown fields, CRC, statistics) -/
theorem C06_page_chaining_full (cfg : Config) (codec : Nat) (leaf : LeafInfo) (dict : Option (List Bytes))
    (encodings : List Int) (hdv : ∀ d, dict = some d → ∀ v ∈ d, v.length < 2 ^ 31)
    (pls : List PageLayout) (es : List Entry) (w : Written) (fuel : Nat)
    (henc : ∀ pl ∈ pls, encodings.contains (valueEncTag pl.values) = true)
    (hpl : ∀ pl ∈ pls, pageAdm pl = true ∧ pl.comp.codec = codec) (hw : writeDataPages leaf dict pls es = some w)
    (hwf : ∀ e ∈ es, wellFormedEntry leaf e = true) (hlen : w.bytes.length < 2 ^ 31) (hus : w.usize < 2 ^ 31)
    (hes : es.length < 2 ^ 31) (ho : ∀ e ∈ w.oracle, oracleLookup cfg.oracle e.1 = some e.2) (hf : pls.length < fuel) :
    readDataPages cfg codec leaf encodings dict fuel w.bytes = .ok es :=
  readDataPages_written_gen cfg codec leaf dict encodings hdv pls es w fuel henc
    (fun pl h => ⟨pageAdm_iff (hpl pl h).1, (hpl pl h).2⟩) hw hwf hlen hus hes ho hf

/-- one column chunk that starts with a dictionary page (`dictionary_page_offset` present or absent),
under any chunk metadata that is true of it -/
theorem C06_chunk_roundtrip_dictionary (cfg : Config) (leaf : LeafInfo) (dl : DictLayout) (pls : List PageLayout)
    (es : List Entry) (dp w : Written) (m : ColumnMeta) (start : Nat)
    (hd : dictAdm dl = true) (hdc : dl.comp.codec = m.codec) (hdw : writeDictPage leaf dl = some dp)
    (hvalid : ∀ v ∈ dl.values, validValue leaf v = true)
    (hpl : ∀ pl ∈ pls, pageAdm pl = true ∧ pl.comp.codec = m.codec)
    (hw : writeDataPages leaf (some dl.values) pls es = some w)
    (hwf : wellFormedChunk leaf es = true) (hlen : dp.bytes.length + w.bytes.length < 2 ^ 31)
    (hus : dp.usize + w.usize < 2 ^ 31) (hes : es.length < 2 ^ 31)
    (hlegal : m.encodings.all legalEncoding = true)
    (henc : ∀ pl ∈ pls, m.encodings.contains (valueEncTag pl.values) = true)
    (hnum : m.numValues = es.length)
    (hoff : m.dictionaryPageOffset.isSome = true → m.dataPageOffset = start + dp.bytes.length)
    (ho : ∀ e ∈ dp.oracle ++ w.oracle, oracleLookup cfg.oracle e.1 = some e.2) :
    readChunk cfg leaf m start (dp.bytes ++ w.bytes) = .ok es :=
  readChunk_written_dict cfg leaf dl pls es dp w m start (dictAdm_iff hd) hdc hdw hvalid
    (fun pl h => ⟨pageAdm_iff (hpl pl h).1, (hpl pl h).2⟩) hw hwf hlen hus hes hlegal henc hnum hoff ho

/-- **whole file, every admissible layout**: what the reference writer writes, the independent
reader — given the oracle table the writer emitted for its GZIP / ZSTD page bodies — accepts and reads
back as exactly the table written.  See the header for `layoutAdm` and the size hypotheses. -/
theorem C06_reference_selfconsistent (t : Table) (l : Layout) (file : Bytes) (oracle : Oracle)
    (hw : writeFull t l = some (file, oracle)) (hadm : layoutAdm l = true)
    (hwf : ∀ v, footerTV t l = some v → v.wf = true ∧ footerUsizeOk v = true)
    (hlen : file.length < 2 ^ 31)
    (hsmall : ∀ g ∈ t.rowGroups, ∀ es ∈ g.chunks, es.length < 2 ^ 31) :
    Spec.File.read file (oracle := oracle) = .ok t :=
  read_write_full' t l file oracle hadm hw hwf hlen hsmall

/-- the same for a FOREIGN oracle table `o` (e.g. one filled by zlib / libzstd): it suffices that every
GZIP / ZSTD body the writer stored is found in `o` with its contents -/
theorem C06_reference_selfconsistent_oracle (t : Table) (l : Layout) (file : Bytes) (oracle o : Oracle)
    (hw : writeFull t l = some (file, oracle)) (hadm : layoutAdm l = true)
    (hwf : ∀ v, footerTV t l = some v → v.wf = true ∧ footerUsizeOk v = true)
    (hlen : file.length < 2 ^ 31)
    (hsmall : ∀ g ∈ t.rowGroups, ∀ es ∈ g.chunks, es.length < 2 ^ 31)
    (ho : ∀ e ∈ oracle, oracleLookup o e.1 = some e.2) :
    Spec.File.read file (oracle := o) = .ok t :=
  read_write_full t l file oracle hadm hw hwf hlen hsmall o ho

/-- the table of GZIP / ZSTD bodies the reference writer emits for an admissible layout is a function on
its keys (equal containers hold equal contents: both container formats are decodable) -/
theorem C06_writer_oracle_coherent (t : Table) (l : Layout) (file : Bytes) (oracle : Oracle)
    (hw : writeFull t l = some (file, oracle)) (hadm : layoutAdm l = true) : oracleCoherent oracle = true :=
  writeFull_oracle_coherent t l file oracle hadm hw

example : gzipStored 2 (some [0x61]) [1, 2, 3] ≠ gzipStored 3 none [1, 2, 3] := by decide +kernel

/-- the same in terms of `write` / `writeOracle` / `Admissible` (DESIGN §3 C06) -/
theorem C06_reference_selfconsistent_write (t : Table) (l : Layout) (ha : Admissible t l) (hadm : layoutAdm l = true)
    (hwf : ∀ v, footerTV t l = some v → v.wf = true ∧ footerUsizeOk v = true)
    (hlen : (write t l).length < 2 ^ 31)
    (hsmall : ∀ g ∈ t.rowGroups, ∀ es ∈ g.chunks, es.length < 2 ^ 31) :
    Spec.File.read (write t l) (oracle := writeOracle t l) = .ok t := by
  have hw : writeFull t l = some (write t l, writeOracle t l) := by
    unfold Admissible at ha
    unfold write writeOracle
    cases h : writeFull t l with
    | none => simp [h] at ha
    | some p => rfl
  exact C06_reference_selfconsistent t l _ _ hw hadm hwf hlen hsmall

/-- **one decidable hypothesis**: `selfConsistencyHyp t l` (Spec/File/Admissible.lean) is the
conjunction of all hypotheses above as a `Bool`; the generator evaluates it for every file it emits
(`hyp=` in the `refread` lines: 1 for every supported file, 0 for every unsupported / damaged one) -/
theorem C06_reference_selfconsistent_checked (t : Table) (l : Layout) (h : selfConsistencyHyp t l = true) :
    Spec.File.read (write t l) (oracle := writeOracle t l) = .ok t := by
  unfold selfConsistencyHyp at h
  simp only [Bool.and_eq_true, decide_eq_true_eq, List.all_eq_true] at h
  obtain ⟨⟨⟨⟨h1, h2⟩, h3⟩, h4⟩, h5⟩ := h
  refine C06_reference_selfconsistent_write t l h1 h2 ?_ h4 h5
  intro v hv
  rw [hv] at h3
  simpa using h3

/-- an admissible layout carries no deliberate damage -/
theorem C06_admissible_sound (l : Layout) (hadm : layoutAdm l = true) : l.sound = true := by
  have h := layoutAdm_iff hadm
  unfold Layout.sound
  rw [List.all_eq_true]
  intro g hg
  rw [List.all_eq_true]
  intro c hc
  have hca := h.chunks g hg c hc
  simp only [Bool.and_eq_true, List.all_eq_true]
  refine ⟨fun p hp => by simp [(hca.pages p hp).damage], ?_⟩
  cases hd : c.dict with
  | none => rfl
  | some d => simp [(hca.dict d hd).damage]

/-! ### non-vacuity: one file with every class at once

schema: optional group g ∋ repeated INT32 xs (max def 2, max rep 1); required BYTE_ARRAY k.
row group 1: xs — SNAPPY (literal and copy ops), dictionary page (PLAIN_DICTIONARY tag 2, offset present,
  is_sorted, CRC, duplicate and unused entries, unknown fields), an RLE_DICTIONARY page at width 3 in a mixed run
  plan and a PLAIN fallback page, chunk statistics, unknown fields in chunk and column metadata;
  k — GZIP (stored blocks of 7 bytes, FNAME), dictionary offset ABSENT, PLAIN_DICTIONARY page at width 17, gap.
row group 2: xs — LZ4_RAW, a PLAIN page BEFORE the dictionary-encoded page; k — ZSTD (raw + RLE blocks), PLAIN.
footer: mixed-form headers, unknown fields in footer, schema elements and row groups. -/

namespace Ex

def leafXs : LeafInfo := ⟨2, 1, .int32, 0, ["g", "xs"]⟩
def leafK : LeafInfo := ⟨0, 0, .byteArray, 0, ["k"]⟩

def schema : Schema.Node :=
  .group ⟨"schema", none, none, 0, none, none⟩
    [.group ⟨"g", some .optional, none, 0, none, none⟩ [.leaf ⟨"xs", some .repeated, some 1, 0, none, none⟩],
     .leaf ⟨"k", some .required, some 6, 0, none, none⟩]

def xs1 : List Entry :=
  [⟨0, 2, some [1, 0, 0, 0]⟩, ⟨1, 2, some [2, 0, 0, 0]⟩, ⟨0, 0, none⟩, ⟨0, 1, none⟩, ⟨0, 2, some [0xff, 0xff, 0xff, 0x7f]⟩]
def k1 : List Entry := [⟨0, 0, some [0x61]⟩, ⟨0, 0, some []⟩, ⟨0, 0, some [0x62, 0x63]⟩, ⟨0, 0, some [0x61]⟩]
def xs2 : List Entry := [⟨0, 2, some [2, 0, 0, 0]⟩, ⟨0, 1, none⟩, ⟨0, 2, some [2, 0, 0, 0]⟩, ⟨1, 2, some [1, 0, 0, 0]⟩]
def k2 : List Entry := [⟨0, 0, some [0x7a, 0x7a, 0x7a, 0x7a, 0x7a, 0x7a]⟩, ⟨0, 0, some [0x61]⟩, ⟨0, 0, some []⟩]

def table : Table := ⟨schema, [⟨[xs1, k1]⟩, ⟨[xs2, k2]⟩]⟩

/-- the uncompressed body of a page (what the compression plan has to reproduce) -/
def bodyOf (leaf : LeafInfo) (dict : Option (List Bytes)) (pl : PageLayout) (es : List Entry) : Bytes :=
  v1Body leaf .v1 es ((levelBytes leaf.maxRep pl.repRuns (es.map (·.rep))).getD [])
    ((levelBytes leaf.maxDef pl.defRuns (es.map (·.dl))).getD []) ((valueBytes leaf dict pl.values (es.filterMap (·.val))).getD [])

def dictXs : List Bytes := [[0xff, 0xff, 0xff, 0x7f], [2, 0, 0, 0], [1, 0, 0, 0], [2, 0, 0, 0], [9, 9, 9, 9]]
def dictK : List Bytes := [[0x62, 0x63], [], [0x61]]

def unk : Fields := [(-2, .bool true), (20, .list .bool [.bool false, .bool true]), (1000, .struct [(1, .i64 (-5)), (300, .map [])])]

-- row group 1, xs: SNAPPY
def p11 : PageLayout :=
  { count := 3, repRuns := [.packed 1 [0, 0, 0, 0, 0] 0], defRuns := [.rle 2 0, .emptyRle 3 0, .rle 1 1],
    values := .dict 8 3 [.emptyRle 5 1, .packed 1 [0, 0, 0, 0, 0, 0] 0],
    form := { fieldForm := 1, listForm := 1 }, crc := true, stats := { nullCount := true, minMaxOld := true },
    hdrExtra := unk, memberExtra := [(33, .uuid [0, 1, 2, 3, 4, 5, 6, 7, 8, 9, 10, 11, 12, 13, 14, 15])],
    statsExtra := [(100, .double 7)] }
def p12 : PageLayout :=
  { count := 2, repRuns := [.rle 2 0], defRuns := [.rle 1 0, .rle 1 0], stats := { minMaxValue := true } }
def c11 : ChunkLayout :=
  { codec := 1,
    dict := some { values := dictXs, encoding := 2, sorted := some false, crc := true,
                   comp := .snappy [.literal [0xff, 0xff, 0xff, 0x7f, 2, 0, 0, 0, 1, 0, 0, 0] .inTag, .copy 8 4 .c1,
                                    .literal [9] (.ext 2), .copy 1 3 .c2],
                   hdrExtra := [(21, .i8 (-3))], memberExtra := unk },
    pages := [{ p11 with comp := .snappy [.literal (bodyOf leafXs (some dictXs) p11 (xs1.take 3)) (.ext 1)] },
              { p12 with comp := .snappy [.literal (bodyOf leafXs (some dictXs) p12 (xs1.drop 3)) .inTag] }],
    chunkStats := true, metaExtra := unk, chunkExtra := [(40, .binary [1, 2, 3])] }

-- row group 1, k: GZIP, dictionary offset absent
def p21 : PageLayout :=
  { count := 4, values := .dict 2 17 [.rle 1 0, .rle 1 2, .rle 1 0, .rle 1 0], comp := .gzip 7 (some [0x61, 0x2e, 0x62]),
    crc := true, stats := { nullCount := true, minMaxValue := true, minMaxOld := true } }
def c12 : ChunkLayout :=
  { codec := 2, dict := some { values := dictK, offsetPresent := false, comp := .gzip 65535 none },
    pages := [p21], gapBefore := [0xAA, 0xBB] }

-- row group 2, xs: LZ4_RAW, PLAIN page before the dictionary-encoded one
def p31 : PageLayout := { count := 1, repRuns := [.rle 1 0], defRuns := [.rle 1 0] }
def p32 : PageLayout :=
  { count := 3, repRuns := [.rle 2 0, .rle 1 0], defRuns := [.packed 1 [0, 0, 0, 0, 0] 2],
    values := .dict 2 2 [.rle 1 0, .rle 1 0], stats := { nullCount := true } }
def c21 : ChunkLayout :=
  { codec := 7, dict := some { values := [[1, 0, 0, 0], [2, 0, 0, 0]], comp := .lz4 7 [] [1, 0, 0, 0, 2, 0, 0, 0] },
    pages := [{ p31 with comp := .lz4 7 [] (bodyOf leafXs (some [[1, 0, 0, 0], [2, 0, 0, 0]]) p31 (xs2.take 1)) },
              { p32 with comp := .lz4 7 [] (bodyOf leafXs (some [[1, 0, 0, 0], [2, 0, 0, 0]]) p32 (xs2.drop 1)) }],
    chunkStats := true }

-- row group 2, k: ZSTD raw and RLE blocks
def c22 : ChunkLayout :=
  { codec := 6, pages := [{ count := 3, comp := .zstd 0 [.raw 4, .rle 6], crc := true, stats := { minMaxValue := true } }] }

def layout : Layout :=
  { rowGroups := [[c11, c12], [c21, c22]], form := { fieldForm := 2, listForm := 1, boolAlt := true },
    createdBy := some [0x4c], version := 2,
    footerExtra := unk, schemaExtra := [(25, .i16 7)], rowGroupExtra := [(32767, .set .i64 [.i64 1, .i64 2])] }

end Ex

/-- every decidable hypothesis of the theorem is evaluated by the kernel on this instance; the
conclusion then follows from the theorem (not from evaluating the reader) -/
example : Spec.File.read (write Ex.table Ex.layout) (oracle := writeOracle Ex.table Ex.layout) = .ok Ex.table := by
  refine C06_reference_selfconsistent_write Ex.table Ex.layout (by decide +kernel) (by decide +kernel) ?_ (by decide +kernel) ?_
  · intro v hv
    have h : (footerTV Ex.table Ex.layout).map (fun v => v.wf && footerUsizeOk v) = some true := by decide +kernel
    rw [hv] at h
    simpa using h
  · intro g hg es hes
    simp only [Ex.table, List.mem_cons, List.mem_nil_iff, or_false] at hg
    rcases hg with rfl | rfl <;>
      simp only [List.mem_cons, List.mem_nil_iff, or_false] at hes <;>
      rcases hes with rfl | rfl <;> decide

/-- the hypotheses of the stage theorems `C06_page_chaining_full` / `C06_chunk_roundtrip_dictionary` on the
first chunk of the instance (SNAPPY, dictionary page + dictionary-encoded page + PLAIN page) -/
example : (match Ex.c11.dict with | some d => dictAdm d | none => false) = true ∧ Ex.c11.pages.all pageAdm = true ∧
    Ex.c11.pages.all (fun p => p.comp.codec == 1) = true ∧
    (Ex.c11.dict.bind (writeDictPage Ex.leafXs)).isSome = true ∧
    (writeDataPages Ex.leafXs (some Ex.dictXs) Ex.c11.pages Ex.xs1).isSome = true ∧
    wellFormedChunk Ex.leafXs Ex.xs1 = true := by decide +kernel

/-- the same through the single decidable hypothesis -/
example : selfConsistencyHyp Ex.table Ex.layout = true := by decide +kernel

/-- the instance really exercises the classes: two GZIP and one ZSTD body went through the oracle -/
example : (writeOracle Ex.table Ex.layout).length = 3 := by decide +kernel

end Carquet.Properties.C06
