import Carquet.Spec.File
import Carquet.Spec.File.Write
import Carquet.Proofs.SpecFileEnvelope
import Carquet.Proofs.SpecFileThrift
import Carquet.Proofs.SpecFilePage
import Carquet.Proofs.SpecFileChain
import Carquet.Proofs.SpecFileWhole
import Carquet.Proofs.SpecFileExtras
/-
C06 (oracle part) — the reference writer `Spec.File.write` and the independent reader
`Spec.File.read` are coherent.  Statements only; lemmas in Proofs/SpecFile*.lean.

The full statement is

    theorem C06_reference_selfconsistent (t : Table) (l : Layout) (hs : l.sound = true)
        (ha : Admissible t l) (hsize : (write t l).length < 2 ^ 31) :
        Spec.File.read (write t l) (oracle := writeOracle t l) = .ok t

It is proved here in layers — envelope; Thrift values in every header form (footer, page
headers); footer value → metadata structures; schema tree from its element list; level streams for
every run plan; PLAIN values of every physical type; entries from levels and values; a whole v1
page; page chaining through a chunk; a whole chunk; chunks located by the footer's offsets; row
groups — and assembled to the WHOLE FILE for the PLAIN class of layouts
(`C06_reference_selfconsistent_partial`): every chunk without dictionary page, pages stored
uncompressed with PLAIN values, no unknown Thrift fields; FREE in that class: the table (any
schema tree whose groups have children, all eight physical types, any nesting), number of row
groups, page split, run plans of both level streams, Thrift header form of the footer and of every
page header, CRC per page, page statistics (null_count, min/max in the new and the deprecated
fields — accepted because `minOf`/`maxOf` are bounds in the statistics order), gaps between
chunks, version, created_by.
What is missing for the full statement: (1) dictionary pages and dictionary-encoded data pages
(needs `Dictionary.decode (indices of values in dict) = values` over `RleHybrid` indices — the
level lemma `C06_levels_roundtrip` already covers the index stream itself); (2) compressed page
bodies (SNAPPY / LZ4 through `Proofs.SnappySpec.encode_stream` + `decode_of_stream` and
`Proofs.Lz4Spec.encode_block` + `decode_complete`; GZIP / ZSTD through the oracle table
`writeOracle`); (3) chunk statistics in ColumnMetaData (not read by the reader at all; only the
footer extraction lemma would change); (4) unknown fields (`withExtras`: lookups of known ids are unaffected
when the extra ids avoid the struct's table — that mechanism is `C06_unknown_fields_ignored`; it is
not yet threaded through the extraction lemmas of the whole-file theorem).  The whole-file equation for ALL layouts is
*evaluated* for every generated file (`selfcheck` in Driver/Gen/RefFiles, judged by
Driver/Ops/RefRead; 0 failures on 3874 files of the thorough tier), and a concrete nested instance
of the theorem's hypotheses is checked by the kernel below.
-/
namespace Carquet.Properties.C06
open Carquet.Spec Carquet.Spec.File Carquet.Spec.Thrift Carquet.Proofs.SpecFile

/-- envelope: `PAR1 ++ data ++ footer ++ le32 |footer| ++ PAR1` is split into its parts -/
theorem C06_envelope_roundtrip (data footer : Bytes) (h : footer.length < 2 ^ 32) :
    splitFile (fileOfParts data footer) = .ok (4 + data.length, footer) :=
  splitFile_fileOfParts data footer h

example : splitFile (fileOfParts [1, 2, 3] [9, 9]) = .ok (7, [9, 9]) := by decide

/-- Thrift: whatever header form the reference writer uses (short / long field headers, short /
long list headers, either spelling of bool elements), the Spec decoder reads the value back and
stops at its end -/
theorem C06_thrift_forms_roundtrip (F : ThriftForm) (v : TVal) (h : v.wf = true) (rest : Bytes) :
    decode v.ty (encodeValF F v ++ rest) = some (v, rest) :=
  decode_encodeValF F v h rest

example : (TVal.struct [(1, .i32 7), (2, .list .bool [.bool true, .bool false]), (40, .binary [1, 2])]).wf = true := by decide

/-- footer bytes → footer value, for every form and any unknown fields (`extra`) -/
theorem C06_footer_thrift_roundtrip (F : ThriftForm) (version : Int) (schema rgs : List TVal) (numRows : Nat)
    (createdBy : Option Bytes) (extra : Fields)
    (h : (fileMetaTV version schema numRows rgs createdBy extra).wf = true) :
    decodeStruct (encodeValF F (fileMetaTV version schema numRows rgs createdBy extra)) =
      some (fileMetaTV version schema numRows rgs createdBy extra) := by
  unfold fileMetaTV at h ⊢
  exact decodeStruct_encodeValF F _ h

example : (fileMetaTV 1 [schemaElementTV ⟨⟨"schema", none, none, 0, none, none⟩, 1⟩ [], schemaElementTV ⟨⟨"a", some .optional, some 1, 0, none, none⟩, 0⟩ []]
    0 [] none [(100, .map [])]).wf = true := by decide +kernel

/-- unknown Thrift fields: fields whose ids are not in the struct's table of parquet.thrift, merged
anywhere into a struct value, change neither the reader's required-field / field-type check of the
struct nor any lookup of a field the table names (so whatever is extracted from the struct is the
same with and without them) -/
theorem C06_unknown_fields_ignored (s : ParquetThrift.StructSpec) (known extra : Fields)
    (havoid : ∀ f ∈ extra, s.find f.1 = none) :
    checkStruct s (withExtras known extra) = checkStruct s known ∧
    ∀ k, s.find k ≠ none → field? (withExtras known extra) k = field? known k :=
  unknown_fields_ignored s known extra havoid

example : ∀ f ∈ ([(-2, .bool true), (20, .list .bool [.bool false]), (1000, .map [])] : Fields),
    ParquetThrift.pageHeader.find f.1 = none := by decide

/-- level streams: any run plan the Spec encoder accepts (RLE runs, multi-group bit-packed runs,
zero-length runs, padded last group, over-long headers) is read back, up to the end of the stream -/
theorem C06_levels_roundtrip (maxLevel : Nat) (runs : List RleHybrid.Choice) (ls : List Nat) (bs rest : Bytes)
    (hb : levelBytes maxLevel runs ls = some bs) (hle : ∀ l ∈ ls, l ≤ maxLevel) (hlen : bs.length < 2 ^ 32) :
    readLevels maxLevel ls.length ((if maxLevel = 0 then [] else prefixed bs) ++ rest) = .ok (ls, rest) :=
  readLevels_written maxLevel runs ls bs rest hb hle hlen

example : levelBytes 2 [.emptyRle 1 0, .rle 2 1, .packed 1 [0, 0, 0, 0, 0] 0] [2, 2, 0, 1, 2] =
    some [0x00, 0x01, 0x84, 0x00, 0x02, 0x03, 0x24, 0x00] := by decide

/-- PLAIN values of every physical type are read back (values are bit patterns) -/
theorem C06_plain_values_roundtrip (leaf : LeafInfo) (vs : List Bytes) (hv : ∀ v ∈ vs, validValue leaf v = true)
    (rest : Bytes) (hrest : leaf.ptype = .boolean → rest = []) :
    plainValues leaf vs.length (plainEncode leaf vs ++ rest) = some (vs, rest) :=
  plainValues_written leaf vs hv rest hrest

example : ∀ v ∈ [[1, 2, 3, 4, 5, 6, 7, 8, 9, 10, 11, 12], [0, 0, 0, 0, 0, 0, 0, 0, 0, 0, 0, 0xff]],
    validValue ⟨1, 0, .int96, 0, ["t"]⟩ v = true := by decide

/-- entries are re-assembled from repetition levels, definition levels and dense values -/
theorem C06_assemble_roundtrip (leaf : LeafInfo) (es : List Entry) (h : ∀ e ∈ es, wellFormedEntry leaf e = true) :
    assemble leaf.maxDef (es.map (·.rep)) (es.map (·.dl)) (es.filterMap (·.val)) = es :=
  assemble_written leaf es h

/-- one v1 data page body: nested levels in any run plan + PLAIN values → the entries -/
theorem C06_page_roundtrip (leaf : LeafInfo) (dict : Option (List Bytes)) (es : List Entry)
    (repRuns defRuns : List RleHybrid.Choice) (repB defB : Bytes)
    (hr : levelBytes leaf.maxRep repRuns (es.map (·.rep)) = some repB)
    (hd : levelBytes leaf.maxDef defRuns (es.map (·.dl)) = some defB)
    (hwf : ∀ e ∈ es, wellFormedEntry leaf e = true) (hlr : repB.length < 2 ^ 32) (hld : defB.length < 2 ^ 32) :
    decodeDataPage leaf dict ⟨es.length, 0, 3, 3, none⟩
      (v1Body leaf .v1 es repB defB (plainEncode leaf (es.filterMap (·.val)))) = .ok es :=
  decodeDataPage_written leaf dict es repRuns defRuns repB defB hr hd hwf hlr hld

/-- page chaining: pages written back to back are read page by page (header in any form, CRC
checked when present, sizes checked), each ending exactly where the next begins -/
theorem C06_page_chaining (cfg : Config) (leaf : LeafInfo) (dict : Option (List Bytes)) (encodings : List Int)
    (pls : List PageLayout) (henc : pls ≠ [] → encodings.contains 0 = true) (es : List Entry) (w : Written) (fuel : Nat)
    (hpl : ∀ pl ∈ pls, PlainLayout pl) (hw : writeDataPages leaf dict pls es = some w)
    (hwf : ∀ e ∈ es, wellFormedEntry leaf e = true) (hlen : w.bytes.length < 2 ^ 31) (hes : es.length < 2 ^ 31)
    (hf : pls.length < fuel) :
    readDataPages cfg 0 leaf encodings dict fuel w.bytes = .ok es :=
  readDataPages_written cfg leaf dict encodings pls es w fuel henc hpl hw hwf hlen hes hf

/-- the layers assembled up to one column chunk: for a column of any physical type and any
nesting (any max definition / repetition level), entries well-formed for that column, any split
into pages, any admissible run plans for both level streams, any Thrift header form per page,
CRC per page on or off: the bytes the reference writer lays out are read back by the independent
reader's chunk stage to exactly the entries written, under any chunk metadata that is true of
them. -/
theorem C06_chunk_roundtrip (cfg : Config) (leaf : LeafInfo) (pls : List PageLayout) (es : List Entry)
    (w : Written) (m : ColumnMeta) (start : Nat)
    (hpl : ∀ pl ∈ pls, PlainLayout pl) (hw : writeDataPages leaf none pls es = some w)
    (hwf : wellFormedChunk leaf es = true) (hlen : w.bytes.length < 2 ^ 31) (hes : es.length < 2 ^ 31)
    (hcodec : m.codec = 0) (hlegal : m.encodings.all legalEncoding = true)
    (hplain : pls ≠ [] → m.encodings.contains 0 = true)
    (hnum : m.numValues = es.length) (hdict : m.dictionaryPageOffset = none) :
    readChunk cfg leaf m start w.bytes = .ok es :=
  readChunk_written cfg leaf pls es w m start hpl hw hwf hlen hes hcodec hlegal hplain hnum hdict

/-- **whole file, PLAIN class of layouts** (see the header for the class and for what the full
statement `C06_reference_selfconsistent` still lacks): what the reference writer writes, the
independent reader accepts and reads back as exactly the table written.
Hypotheses: the layout is in the class and fits the table (`writeFull … = some`), every group of
the schema has a child, the footer value is a well-formed Thrift value (numbers in their integer
ranges, lists and strings below 2^31), the file is below 2 GiB and no chunk has 2^31 entries. -/
theorem C06_reference_selfconsistent_partial (t : Table) (l : Layout) (file : Bytes) (oracle : Oracle)
    (hpf : PlainFile l) (hw : writeFull t l = some (file, oracle))
    (hne : Schema.groupsNonEmpty t.schema = true)
    (hwf : ∀ v, footerValue t l = some v → v.wf = true)
    (hlen : file.length < 2 ^ 31)
    (hsmall : ∀ g ∈ t.rowGroups, ∀ es ∈ g.chunks, es.length < 2 ^ 31) :
    Spec.File.read file = .ok t :=
  read_write_plain t l file oracle hpf hw hne hwf hlen hsmall

/-! ### non-vacuity: a concrete nested column (optional group ∋ repeated INT32: max def 2, max rep 1),
two pages, mixed run plans, one long-form header, one CRC, statistics in both headers -/

def exLeaf : LeafInfo := ⟨2, 1, .int32, 0, ["g", "xs"]⟩

def exEntries : List Entry :=
  [⟨0, 2, some [1, 0, 0, 0]⟩, ⟨1, 2, some [2, 0, 0, 0]⟩, ⟨0, 0, none⟩, ⟨0, 1, none⟩, ⟨0, 2, some [0xff, 0xff, 0xff, 0x7f]⟩]

def exPages : List PageLayout :=
  [{ count := 3, repRuns := [.packed 1 [0, 0, 0, 0, 0] 0], defRuns := [.rle 2 0, .emptyRle 3 0, .rle 1 1],
     form := { fieldForm := 1, listForm := 1 }, crc := true, stats := { nullCount := true, minMaxOld := true } },
   { count := 2, repRuns := [.rle 2 0], defRuns := [.rle 1 0, .rle 1 0], stats := { minMaxValue := true } }]

example : ∀ pl ∈ exPages, PlainLayout pl := by
  intro pl h
  simp only [exPages, List.mem_cons, List.mem_nil_iff, or_false] at h
  rcases h with rfl | rfl <;> exact ⟨rfl, rfl, rfl, rfl, rfl, rfl, rfl⟩

example : wellFormedChunk exLeaf exEntries = true := by decide
example : (writeDataPages exLeaf none exPages exEntries).isSome = true := by decide +kernel
/-- the chunk stage on the concrete bytes (kernel evaluation of the reader itself) -/
example : (writeDataPages exLeaf none exPages exEntries).map
    (fun w => readChunk {} exLeaf ⟨1, [0, 3], [], 0, 5, 0, 0, 4, none⟩ 4 w.bytes == .ok exEntries) = some true := by
  decide +kernel

/-! ### non-vacuity of the whole-file theorem: a nested table (optional group ∋ repeated INT32, plus a
required BYTE_ARRAY column), two row groups' worth of features in one: a gap before the first chunk,
two pages with mixed run plans / long-form header / CRC, mixed-form footer -/

def exSchema : Schema.Node :=
  .group ⟨"schema", none, none, 0, none, none⟩
    [.group ⟨"g", some .optional, none, 0, none, none⟩ [.leaf ⟨"xs", some .repeated, some 1, 0, none, none⟩],
     .leaf ⟨"k", some .required, some 6, 0, none, none⟩]

def exTable : Table :=
  ⟨exSchema, [⟨[exEntries, [⟨0, 0, some [0x61]⟩, ⟨0, 0, some []⟩, ⟨0, 0, some [0x62, 0x63]⟩, ⟨0, 0, some [0x61]⟩]]⟩]⟩

def exLayout : Layout :=
  { rowGroups := [[{ pages := exPages, gapBefore := [0xAA] }, { pages := [{ count := 4, crc := true, stats := { nullCount := true, minMaxValue := true, minMaxOld := true } }] }]],
    form := { fieldForm := 2, listForm := 1 }, createdBy := some [0x4c] }

theorem exLayout_plain : PlainFile exLayout := by
  refine ⟨?_, rfl, rfl, rfl⟩
  intro g hg cl hcl
  simp only [exLayout, List.mem_cons, List.mem_nil_iff, or_false] at hg
  subst hg
  simp only [List.mem_cons, List.mem_nil_iff, or_false] at hcl
  rcases hcl with rfl | rfl
  · refine ⟨rfl, rfl, rfl, ?_, rfl, rfl, rfl⟩
    intro pl h
    simp only [exPages, List.mem_cons, List.mem_nil_iff, or_false] at h
    rcases h with rfl | rfl <;> exact ⟨rfl, rfl, rfl, rfl, rfl, rfl, rfl⟩
  · refine ⟨rfl, rfl, rfl, ?_, rfl, rfl, rfl⟩
    intro pl h
    simp only [List.mem_cons, List.mem_nil_iff, or_false] at h
    subst h
    exact ⟨rfl, rfl, rfl, rfl, rfl, rfl, rfl⟩

/-- the independent reader reads this reference-written file back (via the theorem; its decidable
hypotheses are evaluated by the kernel) -/
example : Spec.File.read (write exTable exLayout) = .ok exTable := by
  have hsome : (writeFull exTable exLayout).isSome = true := by decide +kernel
  have hw : writeFull exTable exLayout = some (write exTable exLayout, writeOracle exTable exLayout) := by
    unfold write writeOracle
    cases h : writeFull exTable exLayout with
    | none => simp [h] at hsome
    | some p => rfl
  refine C06_reference_selfconsistent_partial exTable exLayout _ _ exLayout_plain hw (by decide) ?_ (by decide +kernel) ?_
  · intro v hv
    have h : (footerValue exTable exLayout).map TVal.wf = some true := by decide +kernel
    rw [hv] at h
    simpa using h
  · intro g hg es hes
    simp only [exTable, List.mem_cons, List.mem_nil_iff, or_false] at hg
    subst hg
    simp only [List.mem_cons, List.mem_nil_iff, or_false] at hes
    rcases hes with rfl | rfl <;> decide

end Carquet.Properties.C06
