import Carquet.Properties.C13.Written
import Carquet.Proofs.ThriftRoundtripStructs
/-
C13 for the LOGICAL TYPES in the footers of written files: SchemaElement field 10 as
`write_schema_element` / `write_logical_type` emit it for the `carquet_logical_type_t` that
`build_file_metadata` copies from the column definition parses back, through
`parquet_parse_file_metadata` / `parse_logical_type`, to the same id and parameters.
`C13_written_footer_roundtrip` (Properties/C13/Written.lean) holds for columns with logical types —
`footerOk` asks that the parameters are what the C struct holds (`int32_t`, `int8_t`) —; this file states
the per-column content and gives the instance.  Statements only.
-/
namespace Carquet.Properties.C13
open Carquet.Impl Carquet.Impl.FileReal Carquet.Impl.ThriftParquet
open Carquet.Proofs.FileRealFooter

/-- **The logical type of every column round-trips through the written footer.**  Parsing the footer of a
written file returns, for column `j`, a schema element (index `1 + j`) whose `has_logical_type` /
`logical_type` are exactly what `build_file_metadata` set: the logical type the column was created with — same
id, same scale / precision, unit / UTC flag, width / sign — and nothing when the column was created with a NULL
pointer or with id UNKNOWN; the element states no converted type, scale or precision of its own (the writer never
sets them). -/
theorem C13_written_logical_type_roundtrip (f : Writer.FooterData) (h : footerOk f = true) (j : Nat) (c : Writer.Col)
    (hc : f.cols[j]? = some c) :
    ∃ m el, parseFileMetaData (footer f) = .ok m ∧ m.schema[1 + j]? = some el ∧
      el.logicalType = colLogical c ∧ el.convertedType = none ∧ el.scale = 0 ∧ el.precision = 0 ∧
      el.name = some (strBytes c.name) ∧ el.type = some (c.ptype.code : Int) := by
  refine ⟨_, schemaElementOfCol c, parse_written_footer f h, ?_, rfl, rfl, rfl, rfl, rfl, rfl⟩
  show (fileMetaData f).schema[1 + j]? = _
  simp only [fileMetaData]
  rw [Nat.add_comm, List.getElem?_cons_succ, List.getElem?_map, hc]
  rfl

/-- `colLogical`: a NULL pointer and id UNKNOWN give no logical type in the footer; anything else is kept as is -/
theorem C13_colLogical_cases (c : Writer.Col) :
    (c.logical = none → colLogical c = none) ∧ (c.logical = some .unknown → colLogical c = none) ∧
    (∀ lt, c.logical = some lt → lt ≠ .unknown → colLogical c = some lt) := by
  refine ⟨fun h => by simp [colLogical, h], fun h => by simp [colLogical, h], fun lt h hne => ?_⟩
  unfold colLogical
  rw [h]
  cases lt <;> first | rfl | exact absurd rfl hne

/-- **The bytes of field 10 are the canonical compact encoding of the union value that states the logical
type** (`Spec.Thrift.encode`, the protocol specification's encoder, applied to the value parquet.thrift assigns):
carquet's `write_logical_type` writes genuine Thrift for every logical type. -/
theorem C13_written_logical_type_is_compact (lt : LogicalType) :
    (writeLogicalType Thrift.Enc.init lt).out = Carquet.Spec.Thrift.encode (Carquet.Spec.ParquetThrift.logicalTypeTV lt) := by
  obtain ⟨a1, _, _⟩ := Carquet.Proofs.Thrift.writeLogicalType_ok lt Thrift.Enc.init rfl (by simp [Thrift.Enc.init, Thrift.maxNesting])
  simpa [Carquet.Spec.Thrift.encode, Thrift.Enc.init, Thrift.Enc.out] using a1

/-! ### non-vacuity: a footer with a DECIMAL(9, 0) column, a TIMESTAMP(UTC, MICROS) column and a column created
with a non-NULL pointer whose id is UNKNOWN -/

def lgFooter : Writer.FooterData :=
  ⟨[⟨"price", .int32, .optional, 0, some (.decimal 0 9)⟩, ⟨"ts", .int64, .required, 0, some (.timestamp true .micros)⟩,
    ⟨"u", .boolean, .required, 0, some .unknown⟩], "Carquet", 3,
   [⟨3, 120, 4, 120, 0, [⟨4, .int32, 1, 3, 40, 40, "price"⟩, ⟨44, .int64, 1, 3, 50, 50, "ts"⟩, ⟨94, .boolean, 1, 3, 30, 30, "u"⟩]⟩]⟩

theorem lgFooterOk : footerOk lgFooter = true := by decide +kernel

/-- `C13_written_footer_roundtrip` applied to it -/
example : parseFileMetaData (footer lgFooter) = .ok (fileMetaData lgFooter) :=
  C13_written_footer_roundtrip lgFooter lgFooterOk

/-- what the parsed footer says about the three columns -/
example : (fileMetaData lgFooter).schema.map (·.logicalType) =
    [none, some (.decimal 0 9), some (.timestamp true .micros), none] := by decide

/-- `C13_written_logical_type_roundtrip` applied to the DECIMAL and to the TIMESTAMP column -/
example : ∃ m el, parseFileMetaData (footer lgFooter) = .ok m ∧ m.schema[1 + 0]? = some el ∧
    el.logicalType = some (.decimal 0 9) ∧ el.convertedType = none ∧ el.scale = 0 ∧ el.precision = 0 ∧
    el.name = some (strBytes "price") ∧ el.type = some 1 :=
  C13_written_logical_type_roundtrip lgFooter lgFooterOk 0 _ rfl

example : ∃ m el, parseFileMetaData (footer lgFooter) = .ok m ∧ m.schema[1 + 1]? = some el ∧
    el.logicalType = some (.timestamp true .micros) ∧ el.convertedType = none ∧ el.scale = 0 ∧ el.precision = 0 ∧
    el.name = some (strBytes "ts") ∧ el.type = some 2 :=
  C13_written_logical_type_roundtrip lgFooter lgFooterOk 1 _ rfl

/-- the bytes `write_logical_type` emits for DECIMAL(9, 0) — scale 0 is written: `5c 15 00 15 12 00 00` — and for
TIMESTAMP(UTC, MICROS): `8c 11 1c 2c 00 00 00 00` -/
example : (writeLogicalType Thrift.Enc.init (.decimal 0 9)).out = [0x5c, 0x15, 0x00, 0x15, 0x12, 0x00, 0x00] := by decide +kernel
example : (writeLogicalType Thrift.Enc.init (.timestamp true .micros)).out = [0x8c, 0x11, 0x1c, 0x2c, 0x00, 0x00, 0x00, 0x00] := by
  decide +kernel

end Carquet.Properties.C13
