import Carquet.Proofs.CFun3.BufReader
import Carquet.Proofs.CFun.Thrift
import Carquet.Proofs.CFun3.ThriftDecC
/-
C13 — stage 3 of the C -> Lean function translator (translate/gen_cfun.py, notes/NOTES_cfun3.md): link theorems between the
definitions REGENERATED FROM THE C SOURCE on every check run (Gen/CFun.lean: functions that read and write a struct through
a pointer) and the hand-written Impl models the property theorems of C13 are about.  Only `C13_cfun_<function>` (value
side) and `C13_cfun_<function>_defined` (no undefined behaviour under the documented precondition), each followed by a
non-vacuity example.  The abstraction functions / invariants are executable (Impl/CFun3/*.lean) and are evaluated by the
driver on every self-check line (`modelLink3`).
-/

/-! ## BufReader -/
section CFun3BufReader
/-
C13 — stage-3 link theorems for the buffer read cursor the Thrift decoder sits on (`thrift_decoder_t.reader`):
`carquet_buffer_reader_init_data / _read_byte / _skip` of src/core/buffer.c as translated from the CURRENT C source
(`Carquet.Gen.CFun`), restated in the Thrift model's view of the cursor (`Impl.Thrift.Dec`: `rest` = the bytes from
`reader.pos` to `reader.size`, `pos` = `reader.pos`): `read_byte` is `Impl.Thrift.readByteRaw` (head of `rest`),
`skip n` is `Dec.advance n` exactly when `Dec.has n`.  The precondition is the cursor invariant `brInv` (pointer at the
start of the array, `size` its length, `pos ≤ size`), which `init_data` establishes and both functions preserve.
-/
namespace Carquet.Properties.C13
open Carquet Carquet.Impl Carquet.Impl.CFun3 Carquet.Proofs.CFun3.BufReader

/-- `carquet_buffer_reader_init_data(reader, data, size)` with `size` the length of the array (what
`thrift_decoder_init` does): the cursor of `Impl.Thrift.Dec.init data` — all of `data` is unread, position 0 -/
theorem C13_cfun_buffer_reader_init_data (s : Gen.CFun.carquet_buffer_reader_t) (data : List UInt8) (size : BitVec 64)
    (h : brInitPre data size = true) :
    brInv (Gen.CFun.carquet_buffer_reader_init_data s data size) data = true ∧
    data.drop (Gen.CFun.carquet_buffer_reader_init_data s data size).pos.toNat = (Impl.Thrift.Dec.init data).rest ∧
    (Gen.CFun.carquet_buffer_reader_init_data s data size).pos.toNat = (Impl.Thrift.Dec.init data).pos := by
  have hs : size.toNat = data.length := by simpa [brInitPre] using h
  refine ⟨?_, rfl, rfl⟩
  rw [brInv_iff]
  simp [Gen.CFun.carquet_buffer_reader_init_data, hs]

example : brInitPre [0x15, 0x02] 2#64 = true ∧
    Gen.CFun.carquet_buffer_reader_init_data ⟨3, 1#64, 1#64⟩ [0x15, 0x02] 2#64 = ⟨0, 2#64, 0#64⟩ ∧
    (Impl.Thrift.Dec.init [0x15, 0x02]).rest = [0x15, 0x02] ∧ (Impl.Thrift.Dec.init [0x15, 0x02]).pos = 0 := by decide

/-- `carquet_buffer_reader_read_byte(reader, &value)` on the unread bytes `rest = data[pos ..]`: status 0, the head of
`rest` in `*value` and `pos + 1` (the unread bytes are then the tail) when `rest` is not empty; status 15 with the cursor
and `*value` untouched when it is.  In terms of the Thrift model: for every decoder state `d` that sees this cursor
(`d.rest = rest`, `d.pos = pos`) and `*value` preset to 0 as `read_byte_raw` does, `*value` is the byte
`Impl.Thrift.readByteRaw d` returns, the status is 0 exactly when `d.has 1`, and the cursor afterwards is the one of
`(readByteRaw d).2`. -/
theorem C13_cfun_buffer_reader_read_byte (s : Gen.CFun.carquet_buffer_reader_t) (data : List UInt8) (v : BitVec 8)
    (h : brInv s data = true) :
    Gen.CFun.carquet_buffer_reader_read_byte s data v =
      (match data.drop s.pos.toNat with
       | [] => (15#32, s, v)
       | b :: _ => (0#32, { s with pos := s.pos + 1#64 }, b.toBitVec)) ∧
    brInv (Gen.CFun.carquet_buffer_reader_read_byte s data v).2.1 data = true ∧
    (∀ b r, data.drop s.pos.toNat = b :: r → data.drop (s.pos + 1#64).toNat = r) ∧
    (∀ d : Impl.Thrift.Dec, d.rest = data.drop s.pos.toNat → d.pos = s.pos.toNat →
      ((Gen.CFun.carquet_buffer_reader_read_byte s data 0#8).1 = 0#32 ↔ d.has 1 = true) ∧
      (Gen.CFun.carquet_buffer_reader_read_byte s data 0#8).2.2 = (Impl.Thrift.readByteRaw d).1.toBitVec ∧
      (Impl.Thrift.readByteRaw d).2.rest = data.drop (Gen.CFun.carquet_buffer_reader_read_byte s data 0#8).2.1.pos.toNat ∧
      (Impl.Thrift.readByteRaw d).2.pos = (Gen.CFun.carquet_buffer_reader_read_byte s data 0#8).2.1.pos.toNat) := by
  obtain ⟨h0, hs, hp⟩ := (brInv_iff s data).mp h
  have hsz : data.length < 2 ^ 64 := by rw [← hs]; exact s.size.isLt
  have key : ∀ v : BitVec 8, Gen.CFun.carquet_buffer_reader_read_byte s data v =
      if s.pos.toNat + 1 ≤ data.length then (0#32, { s with pos := s.pos + 1#64 }, CSem.rd8 data s.pos.toNat)
      else (15#32, s, v) := by
    intro v
    unfold Gen.CFun.carquet_buffer_reader_read_byte
    rw [has_c _ _ _ hp, hs, h0]
    by_cases hle : s.pos.toNat + 1 ≤ data.length <;> simp [hle]
  by_cases hle : s.pos.toNat + 1 ≤ data.length
  · obtain ⟨hi, ha⟩ := advance_inv s data 1#64 h hle
    have hc := Proofs.CFun2.drop_eq_cons data s.pos.toNat (by omega)
    have ha' : (s.pos + 1#64).toNat = s.pos.toNat + 1 := ha
    simp only [key, if_pos hle]
    refine ⟨?_, hi, ?_, ?_⟩
    · rw [hc]; rfl
    · intro b r hbr
      rw [hc] at hbr
      rw [ha']; exact (List.cons.inj hbr).2
    · intro d hd hdp
      rw [hc] at hd
      refine ⟨?_, ?_, ?_, ?_⟩
      · simp [Impl.Thrift.Dec.has, hd, Impl.Thrift.lengthGe]
      · simp only [Impl.Thrift.readByteRaw, hd]; rfl
      · simp only [Impl.Thrift.readByteRaw, hd, ha']
      · simp only [Impl.Thrift.readByteRaw, hd, ha', hdp]
  · have hn : data.drop s.pos.toNat = [] := Proofs.CFun2.drop_short data _ (by omega)
    simp only [key, if_neg hle]
    refine ⟨by rw [hn], h, ?_, ?_⟩
    · intro b r hbr; rw [hn] at hbr; cases hbr
    · intro d hd hdp
      rw [hn] at hd
      have hr : Impl.Thrift.readByteRaw d = (0, d.setError .truncated) := by simp only [Impl.Thrift.readByteRaw, hd]
      have hse : (d.setError .truncated).rest = d.rest ∧ (d.setError .truncated).pos = d.pos := by
        unfold Impl.Thrift.Dec.setError; cases d.status <;> exact ⟨rfl, rfl⟩
      refine ⟨?_, ?_, ?_, ?_⟩
      · simp [Impl.Thrift.Dec.has, hd, Impl.Thrift.lengthGe]
      · rw [hr]; rfl
      · rw [hr]; simp only [hse.1, hd, hn]
      · rw [hr]; simp only [hse.2, hdp]

/-- the byte read is inside `data[0 .. size)` -/
theorem C13_cfun_buffer_reader_read_byte_defined (s : Gen.CFun.carquet_buffer_reader_t) (data : List UInt8) (v : BitVec 8)
    (h : brInv s data = true) : Gen.CFun.carquet_buffer_reader_read_byte_defined s data v = true := by
  have h0 : s.data = 0 := ((brInv_iff s data).mp h).1
  unfold Gen.CFun.carquet_buffer_reader_read_byte_defined
  refine typed_defined s data 1 1#64 rfl _ (fun hle => ?_) h
  simp [CSem.inb, h0]
  omega

example : brInv ⟨0, 3#64, 1#64⟩ [0x15, 0x02, 0x00] = true ∧
    Gen.CFun.carquet_buffer_reader_read_byte ⟨0, 3#64, 1#64⟩ [0x15, 0x02, 0x00] 0#8 = (0#32, ⟨0, 3#64, 2#64⟩, 0x02#8) ∧
    (Impl.Thrift.readByteRaw { Impl.Thrift.Dec.init [0x15, 0x02, 0x00] with rest := [0x02, 0x00], pos := 1 }).1 = 0x02 ∧
    Gen.CFun.carquet_buffer_reader_read_byte ⟨0, 3#64, 3#64⟩ [0x15, 0x02, 0x00] 0#8 = (15#32, ⟨0, 3#64, 3#64⟩, 0#8) ∧
    (Impl.Thrift.readByteRaw { Impl.Thrift.Dec.init [0x15, 0x02, 0x00] with rest := [], pos := 3 }).2.status =
      some .truncated ∧
    -- outside the invariant (`size` = 4 for 3 bytes): the read of `data[3]` is out of bounds
    brInv ⟨0, 4#64, 3#64⟩ [0x15, 0x02, 0x00] = false ∧
    Gen.CFun.carquet_buffer_reader_read_byte_defined ⟨0, 4#64, 3#64⟩ [0x15, 0x02, 0x00] 0#8 = false := by decide

/-- `carquet_buffer_reader_skip(reader, n)` on the unread bytes `rest = data[pos ..]`, for EVERY `size_t n`: it advances by
`n` (status 0, the unread bytes are then `rest.drop n`) iff `n ≤ rest.length`, and otherwise returns 15 and leaves the
cursor alone.  For a decoder state `d` that sees this cursor: status 0 iff `d.has n`, and the cursor afterwards is the one
of `d.readerSkip n` (`d.advance n` when `d.has n`, else `d`). -/
theorem C13_cfun_buffer_reader_skip (s : Gen.CFun.carquet_buffer_reader_t) (data : List UInt8) (n : BitVec 64)
    (h : brInv s data = true) :
    Gen.CFun.carquet_buffer_reader_skip s n =
      (if n.toNat ≤ (data.drop s.pos.toNat).length then (0#32, { s with pos := s.pos + n }) else (15#32, s)) ∧
    brInv (Gen.CFun.carquet_buffer_reader_skip s n).2 data = true ∧
    (n.toNat ≤ (data.drop s.pos.toNat).length → data.drop (s.pos + n).toNat = (data.drop s.pos.toNat).drop n.toNat) ∧
    (∀ d : Impl.Thrift.Dec, d.rest = data.drop s.pos.toNat → d.pos = s.pos.toNat →
      ((Gen.CFun.carquet_buffer_reader_skip s n).1 = 0#32 ↔ d.has n.toNat = true) ∧
      (d.readerSkip n.toNat).rest = data.drop (Gen.CFun.carquet_buffer_reader_skip s n).2.pos.toNat ∧
      (d.readerSkip n.toNat).pos = (Gen.CFun.carquet_buffer_reader_skip s n).2.pos.toNat) := by
  obtain ⟨h0, hs, hp⟩ := (brInv_iff s data).mp h
  have hlen : (data.drop s.pos.toNat).length = data.length - s.pos.toNat := List.length_drop
  rw [skip_eq s data n h, hlen]
  by_cases hle : s.pos.toNat + n.toNat ≤ data.length
  · obtain ⟨hi, ha⟩ := advance_inv s data n h hle
    have hle' : n.toNat ≤ data.length - s.pos.toNat := by omega
    rw [if_pos hle, if_pos hle']
    refine ⟨rfl, hi, fun _ => by rw [ha, List.drop_drop], ?_⟩
    intro d hd hdp
    have hh : d.has n.toNat = true := by
      rw [Impl.Thrift.Dec.has, Proofs.CFun.lengthGe_eq, hd, hlen]; simpa using hle'
    simp only [Impl.Thrift.Dec.readerSkip, hh, if_true, Impl.Thrift.Dec.advance, hd, hdp, ha, List.drop_drop]
    exact ⟨trivial, trivial, trivial⟩
  · have hle' : ¬ n.toNat ≤ data.length - s.pos.toNat := by omega
    rw [if_neg hle, if_neg hle']
    refine ⟨rfl, h, fun hc => absurd hc hle', ?_⟩
    intro d hd hdp
    have hh : d.has n.toNat = false := by
      rw [Impl.Thrift.Dec.has, Proofs.CFun.lengthGe_eq, hd, hlen]; simpa using hle'
    simp [Impl.Thrift.Dec.readerSkip, hh, hd, hdp]

theorem C13_cfun_buffer_reader_skip_defined (s : Gen.CFun.carquet_buffer_reader_t) (n : BitVec 64) :
    Gen.CFun.carquet_buffer_reader_skip_defined s n = true := by
  simp [Gen.CFun.carquet_buffer_reader_skip_defined, Gen.CFun.carquet_buffer_reader_has_defined]

example : brInv ⟨0, 5#64, 1#64⟩ [1, 2, 3, 4, 5] = true ∧
    Gen.CFun.carquet_buffer_reader_skip ⟨0, 5#64, 1#64⟩ 4#64 = (0#32, ⟨0, 5#64, 5#64⟩) ∧
    Gen.CFun.carquet_buffer_reader_skip ⟨0, 5#64, 1#64⟩ 5#64 = (15#32, ⟨0, 5#64, 1#64⟩) ∧
    ({ Impl.Thrift.Dec.init [1, 2, 3, 4, 5] with rest := [2, 3, 4, 5], pos := 1 } : Impl.Thrift.Dec).has 4 = true ∧
    ({ Impl.Thrift.Dec.init [1, 2, 3, 4, 5] with rest := [2, 3, 4, 5], pos := 1 } : Impl.Thrift.Dec).has 5 = false ∧
    -- a length that would wrap `pos + n` (F83): refused
    Gen.CFun.carquet_buffer_reader_skip ⟨0, 5#64, 1#64⟩ (BitVec.allOnes 64) = (15#32, ⟨0, 5#64, 1#64⟩) := by decide

end Carquet.Properties.C13
end CFun3BufReader

/-! ## Thrift -/
section CFun3Thrift
/-
C13 — stage-3 link theorems: the primitive readers of the Thrift compact decoder (src/thrift/thrift_decode.c: `set_error`,
`read_byte_raw`, `thrift_read_varint / _zigzag / _byte / _i16 / _i32 / _i64 / _bool`, `thrift_read_struct_begin / _end`,
`thrift_read_list_begin`, `thrift_read_field_begin`) as translated from the CURRENT C source (`Carquet.Gen.CFun`, struct
`thrift_decoder_t` by pointer = generated structure in, new structure out) against the decoder model of the C13 / C04
theorems (`Impl.Thrift.Dec`, `readByteRaw`, `readVarint`, …, `readFieldBegin`).

`Impl.CFun3.decAbs ov bd s data` is the model state the C struct `s` over the bytes `data` stands for (`ov`, `bd`: the
model's two ghost fields, arbitrary), `Impl.CFun3.decInv s data` the invariant (reader = exactly `data`, `0 ≤ pos ≤ size`,
`0 ≤ nesting_level ≤ 32`, 32 cells of `last_field_id`, a status code of the Thrift layer).  Every theorem: the abstraction
of the new struct is the model's new state, the returned value (read with the C type's signedness) is the model's value,
the invariant is preserved, `reader.size` / `reader.data` are unchanged; `…_defined`: no undefined behaviour for EVERY
content of `data`.
-/
namespace Carquet.Properties.C13
open Carquet Carquet.Impl Carquet.Impl.CFun3 Carquet.Proofs.CFun3.ThriftDec

/-- `set_error(dec, status, msg)`: the first error sticks, as in the model — for every model error `e` whose code exists
in the C enum (`errIsC`: all but the model artefacts `stack`, `fuel`) -/
theorem C13_cfun_set_error (ov : Bool) (bd : Nat) (s : Gen.CFun.thrift_decoder_t) (data : List UInt8) (e : Thrift.Err)
    (he : errIsC e = true) (h : decInv s data = true) :
    decAbs ov bd (Gen.CFun.set_error s (BitVec.ofNat 32 e.code)) data = (decAbs ov bd s data).setError e ∧
    decInv (Gen.CFun.set_error s (BitVec.ofNat 32 e.code)) data = true ∧
    (Gen.CFun.set_error s (BitVec.ofNat 32 e.code)).reader = s.reader ∧
    (Gen.CFun.set_error s (BitVec.ofNat 32 e.code)).last_field_id = s.last_field_id ∧
    (Gen.CFun.set_error s (BitVec.ofNat 32 e.code)).nesting_level = s.nesting_level := by
  rw [decInv_iff] at h
  obtain ⟨f1, f2, f3, _, _⟩ := set_error_frame s (BitVec.ofNat 32 e.code)
  exact ⟨abs_set_error ov bd s data e he h, (decInv_iff _ _).mpr (inv_set_error s data e he h), f1, f2, f3⟩

theorem C13_cfun_set_error_defined (s : Gen.CFun.thrift_decoder_t) (c : BitVec 32) :
    Gen.CFun.set_error_defined s c = true := rfl

example :
    let s : Gen.CFun.thrift_decoder_t :=
      { reader := { data := 0, size := 2#64, pos := 1#64 },
        last_field_id := List.replicate 32 0#16, nesting_level := 0#32, bool_pending := false, bool_value := false,
        status := 0#32 }
    decInv s [7, 8] = true ∧
    (Gen.CFun.set_error s 33#32).status = 33#32 ∧
    (Gen.CFun.set_error (Gen.CFun.set_error s 33#32) 30#32).status = 33#32 ∧
    (decAbs false 0 (Gen.CFun.set_error (Gen.CFun.set_error s 33#32) 30#32) [7, 8]).status = some .truncated ∧
    (((decAbs false 0 s [7, 8]).setError .truncated).setError .decode).status = some .truncated ∧
    -- a status the Thrift layer never stores is outside the invariant
    decInv { s with status := 15#32 } [7, 8] = false ∧ errIsC .stack = false := by decide

/-- `read_byte_raw(dec)`: the byte at `pos` (or 0 and THRIFT_TRUNCATED at the end of the buffer) -/
theorem C13_cfun_read_byte_raw (ov : Bool) (bd : Nat) (s : Gen.CFun.thrift_decoder_t) (data : List UInt8)
    (h : decInv s data = true) :
    decAbs ov bd (Gen.CFun.read_byte_raw s data).2 data = (Thrift.readByteRaw (decAbs ov bd s data)).2 ∧
    (Gen.CFun.read_byte_raw s data).1.toNat = (Thrift.readByteRaw (decAbs ov bd s data)).1.toNat ∧
    decInv (Gen.CFun.read_byte_raw s data).2 data = true ∧
    (Gen.CFun.read_byte_raw s data).2.reader.size = s.reader.size ∧
    (Gen.CFun.read_byte_raw s data).2.reader.data = s.reader.data := by
  rw [decInv_iff] at h
  obtain ⟨v1, v2, v3⟩ := read_byte_raw_abs ov bd s data h
  have v4 := frame_read_byte_raw s data h
  exact ⟨v2, v1, (decInv_iff _ _).mpr v3, v4.size, v4.data⟩

/-- `read_byte_raw` reads `data[pos]` only when `pos < size` — whatever the bytes -/
theorem C13_cfun_read_byte_raw_defined (s : Gen.CFun.thrift_decoder_t) (data : List UInt8) (h : decInv s data = true) :
    Gen.CFun.read_byte_raw_defined s data = true := read_byte_raw_defined s data ((decInv_iff _ _).mp h)

example :
    let s : Gen.CFun.thrift_decoder_t :=
      { reader := { data := 0, size := 2#64, pos := 1#64 },
        last_field_id := List.replicate 32 0#16, nesting_level := 0#32, bool_pending := false, bool_value := false,
        status := 0#32 }
    decInv s [7, 200] = true ∧
    (Gen.CFun.read_byte_raw s [7, 200]).1 = 200#8 ∧ (Gen.CFun.read_byte_raw s [7, 200]).2.reader.pos = 2#64 ∧
    (Thrift.readByteRaw (decAbs false 0 s [7, 200])).1 = 200 ∧
    -- truncated stream: 0 and THRIFT_TRUNCATED, position unchanged
    (Gen.CFun.read_byte_raw (Gen.CFun.read_byte_raw s [7, 200]).2 [7, 200]).1 = 0#8 ∧
    (Gen.CFun.read_byte_raw (Gen.CFun.read_byte_raw s [7, 200]).2 [7, 200]).2.status = 33#32 ∧
    (Gen.CFun.read_byte_raw (Gen.CFun.read_byte_raw s [7, 200]).2 [7, 200]).2.reader.pos = 2#64 ∧
    -- outside the invariant (the list is shorter than `reader.size`): the read is out of bounds
    decInv s [7] = false ∧ Gen.CFun.read_byte_raw_defined s [7] = false := by decide

/-- `thrift_read_varint(dec)`: at most ten bytes, bits shifted past bit 63 are lost, THRIFT_TRUNCATED at the end of the
buffer, THRIFT_DECODE after ten continuation bytes -/
theorem C13_cfun_thrift_read_varint (ov : Bool) (bd : Nat) (s : Gen.CFun.thrift_decoder_t) (data : List UInt8)
    (h : decInv s data = true) :
    decAbs ov bd (Gen.CFun.thrift_read_varint s data).2 data = (Thrift.readVarint (decAbs ov bd s data)).2 ∧
    (Gen.CFun.thrift_read_varint s data).1.toNat = (Thrift.readVarint (decAbs ov bd s data)).1 ∧
    decInv (Gen.CFun.thrift_read_varint s data).2 data = true ∧
    (Gen.CFun.thrift_read_varint s data).2.reader.size = s.reader.size ∧
    (Gen.CFun.thrift_read_varint s data).2.reader.data = s.reader.data := by
  rw [decInv_iff] at h
  obtain ⟨v1, v2, v3, v4⟩ := varint_abs ov bd s data h
  exact ⟨v2, v1, (decInv_iff _ _).mpr v3, v4.size, v4.data⟩

/-- no undefined behaviour in `thrift_read_varint`, whatever the bytes: every read is inside the buffer, the shift count
is one of 0, 7, …, 63, `shift += 7` does not overflow, eleven tests of the loop condition suffice -/
theorem C13_cfun_thrift_read_varint_defined (s : Gen.CFun.thrift_decoder_t) (data : List UInt8)
    (h : decInv s data = true) : Gen.CFun.thrift_read_varint_defined s data = true :=
  varint_defined s data ((decInv_iff _ _).mp h)

example :
    let s : Gen.CFun.thrift_decoder_t :=
      { reader := { data := 0, size := 3#64, pos := 0#64 },
        last_field_id := List.replicate 32 0#16, nesting_level := 0#32, bool_pending := false, bool_value := false,
        status := 0#32 }
    decInv s [0xAC, 0x02, 0x15] = true ∧
    -- a 2-byte varint
    (Gen.CFun.thrift_read_varint s [0xAC, 0x02, 0x15]).1 = 300#64 ∧
    (Gen.CFun.thrift_read_varint s [0xAC, 0x02, 0x15]).2.reader.pos = 2#64 ∧
    (Thrift.readVarint (decAbs false 0 s [0xAC, 0x02, 0x15])).1 = 300 ∧
    -- a truncated one
    (Gen.CFun.thrift_read_varint s [0xAC, 0x82, 0x95]).1 = 0#64 ∧
    (Gen.CFun.thrift_read_varint s [0xAC, 0x82, 0x95]).2.status = 33#32 ∧
    (Thrift.readVarint (decAbs false 0 s [0xAC, 0x82, 0x95])).2.status = some .truncated := by decide

example :
    let s : Gen.CFun.thrift_decoder_t :=
      { reader := { data := 0, size := 11#64, pos := 0#64 },
        last_field_id := List.replicate 32 0#16, nesting_level := 0#32, bool_pending := false, bool_value := false,
        status := 0#32 }
    -- ten continuation bytes: THRIFT_DECODE after the tenth, the eleventh byte is not read
    decInv s [0xFF, 0xFF, 0xFF, 0xFF, 0xFF, 0xFF, 0xFF, 0xFF, 0xFF, 0x81, 0x01] = true ∧
    Gen.CFun.thrift_read_varint_defined s [0xFF, 0xFF, 0xFF, 0xFF, 0xFF, 0xFF, 0xFF, 0xFF, 0xFF, 0x81, 0x01] = true ∧
    (Gen.CFun.thrift_read_varint s [0xFF, 0xFF, 0xFF, 0xFF, 0xFF, 0xFF, 0xFF, 0xFF, 0xFF, 0x81, 0x01]).1 = 0#64 ∧
    (Gen.CFun.thrift_read_varint s [0xFF, 0xFF, 0xFF, 0xFF, 0xFF, 0xFF, 0xFF, 0xFF, 0xFF, 0x81, 0x01]).2.status =
      30#32 ∧
    (Gen.CFun.thrift_read_varint s [0xFF, 0xFF, 0xFF, 0xFF, 0xFF, 0xFF, 0xFF, 0xFF, 0xFF, 0x81, 0x01]).2.reader.pos =
      10#64 ∧
    (Thrift.readVarint (decAbs false 0 s [0xFF, 0xFF, 0xFF, 0xFF, 0xFF, 0xFF, 0xFF, 0xFF, 0xFF, 0x81, 0x01])).2.status =
      some .decode ∧
    -- the tenth byte's bits above bit 63 are lost: 0x7F at shift 63 contributes one bit
    (Gen.CFun.thrift_read_varint s [0x80, 0x80, 0x80, 0x80, 0x80, 0x80, 0x80, 0x80, 0x80, 0x7F, 0x01]).1 =
      9223372036854775808#64 ∧
    (Thrift.readVarint (decAbs false 0 s [0x80, 0x80, 0x80, 0x80, 0x80, 0x80, 0x80, 0x80, 0x80, 0x7F, 0x01])).1 =
      9223372036854775808 := by decide +kernel

/-- `thrift_read_zigzag(dec)`, read as an `int64_t` -/
theorem C13_cfun_thrift_read_zigzag (ov : Bool) (bd : Nat) (s : Gen.CFun.thrift_decoder_t) (data : List UInt8)
    (h : decInv s data = true) :
    decAbs ov bd (Gen.CFun.thrift_read_zigzag s data).2 data = (Thrift.readZigzag (decAbs ov bd s data)).2 ∧
    (Gen.CFun.thrift_read_zigzag s data).1.toInt = (Thrift.readZigzag (decAbs ov bd s data)).1 ∧
    decInv (Gen.CFun.thrift_read_zigzag s data).2 data = true ∧
    (Gen.CFun.thrift_read_zigzag s data).2.reader.size = s.reader.size ∧
    (Gen.CFun.thrift_read_zigzag s data).2.reader.data = s.reader.data := by
  rw [decInv_iff] at h
  obtain ⟨v1, v2, v3, v4⟩ := zigzag_abs ov bd s data h
  exact ⟨v2, v1, (decInv_iff _ _).mpr v3, v4.size, v4.data⟩

theorem C13_cfun_thrift_read_zigzag_defined (s : Gen.CFun.thrift_decoder_t) (data : List UInt8)
    (h : decInv s data = true) : Gen.CFun.thrift_read_zigzag_defined s data = true :=
  zigzag_defined s data ((decInv_iff _ _).mp h)

example :
    let s : Gen.CFun.thrift_decoder_t :=
      { reader := { data := 0, size := 2#64, pos := 0#64 },
        last_field_id := List.replicate 32 0#16, nesting_level := 0#32, bool_pending := false, bool_value := false,
        status := 0#32 }
    decInv s [0xD7, 0x04] = true ∧
    (Gen.CFun.thrift_read_zigzag s [0xD7, 0x04]).1.toInt = -300 ∧
    (Thrift.readZigzag (decAbs false 0 s [0xD7, 0x04])).1 = -300 := by decide

/-- `thrift_read_byte(dec)`, read as an `int8_t` -/
theorem C13_cfun_thrift_read_byte (ov : Bool) (bd : Nat) (s : Gen.CFun.thrift_decoder_t) (data : List UInt8)
    (h : decInv s data = true) :
    decAbs ov bd (Gen.CFun.thrift_read_byte s data).2 data = (Thrift.readI8 (decAbs ov bd s data)).2 ∧
    (Gen.CFun.thrift_read_byte s data).1.toInt = (Thrift.readI8 (decAbs ov bd s data)).1 ∧
    decInv (Gen.CFun.thrift_read_byte s data).2 data = true ∧
    (Gen.CFun.thrift_read_byte s data).2.reader.size = s.reader.size ∧
    (Gen.CFun.thrift_read_byte s data).2.reader.data = s.reader.data := by
  rw [decInv_iff] at h
  obtain ⟨v1, v2, v3, v4⟩ := byte_abs ov bd s data h
  exact ⟨v2, v1, (decInv_iff _ _).mpr v3, v4.size, v4.data⟩

theorem C13_cfun_thrift_read_byte_defined (s : Gen.CFun.thrift_decoder_t) (data : List UInt8)
    (h : decInv s data = true) : Gen.CFun.thrift_read_byte_defined s data = true :=
  read_byte_raw_defined s data ((decInv_iff _ _).mp h)

example :
    let s : Gen.CFun.thrift_decoder_t :=
      { reader := { data := 0, size := 1#64, pos := 0#64 },
        last_field_id := List.replicate 32 0#16, nesting_level := 0#32, bool_pending := false, bool_value := false,
        status := 0#32 }
    decInv s [0xFE] = true ∧ (Gen.CFun.thrift_read_byte s [0xFE]).1.toInt = -2 ∧
    (Thrift.readI8 (decAbs false 0 s [0xFE])).1 = -2 := by decide +kernel

/-- `thrift_read_i16(dec)`: the zigzag value truncated to `int16_t` -/
theorem C13_cfun_thrift_read_i16 (ov : Bool) (bd : Nat) (s : Gen.CFun.thrift_decoder_t) (data : List UInt8)
    (h : decInv s data = true) :
    decAbs ov bd (Gen.CFun.thrift_read_i16 s data).2 data = (Thrift.readI16 (decAbs ov bd s data)).2 ∧
    (Gen.CFun.thrift_read_i16 s data).1.toInt = (Thrift.readI16 (decAbs ov bd s data)).1 ∧
    decInv (Gen.CFun.thrift_read_i16 s data).2 data = true ∧
    (Gen.CFun.thrift_read_i16 s data).2.reader.size = s.reader.size ∧
    (Gen.CFun.thrift_read_i16 s data).2.reader.data = s.reader.data := by
  rw [decInv_iff] at h
  obtain ⟨v1, v2, v3, v4⟩ := i16_abs ov bd s data h
  exact ⟨v2, v1, (decInv_iff _ _).mpr v3, v4.size, v4.data⟩

theorem C13_cfun_thrift_read_i16_defined (s : Gen.CFun.thrift_decoder_t) (data : List UInt8)
    (h : decInv s data = true) : Gen.CFun.thrift_read_i16_defined s data = true :=
  i16_defined s data ((decInv_iff _ _).mp h)

example :
    let s : Gen.CFun.thrift_decoder_t :=
      { reader := { data := 0, size := 3#64, pos := 0#64 },
        last_field_id := List.replicate 32 0#16, nesting_level := 0#32, bool_pending := false, bool_value := false,
        status := 0#32 }
    -- zigzag 65536 (varint 131072 = 80 80 08) does not fit an int16_t: the cast keeps the low 16 bits
    decInv s [0x80, 0x80, 0x08] = true ∧ (Gen.CFun.thrift_read_i16 s [0x80, 0x80, 0x08]).1.toInt = 0 ∧
    (Thrift.readI16 (decAbs false 0 s [0x80, 0x80, 0x08])).1 = 0 ∧
    (Gen.CFun.thrift_read_i16 s [0xD7, 0x04, 0x00]).1.toInt = -300 ∧
    (Thrift.readI16 (decAbs false 0 s [0xD7, 0x04, 0x00])).1 = -300 := by decide +kernel

/-- `thrift_read_i32(dec)`: the zigzag value truncated to `int32_t` -/
theorem C13_cfun_thrift_read_i32 (ov : Bool) (bd : Nat) (s : Gen.CFun.thrift_decoder_t) (data : List UInt8)
    (h : decInv s data = true) :
    decAbs ov bd (Gen.CFun.thrift_read_i32 s data).2 data = (Thrift.readI32 (decAbs ov bd s data)).2 ∧
    (Gen.CFun.thrift_read_i32 s data).1.toInt = (Thrift.readI32 (decAbs ov bd s data)).1 ∧
    decInv (Gen.CFun.thrift_read_i32 s data).2 data = true ∧
    (Gen.CFun.thrift_read_i32 s data).2.reader.size = s.reader.size ∧
    (Gen.CFun.thrift_read_i32 s data).2.reader.data = s.reader.data := by
  rw [decInv_iff] at h
  obtain ⟨v1, v2, v3, v4⟩ := i32_abs ov bd s data h
  exact ⟨v2, v1, (decInv_iff _ _).mpr v3, v4.size, v4.data⟩

theorem C13_cfun_thrift_read_i32_defined (s : Gen.CFun.thrift_decoder_t) (data : List UInt8)
    (h : decInv s data = true) : Gen.CFun.thrift_read_i32_defined s data = true :=
  zigzag_defined s data ((decInv_iff _ _).mp h)

example :
    let s : Gen.CFun.thrift_decoder_t :=
      { reader := { data := 0, size := 5#64, pos := 0#64 },
        last_field_id := List.replicate 32 0#16, nesting_level := 0#32, bool_pending := false, bool_value := false,
        status := 0#32 }
    -- varint 2^32 + 3 = zigzag -(2^31 + 2), truncated to int32_t: 2^31 - 2
    decInv s [0x83, 0x80, 0x80, 0x80, 0x10] = true ∧
    (Gen.CFun.thrift_read_i32 s [0x83, 0x80, 0x80, 0x80, 0x10]).1.toInt = 2147483646 ∧
    (Thrift.readI32 (decAbs false 0 s [0x83, 0x80, 0x80, 0x80, 0x10])).1 = 2147483646 := by decide +kernel

/-- `thrift_read_i64(dec)` -/
theorem C13_cfun_thrift_read_i64 (ov : Bool) (bd : Nat) (s : Gen.CFun.thrift_decoder_t) (data : List UInt8)
    (h : decInv s data = true) :
    decAbs ov bd (Gen.CFun.thrift_read_i64 s data).2 data = (Thrift.readI64 (decAbs ov bd s data)).2 ∧
    (Gen.CFun.thrift_read_i64 s data).1.toInt = (Thrift.readI64 (decAbs ov bd s data)).1 ∧
    decInv (Gen.CFun.thrift_read_i64 s data).2 data = true ∧
    (Gen.CFun.thrift_read_i64 s data).2.reader.size = s.reader.size ∧
    (Gen.CFun.thrift_read_i64 s data).2.reader.data = s.reader.data := by
  rw [decInv_iff] at h
  obtain ⟨v1, v2, v3, v4⟩ := i64_abs ov bd s data h
  exact ⟨v2, v1, (decInv_iff _ _).mpr v3, v4.size, v4.data⟩

theorem C13_cfun_thrift_read_i64_defined (s : Gen.CFun.thrift_decoder_t) (data : List UInt8)
    (h : decInv s data = true) : Gen.CFun.thrift_read_i64_defined s data = true :=
  zigzag_defined s data ((decInv_iff _ _).mp h)

example :
    let s : Gen.CFun.thrift_decoder_t :=
      { reader := { data := 0, size := 10#64, pos := 0#64 },
        last_field_id := List.replicate 32 0#16, nesting_level := 0#32, bool_pending := false, bool_value := false,
        status := 0#32 }
    -- INT64_MIN: varint 2^64 - 1
    decInv s [0xFF, 0xFF, 0xFF, 0xFF, 0xFF, 0xFF, 0xFF, 0xFF, 0xFF, 0x01] = true ∧
    (Gen.CFun.thrift_read_i64 s [0xFF, 0xFF, 0xFF, 0xFF, 0xFF, 0xFF, 0xFF, 0xFF, 0xFF, 0x01]).1.toInt =
      -9223372036854775808 ∧
    (Thrift.readI64 (decAbs false 0 s [0xFF, 0xFF, 0xFF, 0xFF, 0xFF, 0xFF, 0xFF, 0xFF, 0xFF, 0x01])).1 =
      -9223372036854775808 := by decide +kernel

/-- `thrift_read_bool(dec)`: the value pending from the last field header, else one byte (`== 1`) -/
theorem C13_cfun_thrift_read_bool (ov : Bool) (bd : Nat) (s : Gen.CFun.thrift_decoder_t) (data : List UInt8)
    (h : decInv s data = true) :
    decAbs ov bd (Gen.CFun.thrift_read_bool s data).2 data = (Thrift.readBool (decAbs ov bd s data)).2 ∧
    (Gen.CFun.thrift_read_bool s data).1 = (Thrift.readBool (decAbs ov bd s data)).1 ∧
    decInv (Gen.CFun.thrift_read_bool s data).2 data = true ∧
    (Gen.CFun.thrift_read_bool s data).2.reader.size = s.reader.size ∧
    (Gen.CFun.thrift_read_bool s data).2.reader.data = s.reader.data := by
  rw [decInv_iff] at h
  obtain ⟨v1, v2, v3, v4, v5⟩ := bool_abs ov bd s data h
  exact ⟨v2, v1, (decInv_iff _ _).mpr v3, v4, v5⟩

theorem C13_cfun_thrift_read_bool_defined (s : Gen.CFun.thrift_decoder_t) (data : List UInt8)
    (h : decInv s data = true) : Gen.CFun.thrift_read_bool_defined s data = true :=
  bool_defined s data ((decInv_iff _ _).mp h)

example :
    let s : Gen.CFun.thrift_decoder_t :=
      { reader := { data := 0, size := 2#64, pos := 0#64 },
        last_field_id := List.replicate 32 0#16, nesting_level := 0#32, bool_pending := true, bool_value := true,
        status := 0#32 }
    decInv s [2, 1] = true ∧
    -- pending value: no byte consumed
    Gen.CFun.thrift_read_bool s [2, 1] = (true, { s with bool_pending := false }) ∧
    (Thrift.readBool (decAbs false 0 s [2, 1])).1 = true ∧
    -- then bytes: 2 is false, 1 is true
    (Gen.CFun.thrift_read_bool (Gen.CFun.thrift_read_bool s [2, 1]).2 [2, 1]).1 = false ∧
    (Gen.CFun.thrift_read_bool (Gen.CFun.thrift_read_bool (Gen.CFun.thrift_read_bool s [2, 1]).2 [2, 1]).2 [2, 1]).1 =
      true := by decide

/-- `thrift_read_struct_begin(dec)`: push field id 0, or THRIFT_DECODE at THRIFT_MAX_NESTING (= 32) -/
theorem C13_cfun_thrift_read_struct_begin (ov : Bool) (bd : Nat) (s : Gen.CFun.thrift_decoder_t) (data : List UInt8)
    (h : decInv s data = true) :
    decAbs ov bd (Gen.CFun.thrift_read_struct_begin s) data = Thrift.structBegin (decAbs ov bd s data) ∧
    decInv (Gen.CFun.thrift_read_struct_begin s) data = true ∧
    (Gen.CFun.thrift_read_struct_begin s).reader = s.reader := by
  rw [decInv_iff] at h
  obtain ⟨v1, v2, v3⟩ := struct_begin_abs ov bd s data h
  exact ⟨v1, (decInv_iff _ _).mpr v2, v3⟩

/-- `last_field_id[nesting_level]` is written only for `0 ≤ nesting_level < 32`; `nesting_level++` does not overflow -/
theorem C13_cfun_thrift_read_struct_begin_defined (s : Gen.CFun.thrift_decoder_t) (data : List UInt8)
    (h : decInv s data = true) : Gen.CFun.thrift_read_struct_begin_defined s = true :=
  struct_begin_defined s data ((decInv_iff _ _).mp h)

example :
    let s : Gen.CFun.thrift_decoder_t :=
      { reader := { data := 0, size := 0#64, pos := 0#64 },
        last_field_id := List.replicate 32 5#16, nesting_level := 1#32, bool_pending := false, bool_value := false,
        status := 0#32 }
    decInv s [] = true ∧
    (Gen.CFun.thrift_read_struct_begin s).nesting_level = 2#32 ∧
    (Gen.CFun.thrift_read_struct_begin s).last_field_id.take 3 = [5#16, 0#16, 5#16] ∧
    (decAbs false 0 (Gen.CFun.thrift_read_struct_begin s) []).lastId = [0, 5] ∧
    (Thrift.structBegin (decAbs false 0 s [])).lastId = [0, 5] ∧
    -- at the limit: THRIFT_DECODE, nothing written
    (Gen.CFun.thrift_read_struct_begin { s with nesting_level := 32#32 }).status = 30#32 ∧
    (Gen.CFun.thrift_read_struct_begin { s with nesting_level := 32#32 }).last_field_id = s.last_field_id ∧
    (Thrift.structBegin (decAbs false 0 { s with nesting_level := 32#32 } [])).status = some .decode := by decide

/-- `thrift_read_struct_end(dec)`: pop (nothing at level 0) -/
theorem C13_cfun_thrift_read_struct_end (ov : Bool) (bd : Nat) (s : Gen.CFun.thrift_decoder_t) (data : List UInt8)
    (h : decInv s data = true) :
    decAbs ov bd (Gen.CFun.thrift_read_struct_end s) data = Thrift.structEnd (decAbs ov bd s data) ∧
    decInv (Gen.CFun.thrift_read_struct_end s) data = true ∧
    (Gen.CFun.thrift_read_struct_end s).reader = s.reader ∧
    (Gen.CFun.thrift_read_struct_end s).last_field_id = s.last_field_id := by
  rw [decInv_iff] at h
  obtain ⟨v1, v2, v3, v4⟩ := struct_end_abs ov bd s data h
  exact ⟨v1, (decInv_iff _ _).mpr v2, v3, v4⟩

theorem C13_cfun_thrift_read_struct_end_defined (s : Gen.CFun.thrift_decoder_t) (data : List UInt8)
    (h : decInv s data = true) : Gen.CFun.thrift_read_struct_end_defined s = true :=
  struct_end_defined s data ((decInv_iff _ _).mp h)

example :
    let s : Gen.CFun.thrift_decoder_t :=
      { reader := { data := 0, size := 0#64, pos := 0#64 },
        last_field_id := [7#16, 9#16] ++ List.replicate 30 0#16, nesting_level := 2#32, bool_pending := false,
        bool_value := false, status := 0#32 }
    decInv s [] = true ∧ (decAbs false 0 s []).lastId = [9, 7] ∧
    (Gen.CFun.thrift_read_struct_end s).nesting_level = 1#32 ∧
    (decAbs false 0 (Gen.CFun.thrift_read_struct_end s) []).lastId = [7] ∧
    (Gen.CFun.thrift_read_struct_end { s with nesting_level := 0#32 }).nesting_level = 0#32 ∧
    -- INT_MIN as nesting level is outside the invariant; `nesting_level--` is not reached (the test is `> 0`)
    decInv { s with nesting_level := 2147483648#32 } [] = false := by decide

/-- `thrift_read_list_begin(dec, &elem_type, &count)`: header byte, long form (size nibble 15) with a varint count
truncated to `int32_t`; a negative count or one that exceeds the remaining bytes is THRIFT_DECODE with `*count = 0` -/
theorem C13_cfun_thrift_read_list_begin (ov : Bool) (bd : Nat) (s : Gen.CFun.thrift_decoder_t) (data : List UInt8)
    (elem_type count : BitVec 32) (h : decInv s data = true) :
    decAbs ov bd (Gen.CFun.thrift_read_list_begin s data elem_type count).1 data =
      (Thrift.readListBegin (decAbs ov bd s data)).dec ∧
    (Gen.CFun.thrift_read_list_begin s data elem_type count).2.1.toNat =
      (Thrift.readListBegin (decAbs ov bd s data)).elemTy ∧
    (Gen.CFun.thrift_read_list_begin s data elem_type count).2.2.toInt =
      (Thrift.readListBegin (decAbs ov bd s data)).count ∧
    decInv (Gen.CFun.thrift_read_list_begin s data elem_type count).1 data = true ∧
    (Gen.CFun.thrift_read_list_begin s data elem_type count).1.reader.size = s.reader.size ∧
    (Gen.CFun.thrift_read_list_begin s data elem_type count).1.reader.data = s.reader.data := by
  rw [decInv_iff] at h
  obtain ⟨v1, v2, v3, v4, v5⟩ := list_begin_abs ov bd s data h elem_type count
  exact ⟨v3, v1, v2, (decInv_iff _ _).mpr v4, v5.size, v5.data⟩

theorem C13_cfun_thrift_read_list_begin_defined (s : Gen.CFun.thrift_decoder_t) (data : List UInt8)
    (elem_type count : BitVec 32) (h : decInv s data = true) :
    Gen.CFun.thrift_read_list_begin_defined s data elem_type count = true :=
  list_begin_defined s data ((decInv_iff _ _).mp h) elem_type count

example :
    let s : Gen.CFun.thrift_decoder_t :=
      { reader := { data := 0, size := 4#64, pos := 0#64 },
        last_field_id := List.replicate 32 0#16, nesting_level := 0#32, bool_pending := false, bool_value := false,
        status := 0#32 }
    decInv s [0xF5, 0x02, 7, 8] = true ∧
    -- long form: element type 5, count = varint 2
    (Gen.CFun.thrift_read_list_begin s [0xF5, 0x02, 7, 8] 99#32 99#32).2 = (5#32, 2#32) ∧
    (Gen.CFun.thrift_read_list_begin s [0xF5, 0x02, 7, 8] 99#32 99#32).1.reader.pos = 2#64 ∧
    (Thrift.readListBegin (decAbs false 0 s [0xF5, 0x02, 7, 8])).count = 2 ∧
    -- count 3 exceeds the 2 remaining bytes: THRIFT_DECODE, *count = 0
    (Gen.CFun.thrift_read_list_begin s [0xF5, 0x03, 7, 8] 99#32 99#32).2 = (5#32, 0#32) ∧
    (Gen.CFun.thrift_read_list_begin s [0xF5, 0x03, 7, 8] 99#32 99#32).1.status = 30#32 ∧
    (Thrift.readListBegin (decAbs false 0 s [0xF5, 0x03, 7, 8])).dec.status = some .decode ∧
    -- short form: 3 elements of type 8
    (Gen.CFun.thrift_read_list_begin s [0x38, 1, 2, 3] 99#32 99#32).2 = (8#32, 3#32) ∧
    (Thrift.readListBegin (decAbs false 0 s [0x38, 1, 2, 3])).count = 3 := by decide +kernel

example :
    let s : Gen.CFun.thrift_decoder_t :=
      { reader := { data := 0, size := 6#64, pos := 0#64 },
        last_field_id := List.replicate 32 0#16, nesting_level := 0#32, bool_pending := false, bool_value := false,
        status := 0#32 }
    -- count varint 0xFFFFFFFF: negative as an int32_t
    decInv s [0xF5, 0xFF, 0xFF, 0xFF, 0xFF, 0x0F] = true ∧
    (Gen.CFun.thrift_read_list_begin s [0xF5, 0xFF, 0xFF, 0xFF, 0xFF, 0x0F] 99#32 99#32).2 = (5#32, 0#32) ∧
    (Gen.CFun.thrift_read_list_begin s [0xF5, 0xFF, 0xFF, 0xFF, 0xFF, 0x0F] 99#32 99#32).1.status = 30#32 ∧
    (Thrift.readListBegin (decAbs false 0 s [0xF5, 0xFF, 0xFF, 0xFF, 0xFF, 0x0F])).dec.status = some .decode :=
  by decide +kernel

/-- `thrift_read_field_begin(dec, &type, &field_id)`: nothing when an error is latched; STOP (or a failed read) returns
false with `*type = 0`, `*field_id = 0`; short form: `prev_field_id + delta` (in `int`, converted to `int16_t`); long form
(delta 0): a zigzag `i16`; the top of `last_field_id` is updated when `nesting_level > 0`; types 1 / 2 leave a pending
boolean -/
theorem C13_cfun_thrift_read_field_begin (ov : Bool) (bd : Nat) (s : Gen.CFun.thrift_decoder_t) (data : List UInt8)
    (type : BitVec 32) (field_id : BitVec 16) (h : decInv s data = true) :
    decAbs ov bd (Gen.CFun.thrift_read_field_begin s data type field_id).2.1 data =
      (Thrift.readFieldBegin (decAbs ov bd s data)).dec ∧
    (Gen.CFun.thrift_read_field_begin s data type field_id).1 = (Thrift.readFieldBegin (decAbs ov bd s data)).more ∧
    (Gen.CFun.thrift_read_field_begin s data type field_id).2.2.1.toNat =
      (Thrift.readFieldBegin (decAbs ov bd s data)).ty ∧
    (Gen.CFun.thrift_read_field_begin s data type field_id).2.2.2.toInt =
      (Thrift.readFieldBegin (decAbs ov bd s data)).fid ∧
    decInv (Gen.CFun.thrift_read_field_begin s data type field_id).2.1 data = true ∧
    (Gen.CFun.thrift_read_field_begin s data type field_id).2.1.reader.size = s.reader.size ∧
    (Gen.CFun.thrift_read_field_begin s data type field_id).2.1.reader.data = s.reader.data := by
  rw [decInv_iff] at h
  obtain ⟨v1, v2, v3, v4, v5, v6, v7⟩ := field_begin_abs ov bd s data h type field_id
  exact ⟨v4, v1, v2, v3, (decInv_iff _ _).mpr v5, v6, v7⟩

/-- no undefined behaviour in `thrift_read_field_begin`, whatever the bytes: `nesting_level - 1` does not overflow and
indexes `last_field_id[0..32)`, `prev_field_id + delta` is computed in `int` without overflow, and the readers it calls
are defined -/
theorem C13_cfun_thrift_read_field_begin_defined (s : Gen.CFun.thrift_decoder_t) (data : List UInt8)
    (type : BitVec 32) (field_id : BitVec 16) (h : decInv s data = true) :
    Gen.CFun.thrift_read_field_begin_defined s data type field_id = true :=
  field_begin_defined s data ((decInv_iff _ _).mp h) type field_id

example :
    let s : Gen.CFun.thrift_decoder_t :=
      { reader := { data := 0, size := 3#64, pos := 0#64 },
        last_field_id := [4#16] ++ List.replicate 31 0#16, nesting_level := 1#32, bool_pending := false,
        bool_value := false, status := 0#32 }
    decInv s [0x35, 0x00, 0x00] = true ∧
    -- short form at nesting level 1: delta 3 from field 4, type 5
    (Gen.CFun.thrift_read_field_begin s [0x35, 0x00, 0x00] 99#32 99#16).1 = true ∧
    (Gen.CFun.thrift_read_field_begin s [0x35, 0x00, 0x00] 99#32 99#16).2.2 = (5#32, 7#16) ∧
    (Gen.CFun.thrift_read_field_begin s [0x35, 0x00, 0x00] 99#32 99#16).2.1.last_field_id.take 2 = [7#16, 0#16] ∧
    (Thrift.readFieldBegin (decAbs false 0 s [0x35, 0x00, 0x00])).fid = 7 ∧
    (Thrift.readFieldBegin (decAbs false 0 s [0x35, 0x00, 0x00])).dec.lastId = [7] ∧
    -- long form: type 2 (FALSE, a pending boolean), field id zigzag(0xD7 0x04) = -300
    (Gen.CFun.thrift_read_field_begin s [0x02, 0xD7, 0x04] 99#32 99#16).2.2.1 = 2#32 ∧
    (Gen.CFun.thrift_read_field_begin s [0x02, 0xD7, 0x04] 99#32 99#16).2.2.2.toInt = -300 ∧
    (Gen.CFun.thrift_read_field_begin s [0x02, 0xD7, 0x04] 99#32 99#16).2.1.bool_pending = true ∧
    (Gen.CFun.thrift_read_field_begin s [0x02, 0xD7, 0x04] 99#32 99#16).2.1.bool_value = false ∧
    (Gen.CFun.thrift_read_field_begin s [0x02, 0xD7, 0x04] 99#32 99#16).2.1.reader.pos = 3#64 ∧
    (Thrift.readFieldBegin (decAbs false 0 s [0x02, 0xD7, 0x04])).fid = -300 ∧
    (Thrift.readFieldBegin (decAbs false 0 s [0x02, 0xD7, 0x04])).dec.lastId = [-300] ∧
    -- STOP
    (Gen.CFun.thrift_read_field_begin s [0x00, 0x00, 0x00] 99#32 99#16).1 = false ∧
    (Gen.CFun.thrift_read_field_begin s [0x00, 0x00, 0x00] 99#32 99#16).2.2 = (0#32, 0#16) ∧
    -- a latched error: nothing is read
    (Gen.CFun.thrift_read_field_begin { s with status := 33#32 } [0x35, 0x00, 0x00] 99#32 99#16) =
      (false, { s with status := 33#32 }, 0#32, 0#16) := by decide +kernel

example :
    let s : Gen.CFun.thrift_decoder_t :=
      { reader := { data := 0, size := 1#64, pos := 0#64 },
        last_field_id := [32767#16] ++ List.replicate 31 0#16, nesting_level := 1#32, bool_pending := false,
        bool_value := false, status := 0#32 }
    -- `prev_field_id + delta` = 32767 + 15 is computed in `int` (no overflow) and wraps in the conversion to int16_t
    decInv s [0xF6] = true ∧ Gen.CFun.thrift_read_field_begin_defined s [0xF6] 0#32 0#16 = true ∧
    (Gen.CFun.thrift_read_field_begin s [0xF6] 0#32 0#16).2.2.2.toInt = -32754 ∧
    (Thrift.readFieldBegin (decAbs false 0 s [0xF6])).fid = -32754 ∧
    -- truncated: the stream ends before the header
    (Gen.CFun.thrift_read_field_begin { s with reader := { s.reader with pos := 1#64 } } [0xF6] 0#32 0#16).1 = false ∧
    (Gen.CFun.thrift_read_field_begin { s with reader := { s.reader with pos := 1#64 } } [0xF6] 0#32 0#16).2.1.status =
      33#32 ∧
    -- nesting level 33 is outside the invariant: `last_field_id[32]` would be read
    decInv { s with nesting_level := 33#32 } [0xF6] = false ∧
    Gen.CFun.thrift_read_field_begin_defined { s with nesting_level := 33#32 } [0xF6] 0#32 0#16 = false := by
  decide +kernel

end Carquet.Properties.C13
end CFun3Thrift
