import Carquet.Impl.CSem
import Carquet.Impl.Thrift
import Carquet.Impl.Varint
import Carquet.Gen.CFun
import Carquet.Proofs.Zigzag
import Carquet.Proofs.CFun.Basic
import Carquet.Proofs.CFun.Thrift
/-
C13 — link theorems between the scalar helpers of the Thrift codec (src/core/endian.h `carquet_zigzag_encode64 /
carquet_zigzag_decode64`, src/core/buffer.h `carquet_buffer_reader_has / _remaining`, src/thrift/thrift_decode.c
`has_bytes`) as translated from the CURRENT source (`Carquet.Gen.CFun`, regenerated on every run) and the Thrift model
the C13 (and C04) theorems are about (`Impl.Thrift.zigzagEnc / zigzagDec`, `Impl.Thrift.Dec.has`).
-/
namespace Carquet.Properties.C13
open Carquet Carquet.Impl

/-- `carquet_zigzag_encode64(v)` is the model's `zigzagEnc` of the `int64_t` value, for every `v` -/
theorem C13_cfun_zigzag_encode64 (v : BitVec 64) :
    (Gen.CFun.carquet_zigzag_encode64 v).toNat = Impl.Thrift.zigzagEnc v.toInt := by
  show (Impl.Varint.zigzagEncode64 v).toNat = _
  rw [Proofs.Zigzag.enc64_toNat, BitVec.toInt_eq_toNat_cond]
  have hv := v.isLt
  unfold Impl.Thrift.zigzagEnc
  by_cases h : v.toNat < 2 ^ 63
  · rw [if_pos h, if_pos (by omega), if_pos (by omega)]; omega
  · rw [if_neg h, if_neg (by omega), if_neg (by omega)]; omega

theorem C13_cfun_zigzag_encode64_defined (v : BitVec 64) : Gen.CFun.carquet_zigzag_encode64_defined v = true := rfl

/-- `carquet_zigzag_decode64(n)`, read as an `int64_t`, is the model's `zigzagDec`, for every `n` -/
theorem C13_cfun_zigzag_decode64 (n : BitVec 64) :
    (Gen.CFun.carquet_zigzag_decode64 n).toInt = Impl.Thrift.zigzagDec n.toNat := by
  have e : Gen.CFun.carquet_zigzag_decode64 n = Impl.Varint.zigzagDecode64 n := rfl
  rw [e, BitVec.toInt_eq_toNat_cond, Proofs.Zigzag.dec64_toNat]
  have hn := n.isLt
  unfold Impl.Thrift.zigzagDec
  by_cases h : n.toNat % 2 = 0
  · rw [if_pos h, if_pos h, if_pos (by omega)]
  · rw [if_neg h, if_neg h, if_neg (by omega)]; omega

example : (Gen.CFun.carquet_zigzag_encode64 (BitVec.ofInt 64 (-3))).toNat = 5 ∧ Impl.Thrift.zigzagEnc (-3) = 5 ∧
    (Gen.CFun.carquet_zigzag_decode64 5#64).toInt = -3 ∧ Impl.Thrift.zigzagDec 5 = -3 := by decide

/-- `carquet_buffer_reader_remaining(reader)` for a reader whose position is inside its buffer -/
theorem C13_cfun_buffer_reader_remaining (pos size : BitVec 64) (h : pos.toNat ≤ size.toNat) :
    (Gen.CFun.carquet_buffer_reader_remaining pos size).toNat = size.toNat - pos.toNat := by
  unfold Gen.CFun.carquet_buffer_reader_remaining; bv_omega

/-- `carquet_buffer_reader_has(reader, n)` — and `has_bytes(dec, n)`, which only forwards to it — is the model's
`Dec.has`: for a decoder state `d` whose unread bytes are the `size - pos` bytes of the C reader (`0 ≤ pos ≤ size`)
and EVERY `size_t n`.  (Since /repo f656688 the C test is `n <= size - pos`; the earlier spelling `pos + n <= size`
wrapped for `n ≥ 2^64 - pos` and this theorem then needed the extra hypothesis `pos + n < 2^64`.) -/
theorem C13_cfun_buffer_reader_has (d : Impl.Thrift.Dec) (pos size n : BitVec 64)
    (hp : pos.toNat ≤ size.toNat) (hd : d.rest.length = size.toNat - pos.toNat) :
    Gen.CFun.carquet_buffer_reader_has pos size n = d.has n.toNat := by
  unfold Gen.CFun.carquet_buffer_reader_has Impl.Thrift.Dec.has
  rw [Proofs.CFun.lengthGe_eq, hd]
  have hs : (size - pos).toNat = size.toNat - pos.toNat := by bv_omega
  by_cases h : n.toNat ≤ size.toNat - pos.toNat
  · have : n ≤ size - pos := by rw [BitVec.le_def, hs]; exact h
    simp [h, this]
  · have : ¬ (n ≤ size - pos) := by rw [BitVec.le_def, hs]; exact h
    simp [h, this]

theorem C13_cfun_has_bytes (d : Impl.Thrift.Dec) (pos size n : BitVec 64)
    (hp : pos.toNat ≤ size.toNat) (hd : d.rest.length = size.toNat - pos.toNat) :
    Gen.CFun.has_bytes pos size n = d.has n.toNat := by
  unfold Gen.CFun.has_bytes
  exact C13_cfun_buffer_reader_has d pos size n hp hd

theorem C13_cfun_buffer_reader_remaining_defined (pos size : BitVec 64) :
    Gen.CFun.carquet_buffer_reader_remaining_defined pos size = true := rfl

theorem C13_cfun_buffer_reader_has_defined (pos size n : BitVec 64) :
    Gen.CFun.carquet_buffer_reader_has_defined pos size n = true := rfl

theorem C13_cfun_has_bytes_defined (pos size n : BitVec 64) : Gen.CFun.has_bytes_defined pos size n = true := by
  simp [Gen.CFun.has_bytes_defined, Gen.CFun.carquet_buffer_reader_has_defined]

example : Gen.CFun.has_bytes 2#64 5#64 3#64 = true ∧ Gen.CFun.has_bytes 2#64 5#64 4#64 = false ∧
    (2#64 : BitVec 64).toNat ≤ (5#64 : BitVec 64).toNat ∧
    Gen.CFun.has_bytes 2#64 5#64 (BitVec.allOnes 64) = false := by
  decide

end Carquet.Properties.C13
