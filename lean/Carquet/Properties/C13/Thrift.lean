import Carquet.Spec.Thrift
import Carquet.Spec.ParquetThrift
import Carquet.Spec.ParquetThriftValue
import Carquet.Impl.Thrift
import Carquet.Impl.ThriftParquet
import Carquet.Gen.Constants
import Carquet.Gen.ThriftSchema
import Carquet.Proofs.ThriftUnknown
import Carquet.Proofs.ThriftExtendsDeep
/-
C13 — Thrift metadata round-trips and is genuine compact protocol.
Property statements only; helper lemmas live in Carquet/Proofs/Thrift*.lean.
-/
namespace Carquet.Properties.C13
open Carquet Carquet.Spec.Thrift Carquet.Spec.ParquetThrift

/-! ## The tables carquet's source currently contains, against parquet.thrift -/

/-- which parquet.thrift struct each struct frame of a carquet writer / parser is
(frame names as produced by translate/gen_thrift.py: function, then the ids of the enclosing
fields) -/
def specOfFrame (frame : String) : Option StructSpec :=
  match frame with
  | "write_statistics" | "parse_statistics" => some statistics
  | "write_logical_type" | "parse_logical_type" => some logicalType
  | "write_logical_type.5" | "parse_logical_type.5" => some decimalType
  | "write_logical_type.7" | "parse_logical_type.7" => some timeType
  | "write_logical_type.8" | "parse_logical_type.8" => some timeType
  | "write_logical_type.7.2" | "parse_logical_type.7.2" => some timeUnit
  | "write_logical_type.8.2" | "parse_logical_type.8.2" => some timeUnit
  | "write_logical_type.10" | "parse_logical_type.10" => some intType
  | "write_logical_type.1" | "write_logical_type.2" | "write_logical_type.3" | "write_logical_type.4"
  | "write_logical_type.6" | "write_logical_type.11" | "write_logical_type.12" | "write_logical_type.13"
  | "write_logical_type.14" | "write_logical_type.15" | "write_logical_type.7.2.3"
  | "write_logical_type.8.2.3" => some emptyStruct
  | "write_schema_element" | "parse_schema_element" => some schemaElement
  | "write_column_metadata" | "parse_column_metadata" => some columnMetaData
  | "parse_column_metadata.8" => some keyValue
  | "parse_column_metadata.13" => some pageEncodingStats
  | "write_column_chunk" | "parse_column_chunk" => some columnChunk
  | "write_row_group" | "parse_row_group" => some rowGroup
  | "parquet_write_file_metadata" | "parquet_parse_file_metadata" => some fileMetaData
  | "parquet_write_file_metadata.5" | "parquet_parse_file_metadata.5" => some keyValue
  | "parquet_write_page_header" | "parquet_parse_page_header" => some pageHeader
  | "parquet_write_page_header.5" | "parquet_parse_page_header.5" => some dataPageHeader
  | "parquet_write_page_header.7" | "parquet_parse_page_header.7" => some dictionaryPageHeader
  | "parquet_write_page_header.8" | "parquet_parse_page_header.8" => some dataPageHeaderV2
  | _ => none

/-- every (id, wire type) a writer frame emits is a field of its parquet.thrift struct with that
wire type -/
def writerFrameMatches (fr : String × List (Int × Nat)) : Bool :=
  match specOfFrame fr.1 with
  | none => false
  | some s => fr.2.all (fun f => match s.find f.1 with
      | some fs => fieldWireCode fs.ty == f.2
      | none => false)

/-- every id a parser frame dispatches on is a field of its parquet.thrift struct -/
def parserFrameMatches (fr : String × List Int) : Bool :=
  match specOfFrame fr.1 with
  | none => false
  | some s => fr.2.all (fun id => (s.find id).isSome)

def strictlyIncreasing : List Int → Bool
  | a :: b :: r => decide (a < b) && strictlyIncreasing (b :: r)
  | _ => true

/-- Field ids and wire types of everything carquet's writers emit, and every field id its parsers
dispatch on, re-extracted from parquet_types.c on every run, agree with parquet.thrift. -/
theorem C13_tables_match_spec :
    Gen.ThriftSchema.writers.all writerFrameMatches = true ∧
    Gen.ThriftSchema.parsers.all parserFrameMatches = true ∧
    Gen.ThriftSchema.typeCodes.map (·.2) = [0, 1, 2, 3, 4, 5, 6, 7, 8, 9, 10, 11, 12, 13] ∧
    [TType.bool, .i8, .i16, .i32, .i64, .double, .binary, .list, .set, .map, .struct, .uuid].map TType.code
      = [2, 3, 4, 5, 6, 7, 8, 9, 10, 11, 12, 13] := by
  decide +kernel

/-- The extracted tables are well formed: within a frame no id is dispatched twice, ids are
positive 16-bit, struct (non-union: the frame of a `switch` over a union lists alternatives, whose order in the
source does not matter) writers emit ids in strictly increasing order (so every
header they write is the short form), every parser frame handles every id its writer frame
emits, and the model uses the limits and nesting bound the source defines. -/
theorem C13_tables_wellformed :
    Gen.ThriftSchema.parsers.all (fun fr => fr.2.Nodup && fr.2.all (fun id => decide (0 < id ∧ id < 32768))) = true ∧
    Gen.ThriftSchema.writers.all (fun fr => (fr.2.map (·.1)).Nodup && fr.2.all (fun f => decide (0 < f.1 ∧ f.1 < 32768))) = true ∧
    (Gen.ThriftSchema.writers.filter (fun fr => fr.1 ≠ "parquet_write_page_header" &&
        (match specOfFrame fr.1 with | some s => !s.isUnion | none => true))).all
      (fun fr => strictlyIncreasing (fr.2.map (·.1))) = true ∧
    Gen.ThriftSchema.writers.all (fun fr =>
      fr.2.isEmpty ||
      match (Gen.ThriftSchema.writerParser.lookup fr.1).bind (fun n => Gen.ThriftSchema.parsers.lookup n) with
      | some ids => fr.2.all (fun f => ids.contains f.1)
      | none => false) = true ∧
    Gen.ThriftSchema.limits.map (·.2) =
      [Impl.ThriftParquet.maxSchemaElements, Impl.ThriftParquet.maxRowGroups, Impl.ThriftParquet.maxColumnsPerRg,
       Impl.ThriftParquet.maxKeyValuePairs, Impl.ThriftParquet.maxEncodings, Impl.ThriftParquet.maxPathElements,
       Impl.ThriftParquet.maxEncodingStats] ∧
    Gen.ThriftSchema.countGuards.map (·.2) =
      ["CARQUET_MAX_ENCODINGS", "CARQUET_MAX_PATH_ELEMENTS", "CARQUET_MAX_KEY_VALUE_PAIRS", "CARQUET_MAX_ENCODING_STATS",
       "CARQUET_MAX_COLUMNS_PER_RG", "CARQUET_MAX_SCHEMA_ELEMENTS", "CARQUET_MAX_ROW_GROUPS", "CARQUET_MAX_KEY_VALUE_PAIRS"] ∧
    Gen.thriftMaxNesting = Impl.Thrift.maxNesting ∧
    Gen.ThriftSchema.pageHeaderParsesStatistics = Impl.Thrift.Cfg.fixed.pageStats := by
  decide +kernel

example : writerFrameMatches ("write_statistics", [(1, 8), (3, 6)]) = true ∧
          writerFrameMatches ("write_statistics", [(1, 6)]) = false ∧
          parserFrameMatches ("parse_row_group", [9]) = false := by decide +kernel

/-! ## Varints and zigzag -/

open Carquet.Impl.Thrift Carquet.Impl.ThriftParquet Carquet.Proofs.Thrift

/-- Every `uint64` written by `thrift_write_varint` and every `int64` written by
`thrift_write_zigzag` (also through `thrift_write_i16/i32`, extremes included) is the Spec's
ULEB128 / zigzag encoding and is read back exactly by `thrift_read_varint` /
`thrift_read_zigzag` / `thrift_read_i16` / `thrift_read_i32`, which consume exactly the bytes
written and leave no error. -/
theorem C13_varint_zigzag_roundtrip :
    (∀ (n : Nat) (rest : List UInt8), n < 2 ^ 64 →
      (writeVarint Enc.init n).out = uleb n ∧
      readVarint (Dec.init ((writeVarint Enc.init n).out ++ rest))
        = (n, (Dec.init ((writeVarint Enc.init n).out ++ rest)).at rest (writeVarint Enc.init n).out.length)) ∧
    (∀ (v : Int) (rest : List UInt8), inI64 v →
      (writeZigzag Enc.init v).out = uleb (zigzag v) ∧
      readZigzag (Dec.init ((writeZigzag Enc.init v).out ++ rest))
        = (v, (Dec.init ((writeZigzag Enc.init v).out ++ rest)).at rest (writeZigzag Enc.init v).out.length)) ∧
    (∀ (v : Int) (rest : List UInt8), inI32 v →
      (readI32 (Dec.init ((writeI Enc.init v).out ++ rest))).1 = v) ∧
    (∀ (v : Int) (rest : List UInt8), inI16 v →
      (readI16 (Dec.init ((writeI Enc.init v).out ++ rest))).1 = v) ∧
    (∀ v : Int, unzigzag (zigzag v) = v) := by
  have hv : ∀ n, (writeVarint Enc.init n).out = uleb n := by
    intro n; simp [writeVarint, varintBytes_eq, Enc.init, Enc.out, Enc.append, List.reverseAux_eq]
  have hz : ∀ v, (writeZigzag Enc.init v).out = uleb (zigzag v) := by
    intro v; simp [writeZigzag, hv, zigzagEnc_eq]
  refine ⟨?_, ?_, ?_, ?_, unzigzag_zigzag⟩
  · intro n rest hn
    refine ⟨hv n, ?_⟩
    rw [hv, readVarint_uleb n hn (Dec.init (uleb n ++ rest)) rest rfl]
    simp [Dec.init]
  · intro v rest hvv
    refine ⟨hz v, ?_⟩
    rw [hz, readZigzag_zigzag v hvv (Dec.init (uleb (zigzag v) ++ rest)) rest rfl]
    simp [Dec.init]
  · intro v rest hvv
    have : (writeI Enc.init v).out = uleb (zigzag v) := hz v
    rw [this]
    unfold readI32
    rw [readZigzag_zigzag v (inI64_of_inI32 hvv) (Dec.init (uleb (zigzag v) ++ rest)) rest rfl]
    exact toI32_id v hvv
  · intro v rest hvv
    have : (writeI Enc.init v).out = uleb (zigzag v) := hz v
    rw [this]
    unfold readI16
    rw [readZigzag_zigzag v (inI64_of_inI16 hvv) (Dec.init (uleb (zigzag v) ++ rest)) rest rfl]
    exact toI16_id v hvv

-- the extremes, as concrete instances (tests of the statement's reach)
example : (writeZigzag Enc.init (-9223372036854775808)).out = [0xFF, 0xFF, 0xFF, 0xFF, 0xFF, 0xFF, 0xFF, 0xFF, 0xFF, 0x01] ∧
    (readZigzag (Dec.init [0xFF, 0xFF, 0xFF, 0xFF, 0xFF, 0xFF, 0xFF, 0xFF, 0xFF, 0x01])).1 = -9223372036854775808 ∧
    (readZigzag (Dec.init [0xFE, 0xFF, 0xFF, 0xFF, 0xFF, 0xFF, 0xFF, 0xFF, 0xFF, 0x01])).1 = 9223372036854775807 ∧
    (readI32 (Dec.init [0xFF, 0xFF, 0xFF, 0xFF, 0x0F])).1 = -2147483648 ∧
    (readI16 (Dec.init [0xFF, 0xFF, 0x03])).1 = -32768 ∧
    inI64 (-9223372036854775808) ∧ inI64 9223372036854775807 := by decide +kernel

/-! ## Round trips -/

/-- **FileMetaData round trip.**  For every FileMetaData value in the explicit domain
`FileMetaData.wf` (C integer ranges, NUL-free strings, list lengths within the parser's
VALIDATE_COUNT limits), writing succeeds, parsing the written bytes succeeds, returns the value
restricted to the serialised members (`FileMetaData.norm`), no C-union overlay occurs, and the
parser has consumed exactly the bytes produced. -/
theorem C13_roundtrip_filemetadata (m : FileMetaData) (h : m.wf = true) :
    writeFileMetaDataStatus m = none ∧
    parseFileMetaData (writeFileMetaData m) = .ok m.norm ∧
    (parseFileMetaDataX Cfg.fixed (writeFileMetaData m)).consumed = (writeFileMetaData m).length ∧
    (parseFileMetaDataX Cfg.fixed (writeFileMetaData m)).overlay = false := by
  obtain ⟨hp, hs⟩ := roundtrip_filemetadata m h
  refine ⟨hs, ?_, ?_, ?_⟩
  · unfold parseFileMetaData ParseResult.toExcept; rw [hp]
  · rw [hp]
  · rw [hp]

example : FileMetaData.wf
    { version := 2, schema := [{ name := some [0x72], numChildren := 1 },
                               { type := some 1, repetition := some 1, name := some [0xC3, 0xA9], logicalType := some (.integer 32 true) }],
      numRows := -9223372036854775808,
      rowGroups := [
        { columns := [
            { fileOffset := 4,
              metaData := some
                { type := 1, encodings := [0, 3], pathInSchema := [[0x61]],
                  statistics := some { nullCount := some 7, maxValue := [0xFF, 0x00] } } }],
          totalByteSize := 9223372036854775807, numRows := 3, ordinal := some (-32768) }],
      keyValueMetadata := [{ key := some [], value := none }] } = true := by decide +kernel

/-- **PageHeader round trip** (also with bytes following the header, as in a file): status OK,
the value restricted to the member `type` selects, `*bytes_read` = number of bytes produced. -/
theorem C13_roundtrip_pageheader (h : PageHeader) (hw : h.wf = true) (rest : List UInt8) :
    writePageHeaderStatus h = none ∧
    parsePageHeader (writePageHeader h ++ rest) = .ok (h.norm, (writePageHeader h).length) ∧
    (parsePageHeaderX Cfg.fixed (writePageHeader h ++ rest)).overlay = false := by
  obtain ⟨hp, hs⟩ := roundtrip_pageheader h hw rest
  refine ⟨hs, ?_, ?_⟩
  · unfold parsePageHeader; rw [hp]
  · rw [hp]

example : PageHeader.wf
    { type := 0, uncompressedPageSize := 2147483647, compressedPageSize := -2147483648, crc := some (-1),
      dataPageHeader := { numValues := 5, encoding := 8, statistics := some { nullCount := some 7, minValue := [0, 255] } } } = true := by
  decide +kernel

/-! ## Carquet's bytes are genuine compact protocol -/

/-- The independent Spec decoder reads from the bytes carquet writes exactly the Thrift value
parquet.thrift assigns to the structure (field ids, wire types, values), consuming all bytes;
indeed the bytes are the canonical encoding. -/
theorem C13_impl_output_is_compact :
    (∀ m : FileMetaData, m.wf = true →
      writeFileMetaData m = encode (fileMetaDataTV m) ∧ decodeStruct (writeFileMetaData m) = some (fileMetaDataTV m)) ∧
    (∀ h : PageHeader, h.wf = true →
      writePageHeader h = encode (pageHeaderTV h) ∧ decodeStruct (writePageHeader h) = some (pageHeaderTV h)) := by
  constructor
  · intro m h
    have hw := (writeFileMetaData_eq m (lensOk_of_wf m h)).1
    refine ⟨hw, ?_⟩
    have := decode_encode (fileMetaDataTV m) (fm_wf m h) []
    rw [List.append_nil] at this
    unfold decodeStruct
    rw [hw, show (fileMetaDataTV m).ty = TType.struct from rfl] at *
    rw [this]
  · intro h hwf
    have hw := (writePageHeader_eq h).1
    refine ⟨hw, ?_⟩
    have := decode_encode (pageHeaderTV h) (ph_wf h hwf) []
    rw [List.append_nil] at this
    unfold decodeStruct
    rw [hw, show (pageHeaderTV h).ty = TType.struct from rfl] at *
    rw [this]

/-- the generic codec facts behind it: the Spec decoder inverts the canonical encoder and reads
every encoding the relation admits (long-form headers, either bool spelling) -/
theorem C13_spec_decode_encode :
    (∀ (v : TVal) (rest : List UInt8), v.wf = true → decode v.ty (encode v ++ rest) = some (v, rest)) ∧
    (∀ (v : TVal) (bs rest : List UInt8), Encodes v bs → decode v.ty (bs ++ rest) = some (v, rest)) :=
  ⟨fun v rest h => decode_encode v h rest, fun v bs rest h => decode_of_encodes v bs rest h⟩

/-! ## Carquet reads other writers' encodings -/

/-- **Any encoding is accepted, with unknown fields at EVERY nesting level.**
`ExtD sch v v'` (Proofs.ThriftExtendsDeep, *ExtendsDeep*) is syntactic: `v'` is `v` with further
fields inserted into any struct the schema reaches — the top-level struct, schema elements and
their logical types (and the time / decimal / integer members of those), row groups, column
chunks, column metadata, statistics, key/value and encoding-stats entries; for a page header its
three member headers and their statistics — each inserted field with an id the parser of *that*
struct does not know, of *every* wire type, nested up to `R + 4 − (depth of the struct)` levels
(31 at the top of a FileMetaData, 29 at the top of a PageHeader, 27 in the innermost structs),
and nothing else changed.  `schFileMeta`, `schPageHeader` are parquet.thrift as carquet parses
it.  Let `bs` be *any* encoding of such a `v'` the compact protocol admits (short or long field
headers, short or long list headers, bool elements as 1/2/0, at every level).  Then carquet's
parser returns OK, the structure, and has consumed exactly `bs`.
The earlier form (unknown fields at the top level only, `Extends`) is a special case. -/
theorem C13_accepts_any_encoding :
    (∀ (m : FileMetaData) (v' : TVal) (bs rest : List UInt8), m.wf = true →
      ExtD (schFileMeta 27) (fileMetaDataTV m) v' → Encodes v' bs →
      parseFileMetaDataX Cfg.fixed (bs ++ rest) = ⟨none, m.norm, bs.length, false⟩) ∧
    (∀ (h : PageHeader) (v' : TVal) (bs rest : List UInt8),
      ExtD (schPageHeader 27) (pageHeaderTV h) v' → Encodes v' bs →
      parsePageHeaderX Cfg.fixed (bs ++ rest) = ⟨none, h.norm, bs.length, false⟩) ∧
    (∀ (m : FileMetaData) (fs : Fields), Extends fileMetaKnown 31 (fmFields m) fs →
      ExtD (schFileMeta 27) (fileMetaDataTV m) (.struct fs)) ∧
    (∀ (h : PageHeader) (fs : Fields), Extends pageHeaderKnown 29 (phFields h) fs →
      ExtD (schPageHeader 27) (pageHeaderTV h) (.struct fs)) ∧
    (∀ m : FileMetaData, fileMetaDataTV m = .struct (fmFields m)) ∧ (∀ h : PageHeader, pageHeaderTV h = .struct (phFields h)) :=
  ⟨fun m v' bs rest h hext henc => accepts_filemetadata_deep m h v' hext bs henc rest,
   fun h v' bs rest hext henc => accepts_pageheader_deep h v' hext bs henc rest,
   extD_of_extends_filemeta, extD_of_extends_pageheader,
   fileMetaDataTV_eq, pageHeaderTV_eq⟩

/-- a dictionary page header with an unknown list<bool> field at the top and, INSIDE the nested
DictionaryPageHeader struct, an unknown map field and an unknown struct field -/
example : ExtD (schPageHeader 27)
    (pageHeaderTV { type := 2, uncompressedPageSize := 10, compressedPageSize := 10,
                    dictionaryPageHeader := { numValues := 3, encoding := 0, isSorted := true } })
    (.struct [(100, .list .bool [.bool true, .bool false]), (1, .i32 2), (2, .i32 10), (3, .i32 10),
      (7, .struct [(1, .i32 3), (9, .map [(.i8 1, .bool false)]), (2, .i32 0), (3, .bool true), (-5, .struct [(1, .binary [7])])])]) := by
  rw [schPageHeader, ExtD]
  refine Or.inr ⟨_, _, rfl, rfl, ?_⟩
  refine .add (by decide) (by decide) (.keep ?_ (.keep ?_ (.keep ?_ (.keep ?_ .nil))))
  · exact extD_refl _ _
  · exact extD_refl _ _
  · exact extD_refl _ _
  · show ExtD (schDictPage 27) _ _
    rw [schDictPage, ExtD]
    refine Or.inr ⟨_, _, rfl, rfl, ?_⟩
    exact .keep (extD_refl _ _) (.add (by decide) (by decide) (.keep (extD_refl _ _) (.keep (extD_refl _ _)
      (.add (by decide) (by decide) .nil))))

/-- the general form (unknown fields at *every* level, members carquet parses but never writes):
whatever struct value `fs` is encoded, if its fields are acceptable to the parser tables
(`okFields`: known ids carry their parquet.thrift type, unknown ids are nested at most 31 deep,
lists within the count limits, unions with one member) and the four required fields are
present, the parser returns what the tables make of it. -/
theorem C13_parses_acceptable_encodings (fs : Fields) (bs rest : List UInt8) (henc : Encodes (.struct fs) bs)
    (hok : okFields (tblFileMeta 27) 31 fs) (hreq : (ofFileMetaFields 27 fs).2.all = true) :
    parseFileMetaDataX Cfg.fixed (bs ++ rest) = ⟨none, (ofFileMetaFields 27 fs).1, bs.length, false⟩ :=
  parseFileMetaData_reads 27 (by simp [maxNesting]) fs bs henc hok hreq rest

-- a page header with an unknown list<bool> field (the F9 shape) and an unknown nested struct, long-form headers
example : Extends pageHeaderKnown 29
    (phFields
      { type := 2, uncompressedPageSize := 10, compressedPageSize := 10,
        dictionaryPageHeader := { numValues := 3, encoding := 0, isSorted := true } })
    [(100, .list .bool [.bool true, .bool false]), (1, .i32 2), (2, .i32 10), (3, .i32 10),
     (-5, .struct [(1, .map [(.i8 1, .bool false)])]),
     (7, dictionaryPageHeaderTV { numValues := 3, encoding := 0, isSorted := true })] := by
  refine .add (by decide) (by decide) (.keep (.keep (.keep (.add (by decide) (by decide) (.keep .nil)))))

/-! ## thrift_skip -/

/-- **`thrift_skip` consumes exactly one value.**  For every value `v` of every non-bool wire
type (bool fields have no bytes), every admitted encoding `bs` of `v`, at any position of any
input, with no pending error and at least `v.depth` nesting levels left, `thrift_skip` returns
without error having advanced the reader exactly over `bs`; nothing else of the decoder state
changes (`bool_value`, dead while no bool is pending, aside). -/
theorem C13_skip_consumes_value (v : TVal) (hnb : v.ty ≠ .bool) (bs rest : List UInt8) (henc : Encodes v bs)
    (d : Dec) (hrest : d.rest = bs ++ rest) (hs : d.status = none) (hp : d.boolPending = false)
    (hroom : d.lastId.length + v.depth ≤ maxNesting) (hbud : d.rest.length < d.budget) :
    ∃ bv, skipField Cfg.fixed v.ty.code d = d.atb rest (d.pos + bs.length) bv := by
  have hd : v.depth < stackBudget := by unfold maxNesting at hroom; unfold stackBudget; omega
  obtain ⟨bv, h⟩ := skip_consumes v hnb bs henc stackBudget hd d rest ⟨hrest, hs, hp, hroom, hbud⟩
  exact ⟨bv, by simpa [skipField] using h⟩

example : Encodes (.list .bool [.bool true, .bool false, .bool false]) [0x31, 1, 2, 0] := by
  have h : Enc (.elems [.bool true, .bool false, .bool false]) ([1] ++ ([2] ++ ([0] ++ []))) :=
    .elemsCons .boolT (.elemsCons .boolF (.elemsCons .boolF0 .elemsNil))
  exact Enc.list (hdr := [0x31]) (by decide) (by simp [TVal.ty]) ⟨1, Or.inr ⟨rfl, rfl⟩, Or.inl ⟨by decide, rfl⟩⟩ h

/-! ## The defects, on the model of the code before the repairs -/

/-- F9 (before `fix: thrift_skip consumes one byte per bool element…`): skipping the two-element
list<bool> `21 02 02` consumed one byte instead of three; an unknown list<bool> field therefore
made the page-header parser read the bool bytes as field headers (here: wrong `type`, wrong
size).  The repaired model consumes three and parses the header. -/
theorem C13_regression_F9 :
    (skipField Cfg.preFix 9 (Dec.init [0x21, 0x02, 0x02, 0x3a])).pos = 1 ∧
    (skipField Cfg.fixed 9 (Dec.init [0x21, 0x02, 0x02, 0x3a])).pos = 3 ∧
    (decode .list [0x21, 0x02, 0x02, 0x3a]).map (·.2) = some [0x3a] ∧
    (parsePageHeaderX Cfg.fixed [0x09, 0xC8, 0x01, 0x21, 0x01, 0x02, 0x05, 0x02, 0x02, 0x15, 0x14, 0x15, 0x14, 0x00]).val.type = 1 ∧
    (parsePageHeaderX Cfg.fixed [0x09, 0xC8, 0x01, 0x21, 0x01, 0x02, 0x05, 0x02, 0x02, 0x15, 0x14, 0x15, 0x14, 0x00]).status = none ∧
    (parsePageHeaderX Cfg.preFix [0x09, 0xC8, 0x01, 0x21, 0x01, 0x02, 0x05, 0x02, 0x02, 0x15, 0x14, 0x15, 0x14, 0x00]).status ≠ none := by
  decide +kernel

/-- F8 (before `fix: thrift_skip counts nested containers…`): the recursion of `thrift_skip` over
nested lists was bounded by nothing but the C stack: with room for `n` frames, `n` nested lists
exhaust it (`Err.stack` = the process dies).  The repaired code refuses the 33rd level with
THRIFT_DECODE and never needs more than 34 frames on this input. -/
theorem C13_regression_F8 :
    (skip Cfg.preFix 40 9 (Dec.init (List.replicate 40 0x19 ++ [0x03]))).status = some .stack ∧
    (skip Cfg.fixed 40 9 (Dec.init (List.replicate 40 0x19 ++ [0x03]))).status = some .decode ∧
    (skip Cfg.fixed 34 9 (Dec.init (List.replicate 40 0x19 ++ [0x03]))).status = some .decode ∧
    (skip Cfg.fixed 34 9 (Dec.init (List.replicate 31 0x19 ++ [0x03]))).status = none := by
  decide +kernel

/-- F24 (before `fix: parse page-header statistics…`): the statistics a data page header was
written with (null_count 7) came back as an empty Statistics. -/
theorem C13_regression_F24 :
    (parsePageHeaderX Cfg.preFix (writePageHeader
      { type := 0, dataPageHeader := { numValues := 1, statistics := some { nullCount := some 7, maxValue := [1] } } })).val.dataPageHeader.statistics
      = some {} ∧
    (parsePageHeaderX Cfg.fixed (writePageHeader
      { type := 0, dataPageHeader := { numValues := 1, statistics := some { nullCount := some 7, maxValue := [1] } } })).val.dataPageHeader.statistics
      = some { nullCount := some 7, maxValue := [1] } := by
  decide +kernel

end Carquet.Properties.C13
