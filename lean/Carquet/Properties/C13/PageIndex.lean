import Carquet.Spec.Thrift
import Carquet.Spec.ParquetThrift
import Carquet.Spec.ParquetThriftPageIndex
import Carquet.Impl.ThriftPageIndex
import Carquet.Gen.ThriftSchema
import Carquet.Proofs.ThriftPageIndex
/-
C13 for the page-index serialisers of metadata/page_index.c (ColumnIndex, OffsetIndex).  carquet
has writers only for these two structures, so "round trip" is through the independent Spec
decoder.  Property statements only; helper lemmas in Carquet/Proofs/ThriftPageIndex.lean.
-/
namespace Carquet.Properties.C13
open Carquet Carquet.Spec.Thrift Carquet.Spec.ParquetThrift
open Carquet.Impl.Thrift Carquet.Impl.ThriftParquet Carquet.Impl.ThriftPageIndex
open Carquet.Proofs.Thrift

/-! ## Tables re-extracted from page_index.c against parquet.thrift -/

def specOfPageIndexFrame (frame : String) : Option (StructSpec × List (Int × TType)) :=
  match frame with
  | "carquet_column_index_serialize" => some (columnIndex, columnIndexElems)
  | "carquet_offset_index_serialize" => some (offsetIndex, offsetIndexElems)
  | "carquet_offset_index_serialize.1" => some (pageLocation, [])
  | _ => none

/-- every (id, wire type) a frame of the two serialisers emits is a member of its parquet.thrift
struct with that wire type -/
def pageIndexFrameMatches (fr : String × List (Int × Nat)) : Bool :=
  match specOfPageIndexFrame fr.1 with
  | none => false
  | some (s, _) => fr.2.all (fun f => match s.find f.1 with
      | some fs => fieldWireCode fs.ty == f.2
      | none => false)

/-- every list-valued field is written with the element type parquet.thrift gives it (a bool list
may be announced with type nibble 1 or 2) -/
def pageIndexElemsMatch (fr : String × List (Int × Nat)) : Bool :=
  match specOfPageIndexFrame fr.1 with
  | none => false
  | some (_, el) => fr.2.all (fun f => match el.lookup f.1 with
      | some t => f.2 == t.code || (t == .bool && f.2 == 1)
      | none => false)

/-- Field ids, wire types and list element types of everything the two page-index serialisers
emit, re-extracted from page_index.c on every run, agree with parquet.thrift; all required
members are written. -/
theorem C13_pageindex_tables_match_spec :
    Gen.ThriftSchema.pageIndexWriters.all pageIndexFrameMatches = true ∧
    Gen.ThriftSchema.pageIndexListElems.all pageIndexElemsMatch = true ∧
    (Gen.ThriftSchema.pageIndexWriters.map (·.1)) =
      ["carquet_column_index_serialize", "carquet_offset_index_serialize", "carquet_offset_index_serialize.1"] ∧
    Gen.ThriftSchema.pageIndexWriters.all (fun fr => match specOfPageIndexFrame fr.1 with
      | some (s, _) => s.fields.all (fun fsp => !fsp.required || fr.2.any (·.1 == fsp.id))
      | none => false) = true := by
  decide +kernel

/-! ## The bytes are genuine compact protocol -/

/-- **ColumnIndex.**  For every builder state the C types allow (any number of pages < 2^31, any
bounds, null counts, null-page flags, boundary order), `carquet_column_index_serialize` returns OK
and appends an encoding the compact protocol admits of the ColumnIndex value parquet.thrift
assigns (fields 1-5; the only non-canonical spelling is 0 for a false `null_pages` element), so
the independent Spec decoder reads exactly that value from the bytes, consuming all of them; the
value has only members of parquet.thrift's ColumnIndex, with their types, and all required ones. -/
theorem C13_columnindex_is_compact (b : ColumnIndexB) (h : b.wf = true) :
    writeColumnIndexStatus b = none ∧
    Encodes (columnIndexTV b) (writeColumnIndex b) ∧
    decodeStruct (writeColumnIndex b) = some (columnIndexTV b) ∧
    (∃ fs, columnIndexTV b = .struct fs ∧ columnIndex.admits fs = true ∧ columnIndex.complete fs = true) := by
  obtain ⟨henc, hs⟩ := writeColumnIndex_encodes b h
  refine ⟨hs, henc, ?_, _, rfl, by rfl, by rfl⟩
  have := decode_of_encodes (columnIndexTV b) (writeColumnIndex b) [] henc
  rw [List.append_nil] at this
  unfold decodeStruct
  rw [show (columnIndexTV b).ty = TType.struct from rfl] at this
  rw [this]

def exampleCI : ColumnIndexB :=
  { boundaryOrder := 1, pages := [{ nullCount := 0, minV := some [1], maxV := some [9] }, { nullCount := 4, nullPage := true }] }

example : writeColumnIndex exampleCI
    = [0x19, 0x21, 0x00, 0x01, 0x19, 0x28, 0x01, 0x01, 0x00, 0x19, 0x28, 0x01, 0x09, 0x00, 0x15, 0x02, 0x19, 0x26, 0x00, 0x08, 0x00] := by
  decide +kernel

/-- **OffsetIndex** (repaired code).  For every builder state, whether or not it tracks
uncompressed sizes, `carquet_offset_index_serialize` returns OK and appends the canonical
compact-protocol encoding of the OffsetIndex value parquet.thrift assigns (the page locations);
the Spec decoder reads that value back. -/
theorem C13_offsetindex_is_compact (b : OffsetIndexB) (h : b.wf = true) :
    writeOffsetIndexStatus b = none ∧
    writeOffsetIndex b = encode (offsetIndexTV b) ∧
    decodeStruct (writeOffsetIndex b) = some (offsetIndexTV b) ∧
    (∃ fs, offsetIndexTV b = .struct fs ∧ offsetIndex.admits fs = true ∧ offsetIndex.complete fs = true) := by
  have hl : b.pages.length < 2 ^ 31 := by
    simp only [OffsetIndexB.wf, Bool.and_eq_true, decide_eq_true_eq] at h
    have : (2:Nat) ^ 31 = 2147483648 := by decide
    omega
  obtain ⟨hw, hs⟩ := writeOffsetIndex_eq b hl
  refine ⟨hs, hw, ?_, _, rfl, by rfl, by rfl⟩
  have := decode_encode (offsetIndexTV b) (offsetIndexTV_wf b h) []
  rw [List.append_nil] at this
  unfold decodeStruct
  rw [hw, show (offsetIndexTV b).ty = TType.struct from rfl] at *
  rw [this]

def exampleOI : OffsetIndexB :=
  { trackUncompressed := true, pages := [{ offset := 4, compressedSize := 100, firstRowIndex := 0, uncompressedSize := 300 }] }

example : writeOffsetIndex exampleOI
    = [0x19, 0x1C, 0x16, 0x08, 0x15, 0xC8, 0x01, 0x16, 0x00, 0x00, 0x00] := by
  decide +kernel

/-- F70 (before `fix: offset index serialises parquet.thrift's OffsetIndex only`): a builder that
tracks uncompressed page sizes wrote them as a second field — id 2, `list<i32>` — although
parquet.thrift's OffsetIndex has no such member: its field 2 is
`list<i64> unencoded_byte_array_data_bytes`, so a conforming reader takes the page sizes for
something else.  The bytes are the canonical encoding of a struct whose field 2 has element type
i32 where the format says i64. -/
theorem C13_regression_F70 :
    (∀ b : OffsetIndexB, b.wf = true → writeOffsetIndexPreFix b = encode (offsetIndexWrittenTV b)) ∧
    (decodeStruct (writeOffsetIndexPreFix exampleOI)).map (TVal.beq
      (.struct [(1, .list .struct [.struct [(1, .i64 4), (2, .i32 100), (3, .i64 0)]]), (2, .list .i32 [.i32 300])]))
      = some true ∧
    offsetIndexElems.lookup 2 = some .i64 := by
  refine ⟨fun b h => ?_, by decide +kernel, by decide⟩
  have hl : b.pages.length < 2 ^ 31 := by
    simp only [OffsetIndexB.wf, Bool.and_eq_true, decide_eq_true_eq] at h
    have : (2:Nat) ^ 31 = 2147483648 := by decide
    omega
  exact writeOffsetIndexPreFix_eq b hl

end Carquet.Properties.C13
