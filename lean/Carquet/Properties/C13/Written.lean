import Carquet.Proofs.FileRealHeader
import Carquet.Proofs.FileRealFooter
/-
C13 for the metadata of WRITTEN FILES: the page header `carquet_page_writer_finalize` writes
with its own `thrift_write_*` calls and the footer `carquet_writer_close` writes, as modelled
byte-exactly by Impl.FileReal (tie: whole files equal byte for byte), parse back to what was
written, consuming exactly what was produced.  Statements only.
-/
namespace Carquet.Properties.C13
open Carquet.Impl Carquet.Impl.FileReal Carquet.Impl.ThriftParquet
open Carquet.Proofs.FileRealHeader Carquet.Proofs.FileRealFooter

/-- The hand-written data-page header equals `parquet_write_page_header` of the structure it
denotes (`headerOf`); statistics, when present, have non-empty min and max (they are PLAIN
values of INT32 / INT64 / FLOAT / DOUBLE). -/
theorem C13_written_pageheader_is_standard (unc comp crc numValues : Nat) (stats : Option Writer.PageStats)
    (hs : ∀ s, stats = some s → s.max ≠ [] ∧ s.min ≠ []) :
    pageHeader unc comp crc numValues stats = writePageHeader (headerOf unc comp crc numValues stats) :=
  pageHeader_eq_write unc comp crc numValues stats hs

/-- Parsing the header of a written page, followed by any bytes, returns type DATA_PAGE, the
two sizes, the CRC (as the `int32` the C code stores), the value count, PLAIN / RLE / RLE and the
statistics that were written, and `bytes_read` = the length of the header. -/
theorem C13_written_pageheader_roundtrip (unc comp crc numValues : Nat) (stats : Option Writer.PageStats)
    (rest : List UInt8)
    (h1 : unc < 2147483648) (h2 : comp < 2147483648) (h3 : crc < 4294967296) (h4 : numValues < 2147483648)
    (hs : ∀ s, stats = some s → s.nullCount < 9223372036854775808 ∧ s.max.length < 2147483648 ∧
          s.min.length < 2147483648 ∧ s.max ≠ [] ∧ s.min ≠ []) :
    parsePageHeader (pageHeader unc comp crc numValues stats ++ rest) =
      .ok (headerOf unc comp crc numValues stats, (pageHeader unc comp crc numValues stats).length) :=
  parse_written_header unc comp crc numValues stats rest h1 h2 h3 h4 hs

/-- Parsing the footer of a written file returns exactly the metadata the writer assembled
(schema elements, row groups, chunk offsets and sizes, created_by), for every footer whose
numbers fit the C types and the parser's limits (`footerOk`). -/
theorem C13_written_footer_roundtrip (f : Writer.FooterData) (h : footerOk f = true) :
    parseFileMetaData (footer f) = .ok (fileMetaData f) :=
  parse_written_footer f h

-- non-vacuity
example : footerOk ⟨[⟨"a", .int32, .optional, 0, none⟩], "Carquet", 3,
    [⟨3, 40, 4, 40, 0, [⟨4, .int32, 1, 3, 40, 21, "a"⟩]⟩]⟩ = true := by decide +kernel

end Carquet.Properties.C13
