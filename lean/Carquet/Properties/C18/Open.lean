import Carquet.Proofs.ReaderOpen
import Carquet.Proofs.ReaderExamples
import Carquet.Properties.C05.Writer
import Carquet.Spec.FileEnvelope
/-
C18 (first half) — truncated files are rejected.  Statements only; lemmas in
Proofs/ReaderOpen.lean.  (Second half, failing sinks: Properties/C18/Sink.lean.)

`Complete p` (Proofs/ReaderOpen) is the envelope + footer predicate on the model side: both
magics, a footer length that fits, and a footer that `parquet_parse_file_metadata` accepts — after
fix 28d9213 (F29) that includes the presence of the four required FileMetaData fields — and whose
schema `build_schema` accepts.  The driver evaluates the independent Spec-level predicate
`Spec.FileEnvelope.completeFile` on every prefix the REAL code accepted (op `trunc`).
-/
namespace Carquet.Properties.C18
open Carquet.Impl Carquet.Impl.Reader
open Carquet.Proofs.ReaderOpen Carquet.Proofs.ReaderExamples

/-- **Truncated files are rejected — or are complete files themselves.**  For every file the
writer reports complete (any schema, codec, page size and write history; `close` returned OK),
every proper prefix, and each of the three ways of opening: the open fails, or the prefix is
itself `Complete`: it starts and ends with the magic, the length before the trailing magic fits,
and the bytes it designates are a FileMetaData that the parser accepts with all its required
fields and a usable schema. -/
theorem C18_prefix_rejected (cols : List Writer.Col) (codec pageSize : Nat) (ops : List Writer.Op)
    (hok : (Writer.fileOf (FileReal.deps []) cols codec pageSize "Carquet" ops).2.getLast? = some .ok)
    (k : Nat) (_hk : k < (Writer.fileOf (FileReal.deps []) cols codec pageSize "Carquet" ops).1.length) (mode : Mode) :
    (∃ e, openFile mode ((Writer.fileOf (FileReal.deps []) cols codec pageSize "Carquet" ops).1.take k) = .error e) ∨
    Complete ((Writer.fileOf (FileReal.deps []) cols codec pageSize "Carquet" ops).1.take k) := by
  obtain ⟨data, ftr, hf⟩ := Carquet.Properties.C05.C05_envelope_real cols codec pageSize ops hok
  apply prefix_rejected_or_complete
  rw [hf]
  simp [Writer.magic, magic]

/-- **When the exception cannot occur.**  For ANY byte string `f` (not only writer output): if
"PAR1" does not occur strictly inside `f` — at no length `12 ≤ k < |f|` does the prefix of length `k`
end in the magic (`noInnerMagic`, decidable) — then every proper prefix is refused by all three
open paths.  So a proper prefix can only open when the file's own bytes spell the magic in the
middle: user-controlled content (values, names) or a coincidence in checksums / compressed bytes. -/
theorem C18_prefix_rejected_no_inner_magic (f : Reader.Bytes) (hn : noInnerMagic f = true) (k : Nat) (hk : k < f.length)
    (mode : Mode) : ∃ e, openFile mode (f.take k) = .error e :=
  prefix_rejected_of_noInnerMagic f hn k hk mode

-- non-vacuity: the two-page INT32 file and the SNAPPY file have no inner magic — all their proper
-- prefixes are refused
example : noInnerMagic twoPage = true ∧ noInnerMagic optSnappy = true := by decide +kernel

/-- what an accepted open establishes, in every mode (the structural core: a prefix that lacks the
trailing magic, a fitting length, or a footer that parses with its required fields, is refused) -/
theorem C18_open_ok_structure (mode : Mode) (p : Reader.Bytes) (o : Opened) (h : openFile mode p = .ok o) :
    12 ≤ p.length ∧ slice p (p.length - 4) 4 = magic ∧ footerLen p ≤ p.length - 8 ∧
    parseFooter (footerBytes p) = .ok o ∧
    ∃ md, ThriftParquetReq.parseFileMetaDataReq (footerBytes p) = .ok md := by
  have := openFile_ok mode p o h
  refine ⟨this.1, this.2.1, this.2.2.1, this.2.2.2, ?_⟩
  have hp := this.2.2.2
  unfold parseFooter at hp
  split at hp
  · cases hp
  · rename_i md hmd; exact ⟨md, hmd⟩

/-- **The exception is real, and it takes crafted content.**  The file `fakeFooter` is what the
writer produces for a REQUIRED BYTE_ARRAY column holding the value
`<FileMetaData{version, schema=[a], num_rows=0, row_groups=[]}> 0d 00 00 00 "PAR1"` (and `hi`).  Its
52-byte prefix — which ends with that value — opens in all three modes as a 0-row table with one
column, and it IS a complete Parquet file by the independent Spec predicate; the inner magic is what
`noInnerMagic` detects; every other proper prefix of the file is refused. -/
theorem C18_exception_needs_crafted_content :
    noInnerMagic fakeFooter = false ∧
    (match openFile .fread (fakeFooter.take 52) with | .ok o => o.md.numRows == 0 && o.md.rowGroups.isEmpty | .error _ => false) = true ∧
    (match openFile .mmap (fakeFooter.take 52) with | .ok _ => true | .error _ => false) = true ∧
    (match openFile .buffer (fakeFooter.take 52) with | .ok _ => true | .error _ => false) = true ∧
    Carquet.Spec.FileEnvelope.completeFile (fakeFooter.take 52) = true ∧
    ((List.range fakeFooter.length).all (fun k => k == 52 ||
      (match openFile .fread (fakeFooter.take k) with | .ok _ => false | .error _ => true))) = true := by
  decide +kernel

/-- Before fix 28d9213 (F29) the parser accepted a FileMetaData without its required fields, so a
prefix ending in `<struct with version and schema only> <len> PAR1` opened although it is no
complete file (the witness the harness plants, harness/ops_c18.c `plant_fake_footer` v1). -/
theorem C18_regression_F29 :
    (match ThriftParquetReq.parseFileMetaDataPreF29 [0x15, 0x02, 0x19, 0x1C, 0x48, 0x01, 0x61, 0x00, 0x00] with
     | .ok md => md.schema.length == 1 && md.rowGroups.isEmpty | .error _ => false) = true ∧
    ThriftParquetReq.parseFileMetaDataReq [0x15, 0x02, 0x19, 0x1C, 0x48, 0x01, 0x61, 0x00, 0x00] = .error .invalidMetadata ∧
    Carquet.Spec.FileEnvelope.completeFile
      ([0x50, 0x41, 0x52, 0x31] ++ [0x15, 0x02, 0x19, 0x1C, 0x48, 0x01, 0x61, 0x00, 0x00] ++ [0x09, 0, 0, 0, 0x50, 0x41, 0x52, 0x31]) = false := by
  decide +kernel

end Carquet.Properties.C18
