import Carquet.Proofs.Sink
/-
C18 (second half) — failed writes are never reported OK.
The writer's stream calls over an abstract `FILE*` whose sink may fail at any operation, for
every buffering policy (oracle).  Statements only; lemmas in Proofs/Sink.lean.
-/
namespace Carquet.Properties.C18
open Carquet.Impl.Sink Carquet.Proofs.Sink

/-- OK from close implies every byte of every call reached the sink, in order, nothing is left
in the buffer, and every earlier call had returned OK — for every history of calls, every
oracle (buffering policy and failure points), owned or borrowed stream. -/
theorem C18_ok_implies_all_bytes (o : Oracle) (owns : Bool) (closeWrites : List Bytes)
    (calls : List (List Bytes)) :
    (session o owns closeWrites {} 0 calls).2.2 = .ok →
    (session o owns closeWrites {} 0 calls).1.delivered = calls.flatten.flatten ++ closeWrites.flatten ∧
    (session o owns closeWrites {} 0 calls).1.pending = [] ∧
    ∀ st ∈ (session o owns closeWrites {} 0 calls).2.1, st = .ok := by
  intro h
  obtain ⟨_, b, c, d, _⟩ := session_ok o owns closeWrites calls {} 0 h
  exact ⟨by simpa using d, c, b⟩

example : (session (fun _ => .push 1) true [[1], [2, 3]] {} 0 [[[9]], [[8, 7], [6]]]).2.2 = .ok ∧
    (session (fun _ => .push 1) true [[1], [2, 3]] {} 0 [[[9]], [[8, 7], [6]]]).1.delivered = [9, 8, 7, 6, 1, 2, 3] := by
  decide

/-- If the sink fails at any stream operation of the session (any write, the flush, or the
close), `carquet_writer_close` does not return OK. -/
theorem C18_sink_failure_surfaces (o : Oracle) (owns : Bool) (closeWrites : List Bytes)
    (calls : List (List Bytes)) (k : Nat)
    (hk : k < totalOps calls + closeWrites.length + tailOps owns) (hfail : (o k).isFail = true) :
    (session o owns closeWrites {} 0 calls).2.2 ≠ .ok := by
  intro h
  obtain ⟨_, _, _, _, e⟩ := session_ok o owns closeWrites calls {} 0 h
  have := e k (Nat.zero_le _) (by omega)
  rw [this] at hfail
  exact absurd hfail (by simp)

example : (session (fun i => if i = 5 then .fail 3 0 else .push 100) true [[1], [2, 3]] {} 0
    [[[9]], [[8, 7], [6]]]).2.2 = .fileWrite := by decide

/-- Before the fixes F17/F42 close ignored the results of `fflush`/`fclose` and the error
indicator: a failing flush of buffered bytes was reported OK (the negative witness that the
harness replays with a buffered `fopencookie` stream and with `/dev/full`). -/
def closeCallPreFix (o : Oracle) (s : Stream) (i : Nat) (ws : List Bytes) : Stream × Status :=
  match writes o s i ws with
  | (s1, .ok, j) => ((fflush s1 (o j)).1, .ok)
  | (s1, _, _) => (s1, .fileWrite)

theorem C18_regression_F17 :
    (closeCallPreFix (fun i => if i = 2 then .fail 5 0 else .push 0) {} 0 [[1, 2], [3]]).2 = .ok ∧
    (closeCallPreFix (fun i => if i = 2 then .fail 5 0 else .push 0) {} 0 [[1, 2], [3]]).1.delivered = [] ∧
    (closeCall (fun i => if i = 2 then .fail 5 0 else .push 0) {} 0 false [[1, 2], [3]]).2 = .fileWrite := by
  decide

end Carquet.Properties.C18
