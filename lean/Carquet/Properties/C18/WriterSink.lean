import Carquet.Proofs.WriterSink
import Carquet.Properties.C05.Writer
/-
C18 (second half) composed with the writer: `carquet_writer_*` of file_writer.c on a stream
that may fail at any operation (Impl/WriterSink.lean), for EVERY schema, option set and write
history, EVERY environment — buffering policy of stdio and fault schedule of the sink, fixed or
adaptive (`Env`) — owned or borrowed stream.  Statements only; lemmas in Proofs/WriterSink.lean.

`sessionS D E e owns cols codec pageSize createdBy ops` is the whole session: `.1.s.delivered`
are the bytes the sink holds, `.1.s.pending` what stdio still buffers, `.1.log` the outcomes of
all stream operations, `.2` the statuses of all calls with close last.
-/
namespace Carquet.Properties.C18
open Carquet.Impl.Writer Carquet.Impl.WriterSink Carquet.Proofs.WriterSink
open Carquet.Impl.Sink (Outcome)
open Carquet.Proofs.WriterLayout (stateAfter GroupsAt groupsSize)

/-- **The faulty-stream writer is the writer** (`stepS_healthy`): in an environment that never
makes a stream operation fail, one call on a state in which nothing has failed (`Good`: error
indicator clear, the stream holds exactly the writer's `out`) leaves such a state again, and writer state and status are those of the healthy
model `Impl.Writer.step`; a whole session returns the statuses of `fileOf`. -/
theorem C18_writer_healthy_stream {ε : Type} (D : Deps) (E : Env ε) (hE : Quiet E) :
    (∀ (x : SW ε) (op : Op), Good x →
      Good (stepS D E x op).1 ∧ (stepS D E x op).1.w = (step D x.w op).1 ∧ (stepS D E x op).2 = (step D x.w op).2) ∧
    (∀ (e : ε) (owns : Bool) (cols : List Col) (codec pageSize : Nat) (createdBy : String) (ops : List Op),
      (sessionS D E e owns cols codec pageSize createdBy ops).2 = (fileOf D cols codec pageSize createdBy ops).2) :=
  ⟨fun x op g => stepS_good D E x op g (stepS_quiet D E hE x op g.err),
   fun e owns cols codec pageSize createdBy ops =>
     runS_quiet D E hE owns ops _ [] (good_init e cols codec pageSize createdBy)⟩

example : Quiet (Env.ofOracle quietOracle) ∧ Good (initS 0 toyCols 0 0 "x" : SW Nat) :=
  ⟨fun _ _ _ => rfl, good_init 0 toyCols 0 0 "x"⟩

/-- **(a) OK from close implies the file.**  If `carquet_writer_close` returns OK then
* the sink holds exactly the bytes the healthy writer produces for the same history
  (`fileOf … ops`), nothing is left in the buffer,
* every call returned what the healthy writer returns for it (so a non-OK status of an earlier
  call can only be a refused argument or a codec failure, never a stream failure),
* no stream operation of the whole session failed, and the error indicator is clear. -/
theorem C18_writer_close_ok_implies_file {ε : Type} (D : Deps) (E : Env ε) (e : ε) (owns : Bool)
    (cols : List Col) (codec pageSize : Nat) (createdBy : String) (ops : List Op)
    (hok : (sessionS D E e owns cols codec pageSize createdBy ops).2.getLast? = some .ok) :
    (sessionS D E e owns cols codec pageSize createdBy ops).1.s.delivered =
      (fileOf D cols codec pageSize createdBy ops).1 ∧
    (sessionS D E e owns cols codec pageSize createdBy ops).1.s.pending = [] ∧
    (sessionS D E e owns cols codec pageSize createdBy ops).2 = (fileOf D cols codec pageSize createdBy ops).2 ∧
    (∀ oc ∈ (sessionS D E e owns cols codec pageSize createdBy ops).1.log, oc.isFail = false) ∧
    (sessionS D E e owns cols codec pageSize createdBy ops).1.s.err = false :=
  (runS_ok D E owns ops _ [] hok).2 (good_init e cols codec pageSize createdBy)

/- non-vacuity: a session on a healthy stream ends with OK and the sink holds the 34-byte file -/
example : (sessionS toyDeps (Env.ofOracle quietOracle) 0 true toyCols 0 0 "x" toyOps).2 = [.ok, .ok, .ok, .ok] ∧
    (sessionS toyDeps (Env.ofOracle quietOracle) 0 true toyCols 0 0 "x" toyOps).1.s.delivered =
      [0x50, 0x41, 0x52, 0x31, 8, 8, 2, 1, 0, 0, 0, 2, 0, 0, 0, 4, 4, 1, 3, 0, 0, 0, 3, 2, 11, 4, 7, 15, 6, 0, 0, 0, 0x50, 0x41, 0x52, 0x31] := by
  decide

/-- **(a), which file.**  If close returns OK and no call failed inside the codec (status
`other`), the bytes the sink holds are the file of the sub-history `okCalls ops statuses` of the
calls that returned OK (the other calls were refused for their arguments and left the writer
untouched) — a history in which every call and the close return OK, so that `C05_written_table`
applies to it.  (A call that failed on the stream is not among them: by the theorem below close
would not have returned OK.  With the `ferror` check there is no "written by the next call"
case to describe: a row group whose write failed IS written again by the next call —
`flushRowGroupS` keeps it current — but close then reports FILE_WRITE.) -/
theorem C18_writer_close_ok_file_of_ok_calls {ε : Type} (D : Deps) (E : Env ε) (e : ε) (owns : Bool)
    (cols : List Col) (codec pageSize : Nat) (createdBy : String) (ops : List Op)
    (hok : (sessionS D E e owns cols codec pageSize createdBy ops).2.getLast? = some .ok)
    (hcodec : ∀ st ∈ (sessionS D E e owns cols codec pageSize createdBy ops).2, st ≠ .other) :
    (sessionS D E e owns cols codec pageSize createdBy ops).1.s.delivered =
      (fileOf D cols codec pageSize createdBy
        (okCalls ops (sessionS D E e owns cols codec pageSize createdBy ops).2)).1 ∧
    ∀ st ∈ (fileOf D cols codec pageSize createdBy
        (okCalls ops (sessionS D E e owns cols codec pageSize createdBy ops).2)).2, st = .ok := by
  obtain ⟨h1, _, h3, _, _⟩ := C18_writer_close_ok_implies_file D E e owns cols codec pageSize createdBy ops hok
  rw [h3] at hcodec hok ⊢
  rw [h1]
  unfold fileOf writesOf at hcodec hok ⊢
  simp only at hcodec hok ⊢
  generalize hw : ({ cols := cols, codec := codec, pageSize := pageSize, createdBy := createdBy } : W) = w0 at *
  rw [run_statuses] at hcodec hok ⊢
  simp only [List.nil_append] at hcodec hok ⊢
  have hsteps : ∀ st ∈ stepStatuses D w0 ops, st ≠ .other := fun st hm => hcodec st (by simp [hm])
  obtain ⟨s1, s2⟩ := okCalls_state D ops w0 [(close D (stateAfter D w0 ops)).2] hsteps
  have hclose : (close D (stateAfter D w0 ops)).2 = .ok := by simpa using hok
  obtain ⟨r1, _⟩ := Carquet.Proofs.WriterLayout.run_eq_close D ops w0 []
  obtain ⟨q1, _⟩ := Carquet.Proofs.WriterLayout.run_eq_close D
    (okCalls ops (stepStatuses D w0 ops ++ [(close D (stateAfter D w0 ops)).2])) w0 []
  refine ⟨by rw [r1, q1, s1], ?_⟩
  rw [run_statuses]
  intro st hm
  simp only [List.nil_append, List.mem_append, List.mem_singleton] at hm
  rcases hm with hm | hm
  · exact s2 st hm
  · rw [hm, s1]; exact hclose

/- non-vacuity: a history with a refused call (column 5 does not exist); close returns OK, no status is `other`,
and the sub-history of the OK calls is the history without that call -/
example : (sessionS toyDeps (Env.ofOracle quietOracle) 0 false toyCols 0 0 "x"
      (toyOps ++ [.batch ⟨5, 1, none, [[9, 0, 0, 0]], none⟩])).2 = [.ok, .ok, .ok, .invalidArgument, .ok] ∧
    okCalls (toyOps ++ [.batch ⟨5, 1, none, [[9, 0, 0, 0]], none⟩]) [.ok, .ok, .ok, .invalidArgument, .ok] = toyOps := by
  decide

/-- **(a), structurally valid.**  If close returns OK the sink holds a file with the Parquet
envelope whose footer metadata tile the data region (`C05_chunks_tile`): `PAR1`, the row groups'
chunks back to back from offset 4, the footer, its length, `PAR1`. -/
theorem C18_writer_close_ok_structurally_valid {ε : Type} (D : Deps) (E : Env ε) (e : ε) (owns : Bool)
    (cols : List Col) (codec pageSize : Nat) (createdBy : String) (ops : List Op)
    (hok : (sessionS D E e owns cols codec pageSize createdBy ops).2.getLast? = some .ok) :
    ∃ (data : Bytes) (md : FooterData),
      (sessionS D E e owns cols codec pageSize createdBy ops).1.s.delivered =
        magic ++ data ++ D.footer md ++ le32 (D.footer md).length ++ magic ∧
      md.cols = cols ∧ md.createdBy = createdBy ∧
      data.length = groupsSize md.rowGroups ∧ GroupsAt md.rowGroups 4 ∧
      md.numRows = (md.rowGroups.map (·.numRows)).sum := by
  obtain ⟨h1, _, h3, _, _⟩ := C18_writer_close_ok_implies_file D E e owns cols codec pageSize createdBy ops hok
  rw [h3] at hok
  rw [h1]
  exact Carquet.Properties.C05.C05_chunks_tile D cols codec pageSize createdBy ops hok

/-- **(b) A failed stream operation surfaces.**  If any stream operation of the session failed —
an `fwrite` of any call, the `fflush` or the `fclose` of close, in whatever way the environment
chose (short write, error, bytes kept or lost) — then `carquet_writer_close` does not return OK. -/
theorem C18_writer_failure_surfaces {ε : Type} (D : Deps) (E : Env ε) (e : ε) (owns : Bool)
    (cols : List Col) (codec pageSize : Nat) (createdBy : String) (ops : List Op)
    (oc : Outcome) (hmem : oc ∈ (sessionS D E e owns cols codec pageSize createdBy ops).1.log)
    (hfail : oc.isFail = true) :
    (sessionS D E e owns cols codec pageSize createdBy ops).2.getLast? ≠ some .ok := by
  intro hok
  have := (C18_writer_close_ok_implies_file D E e owns cols codec pageSize createdBy ops hok).2.2.2.1 oc hmem
  rw [this] at hfail
  cases hfail

/- non-vacuity: a transient fault in the row-group write of `new_row_group`; the caller carries on, every later
operation succeeds, the row group is written again by close — and close reports FILE_WRITE -/
example : (sessionS toyDeps (Env.ofOracle transientOracle) 0 true toyCols 0 0 "x" toyOps).2 = [.ok, .fileWrite, .ok, .fileWrite] ∧
    (.drop 3 0) ∈ (sessionS toyDeps (Env.ofOracle transientOracle) 0 true toyCols 0 0 "x" toyOps).1.log := by
  decide

/-- **(c) The caller may carry on or retry after a failed call.**  Whatever the caller does after
a call that returned FILE_WRITE — go on writing batches into the row group that is still current,
call `new_row_group` again (the row group is finalised and written again, the header magic is
retried by every call), or close — and even if every later stream operation succeeds (a transient
fault): close does not return OK; so OK from close still implies (a).  This is what the sticky
error indicator consulted at close (fix F42) buys, and what seeded change C05b-2 removes. -/
theorem C18_writer_failed_call_poisons_close {ε : Type} (D : Deps) (E : Env ε) (e : ε) (owns : Bool)
    (cols : List Col) (codec pageSize : Nat) (createdBy : String) (ops : List Op)
    (hfw : Status.fileWrite ∈ (sessionS D E e owns cols codec pageSize createdBy ops).2) :
    (sessionS D E e owns cols codec pageSize createdBy ops).2.getLast? ≠ some .ok := by
  rcases runS_fw D E owns ops _ [] hfw with h | h
  · cases h
  · exact h

/-- a call reports FILE_WRITE only with the error indicator set; a `write_batch` that reports it
(it can only have failed on the header magic) leaves the writer exactly as it was, so the next
call writes the magic again.  (Until fix F23 the state also had a `carry` component — what failed
finalisations had left in the row-group writer's `total_byte_size` — and the statement said it is
unchanged as well; `carquet_row_group_writer_finalize` now starts from 0, the component is gone.) -/
theorem C18_writer_failed_call_state {ε : Type} (D : Deps) (E : Env ε) (x : SW ε) :
    (∀ op, (stepS D E x op).2 = .fileWrite → (stepS D E x op).1.s.err = true) ∧
    (∀ b, (stepS D E x (.batch b)).2 = .fileWrite →
      (stepS D E x (.batch b)).1.w = x.w) := by
  refine ⟨fun op h => stepS_fw D E x op h, fun b h => ?_⟩
  simp only [stepS, writeBatchS] at h ⊢
  split
  · rfl
  · rename_i c hc
    simp only [hc] at h
    by_cases ho : (ensureHeaderS E x).2 = .ok
    · simp only [ho, if_true] at h
      exact absurd h (writeBatch_ne_fw D x.w b)
    · simp only [ho, if_false]
      exact ensureHeaderS_retry E x ho

/-- **Regression F42 / seeded change C05b-2**: the close that does not consult the error
indicator (`closeSNoFerror`, the tree before fix F42).  A transient fault cuts the row-group write
of `new_row_group` short after 3 bytes (the call reports FILE_WRITE), the caller carries on, every
later stream operation succeeds: that close returns OK although the sink holds the 3 stray bytes,
both batches merged into one row group written at the second attempt — not the file of the
history, nor of its OK calls.  (Before fix F23 the footer's `total_byte_size` also counted the first
attempt.)  The close of the current tree reports FILE_WRITE on the same session. -/
theorem C18_regression_F42 :
    (closeSNoFerror toyDeps (Env.ofOracle transientOracle) true
      ((toyOps.foldl (fun x op => (stepS toyDeps (Env.ofOracle transientOracle) x op).1) (initS 0 toyCols 0 0 "x")))).2 = .ok ∧
    (closeSNoFerror toyDeps (Env.ofOracle transientOracle) true
      ((toyOps.foldl (fun x op => (stepS toyDeps (Env.ofOracle transientOracle) x op).1) (initS 0 toyCols 0 0 "x")))).1.s.delivered
      ≠ (fileOf toyDeps toyCols 0 0 "x" toyOps).1 ∧
    (closeSNoFerror toyDeps (Env.ofOracle transientOracle) true
      ((toyOps.foldl (fun x op => (stepS toyDeps (Env.ofOracle transientOracle) x op).1) (initS 0 toyCols 0 0 "x")))).1.s.delivered
      ≠ (fileOf toyDeps toyCols 0 0 "x" [toyOps[0], toyOps[2]]).1 ∧
    (closeS toyDeps (Env.ofOracle transientOracle) true
      ((toyOps.foldl (fun x op => (stepS toyDeps (Env.ofOracle transientOracle) x op).1) (initS 0 toyCols 0 0 "x")))).2 = .fileWrite := by
  decide

end Carquet.Properties.C18
