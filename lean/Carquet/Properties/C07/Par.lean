import Carquet.Impl.Par
import Carquet.Proofs.Par
import Carquet.Proofs.ParIO
import Carquet.Proofs.ParLazy
import Carquet.Proofs.ParAdaptive
/-
C07 — parallel reading is independent of thread count and schedule (partial by nature).

Every theorem below quantifies over ALL interleavings (`IsMerge`: all order-preserving merges of
the workers' action lists; `Proofs/Par.lean: isMerge_iff` shows it is exactly that set), for ANY
number of workers and ANY action lists — of the MODEL `Impl.Par`.  That the model's shared
footprint is complete (no other state shared between the OpenMP workers of
`carquet_batch_reader_next`, every seek/read of the fread path inside a critical section) is
validated on the real code by hook traces and ThreadSanitizer, not proved.

Memory-model assumption of the model (recorded in tools/parts/par.py): a schedule is a sequence of
atomic primitive steps, i.e. sequential consistency for the steps modelled.  For the stdio steps
this is given by the stream lock / the critical section; for the lazily initialised tables it
needs (a) aligned word stores are single-copy atomic and (b) stores become visible to other
threads in program order and loads are not reordered with older loads (x86-TSO gives both; the
compiler must not move the table stores past the flag store — the flag is `volatile` in crc32.c
and detect.c, a plain `int` in dispatch.c).
-/
namespace Carquet.Properties.C07
open Carquet.Impl.Par Carquet.Proofs.Par

/-- If every action of every worker leaves the shared store as it found it (it touches only its
private store and reads shared state), then every interleaving leaves the shared store unchanged
and gives every worker the private store of the sequential execution (worker 0, then 1, ...),
which is also what the worker gets when it runs alone. -/
theorem C07_private_commute (ls : List (List Action))
    (hro : ∀ l ∈ ls, ∀ a ∈ l, ∀ sh p, (runSP a.prims sh p).1 = sh)
    (s : List (Worker × Action)) (hm : IsMerge ls s) (st : State) :
    (exec s st).sh = st.sh ∧
    ∀ w, (exec s st).pr w = (exec (sequential ls) st).pr w ∧
         (exec s st).pr w = (exec (solo w (ls.getD w [])) st).pr w := by
  have hA : ∀ w, ∀ a ∈ ls.getD w [], OwnDet (fun _ sh => sh) w a :=
    fun w a _ => ownDet_of_readonly w a
  have hB : ∀ w, ∀ a ∈ ls.getD w [], OthersKept (fun _ sh => sh) w a := by
    intro w a ha
    obtain ⟨l, hl, hal⟩ := mem_getD_mem ha
    exact othersKept_of_readonly w a (hro l hl a hal)
  refine ⟨?_, fun w => ?_⟩
  · apply exec_sh_of_readonly
    intro e he
    have : e.2 ∈ ls.getD e.1 [] := by
      rw [← isMerge_proj_eq hm e.1]
      simp only [proj, List.mem_map, List.mem_filter, beq_iff_eq]
      exact ⟨e, ⟨he, rfl⟩, rfl⟩
    obtain ⟨l, hl, hal⟩ := mem_getD_mem this
    exact hro l hl e.2 hal
  · have h1 := merges_agree _ ls hA hB s hm st w
    have h2 := merges_agree _ ls hA hB (sequential ls) (isMerge_sequential ls) st w
    exact ⟨h1.trans h2.symm, h1⟩

-- non-vacuity: two workers reading (overlapping) immutable bytes
example : IsMerge [[Action.prim (.load 0 2)], [Action.prim (.load 1 2), Action.prim .useTable]]
    [(1, .prim (.load 1 2)), (0, .prim (.load 0 2)), (1, .prim .useTable)] := by
  rw [← isMerge_iff]; decide

/-- mmap and buffer modes: the page loads of the columns (worker `w` loads the pages `cols[w]`,
each `(offset, header size, compressed size)`) are reads of immutable bytes; under every
interleaving each column reader obtains exactly its own pages' bytes — the sequential result. -/
theorem C07_mmap_schedule_independent (cols : List (List (Nat × Nat × Nat)))
    (s : List (Worker × Action)) (hm : IsMerge (cols.map chunkMmap) s) (st : State) (w : Worker) :
    (exec s st).pr w = (exec (sequential (cols.map chunkMmap)) st).pr w ∧
    (exec s st).pr w = st.pr w ++ chunkBytes st.sh.file (cols.getD w []) := by
  have hro : ∀ l ∈ cols.map chunkMmap, ∀ a ∈ l, ∀ sh p, (runSP a.prims sh p).1 = sh := by
    intro l hl a ha
    obtain ⟨pages, _, rfl⟩ := List.mem_map.1 hl
    exact readonly_chunkMmap pages a ha
  have h := (C07_private_commute _ hro s hm st).2 w
  refine ⟨h.1, ?_⟩
  rw [h.2]
  have e : (cols.map chunkMmap).getD w [] = chunkMmap (cols.getD w []) := by
    simp only [List.getD_eq_getElem?_getD, List.getElem?_map]
    cases cols[w]? <;> simp [chunkMmap]
  rw [e]
  exact (solo_chunkMmap w _ st).1

/-- The repaired fread mode, in general form: if every action on the shared stream is an atomic
section that starts with an absolute seek on the stream it then reads (or is a read of immutable
bytes), then every interleaving gives every worker the private store of the sequential execution,
which is also what it gets when it runs alone. -/
theorem C07_fread_atomic_sections (ls : List (List Action))
    (hat : ∀ l ∈ ls, ∀ a ∈ l, a.atomicIO = true)
    (s : List (Worker × Action)) (hm : IsMerge ls s) (st : State) (w : Worker) :
    (exec s st).pr w = (exec (sequential ls) st).pr w ∧
    (exec s st).pr w = (exec (solo w (ls.getD w [])) st).pr w := by
  have hA : ∀ w, ∀ a ∈ ls.getD w [], OwnDet (fun _ sh => sh.file) w a := by
    intro w a ha
    obtain ⟨l, hl, hal⟩ := mem_getD_mem ha
    exact ownDet_of_atomicIO w a (hat l hl a hal)
  have hB : ∀ w, ∀ a ∈ ls.getD w [], OthersKept (fun _ sh => sh.file) w a :=
    fun w a _ => othersKept_file w a
  have h1 := merges_agree _ ls hA hB s hm st w
  have h2 := merges_agree _ ls hA hB (sequential ls) (isMerge_sequential ls) st w
  exact ⟨h1.trans h2.symm, h1⟩

/-- Instance for the page loads of `load_next_page_fread` after the repair (all columns on the one
shared stream `f`): under every interleaving each column reader obtains exactly its own pages'
bytes — the same bytes the mmap path delivers. -/
theorem C07_fread_pages_schedule_independent (f : Nat) (cols : List (List (Nat × Nat × Nat)))
    (s : List (Worker × Action)) (hm : IsMerge (cols.map (chunkFread f)) s) (st : State) (w : Worker) :
    (exec s st).pr w = (exec (sequential (cols.map (chunkFread f))) st).pr w ∧
    (exec s st).pr w = st.pr w ++ chunkBytes st.sh.file (cols.getD w []) := by
  have hat : ∀ l ∈ cols.map (chunkFread f), ∀ a ∈ l, a.atomicIO = true := by
    intro l hl a ha
    obtain ⟨pages, _, rfl⟩ := List.mem_map.1 hl
    exact atomicIO_chunkFread f pages a ha
  have h := C07_fread_atomic_sections _ hat s hm st w
  refine ⟨h.1, ?_⟩
  rw [h.2]
  have e : (cols.map (chunkFread f)).getD w [] = chunkFread f (cols.getD w []) := by
    simp only [List.getD_eq_getElem?_getD, List.getElem?_map]
    cases cols[w]? <;> simp [chunkFread]
  rw [e]
  exact (solo_chunkFread w f _ st).1

-- non-vacuity: two columns, one page each, on one stream; 6 interleavings, one shown
example : IsMerge ([[(0, 2, 4)], [(8, 3, 4)]].map (chunkFread 0))
    [(0, .crit [.seek 0 0, .read 0 256]), (1, .crit [.seek 0 8, .read 0 256]),
     (1, .crit [.seek 0 11, .read 0 4]), (0, .crit [.seek 0 2, .read 0 4])] := by
  rw [← isMerge_iff]; decide

example : (interleavings ([[(0, 2, 4)], [(8, 3, 4)]].map (chunkFread 0))).length = 6 := by decide

/-- Adaptive form (the next action of a worker is a function of the bytes it has obtained so far,
as in the C code, where the header just read determines the next seek offset and read size).  If
every action a worker can ever emit is an atomic section / immutable read, then after ANY schedule
of turns worker `w` holds what it holds after the same number of turns taken alone; hence any two
schedules in which `w` has finished give it the same private store — in particular the sequential
one.  No assumption on the other workers' progress, none on the number of workers. -/
theorem C07_adaptive_atomic_sections (progs : Worker → Prog)
    (hat : ∀ w p a, progs w p = some a → a.atomicIO = true) (st : State) (w : Worker) :
    (∀ s : List Worker, (execTurns progs s st).pr w =
        (execTurns progs (List.replicate (s.count w) w) st).pr w) ∧
    (∀ s₁ s₂ : List Worker,
        progs w ((execTurns progs s₁ st).pr w) = none →
        progs w ((execTurns progs s₂ st).pr w) = none →
        (execTurns progs s₁ st).pr w = (execTurns progs s₂ st).pr w) := by
  have hA : ∀ w p a, progs w p = some a → OwnDet (fun _ sh => sh.file) w a :=
    fun w p a h => ownDet_of_atomicIO w a (hat w p a h)
  have hB : ∀ w p a, progs w p = some a → OthersKept (fun _ sh => sh.file) w a :=
    fun w _ a _ => othersKept_file w a
  have hsolo := fun s => (turns_noninterference (fun _ sh => sh.file) progs hA hB s st w).1
  refine ⟨hsolo, ?_⟩
  intro s₁ s₂ h1 h2
  rw [hsolo s₁] at h1 ⊢
  rw [hsolo s₂] at h2 ⊢
  rcases Nat.le_total (s₁.count w) (s₂.count w) with hle | hle
  · rw [solo_turns_mono progs w _ _ hle st h1]
  · rw [solo_turns_mono progs w _ _ hle st h2]

/-- a reader whose second read size is the first byte it read (a one-byte "header") -/
def headerDrivenProg : Worker → Prog := fun _ p =>
  match p with
  | [] => some (Action.crit [.seek 0 0, .read 0 1])
  | [.bytes [n]] => some (Action.crit [.seek 0 1, .read 0 n.toNat])
  | _ => none

-- non-vacuity of the adaptive theorem
example : ∀ w p a, headerDrivenProg w p = some a → a.atomicIO = true := by
  intro w p a h
  unfold headerDrivenProg at h
  split at h
  · cases h; rfl
  · cases h; rfl
  · cases h

example : (execTurns headerDrivenProg [1, 0, 1, 0, 0] (initState [3, 10, 11, 12, 13] 0)).pr 0 =
    [.bytes [3], .bytes [10, 11, 12]] := by decide

/-! #### F21: the pinned (unsynchronised) fread path -/

/-- 16-byte file; column A = bytes 0..7 (page at 0, header 2 bytes, body 4), column B = bytes
8..15 (page at 8, header 3 bytes, body 4). -/
def f21File : List UInt8 := [0,1,2,3,4,5,6,7, 100,101,102,103,104,105,106,107]

def f21Workers : List (List Action) :=
  [chunkFreadPreFix 0 [(0, 2, 4)], chunkFreadPreFix 0 [(8, 3, 4)]]

/-- worker 0 seeks to its page, worker 1 seeks to its own page, then worker 0 reads -/
def f21Schedule : List (Worker × Action) :=
  [(0, .prim (.seek 0 0)), (1, .prim (.seek 0 8)), (0, .prim (.read 0 256)),
   (1, .prim (.read 0 256)), (1, .prim (.seek 0 11)), (1, .prim (.read 0 4)),
   (0, .prim (.seek 0 2)), (0, .prim (.read 0 4))]

/-- Negative witness (F21, kernel-checked): an interleaving of the un-synchronised
`[seek; read; seek; read]` page loads of two columns sharing one `FILE*` in which worker 0's header
read returns column B's bytes (and worker 1's returns nothing), whereas sequentially — and under
the repaired, atomic page loads — each worker reads its own column. -/
theorem C07_fread_unsynchronised_counterexample :
    IsMerge f21Workers f21Schedule ∧
    (exec f21Schedule (initState f21File 0)).pr 0 =
      [.bytes [100,101,102,103,104,105,106,107], .bytes [2,3,4,5]] ∧
    (exec (sequential f21Workers) (initState f21File 0)).pr 0 =
      [.bytes [0,1,2,3,4,5,6,7, 100,101,102,103,104,105,106,107], .bytes [2,3,4,5]] ∧
    (exec f21Schedule (initState f21File 0)).pr 1 ≠
      (exec (sequential f21Workers) (initState f21File 0)).pr 1 := by
  refine ⟨?_, ?_, ?_, ?_⟩
  · rw [← isMerge_iff]; decide
  · decide
  · decide
  · decide

/-- `C07_regression_F21`: the conclusion of `C07_fread_atomic_sections` is false for the pre-fix
page loads (so the hypothesis `atomicIO` cannot be dropped). -/
theorem C07_regression_F21 :
    ¬ (∀ (s : List (Worker × Action)), IsMerge f21Workers s → ∀ w,
        (exec s (initState f21File 0)).pr w = (exec (sequential f21Workers) (initState f21File 0)).pr w) := by
  intro h
  have := h f21Schedule C07_fread_unsynchronised_counterexample.1 0
  rw [C07_fread_unsynchronised_counterexample.2.1, C07_fread_unsynchronised_counterexample.2.2.1] at this
  exact absurd this (by decide)

/-! #### N independent reader handles -/

/-- Independent reader handles (each with its own `FILE*`: worker `w` uses stream `w` only; or
its own mapping / the same immutable buffer), used concurrently: under every interleaving each
reader obtains what it obtains when used alone, which is also the sequential result. -/
theorem C07_independent_readers (ls : List (List Action))
    (hown : ∀ w, ∀ a ∈ ls.getD w [], a.onStream w = true)
    (s : List (Worker × Action)) (hm : IsMerge ls s) (st : State) (w : Worker) :
    (exec s st).pr w = (exec (solo w (ls.getD w [])) st).pr w ∧
    (exec s st).pr w = (exec (sequential ls) st).pr w := by
  have hA : ∀ w, ∀ a ∈ ls.getD w [], OwnDet streamView w a :=
    fun w a ha => ownDet_of_onStream w a (hown w a ha)
  have hB : ∀ w, ∀ a ∈ ls.getD w [], OthersKept streamView w a :=
    fun w a ha => othersKept_of_onStream w a (hown w a ha)
  have h1 := merges_agree _ ls hA hB s hm st w
  have h2 := merges_agree _ ls hA hB (sequential ls) (isMerge_sequential ls) st w
  exact ⟨h1, h1.trans h2.symm⟩

-- non-vacuity: two readers, each with the *unsynchronised* page load on its own stream
example : ∀ w, ∀ a ∈ [chunkFreadPreFix 0 [(0, 2, 4)], chunkFreadPreFix 1 [(0, 2, 4)]].getD w [],
    a.onStream w = true := by
  intro w a ha
  match w with
  | 0 => revert a; decide
  | 1 => revert a; decide
  | w + 2 => simp at ha

/-! #### lazy initialisation at first use -/

/-- Concurrent lazy initialisation (`crc32_init_tables`, and with `final` read as "the value every
initialiser computes for cell `i`" also `carquet_init`'s detected bits).  Let every worker follow
the initialiser discipline for the table `final`: it stores into cell `i` only the value
`final[i]`, and stores the flag only after having stored every cell itself.  Then in EVERY state
reachable by ANY schedule `s` (any number of initialisers and readers, any interleaving, any
prefix of it):
 * every cell is either still unwritten or holds its final value (initialisers write only values
   equal to the final ones);
 * if the flag is set the table is complete and final — a reader that observes "initialised"
   sees the final table;
 * every cell a worker has itself stored holds its final value afterwards, so a reader that
   observed "not initialised" and ran the initialiser sees the final table too;
 * every (flag, table) snapshot logged by a reader satisfies the same two statements. -/
theorem C07_lazy_init_idempotent (final : List Nat) (file : List UInt8)
    (s : List (Worker × Action))
    (hd : ∀ w, InitDiscipline final.length (fun i v => final[i]? = some v)
                 ((proj w s).flatMap Action.prims)) :
    (∀ i, i < final.length →
        (exec s (initState file final.length)).sh.table[i]? = some none ∨
        (exec s (initState file final.length)).sh.table[i]? = some final[i]?) ∧
    ((exec s (initState file final.length)).sh.flag = true →
        (exec s (initState file final.length)).sh.table = final.map some) ∧
    (∀ w i v, Prim.initCell i v ∈ (proj w s).flatMap Action.prims →
        (exec s (initState file final.length)).sh.table[i]? = some (some v) ∧ final[i]? = some v) ∧
    (∀ w fl cells, Obs.table fl cells ∈ (exec s (initState file final.length)).pr w →
        (∀ i, i < final.length → cells[i]? = some none ∨ cells[i]? = some final[i]?) ∧
        (fl = true → cells = final.map some)) := by
  have inv := lazyInv_exec (n := final.length) (good := fun i v => final[i]? = some v)
    (flat s) [] _ (lazyInv_init file final.length _)
    (by intro w; simpa [proj_flat] using hd w)
  simp only [List.nil_append] at inv
  have cellcase : ∀ (cells : List (Option Nat)), cells.length = final.length →
      (∀ (i v : Nat), cells[i]? = some (some v) → final[i]? = some v) →
      ∀ (i : Nat), i < final.length → cells[i]? = some none ∨ cells[i]? = some final[i]? := by
    intro cells hl hg i hi
    have hi' : i < cells.length := hl ▸ hi
    have hsome : cells[i]? = some (cells[i]'hi') := List.getElem?_eq_getElem hi'
    cases hc : cells[i]'hi' with
    | none => left; rw [hsome, hc]
    | some v =>
      right
      have := hg i v (by rw [hsome, hc])
      rw [hsome, hc, this]
  have fullcase : ∀ (cells : List (Option Nat)), cells.length = final.length →
      (∀ (i v : Nat), cells[i]? = some (some v) → final[i]? = some v) →
      (∀ (i : Nat), i < final.length → ∃ v, cells[i]? = some (some v)) → cells = final.map some := by
    intro cells hl hg hf
    apply List.ext_getElem?
    intro i
    by_cases hi : i < final.length
    · obtain ⟨v, hv⟩ := hf i hi
      have := hg i v hv
      simp [hv, this]
    · have h1 : cells.length ≤ i := by omega
      have h2 : final.length ≤ i := by omega
      simp [List.getElem?_eq_none h1, List.getElem?_eq_none h2]
  obtain ⟨hlen, hgood, hfull⟩ := inv.table
  refine ⟨cellcase _ hlen hgood, fun hf => fullcase _ hlen hgood (hfull hf), ?_, ?_⟩
  · intro w i v hm
    have hm' : Prim.initCell i v ∈ proj w (flat s) := by rw [proj_flat]; exact hm
    obtain ⟨v', hv'⟩ := inv.own w i v hm'
    have h1 : i < final.length ∧ final[i]? = some v := (hd w).1 i v hm
    have h2 : final[i]? = some v' := hgood i v' hv'
    have : v' = v := by rw [h1.2] at h2; exact (Option.some.inj h2).symm
    subst this
    exact ⟨hv', h1.2⟩
  · intro w fl cells ho
    have := inv.obs w _ ho
    simp only [ObsOK] at this
    obtain ⟨hl, hg, hf⟩ := this
    exact ⟨cellcase _ hl hg, fun h => fullcase _ hl hg (hf h)⟩

/-- The dispatch table variant (`carquet_simd_dispatch_init` stores the scalar kernel into every
slot first and then overrides slots with the SSE4.2 / AVX2 / AVX-512 kernels, so concurrent
initialisers do NOT write only final values): whatever value a slot is observed to hold was stored
by some initialiser, hence satisfies `good` (to be read as: "is a kernel extensionally equal to
the scalar one" — property C15), and a set flag means no slot is empty. -/
theorem C07_lazy_init_dispatch (n : Nat) (good : Nat → Nat → Prop) (file : List UInt8)
    (s : List (Worker × Action))
    (hd : ∀ w, InitDiscipline n good ((proj w s).flatMap Action.prims)) :
    TableOK n good (exec s (initState file n)).sh.flag (exec s (initState file n)).sh.table ∧
    ∀ w, ∀ o ∈ (exec s (initState file n)).pr w, ObsOK n good o := by
  have inv := lazyInv_exec (n := n) (good := good) (flat s) [] _ (lazyInv_init file n _)
    (by intro w; simpa [proj_flat] using hd w)
  exact ⟨inv.table, inv.obs⟩

/-- The C initialisers follow the discipline.  General form: an initialiser that stores only
acceptable values, stores every cell at least once (possibly several times: scalar kernel first,
SIMD override later) and stores the flag last — and every prefix of it (an initialiser that has
not finished yet). -/
theorem C07_initialiser_discipline (writes : List (Nat × Nat)) (n : Nat) (good : Nat → Nat → Prop)
    (hgood : ∀ iv ∈ writes, iv.1 < n ∧ good iv.1 iv.2)
    (hcover : ∀ i, i < n → ∃ v, (i, v) ∈ writes) (k : Nat) :
    InitDiscipline n good (((initialiser writes).take k).flatMap Action.prims) :=
  initialiser_discipline writes n good hgood hcover k

/-- `crc32_init_tables`-shaped initialisers (cell `i` gets `vals[i]`, once, in index order, then
the flag) and their prefixes follow the idempotent discipline. -/
theorem C07_tableInitialiser_discipline (vals : List Nat) (k : Nat) :
    InitDiscipline vals.length (fun i v => vals[i]? = some v)
      (((tableInitialiser vals).take k).flatMap Action.prims) := by
  apply initialiser_discipline
  · intro iv hiv
    have := (mem_cellsFrom 0 vals iv.1 iv.2 hiv).2
    simp only [Nat.sub_zero] at this
    refine ⟨?_, this⟩
    rcases Nat.lt_or_ge iv.1 vals.length with h | h
    · exact h
    · simp [List.getElem?_eq_none h] at this
  · intro i hi
    obtain ⟨v, hv⟩ := cellsFrom_covers 0 vals i hi
    exact ⟨v, by simpa using hv⟩

/-- instance: `crc32_init_tables` itself (2048 cells, cell `256·k + i` = `crc32_tables[k][i]` as
computed by the model of the CRC component) -/
theorem C07_crc_init_discipline (k : Nat) :
    InitDiscipline crcTableValues.length (fun i v => crcTableValues[i]? = some v)
      ((crcInitialiser.take k).flatMap Action.prims) :=
  C07_tableInitialiser_discipline crcTableValues k

-- non-vacuity of the lazy-init theorem: three concurrent initialisers of a 2-cell table and a
-- reader, stopped at an arbitrary point
example : ∀ w, InitDiscipline [7, 9].length (fun i v => [7, 9][i]? = some v)
    ((proj w ([(0, Action.prim (.initCell 0 7)), (1, .prim (.initCell 0 7)), (3, .prim .useTable),
               (0, .prim (.initCell 1 9)), (0, .prim .setFlag), (3, .prim .useTable),
               (1, .prim (.initCell 1 9))] : List (Worker × Action))).flatMap Action.prims) := by
  intro w
  match w with
  | 0 => exact C07_tableInitialiser_discipline [7, 9] 3
  | 1 => exact C07_tableInitialiser_discipline [7, 9] 2
  | 2 => exact C07_tableInitialiser_discipline [7, 9] 0
  | 3 =>
    refine ⟨?_, ?_⟩
    · intro i v hm
      have : Prim.initCell i v ∈ [Prim.useTable, Prim.useTable] := hm
      simp at this
    intro pre post e
    have : Prim.setFlag ∈ [Prim.useTable, Prim.useTable] := by
      have e' : [Prim.useTable, Prim.useTable] = pre ++ Prim.setFlag :: post := e
      rw [e']; simp
    simp at this
  | w + 4 => exact C07_tableInitialiser_discipline [7, 9] 0

/-- `carquet_init` (src/simd/detect.c) does NOT follow the idempotent discipline: it clears
`g_cpu_info` (`memset`) before storing the detected bits.  Kernel-checked witness: initialiser 0
completes and sets the flag, initialiser 1 (which saw the flag clear earlier) then clears cell 0; a
reader that observes "initialised" sees the value 0 instead of the final value 1. -/
theorem C07_cpu_info_memset_not_idempotent :
    (exec [(0, Action.prim (.initCell 0 0)), (0, .prim (.initCell 0 1)), (0, .prim .setFlag),
           (1, .prim (.initCell 0 0)), (2, .prim .useTable)]
      (initState [] 1)).pr 2 = [.table true [some 0]] := by
  decide

end Carquet.Properties.C07
