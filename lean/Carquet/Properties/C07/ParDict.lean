import Carquet.Impl.ParDict
import Carquet.Proofs.ParDict
import Carquet.Properties.C07.Par
/-
C07, second part: dictionary-encoded column chunks under parallel reading, the critical-section
structure of recorded traces, and the cold-start batch read as ONE theorem (see
`Properties/C07/ParCold.lean`).

As in the first part every theorem quantifies over ALL interleavings of the MODEL.  New in the
model (`Impl/ParDict.lean`): every stdio access of the fread path is a `file_read_at` = one critical
section `[seek f o; read f n]`; a page load is one or more header reads (`read_page_header_fread`:
windows 256, 512, ..) and a body read; a chunk is [a probe header read] + the dictionary page load +
the data page loads.
-/
namespace Carquet.Properties.C07
open Carquet.Impl.Par Carquet.Proofs.Par

/-- Workers that perform ANY lists of reads through `file_read_at` on ONE shared stream `f`
(`rss[w]` = the `(offset, size)` pairs of worker `w`): under every interleaving every worker
obtains exactly the bytes at its own offsets — the sequential result. -/
theorem C07_fread_reads_schedule_independent (f : Nat) (rss : List (List (Nat × Nat)))
    (s : List (Worker × Action)) (hm : IsMerge (rss.map (readsFread f)) s) (st : State) (w : Worker) :
    (exec s st).pr w = (exec (sequential (rss.map (readsFread f))) st).pr w ∧
    (exec s st).pr w = st.pr w ++ readsBytes st.sh.file (rss.getD w []) := by
  have hat : ∀ l ∈ rss.map (readsFread f), ∀ a ∈ l, a.atomicIO = true := by
    intro l hl a ha
    obtain ⟨rs, _, rfl⟩ := List.mem_map.1 hl
    exact atomicIO_readsFread f rs a ha
  have h := C07_fread_atomic_sections _ hat s hm st w
  refine ⟨h.1, ?_⟩
  rw [h.2, getD_map (readsFread f) rss w [] [] rfl]
  exact (solo_readsFread w f _ st).1

/-- Dictionary-encoded chunks, fread mode (all column readers on the reader's one `FILE*` `f`):
worker `w` loads the chunk `cols[w]` — [probe header read,] dictionary page (header read(s), body
read), then its data pages (header read(s), body read each), every read a `file_read_at`.  Under
every interleaving each column reader obtains exactly the bytes of its own pages. -/
theorem C07_fread_dict_chunks_schedule_independent (f : Nat) (cols : List ChunkLoc)
    (s : List (Worker × Action)) (hm : IsMerge (cols.map (chunkFreadD f)) s) (st : State) (w : Worker) :
    (exec s st).pr w = (exec (sequential (cols.map (chunkFreadD f))) st).pr w ∧
    (exec s st).pr w = st.pr w ++ readsBytes st.sh.file (chunkReads (cols.getD w {})) := by
  have e : cols.map (chunkFreadD f) = (cols.map chunkReads).map (readsFread f) := by
    simp [chunkFreadD]
  rw [e] at hm ⊢
  have h := C07_fread_reads_schedule_independent f (cols.map chunkReads) s hm st w
  refine ⟨h.1, ?_⟩
  rw [h.2, getD_map chunkReads cols w {} [] rfl]

/-- The actions of `chunkFreadD` in the shape of the C code: [probe] + `load_dictionary_page_fread`
+ the page loads of `load_next_page_fread`. -/
theorem C07_chunkFreadD_shape (f : Nat) (c : ChunkLoc) :
    chunkFreadD f c =
      (match c.dict with
       | none => []
       | some d => (if c.probed then headerReadFread f d else []) ++ pageLoadFreadW f d) ++
      c.pages.flatMap (pageLoadFreadW f) :=
  chunkFreadD_shape f c

/-- The same chunks through mmap / the caller's buffer: reads of immutable bytes; every
interleaving gives every column reader its own bytes and leaves the shared store unchanged. -/
theorem C07_mmap_dict_chunks_schedule_independent (cols : List ChunkLoc)
    (s : List (Worker × Action)) (hm : IsMerge (cols.map chunkMmapD) s) (st : State) (w : Worker) :
    (exec s st).sh = st.sh ∧
    (exec s st).pr w = (exec (sequential (cols.map chunkMmapD)) st).pr w ∧
    (exec s st).pr w = st.pr w ++ readsBytes st.sh.file (chunkReadsMmap (cols.getD w {})) := by
  have hro : ∀ l ∈ cols.map chunkMmapD, ∀ a ∈ l, ∀ sh p, (runSP a.prims sh p).1 = sh := by
    intro l hl a ha
    obtain ⟨c, _, rfl⟩ := List.mem_map.1 hl
    exact readonly_readsMmap _ a ha
  have h := C07_private_commute _ hro s hm st
  refine ⟨h.1, (h.2 w).1, ?_⟩
  rw [(h.2 w).2, getD_map chunkMmapD cols w {} [] rfl]
  exact (solo_readsMmap w _ st).1

/-- fread = mmap: a chunk none of whose headers needed a second read window is read with the same
`(offset, size)` pairs in both modes, so (by the two theorems above) every column reader obtains the
same bytes in fread mode under any schedule as in mmap / buffer mode under any schedule. -/
theorem C07_dict_modes_agree (c : ChunkLoc) (hd : ∀ d, c.dict = some d → d.k = 0)
    (hp : ∀ p ∈ c.pages, p.k = 0) : chunkReads c = chunkReadsMmap c :=
  chunkReads_eq_mmap c hd hp

/-! #### the 16-byte example file: two chunks, each a dictionary page and a data page -/

/-- column A: dictionary page at 0 (header 2 bytes, body 2), data page at 4 (header 2, body 2);
column B: dictionary page at 8 (header 3, body 1), found by probing, data page at 12 (header 2, body 2) -/
def dictChunkA : ChunkLoc := { dict := some ⟨0, 2, 2, 0⟩, pages := [⟨4, 2, 2, 0⟩] }
def dictChunkB : ChunkLoc := { dict := some ⟨8, 3, 1, 0⟩, probed := true, pages := [⟨12, 2, 2, 0⟩] }

-- non-vacuity: the two chunk readers; 6 + 8 sections give 3003 interleavings, one is shown
example : chunkFreadD 0 dictChunkA =
    [.crit [.seek 0 0, .read 0 256], .crit [.seek 0 2, .read 0 2],
     .crit [.seek 0 4, .read 0 256], .crit [.seek 0 6, .read 0 2]] := by decide

example : chunkFreadD 0 dictChunkB =
    [.crit [.seek 0 8, .read 0 256], .crit [.seek 0 8, .read 0 256], .crit [.seek 0 11, .read 0 1],
     .crit [.seek 0 12, .read 0 256], .crit [.seek 0 14, .read 0 2]] := by decide

example : IsMerge ([dictChunkA, dictChunkB].map (chunkFreadD 0))
    [(0, .crit [.seek 0 0, .read 0 256]), (1, .crit [.seek 0 8, .read 0 256]),
     (1, .crit [.seek 0 8, .read 0 256]), (0, .crit [.seek 0 2, .read 0 2]),
     (1, .crit [.seek 0 11, .read 0 1]), (0, .crit [.seek 0 4, .read 0 256]),
     (1, .crit [.seek 0 12, .read 0 256]), (1, .crit [.seek 0 14, .read 0 2]),
     (0, .crit [.seek 0 6, .read 0 2])] := by
  rw [← isMerge_iff]; decide

-- a page whose header needs three windows
example : pageLoadFreadW 3 ⟨100, 700, 40, 2⟩ =
    [.crit [.seek 3 100, .read 3 256], .crit [.seek 3 100, .read 3 512],
     .crit [.seek 3 100, .read 3 1024], .crit [.seek 3 800, .read 3 40]] := by decide

/-! #### the seeded change C07b-2: the dictionary body read split into two critical sections -/

def splitWorkers : List (List Action) := [chunkFreadDSplit 0 dictChunkA, chunkFreadDSplit 0 dictChunkB]

/-- worker 0 reads its dictionary header and seeks to the dictionary body; worker 1's probe header
read comes in between; worker 0's body read then starts where worker 1's read ended (end of file) -/
def splitSchedule : List (Worker × Action) :=
  [(0, .crit [.seek 0 0, .read 0 256]), (0, .crit [.seek 0 2]),
   (1, .crit [.seek 0 8, .read 0 256]),
   (0, .crit [.read 0 2]),
   (0, .crit [.seek 0 4, .read 0 256]), (0, .crit [.seek 0 6, .read 0 2]),
   (1, .crit [.seek 0 8, .read 0 256]), (1, .crit [.seek 0 11]), (1, .crit [.read 0 1]),
   (1, .crit [.seek 0 12, .read 0 256]), (1, .crit [.seek 0 14, .read 0 2])]

/-- Kernel-checked: the split dictionary load (`critical { fseek }` + `critical { fread }`, every
stdio call still under the lock) violates the footprint condition `atomicIO` — the section holding
the `fread` does not start with a seek — while the load of the current code satisfies it; and there
is an interleaving of two such column readers on one `FILE*` in which worker 0's dictionary body
read returns nothing (sequentially: the bytes `[2, 3]`), so the conclusion of
`C07_fread_dict_chunks_schedule_independent` is false for the split loads. -/
theorem C07_dict_body_split_violates_footprint :
    (chunkFreadDSplit 0 dictChunkA).all Action.atomicIO = false ∧
    (Action.crit [.read 0 2]).atomicIO = false ∧
    (chunkFreadD 0 dictChunkA).all Action.atomicIO = true ∧
    IsMerge splitWorkers splitSchedule ∧
    (exec splitSchedule (initState f21File 0)).pr 0 =
      [.bytes [0,1,2,3,4,5,6,7, 100,101,102,103,104,105,106,107], .bytes [],
       .bytes [4,5,6,7, 100,101,102,103,104,105,106,107], .bytes [6,7]] ∧
    (exec (sequential splitWorkers) (initState f21File 0)).pr 0 =
      [.bytes [0,1,2,3,4,5,6,7, 100,101,102,103,104,105,106,107], .bytes [2,3],
       .bytes [4,5,6,7, 100,101,102,103,104,105,106,107], .bytes [6,7]] ∧
    ¬ (∀ (s : List (Worker × Action)), IsMerge splitWorkers s → ∀ w,
        (exec s (initState f21File 0)).pr w =
          (exec (sequential splitWorkers) (initState f21File 0)).pr w) := by
  have hm : IsMerge splitWorkers splitSchedule := by rw [← isMerge_iff]; decide
  have h1 : (exec splitSchedule (initState f21File 0)).pr 0 =
      [.bytes [0,1,2,3,4,5,6,7, 100,101,102,103,104,105,106,107], .bytes [],
       .bytes [4,5,6,7, 100,101,102,103,104,105,106,107], .bytes [6,7]] := by decide
  have h2 : (exec (sequential splitWorkers) (initState f21File 0)).pr 0 =
      [.bytes [0,1,2,3,4,5,6,7, 100,101,102,103,104,105,106,107], .bytes [2,3],
       .bytes [4,5,6,7, 100,101,102,103,104,105,106,107], .bytes [6,7]] := by decide
  refine ⟨by decide, by decide, by decide, hm, h1, h2, ?_⟩
  intro h
  have := h splitSchedule hm 0
  rw [h1, h2] at this
  exact absurd this (by decide)

/-- with the load of the current code the same order of turns gives worker 0 its own bytes -/
example : (exec [(0, .crit [.seek 0 0, .read 0 256]), (1, .crit [.seek 0 8, .read 0 256]),
                 (0, .crit [.seek 0 2, .read 0 2])] (initState f21File 0)).pr 0 =
    [.bytes [0,1,2,3,4,5,6,7, 100,101,102,103,104,105,106,107], .bytes [2,3]] := by decide

/-! #### data-dependent offsets: the adaptive chunk reader -/

/-- Column readers whose every offset comes out of the bytes read before (`chunkProg`: header read at
the current offset; the parsed header gives the body offset and size; the next page starts behind
the body — this is how the dictionary page determines `data_start_offset` and every page the
next one): after ANY schedule of turns worker `w` holds what it holds after the same number of
turns taken alone, and any two schedules in which `w` has finished agree.  `parse` is arbitrary. -/
theorem C07_adaptive_chunk_readers (parse : List UInt8 → Option (Nat × Nat)) (f : Nat)
    (chunk : Worker → Nat × Nat) (st : State) (w : Worker) :
    (∀ s : List Worker,
        (execTurns (fun w => chunkProg f (chunk w).1 (chunk w).2 parse) s st).pr w =
        (execTurns (fun w => chunkProg f (chunk w).1 (chunk w).2 parse) (List.replicate (s.count w) w) st).pr w) ∧
    (∀ s₁ s₂ : List Worker,
        chunkProg f (chunk w).1 (chunk w).2 parse
          ((execTurns (fun w => chunkProg f (chunk w).1 (chunk w).2 parse) s₁ st).pr w) = none →
        chunkProg f (chunk w).1 (chunk w).2 parse
          ((execTurns (fun w => chunkProg f (chunk w).1 (chunk w).2 parse) s₂ st).pr w) = none →
        (execTurns (fun w => chunkProg f (chunk w).1 (chunk w).2 parse) s₁ st).pr w =
        (execTurns (fun w => chunkProg f (chunk w).1 (chunk w).2 parse) s₂ st).pr w) :=
  C07_adaptive_atomic_sections _
    (fun w p a h => chunkProg_atomic f (chunk w).1 (chunk w).2 parse p a h) st w

/-- a toy header format: byte 0 = header size, byte 1 = body size -/
def toyParse : List UInt8 → Option (Nat × Nat)
  | h :: c :: _ => some (h.toNat, c.toNat)
  | _ => none

-- non-vacuity: a chunk of two pages (2-byte headers; bodies of 3 and 1 bytes) read by worker 0 while
-- worker 1 reads the second page as a chunk of its own
example : (execTurns (fun w => chunkProg 0 (if w = 0 then 0 else 5) (if w = 0 then 2 else 1) toyParse)
    [0, 1, 0, 1, 0, 0, 1] (initState [2, 3, 10, 11, 12, 2, 1, 20] 0)).pr 0 =
    [.bytes [2, 3, 10, 11, 12, 2, 1, 20], .bytes [10, 11, 12], .bytes [2, 1, 20], .bytes [20]] := by decide

/-! #### recorded traces with critical-section boundaries -/

/-- Tie of a recorded trace to the action model.  If the footprint check the driver runs on a trace
passes (`critFootprint`: the seek/read/section events are well bracketed, sections do not overlap,
every section is `[seek f o; read f n]`), then the trace IS the flattening of an action-level
schedule `s` of atomic sections: replaying the recorded seeks and reads one by one (`execPrims`) is
executing `s`, every action of `s` satisfies the hypothesis `atomicIO` of
`C07_fread_atomic_sections`, and so every thread obtained what it obtains when its own sections run
alone. -/
theorem C07_trace_is_atomic_section_schedule (es : List Ev) (h : critFootprint es = true) :
    ∃ s : List (Worker × Action),
      schedOfTrace es = some s ∧ flat s = primsOfTrace es ∧ (∀ e ∈ s, e.2.atomicIO = true) ∧
      ∀ (st : State) (w : Worker),
        execPrims (primsOfTrace es) st = exec s st ∧
        (exec s st).pr w = (exec (solo w (proj w s)) st).pr w := by
  obtain ⟨s, hs, hat⟩ := critFootprint_atomic es h
  have hf := schedOfTrace_flat es s hs
  refine ⟨s, hs, hf, hat, fun st w => ⟨?_, atomic_schedule_solo s hat st w⟩⟩
  rw [← hf]; rfl

/-- a recorded trace: thread 1 and thread 2 each perform one `file_read_at` -/
def traceGood : List Ev :=
  [⟨1, 5, 9, 0, 0⟩, ⟨1, 1, 1, 40, 0⟩, ⟨1, 2, 1, 256, 40⟩, ⟨1, 6, 9, 0, 0⟩,
   ⟨2, 5, 9, 0, 0⟩, ⟨2, 1, 1, 8, 296⟩, ⟨2, 2, 1, 256, 8⟩, ⟨2, 6, 9, 0, 0⟩]

/-- the trace the split body read leaves: the seek and the read of thread 1 in two sections, another
thread's section in between -/
def traceSplit : List Ev :=
  [⟨1, 5, 9, 0, 0⟩, ⟨1, 1, 1, 40, 0⟩, ⟨1, 6, 9, 0, 0⟩,
   ⟨2, 5, 9, 0, 0⟩, ⟨2, 1, 1, 8, 40⟩, ⟨2, 2, 1, 256, 8⟩, ⟨2, 6, 9, 0, 0⟩,
   ⟨1, 5, 9, 0, 0⟩, ⟨1, 2, 1, 30, 264⟩, ⟨1, 6, 9, 0, 0⟩]

-- non-vacuity, and the check rejects the split trace although its sections are well bracketed
example : critFootprint traceGood = true := by decide
example : schedOfTrace traceGood =
    some [(1, .crit [.seek 1 40, .read 1 256]), (2, .crit [.seek 1 8, .read 1 256])] := by decide
example : (schedOfTrace traceSplit).isSome = true ∧ critFootprint traceSplit = false := by decide

end Carquet.Properties.C07
