/-
C07 ("... for every interleaving of its worker threads"), the failure flag of `carquet_batch_reader_next`.  F99: the
column workers of one batch share a flag `read_error`; in the pinned code it was a plain `bool` that every failing worker
stored to (`read_error = true`, nine sites) and every worker loaded at the top of its iteration (`if (read_error) continue;`)
without any synchronisation - a data race in the sense of C11 5.1.2.4 (two conflicting accesses from different threads, at
least one of them not atomic, neither happening before the other), which ThreadSanitizer reports as soon as two workers
fail in the same batch or one fails while another starts an iteration (found by the thorough tier of the C07 check:
`par_tsan ... first_other=batch_reader.c:480`).  The repaired code makes every access inside the parallel loop atomic
(`omp atomic read` / `omp atomic write`); the accesses before and after the loop are ordered by the fork and the join.

The model is the access history of the flag inside the parallel region, nothing else.
-/
namespace Carquet.Properties.C07.FailureFlag

inductive Kind where | load | store
deriving DecidableEq, Repr

structure Access where
  thread : Nat
  kind : Kind
  atomic : Bool
deriving DecidableEq, Repr

/-- two accesses conflict and race: different threads, at least one store, not both atomic (inside one parallel loop no
two accesses of different threads are ordered by happens-before) -/
def races (a b : Access) : Bool :=
  a.thread != b.thread && (a.kind == .store || b.kind == .store) && !(a.atomic && b.atomic)

/-- a history has a data race when some pair of its accesses races -/
def hasRace (h : List Access) : Bool := h.any (fun a => h.any (fun b => races a b))

/-- the accesses one worker iteration makes in the repaired loop: the atomic load at the top and, if it fails, one
atomic store -/
def iterationFixed (t : Nat) (fails : Bool) : List Access :=
  ⟨t, .load, true⟩ :: (if fails then [⟨t, .store, true⟩] else [])

/-- ... and in the pinned loop: plain accesses -/
def iterationPinned (t : Nat) (fails : Bool) : List Access :=
  ⟨t, .load, false⟩ :: (if fails then [⟨t, .store, false⟩] else [])

theorem races_false_of_atomic (a b : Access) (ha : a.atomic = true) (hb : b.atomic = true) : races a b = false := by
  simp [races, ha, hb]

/-- **Any history made of atomic accesses is free of data races** - whatever the threads, the order and the number of
failing workers. -/
theorem C07_failure_flag_race_free (h : List Access) (hat : ∀ a ∈ h, a.atomic = true) : hasRace h = false := by
  unfold hasRace
  rw [List.any_eq_false]
  intro a ha
  rw [Bool.not_eq_true, List.any_eq_false]
  intro b hb
  rw [Bool.not_eq_true]
  exact races_false_of_atomic a b (hat a ha) (hat b hb)

/-- every interleaving of repaired iterations consists of atomic accesses -/
theorem iterationFixed_atomic (t : Nat) (f : Bool) : ∀ a ∈ iterationFixed t f, a.atomic = true := by
  intro a ha
  cases f <;> simp [iterationFixed] at ha
  · subst ha; rfl
  · cases ha with
    | inl h => subst h; rfl
    | inr h => subst h; rfl

/-- **The repaired loop**: the accesses of any number of worker iterations, in any order (any sublist-preserving merge is
again a list of these accesses), never race. -/
theorem C07_repaired_loop_race_free (its : List (Nat × Bool)) (h : List Access)
    (hsub : ∀ a ∈ h, ∃ it ∈ its, a ∈ iterationFixed it.1 it.2) : hasRace h = false := by
  apply C07_failure_flag_race_free
  intro a ha
  obtain ⟨it, _, hin⟩ := hsub a ha
  exact iterationFixed_atomic it.1 it.2 a hin

-- non-vacuity: two failing workers and one succeeding one, interleaved
example : hasRace (iterationFixed 0 true ++ iterationFixed 1 true ++ iterationFixed 2 false) = false := by decide

/-- **F99.**  Pinned loop: two workers that both fail race on the flag (store / store), and so do a failing worker and
one that merely tests the flag (store / load). -/
theorem C07_regression_F99 :
    hasRace (iterationPinned 0 true ++ iterationPinned 1 true) = true ∧
    hasRace (iterationPinned 0 true ++ iterationPinned 1 false) = true ∧
    hasRace (iterationPinned 0 false ++ iterationPinned 1 false) = false := by decide

end Carquet.Properties.C07.FailureFlag
