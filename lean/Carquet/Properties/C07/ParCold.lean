import Carquet.Impl.ParDict
import Carquet.Proofs.ParCold
import Carquet.Properties.C07.Par
import Carquet.Properties.C07.ParDict
/-
C07, third part: the cold-start batch read as ONE theorem, obtained FROM the separate ones
(`C07_fread_atomic_sections` for the stdio sections, `C07_lazy_init_idempotent` for the lazily built
CRC table) and the observation that stdio sections and table steps do not interact.

Model (`Impl/ParDict.lean`): a worker's program is a list of `file_read_at`s and CRC calls
(`Instr.io`, `Instr.crcCall`); a CRC call is the flag check, then — if the flag was seen clear —
the whole initialiser store by store (`initAt k`), then the table use (`carquet_crc32`:
`if (!crc32_tables_initialized) crc32_init_tables();` + look-ups).  A schedule is the order in which
workers take turns (one action of the model per turn); the sequential order `seqTurns` is
`num_threads = 1`.  The RESULT of a worker (`coldResult`) is what its private computation depends
on: the bytes it obtained and the (flag, table) pairs its CRC computations looked up.  What a flag
CHECK saw is not part of the result: that is exactly the schedule-dependent part (who initialises).
-/
namespace Carquet.Properties.C07
open Carquet.Impl.Par Carquet.Proofs.Par

/-- `C07_fread_atomic_sections` for an arbitrary schedule (every schedule is a merge of its own
projections): if every scheduled action is an atomic section / immutable read, every worker holds
what it holds after running its own actions of the schedule alone. -/
theorem C07_fread_atomic_schedule (s : List (Worker × Action)) (hat : ∀ e ∈ s, e.2.atomicIO = true)
    (st : State) (w : Worker) :
    (exec s st).pr w = (exec (solo w (proj w s)) st).pr w := by
  have hm := isMerge_projLists s
  have hat' : ∀ l ∈ projLists s, ∀ a ∈ l, a.atomicIO = true := by
    intro l hl a ha
    simp only [projLists, List.mem_map, List.mem_range] at hl
    obtain ⟨w', _, rfl⟩ := hl
    exact hat (w', a) (mem_proj ha)
  have h := (C07_fread_atomic_sections (projLists s) hat' s hm st w).2
  rw [← isMerge_proj_eq hm w] at h
  exact h

/-- Stdio sections and table steps do not interact.  In ANY schedule made of atomic stdio sections
and table steps (initialiser stores, flag store, flag/table reads), the bytes a worker obtains are
the bytes it obtains when its own actions run alone — equivalently, when only its stdio sections
run, alone. -/
theorem C07_mixed_schedule_bytes (s : List (Worker × Action))
    (hcls : ∀ e ∈ s, e.2.atomicIO = true ∨ e.2.isTable = true) (st : State) (w : Worker) :
    bytesOf ((exec s st).pr w) = bytesOf ((exec (solo w (proj w s)) st).pr w) ∧
    bytesOf ((exec s st).pr w) =
      bytesOf ((exec (solo w ((proj w s).filter (fun a => a.atomicIO))) st).pr w) :=
  mixed_schedule_bytes C07_fread_atomic_schedule s hcls st w

/-- **Cold-start batch read = sequential read.**  Workers run programs of `file_read_at`s and CRC
calls (any number of workers, any programs, any streams) in a process whose table `vals` has not
been built yet (`coldInit`: flag clear, no cell written).  For ANY schedule of turns in which worker
`w` gets enough turns (`coldFuel`: a fairness bound, nothing else is assumed about the schedule or
about the other workers' progress):
 * `w` finishes;
 * the bytes it obtained are the bytes at its own offsets, and EVERY CRC computation of `w` looked up
   the complete final table with the flag set — no matter whether `w` built the table itself, saw
   another worker's flag, or raced with other initialisers;
 * hence its result equals its result under the sequential schedule (worker 0 to completion, then
   worker 1, ...: `num_threads = 1`). -/
theorem C07_cold_start_batch_read (vals : List Nat) (file : List UInt8) (progs : List (List Instr))
    (huser : ∀ l ∈ progs, ∀ i ∈ l, i.isUser = true) (turns : List Worker) (w : Worker)
    (hfair : coldFuel (tableInitialiser vals).length (progs.getD w []) ≤ turns.count w) :
    (execCold (tableInitialiser vals) turns (coldInit file vals.length progs)).1.todo w = [] ∧
    coldResult ((execCold (tableInitialiser vals) turns (coldInit file vals.length progs)).1.st.pr w) =
      (instrBytes file (progs.getD w []),
       List.replicate (instrCalls (progs.getD w [])) (Obs.table true (vals.map some))) ∧
    ∀ fuel, coldFuel (tableInitialiser vals).length (progs.getD w []) ≤ fuel → w < progs.length →
      coldResult ((execCold (tableInitialiser vals) turns (coldInit file vals.length progs)).1.st.pr w) =
      coldResult ((execCold (tableInitialiser vals) (seqTurns progs.length fuel)
        (coldInit file vals.length progs)).1.st.pr w) := by
  have hlazy : LazySound vals file := by
    intro s hd hf
    exact (C07_lazy_init_idempotent vals file s hd).2.1 hf
  have hu : ∀ l ∈ progs, userList l = true := by
    intro l hl
    simp only [userList, List.all_eq_true]
    exact huser l hl
  have hfin := cold_finishes (tableInitialiser vals) turns w (coldInit file vals.length progs) hfair
  have hres := cold_result hlazy C07_fread_atomic_schedule hu turns w hfin
  refine ⟨hfin, hres, ?_⟩
  intro fuel hfuel hw
  have hfin' := cold_finishes (tableInitialiser vals) (seqTurns progs.length fuel) w
    (coldInit file vals.length progs) (by rw [count_seqTurns, if_pos hw]; exact hfuel)
  rw [hres, cold_result hlazy C07_fread_atomic_schedule hu _ w hfin']

/-- Instance for the batch reader with checksum verification on the real CRC table: column `w`
loads its pages `cols[w]` (header read, body read, `carquet_crc32` of the body) on the shared
stream `f`.  Under every fair schedule each column reader obtains exactly its own pages' bytes
(`chunkBytes`, what the mmap path and the sequential run deliver) and every one of its CRC
computations uses the complete table of `crc32_init_tables` (`crcTableValues`, the values of the CRC
component's model). -/
theorem C07_cold_start_columns (file : List UInt8) (f : Nat) (cols : List (List (Nat × Nat × Nat)))
    (turns : List Worker) (w : Worker)
    (hfair : coldFuel crcInitialiser.length (coldColumn f (cols.getD w [])) ≤ turns.count w) :
    coldResult ((execCold crcInitialiser turns
        (coldInit file crcTableValues.length (cols.map (coldColumn f)))).1.st.pr w) =
      (chunkBytes file (cols.getD w []),
       List.replicate (cols.getD w []).length (Obs.table true (crcTableValues.map some))) := by
  have huser : ∀ l ∈ cols.map (coldColumn f), ∀ i ∈ l, i.isUser = true := by
    intro l hl i hi
    obtain ⟨pages, _, rfl⟩ := List.mem_map.1 hl
    simp only [coldColumn, List.mem_flatMap] at hi
    obtain ⟨p, _, hi⟩ := hi
    simp at hi
    rcases hi with rfl | rfl | rfl <;> rfl
  have hg : (cols.map (coldColumn f)).getD w [] = coldColumn f (cols.getD w []) :=
    getD_map (coldColumn f) cols w [] [] rfl
  have h := (C07_cold_start_batch_read crcTableValues file (cols.map (coldColumn f)) huser turns w
    (by rw [hg]; exact hfair)).2.1
  rw [hg] at h
  have hb : ∀ pages : List (Nat × Nat × Nat), instrBytes file (coldColumn f pages) = chunkBytes file pages := by
    intro pages
    induction pages with
    | nil => rfl
    | cons p ps ih =>
      simp only [coldColumn, chunkBytes, List.flatMap_cons] at ih ⊢
      simp [instrBytes, ih]
  have hc : ∀ pages : List (Nat × Nat × Nat), instrCalls (coldColumn f pages) = pages.length := by
    intro pages
    induction pages with
    | nil => rfl
    | cons p ps ih =>
      simp only [coldColumn, List.flatMap_cons] at ih ⊢
      simp [instrCalls, ih]
  rw [hb, hc] at h
  exact h

/-! non-vacuity: two columns of one page each on a 16-byte file, a 2-cell table, three schedules -/

def coldProgs : List (List Instr) := [coldColumn 0 [(0, 2, 4)], coldColumn 0 [(8, 3, 4)]]

-- fairness bound for these programs: 2 reads + one CRC call (flag check, 3 initialiser steps, use)
example : coldFuel (tableInitialiser [7, 9]).length (coldProgs.getD 0 []) = 8 := by decide

/-- worker 1 sees the flag clear and starts building the table, worker 0 too; worker 0 finishes first and
sets the flag; both go on -/
def coldRace : List Worker := [0, 1, 0, 1, 0, 1, 0, 1, 0, 0, 1, 0, 1, 1, 0, 1, 0, 1, 0, 1]

example : coldFuel (tableInitialiser [7, 9]).length (coldProgs.getD 0 []) ≤ coldRace.count 0 ∧
          coldFuel (tableInitialiser [7, 9]).length (coldProgs.getD 1 []) ≤ coldRace.count 1 := by decide

-- both workers ran the initialiser in this schedule (each scheduled 3 initialiser stores) ...
example : ((execCold (tableInitialiser [7, 9]) coldRace (coldInit f21File 2 coldProgs)).2.filter
    (fun e => e.2 == Action.prim .setFlag)).length = 2 := by decide

-- ... and worker 1's log shows it: its flag check saw "not initialised", its use saw the final table
example : (execCold (tableInitialiser [7, 9]) coldRace (coldInit f21File 2 coldProgs)).1.st.pr 1 =
    [.bytes [100,101,102,103,104,105,106,107], .bytes [103,104,105,106],
     .table false [none, none], .table true [some 7, some 9]] := by decide

-- sequentially worker 1 sees the flag worker 0 set: different log, same result
example : (execCold (tableInitialiser [7, 9]) (seqTurns 2 8) (coldInit f21File 2 coldProgs)).1.st.pr 1 =
    [.bytes [100,101,102,103,104,105,106,107], .bytes [103,104,105,106],
     .table true [some 7, some 9], .table true [some 7, some 9]] := by decide

example : coldResult ((execCold (tableInitialiser [7, 9]) coldRace (coldInit f21File 2 coldProgs)).1.st.pr 1) =
    coldResult ((execCold (tableInitialiser [7, 9]) (seqTurns 2 8) (coldInit f21File 2 coldProgs)).1.st.pr 1) := by
  decide

/-- The hypothesis "the table use comes after the flag check / the initialiser" cannot be dropped: a
worker that looks the table up WITHOUT `carquet_crc32`'s check (here: a bare table read while another
worker is still initialising) can see an incomplete table.  Kernel-checked. -/
theorem C07_cold_unguarded_use_counterexample :
    (exec [(0, Action.prim .useTable), (0, .prim (.initCell 0 7)), (1, .prim .useTable)]
      (initState [] 2)).pr 1 = [.table false [some 7, none]] := by
  decide

end Carquet.Properties.C07
