import Carquet.Impl.CSem
import Carquet.Impl.Snappy
import Carquet.Impl.Lz4
import Carquet.Gen.CFun
/-
C09 — link theorems between the scalar helpers of src/compression/snappy.c and src/compression/lz4.c as translated
from the CURRENT source (`Carquet.Gen.CFun`, regenerated on every run) and the models the C09 theorems are about:
the match-finder hashes (`Impl.Snappy.hashIdx`, `Impl.Lz4.hash`) and the advertised output bounds
(`Impl.Snappy.compressBound`, `Impl.Lz4.bound`).
-/
namespace Carquet.Properties.C09
open Carquet Carquet.Impl

/-- `snappy_hash(val)` is the model's hash-table index, for every 32-bit input. -/
theorem C09_cfun_snappy_hash (v : BitVec 32) :
    (Gen.CFun.snappy_hash v).toNat = (Impl.Snappy.hashIdx v.toNat).val := by
  have hs : (32#32 - 14#32).toNat = 18 := by decide
  unfold Gen.CFun.snappy_hash Impl.Snappy.hashIdx
  rw [hs, BitVec.toNat_ushiftRight, BitVec.toNat_mul, Nat.shiftRight_eq_div_pow]
  rfl

theorem C09_cfun_snappy_hash_defined (v : BitVec 32) : Gen.CFun.snappy_hash_defined v = true := by
  simp only [Gen.CFun.snappy_hash_defined]; decide

example : (Gen.CFun.snappy_hash 0x64636261#32).toNat = (Impl.Snappy.hashIdx 0x64636261).val ∧
    (Gen.CFun.snappy_hash 0x64636261#32).toNat ≠ 0 := by decide

/-- `carquet_snappy_compress_bound(n)` is the model's bound whenever that bound fits a `size_t` (for larger `n`
the C function wraps around — unsigned arithmetic, no undefined behaviour — and the model does not). -/
theorem C09_cfun_snappy_compress_bound (n : BitVec 64) (h : 32 + n.toNat + n.toNat / 6 < 2 ^ 64) :
    (Gen.CFun.carquet_snappy_compress_bound n).toNat = Impl.Snappy.compressBound n.toNat := by
  simp only [Gen.CFun.carquet_snappy_compress_bound, Impl.Snappy.compressBound, BitVec.toNat_add, BitVec.toNat_udiv,
    BitVec.toNat_ofNat, Nat.reducePow, Nat.reduceMod]
  omega

theorem C09_cfun_snappy_compress_bound_defined (n : BitVec 64) :
    Gen.CFun.carquet_snappy_compress_bound_defined n = true := by
  simp [Gen.CFun.carquet_snappy_compress_bound_defined]

example : 32 + (1000#64).toNat + (1000#64).toNat / 6 < 2 ^ 64 ∧
    (Gen.CFun.carquet_snappy_compress_bound 1000#64).toNat = 1198 := by decide

/-- the wrap-around the hypothesis above excludes is real: a request of `SIZE_MAX` bytes is advertised a bound
smaller than the input -/
example : (Gen.CFun.carquet_snappy_compress_bound (BitVec.allOnes 64)).toNat = 3074457345618258633 := by decide

/-- `lz4_hash(val)` is the model's hash, for every 32-bit input. -/
theorem C09_cfun_lz4_hash (v : BitVec 32) :
    (Gen.CFun.lz4_hash v).toNat = Impl.Lz4.hash v.toNat := by
  have hs : (32#32 - 12#32).toNat = 20 := by decide
  unfold Gen.CFun.lz4_hash Impl.Lz4.hash
  rw [hs, BitVec.toNat_ushiftRight, BitVec.toNat_mul, Nat.shiftRight_eq_div_pow]
  rfl

theorem C09_cfun_lz4_hash_defined (v : BitVec 32) : Gen.CFun.lz4_hash_defined v = true := by
  simp only [Gen.CFun.lz4_hash_defined]; decide

example : (Gen.CFun.lz4_hash 0x64636261#32).toNat = Impl.Lz4.hash 0x64636261 ∧
    (Gen.CFun.lz4_hash 0x64636261#32).toNat ≠ 0 := by decide

/-- `carquet_lz4_compress_bound(n)` is the model's bound whenever that bound fits a `size_t`. -/
theorem C09_cfun_lz4_compress_bound (n : BitVec 64) (h : n.toNat + n.toNat / 255 + 16 < 2 ^ 64) :
    (Gen.CFun.carquet_lz4_compress_bound n).toNat = Impl.Lz4.bound n.toNat := by
  simp only [Gen.CFun.carquet_lz4_compress_bound, Impl.Lz4.bound, BitVec.toNat_add, BitVec.toNat_udiv,
    BitVec.toNat_ofNat, Nat.reducePow, Nat.reduceMod]
  omega

theorem C09_cfun_lz4_compress_bound_defined (n : BitVec 64) :
    Gen.CFun.carquet_lz4_compress_bound_defined n = true := by
  simp [Gen.CFun.carquet_lz4_compress_bound_defined]

example : (1000#64).toNat + (1000#64).toNat / 255 + 16 < 2 ^ 64 ∧
    (Gen.CFun.carquet_lz4_compress_bound 1000#64).toNat = 1019 := by decide

end Carquet.Properties.C09
