import Carquet.Proofs.CFunB.Snappy
import Carquet.Proofs.CFunB.Enc
import Carquet.Proofs.CFunB.Lz4
/-
C09 — link theorems (component `cfun`, batch `cfunb`): the encoder helpers of src/compression/snappy.c and the 32-bit loads of
both codecs, as translated from the CURRENT C source by translate/gen_cfun.py on every check run, are the byte-level
definitions the Snappy / LZ4 compressor models are built from (`Impl.Snappy.writeVarint`, `literalHeader`, `copyBytes`,
`read32`, `Impl.Lz4.read32`): `C09_snappy_roundtrip`, `C09_snappy_le_bound` and the C10 grammar theorems are about
`Impl.Snappy.compressBytes = writeVarint … ++ serialize …`, whose pieces are exactly these.
A pointer result (`snappy_emit_literal`, `snappy_emit_copy` return `op`) is the offset of the returned pointer in the output
array; the second component is the output array after the call.
-/
namespace Carquet.Properties.C09
open Carquet Carquet.Impl Carquet.Proofs.CFunB

/-- `snappy_write_varint(p, value)` (the stream header carrying the uncompressed length) on a buffer with room for it:
number of bytes written and the buffer afterwards -/
theorem C09_cfun_snappy_write_varint (p : List UInt8) (v : BitVec 32) (h : (Snappy.writeVarint 4 v.toNat).length ≤ p.length) :
    Gen.CFun.snappy_write_varint p v =
      (BitVec.ofNat 64 (Snappy.writeVarint 4 v.toNat).length,
       Snappy.writeVarint 4 v.toNat ++ p.drop (Snappy.writeVarint 4 v.toNat).length) := (snappy_write_varint_eq p v h).1
theorem C09_cfun_snappy_write_varint_defined (p : List UInt8) (v : BitVec 32)
    (h : (Snappy.writeVarint 4 v.toNat).length ≤ p.length) :
    Gen.CFun.snappy_write_varint_defined p v = true := (snappy_write_varint_eq p v h).2

example : Gen.CFun.snappy_write_varint [9, 9, 9] 300#32 = (2#64, [0xAC, 0x02, 9]) ∧
    -- 4 MiB + 1 (bit 21 clear, bit 22 set): four bytes
    Gen.CFun.snappy_write_varint [9, 9, 9, 9, 9] 4194305#32 = (4#64, [0x81, 0x80, 0x80, 0x02, 9]) ∧
    Gen.CFun.snappy_write_varint_defined [9] 300#32 = false := by decide

/-- `snappy_emit_literal(op, literal, len)` for `len > 0`: tag byte with the length class (≤ 60 inline, then 1..4 length
bytes), the literal bytes; result = offset of the returned pointer and the output buffer -/
theorem C09_cfun_snappy_emit_literal (op lit : List UInt8) (len : Nat) (h0 : 0 < len) (hl : len < 2 ^ 64)
    (hlit : len ≤ lit.length) (hop : (Snappy.literalHeader len).length + len ≤ op.length) :
    Gen.CFun.snappy_emit_literal op lit (BitVec.ofNat 64 len) =
      ((Snappy.literalHeader len).length + len,
       Snappy.literalHeader len ++ lit.take len ++ op.drop ((Snappy.literalHeader len).length + len)) :=
  (snappy_emit_literal_eq op lit len h0 hl hlit hop).1
theorem C09_cfun_snappy_emit_literal_defined (op lit : List UInt8) (len : Nat) (h0 : 0 < len) (hl : len < 2 ^ 64)
    (hlit : len ≤ lit.length) (hop : (Snappy.literalHeader len).length + len ≤ op.length) :
    Gen.CFun.snappy_emit_literal_defined op lit (BitVec.ofNat 64 len) = true :=
  (snappy_emit_literal_eq op lit len h0 hl hlit hop).2

example : Gen.CFun.snappy_emit_literal [0, 0, 0, 0, 7] [0x61, 0x62, 0x63] 3#64 = (4, [0x08, 0x61, 0x62, 0x63, 7]) ∧
    -- the class boundary: 60 bytes inline, 61 bytes need a length byte
    (Snappy.literalHeader 60 = [0xEC] ∧ Snappy.literalHeader 61 = [0xF0, 60]) ∧
    (Gen.CFun.snappy_emit_literal (List.replicate 70 0) (List.replicate 61 1) 61#64).1 = 63 ∧
    Gen.CFun.snappy_emit_literal_defined [0, 0, 0] [0x61, 0x62, 0x63] 3#64 = false := by decide

/-- `snappy_emit_copy(op, offset, len)` for `len >= 4`: 64-byte copies while `len >= 68`, one 60-byte copy when more than 64
remain, then a COPY_1 (`len < 12` and `offset < 2048`) or COPY_2 element -/
theorem C09_cfun_snappy_emit_copy (op : List UInt8) (off len : Nat) (hoff : off < 2 ^ 64) (h4 : 4 ≤ len) (hl : len < 2 ^ 61)
    (hop : (Snappy.copyBytes off len).length ≤ op.length) :
    Gen.CFun.snappy_emit_copy op (BitVec.ofNat 64 off) (BitVec.ofNat 64 len) =
      ((Snappy.copyBytes off len).length, Snappy.copyBytes off len ++ op.drop (Snappy.copyBytes off len).length) :=
  (snappy_emit_copy_eq op off len hoff h4 hl hop).1
theorem C09_cfun_snappy_emit_copy_defined (op : List UInt8) (off len : Nat) (hoff : off < 2 ^ 64) (h4 : 4 ≤ len)
    (hl : len < 2 ^ 61) (hop : (Snappy.copyBytes off len).length ≤ op.length) :
    Gen.CFun.snappy_emit_copy_defined op (BitVec.ofNat 64 off) (BitVec.ofNat 64 len) = true :=
  (snappy_emit_copy_eq op off len hoff h4 hl hop).2

example : Gen.CFun.snappy_emit_copy [0, 0, 9] 5#64 7#64 = (2, [0x0D, 0x05, 9]) ∧
    -- offset 2048: the one-byte form no longer fits
    Gen.CFun.snappy_emit_copy [0, 0, 0] 2048#64 7#64 = (3, [0x1A, 0x00, 0x08]) ∧
    -- 70 = 64 + 6: one 64-byte COPY_2, then a COPY_1 of 6
    Gen.CFun.snappy_emit_copy [0, 0, 0, 0, 0, 0] 300#64 70#64 = (5, [0xFE, 0x2C, 0x01, 0x29, 0x2C, 0]) ∧
    Gen.CFun.snappy_emit_copy_defined [0] 5#64 7#64 = false := by decide

/-- `snappy_read32(p)` / `lz4_read32(p)`: `memcpy(&v, p, 4)` on the little-endian host -/
theorem C09_cfun_snappy_read32 (p : List UInt8) (h : 4 ≤ p.length) :
    (Gen.CFun.snappy_read32 p).toNat = Snappy.read32 p.toArray 0 (by simp; omega) := (snappy_read32_eq p h).1
theorem C09_cfun_snappy_read32_defined (p : List UInt8) (h : 4 ≤ p.length) : Gen.CFun.snappy_read32_defined p = true :=
  (snappy_read32_eq p h).2
theorem C09_cfun_lz4_read32 (p : List UInt8) (h : 4 ≤ p.length) : (Gen.CFun.lz4_read32 p).toNat = Lz4.read32 p.toArray 0 :=
  (lz4_read32_eq p h).1
theorem C09_cfun_lz4_read32_defined (p : List UInt8) (h : 4 ≤ p.length) : Gen.CFun.lz4_read32_defined p = true :=
  (lz4_read32_eq p h).2

example : Gen.CFun.snappy_read32 [0x78, 0x56, 0x34, 0x12, 0xFF] = 0x12345678#32 ∧ Gen.CFun.lz4_read32_defined [1, 2, 3] = false := by
  decide

/-- `lz4_count(p, match, limit)` (match length of the LZ4 compressor): `match` = the start of the buffer, `p = match + off`,
`limit` an offset inside the buffer, at least 7 (the code forms `limit - 7`).  Eight bytes at a time through two `uint64_t`
loads, the first differing byte by a byte loop, then byte by byte -/
theorem C09_cfun_lz4_count (buf : List UInt8) (off limit : Nat) (ho : off ≤ limit) (hl : limit ≤ buf.length) (h7 : 7 ≤ limit) :
    Gen.CFun.lz4_count off buf limit = BitVec.ofNat 64 (Lz4.count buf.toArray off 0 limit) := (lz4_count_eq buf off limit ho hl h7).1
/-- every 8-byte load and every byte load is inside the buffer; the inner byte loop stops within 8 steps -/
theorem C09_cfun_lz4_count_defined (buf : List UInt8) (off limit : Nat) (ho : off ≤ limit) (hl : limit ≤ buf.length)
    (h7 : 7 ≤ limit) : Gen.CFun.lz4_count_defined off buf limit = true := (lz4_count_eq buf off limit ho hl h7).2

example : Gen.CFun.lz4_count 3 [1, 2, 3, 1, 2, 3, 1, 2, 3, 1, 2, 3, 1, 2, 9, 1, 2, 3, 1, 2, 3] 21 = 11#64 ∧
    Lz4.count [1, 2, 3, 1, 2, 3, 1, 2, 3, 1, 2, 3, 1, 2, 9, 1, 2, 3, 1, 2, 3].toArray 3 0 21 = 11 ∧
    -- a `limit` beyond the buffer
    Gen.CFun.lz4_count_defined 3 [1, 2, 3, 1, 2, 3, 1, 2, 3, 1, 2, 3] 13 = false ∧
    -- `limit - 7` would point before the buffer
    Gen.CFun.lz4_count_defined 1 [1, 1, 1, 1, 1] 5 = false := by decide

end Carquet.Properties.C09
