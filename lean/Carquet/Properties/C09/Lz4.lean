import Carquet.Spec.Lz4
import Carquet.Impl.Lz4
import Carquet.Impl.CodecWrappers
import Carquet.Gen.Lz4Consts
import Carquet.Proofs.Lz4Spec
import Carquet.Proofs.Lz4Decomp
import Carquet.Proofs.Lz4Comp
import Carquet.Proofs.CodecWrappers
import Carquet.Proofs.Lz4Fuel
/-
C09 (LZ4, GZIP, ZSTD part) — codecs round-trip and honour their bounds.
Property statements only; helper lemmas live in Carquet/Proofs/Lz4*.lean and CodecWrappers.lean.
`Impl.Lz4.compress x cap` / `decompress bs cap` model the calls on buffers of exactly `cap` bytes;
`.error .oobRead / .oobWrite` stand for a memory error (see Impl/Lz4.lean).
-/
namespace Carquet.Properties.C09
open Carquet
open Carquet.Impl.Lz4 (compress decompress bound)

/-- The constants the Impl model uses as literals are the ones the source defines now
(re-extracted on every run). -/
theorem C09_lz4_constants :
    Gen.Lz4.minMatch = 4 ∧ Gen.Lz4.hashLog = 12 ∧ Gen.Lz4.minLength = 13 ∧ Gen.Lz4.lastLiterals = 12 ∧
    Gen.Lz4.hashMul = 2654435761 ∧ 2 ^ (32 - Gen.Lz4.hashLog) = 1048576 ∧
    2 ^ Gen.Lz4.hashLog = Impl.Lz4.emptyTable.size ∧ 2 ^ Gen.Lz4.tableEntryBits = UInt16.size ∧
    Gen.Lz4.maxDistance = 65535 ∧ Gen.Lz4.boundDiv = 255 ∧ Gen.Lz4.boundAdd = 16 ∧
    Gen.Lz4.wideCopyMinOffset = 8 ∧
    Gen.Lz4.gzipLevelMin = 1 ∧ Gen.Lz4.gzipLevelMax = 9 ∧ Gen.Lz4.gzipBoundExtra = 18 ∧
    Gen.Lz4.zstdLevelMin = 1 ∧ Gen.Lz4.gzipWindowBits = 31 := by
  decide +kernel

/-- **Copy validity, independent of the hash function and of the table contents.**  Whatever the
position table holds (stale, aliased modulo 65536, or arbitrary), a sequence emitted at `ip` has
`0 < off ≤ ip`, `off ≤ 65535`, leaves at least 12 trailing bytes, and copies bytes that are equal:
`src[ip + i] = src[ip − off + i]` for all `i < mlen`. -/
theorem C09_lz4_copy_valid (src : Impl.Lz4.Bytes) (n ip : Nat) (tbl : Array UInt16) (off mlen : Nat)
    (h : Impl.Lz4.probe src n ip tbl = some (off, mlen)) :
    0 < off ∧ off ≤ ip ∧ off ≤ 65535 ∧ 4 ≤ mlen ∧ ip + mlen + 12 ≤ n ∧
    ∀ i, i < mlen → Impl.Lz4.byteAt src (ip + i) = Impl.Lz4.byteAt src (ip - off + i) := by
  have := Proofs.Lz4Comp.probe_ok tbl h
  exact ⟨this.off_pos, this.off_le, this.off_le_max, this.mlen_ge, this.end_le, this.agree⟩

example : Impl.Lz4.probe (List.replicate 40 7).toArray 40 1 Impl.Lz4.emptyTable = some (1, 27) := by
  decide +kernel

/-- Whatever the compressor returns as `OK`, its own decompressor turns back into `x`, in a
destination of exactly `|x|` bytes. -/
theorem C09_lz4_roundtrip (x : List UInt8) (cap : Nat) (out : List UInt8)
    (h : compress x cap = .ok out) : decompress out x.length = .ok x := by
  by_cases hc : bound x.length ≤ cap
  · obtain ⟨seqs, last, h1, h2, _, _⟩ := Proofs.Lz4Comp.compress_spec x cap hc
    rw [h1] at h
    cases h
    rw [Proofs.Lz4Decomp.decompress_eq_spec,
      Proofs.Lz4Spec.decode_complete (Proofs.Lz4Spec.encode_block h2) (Nat.le_refl _)]
  · exfalso
    simp only [compress, Impl.Lz4.compressA, List.size_toArray] at h
    rw [if_pos (by omega)] at h
    cases h

/-- With the advertised bound (or more) as capacity the compressor succeeds and reports a length
within the bound (hence within the capacity); in particular no per-sequence space test fires and
no store goes past the end of the destination. -/
theorem C09_lz4_fits_bound (x : List UInt8) (cap : Nat) (h : x.length + x.length / 255 + 16 ≤ cap) :
    ∃ out, compress x cap = .ok out ∧ out.length ≤ bound x.length ∧ out.length ≤ cap := by
  obtain ⟨seqs, last, h1, _, _, h4⟩ := Proofs.Lz4Comp.compress_spec x cap h
  exact ⟨_, h1, h4, by unfold bound at h4; omega⟩

/-- both together, for every byte string -/
theorem C09_lz4_roundtrip_at_bound (x : List UInt8) :
    ∃ out, compress x (bound x.length) = .ok out ∧ out.length ≤ bound x.length ∧
      decompress out x.length = .ok x := by
  obtain ⟨out, h1, h2, _⟩ := C09_lz4_fits_bound x (bound x.length) (Nat.le_refl _)
  exact ⟨out, h1, h2, C09_lz4_roundtrip x _ out h1⟩

example : compress (List.replicate 40 7) (bound 40) = .ok [0x1f, 7, 1, 0, 8, 0xc0, 7, 7, 7, 7, 7, 7, 7, 7, 7, 7, 7, 7] := by
  decide +kernel

/-- A destination smaller than the bound is refused (status `CARQUET_ERROR_COMPRESSION`), before
anything is written; and for every capacity the call either reports that error or returns at
most `cap` bytes — it never stores outside the destination. -/
theorem C09_lz4_small_dst_refused_or_safe (x : List UInt8) (cap : Nat) :
    (cap < bound x.length → compress x cap = .error .compression) ∧
    (compress x cap = .error .compression ∨ ∃ out, compress x cap = .ok out ∧ out.length ≤ cap) := by
  by_cases hc : bound x.length ≤ cap
  · refine ⟨by omega, Or.inr ?_⟩
    obtain ⟨out, h1, _, h3⟩ := C09_lz4_fits_bound x cap hc
    exact ⟨out, h1, h3⟩
  · have : compress x cap = .error .compression := by
      simp only [compress, Impl.Lz4.compressA, List.size_toArray]
      rw [if_pos (by omega)]
      rfl
    exact ⟨fun _ => this, Or.inl this⟩

example : compress [1, 2, 3] 18 = .error .compression ∧ compress [1, 2, 3] 19 = .ok [0x30, 1, 2, 3] := by
  decide +kernel

/-- The loops of the compressor model are started with enough fuel: more fuel gives the same
match list and the same match lengths, and the inner `while (*p == *match)` of `lz4_count` (no
bound test in C) is entered only when a difference lies within the 8 bytes compared. -/
theorem C09_lz4_fuel_adequate (src : Impl.Lz4.Bytes) :
    (∀ (k : Nat) (tbl : Array UInt16) (acc : List Impl.Lz4.Seq),
      Impl.Lz4.findLoop src src.size (src.size + k) 0 0 tbl acc = Impl.Lz4.findLoop src src.size src.size 0 0 tbl acc) ∧
    (∀ p m limit k : Nat, Impl.Lz4.countFast src limit (limit - p + 1 + k) p m 0 = Impl.Lz4.count src p m limit) ∧
    (∀ p m acc : Nat, ¬ Impl.Lz4.eq8 src p m = true →
      Impl.Lz4.firstDiff src (8 + 1) p m acc = Impl.Lz4.firstDiff src 8 p m acc) :=
  ⟨fun k tbl acc => Proofs.Lz4Fuel.findLoop_fuel_add src src.size tbl acc k,
   fun p m limit k => Proofs.Lz4Fuel.count_fuel_add src p m limit k,
   fun p m acc h => Proofs.Lz4Fuel.countFast_firstDiff_fuel src p m acc h⟩

/-! ## gzip / zstd wrappers, under the library contract -/

open Carquet.Impl.CodecWrappers

/-- `carquet_gzip_compress` / `_decompress` (after fix F41) over a library satisfying the contract,
at any requested level: into the advertised bound the compression succeeds, fits, and
decompresses into exactly `|x|` bytes to `x`; for any capacity the call is either refused with
`CARQUET_ERROR_COMPRESSION` or returns at most `cap` bytes that decompress to `x`. -/
theorem C09_gzip_wrapper (L : Lib) (hL : L.Contract 1 9) (x : List UInt8) (level : Int) :
    (∀ cap, gzipBound L.bound x.length ≤ cap →
      ∃ c, gzipCompress L x cap level = .ok c ∧ c.length ≤ cap ∧ c.length ≤ gzipBound L.bound x.length ∧
        gzipDecompress L c x.length = .ok x) ∧
    (∀ cap c, gzipCompress L x cap level = .ok c → c.length ≤ cap ∧ gzipDecompress L c x.length = .ok x) ∧
    (∀ cap, gzipCompress L x cap level = .error .compression ∨ ∃ c, gzipCompress L x cap level = .ok c) := by
  obtain ⟨hlo, hhi⟩ := Proofs.CodecWrappers.clamp_range 1 9 level (by omega)
  obtain ⟨hA, hB⟩ := Proofs.CodecWrappers.compress_wrapper L 1 9 hL x _ hlo hhi
  simp only [gzipCompress, gzipCompressG, gzipDecompress, gzipDecompressG, gzipBound, Bool.or_self,
    Bool.false_eq_true, if_false, List.take_length]
  refine ⟨?_, ?_, ?_⟩
  · intro cap hcap
    obtain ⟨c, h1, h2, h3, h4⟩ := hA cap (by omega)
    exact ⟨c, by rw [h1], h2, by omega, by rw [h4]⟩
  · intro cap c h
    cases hc : L.compress (clamp 1 9 level) x cap with
    | none => rw [hc] at h; cases h
    | some c' =>
      rw [hc] at h
      cases h
      obtain ⟨h2, h4⟩ := hB cap _ hc
      exact ⟨h2, by rw [h4]⟩
  · intro cap
    cases L.compress (clamp 1 9 level) x cap with
    | none => exact Or.inl rfl
    | some c => exact Or.inr ⟨c, rfl⟩

example : (Proofs.CodecWrappers.storeLib).Contract 1 9 := Proofs.CodecWrappers.storeLib_contract 1 9

/-- `carquet_zstd_compress` / `_decompress`, `maxCLevel = ZSTD_maxCLevel() ≥ 1`. -/
theorem C09_zstd_wrapper (L : Lib) (maxCLevel : Int) (hmax : 1 ≤ maxCLevel) (hL : L.Contract 1 maxCLevel)
    (x : List UInt8) (level : Int) :
    (∀ cap, L.bound x.length ≤ cap →
      ∃ c, zstdCompress L maxCLevel x cap level = .ok c ∧ c.length ≤ cap ∧ c.length ≤ L.bound x.length ∧
        zstdDecompress L c x.length = .ok x) ∧
    (∀ cap c, zstdCompress L maxCLevel x cap level = .ok c →
      c.length ≤ cap ∧ zstdDecompress L c x.length = .ok x) ∧
    (∀ cap, zstdCompress L maxCLevel x cap level = .error .compression ∨
      ∃ c, zstdCompress L maxCLevel x cap level = .ok c) := by
  obtain ⟨hlo, hhi⟩ := Proofs.CodecWrappers.clamp_range 1 maxCLevel level hmax
  obtain ⟨hA, hB⟩ := Proofs.CodecWrappers.compress_wrapper L 1 maxCLevel hL x _ hlo hhi
  simp only [zstdCompress, zstdCompressG, zstdDecompress, zstdDecompressG, Bool.or_self,
    Bool.false_eq_true, if_false, List.take_length]
  refine ⟨?_, ?_, ?_⟩
  · intro cap hcap
    obtain ⟨c, h1, h2, h3, h4⟩ := hA cap hcap
    exact ⟨c, by rw [h1], h2, h3, by rw [h4]⟩
  · intro cap c h
    cases hc : L.compress (clamp 1 maxCLevel level) x cap with
    | none => rw [hc] at h; cases h
    | some c' =>
      rw [hc] at h
      cases h
      obtain ⟨h2, h4⟩ := hB cap _ hc
      exact ⟨h2, by rw [h4]⟩
  · intro cap
    cases L.compress (clamp 1 maxCLevel level) x cap with
    | none => exact Or.inl rfl
    | some c => exact Or.inr ⟨c, rfl⟩

example : (Proofs.CodecWrappers.storeLib).Contract 1 22 := Proofs.CodecWrappers.storeLib_contract 1 22

/-- Levels outside the library's range are clamped, inside they are passed through. -/
theorem C09_wrapper_level_clamp (lo hi level : Int) (h : lo ≤ hi) :
    lo ≤ clamp lo hi level ∧ clamp lo hi level ≤ hi ∧ (lo ≤ level → level ≤ hi → clamp lo hi level = level) :=
  ⟨(Proofs.CodecWrappers.clamp_range lo hi level h).1, (Proofs.CodecWrappers.clamp_range lo hi level h).2,
   Proofs.CodecWrappers.clamp_id lo hi level⟩

/-- F41, the pinned `carquet_gzip_compress`: with a source of 2^32 + 5 bytes the `(uInt)` cast hands
zlib `avail_in = 5`; the call reports OK for a stream that encodes the first five bytes only.
(Kernel-checked on the call level; `C09_regression_F41_roundtrip` lifts it to a library that
satisfies the contract.) -/
theorem C09_regression_F41 :
    gzipCompressPreFixG false false false 4294967301 64 6
      (fun _ k c => if k = 5 ∧ c = 64 then some [0x1f, 0x8b] else none) = .ok [0x1f, 0x8b] ∧
    gzipCompressG false false false 4294967301 64 6
      (fun _ k c => if k = 5 ∧ c = 64 then some [0x1f, 0x8b] else none) = .error .compression := by
  decide

theorem C09_regression_F41_roundtrip :
    ∃ (L : Lib), L.Contract 1 9 ∧ ∀ x : List UInt8, x.length = 4294967301 →
      ∃ c, gzipCompressPreFix L x 64 6 = .ok c ∧ L.decompress c x.length ≠ some x := by
  refine ⟨Proofs.CodecWrappers.storeLib, Proofs.CodecWrappers.storeLib_contract 1 9, ?_⟩
  intro x hx
  refine ⟨x.take 5, ?_, ?_⟩
  · simp only [gzipCompressPreFix, gzipCompressPreFixG, toUInt, hx, Proofs.CodecWrappers.storeLib,
      Bool.or_self, Bool.false_eq_true, if_false]
    rw [if_pos (by simp; omega)]
  · simp only [Proofs.CodecWrappers.storeLib]
    rw [if_pos (by simp; omega)]
    intro h
    have := congrArg List.length (Option.some.inj h)
    simp [hx] at this

end Carquet.Properties.C09
