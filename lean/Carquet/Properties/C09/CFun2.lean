import Carquet.Proofs.CFun2.Snappy
/-
C09 — stage-2 link theorem: src/compression/snappy.c `snappy_read_varint(p, end, &value)` as translated from the CURRENT C
source (a `(p, end)` pointer pair into one buffer, `uint8_t b = *p++`, result `(size_t)(p - start)`, `*value` an
out-parameter that is zeroed first) is the varint reader of the Snappy model, with the F25b overflow test.
-/
namespace Carquet.Properties.C09
open Carquet Carquet.Impl Carquet.Proofs.CFun2

/-- the number of bytes consumed and the value of the model; 0 when the model rejects (truncated, more than 5 bytes, or a
fifth byte above 0x0F) -/
theorem C09_cfun_snappy_read_varint (p : List UInt8) (value : BitVec 32) :
    (match Snappy.readVarint Snappy.Fixes.all p.toArray with
     | some (v, n) => Gen.CFun.snappy_read_varint p p.length value = (BitVec.ofNat 64 n, BitVec.ofNat 32 v)
     | none => (Gen.CFun.snappy_read_varint p p.length value).1 = 0#64) := (snappy_read_varint_eq p value).1

/-- every `*p++` is below `end`, no shift by 32 or more, at most five iterations (fuel 6) -/
theorem C09_cfun_snappy_read_varint_defined (p : List UInt8) (value : BitVec 32) :
    Gen.CFun.snappy_read_varint_defined p p.length value = true := (snappy_read_varint_eq p value).2

example : Gen.CFun.snappy_read_varint [0xAC, 0x02, 0x00] 3 9#32 = (2#64, 300#32) ∧
    (Gen.CFun.snappy_read_varint [0xFF, 0xFF, 0xFF, 0xFF, 0x1F] 5 9#32).1 = 0#64 ∧
    -- an `end` beyond the buffer: the read at offset 1 is out of bounds
    Gen.CFun.snappy_read_varint_defined [0x80] 2 9#32 = false := by decide

end Carquet.Properties.C09
