import Carquet.Spec.Snappy
import Carquet.Impl.Snappy
import Carquet.Gen.SnappyConstants
import Carquet.Proofs.SnappySpec
import Carquet.Proofs.SnappyDecomp
import Carquet.Proofs.SnappyComp
/-
C09 (Snappy part) — the codec round-trips and honours its bound.
Property statements only; proofs are in Carquet/Proofs/Snappy*.lean.

`Impl.Snappy.compress x` is everything `carquet_snappy_compress` writes into a destination of the
advertised bound; `Impl.Snappy.decompress bs cap` is the repaired `carquet_snappy_decompress`
(fixes/F6, F25, F25b) called with `dst_capacity = cap`.

The only hypothesis is `x.length < 2^32`: a raw Snappy block cannot declare more (the format's
limit), and the C code writes `(uint32_t)src_size` without checking — `C09_snappy_needs_32bit`
shows the round trip is indeed lost beyond that.
-/
namespace Carquet.Properties.C09
open Carquet

/-- The implementation-chosen numbers the Impl model uses are the ones the source defines now. -/
theorem C09_snappy_constants :
    Gen.snappyHashLog = Impl.Snappy.hashLog ∧ Gen.snappyHashSize = Impl.Snappy.hashSize ∧
    Gen.snappyMaxOffset = Impl.Snappy.maxOffset ∧ Gen.snappyHashMul = Impl.Snappy.hashMul ∧
    Gen.snappySmallInput = 15 ∧ Gen.snappyLimitMargin = 15 ∧ Gen.snappyTableEntryBits = 16 ∧
    (∀ n, Impl.Snappy.compressBound n = Gen.snappyBoundBase + n + n / Gen.snappyBoundDiv) := by
  refine ⟨by decide, by decide, by decide, by decide, by decide, by decide, by decide, fun n => rfl⟩

/-- Key lemma, independent of the hash function and of the table's contents (so it holds with the
16-bit truncated entries that alias beyond 64 KiB): started from ANY table, every copy `(off, len)`
the match finder emits stands at an input position `p` (= the lengths of the operations before it)
with `0 < off ≤ p`, stays inside the input, and repeats exactly the bytes `off` back:
`x[p+i] = x[p-off+i]` for all `i < len`.  Proved from the 4-byte comparison and the extension loop only
(`Proofs.Snappy.match_copyValid`; the general loop-head form is `Proofs.Snappy.mainLoop_inv`). -/
theorem C09_snappy_copies_valid (x : List UInt8) (tbl : Impl.Snappy.Table) (a b : List Impl.Snappy.Op)
    (off len : Nat)
    (h : (Impl.Snappy.mainLoop x.toArray tbl 0 0 #[]).toList = a ++ .copy off len :: b) :
    0 < off ∧ off ≤ Proofs.Snappy.opsLen a ∧ Proofs.Snappy.opsLen a + len ≤ x.length ∧ 4 ≤ len ∧
      ∀ i, i < len → x[Proofs.Snappy.opsLen a + i]? = x[Proofs.Snappy.opsLen a + i - off]? := by
  have hinv := (Proofs.Snappy.mainLoop_inv x.toArray tbl 0 0 #[]
    ⟨by simp [Proofs.Snappy.Tiles], by simp [Impl.Snappy.serialize]⟩ (Nat.le_refl _) (Nat.zero_le _)).1
  rw [h] at hinv
  obtain ⟨⟨h0, h1, h2, h3⟩, _, h4⟩ := Proofs.Snappy.tiles_copy hinv
  refine ⟨h0, h1, by simpa using h2, h4, ?_⟩
  intro i hi
  simpa using h3 i hi

-- non-vacuity: a 20-byte input whose operations are a literal and one overlapping copy
example : (Impl.Snappy.mainLoop (List.replicate 20 (0x61 : UInt8)).toArray (Vector.replicate 16384 0) 0 0 #[]).toList
    = [.literal 0 1] ++ .copy 1 19 :: [] := by decide +kernel

/-- Round trip: decompressing carquet's output into a buffer of exactly `len(x)` bytes returns `x`
(for every input: empty, tiny, beyond 64 KiB where table entries alias, repetitive, incompressible). -/
theorem C09_snappy_roundtrip (x : List UInt8) (h : x.length < 2 ^ 32) :
    Impl.Snappy.decompress (Impl.Snappy.compress x) x.length = .ok x := by
  have hs := Proofs.Snappy.compress_stream x h
  simp only [Impl.Snappy.decompress,
    Proofs.Snappy.decompressWith_complete hs (Nat.le_refl _)]

example : ([1, 2, 3] : List UInt8).length < 2 ^ 32 := by decide
example : Impl.Snappy.decompress (Impl.Snappy.compress (List.replicate 20 0x61)) 20 = .ok (List.replicate 20 0x61) := by
  decide +kernel

/-- The compressed length never exceeds the advertised bound (no hypothesis on `x`), so a
destination of the bound is never overrun and the reported length is the true one. -/
theorem C09_snappy_le_bound (x : List UInt8) :
    (Impl.Snappy.compress x).length ≤ 32 + x.length + x.length / 6 :=
  Proofs.Snappy.compress_le_bound x

/-- Into a destination of at least the bound the call succeeds and reports exactly those bytes. -/
theorem C09_snappy_fits_bound (x : List UInt8) (cap : Nat) (h : 32 + x.length + x.length / 6 ≤ cap) :
    Impl.Snappy.compressCap x cap = .ok (Impl.Snappy.compress x) := by
  have hb : ¬ cap < Impl.Snappy.compressBound x.length := by
    simp only [Impl.Snappy.compressBound]; omega
  simp only [Impl.Snappy.compressCap, hb, if_false, Impl.Snappy.compress]

example : 32 + ([1, 2, 3] : List UInt8).length + ([1, 2, 3] : List UInt8).length / 6 ≤ 35 := by decide

/-- A destination smaller than the bound is refused up front (status COMPRESSION), before anything
is written. -/
theorem C09_snappy_small_dst_refused (x : List UInt8) (cap : Nat) (h : cap < 32 + x.length + x.length / 6) :
    Impl.Snappy.compressCap x cap = .error .compression := by
  have hb : cap < Impl.Snappy.compressBound x.length := by
    simp only [Impl.Snappy.compressBound]; omega
  simp only [Impl.Snappy.compressCap, hb, if_true]

example : (34 : Nat) < 32 + ([1, 2, 3] : List UInt8).length + ([1, 2, 3] : List UInt8).length / 6 := by decide

/-- Why `x.length < 2^32` is needed: the preamble holds `(uint32_t)src_size`, so for longer inputs the
repaired decompressor cannot return `x` (it returns an error or 2^32·k fewer bytes).  The compressor
does not refuse such inputs (finding, not repaired here: cannot be exercised with buffers that exist
in the harness; see NOTES_snappy.md). -/
theorem C09_snappy_needs_32bit (x : List UInt8) (h : 2 ^ 32 ≤ x.length) :
    Impl.Snappy.decompress (Impl.Snappy.compress x) x.length ≠ .ok x := by
  intro hok
  simp only [Impl.Snappy.decompress] at hok
  have hs := Proofs.Snappy.decompressWith_sound (Impl.Snappy.compress x) x.length
  revert hok hs
  cases Impl.Snappy.decompressWith Impl.Snappy.Fixes.all (Impl.Snappy.compress x).toArray x.length with
  | error e => intro hok; cases hok
  | ok out =>
    intro hok hs
    simp only [Except.ok.injEq] at hok
    simp only [Proofs.Snappy.DecGood, hok] at hs
    have hd := Proofs.Snappy.decode_of_stream hs.1
    obtain ⟨v1, v2⟩ := Proofs.Snappy.writeVarint_varint 4 (x.length % 2 ^ 32) (by omega)
    simp only [Spec.Snappy.decode, Spec.Snappy.readPreamble, Impl.Snappy.compress, Impl.Snappy.compressBytes,
      List.size_toArray, Proofs.Snappy.readVarint_of_varint v1 5 _ v2] at hd
    rw [if_pos (by omega)] at hd
    simp only at hd
    split at hd
    · cases hd
    · split at hd
      · rename_i o _ hsz
        simp only [Except.ok.injEq] at hd
        have : o.size = x.length := by rw [← hd]; simp
        omega
      · cases hd

end Carquet.Properties.C09
