import Carquet.Spec.Snappy
import Carquet.Impl.Snappy
import Carquet.Gen.SnappyConstants
import Carquet.Proofs.SnappySpec
import Carquet.Proofs.SnappyDecomp
import Carquet.Proofs.SnappyComp
/-
C10 (Snappy part) — carquet's built-in Snappy speaks the raw Snappy block format.
Property statements only; proofs are in Carquet/Proofs/Snappy*.lean.

The independent side is `Spec.Snappy` (decoder `decode`, grammar `Stream bs out`, written from the
format description).  `Impl.Snappy.decompress bs cap` is the repaired `carquet_snappy_decompress`
called with `src = bs` and `dst_capacity = cap` (the C API takes the destination capacity; the
declared length is read from the stream and must not exceed it — carquet's page reader passes the
page's `uncompressed_page_size`).
-/
namespace Carquet.Properties.C10
open Carquet

/-- The tag kinds the source defines are the format's. -/
theorem C10_snappy_tag_kinds :
    Gen.snappyTagLiteral = 0 ∧ Gen.snappyTagCopy1 = 1 ∧ Gen.snappyTagCopy2 = 2 ∧ Gen.snappyTagCopy4 = 3 := by
  decide

/-- Every stream carquet's compressor produces is a valid raw Snappy block for its input, in the
grammar … -/
theorem C10_snappy_output_in_grammar (x : List UInt8) (h : x.length < 2 ^ 32) :
    Spec.Snappy.Stream (Impl.Snappy.compress x) x :=
  Proofs.Snappy.compress_stream x h

/-- … and the independent decoder recovers the input from it. -/
theorem C10_snappy_output_valid (x : List UInt8) (h : x.length < 2 ^ 32) :
    Spec.Snappy.decode (Impl.Snappy.compress x) = .ok x :=
  Proofs.Snappy.decode_of_stream (Proofs.Snappy.compress_stream x h)

example : ([7, 7, 7] : List UInt8).length < 2 ^ 32 := by decide
example : Spec.Snappy.decode (Impl.Snappy.compress (List.replicate 20 0x61)) = .ok (List.replicate 20 0x61) := by
  decide +kernel

/-- The decompressor accepts every valid stream — all tag kinds (copy-4 and the 1..4-byte literal
lengths included), every offset, overlapping copies, non-minimal length encodings — whenever the
destination can hold the content (in particular `cap = out.length`), and returns the encoded bytes. -/
theorem C10_snappy_accepts_valid (bs out : List UInt8) (cap : Nat)
    (h : Spec.Snappy.Stream bs out) (hcap : out.length ≤ cap) :
    Impl.Snappy.decompress bs cap = .ok out := by
  simp only [Impl.Snappy.decompress, Proofs.Snappy.decompressWith_complete h hcap]

-- non-vacuity: a stream using a 4-byte literal length, copy-1 (overlapping), copy-2 and copy-4
example : Spec.Snappy.decode [9, 0xfc, 0, 0, 0, 0, 7, 0x01, 0x01, 0x06, 0x02, 0x00, 0x07, 0x01, 0, 0, 0] =
    .ok [7, 7, 7, 7, 7, 7, 7, 7, 7] := by decide +kernel
example : Impl.Snappy.decompress [9, 0xfc, 0, 0, 0, 0, 7, 0x01, 0x01, 0x06, 0x02, 0x00, 0x07, 0x01, 0, 0, 0] 9 =
    .ok [7, 7, 7, 7, 7, 7, 7, 7, 7] := by decide +kernel

/-- The same, phrased with the independent encoder: whatever the steerable reference encoder
(`Spec.Snappy.encode`, any mix of literal-length forms and copy kinds) produces from a list of ops is
accepted by the decompressor, given a destination of exactly the content's length, and decodes to the
bytes the ops describe. -/
theorem C10_snappy_accepts_reference_encoder (ops : List Spec.Snappy.Op) (bs : List UInt8)
    (h : Spec.Snappy.encode ops = some bs) :
    ∃ out, Spec.Snappy.runOps ops [] = some out ∧ Impl.Snappy.decompress bs out.length = .ok out := by
  obtain ⟨out, h1, h2⟩ := Proofs.Snappy.encode_stream h
  exact ⟨out, h1, C10_snappy_accepts_valid bs out out.length h2 (Nat.le_refl _)⟩

example : (Spec.Snappy.encode [.literal [1, 2, 3] .inTag, .copy 3 5 .c1, .copy 2 1 .c2, .copy 8 11 .c4,
    .literal [9] (.ext 1), .literal [9, 9] (.ext 4)]).isSome = true := by decide +kernel

/-- Whatever the decompressor accepts is a valid stream for exactly the bytes it returns (so nothing
outside the format is accepted, for any capacity). -/
theorem C10_snappy_accepts_only_valid (bs out : List UInt8) (cap : Nat)
    (h : Impl.Snappy.decompress bs cap = .ok out) :
    Spec.Snappy.Stream bs out ∧ Spec.Snappy.decode bs = .ok out := by
  simp only [Impl.Snappy.decompress] at h
  have hs := Proofs.Snappy.decompressWith_sound bs cap
  revert h hs
  cases Impl.Snappy.decompressWith Impl.Snappy.Fixes.all bs.toArray cap with
  | error e => intro h; cases h
  | ok o =>
    intro h hs
    simp only [Except.ok.injEq] at h
    simp only [Proofs.Snappy.DecGood, h] at hs
    exact ⟨hs.1, Proofs.Snappy.decode_of_stream hs.1⟩

/-- Streams the format defines as invalid (offset 0, offset before the start, an element running
past the input, elements after the declared length is reached, declared length not produced, a
preamble that is truncated, longer than five bytes or ≥ 2^32) are rejected with
INVALID_COMPRESSED_DATA, whatever capacity the caller passes. -/
theorem C10_snappy_rejects_invalid (bs : List UInt8) (cap : Nat) (e : Spec.Snappy.Err)
    (h : Spec.Snappy.decode bs = .error e) :
    Impl.Snappy.decompress bs cap = .error .invalidData := by
  cases hd : Impl.Snappy.decompress bs cap with
  | ok out =>
    have := (C10_snappy_accepts_only_valid bs out cap hd).2
    rw [h] at this
    cases this
  | error e' =>
    simp only [Impl.Snappy.decompress] at hd
    have hs := Proofs.Snappy.decompressWith_sound bs cap
    revert hd hs
    cases Impl.Snappy.decompressWith Impl.Snappy.Fixes.all bs.toArray cap with
    | ok o => intro hd; cases hd
    | error e2 =>
      intro hd hs
      simp only [Proofs.Snappy.DecGood] at hs
      simp only [Except.error.injEq] at hd
      rw [← hd, hs]

example : Spec.Snappy.decode [0x00, 0x00, 0x41] = .error .lengthMismatch := by decide +kernel
example : Spec.Snappy.decode [0x05, 0x00, 0x41, 0x01, 0x02] = .error .badOffset := by decide +kernel

/-- F25 on the pinned code (before fixes/F25-snappy-trailing-input.patch): bytes after the point where
the declared length has been produced are accepted — `00 aa` decodes to the empty string and
`01 00 41 00 42` (two literals, declared length 1) and `01 00 41 ff` to "A" — although the format (and the Spec decoder) rejects them. -/
theorem C10_regression_F25 :
    Impl.Snappy.decompressPreFix [0x00, 0xaa] 0 = .ok [] ∧
    Spec.Snappy.decode [0x00, 0xaa] = .error .truncated ∧
    Impl.Snappy.decompressPreFix [0x01, 0x00, 0x41, 0x00, 0x42] 1 = .ok [0x41] ∧
    Spec.Snappy.decode [0x01, 0x00, 0x41, 0x00, 0x42] = .error .lengthMismatch ∧
    Impl.Snappy.decompressPreFix [0x01, 0x00, 0x41, 0xff] 1 = .ok [0x41] ∧
    Spec.Snappy.decode [0x01, 0x00, 0x41, 0xff] = .error .truncated ∧
    Impl.Snappy.decompress [0x00, 0xaa] 0 = .error .invalidData ∧
    Impl.Snappy.decompress [0x01, 0x00, 0x41, 0xff] 1 = .error .invalidData := by
  decide +kernel

/-- F25b on the pinned code (before fixes/F25b-snappy-varint-overflow.patch): the fifth preamble byte
is shifted into a `uint32_t`, so a declared length of 2^32 is read as 0 and accepted as an empty block. -/
theorem C10_regression_F25b :
    Impl.Snappy.decompressPreFix [0x80, 0x80, 0x80, 0x80, 0x10] 0 = .ok [] ∧
    Spec.Snappy.decode [0x80, 0x80, 0x80, 0x80, 0x10] = .error .badPreamble ∧
    Impl.Snappy.decompress [0x80, 0x80, 0x80, 0x80, 0x10] 0 = .error .invalidData := by
  decide +kernel

end Carquet.Properties.C10
