import Carquet.Spec.Lz4
import Carquet.Impl.Lz4
import Carquet.Proofs.Lz4Spec
import Carquet.Proofs.Lz4Decomp
import Carquet.Proofs.Lz4Comp
/-
C10 (LZ4 part) — the built-in LZ4 codec speaks the LZ4 block format.
`Spec.Lz4` is the independent reading of the format: grammar `Block`, executable `decode`,
reference encoder `encode`, end-of-block rules `EndRules`.  Property statements only.
-/
namespace Carquet.Properties.C10
open Carquet
open Carquet.Impl.Lz4 (compress decompress decompressPreFix)

/-- The independent decoder and the grammar define the same set of blocks (coherence of the Spec:
makes the two theorems below statements about the grammar as well). -/
theorem C10_lz4_spec_decode_iff_block (bs out : List UInt8) (cap : Nat) :
    Spec.Lz4.decode bs cap = .ok out ↔ Spec.Lz4.Block bs out ∧ out.length ≤ cap :=
  ⟨fun h => ⟨Proofs.Lz4Spec.decode_sound h, Proofs.Lz4Decomp.decode_le_cap bs cap out h⟩,
   fun h => Proofs.Lz4Spec.decode_complete h.1 h.2⟩

/-- Every stream the compressor produces is a valid LZ4 block for `x` — the independent decoder
recovers `x` in exactly `|x|` bytes — and respects the end-of-block rules for encoders (last 5
bytes literal, last match starts at least 12 bytes before the end). -/
theorem C10_lz4_output_valid (x : List UInt8) (cap : Nat) (out : List UInt8) (h : compress x cap = .ok out) :
    Spec.Lz4.decode out x.length = .ok x ∧ Spec.Lz4.EndRulesOk out := by
  by_cases hc : Impl.Lz4.bound x.length ≤ cap
  · obtain ⟨seqs, last, h1, h2, h3, _⟩ := Proofs.Lz4Comp.compress_spec x cap hc
    rw [h1] at h
    cases h
    exact ⟨Proofs.Lz4Spec.decode_complete (Proofs.Lz4Spec.encode_block h2) (Nat.le_refl _), seqs, last, rfl, h3⟩
  · exfalso
    simp only [compress, Impl.Lz4.compressA, List.size_toArray] at h
    rw [if_pos (by omega)] at h
    cases h

example : compress (List.replicate 40 7) 56 = .ok [0x1f, 7, 1, 0, 8, 0xc0, 7, 7, 7, 7, 7, 7, 7, 7, 7, 7, 7, 7] ∧
    Spec.Lz4.endRulesCheck [0x1f, 7, 1, 0, 8, 0xc0, 7, 7, 7, 7, 7, 7, 7, 7, 7, 7, 7, 7] = true := by
  decide +kernel

/-- carquet's decompressor accepts every valid block — whatever encoder produced it: every token
kind, 255-chains, any offset from 1 to the amount produced so far, overlapping copies — and
returns the encoded bytes, given a destination of exactly their size (or larger). -/
theorem C10_lz4_accepts_valid (bs out : List UInt8) (h : Spec.Lz4.Block bs out) (cap : Nat)
    (hc : out.length ≤ cap) : decompress bs cap = .ok out := by
  rw [Proofs.Lz4Decomp.decompress_eq_spec, Proofs.Lz4Spec.decode_complete h hc]

/-- a block with a 255-chain literal length, an overlapping offset-1 run and a maximal offset -/
example : Spec.Lz4.Block [0x10, 0x41, 0x01, 0x00, 0x00] [0x41, 0x41, 0x41, 0x41, 0x41] :=
  Proofs.Lz4Spec.decode_sound (cap := 5) (by decide +kernel)

/-- …and rejects everything the format defines as invalid: whenever the independent decoder
reports an error (input ends inside a sequence or before the final literal-only sequence,
offset 0, offset reaching before the start of the output, more output than `cap`), carquet
returns `CARQUET_ERROR_INVALID_COMPRESSED_DATA`. -/
theorem C10_lz4_rejects_invalid (bs : List UInt8) (cap : Nat) (e : Spec.Lz4.Err)
    (h : Spec.Lz4.decode bs cap = .error e) : decompress bs cap = .error .invalidData := by
  rw [Proofs.Lz4Decomp.decompress_eq_spec, h]

/-- the same in terms of the grammar: no block of at most `cap` bytes → rejected -/
theorem C10_lz4_rejects_nonblocks (bs : List UInt8) (cap : Nat)
    (h : ¬ ∃ out, Spec.Lz4.Block bs out ∧ out.length ≤ cap) : decompress bs cap = .error .invalidData := by
  cases hd : Spec.Lz4.decode bs cap with
  | error e => exact C10_lz4_rejects_invalid bs cap e hd
  | ok out => exact absurd ⟨out, (C10_lz4_spec_decode_iff_block bs out cap).mp hd⟩ h

example : Spec.Lz4.decode [0x10, 0x41, 0x00, 0x00, 0x00] 5 = .error .offsetZero := by decide +kernel

/-- carquet's decompressor is the Spec decoder (all Spec errors being one status). -/
theorem C10_lz4_decompress_eq_spec (bs : List UInt8) (cap : Nat) :
    decompress bs cap =
      (match Spec.Lz4.decode bs cap with
       | .ok o => .ok o
       | .error _ => .error .invalidData) :=
  Proofs.Lz4Decomp.decompress_eq_spec bs cap

/-- F40: the pinned decompressor (`while (ip < iend)`) accepts input without the final
literal-only sequence — the empty input, and a block cut right after a match — and reports OK
with the bytes produced so far; the format (and the repaired code) reject both. -/
theorem C10_regression_F40 :
    decompressPreFix [] 0 = .ok [] ∧ Spec.Lz4.decode [] 0 = .error .truncated ∧
    decompress [] 0 = .error .invalidData ∧
    decompressPreFix [0x10, 0x41, 0x01, 0x00] 5 = .ok [0x41, 0x41, 0x41, 0x41, 0x41] ∧
    Spec.Lz4.decode [0x10, 0x41, 0x01, 0x00] 5 = .error .truncated ∧
    decompress [0x10, 0x41, 0x01, 0x00] 5 = .error .invalidData := by
  decide +kernel

end Carquet.Properties.C10
