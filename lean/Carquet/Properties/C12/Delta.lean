import Carquet.Proofs.DeltaTop
import Carquet.Proofs.DeltaBytes
import Carquet.Proofs.DeltaSpecEnc
import Carquet.Gen.DeltaConstants
import Carquet.Proofs.DeltaBytesCap
/-
C12 — encoded bytes follow the Parquet encoding specification: DELTA_BINARY_PACKED.
Property statements only; helper lemmas live in Carquet/Proofs/Delta*.lean.
`Spec.Delta` is the transcription of the format document (grammar `Stream`, reference decoder
`decode`); `Impl.Delta` models the repaired code (fixes/F13-…, fixes/F30-…); the `…PreFix`
functions model the code before F13.
-/
namespace Carquet.Properties.C12
open Carquet
open Carquet.Spec.Delta (Stream)

/-- The constants and guards the model relies on are the ones in the source now (re-extracted
from src/encoding/delta.c on every run): 128/4 geometry, the 40-byte header capacity check, the
`bit_width <= 64` branch (F13 repair) and the geometry validation (F30 repair). -/
theorem C12_delta_constants_tied :
    Gen.deltaBlockSize = Impl.Delta.blockSize ∧ Gen.deltaMiniBlocks = Impl.Delta.miniBlocks ∧
    Gen.deltaHeaderCapacity = 40 ∧ Gen.deltaWidthGuard64 = 1 ∧ Gen.deltaGeometryGuard = 1 := by decide

/-- carquet → specification, INT64: whatever `carquet_delta_encode_int64` writes for a non-empty
sequence — followed by any bytes — is decoded by the independent reference decoder to exactly
that sequence, and the decoder stops exactly at the end of what was written. -/
theorem C12_delta_impl_to_spec_int64 (vs : List (BitVec 64)) (cap : Nat) (bs tail : List UInt8)
    (hne : vs ≠ []) (hlen : vs.length ≤ 2147483647)
    (henc : Impl.Delta.encodeInt64 vs cap = .ok bs) :
    Spec.Delta.decode 64 (bs ++ tail) = .ok (vs.map BitVec.toInt, tail) :=
  Impl.Delta.int64_to_spec vs cap bs tail hne hlen henc

/-- carquet → specification, INT32. -/
theorem C12_delta_impl_to_spec_int32 (vs : List (BitVec 32)) (cap : Nat) (bs tail : List UInt8)
    (hne : vs ≠ []) (hlen : vs.length ≤ 2147483647)
    (henc : Impl.Delta.encodeInt32 vs cap = .ok bs) :
    Spec.Delta.decode 32 (bs ++ tail) = .ok (vs.map BitVec.toInt, tail) :=
  Impl.Delta.int32_to_spec vs cap bs tail hne hlen henc

/-- both column widths in one statement (the name used in DESIGN.md) -/
theorem C12_delta_impl_to_spec :
    (∀ (vs : List (BitVec 32)) (cap : Nat) (bs tail : List UInt8), vs ≠ [] → vs.length ≤ 2147483647 →
      Impl.Delta.encodeInt32 vs cap = .ok bs →
      Spec.Delta.decode 32 (bs ++ tail) = .ok (vs.map BitVec.toInt, tail)) ∧
    (∀ (vs : List (BitVec 64)) (cap : Nat) (bs tail : List UInt8), vs ≠ [] → vs.length ≤ 2147483647 →
      Impl.Delta.encodeInt64 vs cap = .ok bs →
      Spec.Delta.decode 64 (bs ++ tail) = .ok (vs.map BitVec.toInt, tail)) :=
  ⟨C12_delta_impl_to_spec_int32, C12_delta_impl_to_spec_int64⟩

example : ∃ bs, Impl.Delta.encodeInt32 [0x80000000#32, 0x7FFFFFFF#32, 0x80000000#32] 400 = .ok bs ∧
    Spec.Delta.decode 32 bs = .ok ([-2147483648, 2147483647, -2147483648], []) := by
  refine ⟨_, rfl, ?_⟩; decide +kernel

/-- specification → carquet, over the whole grammar: every well-formed stream `s` with geometry
128/4 — any frame of reference (well-formedness asks that every number of the stream fits a
64-bit varint), any widths 0..64 (wider than needed
included), any padding of the last miniblock, *any* bytes in the width slots of unneeded
miniblocks — whose count fits `int32_t`, followed by any bytes, is decoded by
`carquet_delta_decode_int64` to the values it denotes, and `bytes_consumed` is its length. -/
theorem C12_delta_spec_to_impl_int64 (s : Stream) (tail : List UInt8) (hwf : s.wf)
    (hg : s.geom = ⟨128, 4⟩) (hcount : s.count ≤ 2147483647) :
    Impl.Delta.decodeInt64 (s.bytes ++ tail) s.count =
      .ok ((s.values 64).map (BitVec.ofInt 64), s.bytes.length) :=
  Impl.Delta.stream_decodeInt64 s tail hwf hg (Impl.Delta.fitsApi_of_wf s hwf hcount)

/-- specification → carquet, INT32 column (values narrowed by `(int32_t)`). -/
theorem C12_delta_spec_to_impl_int32 (s : Stream) (tail : List UInt8) (hwf : s.wf)
    (hg : s.geom = ⟨128, 4⟩) (hcount : s.count ≤ 2147483647) :
    Impl.Delta.decodeInt32 (s.bytes ++ tail) s.count =
      .ok ((s.values 32).map (BitVec.ofInt 32), s.bytes.length) :=
  Impl.Delta.stream_decodeInt32 s tail hwf hg (Impl.Delta.fitsApi_of_wf s hwf hcount)

theorem C12_delta_spec_to_impl :
    (∀ (s : Stream) (tail : List UInt8), s.wf → s.geom = ⟨128, 4⟩ → s.count ≤ 2147483647 →
      Impl.Delta.decodeInt32 (s.bytes ++ tail) s.count = .ok ((s.values 32).map (BitVec.ofInt 32), s.bytes.length)) ∧
    (∀ (s : Stream) (tail : List UInt8), s.wf → s.geom = ⟨128, 4⟩ → s.count ≤ 2147483647 →
      Impl.Delta.decodeInt64 (s.bytes ++ tail) s.count = .ok ((s.values 64).map (BitVec.ofInt 64), s.bytes.length)) :=
  ⟨C12_delta_spec_to_impl_int32, C12_delta_spec_to_impl_int64⟩

/-- The same direction phrased with the steerable reference *encoder*: for every steering of
geometry 128/4 (frame of reference per block — `none` is the minimum the text prescribes —, extra
width per miniblock, junk width bytes, padding values) and every value sequence within the column
width, including the empty one, carquet's decoders return the sequence from the reference
encoder's bytes, and `bytes_consumed` is their number. -/
theorem C12_delta_spec_encoder_to_impl (p : Spec.Delta.Params) (hgeo : p.geom = ⟨128, 4⟩) (hp : p.ok)
    (vs : List Int) (hlen : vs.length ≤ 2147483647) (tail : List UInt8) :
    ((∀ v ∈ vs, Spec.Delta.wrap 64 v = v) →
      Impl.Delta.decodeInt64 (Spec.Delta.encode 64 p vs ++ tail) vs.length =
        .ok (vs.map (BitVec.ofInt 64), (Spec.Delta.encode 64 p vs).length)) ∧
    ((∀ v ∈ vs, Spec.Delta.wrap 32 v = v) →
      Impl.Delta.decodeInt32 (Spec.Delta.encode 32 p vs ++ tail) vs.length =
        .ok (vs.map (BitVec.ofInt 32), (Spec.Delta.encode 32 p vs).length)) := by
  have hleg : p.geom.legal := by rw [hgeo]; decide
  have hb : p.geom.blockSize < 2 ^ 64 := by rw [hgeo]; decide
  have hm : p.geom.miniblocks < 2 ^ 64 := by rw [hgeo]; decide
  have hcount : ∀ W, (Spec.Delta.encodeStream W p vs).count = vs.length := by
    intro W; cases vs <;> rfl
  have hgeom : ∀ W, (Spec.Delta.encodeStream W p vs).geom = ⟨128, 4⟩ := by
    intro W; cases vs <;> exact hgeo
  have hfirst : ∀ W, W ≤ 64 → (∀ v ∈ vs, Spec.Delta.wrap W v = v) → Spec.Delta.inI64 (vs.headD 0) := by
    intro W hW hv
    cases vs with
    | nil => decide
    | cons v rest =>
      simp only [List.headD_cons]
      rw [← hv v (by simp)]
      exact Spec.Delta.wrap_inI64 W hW v
  constructor
  · intro hv
    have hwf := Spec.Delta.encodeStream_wf 64 (by decide) p hleg hp hb hm vs (by omega) (hfirst 64 (by decide) hv)
    have := C12_delta_spec_to_impl_int64 _ tail hwf (hgeom 64) (by rw [hcount]; exact hlen)
    rw [hcount, Spec.Delta.encodeStream_values 64 p hleg vs hv] at this
    exact this
  · intro hv
    have hwf := Spec.Delta.encodeStream_wf 32 (by decide) p hleg hp hb hm vs (by omega) (hfirst 32 (by decide) hv)
    have := C12_delta_spec_to_impl_int32 _ tail hwf (hgeom 32) (by rw [hcount]; exact hlen)
    rw [hcount, Spec.Delta.encodeStream_values 32 p hleg vs hv] at this
    exact this

/-- the Spec is self-consistent: its decoder inverts its steerable encoder for every legal
geometry (a statement about the transcription of the document, not about carquet) -/
theorem C12_delta_spec_self_consistent (W : Nat) (hW : W ≤ 64) (p : Spec.Delta.Params) (hg : p.geom.legal)
    (hp : p.ok) (hb : p.geom.blockSize < 2 ^ 64) (hm : p.geom.miniblocks < 2 ^ 64)
    (vs : List Int) (hlen : vs.length < 2 ^ 64) (hv : ∀ v ∈ vs, Spec.Delta.wrap W v = v) (tail : List UInt8) :
    Spec.Delta.decode W (Spec.Delta.encode W p vs ++ tail) = .ok (vs, tail) :=
  Spec.Delta.decode_encode W hW p hg hp hb hm vs hlen hv tail

example : (fun (_ : Nat) => ({ minDelta := some (-5), extraWidth := [3, 60], junk := [0xff], pad := [1, 2, 3] } : Spec.Delta.Choice)) 0
    = { minDelta := some (-5), extraWidth := [3, 60], junk := [0xff], pad := [1, 2, 3] } ∧
    Impl.Delta.decodeInt64 (Spec.Delta.encode 64 { choice := fun _ => { minDelta := some (-5), extraWidth := [3, 60], junk := [0xff, 77], pad := [1, 2, 3] } }
        [10, 20, 15, -9223372036854775808, 9223372036854775807]) 5 =
      .ok ([10, 20, 15, -9223372036854775808, 9223372036854775807].map (BitVec.ofInt 64),
           (Spec.Delta.encode 64 { choice := fun _ => { minDelta := some (-5), extraWidth := [3, 60], junk := [0xff, 77], pad := [1, 2, 3] } }
        [10, 20, 15, -9223372036854775808, 9223372036854775807]).length) := by
  refine ⟨rfl, ?_⟩; decide +kernel

/-- non-vacuity: a stream carquet's own encoder never emits — frame of reference below the
minimum, a 40-bit and a 64-bit miniblock, non-zero padding, junk width bytes 0xff / 200 — is in
the grammar, and the kernel evaluates both decoders on it. -/
def sampleStream : Stream :=
  ⟨⟨128, 4⟩, 35, -7,
   [{ minDelta := -1000, widths := [40, 64, 0xff, 200],
      adj := (List.range 34).map (fun i => 1000 + i * 3), pad := (List.range 30).map (fun i => i + 1) }]⟩

example : sampleStream.wf ∧ sampleStream.geom = ⟨128, 4⟩ ∧
    Spec.Delta.decode 64 sampleStream.bytes = .ok (sampleStream.values 64, []) ∧
    Impl.Delta.decodeInt64 sampleStream.bytes 35 =
      .ok ((sampleStream.values 64).map (BitVec.ofInt 64), sampleStream.bytes.length) ∧
    (sampleStream.values 64).take 4 = [-7, -7, -4, 2] := by
  refine ⟨?_, rfl, ?_, ?_, ?_⟩
  · refine ⟨by decide, ?_, Or.inl (by decide), by decide⟩
    refine ⟨by decide, by decide, by decide, by decide, by decide, ?_, by decide⟩
    simp only [Spec.Delta.fits]
    refine Or.inr ⟨by decide, by decide +kernel, Or.inr ⟨by decide, by decide +kernel, Or.inl (by decide +kernel)⟩⟩
  · decide +kernel
  · decide +kernel
  · decide +kernel

/-- Geometries the format allows but carquet does not implement are answered with
`CARQUET_ERROR_DECODE` — an error, never values: whatever follows a header that declares a legal
geometry other than 128/4 (header numbers within the 64-bit varint range), both decoders fail. -/
theorem C12_delta_other_geometry_rejected (g : Spec.Delta.Geometry) (rest : List UInt8) (n : Nat)
    (hleg : g.legal) (hne : g ≠ ⟨128, 4⟩) (hb : g.blockSize < 2 ^ 64) (hm : g.miniblocks < 2 ^ 64) :
    Impl.Delta.decodeInt64 (Spec.Delta.ulebEncode g.blockSize ++ (Spec.Delta.ulebEncode g.miniblocks ++ rest)) n
      = .error .decode ∧
    Impl.Delta.decodeInt32 (Spec.Delta.ulebEncode g.blockSize ++ (Spec.Delta.ulebEncode g.miniblocks ++ rest)) n
      = .error .decode := by
  have hinit : Impl.Delta.init (Spec.Delta.ulebEncode g.blockSize ++ (Spec.Delta.ulebEncode g.miniblocks ++ rest))
      = .error .decode := by
    unfold Impl.Delta.init
    rw [Impl.Delta.readUleb128_ulebEncode _ _ hb]
    simp only
    have eb : (BitVec.ofNat 64 g.blockSize).toNat = g.blockSize := by
      rw [BitVec.toNat_ofNat, Nat.mod_eq_of_lt hb]
    have em : (BitVec.ofNat 64 g.miniblocks).toNat = g.miniblocks := by
      rw [BitVec.toNat_ofNat, Nat.mod_eq_of_lt hm]
    rw [eb]
    split
    · rfl
    · rw [Impl.Delta.drop_len_append, Impl.Delta.readUleb128_ulebEncode _ _ hm]
      simp only
      rw [em]
      obtain ⟨bsz, mbs⟩ := g
      obtain ⟨h1, h2, h3, h4, h5⟩ := hleg
      simp only [Spec.Delta.Geometry.vpm] at h1 h2 h3 h4 h5 ⊢
      rename_i hle
      simp only [Impl.Delta.blockSize] at hle
      have hbs : bsz = 128 := by omega
      subst hbs
      split
      · rfl
      · rename_i hle2
        simp only [Impl.Delta.miniBlocks] at hle2
        have : mbs = 1 ∨ mbs = 2 ∨ mbs = 3 := by
          have : mbs ≠ 4 := fun h => hne (by rw [h])
          omega
        rcases this with rfl | rfl | rfl <;> simp [Impl.Delta.miniBlockSize, Impl.Delta.blockSize, Impl.Delta.miniBlocks] at h4 h5 ⊢
  constructor
  · simp [Impl.Delta.decodeInt64, Impl.Delta.decodeV, hinit]
  · simp [Impl.Delta.decodeInt32, Impl.Delta.decodeV, hinit]

example : Spec.Delta.Geometry.legal ⟨256, 8⟩ ∧ (⟨256, 8⟩ : Spec.Delta.Geometry) ≠ ⟨128, 4⟩ ∧
    Spec.Delta.Geometry.legal ⟨128, 2⟩ := by decide

/-- F13, the defect the repair removes: before the fix a miniblock wider than 32 bits was written
as whole little-endian bytes per value.  Kernel-checked witness on the model of the old code:
for the INT64 input `0, 2^32, 1` (and for the INT32 input `INT32_MIN, INT32_MAX, INT32_MIN`) the
old encoder succeeds and declares width 33, its own old decoder reads the values back (so C11
held), but the reference decoder does not obtain the input. -/
theorem C12_regression_F13 :
    (∃ bs, Impl.Delta.encodeInt64PreFix [0#64, 0x100000000#64, 1#64] 400 = .ok bs ∧
       (Impl.Delta.decodeV true bs 3).map Prod.fst = .ok [0#64, 0x100000000#64, 1#64] ∧
       Spec.Delta.decode 64 bs ≠ .ok ([0, 4294967296, 1], [])) ∧
    (∃ bs, Impl.Delta.encodeInt32PreFix [0x80000000#32, 0x7FFFFFFF#32, 0x80000000#32] 400 = .ok bs ∧
       Spec.Delta.decode 32 bs ≠ .ok ([-2147483648, 2147483647, -2147483648], [])) := by
  refine ⟨⟨_, rfl, ?_, ?_⟩, ⟨_, rfl, ?_⟩⟩ <;> decide +kernel

/-- DELTA_LENGTH_BYTE_ARRAY, carquet → specification. -/
theorem C12_delta_length_impl_to_spec (vs : List (List UInt8)) (bs tail : List UInt8) (hne : vs ≠ [])
    (hlen : vs.length ≤ 2147483647) (hv : ∀ v ∈ vs, v.length < 2 ^ 31)
    (henc : Impl.DeltaLength.encode vs = .ok bs) :
    Spec.Delta.decodeLengthByteArray (bs ++ tail) = .ok (vs, tail) :=
  Impl.DeltaLength.to_spec vs bs tail hne hlen hv henc

/-- DELTA_LENGTH_BYTE_ARRAY, specification → carquet: the length stream is any grammar stream of
geometry 128/4 (every liberty of `C12_delta_spec_to_impl`), `rest` any bytes; whenever the
reference decoder accepts, carquet returns the same byte arrays and the same end of stream. -/
theorem C12_delta_length_spec_to_impl (s : Stream) (rest rest' : List UInt8) (vals : List (List UInt8))
    (hwf : s.wf) (hg : s.geom = ⟨128, 4⟩) (hcount : s.count ≤ 2147483647) (hc : 0 < s.count)
    (hspec : Spec.Delta.decodeLengthByteArray (s.bytes ++ rest) = .ok (vals, rest')) :
    Impl.DeltaLength.decode (s.bytes ++ rest) s.count =
      .ok (vals, s.bytes.length + rest.length - rest'.length) :=
  Impl.DeltaLength.from_spec s rest rest' vals hwf hg (Impl.Delta.fitsApi_of_wf s hwf hcount) hc hspec

/-- DELTA_BYTE_ARRAY, carquet → specification. -/
theorem C12_delta_strings_impl_to_spec (vs : List (List UInt8)) (bs tail : List UInt8) (hne : vs ≠ [])
    (hlen : vs.length ≤ 2147483647) (hv : ∀ v ∈ vs, v.length < 2 ^ 31)
    (henc : Impl.DeltaStrings.encode vs = .ok bs) :
    Spec.Delta.decodeByteArray (bs ++ tail) = .ok (vs, tail) :=
  Impl.DeltaStrings.to_spec vs bs tail hne hlen hv henc

/-- DELTA_BYTE_ARRAY, specification → carquet: prefix-length and suffix-length streams are any
grammar streams of geometry 128/4 with the same count (prefixes shorter than the shared prefix
included); whenever the reference decoder accepts, carquet returns the same byte arrays and the
same end of stream, provided the work buffer holds them and each is below 2 GiB. -/
theorem C12_delta_strings_spec_to_impl (sP sS : Stream) (rest rest' : List UInt8)
    (vals : List (List UInt8)) (work : Nat)
    (hwfP : sP.wf) (hgP : sP.geom = ⟨128, 4⟩) (hwfS : sS.wf) (hgS : sS.geom = ⟨128, 4⟩)
    (hcnt : sP.count = sS.count) (hc : 0 < sP.count) (hcount : sP.count ≤ 2147483647)
    (hspec : Spec.Delta.decodeByteArray (sP.bytes ++ (sS.bytes ++ rest)) = .ok (vals, rest'))
    (hwork : (vals.map List.length).sum ≤ work) (hsmall : ∀ v ∈ vals, v.length < 2 ^ 31) :
    Impl.DeltaStrings.decode (sP.bytes ++ (sS.bytes ++ rest)) sP.count work =
      .ok (vals, sP.bytes.length + sS.bytes.length + rest.length - rest'.length) :=
  Impl.DeltaStrings.from_spec sP sS rest rest' vals work hwfP hgP (Impl.Delta.fitsApi_of_wf sP hwfP hcount)
    hwfS hgS (Impl.Delta.fitsApi_of_wf sS hwfS (by omega)) hcnt hc hspec hwork hsmall

/-- non-vacuity for the byte-array theorems: streams from the steerable Spec encoder (prefix
lengths capped at 1, so shorter than the shared prefix) are accepted by both decoders. -/
example : Spec.Delta.decodeByteArray (Spec.Delta.encodeByteArray {} {} (fun _ => 1) [[1, 2, 3], [1, 2, 4, 5], [], [1, 2]]) =
      .ok ([[1, 2, 3], [1, 2, 4, 5], [], [1, 2]], []) ∧
    Impl.DeltaStrings.decode (Spec.Delta.encodeByteArray {} {} (fun _ => 1) [[1, 2, 3], [1, 2, 4, 5], [], [1, 2]]) 4 9 =
      .ok ([[1, 2, 3], [1, 2, 4, 5], [], [1, 2]],
           (Spec.Delta.encodeByteArray {} {} (fun _ => 1) [[1, 2, 3], [1, 2, 4, 5], [], [1, 2]]).length) ∧
    Impl.DeltaLength.decode (Spec.Delta.encodeLengthByteArray {} [[7], [], [8, 9]]) 3 =
      .ok ([[7], [], [8, 9]], (Spec.Delta.encodeLengthByteArray {} [[7], [], [8, 9]]).length) := by
  refine ⟨?_, ?_, ?_⟩ <;> decide +kernel

/-- carquet → specification for the byte-array encodings without a condition on the encoder's
status: for every non-empty list of byte arrays (each shorter than 2 GiB) both encoders succeed
(`C11_delta_bytes_encode_succeeds`) and the reference decoders recover exactly the input from what
they wrote, leaving what follows. -/
theorem C12_delta_bytes_impl_to_spec_total (vs : List (List UInt8)) (tail : List UInt8) (hne : vs ≠ [])
    (hlen : vs.length ≤ 2147483647) (hv : ∀ v ∈ vs, v.length < 2 ^ 31) :
    (∃ bs, Impl.DeltaLength.encode vs = .ok bs ∧
       Spec.Delta.decodeLengthByteArray (bs ++ tail) = .ok (vs, tail)) ∧
    (∃ bs, Impl.DeltaStrings.encode vs = .ok bs ∧
       Spec.Delta.decodeByteArray (bs ++ tail) = .ok (vs, tail)) := by
  obtain ⟨b1, h1⟩ := Impl.DeltaLength.encode_succeeds vs hne hlen
  obtain ⟨b2, h2⟩ := Impl.DeltaStrings.encode_succeeds vs hne hlen
  exact ⟨⟨b1, h1, Impl.DeltaLength.to_spec vs b1 tail hne hlen hv h1⟩,
         ⟨b2, h2, Impl.DeltaStrings.to_spec vs b2 tail hne hlen hv h2⟩⟩

example : ∃ bs, Impl.DeltaStrings.encode [[1, 2, 3], [1, 2, 4, 5], [], [1, 2]] = .ok bs ∧
    Spec.Delta.decodeByteArray bs = .ok ([[1, 2, 3], [1, 2, 4, 5], [], [1, 2]], []) := by
  refine ⟨_, rfl, ?_⟩; decide +kernel

end Carquet.Properties.C12
