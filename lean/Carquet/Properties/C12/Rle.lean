import Carquet.Spec.RleHybrid
import Carquet.Impl.Rle
import Carquet.Impl.RlePreFix
import Carquet.Proofs.Zigzag
import Carquet.Proofs.BitpackTails
import Carquet.Proofs.RleEncoder
import Carquet.Proofs.RleLevels
import Carquet.Proofs.RleLevelsF58
import Carquet.Proofs.RleSpecDecoder
import Carquet.Proofs.RleSpecEncoder
import Carquet.Proofs.RleHistory
/-
C12 — encoded bytes follow the Parquet encoding specifications (part: ULEB128 varints, raw bit
packing, RLE/bit-packed hybrid).  Both directions:

  impl → spec : what carquet's encoders emit is decoded to the original values by the
                independent decoder of Spec/RleHybrid.lean (written from the Encodings document);
  spec → impl : carquet's decoders return the values of **every** stream of the Spec grammar
                (`Spec.RleHybrid.Stream`): several groups per bit-packed run, runs of length 0,
                a final group padded with arbitrary bits, non-canonical (over-long) run headers.

Property statements only; helper lemmas live in Carquet/Proofs/.  The models are those of the
code as repaired by fixes/F1, F30, F31, F32, F33 (see NOTES_rle.md).
-/
namespace Carquet.Properties.C12
open Carquet Carquet.Impl Carquet.Proofs

/-- carquet's encoder emits a stream of the Spec grammar for its input: complete runs that
denote the input followed by at most seven zero values of padding in the last group. -/
theorem C12_rle_encoder_emits_stream (w : Nat) (hw : w ≤ 32) (vs : List Nat) (hv : ∀ v ∈ vs, v < 2 ^ w) :
    Spec.RleHybrid.Stream w (Rle.encode w vs) vs ∧
    ∃ pad, Spec.RleHybrid.Runs w (Rle.encode w vs) (vs ++ pad) ∧ pad.length < 8 ∧ ∀ p ∈ pad, p = 0 := by
  obtain ⟨pad, hr, h1, h2⟩ := RleEncoder.encode_runs hw vs hv
  exact ⟨⟨pad, hr⟩, pad, hr, h1, h2⟩

/-- **impl → spec.**  The independent Spec decoder recovers the values from the bytes carquet's
encoder emits. -/
theorem C12_rle_impl_to_spec (w : Nat) (hw : w ≤ 32) (vs : List Nat) (hv : ∀ v ∈ vs, v < 2 ^ w) :
    Spec.RleHybrid.decode w (Rle.encode w vs) vs.length = .ok vs := by
  obtain ⟨pad, hr, _, _⟩ := RleEncoder.encode_runs hw vs hv
  rw [RleSpecDecoder.decode_complete hr vs.length (by simp)]
  simp

example : Spec.RleHybrid.decode 3 (Rle.encode 3 [1, 2, 3, 5, 5, 5, 5, 5, 5, 5, 5, 5, 5, 5, 5, 1]) 16
    = .ok [1, 2, 3, 5, 5, 5, 5, 5, 5, 5, 5, 5, 5, 5, 5, 1] :=
  C12_rle_impl_to_spec 3 (by decide) _ (by decide)

/-- **impl → spec for arbitrary encoder histories.**  Whatever sequence of put / put_repeat /
flush calls is made on a fresh encoder (flushes anywhere), the bytes written up to a final flush
are complete runs of the Spec grammar, and the independent Spec decoder reads from them the values
put, in order, with `pads[i] < 8` zeros after the values preceding the i-th flush
(see `C11_rle_history_roundtrip`). -/
theorem C12_rle_history_to_spec (w : Nat) (hw : w ≤ 32) (ops : List Rle.EncOp)
    (hv : ∀ v ∈ Rle.histValues ops, v < 2 ^ w) :
    Spec.RleHybrid.Runs w (Rle.runEncOps (Rle.Enc.init w) (ops ++ [.flush])).out
      (Rle.denoteWith (Rle.flushPads (Rle.Enc.init w) (ops ++ [.flush])) (ops ++ [.flush])) ∧
    Spec.RleHybrid.decode w (Rle.runEncOps (Rle.Enc.init w) (ops ++ [.flush])).out
        (Rle.denoteWith (Rle.flushPads (Rle.Enc.init w) (ops ++ [.flush])) (ops ++ [.flush])).length
      = .ok (Rle.denoteWith (Rle.flushPads (Rle.Enc.init w) (ops ++ [.flush])) (ops ++ [.flush])) := by
  obtain ⟨hr, _, _⟩ := RleHistory.history_runs hw ops hv
  refine ⟨hr, ?_⟩
  rw [RleSpecDecoder.decode_complete hr _ (Nat.le_refl _)]
  simp

example : Spec.RleHybrid.decode 3 (Rle.runEncOps (Rle.Enc.init 3) [.put 1, .flush, .rep 5 9, .flush, .put 2, .put 2, .flush]).out 25
    = .ok [1, 0, 0, 0, 0, 0, 0, 0, 5, 5, 5, 5, 5, 5, 5, 5, 5, 2, 2, 0, 0, 0, 0, 0, 0] := by decide

/-- **spec → impl.**  For every stream of the grammar, `carquet_rle_decode_all` asked for
`|vs|` values returns exactly `vs` (so its return value is `|vs|`); the int16 fast path
`carquet_rle_decode_levels` does too when the values are below 2^15; and so does any streaming
history (through `C11_rle_stream_eq_oneshot`). -/
theorem C12_rle_spec_to_impl (w : Nat) (hw : w ≤ 32) (bs : List UInt8) (vs : List Nat)
    (h : Spec.RleHybrid.Stream w bs vs) :
    Rle.decodeAll w bs vs.length = vs ∧
    Rle.decode w bs vs.length = .ok vs ∧
    ((∀ v ∈ vs, v < 32768) → Rle.decodeLevels w bs vs.length = vs.map Int.ofNat) := by
  obtain ⟨pad, hr⟩ := h
  have h1 : Rle.decodeAll w bs vs.length = vs := by
    rw [RleDecoder.decodeAll_eq w hw, RleGrammar.allValues_of_runs hw hr]; simp
  refine ⟨h1, ?_, fun hs => ?_⟩
  · unfold Rle.decode; rw [h1, if_pos rfl]
  · have := RleLevels.decodeLevels_of_runs hw hr vs.length (by simp) (by
      intro v hv'
      rw [List.take_append_of_le_length (Nat.le_refl _), List.take_of_length_le (Nat.le_refl _)] at hv'
      exact hs v hv')
    rw [this, List.take_append_of_le_length (Nat.le_refl _), List.take_of_length_le (Nat.le_refl _)]

/-- a legal stream using every form carquet's encoder never emits: an over-long header, an
empty RLE run (with its value byte), a two-group bit-packed run whose last five values are
padding, at width 3 — it denotes `[3, 0,1,2,3,4,5,6,7, 7,7,7]` -/
example : Spec.RleHybrid.Stream 3
    [0x82, 0x00, 0x03,  0x00, 0x05,  0x05, 0x88, 0xC6, 0xFA, 0xFF, 0xFF, 0xFF]
    [3, 0, 1, 2, 3, 4, 5, 6, 7, 7, 7, 7] := by
  refine ⟨[7, 7, 7, 7, 7], ?_⟩
  have r3 := Spec.RleHybrid.Runs.packed (w := 3) [0x05] 2 [0x88, 0xC6, 0xFA, 0xFF, 0xFF, 0xFF]
    [0, 1, 2, 3, 4, 5, 6, 7, 7, 7, 7, 7, 7, 7, 7, 7] [] [] (by decide) (by decide) (by decide) .nil
  have r2 := Spec.RleHybrid.Runs.rle (w := 3) [0x00] 0 5 _ _ (by decide) (by decide) r3
  have r1 := Spec.RleHybrid.Runs.rle (w := 3) [0x82, 0x00] 1 3 _ _ (by decide) (by decide) r2
  exact r1

example : Rle.decodeAll 3 [0x82, 0x00, 0x03,  0x00, 0x05,  0x05, 0x88, 0xC6, 0xFA, 0xFF, 0xFF, 0xFF] 12
    = [3, 0, 1, 2, 3, 4, 5, 6, 7, 7, 7, 7] := by decide

/-- The choice-steered reference encoder of the Spec (any mix of RLE runs, empty runs,
multi-group bit-packed runs with arbitrary padding, over-long headers) only produces streams of
the grammar — hence streams carquet's decoders read back (`C12_rle_spec_to_impl`). -/
theorem C12_rle_spec_encoder_sound (w : Nat) (hw : w ≤ 32) (cs : List Spec.RleHybrid.Choice)
    (vs : List Nat) (bs : List UInt8) (h : Spec.RleHybrid.encodeWith w cs vs = some bs) :
    Spec.RleHybrid.Stream w bs vs ∧ Rle.decodeAll w bs vs.length = vs :=
  ⟨RleSpecEncoder.encodeWith_sound w cs vs bs h,
   (C12_rle_spec_to_impl w hw bs vs (RleSpecEncoder.encodeWith_sound w cs vs bs h)).1⟩

example : Spec.RleHybrid.encodeWith 3 [.rle 1 1, .emptyRle 5 0, .packed 2 [7, 7, 7, 7, 7] 0]
    [3, 0, 1, 2, 3, 4, 5, 6, 7, 7, 7, 7]
    = some [0x82, 0x00, 0x03,  0x00, 0x05,  0x05, 0x88, 0xC6, 0xFA, 0xFF, 0xFF, 0xFF] := by decide

/-- Raw bit packing: what `carquet_bitpack8_32` / `carquet_bitpack_32` write is the Spec's
LSB-first packing of the (masked) values, and what `carquet_bitunpack8_32` /
`carquet_bitunpack_32` read is the Spec's unpacking, tails included. -/
theorem C12_bitpack_impl_eq_spec (w : Nat) (hw : w ≤ 32) :
    (∀ vs : List Nat, vs.length = 8 → Bitpack.pack8 w vs = Spec.BitPack.pack w vs) ∧
    (∀ vs : List Nat, Bitpack.pack w vs = Spec.BitPack.pack w vs) ∧
    (∀ inp : List UInt8, w ≤ inp.length →
      Spec.BitPack.unpack w (inp.take w) 8 = some (Bitpack.unpack8 w inp)) ∧
    (∀ (inp : List UInt8) (n : Nat), n * w ≤ 8 * inp.length →
      Spec.BitPack.unpack w inp n = some (Bitpack.unpack w inp n).1) :=
  ⟨fun vs h => BitPackSpec.impl_pack8_eq_spec hw vs h,
   fun vs => BitpackTails.impl_pack_eq_spec hw vs,
   fun inp h => (BitPackSpec.impl_unpack8_eq_spec hw inp h).symm,
   fun inp n h => BitpackTails.impl_unpack_eq_spec hw inp n h⟩

example : Bitpack.pack 3 [0, 1, 2, 3, 4, 5, 6, 7, 7, 6] = Spec.BitPack.pack 3 [0, 1, 2, 3, 4, 5, 6, 7, 7, 6] :=
  (C12_bitpack_impl_eq_spec 3 (by decide)).2.1 _

/-- Varints: the writers emit canonical ULEB128; the 32-bit readers return what the Spec reader
returns on every number of at most 5 bytes below 2^32 (over-long encodings included). -/
theorem C12_varint_impl_eq_spec :
    (∀ v, v < 2 ^ 32 → Varint.writeVarint32 v = Spec.Varint.encode v) ∧
    (∀ v, v < 2 ^ 64 → Varint.writeVarint64 v = Spec.Varint.encode v) ∧
    (∀ (bs rest : List UInt8) (v : Nat), Spec.Varint.decode bs = some (v, rest) →
      bs.length - rest.length ≤ 5 → v < 2 ^ 32 →
      Varint.decodeVarint32 bs = some (v, rest) ∧ Varint.readVarintRle bs = some (v, rest)) :=
  ⟨fun _ h => VarintImpl.writeVarint32_eq h, fun _ h => VarintImpl.writeVarint64_eq h,
   fun _ _ _ h hl hv => ⟨VarintImpl.readVarintRle_of_spec h hl hv, VarintImpl.readVarintRle_of_spec h hl hv⟩⟩

/-- F31 (pinned `start_new_run`: an empty RLE run is skipped without reading its value): the
legal width-3 stream `00 05 02 03` (an empty run carrying 5, then one 3) denotes `[3]`, the
pinned decoder parses the value byte `05` as the header of a two-group bit-packed run and
returns nothing. -/
theorem C12_regression_F31 :
    Spec.RleHybrid.Stream 3 [0x00, 0x05, 0x02, 0x03] [3] ∧
    RlePreFix.decodeAll 3 [0x00, 0x05, 0x02, 0x03] 1 = [] ∧
    Rle.decodeAll 3 [0x00, 0x05, 0x02, 0x03] 1 = [3] := by
  refine ⟨⟨[], ?_⟩, by decide, by decide⟩
  have r2 := Spec.RleHybrid.Runs.rle (w := 3) [0x02] 1 3 [] [] (by decide) (by decide) .nil
  exact Spec.RleHybrid.Runs.rle (w := 3) [0x00] 0 5 _ _ (by decide) (by decide) r2

end Carquet.Properties.C12
