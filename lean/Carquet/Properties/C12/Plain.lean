import Carquet.Properties.C11.Plain
import Carquet.Proofs.PlainDecEq
/-
C12 (PLAIN, BYTE_STREAM_SPLIT and dictionary-page parts) — the bytes carquet's encoders emit
follow the Parquet encoding specification, in both directions.

Shape: for every type the encoder's bytes are **equal** to the bytes of the independent Spec
encoder (`C12_plain_impl_eq_spec`, `C12_bss_impl_eq_spec`).  PLAIN and BYTE_STREAM_SPLIT leave an
encoder no choice (the only freedom, the padding bits of the last boolean byte, is covered by
`C12_plain_boolean_decoder_eq_spec`), so both directions follow from that equality:
 * `..._impl_to_spec`: the independent Spec decoder recovers the values from carquet's bytes
   (equality + the Spec's own round trip);
 * `..._spec_to_impl`: carquet's decoder recovers the values from the Spec encoder's bytes
   (equality + C11).
-/
namespace Carquet.Properties.C12
open Carquet Carquet.Impl
open Carquet.Proofs.Plain Carquet.Proofs.Bss Carquet.Proofs.Dictionary
open Carquet.Properties.C11

/-! ## PLAIN: encoder bytes = Spec bytes -/

theorem C12_plain_boolean_impl_eq_spec (vs : List UInt8) :
    Plain.encodeBoolean vs = Spec.Plain.encodeBool (vs.map (fun v => v != 0)) := by
  rw [Plain.encodeBoolean, packBools_eq_spec]

theorem C12_plain_int32_impl_eq_spec (vs : List UInt32) :
    Plain.encodeInt32 vs = Spec.Plain.encodeFixed 4 (vs.map UInt32.toNat) := by
  simp only [Plain.encodeInt32, Spec.Plain.encodeFixed, List.flatMap_map]
  congr 1; funext v; exact memU32_eq_leBytes v

theorem C12_plain_int64_impl_eq_spec (vs : List UInt64) :
    Plain.encodeInt64 vs = Spec.Plain.encodeFixed 8 (vs.map UInt64.toNat) := by
  simp only [Plain.encodeInt64, Spec.Plain.encodeFixed, List.flatMap_map]
  congr 1; funext v; exact memU64_eq_leBytes v

theorem C12_plain_int96_impl_eq_spec (vs : List Plain.Int96) :
    Plain.encodeInt96 vs = Spec.Plain.encodeFixed 12 (vs.map Plain.int96ToNat) := by
  simp only [Plain.encodeInt96, Spec.Plain.encodeFixed, List.flatMap_map]
  congr 1; funext v; exact int96_eq_leBytes v

theorem C12_plain_float_impl_eq_spec (vs : List UInt32) :
    Plain.encodeFloat vs = Spec.Plain.encodeFixed 4 (vs.map UInt32.toNat) :=
  C12_plain_int32_impl_eq_spec vs

theorem C12_plain_double_impl_eq_spec (vs : List UInt64) :
    Plain.encodeDouble vs = Spec.Plain.encodeFixed 8 (vs.map UInt64.toNat) :=
  C12_plain_int64_impl_eq_spec vs

theorem C12_plain_byte_array_impl_eq_spec (vs : List (List UInt8)) (h : ∀ v ∈ vs, v.length < 2 ^ 31) :
    Plain.encodeByteArray vs = Spec.Plain.encodeByteArray vs :=
  encodeByteArray_eq_spec vs (fun v hv => Nat.lt_trans (h v hv) (by decide))

theorem C12_plain_fixed_len_byte_array_impl_eq_spec (k : Nat) (hk : 0 < k) (vs : List (List UInt8))
    (hv : ∀ v ∈ vs, v.length = k) (h : vs.length * k < 2 ^ 64) :
    Plain.encodeFlba vs.flatten vs.length k = .ok (Spec.Plain.encodeFlba vs) :=
  (C11_plain_fixed_len_byte_array_roundtrip k hk vs hv [] h).1

/-- All eight PLAIN encoders emit exactly the bytes of the specification encoder. -/
theorem C12_plain_impl_eq_spec :
    (∀ vs : List UInt8, Plain.encodeBoolean vs = Spec.Plain.encodeBool (vs.map (fun v => v != 0))) ∧
    (∀ vs : List UInt32, Plain.encodeInt32 vs = Spec.Plain.encodeFixed 4 (vs.map UInt32.toNat)) ∧
    (∀ vs : List UInt64, Plain.encodeInt64 vs = Spec.Plain.encodeFixed 8 (vs.map UInt64.toNat)) ∧
    (∀ vs : List Plain.Int96, Plain.encodeInt96 vs = Spec.Plain.encodeFixed 12 (vs.map Plain.int96ToNat)) ∧
    (∀ vs : List UInt32, Plain.encodeFloat vs = Spec.Plain.encodeFixed 4 (vs.map UInt32.toNat)) ∧
    (∀ vs : List UInt64, Plain.encodeDouble vs = Spec.Plain.encodeFixed 8 (vs.map UInt64.toNat)) ∧
    (∀ vs : List (List UInt8), (∀ v ∈ vs, v.length < 2 ^ 31) →
      Plain.encodeByteArray vs = Spec.Plain.encodeByteArray vs) ∧
    (∀ (k : Nat) (vs : List (List UInt8)), 0 < k → (∀ v ∈ vs, v.length = k) → vs.length * k < 2 ^ 64 →
      Plain.encodeFlba vs.flatten vs.length k = .ok (Spec.Plain.encodeFlba vs)) :=
  ⟨C12_plain_boolean_impl_eq_spec, C12_plain_int32_impl_eq_spec, C12_plain_int64_impl_eq_spec,
   C12_plain_int96_impl_eq_spec, C12_plain_float_impl_eq_spec, C12_plain_double_impl_eq_spec,
   C12_plain_byte_array_impl_eq_spec,
   fun k vs hk hv h => C12_plain_fixed_len_byte_array_impl_eq_spec k hk vs hv h⟩

example : Plain.encodeInt32 [0x12345678] = [0x78, 0x56, 0x34, 0x12] ∧
    Plain.encodeBoolean [1, 0, 1, 1, 0, 0, 0, 0, 1] = [0x0D, 0x01] ∧
    Plain.encodeByteArray [[0x61, 0x62], []] = [2, 0, 0, 0, 0x61, 0x62, 0, 0, 0, 0] := by decide

/-! ## PLAIN, direction 1: the Spec decoder reads carquet's bytes -/

theorem C12_plain_impl_to_spec :
    (∀ (vs extra : List UInt8),
      Spec.Plain.decodeBool (Plain.encodeBoolean vs ++ extra) vs.length = some (vs.map (fun v => v != 0))) ∧
    (∀ (vs : List UInt32) (extra : List UInt8),
      Spec.Plain.decodeFixed 4 vs.length (Plain.encodeInt32 vs ++ extra) = some (vs.map UInt32.toNat, extra)) ∧
    (∀ (vs : List UInt64) (extra : List UInt8),
      Spec.Plain.decodeFixed 8 vs.length (Plain.encodeInt64 vs ++ extra) = some (vs.map UInt64.toNat, extra)) ∧
    (∀ (vs : List Plain.Int96) (extra : List UInt8),
      Spec.Plain.decodeFixed 12 vs.length (Plain.encodeInt96 vs ++ extra)
        = some (vs.map Plain.int96ToNat, extra)) ∧
    (∀ (vs : List UInt32) (extra : List UInt8),
      Spec.Plain.decodeFixed 4 vs.length (Plain.encodeFloat vs ++ extra) = some (vs.map UInt32.toNat, extra)) ∧
    (∀ (vs : List UInt64) (extra : List UInt8),
      Spec.Plain.decodeFixed 8 vs.length (Plain.encodeDouble vs ++ extra) = some (vs.map UInt64.toNat, extra)) ∧
    (∀ (vs : List (List UInt8)) (extra : List UInt8), (∀ v ∈ vs, v.length < 2 ^ 31) →
      Spec.Plain.decodeByteArray vs.length (Plain.encodeByteArray vs ++ extra) = some (vs, extra)) ∧
    (∀ (k : Nat) (vs : List (List UInt8)) (extra : List UInt8), (∀ v ∈ vs, v.length = k) →
      Spec.Plain.decodeFlba k vs.length (vs.flatten ++ extra) = some (vs, extra)) := by
  have f32 : ∀ (vs : List UInt32) (extra : List UInt8),
      Spec.Plain.decodeFixed 4 vs.length (Plain.encodeInt32 vs ++ extra) = some (vs.map UInt32.toNat, extra) := by
    intro vs extra
    have := spec_decodeFixed_encode 4 (vs.map UInt32.toNat) extra (by
      intro n hn; simp only [List.mem_map] at hn; obtain ⟨v, _, rfl⟩ := hn; exact v.toNat_lt)
    rwa [List.length_map, ← C12_plain_int32_impl_eq_spec] at this
  have f64 : ∀ (vs : List UInt64) (extra : List UInt8),
      Spec.Plain.decodeFixed 8 vs.length (Plain.encodeInt64 vs ++ extra) = some (vs.map UInt64.toNat, extra) := by
    intro vs extra
    have := spec_decodeFixed_encode 8 (vs.map UInt64.toNat) extra (by
      intro n hn; simp only [List.mem_map] at hn; obtain ⟨v, _, rfl⟩ := hn; exact v.toNat_lt)
    rwa [List.length_map, ← C12_plain_int64_impl_eq_spec] at this
  refine ⟨?_, f32, f64, ?_, f32, f64, ?_, ?_⟩
  · intro vs extra
    have := spec_decodeBool_encode (vs.map (fun v => v != 0)) extra
    rwa [List.length_map, ← C12_plain_boolean_impl_eq_spec] at this
  · intro vs extra
    have := spec_decodeFixed_encode 12 (vs.map Plain.int96ToNat) extra (by
      intro n hn; simp only [List.mem_map] at hn; obtain ⟨v, _, rfl⟩ := hn; exact int96ToNat_lt v)
    rwa [List.length_map, ← C12_plain_int96_impl_eq_spec] at this
  · intro vs extra h
    rw [C12_plain_byte_array_impl_eq_spec vs h]
    exact spec_decodeByteArray_encode vs extra (fun v hv => Nat.lt_trans (h v hv) (by decide))
  · intro k vs extra hv
    exact spec_decodeFlba_encode k vs hv extra

/-! ## PLAIN, direction 2: carquet's decoders read the Spec encoder's bytes -/

theorem C12_plain_spec_to_impl :
    (∀ (bs : List Bool) (extra : List UInt8),
      Plain.decodeBoolean (Spec.Plain.encodeBool bs ++ extra) bs.length
        = .ok (bs.map (fun b => if b then 1 else 0)) ((bs.length + 7) / 8)) ∧
    (∀ (vs : List UInt32) (extra : List UInt8), vs.length * 4 < 2 ^ 64 →
      Plain.decodeInt32 (Spec.Plain.encodeFixed 4 (vs.map UInt32.toNat) ++ extra) vs.length
        = .ok vs (vs.length * 4)) ∧
    (∀ (vs : List UInt64) (extra : List UInt8), vs.length * 8 < 2 ^ 64 →
      Plain.decodeInt64 (Spec.Plain.encodeFixed 8 (vs.map UInt64.toNat) ++ extra) vs.length
        = .ok vs (vs.length * 8)) ∧
    (∀ (vs : List Plain.Int96) (extra : List UInt8), vs.length * 12 < 2 ^ 64 →
      Plain.decodeInt96 (Spec.Plain.encodeFixed 12 (vs.map Plain.int96ToNat) ++ extra) vs.length
        = .ok vs (vs.length * 12)) ∧
    (∀ (vs : List UInt32) (extra : List UInt8), vs.length * 4 < 2 ^ 64 →
      Plain.decodeFloat (Spec.Plain.encodeFixed 4 (vs.map UInt32.toNat) ++ extra) vs.length
        = .ok vs (vs.length * 4)) ∧
    (∀ (vs : List UInt64) (extra : List UInt8), vs.length * 8 < 2 ^ 64 →
      Plain.decodeDouble (Spec.Plain.encodeFixed 8 (vs.map UInt64.toNat) ++ extra) vs.length
        = .ok vs (vs.length * 8)) ∧
    (∀ (vs : List (List UInt8)) (extra : List UInt8), (∀ v ∈ vs, v.length < 2 ^ 31) →
      ∃ slices, Plain.decodeByteArray (Spec.Plain.encodeByteArray vs ++ extra) vs.length
          = .ok slices (Spec.Plain.encodeByteArray vs).length ∧
        slices.map (Plain.slice (Spec.Plain.encodeByteArray vs ++ extra)) = vs) ∧
    (∀ (k : Nat) (vs : List (List UInt8)) (extra : List UInt8), 0 < k → (∀ v ∈ vs, v.length = k) →
      vs.length * k < 2 ^ 64 →
      Plain.decodeFlba (Spec.Plain.encodeFlba vs ++ extra) vs.length k
        = .ok vs.flatten (vs.length * k)) := by
  refine ⟨?_, ?_, ?_, ?_, ?_, ?_, ?_, ?_⟩
  · intro bs extra
    rw [decodeBoolean_eq_spec, spec_decodeBool_encode]; rfl
  · intro vs extra h
    rw [← C12_plain_int32_impl_eq_spec]; exact decodeInt32_encode vs extra h
  · intro vs extra h
    rw [← C12_plain_int64_impl_eq_spec]; exact decodeInt64_encode vs extra h
  · intro vs extra h
    rw [← C12_plain_int96_impl_eq_spec]; exact decodeInt96_encode vs extra h
  · intro vs extra h
    rw [← C12_plain_int32_impl_eq_spec]; exact decodeInt32_encode vs extra h
  · intro vs extra h
    rw [← C12_plain_int64_impl_eq_spec]; exact decodeInt64_encode vs extra h
  · intro vs extra h
    rw [← C12_plain_byte_array_impl_eq_spec vs h]
    exact C11_plain_byte_array_roundtrip vs extra h
  · intro k vs extra hk hv h
    have := (C11_plain_fixed_len_byte_array_roundtrip k hk vs hv extra h)
    rw [this.2.2] at this
    exact this.2.1

/-- Booleans are the one PLAIN type where valid streams differ (the padding bits of the last byte
are unspecified): on **every** input carquet's decoder returns exactly what the Spec decoder
returns, and rejects exactly when the Spec decoder rejects. -/
theorem C12_plain_boolean_decoder_eq_spec (input : List UInt8) (n : Nat) :
    Plain.decodeBoolean input (n : Int) =
      match Spec.Plain.decodeBool input n with
      | none => .err
      | some bits => .ok (bits.map (fun b => if b then 1 else 0)) ((n + 7) / 8) :=
  decodeBoolean_eq_spec input n

example : Plain.decodeBoolean [0xFD] 3 = .ok [1, 0, 1] 1 ∧ Spec.Plain.decodeBool [0xFD] 3 = some [true, false, true] := by
  decide

/-- INT32 / FLOAT / INT64 / DOUBLE: on **every** input the `memcpy` decoders accept exactly when the
Spec decoder accepts, and return the Spec's numbers (as 32/64-bit patterns). -/
theorem C12_plain_fixed_decoder_eq_spec (input : List UInt8) (n : Nat) :
    (n * 4 < 2 ^ 64 →
      Plain.decodeInt32 input n = (match Spec.Plain.decodeFixed 4 n input with
        | none => .err
        | some (ns, _) => .ok (ns.map UInt32.ofNat) (n * 4)) ∧
      Plain.decodeFloat input n = Plain.decodeInt32 input n) ∧
    (n * 8 < 2 ^ 64 →
      Plain.decodeInt64 input n = (match Spec.Plain.decodeFixed 8 n input with
        | none => .err
        | some (ns, _) => .ok (ns.map UInt64.ofNat) (n * 8)) ∧
      Plain.decodeDouble input n = Plain.decodeInt64 input n) := by
  refine ⟨?_, ?_⟩
  · intro h
    refine ⟨?_, rfl⟩
    simp only [Plain.decodeInt32, Int.toNat_natCast, sizeMul_of_lt h]
    rw [if_neg (by omega)]
    by_cases hl : input.length < n * 4
    · rw [if_pos hl, spec_decodeFixed_none 4 n input hl]
    · obtain ⟨ns, h1, h2⟩ := load32s_take_spec n input (by omega)
      rw [if_neg hl, h1, h2]
  · intro h
    refine ⟨?_, rfl⟩
    simp only [Plain.decodeInt64, Int.toNat_natCast, sizeMul_of_lt h]
    rw [if_neg (by omega)]
    by_cases hl : input.length < n * 8
    · rw [if_pos hl, spec_decodeFixed_none 8 n input hl]
    · obtain ⟨ns, h1, h2⟩ := load64s_take_spec n input (by omega)
      rw [if_neg hl, h1, h2]

/-- BYTE_ARRAY: on **every** input shorter than 2 GiB (so that a length prefix ≥ 2^31, which
carquet reads as negative, cannot be satisfied anyway) carquet's decoder accepts exactly the
streams the Spec decoder accepts, consumes the same number of bytes, and its slices show the
Spec's values; in particular a negative, overrunning or truncated length prefix at *any* record
makes it return an error. -/
theorem C12_plain_byte_array_decoder_eq_spec (input : List UInt8) (n : Nat) (hlt : input.length < 2 ^ 31) :
    match Spec.Plain.decodeByteArray n input with
    | none => Plain.decodeByteArray input n = .err
    | some (vs, rest) => ∃ slices,
        Plain.decodeByteArray input n = .ok slices (input.length - rest.length) ∧
        slices.map (Plain.slice input) = vs := by
  have h := baLoop_spec input hlt n 0 (Nat.zero_le _)
  rw [List.drop_zero] at h
  cases hs : Spec.Plain.decodeByteArray n input with
  | none =>
    rw [hs] at h
    simp only [Plain.decodeByteArray, Int.toNat_natCast, h]
    rw [if_neg (by omega)]
  | some q =>
    obtain ⟨vs, rest⟩ := q
    rw [hs] at h
    obtain ⟨sl, p, hb, hm, hr, hp⟩ := h
    refine ⟨sl, ?_, hm⟩
    simp only [Plain.decodeByteArray, Int.toNat_natCast, hb]
    rw [if_neg (by omega), hr, List.length_drop]
    congr 1; omega

example : Spec.Plain.decodeByteArray 2 [1, 0, 0, 0, 7, 0xFF, 0xFF, 0xFF, 0xFF] = none ∧
    Plain.decodeByteArray [1, 0, 0, 0, 7, 0xFF, 0xFF, 0xFF, 0xFF] 2 = .err := by decide

/-- INT96: on **every** input the element loop of `carquet_decode_plain_int96` accepts exactly when
the Spec decoder (12-byte little-endian numbers) accepts, consumes `12·n` bytes, and the three
words of each returned `carquet_int96_t` hold the Spec's number (`int96ToNat` is injective:
`C12_plain_int96_words_determined`).  `n·12 < 2^64`: the size check uses the wrapped product
(`C08_plain_int96_wrap_witness`). -/
theorem C12_plain_int96_decoder_eq_spec (input : List UInt8) (n : Nat) (h : n * 12 < 2 ^ 64) :
    match Spec.Plain.decodeFixed 12 n input with
    | none => Plain.decodeInt96 input n = .err
    | some (ns, _) => ∃ vs, Plain.decodeInt96 input n = .ok vs (n * 12) ∧ vs.map Plain.int96ToNat = ns :=
  decodeInt96_eq_spec input n h

/-- the 96-bit number determines the three words -/
theorem C12_plain_int96_words_determined (a b : Plain.Int96) (h : Plain.int96ToNat a = Plain.int96ToNat b) :
    a = b := by
  obtain ⟨a0, a1, a2⟩ := a
  obtain ⟨b0, b1, b2⟩ := b
  have h0 := a0.toNat_lt; have h1 := a1.toNat_lt; have h2 := a2.toNat_lt
  have k0 := b0.toNat_lt; have k1 := b1.toNat_lt; have k2 := b2.toNat_lt
  simp only [Plain.int96ToNat] at h
  have e0 : a0.toNat = b0.toNat := by omega
  have e1 : a1.toNat = b1.toNat := by omega
  have e2 : a2.toNat = b2.toNat := by omega
  rw [UInt32.toNat_inj.mp e0, UInt32.toNat_inj.mp e1, UInt32.toNat_inj.mp e2]

example : Spec.Plain.decodeFixed 12 1 [1, 0, 0, 0, 2, 0, 0, 0, 3, 0, 0, 0, 9] = some ([1 + 2 * 2 ^ 32 + 3 * 2 ^ 64], [9]) ∧
    Plain.decodeInt96 [1, 0, 0, 0, 2, 0, 0, 0, 3, 0, 0, 0, 9] 1 = .ok [(1, 2, 3)] 12 ∧
    Spec.Plain.decodeFixed 12 2 [1, 0, 0, 0, 2, 0, 0, 0, 3, 0, 0, 0, 9] = none ∧
    Plain.decodeInt96 [1, 0, 0, 0, 2, 0, 0, 0, 3, 0, 0, 0, 9] 2 = .err := by decide

/-- FIXED_LEN_BYTE_ARRAY: on **every** input `carquet_decode_plain_fixed_byte_array` accepts
exactly when the Spec decoder accepts, and its flat output buffer holds the Spec's values back to
back (`n` values of `k` bytes each, `n·k` bytes consumed). -/
theorem C12_plain_flba_decoder_eq_spec (input : List UInt8) (n k : Nat) (hk : 0 < k) (h : n * k < 2 ^ 64) :
    Plain.decodeFlba input n k =
      (match Spec.Plain.decodeFlba k n input with
       | none => .err
       | some (vs, _) => .ok vs.flatten (n * k)) ∧
    (∀ vs rest, Spec.Plain.decodeFlba k n input = some (vs, rest) →
       vs.length = n ∧ (∀ v ∈ vs, v.length = k) ∧ rest = input.drop (n * k)) := by
  refine ⟨decodeFlba_eq_spec input n k hk h, ?_⟩
  intro vs rest hs
  by_cases hl : input.length < n * k
  · rw [spec_decodeFlba_none k n input hl] at hs; cases hs
  · obtain ⟨vs', h1, _, h3, h4⟩ := spec_decodeFlba_take k n input (by omega)
    rw [h1] at hs
    simp only [Option.some.injEq, Prod.mk.injEq] at hs
    obtain ⟨rfl, rfl⟩ := hs
    exact ⟨h3, h4, rfl⟩

example : Spec.Plain.decodeFlba 3 2 [1, 2, 3, 4, 5, 6, 7] = some ([[1, 2, 3], [4, 5, 6]], [7]) ∧
    Plain.decodeFlba [1, 2, 3, 4, 5, 6, 7] 2 3 = .ok [1, 2, 3, 4, 5, 6] 6 ∧
    Spec.Plain.decodeFlba 3 3 [1, 2, 3, 4, 5, 6, 7] = none ∧ Plain.decodeFlba [1, 2, 3, 4, 5, 6, 7] 3 3 = .err := by
  decide

/-! ## BYTE_STREAM_SPLIT -/

/-- The generic encoder and the scalar float/double kernels write exactly the Spec's `k` streams. -/
theorem C12_bss_impl_eq_spec :
    (∀ (k n : Nat) (vals : List (List UInt8)) (cap : Nat), 0 < k → vals.length = n →
      (∀ v ∈ vals, v.length = k) → n * k < 2 ^ 64 → n * k ≤ cap →
      Bss.encode vals.flatten n k cap = .ok (Spec.Bss.encode k vals)) ∧
    (∀ (fs : List UInt32) (out0 : List UInt8), fs.length * 4 < 2 ^ 64 → fs.length * 4 ≤ out0.length →
      Bss.encodeFloatBuf (fs.flatMap Plain.memU32) fs.length out0
        = .ok (Spec.Bss.encode 4 (fs.map Plain.memU32) ++ out0.drop (fs.length * 4))) ∧
    (∀ (ds : List UInt64) (out0 : List UInt8), ds.length * 8 < 2 ^ 64 → ds.length * 8 ≤ out0.length →
      Bss.encodeDoubleBuf (ds.flatMap Plain.memU64) ds.length out0
        = .ok (Spec.Bss.encode 8 (ds.map Plain.memU64) ++ out0.drop (ds.length * 8))) := by
  refine ⟨?_, ?_, ?_⟩
  · intro k n vals cap hk hn hv hsz hcap
    have hr : Rect k n vals := ⟨hn, hv⟩
    simp only [Bss.encode, Int.toNat_natCast, requiredSize_natCast hk hsz, scatterSeq_flat hr]
    rw [if_neg (by omega), if_neg (by omega)]
  · intro fs out0 hsz hcap
    have hr := rect_mem32 fs
    have himg : (fs.map Plain.memU32).flatten = fs.flatMap Plain.memU32 := by rw [List.flatMap_def]
    simp only [Bss.encodeFloatBuf, Int.toNat_natCast, requiredSize_natCast (k := 4) (by omega) hsz]
    rw [if_neg (by omega), ← himg, scatterLoop_flat hr out0 (by omega), Nat.mul_comm]
  · intro ds out0 hsz hcap
    have hr := rect_mem64 ds
    have himg : (ds.map Plain.memU64).flatten = ds.flatMap Plain.memU64 := by rw [List.flatMap_def]
    simp only [Bss.encodeDoubleBuf, Int.toNat_natCast, requiredSize_natCast (k := 8) (by omega) hsz]
    rw [if_neg (by omega), ← himg, scatterLoop_flat hr out0 (by omega), Nat.mul_comm]

/-- Direction 1: the Spec decoder (cut into `k` streams, zip) recovers the values from the
encoder's bytes.  By `C12_bss_impl_eq_spec` these are carquet's bytes. -/
theorem C12_bss_impl_to_spec (k n : Nat) (vals : List (List UInt8)) (cap : Nat) (extra : List UInt8)
    (hk : 0 < k) (hn : vals.length = n) (hv : ∀ v ∈ vals, v.length = k) (hsz : n * k < 2 ^ 64)
    (hcap : n * k ≤ cap) :
    ∃ bytes, Bss.encode vals.flatten n k cap = .ok bytes ∧
      Spec.Bss.decode k n (bytes ++ extra) = some vals :=
  ⟨Spec.Bss.encode k vals, C12_bss_impl_eq_spec.1 k n vals cap hk hn hv hsz hcap,
    spec_decode_encode ⟨hn, hv⟩ extra⟩

/-- Direction 2: carquet's decoders (generic, and the scalar float/double kernels) recover the
values from the Spec encoder's bytes. -/
theorem C12_bss_spec_to_impl (k n : Nat) (vals : List (List UInt8)) (extra : List UInt8)
    (hk : 0 < k) (hn : vals.length = n) (hv : ∀ v ∈ vals, v.length = k) (hsz : n * k < 2 ^ 64) :
    Bss.decode (Spec.Bss.encode k vals ++ extra) k n = .ok vals.flatten ∧
    (k = 4 → Bss.decodeFloat (Spec.Bss.encode k vals ++ extra) n = .ok vals.flatten) ∧
    (k = 8 → Bss.decodeDouble (Spec.Bss.encode k vals ++ extra) n = .ok vals.flatten) := by
  have hr : Rect k n vals := ⟨hn, hv⟩
  have hreq := requiredSize_natCast hk hsz
  have hlen : ¬ (Spec.Bss.encode k vals ++ extra).length < n * k := by
    rw [List.length_append, encode_length k hr, Nat.mul_comm]; omega
  refine ⟨?_, ?_, ?_⟩
  · simp only [Bss.decode, Int.toNat_natCast, hreq, gather_encode hr extra]
    rw [if_neg (by omega), if_neg hlen]
  · intro h4; subst h4
    simp only [Bss.decodeFloat, hreq, Int.toNat_natCast, gather_encode hr extra]
    rw [if_neg hlen]
  · intro h8; subst h8
    simp only [Bss.decodeDouble, hreq, Int.toNat_natCast, gather_encode hr extra]
    rw [if_neg hlen]

/-- On **every** input (any bytes, any trailing data) the generic decoder and the scalar
float/double kernels accept exactly when the Spec decoder accepts and return its values. -/
theorem C12_bss_decoder_eq_spec (data : List UInt8) (k n : Nat) (hk : 0 < k) (hsz : n * k < 2 ^ 64) :
    Bss.decode data k n = (match Spec.Bss.decode k n data with
      | none => .error .decode
      | some vals => .ok vals.flatten) ∧
    (k = 4 → Bss.decodeFloat data n = Bss.decode data k n) ∧
    (k = 8 → Bss.decodeDouble data n = Bss.decode data k n) := by
  have hreq := requiredSize_natCast hk hsz
  refine ⟨?_, ?_, ?_⟩
  · simp only [Bss.decode, Spec.Bss.decode, Int.toNat_natCast, hreq]
    rw [if_neg (by omega), Nat.mul_comm n k]
    by_cases hl : data.length < k * n
    · rw [if_pos hl, if_pos hl]
    · rw [if_neg hl, if_neg hl, gather_eq_spec k n data (by omega)]
  · intro h4; subst h4
    simp only [Bss.decodeFloat, Bss.decode, Int.toNat_natCast]
    rw [if_neg (show ¬ ((4 : Nat) : Int) ≤ 0 by omega)]
  · intro h8; subst h8
    simp only [Bss.decodeDouble, Bss.decode, Int.toNat_natCast]
    rw [if_neg (show ¬ ((8 : Nat) : Int) ≤ 0 by omega)]

example : Spec.Bss.decode 2 3 [1, 3, 5, 2, 4, 6] = some [[1, 2], [3, 4], [5, 6]] ∧
    Bss.decode [1, 3, 5, 2, 4, 6] 2 3 = .ok [1, 2, 3, 4, 5, 6] ∧
    Bss.encode [1, 2, 3, 4, 5, 6] 3 2 6 = .ok [1, 3, 5, 2, 4, 6] := by decide

/-! ## Dictionary page -/

theorem memU32_injective (a b : UInt32) (h : Plain.memU32 a = Plain.memU32 b) : a = b := by
  have ha := load32s_mem_append a []
  have hb := load32s_mem_append b []
  rw [h, hb] at ha
  simpa using ha.symm

theorem memU64_injective (a b : UInt64) (h : Plain.memU64 a = Plain.memU64 b) : a = b := by
  have ha := load64s_mem_append a []
  have hb := load64s_mem_append b []
  rw [h, hb] at ha
  simpa using ha.symm

/-- "Dictionary page format: the entries in the dictionary using the plain encoding": the page
carquet writes is the Spec's PLAIN encoding of the distinct values in order of first occurrence. -/
theorem C12_dictionary_page_is_plain (idxEnc : Nat → List Nat → List UInt8) :
    (∀ vs : List UInt32, vs.length < 2 ^ 31 → (Dictionary.encode32 idxEnc vs).dictPage
      = Spec.Plain.encodeFixed 4 ((Spec.Dictionary.firstOccurrences vs).map UInt32.toNat)) ∧
    (∀ vs : List UInt64, vs.length < 2 ^ 31 → (Dictionary.encode64 idxEnc vs).dictPage
      = Spec.Plain.encodeFixed 8 ((Spec.Dictionary.firstOccurrences vs).map UInt64.toNat)) ∧
    (∀ vs : List (List UInt8), vs.length < 2 ^ 31 → (∀ v ∈ vs, v.length < 2 ^ 31) →
      (Dictionary.encodeByteArray idxEnc vs).dictPage
        = Spec.Plain.encodeByteArray (Spec.Dictionary.firstOccurrences vs)) := by
  have hnb : 0 < Gen.dictNumBuckets := by decide
  refine ⟨?_, ?_, ?_⟩
  · intro vs hlen
    obtain ⟨he, _, _, hv⟩ := build_spec Dictionary.hashNat hnb false (vs.map Plain.memU32) (by simp; omega)
    simp only [Dictionary.encode32, Dictionary.finish, dictBytes_fixed _ hv, he,
      firstOccurrences_map Plain.memU32 memU32_injective, ← List.flatMap_def]
    exact C12_plain_int32_impl_eq_spec _
  · intro vs hlen
    obtain ⟨he, _, _, hv⟩ := build_spec Dictionary.hashNat hnb false (vs.map Plain.memU64) (by simp; omega)
    simp only [Dictionary.encode64, Dictionary.finish, dictBytes_fixed _ hv, he,
      firstOccurrences_map Plain.memU64 memU64_injective, ← List.flatMap_def]
    exact C12_plain_int64_impl_eq_spec _
  · intro vs hlen hv
    obtain ⟨he, _, _, hvar⟩ := build_spec Dictionary.hashNat hnb true vs (by omega)
    have hfo : ∀ v ∈ Spec.Dictionary.firstOccurrences vs, v.length < 2 ^ 32 := fun v hm =>
      Nat.lt_trans (hv v (mem_firstOccurrences.mp hm)) (by decide)
    simp only [Dictionary.encodeByteArray, Dictionary.finish, Dictionary.Builder.dictBytes, he, hvar]
    rw [← encodeByteArray_eq_spec _ hfo]
    simp only [Plain.encodeByteArray]
    congr 1
    funext v
    cases v <;> simp [Dictionary.record]

example : (Dictionary.encode32 (fun _ _ => []) [7, 9, 7, 1]).dictPage
    = [7, 0, 0, 0, 9, 0, 0, 0, 1, 0, 0, 0] := by decide +kernel

end Carquet.Properties.C12
