import Carquet.Impl.BitIO
import Carquet.Spec.BitPack
import Carquet.Proofs.BitIORoundtrip
import Carquet.Proofs.BitPackSpec
/-
C12 — the bit writer / reader of src/core/bitpack.c speak Parquet's raw bit packing (LSB first), as written
down independently in Spec/BitPack.lean.
-/
namespace Carquet.Properties.C12
open Carquet Carquet.Impl.BitIO Carquet.Proofs.BitIO

/-- **Bit order = the Spec's.**  Writing the values `vals` with `write_bits(v, w)` (`w ≤ 32`) and flushing
stores the first `cap` bytes of `Spec.BitPack.pack w vals` — all of them when the capacity is at least
`⌈|vals|·w / 8⌉`; and `n` calls of `read_bits(w)` on any byte string that holds `n` values return exactly
what `Spec.BitPack.unpack w bytes n` reads. -/
theorem C12_bitio_matches_spec_bitpack (w : Nat) (hw : w ≤ 32) (vals : List Nat) (cap : Nat)
    (bytes : List UInt8) (n : Nat) :
    (flush (wrun (Writer.init cap) (vals.map (fun v => WOp.bits v w)))).out = (Spec.BitPack.pack w vals).take cap ∧
    (n * w ≤ 8 * bytes.length →
      Spec.BitPack.unpack w bytes n =
        some (((rrun (Reader.init bytes) (List.replicate n (ROp.bits w))).1).filterMap
          (fun o => match o with | .val v => some v | _ => none))) := by
  obtain ⟨f1, f2, f3⟩ := fields_uniform w hw vals
  constructor
  · obtain ⟨h, _⟩ := flush_wrun cap _ f3
    rw [h, f1, f2, Proofs.BitPackSpec.pack_eq]
  · intro hlen
    obtain ⟨r1, _⟩ := rrun_spec (List.replicate n (ROp.bits w)) (Reader.init bytes) (RInv_init bytes)
    rw [r1, stream_init, avail_init, arun_uniform, Nat.min_eq_left hw, Proofs.BitPackSpec.unpack_eq w n bytes hlen]
    congr 1
    rw [List.filterMap_map]
    symm
    have : ((fun o => match o with | RObs.val v => some v | _ => none) ∘
        fun i => RObs.val (Proofs.BitpackImpl.nth w (Impl.Bitpack.leNat bytes) i)) =
        fun i => some (Proofs.BitpackImpl.nth w (Impl.Bitpack.leNat bytes) i) := by
      funext i; rfl
    rw [this]
    induction (List.range n) with
    | nil => rfl
    | cons a l ih => simp [List.filterMap_cons, ih]

/-- the example of the Parquet document: the numbers 0..7 at width 3 are the bytes 88 C6 FA -/
example : (flush (wrun (Writer.init 3) ([0, 1, 2, 3, 4, 5, 6, 7].map (fun v => WOp.bits v 3)))).out = [0x88, 0xC6, 0xFA] ∧
    (rrun (Reader.init [0x88, 0xC6, 0xFA]) (List.replicate 8 (ROp.bits 3))).1 =
      [.val 0, .val 1, .val 2, .val 3, .val 4, .val 5, .val 6, .val 7] := by decide +kernel

end Carquet.Properties.C12
