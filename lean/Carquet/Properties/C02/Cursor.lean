import Carquet.Proofs.CursorFile
import Carquet.Proofs.CursorHeap
import Carquet.Proofs.CursorFuel
/-
C02 — the reader result is independent of the consumption pattern (column reader and batch
reader).  Property statements only; definitions and helper lemmas live in Spec/, Impl/, Proofs/.

Vocabulary (all in `Carquet.Proofs.Cursor`):
  `ChunkOk c`        the chunk of a valid file: every page loads and is well formed (one
                     repetition level per row, as many dense values as rows at the maximum
                     definition level; a page may have NO rows, F63), `num_values` = number of rows;
  `chunkRows c`      the rows of the chunk (concatenation of the pages' rows), the Spec's input;
  `encodeOut`        a Spec output seen through the C API (levels per row, values dense);
  `OpOk op`          read sizes below 2^31 (the `(int32_t)max_values` cast);
  `FileOk f`, `ProjOk f proj`, `ColFits col bs`   valid file, servable projection, column fits the
                     1 GiB allocation cap for batches of `bs` rows;
  `ColData.content`  how a consumer decodes a batch column (bit set = null, values dense).
All theorems are about the repaired code (`Fixes.all` = F4 + F5 + F28 + F63); the pinned behaviour is
refuted by the `C02_regression_*` theorems below.
-/
namespace Carquet.Properties.C02
open Carquet Carquet.Proofs.Cursor
open Carquet.Spec.Cursor (Row Op)
open Carquet.Impl.ColumnReader
open Carquet.Impl.BatchReader (IOMode Column ChunkData File Config Status Batch ColData)

/-- **Refinement.**  For every valid chunk, every paging of it and every history of
`read k | skip k | has_next | remaining | re-create`, the column reader returns exactly what the
index cursor over the concatenated rows returns, and `remaining()` is the number of rows not yet
delivered. -/
theorem C02_column_refines_cursor (c : Chunk α) (hc : ChunkOk c) (ops : List Op) (hops : ∀ op ∈ ops, OpOk op) :
    (run Fixes.all c ops).2 = (Spec.Cursor.run (chunkRows c) ops).2.map encodeOut ∧
    remaining (run Fixes.all c ops).1 =
      ((chunkRows c).length : Int) - ((Spec.Cursor.run (chunkRows c) ops).1 : Nat) := by
  obtain ⟨h1, h2, _, h4, h5⟩ := outs_ok (chunkRows c) ops (getColumn c) 0 (inv_getColumn c hc)
    (by rw [pending_getColumn]; rfl) (Nat.zero_le _) rfl hc.2 hops
  refine ⟨h1, ?_⟩
  have := remaining_eq (chunkRows c) _ _ h2 h4
  simp only [run, Spec.Cursor.run]
  rw [this]
  have : min (Spec.Cursor.finalPos (chunkRows c) 0 ops) (chunkRows c).length =
      Spec.Cursor.finalPos (chunkRows c) 0 ops := by omega
  rw [this]

example : ChunkOk (⟨[some ⟨[1, 0, 1], [0, 0, 0], [7, 9]⟩, some ⟨[0, 1], [0, 0], [4]⟩], 5, 1, false, true⟩ : Chunk Nat) ∧
    ∀ op ∈ [Op.read 2, .skip 1, .hasNext, .read 9, .recreate, .remaining], OpOk op := by
  refine ⟨⟨?_, by decide⟩, by decide⟩
  intro p hp
  simp only [List.mem_cons, List.mem_nil_iff, or_false] at hp
  rcases hp with rfl | rfl
  · exact ⟨_, rfl, by decide, by decide, by decide⟩
  · exact ⟨_, rfl, by decide, by decide, by decide⟩

/-- pages without rows (F63) at the head, in the middle (two in a row) and at the end of a chunk
satisfy the hypotheses … -/
example : ChunkOk (⟨[some ⟨[], [], []⟩, some ⟨[1, 0, 1], [0, 0, 0], [7, 9]⟩, some ⟨[], [], []⟩, some ⟨[], [], []⟩,
    some ⟨[0, 1], [0, 0], [4]⟩, some ⟨[], [], []⟩], 5, 1, false, true⟩ : Chunk Nat) := by
  refine ⟨?_, by decide⟩
  intro p hp
  simp only [List.mem_cons, List.mem_nil_iff, or_false] at hp
  rcases hp with rfl | rfl | rfl | rfl | rfl | rfl <;> exact ⟨_, rfl, by decide, by decide, by decide⟩

/-- … and the reader steps over them: one row at a time, then `remaining`, `has_next` -/
example : (run Fixes.all (⟨[some ⟨[], [], []⟩, some ⟨[1, 0, 1], [0, 0, 0], [7, 9]⟩, some ⟨[], [], []⟩, some ⟨[], [], []⟩,
    some ⟨[0, 1], [0, 0], [4]⟩, some ⟨[], [], []⟩], 5, 1, false, true⟩ : Chunk Nat)
      [.read 1, .read 1, .read 1, .read 1, .remaining, .read 4, .hasNext]).2 =
    [.read 1 [some 1] [some 0] [some 7], .read 1 [some 0] [some 0] [], .read 1 [some 1] [some 0] [some 9],
     .read 1 [some 0] [some 0] [], .remaining 1, .read 1 [some 1] [some 0] [some 4], .hasNext false] := by
  decide

/-- The dense encoding loses nothing: well-formed rows with the same levels and the same dense values
are the same rows (so equal outputs mean equal null positions, values and counts). -/
theorem C02_encoding_faithful (maxDef : Nat) (rows1 rows2 : List (Row α))
    (h1 : ∀ row ∈ rows1, Row.WF maxDef row) (h2 : ∀ row ∈ rows2, Row.WF maxDef row) (n m : Int)
    (h : encodeOut (.read n rows1) = encodeOut (.read m rows2)) : n = m ∧ rows1 = rows2 := by
  simp only [encodeOut, Out.read.injEq] at h
  obtain ⟨hn, hd, hr, hv⟩ := h
  refine ⟨hn, encode_faithful maxDef rows1 rows2 h1 h2 ?_ ?_ ?_⟩
  · have := congrArg (List.filterMap id) hd; simpa [List.filterMap_map] using this
  · have := congrArg (List.filterMap id) hr; simpa [List.filterMap_map] using this
  · have := congrArg (List.filterMap id) hv; simpa [List.filterMap_map] using this

/-- **skip is exact.**  In any state reachable on a valid chunk, `skip(n)` returns
`min(max(n,0), remaining)` and `remaining()` drops by exactly that. -/
theorem C02_skip_exact (c : Chunk α) (hc : ChunkOk c) (ops : List Op) (hops : ∀ op ∈ ops, OpOk op) (n : Int) :
    (skip Fixes.all (run Fixes.all c ops).1 n).2 = min (max n 0) (remaining (run Fixes.all c ops).1) ∧
    remaining (skip Fixes.all (run Fixes.all c ops).1 n).1 =
      remaining (run Fixes.all c ops).1 - (skip Fixes.all (run Fixes.all c ops).1 n).2 := by
  obtain ⟨_, h2, _, _, _⟩ := outs_ok (chunkRows c) ops (getColumn c) 0 (inv_getColumn c hc)
    (by rw [pending_getColumn]; rfl) (Nat.zero_le _) rfl hc.2 hops
  simp only [run]
  obtain ⟨r', heq, hinv', _, hpend'⟩ := skip_ok _ h2 n
  rw [heq]
  simp only [remaining, h2.rem, hinv'.rem, hpend', List.length_drop]
  omega

example : (skip Fixes.all (run Fixes.all (⟨[some ⟨[1, 0, 1], [0, 0, 0], [7, 9]⟩, some ⟨[0, 1], [0, 0], [4]⟩],
    5, 1, false, true⟩ : Chunk Nat) [.read 1]).1 3).2 = 3 := by decide

/-! ### batch reader -/

section batch
variable (mode : IOMode) (f : File α) (hf : FileOk f) (proj : List Nat) (hproj : ProjOk f proj)
  (bs : Nat) (hbs0 : 0 < bs) (hbs : bs < 2147483648)
  (hfit : ∀ col ∈ projCols f proj, ColFits col bs)
include hf hproj hbs0 hbs hfit

/-- **Aligned batches.**  Over a valid file, in every I/O mode, with any batch size and projection,
every batch the batch reader hands out has the same number of rows in all of its columns
(`num_values` of each column = `num_rows`). -/
theorem C02_batch_rows_aligned (fuel : Nat) (batches : List (Batch α)) (st : Status)
    (h : Impl.BatchReader.readAll Fixes.all mode f ⟨(bs : Int), proj.map Int.ofNat, []⟩ fuel = some (batches, st)) :
    ∀ b ∈ batches, ∀ cd ∈ b.cols, cd.numValues = b.numRows := by
  simp only [Impl.BatchReader.readAll, create_byIndex mode f bs proj hproj.1, Option.map_some,
    Option.some.injEq] at h
  have habs := runAll_abs mode f hf proj hproj.2 hproj.1 bs hbs0 hbs hfit fuel _ _ rfl (binv_init mode f bs proj)
  rw [h] at habs
  have hal := absRun_aligned proj.length (projCols f proj) bs hbs0 fuel _ (absOk_init f hf proj hproj.2)
  rw [← habs] at hal
  intro b hb cd hcd
  have := hal (Batch.erase b) (by simp only; exact List.mem_map_of_mem hb) (ColData.erase cd)
    (by simp only [Batch.erase]; exact List.mem_map_of_mem hcd)
  simpa [ColData.erase, Batch.erase] using this

/-- **Concatenation of batches = column content.**  With enough calls (`drainBound` = rows + row
groups + 1) the batch reader ends with END_OF_DATA and, for every projected column, the batches
decoded the way a consumer decodes them (bit set = null, values dense) concatenate to the content
of that file column: the rows of its chunks, row group after row group — which is what the column
reader delivers for those chunks (`C02_column_refines_cursor`). -/
theorem C02_batches_concat_eq_column (fuel : Nat) (hfuel : drainBound f proj < fuel) :
    ∃ batches, Impl.BatchReader.readAll Fixes.all mode f ⟨(bs : Int), proj.map Int.ofNat, []⟩ fuel =
        some (batches, .endOfData) ∧
      ∀ (j c : Nat), proj[j]? = some c → batches.flatMap (batchCol j) = fileColumnContent f c := by
  simp only [Impl.BatchReader.readAll, create_byIndex mode f bs proj hproj.1, Option.map_some]
  have habs := runAll_abs mode f hf proj hproj.2 hproj.1 bs hbs0 hbs hfit fuel _ _ rfl (binv_init mode f bs proj)
  obtain ⟨h1, _, h3⟩ := absRun_ok proj.length (projCols f proj) bs hbs0 fuel _ (absOk_init f hf proj hproj.2) hfuel
  rw [← habs] at h1 h3
  simp only at h1 h3
  refine ⟨_, by rw [← h1], ?_⟩
  intro j c hj
  have := h3 j
  rw [absContent_init f hf proj hproj.2 j c hj] at this
  rw [← this, List.flatMap_map]
  congr 1
  funext b
  exact (batchCol_erase j b).symm

/-- **Zero-copy transparency (C03, batch part).**  The batches a valid file yields do not depend on
how it was opened — fread, mmap or buffer, i.e. with the zero-copy branch of the batch reader
reachable or not: same statuses, same rows, same bitmaps, same values; only the ownership flag of
a column (`view`) may differ. -/
theorem C03_batch_zero_copy_transparent (mode' : IOMode) (fuel : Nat) :
    (Impl.BatchReader.readAll Fixes.all mode f ⟨(bs : Int), proj.map Int.ofNat, []⟩ fuel).map
        (fun p => (p.1.map Batch.erase, p.2)) =
      (Impl.BatchReader.readAll Fixes.all mode' f ⟨(bs : Int), proj.map Int.ofNat, []⟩ fuel).map
        (fun p => (p.1.map Batch.erase, p.2)) := by
  simp only [Impl.BatchReader.readAll, create_byIndex _ f bs proj hproj.1, Option.map_some]
  rw [runAll_abs mode f hf proj hproj.2 hproj.1 bs hbs0 hbs hfit fuel _ _ rfl (binv_init mode f bs proj),
    runAll_abs mode' f hf proj hproj.2 hproj.1 bs hbs0 hbs hfit fuel _ _ rfl (binv_init mode' f bs proj)]

end batch

/-- **Bitmap polarity**, on every path that builds a bitmap.
(a) The standard path's two loops, for arbitrary level arrays: bit `i` is set iff
`def_levels[i] < max_def`; without definition levels (`max_def = 0`) the calloc'ed bitmap has no bit set.
(b) Every column of every batch over a valid chunk, whichever branch produced it (copy through
`read_batch`, or the zero-copy branch with its calloc'ed bitmap), in every I/O mode: bit `i` is set
iff the definition level of the `i`-th delivered row is below the maximum. -/
theorem C02_bitmap_polarity :
    (∀ (maxDef : Nat) (defs : List (Option Nat)) (vr rtr i : Nat), vr ≤ rtr → i < vr →
      Impl.BatchReader.bitmapBit (Impl.BatchReader.buildBitmap maxDef defs vr rtr) i =
        Impl.BatchReader.nullAt maxDef defs i) ∧
    (∀ (rows i : Nat), Impl.BatchReader.bitmapBit (Impl.BatchReader.zeroBitmap rows) i = false) ∧
    (∀ (mode : IOMode) (col : Column) (r : Reader α) (rtr : Nat) (r' : Reader α) (cd : ColData α),
      Inv r → r.chunk.maxDef = col.maxDef → 0 < rtr → rtr ≤ (pending r).length → rtr < 2147483648 →
      ColFits col rtr →
      Impl.BatchReader.readColumn Fixes.all mode col r (rtr : Int) = (r', some cd) →
      ∀ i, i < cd.numValues.toNat →
        Impl.BatchReader.bitmapBit cd.bitmap i = Impl.BatchReader.nullAt col.maxDef cd.defs i) := by
  refine ⟨fun maxDef defs vr rtr i h hi => buildBitmap_bit maxDef defs vr rtr h i hi,
    fun rows i => bitmapBit_zeroBitmap rows i, ?_⟩
  intro mode col r rtr r' cd hinv hmd h0 hle h31 hfit heq i hi
  obtain ⟨r'', view, heq', _, _, _⟩ := readColumn_ok mode col r hinv hmd rtr h0 hle h31 hfit
  rw [heq] at heq'
  simp only [Prod.mk.injEq, Option.some.injEq] at heq'
  rw [heq'.2] at hi ⊢
  simp only [specCol, Int.toNat_natCast] at hi ⊢
  exact buildBitmap_bit _ _ _ _ (by rw [List.length_take]; omega) i hi

/-- **Projection by name = projection by index.**  With distinct column names, asking for columns by
name creates the same batch reader as asking for their indices (hence the same batches). -/
theorem C02_projection_by_name_eq_by_index (mode : IOMode) (f : File α) (bs : Int) (idxs : List Nat)
    (hne : idxs ≠ []) (hidx : ∀ c ∈ idxs, c < f.columns.length)
    (hnodup : (f.columns.map (·.name)).Nodup) :
    Impl.BatchReader.create mode f ⟨bs, [], idxs.map (fun c => ((f.columns[c]?).map (·.name)).getD "")⟩ =
      Impl.BatchReader.create mode f ⟨bs, idxs.map Int.ofNat, []⟩ := by
  have hres : ∀ (l : List Nat), (∀ c ∈ l, c < f.columns.length) →
      Impl.BatchReader.resolveNames f (l.map (fun c => ((f.columns[c]?).map (·.name)).getD "")) =
        some (l.map Int.ofNat) := by
    intro l
    induction l with
    | nil => intro _; rfl
    | cons c l ih =>
      intro hl
      have hc : c < f.columns.length := hl c (by simp)
      have hget : f.columns[c]? = some f.columns[c] := List.getElem?_eq_getElem hc
      have hfind := findColumn_name f hnodup c _ hget
      simp only [List.map_cons, Impl.BatchReader.resolveNames, hget, Option.map_some, Option.getD_some, hfind,
        ih (fun x hx => hl x (by simp [hx]))]
      have : ¬ ((c : Int) < 0) := by omega
      simp [this]
  have h1 : idxs.map (fun c => ((f.columns[c]?).map (·.name)).getD "") ≠ [] := by
    cases idxs with
    | nil => exact absurd rfl hne
    | cons _ _ => simp
  have h2 : idxs.map Int.ofNat ≠ [] := by
    cases idxs with
    | nil => exact absurd rfl hne
    | cons _ _ => simp
  simp [Impl.BatchReader.create, h1, h2, hres idxs hidx]

/-! ### a concrete valid file satisfying all hypotheses of the batch theorems (non-vacuity) -/

def exFile : File Nat :=
  { columns := [⟨"id", 0, 0, 4, true, false⟩, ⟨"v", 1, 0, 8, true, false⟩],
    rowGroups := [[⟨[some ⟨[0, 0], [0, 0], [1, 2]⟩, some ⟨[0, 0, 0], [0, 0, 0], [3, 4, 5]⟩], 5, true⟩,
                   ⟨[some ⟨[1, 0, 1, 0, 1], [0, 0, 0, 0, 0], [7, 8, 9]⟩], 5, true⟩]] }

theorem exFile_ok : FileOk exFile := by
  refine ⟨by decide, ?_, ?_⟩
  · intro rg hrg i col cd hcol hcd
    simp only [exFile, List.mem_singleton] at hrg
    subst hrg
    match i with
    | 0 =>
      simp only [exFile, List.getElem?_cons_zero, Option.some.injEq] at hcol hcd
      subst hcol; subst hcd
      refine ⟨?_, by decide⟩
      intro p hp
      simp only [List.mem_cons, List.mem_nil_iff, or_false] at hp
      rcases hp with rfl | rfl <;> exact ⟨_, rfl, by decide, by decide, by decide⟩
    | 1 =>
      simp only [exFile, List.getElem?_cons_succ, List.getElem?_cons_zero, Option.some.injEq] at hcol hcd
      subst hcol; subst hcd
      refine ⟨?_, by decide⟩
      intro p hp
      simp only [List.mem_cons, List.mem_nil_iff, or_false] at hp
      rcases hp with rfl
      exact ⟨_, rfl, by decide, by decide, by decide⟩
    | n + 2 => simp [exFile] at hcol
  · intro rg hrg
    simp only [exFile, List.mem_singleton] at hrg
    subst hrg
    refine ⟨5, ?_⟩
    intro i col cd hcol hcd
    match i with
    | 0 =>
      simp only [exFile, List.getElem?_cons_zero, Option.some.injEq] at hcol hcd
      subst hcol; subst hcd; decide
    | 1 =>
      simp only [exFile, List.getElem?_cons_succ, List.getElem?_cons_zero, Option.some.injEq] at hcol hcd
      subst hcol; subst hcd; decide
    | n + 2 => simp [exFile] at hcol

example : FileOk exFile ∧ ProjOk exFile [1, 0] ∧ (0 < 2 ∧ 2 < 2147483648) ∧
    (∀ col ∈ projCols exFile [1, 0], ColFits col 2) ∧ drainBound exFile [1, 0] < 8 ∧
    ((exFile.columns.map (·.name)).Nodup) :=
  ⟨exFile_ok, ⟨by decide, by decide⟩, by decide,
   by intro col hcol
      simp only [projCols, exFile, List.filterMap_cons, List.filterMap_nil, List.getElem?_cons_succ,
        List.getElem?_cons_zero, List.mem_cons, List.mem_nil_iff, or_false] at hcol
      rcases hcol with rfl | rfl <;> exact ⟨by decide, by decide⟩,
   by decide, by decide⟩

/-- the zero-copy branch is really taken on this file (batch size = first page of column 0, buffer mode) -/
example : ((Impl.BatchReader.runAll Fixes.all 8 (initReader .buffer exFile 2 [0, 1])).1.map
    (fun b => b.cols.map (·.view))) = [[true, false], [false, false], [false, false]] := by decide

/-! ### the pinned code violates the property (kernel-checked counterexamples, replayed on the real
code by harness/ops_cursor.c section 0 and corpus/C02) -/

/-- **F4.**  Pages `[v₀, null, v₁, null, v₂ | …]`, history `read 2, read 1`: the pinned code indexes
the dense value array by the row offset and returns `v₂` for the third row, whose value is `v₁`. -/
theorem C02_regression_F4 :
    (run Fixes.preF4 (⟨[some ⟨[1, 0, 1, 0, 1], [0, 0, 0, 0, 0], [10, 11, 12]⟩, some ⟨[1, 0, 1], [0, 0, 0], [13, 14]⟩],
        8, 1, false, false⟩ : Chunk Nat) [.read 2, .read 1]).2 =
      [.read 2 [some 1, some 0] [some 0, some 0] [some 10], .read 1 [some 1] [some 0] [some 12]] ∧
    (Spec.Cursor.run (chunkRows (⟨[some ⟨[1, 0, 1, 0, 1], [0, 0, 0, 0, 0], [10, 11, 12]⟩,
        some ⟨[1, 0, 1], [0, 0, 0], [13, 14]⟩], 8, 1, false, false⟩ : Chunk Nat)) [.read 2, .read 1]).2.map encodeOut =
      [.read 2 [some 1, some 0] [some 0, some 0] [some 10], .read 1 [some 1] [some 0] [some 11]] := by
  decide

/-- **F4, second facet.**  One `read 7` across the page boundary: the pinned code places the second
page's values at the row offset of the caller's array, so the dense array has a hole (`none` = a
slot the call never wrote) where `13` belongs. -/
theorem C02_regression_F4_cross_page :
    (run Fixes.preF4 (⟨[some ⟨[1, 0, 1, 0, 1], [0, 0, 0, 0, 0], [10, 11, 12]⟩, some ⟨[1, 0, 1], [0, 0, 0], [13, 14]⟩],
        8, 1, false, false⟩ : Chunk Nat) [.read 7]).2 =
      [.read 7 [some 1, some 0, some 1, some 0, some 1, some 1, some 0] [some 0, some 0, some 0, some 0, some 0, some 0, some 0]
        [some 10, some 11, some 12, none]] := by
  decide

/-- **F5.**  Column 0 zero-copy eligible with a 2-row first page, column 1 nullable, batch size 5,
buffer mode: the pinned zero-copy branch hands out the 2-row page while column 1 delivers 5 rows. -/
theorem C02_regression_F5 :
    ¬ (∀ b ∈ (Impl.BatchReader.runAll Fixes.preF5 8 (initReader .buffer exFile 5 [0, 1])).1,
        ∀ cd ∈ b.cols, cd.numValues = b.numRows) ∧
    ((Impl.BatchReader.runAll Fixes.preF5 8 (initReader .buffer exFile 5 [0, 1])).1.map
        (fun b => b.cols.map (·.numValues))) = [[2, 5], [3, 0]] := by
  decide

/-- **F28.**  BYTE_ARRAY chunk on the fread path (page data retained), two 2-row pages, `read 3`:
the pinned code frees the first page's buffer (id 0) while loading the second, although two of the
three returned values point into it. -/
theorem C02_regression_F28 :
    ((some 0, 2) ∈ (readBatch Fixes.preF28 (getColumn (⟨[some ⟨[0, 0], [0, 0], [1, 2]⟩, some ⟨[0, 0], [0, 0], [3, 4]⟩],
        4, 0, false, true⟩ : Chunk Nat)) 3 true true).2.segs) ∧
    0 ∈ (readBatch Fixes.preF28 (getColumn (⟨[some ⟨[0, 0], [0, 0], [1, 2]⟩, some ⟨[0, 0], [0, 0], [3, 4]⟩],
        4, 0, false, true⟩ : Chunk Nat)) 3 true true).1.freed := by
  decide

/-- **F63.**  Pages of 3, 0 and 3 rows.  The code before the repair loads the empty page, copies
nothing and `carquet_column_read_batch` leaves its loop at `values_read == 0`: `read 6` returns 3
rows, and reading row by row the fourth call returns 0 although `has_next` is true and 3 rows are
outstanding — a caller that takes 0 for the end of the data loses the rest of the chunk.  The index
cursor (and the repaired code) deliver all 6 rows. -/
theorem C02_regression_F63 :
    (run Fixes.preF63 (⟨[some ⟨[0, 0, 0], [0, 0, 0], [1, 2, 3]⟩, some ⟨[], [], []⟩, some ⟨[0, 0, 0], [0, 0, 0], [4, 5, 6]⟩],
        6, 0, false, false⟩ : Chunk Nat) [.read 6, .hasNext, .remaining]).2 =
      [.read 3 [some 0, some 0, some 0] [some 0, some 0, some 0] [some 1, some 2, some 3], .hasNext true, .remaining 3] ∧
    (run Fixes.preF63 (⟨[some ⟨[0, 0, 0], [0, 0, 0], [1, 2, 3]⟩, some ⟨[], [], []⟩, some ⟨[0, 0, 0], [0, 0, 0], [4, 5, 6]⟩],
        6, 0, false, false⟩ : Chunk Nat) [.read 1, .read 1, .read 1, .read 1, .hasNext]).2.drop 3 =
      [.read 0 [] [] [], .hasNext true] ∧
    (run Fixes.all (⟨[some ⟨[0, 0, 0], [0, 0, 0], [1, 2, 3]⟩, some ⟨[], [], []⟩, some ⟨[0, 0, 0], [0, 0, 0], [4, 5, 6]⟩],
        6, 0, false, false⟩ : Chunk Nat) [.read 6, .hasNext, .remaining]).2 =
      [.read 6 [some 0, some 0, some 0, some 0, some 0, some 0] [some 0, some 0, some 0, some 0, some 0, some 0]
        [some 1, some 2, some 3, some 4, some 5, some 6], .hasNext false, .remaining 0] ∧
    (Spec.Cursor.run (chunkRows (⟨[some ⟨[0, 0, 0], [0, 0, 0], [1, 2, 3]⟩, some ⟨[], [], []⟩,
        some ⟨[0, 0, 0], [0, 0, 0], [4, 5, 6]⟩], 6, 0, false, false⟩ : Chunk Nat)) [.read 6, .hasNext, .remaining]).2.map encodeOut =
      [.read 6 [some 0, some 0, some 0, some 0, some 0, some 0] [some 0, some 0, some 0, some 0, some 0, some 0]
        [some 1, some 2, some 3, some 4, some 5, some 6], .hasNext false, .remaining 0] := by
  decide

/-- **Returned buffers are alive (F28 repaired; the lifetime clause of C01 on the model's heap log).**
After any `read_batch` call, in any state reachable or not, every page data buffer that returned
byte-array values point into is allocated and not freed; buffers are only released at the start of
the next call on that column reader (`releaseRetired`) or by `carquet_column_reader_free`. -/
theorem C02_returned_buffers_alive (r : Reader α) (h : HeapOk r) (k : Int) (wd wr : Bool) :
    HeapOk (readBatch Fixes.all r k wd wr).1 ∧
    ∀ seg ∈ (readBatch Fixes.all r k wd wr).2.segs, ∀ id, seg.1 = some id →
      id ∈ liveBufs (readBatch Fixes.all r k wd wr).1 ∧ id ∉ (readBatch Fixes.all r k wd wr).1.freed :=
  readBatch_alive r h k wd wr

example : HeapOk (getColumn (⟨[some ⟨[0, 0], [0, 0], [1, 2]⟩], 2, 0, false, true⟩ : Chunk Nat)) :=
  heapOk_getColumn _

/-- The fuel arguments of the model's three `while` loops are bounds, not behaviour: for every variant
of the code and every state, `readLoop` gives the same result for any fuel above `k - total_read`
(`readBatch` passes `k + 1`), `skipLoop` for any fuel above `n - total_skipped`, and the page-load
loop of `carquet_read_next_page` (F63) for any fuel above the number of pages behind the position
(`preparePage` passes the number of pages + 1). -/
theorem C02_model_fuel_sufficient :
    (∀ (fx : Fixes) (wd wr : Bool) (k f1 f2 : Nat) (r : Reader α) (st : LoopSt α),
      k - st.totalRead < f1 → k - st.totalRead < f2 →
      readLoop fx wd wr k f1 r st = readLoop fx wd wr k f2 r st) ∧
    (∀ (fx : Fixes) (n f1 f2 : Nat) (r : Reader α) (total : Nat), n - total < f1 → n - total < f2 →
      skipLoop fx n f1 r total = skipLoop fx n f2 r total) ∧
    (∀ (fx : Fixes) (f1 f2 : Nat) (r : Reader α),
      r.chunk.pages.length - (advance r).currentPage < f1 → r.chunk.pages.length - (advance r).currentPage < f2 →
      prepareLoop fx f1 r = prepareLoop fx f2 r) :=
  ⟨fun fx wd wr k f1 f2 r st h1 h2 => readLoop_fuel fx wd wr k f1 f2 r st h1 h2,
   fun fx n f1 f2 r total h1 h2 => skipLoop_fuel fx n f1 f2 r total h1 h2,
   fun fx f1 f2 r h1 h2 => prepareLoop_fuel fx f1 f2 r h1 h2⟩

end Carquet.Properties.C02
