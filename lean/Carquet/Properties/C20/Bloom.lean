import Carquet.Spec.Xxh64
import Carquet.Spec.Sbbf
import Carquet.Impl.Xxh64
import Carquet.Impl.Bloom
import Carquet.Gen.Constants
import Carquet.Proofs.Xxh64
import Carquet.Proofs.Bloom
/-
C20 — Bloom filters: no false negatives, Parquet split-block algorithm, XXH64.
Property statements only; helper lemmas live in Carquet/Proofs/{Xxh64,Bloom}.lean.

The theorems are about the models `Impl.Xxh64` (src/util/xxhash.c) and `Impl.Bloom`
(src/metadata/bloom_filter.c *with* fixes/F14-bloom-block-index.patch and
fixes/F30-bloom-create-size-wrap.patch); the pre-fix functions are `…PreFix`, and the two
`C20_regression_*` theorems are kernel-checked counterexamples for them.
Standing assumption (see Impl/Bloom.lean): little-endian host.
-/
namespace Carquet.Properties.C20
open Carquet
open Carquet.Impl.Bloom (Filter create fresh insertHash checkHash insertValue checkValue merge Status)

/-- The constants the source currently defines (`SALT[8]`, `XXH_PRIME64_1..5`,
`BLOOM_FILTER_BLOCK_SIZE`, re-extracted on every run) are the ones of the format document and of
the xxHash specification. -/
theorem C20_constants_match_spec :
    Impl.Bloom.salt = Spec.Sbbf.salt ∧ Impl.Bloom.blockSize = 32 ∧
    Impl.Xxh64.prime1 = Spec.Xxh64.PRIME64_1 ∧ Impl.Xxh64.prime2 = Spec.Xxh64.PRIME64_2 ∧
    Impl.Xxh64.prime3 = Spec.Xxh64.PRIME64_3 ∧ Impl.Xxh64.prime4 = Spec.Xxh64.PRIME64_4 ∧
    Impl.Xxh64.prime5 = Spec.Xxh64.PRIME64_5 := by
  decide

/-- `carquet_xxhash64` equals reference XXH64 for every input (any length) and every seed. -/
theorem C20_xxh64_impl_eq_spec (data : List UInt8) (seed : BitVec 64) :
    Impl.Xxh64.xxh64 data seed = Spec.Xxh64.xxh64 data seed :=
  Proofs.Xxh64.xxh64_eq data seed

example : Impl.Xxh64.xxh64 Spec.Xxh64.sanityBuffer Spec.Xxh64.sanitySeed = 0x20CB8AB7AE10C14A#64 := by
  rw [C20_xxh64_impl_eq_spec]; decide +kernel

/-- The hash the typed entry points (`_insert_i32/_i64/_float/_double/_bytes`, `_check_…`) use is
XXH64 with seed 0 of the PLAIN encoding of the value. -/
theorem C20_hash_is_xxh64_of_plain (v : Spec.Sbbf.Value) :
    Impl.Bloom.hashOf v = Spec.Xxh64.xxh64 (Spec.Sbbf.plain v) 0#64 :=
  Proofs.Bloom.hashOf_eq v

example : Spec.Sbbf.plain (.int32 0xFFFFFFFE#32) = [0xFE, 0xFF, 0xFF, 0xFF] := by decide

/-- Sizes are rounded to whole 32-byte blocks: whenever `create` returns a filter, its size is a
multiple of 32, at least 32, at least the request and less than one block above
`max request 32`; the object is consistent (`data` has `num_bytes` bytes, `num_blocks =
num_bytes / 32`).  `create` refuses exactly the requests whose rounding would not fit `size_t`
(there is no other clamp). -/
theorem C20_size_rounded (req : Nat) :
    (∀ f, create req = some f →
      32 ∣ f.numBytes ∧ 32 ≤ f.numBytes ∧ req ≤ f.numBytes ∧ f.numBytes < max req 32 + 32 ∧
      f.data.length = f.numBytes ∧ f.numBlocks = f.numBytes / 32 ∧ 0 < f.numBlocks) ∧
    (create req = none ↔ 2 ^ 64 - 32 < req) := by
  refine ⟨?_, ?_⟩
  · intro f h
    obtain ⟨n, hn, rfl⟩ := Proofs.Bloom.create_some req f h
    have s := Proofs.Bloom.createSize_spec req n hn
    have w := Proofs.Bloom.WF.fresh n s.1 s.2.1
    have h1 := w.len; have h2 := w.bytes; have h3 := w.pos
    refine ⟨?_, ?_, ?_, ?_, h1, ?_, h3⟩
    · exact Nat.dvd_of_mod_eq_zero s.1
    · exact s.2.1
    · exact s.2.2.1
    · have := s.2.2.2.2.1; have := s.2.2.2.1; show n < max req 32 + 32; omega
    · omega
  · rw [← Proofs.Bloom.createSize_none]
    simp [create]

example : (create 33).map (·.numBytes) = some 64 := by decide
example : (create 0).map (·.numBytes) = some 32 := by decide
example : create (2 ^ 64 - 1) = none := by decide

/-- A fresh filter reports false for everything. -/
theorem C20_fresh_rejects_all (req : Nat) (f : Filter) (hf : create req = some f) (h : BitVec 64) :
    checkHash f h = false ∧ ∀ v, checkValue f v = false := by
  obtain ⟨n, hn, rfl⟩ := Proofs.Bloom.create_some req f hf
  have s := Proofs.Bloom.createSize_spec req n hn
  exact ⟨Proofs.Bloom.checkHash_fresh n s.1 h, fun v => Proofs.Bloom.checkHash_fresh n s.1 _⟩

example : ∃ f, create 100 = some f := ⟨_, rfl⟩

/-- No false negatives: for every filter size and every sequence of inserted hashes, every
inserted hash is reported present (bits are only ever set). -/
theorem C20_no_false_negative (req : Nat) (f : Filter) (hf : create req = some f)
    (hs : List (BitVec 64)) (h : BitVec 64) (hin : h ∈ hs) :
    checkHash (hs.foldl insertHash f) h = true :=
  Proofs.Bloom.checkHash_foldl f (Proofs.Bloom.WF.create hf) hs h (Or.inl hin)

example : ∃ f, create 70 = some f ∧ (5#64 ∈ [1#64, 5#64, 0xFFFFFFFF00000000#64]) := ⟨_, rfl, by decide⟩

/-- The same for typed values (INT32, INT64, FLOAT, DOUBLE, BYTE_ARRAY) through the typed entry
points: a membership check for an inserted value returns true. -/
theorem C20_no_false_negative_values (req : Nat) (f : Filter) (hf : create req = some f)
    (vs : List Spec.Sbbf.Value) (v : Spec.Sbbf.Value) (hin : v ∈ vs) :
    checkValue (vs.foldl insertValue f) v = true := by
  have e : ∀ (g : Filter) (l : List Spec.Sbbf.Value),
      l.foldl insertValue g = (l.map Impl.Bloom.hashOf).foldl insertHash g := by
    intro g l
    induction l generalizing g with
    | nil => rfl
    | cons a l ih => simp only [List.foldl_cons, List.map_cons, insertValue]; exact ih _
  rw [e, checkValue]
  exact C20_no_false_negative req f hf _ _ (List.mem_map_of_mem hin)

example : ∃ f, create 64 = some f ∧
    (Spec.Sbbf.Value.bytes [0x61] ∈ [Spec.Sbbf.Value.int32 7#32, .bytes [0x61], .double 0#64]) :=
  ⟨_, rfl, by decide⟩

/-- Serialising and re-loading: for a filter built by `create` and any inserts, `write` into a
buffer that is large enough succeeds and yields exactly `num_bytes` bytes, `read` of those bytes
succeeds and gives back the same filter object — so every check answers as before, in particular
every inserted hash is still present.  A buffer that is too small is refused. -/
theorem C20_survives_reload (req : Nat) (f0 : Filter) (hf : create req = some f0)
    (hs : List (BitVec 64)) (cap : Nat) :
    (cap < (hs.foldl insertHash f0).numBytes → (Impl.Bloom.write (hs.foldl insertHash f0) cap).1 = Status.encode) ∧
    ((hs.foldl insertHash f0).numBytes ≤ cap →
      (Impl.Bloom.write (hs.foldl insertHash f0) cap).1 = Status.ok ∧
      (Impl.Bloom.write (hs.foldl insertHash f0) cap).2.length = (hs.foldl insertHash f0).numBytes ∧
      Impl.Bloom.read (some (Impl.Bloom.write (hs.foldl insertHash f0) cap).2) = (Status.ok, some (hs.foldl insertHash f0)) ∧
      ∀ g, (Impl.Bloom.read (some (Impl.Bloom.write (hs.foldl insertHash f0) cap).2)).2 = some g →
        (∀ h, checkHash g h = checkHash (hs.foldl insertHash f0) h) ∧ ∀ h ∈ hs, checkHash g h = true) := by
  have w := (Proofs.Bloom.WF.create hf).foldl hs
  obtain ⟨f, hfeq⟩ : ∃ f, f = hs.foldl insertHash f0 := ⟨_, rfl⟩
  rw [← hfeq] at w ⊢
  refine ⟨?_, ?_⟩
  · intro hc; simp only [Impl.Bloom.write, if_pos hc]
  · intro hc
    have hw : Impl.Bloom.write f cap = (Status.ok, f.data) := by
      simp only [Impl.Bloom.write, if_neg (Nat.not_lt.mpr hc)]
      rw [← w.len, List.take_length]
    have hr : Impl.Bloom.read (some f.data) = (Status.ok, some f) := by
      simp only [Impl.Bloom.read, Proofs.Bloom.fromData_of_WF w]
    rw [hw]
    refine ⟨rfl, w.len, hr, ?_⟩
    intro g hg
    rw [hr] at hg
    injection hg with hg
    subst hg
    refine ⟨fun _ => rfl, fun h hh => ?_⟩
    rw [hfeq]
    exact Proofs.Bloom.checkHash_foldl f0 (Proofs.Bloom.WF.create hf) hs h (Or.inl hh)

example : ∃ f, create 96 = some f ∧ (Impl.Bloom.write (([3#64, 4#64] : List (BitVec 64)).foldl insertHash f) 96).1 = Status.ok :=
  ⟨_, rfl, by decide⟩

/-- Merging: for two filters built by `create` (any requests) and any inserts, `merge` succeeds
iff the sizes are equal (otherwise it reports INVALID_ARGUMENT and leaves `dest` unchanged); on
success the new `dest` bytes are exactly the byte-wise OR of the two bitsets — which is the
word-wise OR (`Spec.Sbbf.union`) of the two filters — size fields are unchanged, every hash that
either filter reported present is reported present by the merge, and in particular every hash
inserted into either one is. -/
theorem C20_merge_is_union (req1 req2 : Nat) (f1 f2 : Filter) (h1 : create req1 = some f1)
    (h2 : create req2 = some f2) (as bs : List (BitVec 64)) :
    ((as.foldl insertHash f1).numBytes ≠ (bs.foldl insertHash f2).numBytes →
      merge (as.foldl insertHash f1) (bs.foldl insertHash f2) = (Status.invalidArgument, as.foldl insertHash f1)) ∧
    ((as.foldl insertHash f1).numBytes = (bs.foldl insertHash f2).numBytes →
      (merge (as.foldl insertHash f1) (bs.foldl insertHash f2)).1 = Status.ok ∧
      (merge (as.foldl insertHash f1) (bs.foldl insertHash f2)).2.data =
        List.zipWith (· ||| ·) (as.foldl insertHash f1).data (bs.foldl insertHash f2).data ∧
      (merge (as.foldl insertHash f1) (bs.foldl insertHash f2)).2.numBytes = (as.foldl insertHash f1).numBytes ∧
      (merge (as.foldl insertHash f1) (bs.foldl insertHash f2)).2.numBlocks = (as.foldl insertHash f1).numBlocks ∧
      Spec.Sbbf.parse (merge (as.foldl insertHash f1) (bs.foldl insertHash f2)).2.data =
        Spec.Sbbf.union (Spec.Sbbf.parse (as.foldl insertHash f1).data) (Spec.Sbbf.parse (bs.foldl insertHash f2).data) ∧
      (∀ h, checkHash (as.foldl insertHash f1) h = true ∨ checkHash (bs.foldl insertHash f2) h = true →
        checkHash (merge (as.foldl insertHash f1) (bs.foldl insertHash f2)).2 h = true) ∧
      (∀ h, h ∈ as ++ bs → checkHash (merge (as.foldl insertHash f1) (bs.foldl insertHash f2)).2 h = true)) := by
  have wa := (Proofs.Bloom.WF.create h1).foldl as
  have wb := (Proofs.Bloom.WF.create h2).foldl bs
  have ca : ∀ h ∈ as, checkHash (as.foldl insertHash f1) h = true :=
    fun h hh => Proofs.Bloom.checkHash_foldl f1 (Proofs.Bloom.WF.create h1) as h (Or.inl hh)
  have cb : ∀ h ∈ bs, checkHash (bs.foldl insertHash f2) h = true :=
    fun h hh => Proofs.Bloom.checkHash_foldl f2 (Proofs.Bloom.WF.create h2) bs h (Or.inl hh)
  generalize as.foldl insertHash f1 = d at wa ca ⊢
  generalize bs.foldl insertHash f2 = s at wb cb ⊢
  refine ⟨fun hne => by simp only [merge, if_pos hne], fun he => ?_⟩
  rw [Proofs.Bloom.merge_ok d s wa wb he]
  have hlen : d.data.length = s.data.length := by rw [wa.len, wb.len, he]
  have hnb : d.numBlocks = s.numBlocks := by have := wa.bytes; have := wb.bytes; omega
  have hun : ∀ h, checkHash d h = true ∨ checkHash s h = true →
      checkHash { d with data := List.zipWith (· ||| ·) d.data s.data } h = true := by
    intro h hc
    rw [Proofs.Bloom.checkHash_eq, Proofs.Bloom.parse_zipWith_or _ _ hlen]
    have hl : (Spec.Sbbf.parse d.data).length = (Spec.Sbbf.parse s.data).length := by
      rw [wa.parse_length, wb.parse_length, hnb]
    rcases hc with hc | hc
    · rw [Proofs.Bloom.checkHash_eq] at hc
      exact Proofs.Bloom.checkAt_union_left _ _ _ _ hl (Proofs.Bloom.parse_block_length _) hc
    · rw [Proofs.Bloom.checkHash_eq, ← hnb] at hc
      exact Proofs.Bloom.checkAt_union_right _ _ _ _ hl (Proofs.Bloom.parse_block_length _) hc
  refine ⟨rfl, rfl, rfl, rfl, Proofs.Bloom.parse_zipWith_or _ _ hlen, hun, ?_⟩
  intro h hh
  rcases List.mem_append.mp hh with hh | hh
  · exact hun h (Or.inl (ca h hh))
  · exact hun h (Or.inr (cb h hh))

example : ∃ f1 f2, create 64 = some f1 ∧ create 33 = some f2 ∧
    (([1#64] : List (BitVec 64)).foldl insertHash f1).numBytes = (([2#64] : List (BitVec 64)).foldl insertHash f2).numBytes :=
  ⟨_, _, rfl, rfl, by decide⟩

/-- The bit positions are those of the Parquet split-block Bloom filter: through the abstraction
`Spec.Sbbf.parse` (bytes → little-endian words → blocks), for every well-formed filter object
(`data` has `num_bytes = 32 * num_blocks` bytes, at least one block) of at most 2^32 blocks,
`insert_hash` is the format's `filter_insert` and `check_hash` is the format's `filter_check`
(same block, same eight bits), the exposed bytes are the format's serialisation of the filter
they denote, and the invariant is kept. -/
theorem C20_bits_match_spec (f : Filter) (hlen : f.data.length = f.numBytes)
    (hbytes : f.numBytes = 32 * f.numBlocks) (hpos : 0 < f.numBlocks) (hmax : f.numBlocks ≤ 2 ^ 32)
    (h : BitVec 64) :
    Impl.Bloom.blockIndex h f.numBlocks = Spec.Sbbf.blockIndex h f.numBlocks ∧
    Spec.Sbbf.parse (insertHash f h).data = Spec.Sbbf.insert (Spec.Sbbf.parse f.data) h ∧
    checkHash f h = Spec.Sbbf.check (Spec.Sbbf.parse f.data) h ∧
    Spec.Sbbf.serialize (Spec.Sbbf.parse f.data) = f.data ∧
    ((insertHash f h).data.length = (insertHash f h).numBytes ∧
     (insertHash f h).numBytes = f.numBytes ∧ (insertHash f h).numBlocks = f.numBlocks) := by
  have w : Proofs.Bloom.WF f := ⟨hlen, hbytes, hpos⟩
  have hi := Proofs.Bloom.blockIndex_eq_spec h f.numBlocks hmax
  refine ⟨hi, ?_, ?_, ?_, (w.insertHash h).len, rfl, rfl⟩
  · rw [Proofs.Bloom.parse_insertHash, Spec.Sbbf.insert, w.parse_length, hi]
  · rw [Proofs.Bloom.checkHash_eq, Spec.Sbbf.check, w.parse_length, hi]
  · exact Proofs.Bloom.serialize_parse _ (by rw [hlen, hbytes]; omega)

example : ∃ f : Filter, f = fresh 64 ∧ f.data.length = f.numBytes ∧ f.numBytes = 32 * f.numBlocks ∧
    0 < f.numBlocks ∧ f.numBlocks ≤ 2 ^ 32 := ⟨_, rfl, by decide⟩

/-- Interchangeability, end to end: for every requested size (whose filter has at most 2^32
blocks, i.e. 128 GiB) and every sequence of inserted hashes, the bytes carquet exposes
(`carquet_bloom_filter_data` / `_write`) are exactly the format's serialisation of the
split-block filter with that many blocks after the same `filter_insert`s, and `check_hash`
answers exactly as the format's `filter_check` on it.  With `C20_hash_is_xxh64_of_plain` the same
holds for typed values. -/
theorem C20_filter_bytes_match_spec (req : Nat) (f : Filter) (hf : create req = some f)
    (hmax : f.numBlocks ≤ 2 ^ 32) (hs : List (BitVec 64)) :
    (hs.foldl insertHash f).data =
      Spec.Sbbf.serialize (hs.foldl Spec.Sbbf.insert (Spec.Sbbf.empty f.numBlocks)) ∧
    ∀ h, checkHash (hs.foldl insertHash f) h =
      Spec.Sbbf.check (hs.foldl Spec.Sbbf.insert (Spec.Sbbf.empty f.numBlocks)) h := by
  have key : ∀ (l : List (BitVec 64)) (g : Filter), Proofs.Bloom.WF g → g.numBlocks ≤ 2 ^ 32 →
      Spec.Sbbf.parse (l.foldl insertHash g).data = l.foldl Spec.Sbbf.insert (Spec.Sbbf.parse g.data) := by
    intro l
    induction l with
    | nil => intro g _ _; rfl
    | cons x xs ih =>
      intro g wg hg
      rw [List.foldl_cons, List.foldl_cons, ih _ (wg.insertHash x) hg]
      rw [(C20_bits_match_spec g wg.len wg.bytes wg.pos hg x).2.1]
  have w0 := Proofs.Bloom.WF.create hf
  have w := w0.foldl hs
  have hp : Spec.Sbbf.parse f.data = Spec.Sbbf.empty f.numBlocks := by
    obtain ⟨n, hn, rfl⟩ := Proofs.Bloom.create_some req f hf
    exact Proofs.Bloom.parse_fresh n (Proofs.Bloom.createSize_spec req n hn).1
  have hk := key hs f w0 hmax
  rw [hp] at hk
  have hnb := Proofs.Bloom.foldl_numBlocks f hs
  refine ⟨?_, fun h => ?_⟩
  · rw [← hk]
    exact (Proofs.Bloom.serialize_parse _ (by rw [w.len, w.bytes]; omega)).symm
  · rw [← hk]
    exact (C20_bits_match_spec _ w.len w.bytes w.pos (by rw [hnb]; exact hmax) h).2.2.1

example : ∃ f, create 200 = some f ∧ f.numBlocks ≤ 2 ^ 32 := ⟨_, rfl, by decide⟩

/-! ### Kernel-checked counterexamples for the code before the fixes -/

/-- F14 (pinned tree): the block index was `(hash >> 32) % num_blocks`.  Witness: hash
`0x0000000100000001` in a filter of two blocks goes to block 1, the format says block 0; the
filter bytes differ from the format's, and the format's `filter_check` does not find the value
in carquet's bytes.  The repaired model agrees with the format on the same witness. -/
theorem C20_regression_F14 :
    Impl.Bloom.blockIndexPreFix 0x0000000100000001#64 2 = 1 ∧
    Spec.Sbbf.blockIndex 0x0000000100000001#64 2 = 0 ∧
    (Impl.Bloom.insertHashPreFix (fresh 64) 0x0000000100000001#64).data ≠
      Spec.Sbbf.serialize (Spec.Sbbf.insert (Spec.Sbbf.empty 2) 0x0000000100000001#64) ∧
    Spec.Sbbf.check (Spec.Sbbf.parse (Impl.Bloom.insertHashPreFix (fresh 64) 0x0000000100000001#64).data)
      0x0000000100000001#64 = false ∧
    (insertHash (fresh 64) 0x0000000100000001#64).data =
      Spec.Sbbf.serialize (Spec.Sbbf.insert (Spec.Sbbf.empty 2) 0x0000000100000001#64) := by
  decide +kernel

/-- F30 (pinned tree): `create`'s rounding `(num_bytes + 31) / 32 * 32` wrapped `size_t`.  Witness:
a request of `SIZE_MAX` gave a filter object of 0 bytes and 0 blocks (not a multiple of a whole
block ≥ 32, smaller than the request; `insert_hash` then divides by zero).  The repaired `create`
refuses the request. -/
theorem C20_regression_F30 :
    Impl.Bloom.createSizePreFix (2 ^ 64 - 1) = 0 ∧
    (Impl.Bloom.createPreFix (2 ^ 64 - 1)).numBlocks = 0 ∧
    ¬ (32 ≤ (Impl.Bloom.createPreFix (2 ^ 64 - 1)).numBytes) ∧
    create (2 ^ 64 - 1) = none := by
  decide +kernel

end Carquet.Properties.C20
