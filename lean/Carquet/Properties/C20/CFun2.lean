import Carquet.Proofs.CFun2.Xxh64
import Carquet.Proofs.CFun2.Bloom
/-
C20 — stage-2 link theorems: the byte-level kernels of src/util/xxhash.c and src/metadata/bloom_filter.c as translated
from the CURRENT C source by translate/gen_cfun.py (arrays as lists, pointers as offsets, `SALT[8]` read from its
initialiser in the AST) are the hand-written models the C20 theorems are about.  With `C20_cfun_xxhash64`,
`C20_xxh64_impl_eq_spec` is a statement about regenerated code end to end.
`…_defined`: no read outside `[0, length)`, no undefined arithmetic, loop fuel sufficient.
-/
namespace Carquet.Properties.C20
open Carquet Carquet.Impl Carquet.Proofs.CFun2
open Carquet.Spec.Sbbf (wordsOfBytes)

/-- `read64_le(p)` on a buffer of at least 8 bytes is the model's little-endian load of its first 8 bytes -/
theorem C20_cfun_read64_le (b0 b1 b2 b3 b4 b5 b6 b7 : UInt8) (rest : List UInt8) :
    Gen.CFun.read64_le (b0 :: b1 :: b2 :: b3 :: b4 :: b5 :: b6 :: b7 :: rest) = Xxh64.read64le b0 b1 b2 b3 b4 b5 b6 b7 := by
  have := read64_le_drop (b0 :: b1 :: b2 :: b3 :: b4 :: b5 :: b6 :: b7 :: rest) 0
  simpa using this

/-- it reads exactly the 8 bytes `p[0..7]`: defined iff the buffer has them -/
theorem C20_cfun_read64_le_defined (p : List UInt8) :
    Gen.CFun.read64_le_defined p = decide (8 ≤ p.length) := by
  have := read64_le_defined_drop p 0
  simpa using this

example : Gen.CFun.read64_le [1, 2, 3, 4, 5, 6, 7, 8, 9] = 0x0807060504030201#64 ∧
    Gen.CFun.read64_le_defined [1, 2, 3, 4, 5, 6, 7] = false := by decide

theorem C20_cfun_read32_le (b0 b1 b2 b3 : UInt8) (rest : List UInt8) :
    Gen.CFun.read32_le (b0 :: b1 :: b2 :: b3 :: rest) = Xxh64.read32le b0 b1 b2 b3 := by
  have := read32_le_drop (b0 :: b1 :: b2 :: b3 :: rest) 0
  simpa using this

theorem C20_cfun_read32_le_defined (p : List UInt8) :
    Gen.CFun.read32_le_defined p = decide (4 ≤ p.length) := by
  have := read32_le_defined_drop p 0
  simpa using this

example : Gen.CFun.read32_le [0x80, 0, 0, 0xff] = 0xff000080#32 ∧ Gen.CFun.read32_le_defined [1, 2, 3] = false := by decide

/-- **`carquet_xxhash64` itself**: for every byte string (shorter than 2^64) and every seed, the function translated from
the C source — stripe loop, 8/4/1-byte tail steps, avalanche — returns what the model `Impl.Xxh64.xxh64` returns. -/
theorem C20_cfun_xxhash64 (data : List UInt8) (seed : BitVec 64) (h : data.length < 2 ^ 64) :
    Gen.CFun.carquet_xxhash64 data (BitVec.ofNat 64 data.length) seed = Xxh64.xxh64 data seed :=
  xxhash64_eq data _ seed (by simp [BitVec.toNat_ofNat]; omega)

/-- …and on the way it reads only inside `data[0 .. length)`, performs no undefined shift, and the three loops stop
within the fuel the translator was given (`length/32 + 1`, `length/8 + 1`, `length + 1`). -/
theorem C20_cfun_xxhash64_defined (data : List UInt8) (seed : BitVec 64) (h : data.length < 2 ^ 64) :
    Gen.CFun.carquet_xxhash64_defined data (BitVec.ofNat 64 data.length) seed = true :=
  xxhash64_defined data _ seed (by simp [BitVec.toNat_ofNat]; omega)

/-- a `length` larger than the buffer is an out-of-bounds read, and `_defined` says so (non-vacuity of the bounds
obligation): 3 bytes declared as 4 -/
example : Gen.CFun.carquet_xxhash64_defined [1, 2, 3] 4#64 0#64 = false ∧
    Gen.CFun.carquet_xxhash64_defined [1, 2, 3] 3#64 0#64 = true := by decide

example : Gen.CFun.carquet_xxhash64 [] 0#64 0#64 = 0xEF46DB3751D8E999#64 := by decide

/-- the salts the translator extracted from the initialiser of `SALT[8]` are the salts of the Parquet specification -/
theorem C20_cfun_salt_table : Gen.CFun.bloom_filter_SALT = Spec.Sbbf.salt := by decide

/-- `bloom_filter_block_insert(block, hash)` on the words of a block (`uint32_t*` view of at least 32 bytes) yields the
words of what the byte model's loop yields -/
theorem C20_cfun_bloom_block_insert (p : List UInt8) (hash : BitVec 64) (h : 32 ≤ p.length) :
    Gen.CFun.bloom_filter_block_insert (wordsOfBytes p) hash =
      wordsOfBytes (Bloom.blockInsertLoop (hash.setWidth 32) Bloom.salt p) := by
  rw [Proofs.Bloom.wordsOf_insertLoop]
  exact block_insert_words _ _ (by rw [Proofs.Bloom.wordsOf_length]; omega)

theorem C20_cfun_bloom_block_insert_defined (ws : List (BitVec 32)) (hash : BitVec 64) (h : 8 ≤ ws.length) :
    Gen.CFun.bloom_filter_block_insert_defined ws hash = true := block_insert_defined ws hash h

/-- a block of 7 words: the eighth store is out of bounds -/
example : Gen.CFun.bloom_filter_block_insert_defined (List.replicate 7 0#32) 1#64 = false ∧
    Gen.CFun.bloom_filter_block_insert (List.replicate 8 0#32) 1#64 ≠ List.replicate 8 0#32 := by decide

theorem C20_cfun_bloom_block_check (p : List UInt8) (hash : BitVec 64) (h : 32 ≤ p.length) :
    Gen.CFun.bloom_filter_block_check (wordsOfBytes p) hash =
      Bloom.blockCheckLoop (hash.setWidth 32) Bloom.salt p := by
  rw [Proofs.Bloom.checkLoop_words]
  exact block_check_words _ _ (by rw [Proofs.Bloom.wordsOf_length]; omega)

theorem C20_cfun_bloom_block_check_defined (ws : List (BitVec 32)) (hash : BitVec 64) (h : 8 ≤ ws.length) :
    Gen.CFun.bloom_filter_block_check_defined ws hash = true := block_check_defined ws hash h

example : Gen.CFun.bloom_filter_block_check (Gen.CFun.bloom_filter_block_insert (List.replicate 8 0#32) 5#64) 5#64 = true ∧
    Gen.CFun.bloom_filter_block_check (List.replicate 8 0#32) 5#64 = false := by decide

end Carquet.Properties.C20
