import Carquet.Impl.CSem
import Carquet.Impl.Xxh64
import Carquet.Impl.Bloom
import Carquet.Gen.CFun
/-
C20 — link theorems between the C functions of src/metadata/bloom_filter.c and src/util/xxhash.c as translated from
the CURRENT source by translate/gen_cfun.py (`Carquet.Gen.CFun`, regenerated on every run) and the hand-written
models the C20 theorems are about (`Impl.Bloom.blockIndex`, `Impl.Xxh64.rotl / round / mergeRound`).
A change to one of these C functions changes the generated definition, and the theorem here stops checking.
-/
namespace Carquet.Properties.C20
open Carquet Carquet.Impl

/-- `bloom_filter_block_index(hash, num_blocks)` is the model's block index, for every hash and every `size_t`
block count. -/
theorem C20_cfun_bloom_filter_block_index (hash numBlocks : BitVec 64) :
    (Gen.CFun.bloom_filter_block_index hash numBlocks).toNat = Impl.Bloom.blockIndex hash numBlocks.toNat := by
  simp [Gen.CFun.bloom_filter_block_index, Impl.Bloom.blockIndex]

theorem C20_cfun_bloom_filter_block_index_defined (hash numBlocks : BitVec 64) :
    Gen.CFun.bloom_filter_block_index_defined hash numBlocks = true := by
  simp [Gen.CFun.bloom_filter_block_index_defined]

example : (Gen.CFun.bloom_filter_block_index 0x0000000100000001#64 2#64).toNat = 0 ∧
    Impl.Bloom.blockIndex 0x0000000100000001#64 2 = 0 := by decide

/-- `xxh64_rotl(x, r)` is the model's rotation for every count the C code may legally pass (`0 < r < 64`; the
function is called with 1, 7, 11, 12, 18, 23, 27, 31 only). -/
theorem C20_cfun_xxh64_rotl (x : BitVec 64) (r : BitVec 32) (h : r.toNat ≤ 64) :
    Gen.CFun.xxh64_rotl x r = Impl.Xxh64.rotl x r.toNat := by
  have h2 : (64#32 - r).toNat = 64 - r.toNat := by bv_omega
  simp [Gen.CFun.xxh64_rotl, Impl.Xxh64.rotl, h2]

/-- the rotation has no undefined behaviour exactly for counts 1..63 (a count of 0 would shift by 64) -/
theorem C20_cfun_xxh64_rotl_defined (x : BitVec 64) (r : BitVec 32) :
    Gen.CFun.xxh64_rotl_defined x r = decide (0 < r.toNat ∧ r.toNat < 64) := by
  simp only [Gen.CFun.xxh64_rotl_defined, CSem.shCountOk, CSem.sSubOk, BitVec.ssubOverflow, BitVec.msb_eq_decide]
  simp only [Bool.not_true, Bool.false_or]
  by_cases h1 : r.toNat < 64
  · have h2 : (64#32 - r).toNat = 64 - r.toNat := by bv_omega
    have h3 : r.toInt = (r.toNat : Int) := by rw [BitVec.toInt_eq_toNat_of_lt]; omega
    have h4 : (64#32 : BitVec 32).toInt = 64 := by decide
    rw [h2, h3, h4]
    by_cases h0 : 0 < r.toNat <;> simp [h1, h0] <;> omega
  · simp [h1]

example : Gen.CFun.xxh64_rotl_defined 5#64 31#32 = true ∧ Gen.CFun.xxh64_rotl_defined 5#64 0#32 = false ∧
    Gen.CFun.xxh64_rotl 0x8000000000000001#64 1#32 = 3#64 := by decide

/-- `xxh64_round` is the model's round for every accumulator and input. -/
theorem C20_cfun_xxh64_round (acc input : BitVec 64) :
    Gen.CFun.xxh64_round acc input = Impl.Xxh64.round acc input := by
  have hp1 : Impl.Xxh64.prime1 = 11400714785074694791#64 := by decide
  have hp2 : Impl.Xxh64.prime2 = 14029467366897019727#64 := by decide
  have hr : ∀ x, Gen.CFun.xxh64_rotl x 31#32 = Impl.Xxh64.rotl x 31 := fun x => by
    rw [C20_cfun_xxh64_rotl x 31#32 (by decide)]; rfl
  simp [Gen.CFun.xxh64_round, Impl.Xxh64.round, hp1, hp2, hr]

theorem C20_cfun_xxh64_round_defined (acc input : BitVec 64) :
    Gen.CFun.xxh64_round_defined acc input = true := by
  simp only [Gen.CFun.xxh64_round_defined, C20_cfun_xxh64_rotl_defined]
  decide

example : Gen.CFun.xxh64_round 1#64 2#64 = Impl.Xxh64.round 1#64 2#64 ∧ Gen.CFun.xxh64_round 1#64 2#64 ≠ 0#64 := by
  decide

/-- `xxh64_merge_round` is the model's merge round for every accumulator and lane value. -/
theorem C20_cfun_xxh64_merge_round (acc val : BitVec 64) :
    Gen.CFun.xxh64_merge_round acc val = Impl.Xxh64.mergeRound acc val := by
  have hp1 : Impl.Xxh64.prime1 = 11400714785074694791#64 := by decide
  have hp4 : Impl.Xxh64.prime4 = 9650029242287828579#64 := by decide
  simp [Gen.CFun.xxh64_merge_round, Impl.Xxh64.mergeRound, hp1, hp4, C20_cfun_xxh64_round]

theorem C20_cfun_xxh64_merge_round_defined (acc val : BitVec 64) :
    Gen.CFun.xxh64_merge_round_defined acc val = true := by
  simp only [Gen.CFun.xxh64_merge_round_defined, C20_cfun_xxh64_round_defined]

example : Gen.CFun.xxh64_merge_round 1#64 2#64 = Impl.Xxh64.mergeRound 1#64 2#64 ∧
    Gen.CFun.xxh64_merge_round 1#64 2#64 ≠ 0#64 := by decide

end Carquet.Properties.C20
