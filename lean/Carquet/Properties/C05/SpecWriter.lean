import Carquet.Proofs.SpecWriterFile
import Carquet.Proofs.SpecWriterSizes
import Carquet.Spec.File
/-
C05, full strength — the independent whole-file reader accepts every file the writer reports
complete and returns exactly the table that was written.

`Spec.File.read` (Spec/File/Read.lean) is the reader written from the format documents; it shares
nothing with carquet and REJECTS a byte string unless every structural claim the file makes about
itself is true (envelope, footer with required fields, schema tree, chunks tiling `[4, footer)`
exactly, page headers chaining through each chunk, legal and listed encodings, CRC, decompressed
length, levels, values, true page statistics, counts pages → chunk → row group → file).
`fileOf (Impl.FileReal.deps [])` is the byte-exact model of carquet's writer over the models of
its real components (tie: byte equality of whole files, op `wr`).

Statements only; the stages are in Proofs/SpecWriter{Inv,Run,Header,Page,Chunk,Footer,File,Sizes}.lean.
-/
namespace Carquet.Properties.C05
open Carquet.Impl Carquet.Impl.Writer Carquet.Impl.FileReal
open Carquet.Spec Carquet.Proofs.SpecWriter Carquet.Proofs.WriterTable

/-- The schema: at least one column; flat REQUIRED / OPTIONAL columns; a FIXED_LEN_BYTE_ARRAY column
has a positive length; and the schema fits the C structures and the Thrift parser's limits (fewer
than 10000 columns, names that are C strings — NUL-free, shorter than 2^31 —, `type_length` an
`int32_t`). -/
structure SchemaOk (cols : List Col) : Prop where
  nonEmpty : cols ≠ []
  colsOk : ∀ c ∈ cols, ColOk c
  small : SchemaSmall cols

/-- The history respects the documented preconditions of `carquet_writer_write_batch`: the arrays
hold what the counts say (`HistWF`, `BatchOk`: one definition level ≤ 1 per row for OPTIONAL, as many
dense values as non-null rows, every value a PLAIN bit pattern of the column's type — BOOLEAN one
byte 0 / 1, BYTE_ARRAY shorter than 2^31), and all columns of a row group receive the same number
of rows ("All columns must be written the same number of rows before closing or starting a new
row group", carquet.h). -/
structure HistOk (cols : List Col) (ops : List Op) : Prop where
  wf : HistWF ops
  batches : ∀ b, Op.batch b ∈ ops → ∀ c, cols[b.col]? = some c → BatchOk c b
  aligned : ∀ g ∈ tableOf cols ops, ∀ d ∈ g, d.rows = (g.map (·.rows)).headD 0

/-- The written file is small enough for the C integer types in which carquet keeps its numbers
(the model computes in unbounded `Nat`, so it speaks for the C code only under these): the file is
shorter than 2 GiB, has at most 32768 row groups (`RowGroup.ordinal` is an `int16_t`), and every
column chunk has fewer than 2^31 values and fewer than 2^31 uncompressed bytes — the
`num_values` / `total_uncompressed_size` the footer itself states (`mdOfRun` is the FileMetaData
`carquet_writer_close` serialises; page headers carry these quantities per page as `int32_t`). -/
def FileSizesOk (cols : List Col) (codec pageSize : Nat) (ops : List Op) : Prop :=
  OutputSmall (fileOf (deps []) cols codec pageSize "Carquet" ops).1 (mdOfRun (deps []) cols codec pageSize "Carquet" ops)

/-- **C05.**  For every schema, codec among UNCOMPRESSED / SNAPPY / LZ4 / LZ4_RAW, page size and write
history satisfying the preconditions above: if every call and the close returned OK, the
independent reader — with strict tiling — accepts the file and returns exactly the table the
history denotes. -/
theorem C05_spec_reader_accepts_writer
    (cols : List Col) (codec pageSize : Nat) (ops : List Op)
    (hcodec : codec = 0 ∨ codec = 1 ∨ codec = 5 ∨ codec = 7)
    (hschema : SchemaOk cols) (hhist : HistOk cols ops) (hsize : FileSizesOk cols codec pageSize ops)
    (hok : ∀ s ∈ (fileOf (deps []) cols codec pageSize "Carquet" ops).2, s = .ok) :
    Spec.File.read (fileOf (deps []) cols codec pageSize "Carquet" ops).1 (strictTiling := true)
      = .ok (specTableOf cols ops) :=
  have hf := run_facts (deps []) (goodPred []) cols codec pageSize "Carquet" ops hhist.wf hhist.batches hok
  read_written [] codec hcodec cols hschema.nonEmpty hschema.colsOk ops "Carquet" _ _ _ hf hhist.aligned
    (runSmall_of_output [] (goodPred []) codec hcodec cols ops _ _ _ hf hschema.small hsize) []

/-- The same under the size conditions in their direct form (`RunSmall`: the footer data within
the limits `footerOk`, the footer shorter than 4 GiB, every page's uncompressed body, stored body and
row count below 2^31), which `FileSizesOk` implies. -/
theorem C05_spec_reader_accepts_writer_sizes
    (cols : List Col) (codec pageSize : Nat) (ops : List Op)
    (hcodec : codec = 0 ∨ codec = 1 ∨ codec = 5 ∨ codec = 7)
    (hne : cols ≠ []) (hcols : ∀ c ∈ cols, ColOk c) (hhist : HistOk cols ops)
    (hsize : RunSmall (mdOfRun (deps []) cols codec pageSize "Carquet" ops)
               (pagesOfRun (deps []) cols codec pageSize "Carquet" ops))
    (hok : ∀ s ∈ (fileOf (deps []) cols codec pageSize "Carquet" ops).2, s = .ok) :
    Spec.File.read (fileOf (deps []) cols codec pageSize "Carquet" ops).1 (strictTiling := true)
      = .ok (specTableOf cols ops) :=
  read_written [] codec hcodec cols hne hcols ops "Carquet" _ _ _
    (run_facts (deps []) (goodPred []) cols codec pageSize "Carquet" ops hhist.wf hhist.batches hok)
    hhist.aligned hsize []

/-! ### the stages, as statements of their own -/

/-- **One page.**  For a page record of column `c` that is the finalisation of a well-formed
page-builder content (`PageFacts`: `carquet_page_writer_finalize` of `r.src`, stored body =
`compress_data` of the body, sizes below 2^31), followed by any bytes: the independent reader parses
the hand-written header, checks the sizes, the CRC, decompresses to exactly the body, and decodes
the body (levels, PLAIN values, true statistics) to the entries of the page's content. -/
theorem C05_spec_reader_reads_page (codec : Nat) (hcodec : codec = 0 ∨ codec = 1 ∨ codec = 5 ∨ codec = 7)
    (c : Col) (hc : ColOk c) (r : PageRec) (hf : PageFacts [] codec c r) (rest : List UInt8) (cfg : File.Config) :
    File.readRawPage cfg codec (r.bytes (deps []) ++ rest) =
      .ok ⟨pageHdrOfWritten r.body.length r.comp.length (FileReal.crc32 r.comp) r.rows r.stats, r.body,
           (r.bytes (deps [])).length, rest⟩ ∧
    File.decodeDataPage (leafOf c) none ⟨r.rows, 0, 3, 3, r.stats.map statsMetaOf⟩ r.body =
      .ok (specChunkOf c (pageData r.src)) :=
  page_written [] cfg codec hcodec c (maxRep_of_colOk hc) (maxDef_le_one c) r hf rest

/-- **One column chunk** (the single-chunk statement): the bytes of a chunk — the concatenation of
`header ++ stored body` of ANY list of such page records, reachable by the writer or not — are read
by the reader's chunk stage, page after page to the last byte, to the column's entries; the value
count is the chunk's `num_values`. -/
theorem C05_spec_reader_reads_chunk (codec : Nat) (hcodec : codec = 0 ∨ codec = 1 ∨ codec = 5 ∨ codec = 7)
    (c : Col) (hc : ColOk c) (ps : List PageRec) (h : ∀ r ∈ ps, PageFacts [] codec c r) (m : File.ColumnMeta)
    (henc : m.encodings = [0, 3]) (hmc : m.codec = codec) (hd : m.dictionaryPageOffset = none)
    (hnv : m.numValues = Carquet.Proofs.WriterPages.sumRows ps) (start : Nat) (cfg : File.Config) :
    File.readChunk cfg (leafOf c) m start (Carquet.Proofs.WriterPages.pagesBytes (deps []) ps) =
      .ok (specChunkOf c (pagesData ps)) :=
  readChunk_written [] cfg codec hcodec c (maxRep_of_colOk hc) (maxDef_le_one c) ps h m henc hmc hd hnv start

/-- **The footer.**  For footer data within the limits (`footerOk`), the footer carquet writes is
parsed by the independent reader — generic compact-protocol decoder, then extraction with the
REQUIRED-field rules of parquet.thrift — to version 2, the element list of the schema tree
`specSchemaOf cols`, `num_rows`, and the row-group / chunk metadata the writer assembled. -/
theorem C05_spec_reader_reads_footer (md : FooterData) (hok : Carquet.Proofs.FileRealFooter.footerOk md = true) :
    File.parseFooter (FileReal.footer md) = .ok (fileMetaOfWritten md) :=
  parseFooter_written md hok

/-- non-vacuity of the page / chunk statements: a Snappy page of an OPTIONAL INT32 column with one
null and statistics -/
private def exCol : Col := ⟨"a", .int32, .optional, 0⟩
private def exPage : Page :=
  { values := [[1, 0, 0, 0], [2, 0, 0, 0]], defs := [1, 0, 1], numValues := 3, numNulls := 1,
    minMax := some ([1, 0, 0, 0], [2, 0, 0, 0]) }

example : ColOk exCol := ⟨by decide, by decide⟩
example : PageFacts [] 1 exCol (pageRecOf (deps []) 1 exCol exPage) :=
  ⟨rfl, ⟨by decide +kernel, by decide⟩,
   ⟨by decide, by decide, by decide, by decide, by decide, by decide, by decide, by decide +kernel⟩,
   ⟨by decide +kernel, by decide +kernel, by decide⟩⟩

example : Carquet.Proofs.FileRealFooter.footerOk
    ⟨[exCol], "Carquet", 3, [⟨3, 40, 4, 40, 0, [⟨4, .int32, 1, 3, 40, 19, "a"⟩]⟩]⟩ = true := by decide +kernel

/-! ### non-vacuity: a two-column, two-row-group history (OPTIONAL INT32 with a null and page
statistics, REQUIRED BOOLEAN), Snappy-compressed, satisfies every hypothesis -/

private def exCols : List Col := [⟨"a", .int32, .optional, 0⟩, ⟨"b", .boolean, .required, 0⟩]
private def exOps : List Op :=
  [.batch ⟨0, 3, some [1, 0, 1], [[1, 0, 0, 0], [2, 0, 0, 0]]⟩, .batch ⟨1, 3, none, [[1], [0], [1]]⟩, .newRowGroup,
   .batch ⟨0, 1, none, [[7, 0, 0, 0]]⟩, .batch ⟨1, 1, none, [[0]]⟩]

private theorem exSchemaOk : SchemaOk exCols :=
  ⟨by decide, fun c hc => by
    simp only [exCols, List.mem_cons, List.mem_nil_iff, or_false] at hc
    rcases hc with rfl | rfl <;> exact ⟨by decide, by decide⟩,
   ⟨by decide, by decide +kernel, by decide⟩⟩

private theorem exHistOk : HistOk exCols exOps := by
  refine ⟨?_, ?_, by decide +kernel⟩
  · intro b hb
    simp only [exOps, List.mem_cons, Op.batch.injEq, List.mem_nil_iff, or_false, reduceCtorEq, false_or] at hb
    rcases hb with h | h | h | h <;> subst h <;> exact ⟨by decide, by intro ds h; cases h <;> rfl⟩
  · intro b hb c hc
    simp only [exOps, List.mem_cons, Op.batch.injEq, List.mem_nil_iff, or_false, reduceCtorEq, false_or] at hb
    rcases hb with h | h | h | h <;> subst h <;>
      simp only [exCols, List.getElem?_cons_zero, List.getElem?_cons_succ, Option.some.injEq] at hc <;> subst hc <;>
      exact ⟨by decide, by intro ds h; cases h <;> rfl, by intro _ ds h; cases h <;> decide, by decide⟩

private theorem exSizesOk : FileSizesOk exCols 1 64 exOps := ⟨by decide +kernel, by decide +kernel, by decide +kernel⟩

private theorem exAllOk : ((fileOf (deps []) exCols 1 64 "Carquet" exOps).2.all (· == .ok)) = true := by decide +kernel

/-- the theorem applied to the example: the reader returns the example's table -/
example : Spec.File.read (fileOf (deps []) exCols 1 64 "Carquet" exOps).1 (strictTiling := true) =
    .ok (specTableOf exCols exOps) :=
  C05_spec_reader_accepts_writer exCols 1 64 exOps (by decide) exSchemaOk exHistOk exSizesOk
    (fun s hs => by simpa using List.all_eq_true.mp exAllOk s hs)

/-- the table of the example: two row groups; column `a` of the first has a null entry -/
example : (specTableOf exCols exOps).rowGroups =
    [⟨[[⟨0, 1, some [1, 0, 0, 0]⟩, ⟨0, 0, none⟩, ⟨0, 1, some [2, 0, 0, 0]⟩],
       [⟨0, 0, some [1]⟩, ⟨0, 0, some [0]⟩, ⟨0, 0, some [1]⟩]]⟩,
     ⟨[[⟨0, 1, some [7, 0, 0, 0]⟩], [⟨0, 0, some [0]⟩]]⟩] := by decide +kernel

end Carquet.Properties.C05
