import Carquet.Proofs.SpecWriterFile
import Carquet.Proofs.SpecWriterSizes
import Carquet.Spec.File
/-
C05, full strength — the independent whole-file reader accepts every file the writer reports
complete and returns exactly the table that was written.

`Spec.File.read` (Spec/File/Read.lean) is the reader written from the format documents; it shares
nothing with carquet and REJECTS a byte string unless every structural claim the file makes about
itself is true (envelope, footer with required fields, schema tree, chunks tiling `[4, footer)`
exactly, page headers chaining through each chunk, legal and listed encodings, CRC, decompressed
length, levels, values, true page statistics, counts pages → chunk → row group → file, and — since fix
F23 — the byte sizes the metadata state: `total_uncompressed_size` = Σ (page header + uncompressed page),
`RowGroup.total_byte_size` = Σ of the chunks' `total_uncompressed_size`).
`fileOf (Impl.FileReal.deps [])` is the byte-exact model of carquet's writer over the models of
its real components (tie: byte equality of whole files, op `wr`).

Statements only; the stages are in Proofs/SpecWriter{Inv,Run,Header,Page,Chunk,Footer,File,Sizes}.lean.
-/
namespace Carquet.Properties.C05
open Carquet.Impl Carquet.Impl.Writer Carquet.Impl.FileReal
open Carquet.Spec Carquet.Proofs.SpecWriter Carquet.Proofs.WriterTable

/-- The schema: at least one column; flat REQUIRED / OPTIONAL / REPEATED columns (everything
`carquet_schema_add_column` can build at the top level); a FIXED_LEN_BYTE_ARRAY column has a positive
length; and the schema fits the C structures and the Thrift parser's limits (fewer than 10000
columns, names that are C strings — NUL-free, shorter than 2^31 —, `type_length` an `int32_t`, the
parameters of a column's logical type within the members of `carquet_logical_type_t`: `int32_t` scale and
precision, `int8_t` bit_width).  Any logical type — every id, any parameters in those ranges, a NULL
pointer, id UNKNOWN — is allowed on any column: see Properties/C05/WLogical.lean. -/
structure SchemaOk (cols : List Col) : Prop where
  nonEmpty : cols ≠ []
  colsOk : ∀ c ∈ cols, ColOk c
  small : SchemaSmall cols

/-- The history respects the documented preconditions of `carquet_writer_write_batch`: the arrays
hold what the counts say (`HistWF`, `BatchOk`: one definition level ≤ 1 per entry for OPTIONAL and
REPEATED — 0 = null / empty list, 1 = value / list element —, one repetition level ≤ 1 per entry when
a rep_levels array is passed, as many dense values as entries with definition level 1 — an entry
with definition level 0 carries no value —, every value a PLAIN bit pattern of the column's type —
BOOLEAN one byte 0 / 1, BYTE_ARRAY shorter than 2^31);
all columns of a row group receive the same number of rows ("All columns must be written the same
number of rows before closing or starting a new row group", carquet.h), where the rows of a
REPEATED column are its entries with repetition level 0 (`ColData.recs`; a NULL rep_levels pointer
makes every entry a row);
and what a REPEATED column receives in a row group begins with repetition level 0 — a row group
begins with a new row (`FirstRepZero`).  All three are decidable from the history alone. -/
structure HistOk (cols : List Col) (ops : List Op) : Prop where
  wf : HistWF ops
  batches : ∀ b, Op.batch b ∈ ops → ∀ c, cols[b.col]? = some c → BatchOk c b
  aligned : ∀ g ∈ tableOf cols ops, ∀ n ∈ List.zipWith (fun (c : Col) (d : ColData) => d.recs c.maxRep) cols g,
    n = firstRecs cols g
  firstRep : ∀ g ∈ tableOf cols ops, ∀ cd ∈ List.zip cols g, FirstRepZero cd.1 cd.2

/-- The written file is small enough for the C integer types in which carquet keeps its numbers
(the model computes in unbounded `Nat`, so it speaks for the C code only under these): the file is
shorter than 2 GiB, has at most 32768 row groups (`RowGroup.ordinal` is an `int16_t`), and every
column chunk has fewer than 2^31 values and fewer than 2^31 uncompressed bytes — the
`num_values` / `total_uncompressed_size` the footer itself states (`mdOfRun` is the FileMetaData
`carquet_writer_close` serialises; page headers carry these quantities per page as `int32_t`). -/
def FileSizesOk (cols : List Col) (codec pageSize : Nat) (ops : List Op) : Prop :=
  OutputSmall (fileOf (deps []) cols codec pageSize "Carquet" ops).1 (mdOfRun (deps []) cols codec pageSize "Carquet" ops)

/-- **C05.**  For every schema, codec among UNCOMPRESSED / SNAPPY / LZ4 / LZ4_RAW, page size and write
history satisfying the preconditions above: if every call and the close returned OK, the
independent reader — with strict tiling — accepts the file and returns exactly the table the
history denotes. -/
theorem C05_spec_reader_accepts_writer
    (cols : List Col) (codec pageSize : Nat) (ops : List Op)
    (hcodec : codec = 0 ∨ codec = 1 ∨ codec = 5 ∨ codec = 7)
    (hschema : SchemaOk cols) (hhist : HistOk cols ops) (hsize : FileSizesOk cols codec pageSize ops)
    (hok : ∀ s ∈ (fileOf (deps []) cols codec pageSize "Carquet" ops).2, s = .ok) :
    Spec.File.read (fileOf (deps []) cols codec pageSize "Carquet" ops).1 (strictTiling := true)
      = .ok (specTableOf cols ops) :=
  have hf := run_facts (deps []) (goodPred []) cols codec pageSize "Carquet" ops hhist.wf hhist.batches hok
  read_written [] codec hcodec cols hschema.nonEmpty hschema.colsOk ops "Carquet" _ _ _ hf hhist.aligned hhist.firstRep
    (runSmall_of_output [] codec hcodec cols ops _ _ _ hf hschema.small hsize) []

/-- The same under the size conditions in their direct form (`RunSmall`: the footer data within
the limits `footerOk`, the footer shorter than 4 GiB, every page's uncompressed body, stored body and
row count below 2^31), which `FileSizesOk` implies. -/
theorem C05_spec_reader_accepts_writer_sizes
    (cols : List Col) (codec pageSize : Nat) (ops : List Op)
    (hcodec : codec = 0 ∨ codec = 1 ∨ codec = 5 ∨ codec = 7)
    (hne : cols ≠ []) (hcols : ∀ c ∈ cols, ColOk c) (hhist : HistOk cols ops)
    (hsize : RunSmall (mdOfRun (deps []) cols codec pageSize "Carquet" ops)
               (pagesOfRun (deps []) cols codec pageSize "Carquet" ops))
    (hok : ∀ s ∈ (fileOf (deps []) cols codec pageSize "Carquet" ops).2, s = .ok) :
    Spec.File.read (fileOf (deps []) cols codec pageSize "Carquet" ops).1 (strictTiling := true)
      = .ok (specTableOf cols ops) :=
  read_written [] codec hcodec cols hne hcols ops "Carquet" _ _ _
    (run_facts (deps []) (goodPred []) cols codec pageSize "Carquet" ops hhist.wf hhist.batches hok)
    hhist.aligned hhist.firstRep hsize []

/-! ### the stages, as statements of their own -/

/-- **One page.**  For a page record of column `c` that is the finalisation of a well-formed
page-builder content (`PageFacts`: `carquet_page_writer_finalize` of `r.src`, stored body =
`compress_data` of the body, sizes below 2^31), followed by any bytes: the independent reader parses
the hand-written header, checks the sizes, the CRC, decompresses to exactly the body, and decodes
the body (levels, PLAIN values, true statistics) to the entries of the page's content. -/
theorem C05_spec_reader_reads_page (codec : Nat) (hcodec : codec = 0 ∨ codec = 1 ∨ codec = 5 ∨ codec = 7)
    (c : Col) (hc : ColOk c) (r : PageRec) (hf : PageFacts [] codec c r) (rest : List UInt8) (cfg : File.Config) :
    File.readRawPage cfg codec (r.bytes (deps []) ++ rest) =
      .ok ⟨pageHdrOfWritten r.body.length r.comp.length (FileReal.crc32 r.comp) r.rows r.stats, r.body,
           (r.bytes (deps [])).length, rest⟩ ∧
    File.decodeDataPage (leafOf c) none ⟨r.rows, 0, 3, 3, r.stats.map statsMetaOf⟩ r.body =
      .ok (specChunkOf c (pageData r.src)) :=
  page_written [] cfg codec hcodec c (maxRep_lt c) (maxDef_le_one c) r hf rest

/-- **One column chunk** (the single-chunk statement): the bytes of a chunk — the concatenation of
`header ++ stored body` of ANY list of such page records, reachable by the writer or not — are read
by the reader's chunk stage, page after page to the last byte, to the column's entries; the value
count is the chunk's `num_values`. -/
theorem C05_spec_reader_reads_chunk (codec : Nat) (hcodec : codec = 0 ∨ codec = 1 ∨ codec = 5 ∨ codec = 7)
    (c : Col) (hc : ColOk c) (ps : List PageRec) (h : ∀ r ∈ ps, PageFacts [] codec c r)
    (hfirst : FirstRepZero c (pagesData ps)) (m : File.ColumnMeta)
    (henc : m.encodings = [0, 3]) (hmc : m.codec = codec) (hd : m.dictionaryPageOffset = none)
    (hnv : m.numValues = Carquet.Proofs.WriterPages.sumRows ps) (start : Nat) (cfg : File.Config) :
    File.readChunk cfg (leafOf c) m start (Carquet.Proofs.WriterPages.pagesBytes (deps []) ps) =
      .ok (specChunkOf c (pagesData ps)) :=
  readChunk_written [] cfg codec hcodec c (maxRep_lt c) (maxDef_le_one c) ps h hfirst m henc hmc hd hnv start

/-- **The footer.**  For footer data within the limits (`footerOk`), the footer carquet writes is
parsed by the independent reader — generic compact-protocol decoder, then extraction with the
REQUIRED-field rules of parquet.thrift — to version 2, the element list of the schema tree
`specSchemaOf cols`, `num_rows`, and the row-group / chunk metadata the writer assembled. -/
theorem C05_spec_reader_reads_footer (md : FooterData) (hok : Carquet.Proofs.FileRealFooter.footerOk md = true) :
    File.parseFooter (FileReal.footer md) = .ok (fileMetaOfWritten md) :=
  parseFooter_written md hok

/-- non-vacuity of the page / chunk statements: a Snappy page of an OPTIONAL INT32 column with one
null and statistics -/
private def exCol : Col := ⟨"a", .int32, .optional, 0, none⟩
private def exPage : Page :=
  { values := [[1, 0, 0, 0], [2, 0, 0, 0]], defs := [1, 0, 1], numValues := 3, numNulls := 1,
    minMax := some ([1, 0, 0, 0], [2, 0, 0, 0]) }

example : ColOk exCol := ⟨by decide⟩
example : PageFacts [] 1 exCol (pageRecOf (deps []) 1 exCol exPage) :=
  ⟨rfl, ⟨by decide +kernel, by decide⟩,
   ⟨by decide, by decide, by decide, by decide, by decide, by decide, by decide, by decide +kernel, by decide, by decide⟩,
   ⟨by decide +kernel, by decide +kernel, by decide⟩⟩

example : Carquet.Proofs.FileRealFooter.footerOk
    ⟨[exCol], "Carquet", 3, [⟨3, 40, 4, 40, 0, [⟨4, .int32, 1, 3, 40, 19, "a"⟩]⟩]⟩ = true := by decide +kernel

/-! ### non-vacuity: a two-column, two-row-group history (OPTIONAL INT32 with a null and page
statistics, REQUIRED BOOLEAN), Snappy-compressed, satisfies every hypothesis -/

private def exCols : List Col := [⟨"a", .int32, .optional, 0, none⟩, ⟨"b", .boolean, .required, 0, none⟩]
private def exOps : List Op :=
  [.batch ⟨0, 3, some [1, 0, 1], [[1, 0, 0, 0], [2, 0, 0, 0]], none⟩, .batch ⟨1, 3, none, [[1], [0], [1]], none⟩, .newRowGroup,
   .batch ⟨0, 1, none, [[7, 0, 0, 0]], none⟩, .batch ⟨1, 1, none, [[0]], none⟩]

private theorem exSchemaOk : SchemaOk exCols :=
  ⟨by decide, fun c hc => by
    simp only [exCols, List.mem_cons, List.mem_nil_iff, or_false] at hc
    rcases hc with rfl | rfl <;> exact ⟨by decide⟩,
   ⟨by decide, by decide +kernel, by decide, by decide⟩⟩

private theorem exHistOk : HistOk exCols exOps := by
  refine ⟨?_, ?_, by decide +kernel, by decide +kernel⟩
  · intro b hb
    simp only [exOps, List.mem_cons, Op.batch.injEq, List.mem_nil_iff, or_false, reduceCtorEq, false_or] at hb
    rcases hb with h | h | h | h <;> subst h <;>
      exact ⟨by decide, by intro ds h; cases h <;> rfl, (by intro rs h; cases h)⟩
  · intro b hb c hc
    simp only [exOps, List.mem_cons, Op.batch.injEq, List.mem_nil_iff, or_false, reduceCtorEq, false_or] at hb
    rcases hb with h | h | h | h <;> subst h <;>
      simp only [exCols, List.getElem?_cons_zero, List.getElem?_cons_succ, Option.some.injEq] at hc <;> subst hc <;>
      exact ⟨by decide, by intro ds h; cases h <;> rfl, by intro _ ds h; cases h <;> decide, by decide,
        (by intro rs h; cases h), (by intro _ rs h; cases h)⟩

private theorem exSizesOk : FileSizesOk exCols 1 64 exOps := ⟨by decide +kernel, by decide +kernel, by decide +kernel⟩

private theorem exAllOk : ((fileOf (deps []) exCols 1 64 "Carquet" exOps).2.all (· == .ok)) = true := by decide +kernel

/-- the theorem applied to the example: the reader returns the example's table -/
example : Spec.File.read (fileOf (deps []) exCols 1 64 "Carquet" exOps).1 (strictTiling := true) =
    .ok (specTableOf exCols exOps) :=
  C05_spec_reader_accepts_writer exCols 1 64 exOps (by decide) exSchemaOk exHistOk exSizesOk
    (fun s hs => by simpa using List.all_eq_true.mp exAllOk s hs)

/-- the table of the example: two row groups; column `a` of the first has a null entry -/
example : (specTableOf exCols exOps).rowGroups =
    [⟨[[⟨0, 1, some [1, 0, 0, 0]⟩, ⟨0, 0, none⟩, ⟨0, 1, some [2, 0, 0, 0]⟩],
       [⟨0, 0, some [1]⟩, ⟨0, 0, some [0]⟩, ⟨0, 0, some [1]⟩]]⟩,
     ⟨[[⟨0, 1, some [7, 0, 0, 0]⟩], [⟨0, 0, some [0]⟩]]⟩] := by decide +kernel

/-! ### non-vacuity for REPEATED columns: a REPEATED INT32 column first (lists [1,2], [], [3,4] — the
second batch continues the last list, i.e. a batch, and with page size 1 a page, ends inside a row —
then two one-element lists written with NULL level pointers) next to a REQUIRED column, two row
groups, LZ4_RAW -/

def rpCols : List Col := [⟨"l", .int32, .repeated, 0, none⟩, ⟨"k", .int32, .required, 0, none⟩]
def rpOps : List Op :=
  [.batch ⟨0, 4, some [1, 1, 0, 1], [[1, 0, 0, 0], [2, 0, 0, 0], [3, 0, 0, 0]], some [0, 1, 0, 0]⟩,
   .batch ⟨0, 1, none, [[4, 0, 0, 0]], some [1]⟩,
   .batch ⟨1, 3, none, [[10, 0, 0, 0], [11, 0, 0, 0], [12, 0, 0, 0]], none⟩, .newRowGroup,
   .batch ⟨0, 2, none, [[5, 0, 0, 0], [6, 0, 0, 0]], none⟩,
   .batch ⟨1, 2, none, [[13, 0, 0, 0], [14, 0, 0, 0]], none⟩]

theorem rpSchemaOk : SchemaOk rpCols :=
  ⟨by decide, fun c hc => by
    simp only [rpCols, List.mem_cons, List.mem_nil_iff, or_false] at hc
    rcases hc with rfl | rfl <;> exact ⟨by decide⟩,
   ⟨by decide, by decide +kernel, by decide, by decide⟩⟩

theorem rpHistOk : HistOk rpCols rpOps := by
  refine ⟨?_, ?_, by decide +kernel, by decide +kernel⟩
  · intro b hb
    simp only [rpOps, List.mem_cons, Op.batch.injEq, List.mem_nil_iff, or_false, reduceCtorEq, false_or] at hb
    rcases hb with h | h | h | h | h <;> subst h <;>
      exact ⟨by decide, (by intro ds h; cases h <;> rfl), (by intro rs h; cases h <;> rfl)⟩
  · intro b hb c hc
    simp only [rpOps, List.mem_cons, Op.batch.injEq, List.mem_nil_iff, or_false, reduceCtorEq, false_or] at hb
    rcases hb with h | h | h | h | h <;> subst h <;>
      simp only [rpCols, List.getElem?_cons_zero, List.getElem?_cons_succ, Option.some.injEq] at hc <;> subst hc <;>
      exact ⟨by decide, (by intro ds h; cases h <;> rfl), (by intro _ ds h; cases h <;> decide), by decide,
        (by intro rs h; cases h <;> rfl), (by intro _ rs h; cases h <;> decide)⟩

theorem rpSizesOk : FileSizesOk rpCols 7 1 rpOps := ⟨by decide +kernel, by decide +kernel, by decide +kernel⟩

theorem rpAllOk : ((fileOf (deps []) rpCols 7 1 "Carquet" rpOps).2.all (· == .ok)) = true := by decide +kernel

/-- the theorem applied: the independent reader accepts the file with the REPEATED column -/
example : Spec.File.read (fileOf (deps []) rpCols 7 1 "Carquet" rpOps).1 (strictTiling := true) =
    .ok (specTableOf rpCols rpOps) :=
  C05_spec_reader_accepts_writer rpCols 7 1 rpOps (by decide) rpSchemaOk rpHistOk rpSizesOk
    (fun s hs => by simpa using List.all_eq_true.mp rpAllOk s hs)

/-- its table: three rows [1,2], [], [3,4] in the first row group (five entries), [5], [6] in the second -/
example : (specTableOf rpCols rpOps).rowGroups =
    [⟨[[⟨0, 1, some [1, 0, 0, 0]⟩, ⟨1, 1, some [2, 0, 0, 0]⟩, ⟨0, 0, none⟩, ⟨0, 1, some [3, 0, 0, 0]⟩, ⟨1, 1, some [4, 0, 0, 0]⟩],
       [⟨0, 0, some [10, 0, 0, 0]⟩, ⟨0, 0, some [11, 0, 0, 0]⟩, ⟨0, 0, some [12, 0, 0, 0]⟩]]⟩,
     ⟨[[⟨0, 1, some [5, 0, 0, 0]⟩, ⟨0, 1, some [6, 0, 0, 0]⟩],
       [⟨0, 0, some [13, 0, 0, 0]⟩, ⟨0, 0, some [14, 0, 0, 0]⟩]]⟩] := by decide +kernel

/-- the rows per row group (`num_rows`): 3 and 2, not the 5 and 2 level entries of column 0 -/
example : (tableOf rpCols rpOps).map (firstRecs rpCols) = [3, 2] := by decide +kernel

/-! ### regression F64: the pinned code counted one row per level ENTRY of a REPEATED first column

`carquet_writer_write_batch` did `if (column_index == 0) current_row_group_rows += num_values`.
Witness (corpus/C05/fixed-F64-repeated-first-column-rows.ops): one REPEATED INT32 column, one batch
holding ONE row, the list [1, 2] (two entries, repetition levels 0 1).  Every call returned OK; the
footer said `num_rows = 2`; the independent reader rejects the file. -/

private def f62Cols : List Col := [⟨"c0", .int32, .repeated, 0, none⟩]
private def f62Ops : List Op := [.batch ⟨0, 2, some [1, 1], [[1, 0, 0, 0], [2, 0, 0, 0]], some [0, 1]⟩]
/-- the FileMetaData the pinned code assembled: one row group, `num_rows` 2 -/
private def f62Md : FooterData := ⟨f62Cols, "Carquet", 2, [⟨2, 59, 4, 59, 0, [⟨4, .int32, 0, 2, 59, 59, "c0"⟩]⟩]⟩

private theorem f62_split :
    File.splitFile (fileOfPreFixF64 (deps []) f62Cols 0 1048576 "Carquet" f62Ops).1 = .ok (63, FileReal.footer f62Md) := by
  decide +kernel

private theorem f62_rowGroups :
    File.readRowGroups ⟨true, []⟩ (fileOfPreFixF64 (deps []) f62Cols 0 1048576 "Carquet" f62Ops).1 63
      (f62Cols.map leafOf) (f62Md.rowGroups.map rgMetaOf) 4 = .error .rowGroupRowCountMismatch := by
  decide +kernel

/-- **Regression F64** (pinned code, kernel-checked): every call of the witness history returned OK
and the independent reader rejects the file — the row group claims 2 rows, its only column holds 1. -/
theorem C05_regression_F64 :
    (fileOfPreFixF64 (deps []) f62Cols 0 1048576 "Carquet" f62Ops).2 = [.ok, .ok] ∧
    Spec.File.read (fileOfPreFixF64 (deps []) f62Cols 0 1048576 "Carquet" f62Ops).1 (strictTiling := true) =
      .error .rowGroupRowCountMismatch := by
  refine ⟨by decide +kernel, ?_⟩
  have hfooter := parseFooter_written f62Md (by decide +kernel)
  have hschema := schemaOf_written f62Cols (by decide)
  have hleaves := columnsOf_written f62Cols (by decide) (fun c hc => by
    simp only [f62Cols, List.mem_cons, List.mem_nil_iff, or_false] at hc; subst hc; exact ⟨by decide⟩)
  have hc : f62Md.cols = f62Cols := rfl
  unfold File.read File.readWith
  simp only [f62_split, bind, Except.bind, hfooter, fileMetaOfWritten, hc, hschema, hleaves, f62_rowGroups]

/-- the repaired writer on the same history: accepted, one row -/
example : Spec.File.read (fileOf (deps []) f62Cols 0 1048576 "Carquet" f62Ops).1 (strictTiling := true) =
    .ok (specTableOf f62Cols f62Ops) :=
  C05_spec_reader_accepts_writer f62Cols 0 1048576 f62Ops (by decide)
    ⟨by decide, fun c hc => by
      simp only [f62Cols, List.mem_cons, List.mem_nil_iff, or_false] at hc; subst hc; exact ⟨by decide⟩,
     ⟨by decide, by decide +kernel, by decide, by decide⟩⟩
    ⟨fun b hb => by
      simp only [f62Ops, List.mem_cons, Op.batch.injEq, List.mem_nil_iff, or_false] at hb; subst hb
      exact ⟨by decide, (by intro ds h; cases h <;> rfl), (by intro rs h; cases h <;> rfl)⟩,
     fun b hb c hc => by
      simp only [f62Ops, List.mem_cons, Op.batch.injEq, List.mem_nil_iff, or_false] at hb; subst hb
      simp only [f62Cols, List.getElem?_cons_zero, Option.some.injEq] at hc; subst hc
      exact ⟨by decide, (by intro ds h; cases h <;> rfl), (by intro _ ds h; cases h <;> decide), by decide,
        (by intro rs h; cases h <;> rfl), (by intro _ rs h; cases h <;> decide)⟩,
     by decide +kernel, by decide +kernel⟩
    ⟨by decide +kernel, by decide +kernel, by decide +kernel⟩
    (fun s hs => by
      have : ((fileOf (deps []) f62Cols 0 1048576 "Carquet" f62Ops).2.all (· == .ok)) = true := by decide +kernel
      simpa using List.all_eq_true.mp this s hs)

example : (tableOf f62Cols f62Ops).map (firstRecs f62Cols) = [1] := by decide +kernel

end Carquet.Properties.C05
