import Carquet.Spec.File
import Carquet.Proofs.SpecFileEnvelope
import Carquet.Properties.C05.Writer
/-
C05 (independent-reader part) — the envelope stage of `Spec.File.read`, in both directions, and
its composition with the writer's envelope theorem.  The remaining stages of the independent
reader (footer with required fields, chunk tiling, page chaining, counts, encodings, CRC,
uncompressed sizes, true page statistics) are *evaluated* on every file the real writer
produces (harness component `filespec`, driver op `wrspec`): the predicate of C05 is
`Spec.File.read file (strictTiling := true) oracle = ok (table intended by the history)`.
-/
namespace Carquet.Properties.C05
open Carquet.Spec.File Carquet.Proofs.SpecFile

/-- A byte string of the form the format prescribes, `PAR1 ++ data ++ footer ++ le32 |footer| ++ PAR1`,
passes the envelope stage of the independent reader, which finds exactly `footer` at offset
`4 + |data|`. -/
theorem C05_envelope_accepted (data footer : Bytes) (h : footer.length < 2 ^ 32) :
    splitFile (fileOfParts data footer) = .ok (4 + data.length, footer) :=
  splitFile_fileOfParts data footer h

/-- Conversely the envelope stage accepts nothing else: whatever it accepts is
`PAR1 ++ data ++ footer ++ le32 |footer| ++ PAR1` for the footer it returns. -/
theorem C05_envelope_only {bs footer : Bytes} {fs : Nat} (h : splitFile bs = .ok (fs, footer)) :
    ∃ data, bs = fileOfParts data footer ∧ fs = 4 + data.length :=
  splitFile_inv h

example : splitFile [0x50, 0x41, 0x52, 0x31, 7, 0xAA, 0xBB, 2, 0, 0, 0, 0x50, 0x41, 0x52, 0x31] = .ok (5, [0xAA, 0xBB]) := by decide
example : splitFile [0x50, 0x41, 0x52, 0x31, 7, 0xAA, 0xBB, 9, 0, 0, 0, 0x50, 0x41, 0x52, 0x31] = .error .badFooterLength := by decide

/-- The writer's envelope theorem composed with the reader's: for every schema, options and
history, if `carquet_writer_close` returns OK (model) then the file is `PAR1 data footer len PAR1`
and — the footer being shorter than 4 GiB — the independent reader's envelope stage accepts it
and hands exactly the writer's footer bytes to the Thrift stage. -/
theorem C05_writer_envelope_accepted (D : Carquet.Impl.Writer.Deps) (cols : List Carquet.Impl.Writer.Col)
    (codec pageSize : Nat) (createdBy : String) (ops : List Carquet.Impl.Writer.Op)
    (hok : (Carquet.Impl.Writer.fileOf D cols codec pageSize createdBy ops).2.getLast? = some .ok) :
    ∃ (data ftr : Bytes), (Carquet.Impl.Writer.fileOf D cols codec pageSize createdBy ops).1 = fileOfParts data ftr ∧
      (ftr.length < 2 ^ 32 →
        splitFile (Carquet.Impl.Writer.fileOf D cols codec pageSize createdBy ops).1 = .ok (4 + data.length, ftr)) := by
  obtain ⟨data, ftr, h⟩ := C05_envelope D cols codec pageSize createdBy ops hok
  have hle : Carquet.Impl.Writer.le32 ftr.length = leBytes 4 ftr.length := by
    simp [Carquet.Impl.Writer.le32, leBytes, Nat.div_div_eq_div_mul]
  have he : Carquet.Impl.Writer.magic ++ data ++ ftr ++ Carquet.Impl.Writer.le32 ftr.length ++ Carquet.Impl.Writer.magic
      = fileOfParts data ftr := by
    rw [hle]; rfl
  refine ⟨data, ftr, ?_, ?_⟩
  · rw [h, he]
  · intro hl; rw [h, he]; exact splitFile_fileOfParts data ftr hl

end Carquet.Properties.C05
