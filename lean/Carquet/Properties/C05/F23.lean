import Carquet.Properties.C05.Writer
import Carquet.Properties.C05.SpecWriter
import Carquet.Impl.WriterPreFixF23
/-
C05, "uncompressed sizes that match" — `ColumnMetaData.total_uncompressed_size` and
`RowGroup.total_byte_size` (finding F23, repaired).

parquet.thrift: `total_uncompressed_size` = "total byte size of all uncompressed pages in this column
chunk (including the headers)"; `RowGroup.total_byte_size` = "Total byte size of all the uncompressed
column data in this row group".  The pinned writer recorded the sum of the uncompressed page BODIES in
the first and the COMPRESSED chunk sizes in the second; because every carquet file had this, the
independent reader did not look at the two fields.  After fix F23

  * the writer model (`Impl.Writer.flushPage`, `flushRowGroup`) records Σ (page header + uncompressed
    body) and Σ of the chunks' `total_uncompressed_size` (`C05_uncompressed_sizes_match`, for every
    schema, option set and history, generic in the byte-level components);
  * the independent reader CHECKS both (`Spec.File.chunkUsize`, reasons
    `chunkUncompressedSizeMismatch` / `rowGroupByteSizeMismatch`):
    `C05_reader_checks_chunk_uncompressed_size`, `C05_reader_checks_row_group_byte_size` say that it
    accepts nothing else; `C05_spec_reader_accepts_writer` (Properties/C05/SpecWriter.lean) and
    `C06_reference_selfconsistent` (Properties/C06/SpecFileFull.lean) are proved for this reader;
  * `C05_regression_F23` keeps the pinned behaviour as a kernel-checked counterexample.
-/
namespace Carquet.Properties.C05
open Carquet.Impl Carquet.Impl.Writer Carquet.Impl.FileReal
open Carquet.Spec Carquet.Proofs.SpecWriter Carquet.Proofs.WriterTable
open Carquet.Proofs.WriterLayout Carquet.Proofs.WriterPages

/-! ### the writer -/

/-- the chunks of a row group state Σ (header + uncompressed body) over their pages -/
def ChunksUsize (D : Deps) : List ChunkMeta → List (List PageRec) → Prop
  | [], [] => True
  | m :: ms, ps :: pss => m.totalUncompressed = (ps.map (fun r => (r.header D).length + r.body.length)).sum ∧ ChunksUsize D ms pss
  | _, _ => False

theorem chunksUsize_of_allChunks (D : Deps) (codec : Nat) : ∀ (ms : List ChunkMeta) (pss : List (List PageRec)),
    AllChunks D codec ms pss → ChunksUsize D ms pss
  | [], [], _ => trivial
  | m :: ms, ps :: pss, h => ⟨h.1.2.2.1, chunksUsize_of_allChunks D codec ms pss h.2⟩
  | [], _ :: _, h => by simp [AllChunks] at h
  | _ :: _, [], h => by simp [AllChunks] at h

/-- every row group: its chunks state Σ (header + uncompressed body) over their pages, and
`total_byte_size` is the sum of the chunks' `total_uncompressed_size` -/
def GroupsUsize (D : Deps) : List RgMeta → List (List (List PageRec)) → Prop
  | [], [] => True
  | g :: gms, pss :: gs =>
    (ChunksUsize D g.chunks pss ∧ g.totalByteSize = (g.chunks.map (·.totalUncompressed)).sum) ∧ GroupsUsize D gms gs
  | _, _ => False

theorem groupsUsize_of (D : Deps) (codec : Nat) : ∀ (gms : List RgMeta) (gs : List (List (List PageRec))) (start : Nat),
    GroupsAt gms start → AllGroups D codec gms gs → GroupsUsize D gms gs
  | [], [], _, _, _ => trivial
  | g :: gms, pss :: gs, start, h2, h3 =>
    ⟨⟨chunksUsize_of_allChunks D codec g.chunks pss h3.1, h2.2.2.2.1⟩,
     groupsUsize_of D codec gms gs _ h2.2.2.2.2 h3.2⟩
  | [], _ :: _, _, _, h => by simp [AllGroups] at h
  | _ :: _, [], _, _, h => by simp [AllGroups] at h

/-- **The uncompressed sizes match.**  For every schema, options and history (generic in the byte-level
components): if close returns OK, the file is `PAR1 ++ pages ++ footer(md) ++ len ++ PAR1` (as in
`C05_pages_chain`) and, in `md`,
* every column chunk's `total_uncompressed_size` is the sum over the chunk's pages of
  |page header| + |uncompressed page body| — the headers being exactly the bytes in front of each
  stored body in the file (`PageRec.bytes = header ++ comp`);
* every row group's `total_byte_size` is the sum of its chunks' `total_uncompressed_size`. -/
theorem C05_uncompressed_sizes_match (D : Deps) (cols : List Col) (codec pageSize : Nat) (createdBy : String)
    (ops : List Op)
    (hok : (fileOf D cols codec pageSize createdBy ops).2.getLast? = some .ok) :
    ∃ (md : FooterData) (gs : List (List (List PageRec))),
      (fileOf D cols codec pageSize createdBy ops).1 =
        magic ++ dataBytes D gs ++ D.footer md ++ le32 (D.footer md).length ++ magic ∧
      (∀ r : PageRec, r.bytes D = r.header D ++ r.comp) ∧
      GroupsUsize D md.rowGroups gs := by
  obtain ⟨md, gs, h1, h2, h3⟩ := C05_pages_chain D cols codec pageSize createdBy ops hok
  exact ⟨md, gs, h1, fun r => rfl, groupsUsize_of D codec _ _ 4 h2 h3⟩

/- non-vacuity: the two-column, two-row-group history of Properties/C05/Writer.lean closes OK; its footer
states 50 + 51 and 46 + 40 bytes (headers included), row groups 101 and 86 -/
example : (fileOf (deps []) [⟨"a", .int32, .optional, 0, none⟩, ⟨"b", .boolean, .required, 0, none⟩] 0 64 "Carquet"
    [.batch ⟨0, 3, some [1, 0, 1], [[1, 0, 0, 0], [2, 0, 0, 0]], none⟩, .batch ⟨1, 3, none, [[1], [0], [1]], none⟩, .newRowGroup,
     .batch ⟨0, 1, none, [[7, 0, 0, 0]], none⟩, .batch ⟨1, 1, none, [[0]], none⟩]).2.getLast? = some .ok := by
  decide +kernel

/-! ### the independent reader checks both fields -/

/-- **The reader accepts a chunk only with the right `total_uncompressed_size`**: whenever the chunk
loop of `Spec.File.read` succeeds on a column chunk, the chunk's `total_uncompressed_size` is what
`chunkUsize` computes from the chunk's own bytes — Σ over its pages of (length of the page header +
`uncompressed_page_size`). -/
theorem C05_reader_checks_chunk_uncompressed_size (cfg : File.Config) (file : File.Bytes) (footerStart : Nat)
    (leaf : File.LeafInfo) (ls : List File.LeafInfo) (m : File.ColumnMeta) (ms : List File.ColumnMeta) (pos : Nat)
    (r : List File.Chunk × Nat)
    (h : File.readChunks cfg file footerStart (leaf :: ls) (m :: ms) pos = .ok r) :
    File.chunkUsize (m.totalCompressed + 1) ((file.drop (File.chunkStart m)).take m.totalCompressed) =
      some m.totalUncompressed := by
  unfold File.readChunks at h
  simp only [bind, Except.bind, pure, Except.pure, throw, throwThe, MonadExceptOf.throw] at h
  repeat' split at h
  all_goals first
    | (cases h; done)
    | (rename_i hu _ _ _; simpa using hu)
    | skip
  all_goals (try (rename_i hu _ _ ; simpa using hu))

/-- **The reader accepts a row group only with the right `total_byte_size`**: the sum of its chunks'
`total_uncompressed_size`. -/
theorem C05_reader_checks_row_group_byte_size (cfg : File.Config) (file : File.Bytes) (footerStart : Nat)
    (leaves : List File.LeafInfo) (g : File.RowGroupMeta) (gs : List File.RowGroupMeta) (pos : Nat)
    (r : List File.RowGroup × Nat)
    (h : File.readRowGroups cfg file footerStart leaves (g :: gs) pos = .ok r) :
    (g.columns.map (·.totalUncompressed)).sum = g.totalByteSize := by
  unfold File.readRowGroups at h
  simp only [bind, Except.bind, pure, Except.pure, throw, throwThe, MonadExceptOf.throw] at h
  repeat' split at h
  all_goals first
    | (cases h; done)
    | (rename_i hu _ _ _; simpa using hu)
    | skip
  all_goals (try (rename_i hu _ _ ; simpa using hu))

/-! ### regression F23: the pinned writer left the page headers out of `total_uncompressed_size` and put the
compressed chunk sizes into `RowGroup.total_byte_size`

`flush_current_page` did `total_uncompressed_size += uncompressed_size`, `carquet_row_group_writer_finalize`
`total_byte_size += col_size` (Impl/WriterPreFixF23.lean).  Witnesses (corpus/C05/fixed-F23-uncompressed-sizes.ops):
one REQUIRED INT32 column, one batch.  (a) two values, UNCOMPRESSED: the page is an 8-byte body behind a 38-byte
header; the footer said `total_uncompressed_size = 8`.  (b) sixteen equal values, SNAPPY: a 64-byte body stored in
9 bytes behind a 40-byte header; the footer said `total_uncompressed_size = 64` and `total_byte_size = 49` (the
compressed chunk) where the format defines 104 for both.  Every call returned OK. -/

private def f23Cols : List Col := [⟨"c0", .int32, .required, 0, none⟩]
private def f23Ops : List Op := [.batch ⟨0, 2, none, [[1, 0, 0, 0], [2, 0, 0, 0]], none⟩]
private def f23OpsB : List Op := [.batch ⟨0, 16, none, List.replicate 16 [7, 0, 0, 0], none⟩]
/-- the FileMetaData the pinned code assembled for (a) -/
private def f23Md : FooterData := ⟨f23Cols, "Carquet", 2, [⟨2, 46, 4, 46, 0, [⟨4, .int32, 0, 2, 46, 8, "c0"⟩]⟩]⟩

private theorem f23_md : footerDataPreFixF23 (deps []) f23Cols 0 1048576 "Carquet" f23Ops = f23Md := by decide +kernel

private theorem f23_split :
    File.splitFile (fileOfPreFixF23 (deps []) f23Cols 0 1048576 "Carquet" f23Ops).1 = .ok (50, FileReal.footer f23Md) := by
  decide +kernel

private theorem f23_rowGroups :
    File.readRowGroups ⟨true, []⟩ (fileOfPreFixF23 (deps []) f23Cols 0 1048576 "Carquet" f23Ops).1 50
      (f23Cols.map leafOf) (f23Md.rowGroups.map rgMetaOf) 4 = .error .chunkUncompressedSizeMismatch := by
  decide +kernel

/-- **Regression F23** (pinned code, kernel-checked).  On witness (a) every call returned OK, the footer's
`total_uncompressed_size` is 8 while the chunk's single page has header + uncompressed body = 46 bytes, and the
independent reader rejects the file (`chunkUncompressedSizeMismatch`).  On witness (b) the footer's
`total_uncompressed_size` is 64 and `RowGroup.total_byte_size` 49 where header + uncompressed body is 104. -/
theorem C05_regression_F23 :
    (fileOfPreFixF23 (deps []) f23Cols 0 1048576 "Carquet" f23Ops).2 = [.ok, .ok] ∧
    (footerDataPreFixF23 (deps []) f23Cols 0 1048576 "Carquet" f23Ops).rowGroups.map
        (fun g => g.chunks.map (·.totalUncompressed)) = [[8]] ∧
    (closingStatePreFixF23 (deps []) f23Cols 0 1048576 "Carquet" f23Ops).pagesDone.map
        (fun g => g.map (sumUsize (deps []))) = [[46]] ∧
    Spec.File.read (fileOfPreFixF23 (deps []) f23Cols 0 1048576 "Carquet" f23Ops).1 (strictTiling := true) =
      .error .chunkUncompressedSizeMismatch ∧
    (fileOfPreFixF23 (deps []) f23Cols 1 1048576 "Carquet" f23OpsB).2 = [.ok, .ok] ∧
    (footerDataPreFixF23 (deps []) f23Cols 1 1048576 "Carquet" f23OpsB).rowGroups.map
        (fun g => (g.totalByteSize, g.chunks.map (·.totalUncompressed))) = [(49, [64])] ∧
    (closingStatePreFixF23 (deps []) f23Cols 1 1048576 "Carquet" f23OpsB).pagesDone.map
        (fun g => g.map (sumUsize (deps []))) = [[104]] := by
  refine ⟨by decide +kernel, by decide +kernel, by decide +kernel, ?_, by decide +kernel, by decide +kernel,
    by decide +kernel⟩
  have hfooter := parseFooter_written f23Md (by decide +kernel)
  have hschema := schemaOf_written f23Cols (by decide)
  have hleaves := columnsOf_written f23Cols (by decide) (fun c hc => by
    simp only [f23Cols, List.mem_cons, List.mem_nil_iff, or_false] at hc; subst hc; exact ⟨by decide⟩)
  have hc : f23Md.cols = f23Cols := rfl
  unfold File.read File.readWith
  simp only [f23_split, bind, Except.bind, hfooter, fileMetaOfWritten, hc, hschema, hleaves, f23_rowGroups]

/-- the repaired writer on the same histories: 46 and 104 in the footer -/
example : (mdOfRun (deps []) f23Cols 0 1048576 "Carquet" f23Ops).rowGroups.map
      (fun g => (g.totalByteSize, g.chunks.map (·.totalUncompressed))) = [(46, [46])] ∧
    (mdOfRun (deps []) f23Cols 1 1048576 "Carquet" f23OpsB).rowGroups.map
      (fun g => (g.totalByteSize, g.chunks.map (·.totalUncompressed))) = [(104, [104])] := by
  constructor <;> decide +kernel

/- non-vacuity of `C05_reader_checks_chunk_uncompressed_size` / `C05_reader_checks_row_group_byte_size`: on the file of the
repaired writer for witness (a) the chunk loop and the row-group loop of the reader succeed (and end at the footer, offset 50) -/
example : (File.readChunks ⟨true, []⟩ (fileOf (deps []) f23Cols 0 1048576 "Carquet" f23Ops).1 50 (f23Cols.map leafOf)
      [cmOf ⟨4, .int32, 0, 2, 46, 46, "c0"⟩] 4).toOption.map (·.2) = some 50 ∧
    (File.readRowGroups ⟨true, []⟩ (fileOf (deps []) f23Cols 0 1048576 "Carquet" f23Ops).1 50 (f23Cols.map leafOf)
      [rgMetaOf ⟨2, 46, 4, 46, 0, [⟨4, .int32, 0, 2, 46, 46, "c0"⟩]⟩] 4).toOption.map (·.2) = some 50 := by
  constructor <;> decide +kernel

/-- the repaired writer on witness (a): accepted by the independent reader, which checks both fields -/
example : Spec.File.read (fileOf (deps []) f23Cols 0 1048576 "Carquet" f23Ops).1 (strictTiling := true) =
    .ok (specTableOf f23Cols f23Ops) :=
  C05_spec_reader_accepts_writer f23Cols 0 1048576 f23Ops (by decide)
    ⟨by decide, fun c hc => by
      simp only [f23Cols, List.mem_cons, List.mem_nil_iff, or_false] at hc; subst hc; exact ⟨by decide⟩,
     ⟨by decide, by decide +kernel, by decide, by decide⟩⟩
    ⟨fun b hb => by
      simp only [f23Ops, List.mem_cons, Op.batch.injEq, List.mem_nil_iff, or_false] at hb; subst hb
      exact ⟨by decide, (by intro ds h; cases h), (by intro rs h; cases h)⟩,
     fun b hb c hc => by
      simp only [f23Ops, List.mem_cons, Op.batch.injEq, List.mem_nil_iff, or_false] at hb; subst hb
      simp only [f23Cols, List.getElem?_cons_zero, Option.some.injEq] at hc; subst hc
      exact ⟨by decide, (by intro ds h; cases h), (by intro _ ds h; cases h), by decide,
        (by intro rs h; cases h), (by intro _ rs h; cases h)⟩,
     by decide +kernel, by decide +kernel⟩
    ⟨by decide +kernel, by decide +kernel, by decide +kernel⟩
    (fun s hs => by
      have : ((fileOf (deps []) f23Cols 0 1048576 "Carquet" f23Ops).2.all (· == .ok)) = true := by decide +kernel
      simpa using List.all_eq_true.mp this s hs)

end Carquet.Properties.C05
